"""C01 — spherical-harmonic analysis inverts synthesis; discrete orthonormality."""
from __future__ import annotations

import math

import sympy as sp

from sa import alg, guards, match, sym, util
from sa.model import AnalysisError
from sa.sym import Term

AL = 'associated_legendre'
FO = 'fourier'
SH = 'spherical_harmonic'
PE = 'primitive_equations'

CLAIM = dict(
    text=('Decides the constants and wiring without which analysis cannot invert synthesis: the normalised associated-Legendre recurrence uses a = 1/ε(m+k,m), '
          'b = ε(m+k−1,m), the seeds 1/√2 and −√(1+1/2m)·√(1−x²), the right previous rows and index ranges, and `evaluate` places row m at l = m…; the latitude '
          'weights of the two equiangular node sets come from the moment equations of the same Legendre evaluation (normalised to 2), Gauss nodes from '
          'roots_legendre, longitude nodes are equispaced on [0, 2π) with weight 2π/n; in both transform classes every analysis einsum is the adjoint of the '
          'synthesis einsum on the same basis operand (subscripts swapped, contraction over nodes vs. modes, reversed order, stack/unstack paired, same '
          'Fortran memory order in all three reshapes), the quadrature weight w = w_lon·w_lat multiplies the input of analysis exactly once and never synthesis, '
          'padding of f, p, w is zero padding; Grid.integrate contracts both nodal axes with w·radius²; the masks are |m| ≤ l (and, for the fast layout, the '
          'padding / zero-imaginary-row conjuncts); the spectral constant √(4π) literal is correct to 5e-8. Also decided: no function updates in place an object that may alias shared state (cached_property values such as the basis / quadrature weights, dataclass fields, module constants: may-alias analysis over augmented assignments, subscript stores and mutating calls). Does not decide round-trip residuals or exactness '
          'of the quadrature numerically.'
          ' Later additions: C01.8 the named factory grids resolve their truncation (node counts vs. dealiasing order), C01.9 metric factors (cos/sec of latitude) as normal forms, C01.7 extended to hand-rolled memo tables (the key must cover every parameter path the cached value is computed from).'),
    note=('Reference: ε(l,m) = √((l²−m²)/(4l²−1)); P̄_l^m = (x·P̄_(l−1)^m − ε(l−1,m)·P̄_(l−2)^m)/ε(l,m); P̄_m^m = −√(1+1/2m)·√(1−x²)·P̄_(m−1)^(m−1); P̄_0^0 = 1/√2 '
          '(unit L²[−1,1] norm). einsum semantics; np.pad default = zero padding.'),
    technique='normal forms of recurrence constants (sympy canonicalisation) + einsum-subscript algebra (adjoint pairing) + dependence / structural matching',
)


def S(n):
  return Term('sym', n)


def selfsym(prog, cq):
  c = prog.cls(cq)
  return Term('sym', f'self:{c.name}', cls=c)


# ----------------------------------------------------- Legendre recurrence
def rule_legendre(chk, prog):
  rule = 'C01.1-legendre-recurrence'
  ev = sym.Evaluator(prog)
  f = prog.func(f'{AL}._evaluate_rhombus')
  v, ctx, env = ev.run(f)
  site, loc = f'{AL}._evaluate_rhombus', (f.file, f.lineno)
  chk.require(v.k == 'loop', f'{site}: result is not built by the degree loop: {sym.show(v)[:100]}')
  name, init, body, lvk, uid = v.a
  bk = loop_range(lvk)
  chk.check(bk is not None and bk[0] == sym.const(1) and bk[1] == S('n_l'), rule, f'{site}: the degree loop runs k = 1 … n_l−1', sym.show(lvk.a[1]), loc, 'range(1, n_l)', sym.show(lvk.a[1]))
  chk.require(body.k == 'store' and body.a[3] == '=', f'{site}: degree loop does not assign p[k, …]')
  idx, val = body.a[1], body.a[2]
  pc = Term('carried', name, uid)
  # named atoms
  is_m = lambda t: (t.k == 'call' and t.a[0].k == 'attr' and t.a[0].a[1] == 'reshape' and match.is_ext_call(t.a[0].a[0], 'arange'))
  psubs = [t for t in sym.walk(val) if t.k == 'sub' and t.a[0] == pc]
  A = alg.Algebra(ev, opaque=lambda t: t in psubs)
  m = A.name(is_m, 'm', positive=True)
  k = A.name(lambda t: t == lvk, 'k', positive=True)
  x = A.name(lambda t: t == S('x'), 'x')
  ok = idx.k == 'tuple' and len(idx.a) == 2 and idx.a[0] == lvk and idx.a[1].k == 'slice' and idx.a[1].a[0] == sym.NONE
  chk.check(ok, rule, f'{site}: row k is assigned for orders 0 … m_max−1', sym.show(idx), loc)
  rows = {}
  for t in psubs:
    i = t.a[1]
    if i.k == 'tuple' and len(i.a) == 2 and i.a[1] == (idx.a[1] if ok else None):
      try:
        off = sp.simplify(A.conv(i.a[0]) - k)
      except Exception:
        off = None
      rows[off] = t
  if not chk.check(set(rows) == {-1, -2} and len(psubs) == 2, rule, f'{site}: row k depends on rows k−1 and k−2 over the same orders', str([sym.show(t.a[1]) for t in psubs]), loc,
                   'p[k-1, :m_max], p[k-2, :m_max]', str([sym.show(t.a[1]) for t in psubs])):
    return
  e = sp.expand(A.conv(val))
  P1, P2 = A.atom(rows[-1]), A.atom(rows[-2])
  res = alg.linear_coeffs(e, [P1, P2])
  if not chk.check(res is not None and res[1] == 0, rule, f'{site}: row k is a linear combination of rows k−1, k−2', str(e)[:200], loc):
    return
  c1, c2 = res[0]
  l = m + k
  eps2 = lambda L: (L**2 - m**2) / (4 * L**2 - 1)
  a2 = sp.simplify((c1 / x) ** 2)
  chk.check(alg.equal(a2, 1 / eps2(l)) and not sp.simplify(c1 / x).could_extract_minus_sign(), rule,
            f'{site}: coefficient of x·p[k−1] is 1/ε(m+k, m) = √((4(m+k)²−1)/((m+k)²−m²))', f'square: {sp.factor(a2)}', loc, str(sp.factor(1 / eps2(l))), str(sp.factor(a2)))
  b2 = sp.simplify((c2 / (c1 / x)) ** 2)
  neg = sp.simplify(c2 / (c1 / x)).could_extract_minus_sign()
  chk.check(alg.equal(b2, eps2(l - 1)) and neg, rule, f'{site}: coefficient of p[k−2] is −ε(m+k−1, m)/ε(m+k, m)', f'(c₂/a)² = {sp.factor(b2)}, negative: {neg}', loc,
            str(sp.factor(eps2(l - 1))), str(sp.factor(b2)))
  # seeds: walk the init chain
  t = init
  seed_loop = None
  seeds = []
  while t.k in ('loop', 'store'):
    if t.k == 'loop':
      seed_loop = t
      t = t.a[1]
    else:
      seeds.append(t)
      t = t.a[0]
  chk.check(match.is_ext_call(t, 'zeros'), rule, f'{site}: the table starts from zeros', sym.show(t)[:120], loc)
  ok00 = False
  for s_ in seeds:
    if s_.a[1] == Term('tuple', sym.const(0), sym.const(0)):
      B = alg.Algebra(ev, opaque=lambda z: z.k == 'sub')
      valb = sp.expand(B.conv(s_.a[2]))
      const = valb.subs({sy: 0 for sy in valb.free_symbols})
      ok00 = alg.equal(const**2, sp.Rational(1, 2)) and const > 0
      chk.check(ok00, rule, f'{site}: P̄₀⁰ = 1/√2 (unit L² norm on [−1, 1])', str(const), s_.loc or loc, '1/sqrt(2)', str(const))
  if not seeds:
    chk.violation(rule, f'{site}: P̄₀⁰ seed', 'no assignment of p[0, 0] found', loc)
  if chk.check(seed_loop is not None, rule, f'{site}: sectoral seeds P̄_m^m are built by a loop over m', '', loc):
    sname, sinit, sbody, lvm, suid = seed_loop.a
    bm = loop_range(lvm)
    chk.check(bm is not None and bm[0] == sym.const(1) and bm[1] == S('n_m'), rule, f'{site}: the sectoral loop runs m = 1 … n_m−1', sym.show(lvm.a[1]), loc, 'range(1, n_m)', sym.show(lvm.a[1]))
    spc = Term('carried', sname, suid)
    oks = sbody.k == 'store' and sbody.a[1] == Term('tuple', sym.const(0), lvm)
    if chk.check(oks, rule, f'{site}: the sectoral loop assigns p[0, m]', sym.show(sbody.a[1]) if sbody.k == 'store' else sym.show(sbody)[:80], loc):
      prev = Term('sub', spc, Term('tuple', sym.const(0), Term('bin', '-', lvm, sym.const(1))))
      C = alg.Algebra(ev, opaque=lambda z: z == prev)
      mm = C.name(lambda z: z == lvm, 'm', positive=True)
      xx = C.name(lambda z: z == S('x'), 'x', real=True)
      es = sp.expand(C.conv(sbody.a[2]))
      Pp = C.atom(prev)
      cf = es.coeff(Pp, 1)
      okc = sp.simplify(es - cf * Pp) == 0 and alg.equal(sp.simplify(cf**2), (1 + sp.Rational(1, 2) / mm) * (1 - xx**2)) and sp.simplify(cf).could_extract_minus_sign()
      chk.check(okc, rule, f'{site}: P̄_m^m = −√(1 + 1/(2m))·√(1−x²)·P̄_(m−1)^(m−1)', str(sp.simplify(cf)), sbody.loc or loc, '-sqrt(1 + 1/(2*m))*sqrt(1 - x**2)', str(sp.simplify(cf)))
  # evaluate: placement of row m at l = m…
  ev2 = sym.Evaluator(prog, sym.Options(opaque={f'{AL}._evaluate_rhombus'}))
  g = prog.func(f'{AL}.evaluate')
  v, ctx, env = ev2.run(g)
  site, loc = f'{AL}.evaluate', (g.file, g.lineno)
  conds = [sym.show(guards.path_cond(p)) for p, e_, l_ in ctx.raises]
  chk.check('(n_m > n_l)' in conds or '(n_l < n_m)' in conds, rule, f'{site}: rejects n_m > n_l', str(conds), loc, 'raise if n_m > n_l', str(conds))
  okl = v.k == 'loop' and v.a[2].k == 'store'
  if chk.check(okl, rule, f'{site}: fills the (m, node, l) table row by row', sym.show(v)[:120], loc):
    lvm = v.a[3]
    st = v.a[2]
    sl = lambda a, b: Term('slice', a, b, sym.NONE)
    full = Term('slice', sym.NONE, sym.NONE, sym.NONE)
    want_idx = Term('tuple', lvm, full, sl(lvm, S('n_l')))
    src = st.a[2]
    okp = st.a[1] == want_idx and src.k == 'sub' and src.a[1] == Term('tuple', lvm, full, sl(sym.const(0), Term('bin', '-', S('n_l'), lvm)))
    chk.check(okp, rule, f'{site}: p[m, :, m:n_l] = r[m, :, 0:n_l−m] (degree index l = m + k)', f'{sym.show(st.a[1])} = …{sym.show(src.a[1]) if src.k == "sub" else ""}', loc)
    if src.k == 'sub':
      r = src.a[0]
      okt = match.is_ext_call(r, 'transpose') and r.a[1][1] == Term('tuple', sym.const(1), sym.const(2), sym.const(0)) and util.callee_name(r.a[1][0]) == '_evaluate_rhombus'
      chk.check(okt, rule, f'{site}: the rhombus table (k, m, node) is transposed to (m, node, k)', sym.show(r)[:160], loc)
      if okt:
        b = ev2.bind_args(f, list(r.a[1][0].a[1]), list(r.a[1][0].a[2]), None, None)
        chk.check(b is not None and b['n_l'] == S('n_l') and b['n_m'] == S('n_m') and b['x'] == S('x') and b['truncation'] == sym.const('triangle'), rule,
                  f'{site}: calls the recurrence with (n_l, n_m, x) and triangular truncation', str({k_: sym.show(v_) for k_, v_ in (b or {}).items()}), loc)
    bm = loop_range(lvm)
    chk.check(bm is not None and bm[0] == sym.const(0) and bm[1] == S('n_m'), rule, f'{site}: all orders m = 0 … n_m−1 are filled', sym.show(lvm.a[1]), loc)
  chk.at_least(rule, 14)


def loop_range(lv):
  it = lv.a[1]
  if it.k == 'call' and it.a[0] == Term('ext', 'range'):
    args = it.a[1]
    if len(args) == 1:
      return sym.const(0), args[0]
    if len(args) == 2:
      return args[0], args[1]
  return None


# ----------------------------------------------------------- quadrature
def rule_quadrature(chk, prog):
  rule = 'C01.6-quadrature'
  ev = sym.Evaluator(prog, sym.Options(opaque={f'{AL}._compute_weights'}))
  A = alg.Algebra(ev)
  n = A.name(lambda t: t == S('n'), 'n', positive=True)
  for fname, lo, hi in (('equiangular_nodes', -sp.pi / 2 + sp.pi / n / 2, sp.pi / 2 - sp.pi / n / 2), ('equiangular_nodes_with_poles', -sp.pi / 2, sp.pi / 2)):
    f = prog.func(f'{AL}.{fname}')
    v, _, _ = ev.run(f)
    site, loc = f'{AL}.{fname}', (f.file, f.lineno)
    ok = v.k == 'tuple' and len(v.a) == 2 and match.is_ext_call(v.a[0], 'sin') and match.is_ext_call(v.a[0].a[1][0], 'linspace')
    if not chk.check(ok, rule, f'{site}: nodes are sin of equally spaced latitudes', sym.show(v)[:160], loc):
      continue
    ls = v.a[0].a[1][0]
    args = list(ls.a[1])
    okr = len(args) >= 3 and alg.equal(A.conv(args[0]), lo) and alg.equal(A.conv(args[1]), hi) and args[2] == S('n') and not ls.a[2]
    chk.check(okr, rule, f'{site}: latitudes = linspace({lo}, {hi}, n) — symmetric about the equator', sym.show(ls), loc, f'linspace({lo}, {hi}, n)', sym.show(ls))
    okw = v.a[1].k == 'call' and util.callee_name(v.a[1]) == '_compute_weights' and list(v.a[1].a[1]) == [v.a[0]]
    chk.check(okw, rule, f'{site}: weights are computed from these very nodes by _compute_weights', sym.show(v.a[1])[:120], loc)
  ev2 = sym.Evaluator(prog, sym.Options(opaque={f'{AL}.evaluate'}))
  f = prog.func(f'{AL}._compute_weights')
  v, _, _ = ev2.run(f)
  site, loc = f'{AL}._compute_weights', (f.file, f.lineno)
  solves = list({t for t in sym.walk(v) if t.k == 'call' and t.a[0] == Term('ext', 'numpy.linalg.solve')})
  if chk.check(len(solves) == 1, rule, f'{site}: weights solve one linear system (moment matching)', sym.show(v)[:200], loc, 'np.linalg.solve(legendre, e0)', sym.show(v)[:200]):
    Mx, rhs = solves[0].a[1]
    x = S(f.param_names()[0])
    okm = (Mx.k == 'attr' and Mx.a[1] == 'T' and Mx.a[0].k == 'sub' and Mx.a[0].a[1] == sym.const(0) and util.callee_name(Mx.a[0].a[0]) == 'evaluate')
    if okm:
      b = ev2.bind_args(prog.func(f'{AL}.evaluate'), list(Mx.a[0].a[0].a[1]), list(Mx.a[0].a[0].a[2]), None, None)
      okm = (b is not None and b['n_m'] == sym.const(1) and b['x'] == x and b['n_l'] == Term('sub', Term('attr', x, 'shape'), sym.const(0)))
    chk.check(okm, rule, f'{site}: the matrix is P̄_k(x_j), k < len(x), from evaluate(n_m=1, n_l=len(x), x)[0].T (exact for all polynomials up to degree n−1)', sym.show(Mx)[:160], loc)
    okr = rhs.k == 'store' and rhs.a[1] == sym.const(0) and rhs.a[2] == sym.const(1) and match.is_ext_call(rhs.a[0], 'zeros_like', 'zeros')
    chk.check(okr, rule, f'{site}: the right-hand side is e₀ (only the constant integrates to non-zero)', sym.show(rhs), loc)
    B = alg.Algebra(ev2, opaque=lambda t: t == solves[0])
    w = B.atom(solves[0])
    want = w / sp.Function('m_sum')(w) * 2
    chk.check(alg.equal(B.conv(v), want), rule, f'{site}: weights are normalised to sum to 2 (the length of [−1, 1])', sym.show(v)[:160], loc, 'w / w.sum() * 2', str(B.conv(v)))
  f = prog.func(f'{AL}.gauss_legendre_nodes')
  v, _, _ = ev.run(f)
  chk.check(v.k == 'call' and v.a[0] == Term('ext', 'scipy.special.roots_legendre') and list(v.a[1]) == [S(f.param_names()[0])], rule, f'{AL}.gauss_legendre_nodes = scipy.special.roots_legendre(n)',
            sym.show(v), (f.file, f.lineno))
  f = prog.func(f'{FO}.quadrature_nodes')
  v, _, _ = ev.run(f)
  site, loc = f'{FO}.quadrature_nodes', (f.file, f.lineno)
  C = alg.Algebra(ev)
  nn = C.name(lambda t: t == S(f.param_names()[0]), 'nodes', positive=True)
  ok = v.k == 'tuple' and len(v.a) == 2 and match.is_ext_call(v.a[0], 'linspace')
  if chk.check(ok, rule, f'{site}: returns (nodes, weight)', sym.show(v), loc):
    ls = v.a[0]
    okr = (alg.equal(C.conv(ls.a[1][0]), 0) and alg.equal(C.conv(ls.a[1][1]), 2 * sp.pi) and ls.a[1][2] == S(f.param_names()[0]) and util.call_kwargs(ls).get('endpoint') == sym.FALSE)
    chk.check(okr, rule, f'{site}: longitudes are equispaced on [0, 2π) (endpoint excluded)', sym.show(ls), loc, 'linspace(0, 2*pi, nodes, endpoint=False)', sym.show(ls))
    chk.check(alg.equal(C.conv(v.a[1]), 2 * sp.pi / nn), rule, f'{site}: trapezoid weight 2π/nodes', sym.show(v.a[1]), loc, '2*pi/nodes', sym.show(v.a[1]))
  ev3 = sym.Evaluator(prog, sym.Options(std_opaque=False))
  f = prog.func(f'{SH}.get_latitude_nodes')
  v, ctx, _ = ev3.run(f)
  tbl = ev3.global_definition(Term('global', f'dinosaur.{SH}', 'LATITUDE_SPACINGS'))
  want = {'gauss': 'gauss_legendre_nodes', 'equiangular': 'equiangular_nodes', 'equiangular_with_poles': 'equiangular_nodes_with_poles'}
  got = {sym.cval(k_): (v_.a[0].rsplit('.', 1)[-1] if v_.k == 'func' else sym.show(v_)) for k_, v_ in tbl.a} if tbl.k == 'dict' else {}
  chk.check(got == want, rule, f'{SH}.LATITUDE_SPACINGS maps each spacing name to its node function', str(got), (f.file, f.lineno), str(want), str(got))
  chk.at_least(rule, 14)


# ------------------------------------------------------ transforms (einsum)
def einsums_in(term, ev):
  """[(spec, basis role, data arg term, call term)] for string einsums / _transform_einsum calls."""
  out = []
  for t in sym.walk(term):
    if t.k != 'call':
      continue
    ep = match.einsum_parts(t)
    if ep is not None and ep[0] == 'string' and len(ep[2]) == 2:
      out.append((ep[1], ep[2][0], ep[2][1], t))
    elif util.callee_name(t) == '_transform_einsum':
      a = t.a[1]
      if a and a[0].k == 'const':
        out.append((a[0].a[0], a[1], a[2], t))
  return out


def basis_role(t):
  if t.k == 'attr' and t.a[1] in ('f', 'p', 'w') and t.a[0].k == 'attr' and t.a[0].a[1] == 'basis':
    return t.a[1]
  return None


def branches(term):
  """{branch condition text or '': sub-term} splitting on φ of configuration flags."""
  if term.k == 'phi':
    c = sym.show(term.a[0])
    out = {}
    for tag, sub in (('', term.a[1]), ('not ', term.a[2])):
      for k_, v_ in branches(sub).items():
        out[(tag + c + (' & ' + k_ if k_ else ''))] = v_
    return out
  return {'': term}


def split_on_flag(term, flag):
  """(value when flag true, value when false) by substituting φ(flag, a, b)."""
  def sub(t, val):
    if not isinstance(t, Term):
      return t
    if t.k == 'phi' and t.a[0].k == 'attr' and t.a[0].a[1] == flag:
      return sub(t.a[1] if val else t.a[2], val)
    if not sym.contains(t, lambda z: z.k == 'phi'):
      return t
    newa = tuple(sub_tuple(x, val) for x in t.a)
    return Term(t.k, *newa, cls=t.cls, loc=t.loc)
  def sub_tuple(x, val):
    if isinstance(x, Term):
      return sub(x, val)
    if isinstance(x, tuple):
      return tuple(sub_tuple(y, val) for y in x)
    return x
  return sub(term, True), sub(term, False)


def rule_transforms(chk, prog):
  rule = 'C01.2-adjoint-pairing'
  ob = {f'{SH}.RealSphericalHarmonics.basis', f'{SH}.FastSphericalHarmonics.basis', f'{SH}._transform_einsum', f'{SH}._unstack_m', f'{SH}._stack_m'}
  for cname, flags in (('RealSphericalHarmonics', [None]), ('FastSphericalHarmonics', [True, False])):
    c = prog.cls(f'{SH}.{cname}')
    ev = sym.Evaluator(prog, sym.Options(opaque=ob))
    ft, fi = c.find_method('transform'), c.find_method('inverse_transform')
    chk.require(ft is not None and fi is not None and ft.cls is c and fi.cls is c, f'{cname}: transform / inverse_transform missing')
    vt, _, _ = ev.run(ft)
    vi, _, _ = ev.run(fi)
    x_t, x_i = S(ft.param_names()[1]), S(fi.param_names()[1])
    for flag in flags:
      tag = '' if flag is None else ('[stacked]' if flag else '[unstacked]')
      if flag is None:
        tt, ti = vt, vi
      else:
        tt = split_on_flag(vt, 'stacked_fourier_transforms')[0 if flag else 1]
        ti = split_on_flag(vi, 'stacked_fourier_transforms')[0 if flag else 1]
      site = f'{SH}.{cname}{tag}'
      loc = (ft.file, ft.lineno)
      if sym.contains(tt, lambda z: z.k == 'phi') or sym.contains(ti, lambda z: z.k == 'phi'):
        raise AnalysisError(f'{site}: transform depends on an unrecognised configuration branch')
      et = {basis_role(b): (spec, data, call) for spec, b, data, call in einsums_in(tt, ev)}
      ei = {basis_role(b): (spec, data, call) for spec, b, data, call in einsums_in(ti, ev)}
      if not chk.check(set(et) == {'f', 'p'} and set(ei) == {'f', 'p'} and len(einsums_in(tt, ev)) == 2 and len(einsums_in(ti, ev)) == 2, rule,
                       f'{site}: analysis and synthesis are each one Fourier and one Legendre contraction with basis.f / basis.p', f'{sorted(map(str, et))} / {sorted(map(str, ei))}', loc):
        continue
      for role in ('f', 'p'):
        (ins_t, out_t), (ins_i, out_i) = match.parse_spec(et[role][0]), match.parse_spec(ei[role][0])
        adj = ins_t[0] == ins_i[0] and ins_t[1] == out_i and out_t == ins_i[1]
        chk.check(adj, rule, f'{site}: analysis einsum on basis.{role} is the adjoint of the synthesis einsum (data and output subscripts exchanged)',
                  f'{et[role][0]}  ↔  {ei[role][0]}', et[role][2].loc or loc, f'{ins_i[0]},{out_i}->{ins_i[1]}', et[role][0])
        contracted_t = set(ins_t[0]) & set(ins_t[1].replace('...', '')) - set(out_t.replace('...', ''))
        contracted_i = set(ins_i[0]) & set(ins_i[1].replace('...', '')) - set(out_i.replace('...', ''))
        want_t, want_i = ({'i'}, {'m'} | ({'s'} if 's' in ins_i[0] else set())) if role == 'f' else ({'j'}, {'l'})
        chk.check(contracted_t == want_t and contracted_i == want_i, rule,
                  f'{site}: basis.{role}: analysis sums over the node index {sorted(want_t)}, synthesis over the mode index {sorted(want_i)}',
                  f'{sorted(contracted_t)} / {sorted(contracted_i)}', et[role][2].loc or loc)
      # order: analysis F then P; synthesis P then F
      ord_t = sym.contains(et['p'][1], lambda z: z is et['f'][2] or z == et['f'][2]) and tt_outer(tt) is not None
      ord_i = sym.contains(ei['f'][1], lambda z: z == ei['p'][2])
      chk.check(ord_t and ord_i, rule, f'{site}: analysis applies Fᵀ then Pᵀ, synthesis P then F', '', loc)
      # weight exactly once
      w_in = et['f'][1]
      fs = match.plain_factors(w_in)
      okw = len(fs) == 2 and x_t in fs and any(basis_role(z) == 'w' for z in fs)
      chk.check(okw, 'C01.3-weight-once', f'{site}: the analysed field enters the Fourier contraction as basis.w · x', sym.show(w_in), w_in.loc or loc, 'w * x', sym.show(w_in))
      nw = len([z for z in sym.walk(tt) if basis_role(z) == 'w'])
      chk.check(nw == 1 and not sym.contains(ti, lambda z: basis_role(z) == 'w'), 'C01.3-weight-once', f'{site}: the quadrature weight is used once in analysis and never in synthesis',
                f'{nw} use(s) in transform', loc)
      chk.check(ei['p'][1] == x_i or stripped_unstack(ei['p'][1]) == x_i, rule, f'{site}: synthesis contracts the spectral input with basis.p first', sym.show(ei['p'][1])[:120], loc)
      if cname == 'FastSphericalHarmonics':
        # stack / unstack pairing
        def names(t):
          return [util.callee_name(z) for z in sym.walk(t) if z.k == 'call' and util.callee_name(z) in ('_stack_m', '_unstack_m')]
        nt, ni = names(tt), names(ti)
        want_t = ['_stack_m'] if flag else ['_stack_m', '_unstack_m']
        want_i = ['_unstack_m'] if flag else ['_stack_m', '_unstack_m']
        chk.check(sorted(nt) == sorted(want_t) and sorted(ni) == sorted(want_i) and util.callee_name(tt) == '_stack_m' and util.callee_name(ei['p'][1]) == '_unstack_m', rule,
                  f'{site}: ±m are un-stacked before the Legendre contraction of synthesis and re-stacked after the one of analysis', f'{nt} / {ni}', loc)
        for spec, b, data, call in einsums_in(tt, ev) + einsums_in(ti, ev):
          a = call.a[1]
          ok = len(a) == 6 and sym.show(a[3]).endswith('spmd_mesh') and sym.show(a[4]).endswith('reverse_einsum_arg_order') and sym.show(a[5]).endswith('transform_precision')
          chk.check(ok, 'C01.2b-tuning-options', f'{site}: {spec}: mesh, argument-order and precision options are forwarded to _transform_einsum', str([sym.show(z)[-40:] for z in a[3:]]), call.loc or loc)
  chk.at_least(rule, 23)
  chk.at_least('C01.3-weight-once', 6)


def tt_outer(t):
  return t


def stripped_unstack(t):
  if t.k == 'call' and util.callee_name(t) == '_unstack_m':
    return t.a[1][0]
  return t


# ------------------------------------------------------------- basis data
def pad_is_zero(t):
  return match.is_ext_call(t, 'pad') and not any(k in util.call_kwargs(t) for k in ('mode', 'constant_values')) and len(t.a[1]) == 2


def rule_basis(chk, prog):
  rule = 'C01.3b-basis-data'
  OPQ = {f'{AL}.evaluate', f'{FO}.real_basis', f'{FO}.real_basis_with_zero_imag', f'{FO}.quadrature_nodes',
         f'{SH}.FastSphericalHarmonics.nodal_padding', f'{SH}.FastSphericalHarmonics.modal_padding'}
  ev = sym.Evaluator(prog, sym.Options(opaque=OPQ))
  lat = lambda i: (lambda t: t.k == 'sub' and t.a[1] == sym.const(i) and util.callee_name(t.a[0]) == 'get_latitude_nodes')
  for cname, builder in (('RealSphericalHarmonics', 'real_basis'), ('FastSphericalHarmonics', 'real_basis_with_zero_imag')):
    c = prog.cls(f'{SH}.{cname}')
    f = c.find_method('basis')
    v, _, _ = ev.run(f)
    site, loc = f'{SH}.{cname}.basis', (f.file, f.lineno)
    chk.require(v.k == 'obj', f'{site}: does not return _SphericalHarmonicBasis')
    fb, pb, wb = util.field(v, 'f'), util.field(v, 'p'), util.field(v, 'w')
    me = lambda n: (lambda t: t.k == 'attr' and t.a[1] == n and t.a[0].k == 'sym')
    # w = wf * wp (zero padded)
    w0 = wb
    if cname == 'FastSphericalHarmonics':
      chk.check(pad_is_zero(wb), rule, f'{site}: w is zero-padded', sym.show(wb)[:160], loc)
      w0 = wb.a[1][0] if match.is_ext_call(wb, 'pad') else wb
    fs = match.plain_factors(w0)
    okw = (len(fs) == 2 and any(z.k == 'sub' and z.a[1] == sym.const(1) and util.callee_name(z.a[0]) == 'quadrature_nodes' and me('longitude_nodes')(z.a[0].a[1][0]) for z in fs)
           and any(lat(1)(z) and me('latitude_nodes')(z.a[0].a[1][0]) and me('latitude_spacing')(z.a[0].a[1][1]) for z in fs))
    chk.check(okw, rule, f'{site}: w = (longitude weight of longitude_nodes) · (latitude weights of latitude_nodes, latitude_spacing)', sym.show(w0)[:200], loc)
    # p from evaluate(n_m=longitude_wavenumbers, n_l=total_wavenumbers, x=latitude nodes)
    evs = [t for t in sym.walk(pb) if t.k == 'call' and util.callee_name(t) == 'evaluate']
    okp = len(evs) == 1
    if okp:
      b = ev.bind_args(prog.func(f'{AL}.evaluate'), list(evs[0].a[1]), list(evs[0].a[2]), None, None)
      okp = b is not None and me('longitude_wavenumbers')(b['n_m']) and me('total_wavenumbers')(b['n_l']) and lat(0)(b['x'])
    chk.check(okp, rule, f'{site}: p = evaluate(n_m=longitude_wavenumbers, n_l=total_wavenumbers, x=latitude nodes)', sym.show(evs[0])[:200] if evs else 'none', loc)
    same_nodes = [t for t in sym.walk(v) if util.callee_name(t) == 'get_latitude_nodes' and t.k == 'call']
    chk.check(len(set(same_nodes)) == 1, rule, f'{site}: nodes of p and weights of w come from the same get_latitude_nodes call arguments', str(len(set(same_nodes))), loc)
    bs = [t for t in sym.walk(fb) if t.k == 'call' and util.callee_name(t) == builder]
    okf = len(set(bs)) == 1
    if okf:
      b = ev.bind_args(prog.func(f'{FO}.{builder}'), list(bs[0].a[1]), list(bs[0].a[2]), None, None)
      okf = b is not None and me('longitude_wavenumbers')(b['wavenumbers']) and me('longitude_nodes')(b['nodes'])
    chk.check(okf, rule, f'{site}: f = {builder}(wavenumbers=longitude_wavenumbers, nodes=longitude_nodes)', sym.show(bs[0])[:160] if bs else 'none', loc)
    if cname == 'RealSphericalHarmonics':
      okr = (pb.k == 'sub' and pb.a[1] == Term('slice', sym.const(1), sym.NONE, sym.NONE) and match.is_ext_call(pb.a[0], 'repeat') and pb.a[0].a[1][1] == sym.const(2)
             and util.call_kwargs(pb.a[0]).get('axis') == sym.const(0))
      chk.check(okr, rule, f'{site}: each order m>0 of p is duplicated for its cos and sin column and m=0 kept once (np.repeat(p, 2, axis=0)[1:])', sym.show(pb)[:120], loc)
    else:
      pads = [t for t in (fb.a[1] if fb.k == 'phi' else fb, fb.a[2] if fb.k == 'phi' else fb, pb)]
      okpad = pad_is_zero(pb)
      f_un = fb.a[2] if fb.k == 'phi' else fb
      f_st = fb.a[1] if fb.k == 'phi' else None
      okpad = okpad and pad_is_zero(f_un)
      chk.check(okpad, rule, f'{site}: f and p are zero-padded (padding never contributes)', '', loc)
      if okpad:
        pw = pb.a[1][1]
        npx = lambda i: Term('sub', Term('attr', Term('sym', 'self:FastSphericalHarmonics', cls=c), 'nodal_padding'), sym.const(i))
        mpx = lambda i: Term('sub', Term('attr', Term('sym', 'self:FastSphericalHarmonics', cls=c), 'modal_padding'), sym.const(i))
        z = sym.const(0)
        want_p = Term('list', Term('tuple', z, Term('bin', '//', mpx(0), sym.const(2))), Term('tuple', z, npx(1)), Term('tuple', z, mpx(1)))
        want_f = Term('list', Term('tuple', z, npx(0)), Term('tuple', z, mpx(0)))
        chk.check(pw == want_p, rule, f'{site}: p is padded at the tail by (modal_pad_x // 2, nodal_pad_y, modal_pad_y) — one Legendre block per ± pair', sym.show(pw), loc, sym.show(want_p), sym.show(pw))
        chk.check(f_un.a[1][1] == want_f, rule, f'{site}: f is padded at the tail by (nodal_pad_x, modal_pad_x)', sym.show(f_un.a[1][1]), loc, sym.show(want_f), sym.show(f_un.a[1][1]))
      oks = (fb.k == 'phi' and fb.a[0].k == 'attr' and fb.a[0].a[1] == 'stacked_fourier_transforms' and match.is_ext_call(f_st, 'reshape') and f_st.a[1][0] == f_un
             and util.call_kwargs(f_st).get('order') == sym.const('F'))
      if chk.check(oks, 'C01.2c-memory-order', f'{site}: the stacked Fourier matrix is the Fortran-order reshape of the same padded matrix', sym.show(f_st)[:160] if f_st is not None else 'no stacked branch', loc,
                   "np.reshape(f, (-1, 2, f.shape[-1] // 2), order='F')", sym.show(f_st)[:160] if f_st is not None else ''):
        shp = f_st.a[1][1]
        okshape = shp.k == 'tuple' and len(shp.a) == 3 and shp.a[0] == sym.const(-1) and shp.a[1] == sym.const(2)
        chk.check(okshape, 'C01.2c-memory-order', f'{site}: stacked shape is (nodes, 2, wavenumbers): the sign index varies fastest', sym.show(shp), loc)
  # _unstack_m / _stack_m use the same memory order
  ev2 = sym.Evaluator(prog)
  for fname, desc in (('_unstack_m', '(…, 2M, L) → (…, 2, M, L)'), ('_stack_m', '(…, 2, M, L) → (…, 2M, L)')):
    f = prog.func(f'{SH}.{fname}')
    v, _, _ = ev2.run(f)
    rs = list({t for t in sym.walk(v) if match.is_ext_call(t, 'reshape')})
    ok = len(rs) == 1 and util.call_kwargs(rs[0]).get('order') == sym.const('F') and rs[0].a[1][0] == S(f.param_names()[0])
    chk.check(ok, 'C01.2c-memory-order', f'{SH}.{fname}: {desc} is a Fortran-order reshape of its input (cos/sin pairs ↔ sign index)', sym.show(rs[0])[:160] if rs else sym.show(v)[:120], (f.file, f.lineno),
              "jnp.reshape(x, shape, order='F')", sym.show(rs[0])[:160] if rs else '')
    if ok:
      shp = rs[0].a[1][1]
      x = S(f.param_names()[0])
      xs = lambda lo, hi: Term('sub', Term('attr', x, 'shape'), Term('slice', lo, hi, sym.NONE))
      if fname == '_unstack_m':
        want = Term('bin', '+', Term('bin', '+', xs(sym.NONE, sym.const(-2)), Term('tuple', sym.const(2), Term('bin', '//', Term('sub', Term('attr', x, 'shape'), sym.const(-2)), sym.const(2)))), xs(sym.const(-1), sym.NONE))
      else:
        want = Term('bin', '+', Term('bin', '+', xs(sym.NONE, sym.const(-3)), Term('tuple', sym.const(-1))), xs(sym.const(-1), sym.NONE))
      chk.check(shp == want, 'C01.2c-memory-order', f'{SH}.{fname}: target shape {desc}', sym.show(shp), (f.file, f.lineno), sym.show(want), sym.show(shp))
  chk.at_least(rule, 12)
  chk.at_least('C01.2c-memory-order', 6)


def mask_conjuncts(prog, cname):
  """[(kind, conjunct term, limit expression)] of `<cname>.mask`: kind ∈ triangle | zero-imag-row | m-limit | l-limit | other.

  Limits are compared as normal forms in M = longitude_wavenumbers and L = total_wavenumbers (modal_limits is inlined),
  so `i < self.modal_limits[0]` and `i < 2 * self.longitude_wavenumbers` classify alike."""
  OP = {f'{SH}.FastSphericalHarmonics.modal_shape', f'{SH}.FastSphericalHarmonics.modal_padding', f'{SH}.FastSphericalHarmonics.modal_axes',
        f'{SH}.RealSphericalHarmonics.modal_axes'}
  ev2 = sym.Evaluator(prog, sym.Options(opaque=OP))
  c = prog.cls(f'{SH}.{cname}')
  v, _, _ = ev2.run(c.find_method('mask'))
  A = alg.Algebra(ev2)
  M = A.name(lambda t: t.k == 'attr' and t.a[1] == 'longitude_wavenumbers', 'M', integer=True, positive=True)
  L = A.name(lambda t: t.k == 'attr' and t.a[1] == 'total_wavenumbers', 'L', integer=True, positive=True)
  ax = lambda t, i: util.strip(t).k == 'sub' and util.strip(t).a[1] == sym.const(i) and util.strip(t).a[0].k == 'attr' and util.strip(t).a[0].a[1] == 'modal_axes'
  def idx(t, i):
    t = util.strip(t)
    return t.k == 'sub' and t.a[1] == sym.const(i) and sym.contains(t.a[0], lambda z_: match.is_ext_call(z_, 'arange')) and sym.contains(t.a[0], lambda z_: z_.k == 'attr' and z_.a[1] == 'modal_shape')
  out = []
  for cj in conjuncts(v):
    kind, lim = 'other', None
    if cj.k == 'cmp' and len(cj.a[0]) == 1:
      op = cj.a[0][0]
      l, r = cj.a[1]
      if op in ('>', '>='):
        l, r, op = r, l, {'>': '<', '>=': '<='}[op]
      is_abs = lambda t: t.k == 'call' and (t.a[0] == Term('ext', 'abs') or alg.ext_short(t.a[0]) in ('abs', 'absolute')) and len(t.a[1]) == 1
      if op == '<=' and is_abs(l) and ax(l.a[1][0], 0) and ax(r, 1):
        kind = 'triangle'
      elif op == '!=' and ((idx(l, 0) and r == sym.const(1)) or (idx(r, 0) and l == sym.const(1))):
        kind = 'zero-imag-row'
      elif op in ('<', '<=') and (idx(l, 0) or idx(l, 1)) and not sym.contains(r, lambda z_: match.is_ext_call(z_, 'arange')):
        try:
          e = sp.simplify(A.conv(r) + (1 if op == '<=' else 0))
        except Exception:
          e = None
        if e is not None and idx(l, 0):
          kind, lim = ('m-limit' if alg.equal(e, 2 * M) else 'other'), e
        elif e is not None:
          kind, lim = ('l-limit' if alg.equal(e, L) else 'other'), e
    out.append((kind, cj, lim))
  return out


# ---------------------------------------------------------- integrate/mask
def conjuncts(t):
  if t.k == 'bin' and t.a[0] == '&':
    return conjuncts(t.a[1]) + conjuncts(t.a[2])
  if t.k == 'bool' and t.a[0] == 'and':
    out = []
    for x in t.a[1]:
      out.extend(conjuncts(x))
    return out
  return [t]


def rule_integrate_mask(chk, prog):
  rule = 'C01.4-integral'
  ev = sym.Evaluator(prog)
  f = prog.func(f'{SH}.Grid.integrate')
  v, _, _ = ev.run(f)
  site, loc = f'{SH}.Grid.integrate', (f.file, f.lineno)
  ep = match.einsum_parts(v)
  ok = ep is not None and ep[0] == 'string' and len(ep[2]) == 2
  if chk.check(ok, rule, f'{site}: is one weighted contraction', sym.show(v)[:160], loc):
    ins, out = match.parse_spec(ep[1])
    z = S(f.param_names()[1])
    wt, data = (ep[2][0], ep[2][1]) if ep[2][1] == z else (ep[2][1], ep[2][0])
    wi, di = (ins[0], ins[1]) if ep[2][1] == z else (ins[1], ins[0])
    good = data == z and out.replace('...', '') == '' and len(di.replace('...', '')) == 2 and set(wi) <= set(di) and len(wi) >= 1 and di.replace('...', '')[-len(wi):] == wi
    chk.check(good, rule, f'{site}: both nodal axes are summed, the weight runs along the trailing (latitude) axes', ep[1], loc, "'y,...xy->...'", ep[1])
    A = alg.Algebra(ev)
    r = A.name(lambda t: t.k == 'attr' and t.a[1] == 'radius', 'radius')
    w = A.name(lambda t: t.k == 'attr' and t.a[1] == 'w', 'w')
    chk.check(alg.equal(A.conv(wt), w * r**2), rule, f'{site}: the weight is basis.w · radius² (area element)', sym.show(wt), loc, 'w * radius**2', sym.show(wt))
  f = prog.func(f'{SH}.Grid.quadrature_weights')
  v, _, _ = ev.run(f)
  ok = match.is_ext_call(v, 'broadcast_to') and v.a[1][0].k == 'attr' and v.a[1][0].a[1] == 'w' and v.a[1][1].k == 'attr' and v.a[1][1].a[1] == 'nodal_shape'
  chk.check(ok, rule, f'{SH}.Grid.quadrature_weights: the same basis.w broadcast to the nodal shape', sym.show(v), (f.file, f.lineno))
  # constant normalisation factor
  g = Term('global', f'dinosaur.{PE}', '_CONSTANT_NORMALIZATION_FACTOR')
  d = ev.global_definition(g)
  okc = d.k == 'const' and isinstance(d.a[0], float) and abs(d.a[0] - math.sqrt(4 * math.pi)) <= 5e-8 * math.sqrt(4 * math.pi) * 2
  mod = prog.module(PE)
  chk.check(okc, rule, f'{PE}._CONSTANT_NORMALIZATION_FACTOR = √(4π) (spectral (0,0) coefficient of the constant 1)', sym.show(d), (mod.relpath, mod.assign_nodes['_CONSTANT_NORMALIZATION_FACTOR'].lineno),
            f'{math.sqrt(4 * math.pi):.7f}', sym.show(d))
  f = prog.func(f'{PE}._add_constant')
  v, _, _ = ev.run(f)
  ok = (v.k == 'store' and v.a[3] == '+=' and v.a[0] == S('x') and v.a[1] == Term('tuple', sym.const(Ellipsis), sym.const(0), sym.const(0))
        and set(match.plain_factors(v.a[2])) == {g, S('c')})
  chk.check(ok, rule, f'{PE}._add_constant adds factor·c to coefficient (0, 0) only', sym.show(v), (f.file, f.lineno), 'x.at[..., 0, 0].add(FACTOR * c)', sym.show(v))
  chk.at_least(rule, 6)
  # masks
  rule = 'C01.5-mask'
  for cname, want in (('RealSphericalHarmonics', ['triangle']), ('FastSphericalHarmonics', ['l-limit', 'm-limit', 'triangle', 'zero-imag-row'])):
    c = prog.cls(f'{SH}.{cname}')
    f = c.find_method('mask')
    cls_ = mask_conjuncts(prog, cname)
    got = sorted(k_ for k_, _, _ in cls_)
    chk.check(got == want, rule, f'{SH}.{cname}.mask = ' + ' ∧ '.join(want), str([(k_, str(e_)) for k_, _, e_ in cls_]), (f.file, f.lineno), str(want), str(got))
  # modal_limits / modal axes layout
  ev3 = sym.Evaluator(prog, sym.Options(opaque={f'{SH}.FastSphericalHarmonics.modal_padding'}))
  c = prog.cls(f'{SH}.FastSphericalHarmonics')
  f = c.find_method('modal_limits')
  v, _, _ = ev3.run(f)
  A = alg.Algebra(ev3)
  M = A.name(lambda t: t.k == 'attr' and t.a[1] == 'longitude_wavenumbers', 'M')
  L = A.name(lambda t: t.k == 'attr' and t.a[1] == 'total_wavenumbers', 'L')
  ok = v.k == 'tuple' and len(v.a) == 2 and alg.equal(A.conv(v.a[0]), 2 * M) and alg.equal(A.conv(v.a[1]), L)
  chk.check(ok, rule, f'{SH}.FastSphericalHarmonics.modal_limits = (2·longitude_wavenumbers, total_wavenumbers)', sym.show(v), (f.file, f.lineno))
  def axes_ok(v, lead, padded):
    if not (v.k == 'tuple' and len(v.a) == 2):
      return False
    m_ax, l_ax = v.a
    if padded:
      if not (pad_is_zero(m_ax) and pad_is_zero(l_ax)):
        return False
      m_ax, l_ax = m_ax.a[1][0], l_ax.a[1][0]
    cp = match.concat_parts(m_ax)
    if cp is None or len(cp[0]) != 2 or cp[0][0] != Term('list', *([sym.const(0)] * lead)):
      return False
    rv = cp[0][1]
    okr = (match.method_call(rv, 'ravel') is not None and match.is_ext_call(match.method_call(rv, 'ravel'), 'stack') and dict(match.method_call(rv, 'ravel').a[2]).get('axis') == sym.const(1))
    if not okr:
      return False
    pair = match.method_call(rv, 'ravel').a[1][0]
    okp = pair.k == 'list' and len(pair.a) == 2 and pair.a[1] == Term('un', '-', pair.a[0]) and match.is_ext_call(pair.a[0], 'arange') and pair.a[0].a[1][0] == sym.const(1) \
        and pair.a[0].a[1][1].k == 'attr' and pair.a[0].a[1][1].a[1] == 'longitude_wavenumbers'
    okl = match.is_ext_call(l_ax, 'arange') and len(l_ax.a[1]) == 1 and l_ax.a[1][0].k == 'attr' and l_ax.a[1][0].a[1] == 'total_wavenumbers'
    return okp and okl
  for cname, lead, padded in (('RealSphericalHarmonics', 1, False), ('FastSphericalHarmonics', 2, True)):
    c = prog.cls(f'{SH}.{cname}')
    f = c.find_method('modal_axes')
    v, _, _ = ev3.run(f)
    chk.check(axes_ok(v, lead, padded), rule,
              f'{SH}.{cname}.modal_axes: m = [{", ".join(["0"] * lead)}, +1, −1, +2, −2, …] (interleaved ± pairs), l = 0 … total_wavenumbers−1' + (' with zero tail padding' if padded else ''),
              sym.show(v)[:200], (f.file, f.lineno))
  chk.at_least(rule, 5)


NUMERIC_MODULES = ('spherical_harmonic', 'associated_legendre', 'fourier', 'primitive_equations', 'sigma_coordinates', 'filtering', 'time_integration', 'shallow_water',
                   'jax_numpy_utils', 'coordinate_systems', 'vertical_interpolation', 'horizontal_interpolation', 'held_suarez', 'radiation', 'scales', 'layer_coordinates',
                   'primitive_equations_states', 'shallow_water_states', 'pytree_utils')


def rule_shared_state(chk, prog, rule='C01.7-cached-arrays-never-updated-in-place'):
  """Cached basis / weight / eigenvalue arrays and dataclass fields are shared by all later calls: nothing may update them in place."""
  import ast
  import os
  from sa import alias, model
  n = 0
  # attribute names that hold shared numpy data: (cached) properties and fields of the non-state dataclasses
  state_attrs = set()
  for c in prog.classes.values():
    for mname, fi in c.methods.items():
      if fi.is_property():
        state_attrs.add(mname)
    if c.is_dataclass() and not c.is_struct():
      state_attrs.update(f_[0] for f_ in c.fields)
  # functions whose result object is shared between callers (memoised)
  memoised = set()
  for fi in prog.funcs.values():
    if any('lru_cache' in d or d.endswith('functools.cache') or d == 'cache' for d in fi.decorator_names()):
      memoised.add(fi.name)
  for short in NUMERIC_MODULES:
    name = f'dinosaur.{short}'
    if name not in prog.modules:
      continue
    m = prog.modules[name]
    tree = ast.parse(open(m.path, encoding='utf-8').read())
    consts = {t.id for st in tree.body if isinstance(st, ast.Assign) for t in st.targets if isinstance(t, ast.Name)}
    hits = alias.inplace_updates(tree, consts, state_attrs, memoised)
    # hand-rolled memo tables: a store C[key] = value into a module-level dict is legitimate exactly when the key determines the value
    from sa import memo
    memos = {ms.lineno: ms for ms in memo.scan(tree)}
    for fn, line, text, shared in list(hits):
      ms = memos.get(line)
      if ms is None:
        continue
      hits.remove((fn, line, text, shared))
      if ms.uncovered:
        chk.violation(rule, f'{short}.{fn}: memo table {ms.cache}', f'the cached value is computed from {", ".join(ms.uncovered)} but the key only holds {", ".join(ms.key_paths)}: a second configuration that agrees on the key '
                      'silently receives the first one\'s table', (m.relpath, line), 'key covers every parameter path the value is computed from', f'uncovered: {ms.uncovered}')
      else:
        chk.ok(rule, f'{short}.{fn}: memo table {ms.cache} is keyed by everything its value is computed from', ', '.join(ms.key_paths), (m.relpath, line))
    for fn, line, text, shared in hits:
      chk.violation(rule, f'{short}.{fn}: {text}', f'in-place update of an object that may alias shared state ({shared}): cached_property values, dataclass fields and module constants '
                    'are reused by every later call (e.g. quadrature weights scaled twice on the second call)', (m.relpath, line), 'update a copy (w = w * c)', text)
    if not hits:
      chk.ok(rule, f'{short}: no augmented assignment, subscript store or mutating call targets an alias of object state', '', (m.relpath, 1))
    n += 1
  fx = os.path.join(os.path.dirname(os.path.dirname(os.path.abspath(__file__))), 'fixtures', 'alias_fixture', 'dinosaur', 'fixture.py')
  found = alias.inplace_updates(ast.parse(open(fx).read()), ())
  if sorted(f for f, _, _, _ in found) != ['integrate', 'top']:
    raise AnalysisError(f'positive fixture for {rule} no longer matches ({found}): the scan is blind or over-eager')
  chk.ok(rule, 'positive fixture fixtures/alias_fixture: the two in-place updates of a cached array are reported, the update of a fresh copy is not', f'{len(found)} report(s)')
  from sa import memo as _memo
  fm = os.path.join(os.path.dirname(os.path.dirname(os.path.abspath(__file__))), 'fixtures', 'memo_fixture', 'dinosaur', 'fixture.py')
  gotm = {ms.func: ms.uncovered for ms in _memo.scan(ast.parse(open(fm).read()))}
  if gotm != {'incomplete': ['coords.vertical.layer_thickness'], 'complete': []}:
    raise AnalysisError(f'positive fixture for memo tables no longer matches ({gotm}): the scan is blind or over-eager')
  chk.ok(rule, 'positive fixture fixtures/memo_fixture: the table keyed by the level count only is reported, the one keyed by the level object is not', str(gotm))
  chk.at_least(rule, 10)


def rule_factories(chk, prog):
  """The named grids resolve their truncation: T<N> (quadratic) needs ≥ 3N+1 longitudes and ≥ (3N+1)/2 Gaussian latitudes for
  alias-free products, TL<N> (linear) ≥ 2N+1 and ≥ (2N+1)/2 for exact transforms of fields — the premise of C01 (“for every grid
  whose quadrature resolves its truncation”) must hold for the grids the library itself hands out."""
  import re
  rule = 'C01.8-factory-grids-resolve-their-truncation'
  g = prog.cls(f'{SH}.Grid')
  cons = g.find_method('construct')
  ev = sym.Evaluator(prog, sym.Options(opaque={f'{SH}.Grid.construct'}))
  # shape of construct: (M, L, lon nodes, lat nodes) as functions of (max_wavenumber W, gaussian_nodes G)
  evc = sym.Evaluator(prog)
  vc, _, _ = evc.run(cons)
  A = alg.Algebra(evc)
  W = A.name(lambda t: t == S('max_wavenumber'), 'W', integer=True, nonnegative=True)
  G = A.name(lambda t: t == S('gaussian_nodes'), 'G', integer=True, positive=True)
  def fld(name):
    if vc.k == 'obj':
      return util.field(vc, name)
    kw = util.call_kwargs(vc) if vc.k == 'call' else {}
    return kw.get(name)
  shape = {n_: fld(n_) for n_ in ('longitude_wavenumbers', 'total_wavenumbers', 'longitude_nodes', 'latitude_nodes')}
  chk.require(all(v_ is not None for v_ in shape.values()), f'{SH}.Grid.construct: cannot read the constructed grid shape')
  e = {n_: A.conv(v_) for n_, v_ in shape.items()}
  chk.check(alg.equal(e['longitude_wavenumbers'], W + 1) and alg.equal(e['total_wavenumbers'], W + 2), rule, f'{SH}.Grid.construct: wavenumbers 0 … max_wavenumber (M = W + 1) and one extra total wavenumber (L = W + 2)',
            f"M = {e['longitude_wavenumbers']}, L = {e['total_wavenumbers']}", (cons.file, cons.lineno), 'W + 1, W + 2', f"{e['longitude_wavenumbers']}, {e['total_wavenumbers']}")
  n = 0
  for name, fi in sorted(g.methods.items()):
    mt = re.fullmatch(r'(TL|T)(\d+)', name)
    if not mt or not fi.is_classmethod():
      continue
    kind, N = mt.group(1), int(mt.group(2))
    v, _, _ = ev.run(fi)
    site, loc = f'{SH}.Grid.{name}', (fi.file, fi.lineno)
    ok = v.k == 'call' and util.callee_name(v) == 'construct'
    kw = util.call_kwargs(v) if ok else {}
    w_, g_ = kw.get('max_wavenumber'), kw.get('gaussian_nodes')
    ok = ok and w_ is not None and g_ is not None and w_.k == 'const' and g_.k == 'const'
    if not chk.check(ok, rule, f'{site}: constructs the grid from literal (max_wavenumber, gaussian_nodes)', sym.show(v, maxdepth=2)[:120], loc):
      continue
    n += 1
    wv, gv = int(w_.a[0]), int(g_.a[0])
    lon, lat = int(e['longitude_nodes'].subs({W: wv, G: gv})), int(e['latitude_nodes'].subs({W: wv, G: gv}))
    need = (3 if kind == 'T' else 2) * wv + 1
    chk.check(wv == N, rule, f'{site}: the truncation wavenumber is the one in the name', f'max_wavenumber={wv}', loc, str(N), str(wv))
    chk.check(lon >= need and 2 * lat >= need, rule, f'{site}: {lon} × {lat} nodes resolve the {"quadratic" if kind == "T" else "linear"} truncation {wv} (need ≥ {need} longitudes, ≥ {need}/2 latitudes)',
              f'gaussian_nodes={gv}', loc, f'≥ {need} × ≥ {(need + 1) // 2}', f'{lon} × {lat}')
    chk.check(any(k_ == '**' for k_, _ in v.a[2]), rule, f'{site}: forwards the remaining options (spacing, offset, radius, implementation) to construct', str([k_ for k_, _ in v.a[2]]), loc)
  # with_wavenumbers: order·M + 1 longitudes, half as many latitudes, L = M + 1
  ww = g.find_method('with_wavenumbers')
  for deal, order in (('linear', 2), ('quadratic', 3), ('cubic', 4)):
    evw = sym.Evaluator(prog)
    vw, _, _ = evw.run(ww, bind={'dealiasing': sym.const(deal)})
    B = alg.Algebra(evw)
    M = B.name(lambda t: t == S('longitude_wavenumbers'), 'M', integer=True, positive=True)
    def fw(name):
      if vw.k == 'obj':
        return util.field(vw, name)
      return (util.call_kwargs(vw) if vw.k == 'call' else {}).get(name)
    ln, lt, tw = fw('longitude_nodes'), fw('latitude_nodes'), fw('total_wavenumbers')
    ok = ln is not None and lt is not None and tw is not None
    if ok:
      lne = B.conv(ln)
      slack = sp.simplify(lne - (order * (M - 1) + 1))
      ok = bool(slack.is_nonnegative) and alg.equal(B.conv(tw), M + 1)
      lt0 = util.strip(lt)
      if lt0.k == 'call' and lt0.a[0].k == 'ext' and lt0.a[0].a[0] in ('math.ceil', 'numpy.ceil', 'int') and len(lt0.a[1]) == 1:
        ok = ok and bool(sp.simplify(2 * B.conv(lt0.a[1][0]) - lne).is_nonnegative)   # ceil(x) ≥ x
      else:
        ok = ok and bool(sp.simplify(2 * B.conv(lt) - lne).is_nonnegative)
    chk.check(ok, rule, f"{SH}.Grid.with_wavenumbers[{deal}]: ≥ {order}·(M − 1) + 1 longitudes, at least half as many latitudes, L = M + 1",
              f'longitudes {sym.show(ln)[:60] if ln is not None else None}; latitudes {sym.show(lt)[:60] if lt is not None else None}', (ww.file, ww.lineno))
  chk.at_least(rule, 3 * 15)


def rule_metric(chk, prog, rule='C01.9-metric-factors'):
  """cos θ and sec² θ on the nodal mesh are the functions of sin θ they claim to be (cos² + sin² = 1, sec²·cos² = 1)."""
  g = prog.cls(f'{SH}.Grid')
  ev = sym.Evaluator(prog)
  for name, want in (('cos_lat', lambda s_: sp.sqrt(1 - s_**2)), ('sec2_lat', lambda s_: 1 / (1 - s_**2))):
    f = g.find_method(name)
    v, _, _ = ev.run(f)
    A = alg.Algebra(ev)
    s_ = A.name(lambda t: t.k == 'sub' and t.a[1] == sym.const(1) and sym.contains(t.a[0], lambda z: z.k == 'attr' and z.a[1] in ('nodal_axes', 'nodal_mesh')), 'sin_lat', real=True)
    e = A.conv(v)
    chk.check(alg.equal(e, want(s_)), rule, f'{SH}.Grid.{name} = ' + ('√(1 − sin²θ)' if name == 'cos_lat' else '1/(1 − sin²θ)'), str(e), (f.file, f.lineno), str(want(s_)), str(e))
  chk.at_least(rule, 2)


def run(chk, prog, tier):
  rule_factories(chk, prog)
  rule_metric(chk, prog)
  rule_shared_state(chk, prog)
  rule_legendre(chk, prog)
  rule_quadrature(chk, prog)
  rule_transforms(chk, prog)
  rule_basis(chk, prog)
  rule_integrate_mask(chk, prog)
  chk.assume('einsum semantics; np.pad default mode is zero padding; np.reshape(order="F") varies the first index fastest',
             'scipy.special.roots_legendre returns Gauss–Legendre nodes and weights',
             'np.linalg.solve solves the (well-conditioned) moment system')
  return dict(
      explanation=('associated_legendre.py, fourier.quadrature_nodes, both SphericalHarmonics implementations (basis, transform, inverse_transform, mask, modal_axes), '
                   'the stack/unstack helpers, Grid.integrate and the √(4π) constant are abstractly interpreted. Recurrence constants are extracted as linear '
                   'coefficients of the previous rows and canonicalised against ε(l,m); einsum subscripts are parsed and compared as adjoint pairs per basis '
                   'operand and configuration branch; uses of the quadrature weight are counted by dependence; paddings, reshape orders and mask conjuncts are '
                   'matched structurally. Not decided: the numerical round-trip residual and exactness of the quadratures.'),
      trusted_base=['python ast', 'sympy canonicalisation', 'normalised associated-Legendre recurrence (reference in rules/c01.py)'],
      analysed=dict(functions=[f'{AL}._evaluate_rhombus', f'{AL}.evaluate', f'{AL}._compute_weights', f'{AL}.equiangular_nodes', f'{AL}.equiangular_nodes_with_poles',
                               f'{AL}.gauss_legendre_nodes', f'{FO}.quadrature_nodes', f'{SH}.RealSphericalHarmonics.*', f'{SH}.FastSphericalHarmonics.*', f'{SH}._unstack_m',
                               f'{SH}._stack_m', f'{SH}.Grid.integrate', f'{SH}.Grid.quadrature_weights', f'{PE}._add_constant']),
  )
