"""C18 — unit and time conversions are mutually inverse and multiplicative."""
from __future__ import annotations

import ast

import sympy as sp

from sa import alg, guards, match, sym, util
from sa.model import AnalysisError, norm_ident, unparse
from sa.sym import Term

SC = 'scales'
PE = 'primitive_equations'
XU = 'xarray_utils'
RA = 'radiation'

CLAIM = dict(
    text=('Decides the construction facts behind the round trips: nondimensionalize divides by and dimensionalize multiplies by the same _scaling_factor(dimensionality), '
          'which is the product over the dimensionality of stored base scales raised to their exponents and raises for a missing dimension; scales are stored in base '
          'units, one per (single, first-power) dimension; the specs wrappers forward unchanged; every conversion of a floating re-dimensionalised time to an integer / '
          'datetime64 / timedelta64 type is preceded by rounding (recorded finding: PrimitiveEquationsSpecs.dimensionalize_timedelta64 truncates on both of its branches); '
          'at every time-conversion site the numpy time unit and the pint unit denote the same unit; orbital phases are 2π·fraction with the minutes-per-day / '
          'days-in-year constants, the model-time → phase map adds rate·time and reduces by a floor-mod with one modulus 2π. Does not decide floating-point '
          'exactness of the round trips, nor pint\'s own unit algebra.'
          ' Later additions: C18.2 also covers calendar times re-expressed in a fixed unit (np.datetime64(x, unit) truncation) and sign-dependent truncation after adding ½.'),
    note=('pint quantities and numpy datetime64/timedelta64 semantics are trusted. The truncation finding is pinned by the existing test '
          'test_equivalent_rounding_behavior and is therefore recorded, not repaired.'),
    technique='sibling agreement of the two Scale directions (shared factor) + dataflow rule "float time → integer type passes through round" + unit-pair table + normal forms of phase maps',
)

UNIT_PAIRS = {'h': 'hour', 'm': 'minute', 's': 'second', 'D': 'day', 'ms': 'millisecond', 'us': 'microsecond', 'ns': 'nanosecond'}

PINT_UNITS = set(UNIT_PAIRS.values()) | {'year', 'sec', 'min'}


def S(n):
  return Term('sym', n)


def rule_scale(chk, prog):
  rule = 'C18.1-inverse-pair'
  c = prog.cls(f'{SC}.Scale')
  ev = sym.Evaluator(prog, sym.Options(opaque={f'{SC}.Scale._scaling_factor'}))
  fn, fd = c.find_method('nondimensionalize'), c.find_method('dimensionalize')
  vn, _, _ = ev.run(fn)
  vd, _, _ = ev.run(fd)
  sf = lambda t: t.k == 'call' and util.callee_name(t) == '_scaling_factor'
  q, val, unit = S('quantity'), S('value'), S('unit')
  sn = [t for t in sym.walk(vn) if sf(t)]
  sd = [t for t in sym.walk(vd) if sf(t)]
  okn = (len(set(sn)) == 1 and util.call_args(sn[0]) == [Term('attr', q, 'dimensionality')] and vn.k == 'attr' and vn.a[1] in ('magnitude', 'm') and vn.a[0].k == 'call'
         and util.callee_name(vn.a[0]) == 'to' and vn.a[0].a[0].a[0] == Term('bin', '/', q, sn[0]) and sym.show(vn.a[0].a[1][0]).endswith('dimensionless'))
  chk.check(okn, rule, f'{SC}.Scale.nondimensionalize = (quantity / scaling_factor(quantity.dimensionality)).to(dimensionless).magnitude', sym.show(vn), (fn.file, fn.lineno))
  okd = (len(set(sd)) == 1 and util.call_args(sd[0]) == [Term('attr', unit, 'dimensionality')] and vd.k == 'call' and util.callee_name(vd) == 'to' and list(vd.a[1]) == [unit]
         and sorted(map(sym.show, match.plain_factors(vd.a[0].a[0]))) == sorted(map(sym.show, [val, sd[0]])))
  chk.check(okd, rule, f'{SC}.Scale.dimensionalize = (value · scaling_factor(unit.dimensionality)).to(unit): the same factor, multiplied instead of divided', sym.show(vd), (fd.file, fd.lineno))
  ev2 = sym.Evaluator(prog)
  f = c.find_method('_scaling_factor')
  v, ctx, env = ev2.run(f)
  site, loc = f'{SC}.Scale._scaling_factor', (f.file, f.lineno)
  ok = v.k == 'loop'
  if chk.check(ok, rule, f'{site}: a product accumulated over the dimensionality', sym.show(v)[:160], loc):
    name, init, body, lv, uid = v.a
    it = lv.a[1]
    okit = it.k == 'call' and it.a[0].k == 'attr' and it.a[0].a[1] == 'items' and it.a[0].a[0] == S('dimensionality')
    dim, expo = Term('sub', lv, sym.const(0)), Term('sub', lv, sym.const(1))
    car = Term('carried', name, uid)
    sc = [t for t in sym.walk(body) if t.k == 'call' and t.a[0].k == 'attr' and t.a[0].a[1] == 'get' and sym.show(t.a[0].a[0]).endswith('._scales')]
    okb = len(set(sc)) == 1 and list(sc[0].a[1]) == [dim] and body == Term('bin', '*', car, Term('bin', '**', sc[0], expo))
    chk.check(okit and okb, rule, f'{site}: factor = Π over (dimension, exponent) of scale[dimension] ** exponent (multiplicative in products, quotients and powers of units)',
              sym.show(body)[:200], loc, 'factor * self._scales.get(dimension) ** exponent', sym.show(body)[:200])
    okinit = init.k == 'call' and sym.show(init.a[0]).endswith('Quantity') and list(init.a[1]) == [sym.const(1)]
    chk.check(okinit, rule, f'{site}: the product starts from the dimensionless 1', sym.show(init), loc)
  rz = [sym.show(guards.path_cond(p), maxdepth=12) for p, e, l in ctx.raises]
  chk.check(any('_scales.get(' in z and 'is None' in z for z in rz), rule, f'{site}: a dimension without a scale raises', str(rz)[:200], loc)
  # __init__: base units, one per dimension
  f = c.find_method('__init__')
  src = ast.unparse(f.node)
  stores = [n for n in ast.walk(f.node) if isinstance(n, ast.Assign) and isinstance(n.targets[0], ast.Subscript) and unparse(n.targets[0].value) == 'self._scales']
  ok = len(stores) == 1 and unparse(stores[0].value).endswith('.to_base_units()') and '_get_dimension(' in unparse(stores[0].targets[0].slice)
  chk.check(ok, rule, f'{SC}.Scale.__init__: each scale is stored under its dimension in base units (unit-independent conversions)', unparse(stores[0]) if stores else 'no store', (f.file, f.lineno))
  v, ctx, env = sym.Evaluator(prog, sym.Options(opaque={f'{SC}._get_dimension'})).run(f)
  rz = [sym.show(guards.path_cond(p), maxdepth=12) for p, e, l in ctx.raises]
  chk.check(any('_get_dimension(' in z and ' in ' in z and '_scales' in z for z in rz), rule, f'{SC}.Scale.__init__: a second scale for the same dimension raises', str(rz)[:200], (f.file, f.lineno))
  g = prog.func(f'{SC}._get_dimension')
  v, ctx, env = sym.Evaluator(prog).run(g)
  rz = [sym.show(guards.path_cond(p), maxdepth=12) for p, e, l in ctx.raises]
  chk.check(any('len(quantity.dimensionality) != 1' in z and '.values())[0] != 1' in z and ' or ' in z for z in rz), rule, f'{SC}._get_dimension: compound or non-unit-power scales raise', str(rz)[:200], (g.file, g.lineno))
  chk.at_least(rule, 8)


def float_time_source(t):
  """Value derived from a re-dimensionalised (floating) magnitude or an explicit float division."""
  return sym.contains(t, lambda z: z.k == 'attr' and z.a[1] in ('magnitude', 'm') and sym.contains(z.a[0], lambda y: y.k == 'call' and util.callee_name(y) == 'dimensionalize'))


def rounded(t):
  t0 = t
  while True:
    if t0.k == 'call' and t0.a[0].k == 'attr' and t0.a[0].a[1] == 'astype':
      t0 = t0.a[0].a[0]
      continue
    break
  if t0.k == 'call' and (alg.ext_short(t0.a[0]) in ('round', 'rint', 'around', 'round_') or t0.a[0] == Term('ext', 'round')):
    return True
  if t0.k == 'call' and t0.a[0].k == 'attr' and t0.a[0].a[1] == 'round':
    return True
  return False


def integer_conversions(term):
  """[(kind, operand, term)] of conversions to integer / datetime-like types."""
  out = []
  for t in sym.walk(term):
    if t.k != 'call':
      continue
    f = t.a[0]
    if f == Term('ext', 'int') and t.a[1]:
      out.append(('int()', t.a[1][0], t))
    elif f.k == 'attr' and f.a[1] == 'astype' and t.a[1]:
      tgt = sym.show(t.a[1][0])
      if tgt in ('int', 'numpy.int32', 'numpy.int64') or 'timedelta64' in tgt or 'datetime64' in tgt or "'int" in tgt:
        fam = 'timedelta64' if 'timedelta64' in tgt else 'datetime64' if 'datetime64' in tgt else 'int'
        out.append((f'astype({fam})', f.a[0], t))
    elif f == Term('ext', 'numpy.timedelta64') and len(t.a[1]) == 2 and t.a[1][0].k != 'const':
      out.append(('np.timedelta64(x, unit)', t.a[1][0], t))
    elif f == Term('ext', 'numpy.datetime64') and len(t.a[1]) == 2 and t.a[1][0].k != 'const':
      out.append(('np.datetime64(x, unit)', t.a[1][0], t))
    elif alg.ext_short(f) in ('array', 'asarray') and len(t.a[1]) == 2 and ('timedelta64' in sym.show(t.a[1][1]) or 'datetime64' in sym.show(t.a[1][1])):
      out.append(('np.array(x, time dtype)', t.a[1][0], t))
  return out


def rule_rounding(chk, prog):
  rule = 'C18.2-float-to-int-rounds'
  sites = [f'{PE}.PrimitiveEquationsSpecs.dimensionalize_timedelta64', f'{XU}.nondim_time_to_datetime64', f'{XU}.selective_temporal_shift', f'{XU}.nondim_time_delta_from_time_axis',
           f'{PE}.PrimitiveEquationsSpecs.nondimensionalize_timedelta64', f'{XU}.datetime64_to_nondim_time', f'{RA}.datetime_to_time']
  n = 0
  for q in sites:
    f = prog.func(q)
    ev = sym.Evaluator(prog)
    v, ctx, env = ev.run(f)
    values = [v] + [x for x in env.values() if isinstance(x, Term)]
    seen = set()
    for val in values:
      for kind, operand, t in integer_conversions(val):
        if t in seen:
          continue
        seen.add(t)
        if kind == 'np.datetime64(x, unit)':
          # re-expressing a calendar time in a (possibly coarser) unit drops everything below that unit: minute resolution is lost
          chk.violation(rule, f'{q}: {kind} of {sym.show(operand, maxdepth=3)[:60]}', 'a calendar time is re-expressed in a fixed unit: numpy truncates anything finer (a reference '
                        'at 00:30 becomes 00:00), so the two directions of the time map no longer agree at minute resolution', t.loc or (f.file, f.lineno),
                        'use the datetime64 value as given', sym.show(t, maxdepth=3)[:120])
          n += 1
          continue
        if not float_time_source(operand):
          chk.ok(rule, f'{q}: {kind} of {sym.show(operand, maxdepth=3)[:60]}', 'operand is not a re-dimensionalised floating value (integer / calendar source)', t.loc or (f.file, f.lineno))
          n += 1
          continue
        # nested conversions (np.array(round(x).astype(int), 'timedelta64[m]')): judged at the innermost conversion
        if integer_conversions(operand):
          continue
        ok = rounded(operand)
        chk.check(ok, rule, f'{q}: {kind} of a re-dimensionalised time', 'rounded before the conversion' if ok else
                  'the floating value is truncated, not rounded: after a float round trip whole units can come back one short (e.g. 27 s → 26 s)', t.loc or (f.file, f.lineno),
                  'round(x) before int / astype / timedelta64', sym.show(operand, maxdepth=4)[:160])
        n += 1
  chk.at_least(rule, 4)


def np_unit_of(t):
  """numpy unit code in np.timedelta64(…, 'u') / 'timedelta64[u]' strings."""
  if t.k == 'call' and t.a[0] == Term('ext', 'numpy.timedelta64') and len(t.a[1]) == 2:
    return t.a[1][1]
  if t.k == 'const' and isinstance(t.a[0], str) and ('timedelta64[' in t.a[0] or 'datetime64[' in t.a[0]):
    return sym.const(t.a[0].split('[')[1].rstrip(']'))
  if t.k == 'fstr':
    parts = [p for p in t.a if isinstance(p, Term)]
    if len(parts) == 1 and any(isinstance(p, str) and 'timedelta64[' in p for p in t.a):
      return parts[0]
  return None


def pint_unit_of(t):
  """pint unit name or the variable passed to units(·)."""
  if t.k == 'attr' and t.a[1] in PINT_UNITS and sym.show(t.a[0]).endswith('units'):
    return sym.const(t.a[1])
  if t.k == 'call' and sym.show(t.a[0]).endswith('units') and len(t.a[1]) == 1:
    return t.a[1][0]
  return None


def rule_unit_pairs(chk, prog):
  rule = 'C18.3-unit-pairs'
  sites = [f'{XU}.datetime64_to_nondim_time', f'{XU}.nondim_time_to_datetime64', f'{PE}.PrimitiveEquationsSpecs.nondimensionalize_timedelta64',
           f'{PE}.PrimitiveEquationsSpecs.dimensionalize_timedelta64', f'{XU}.nondim_time_delta_from_time_axis']
  per_site = {}
  for q in sites:
    f = prog.func(q)
    ev = sym.Evaluator(prog, sym.Options(fold_consts=True))
    # keep the unit variable symbolic: evaluate without folding f-strings of local constants
    v, ctx, env = ev.run(f)
    nps, pints = [], []
    for t in sym.walk(v):
      u = np_unit_of(t)
      if u is not None:
        nps.append(u)
      p = pint_unit_of(t)
      if p is not None:
        pints.append(p)
    nps = list({sym.show(x): x for x in nps}.values())
    pints = list({sym.show(x): x for x in pints}.values())
    per_site[q] = {UNIT_PAIRS.get(x.a[0], x.a[0]) if x.k == 'const' else sym.show(x) for x in nps + pints}
    ok = len(nps) >= 1 and len(pints) == 1 and len({sym.show(x) for x in nps}) == 1
    if ok:
      nu, pu = nps[0], pints[0]
      if nu.k == 'const' and pu.k == 'const':
        ok = UNIT_PAIRS.get(nu.a[0]) == pu.a[0] or nu.a[0] == pu.a[0] or UNIT_PAIRS.get(nu.a[0]) == UNIT_PAIRS.get(pu.a[0], '?')
      else:
        ok = nu == pu
    chk.check(ok, rule, f'{q}: numpy time unit and pint unit denote the same unit', f'numpy {[sym.show(x) for x in nps]} ↔ pint {[sym.show(x) for x in pints]}', (f.file, f.lineno),
              'matching pair (h↔hour, m↔minute, s↔second, D↔day) or one shared unit variable', f'{[sym.show(x) for x in nps]} vs {[sym.show(x) for x in pints]}')
  # the two timedelta directions use one literal each and the same one
  units_used = [sorted(per_site.get(f'{PE}.PrimitiveEquationsSpecs.{name}', {'?'})) for name in ('nondimensionalize_timedelta64', 'dimensionalize_timedelta64')]
  chk.check(units_used[0] == units_used[1] and len(units_used[0]) == 1, rule, f'{PE}.PrimitiveEquationsSpecs: both timedelta64 directions use the same base unit', str(units_used), None)
  # radiation.datetime_to_time: days + seconds / SECONDS_PER_DAY, in pint days
  f = prog.func(f'{RA}.datetime_to_time')
  ev = sym.Evaluator(prog, sym.Options(opaque={f'{RA}.datetime64_to_datetime'}))
  v, ctx, env = ev.run(f)
  A = alg.Algebra(ev)
  okq = v.k == 'call' and util.callee_name(v) == 'nondimensionalize'
  fs = match.plain_factors(util.call_args(v)[-1]) if okq else []
  unit_f = [x for x in fs if pint_unit_of(x) == sym.const('day')]
  count_f = [x for x in fs if pint_unit_of(x) != sym.const('day')]
  okq = okq and len(unit_f) == 1 and len(count_f) == 1
  days = count_f[0] if okq else None
  diffs = {t.a[0] for t in sym.walk(days) if t.k == 'attr' and t.a[1] in ('days', 'seconds')} if days is not None else set()
  ok = days is not None and len(diffs) == 1
  if ok:
    diff = list(diffs)[0]
    ok = alg.equal(A.conv(days), A.conv(Term('attr', diff, 'days')) + A.conv(Term('attr', diff, 'seconds')) / 86400)
    ok = ok and diff.k == 'bin' and diff.a[0] == '-'
  chk.check(ok, rule, f'{RA}.datetime_to_time: elapsed days = timedelta.days + timedelta.seconds / 86400 of (when − reference)', sym.show(days)[:160] if days is not None else 'missing', (f.file, f.lineno))
  chk.check(okq, rule, f'{RA}.datetime_to_time: the day count is attached to pint `day` and non-dimensionalised with the given specs', sym.show(v, maxdepth=3)[:160], (f.file, f.lineno))
  g = prog.func(f'{RA}.datetime64_to_datetime')
  v, _, _ = sym.Evaluator(prog).run(g)
  txt = sym.show(v, maxdepth=12)
  chk.check("numpy.datetime64('1970-01-01T00:00:00')" in txt and "numpy.timedelta64(1, 's')" in txt and 'utcfromtimestamp' in txt, rule,
            f'{RA}.datetime64_to_datetime: seconds since the Unix epoch → UTC datetime', txt[:160], (g.file, g.lineno))
  chk.at_least(rule, 9)


def rule_phases(chk, prog):
  rule = 'C18.4-orbital-phase'
  ev = sym.Evaluator(prog)
  c = prog.cls(f'{RA}.SolarRadiation')
  f = c.find_method('time_to_orbital_time')
  v, _, _ = ev.run(f)
  site, loc = f'{RA}.SolarRadiation.time_to_orbital_time', (f.file, f.lineno)
  A = alg.Algebra(ev)
  ref = A.name(lambda t: t.k == 'attr' and t.a[1] == 'reference_orbital_time', 'ref')
  rate = A.name(lambda t: t.k == 'attr' and t.a[1] == 'orbital_rate', 'rate')
  tm = A.name(lambda t: t == S('time'), 't')
  raw = ref + rate * tm
  M = 2 * sp.pi
  want = raw - sp.Function('floordiv')(raw, M) * M
  chk.check(alg.equal(A.conv(v), want), rule, f'{site}: phase = x − ⌊x / 2π⌋·2π with x = reference + rate·time (floor-mod into [0, 2π) with one modulus)', sym.show(v)[:200], loc, str(want), str(A.conv(v)))
  f = prog.func(f'{RA}.datetime_to_orbital_time')
  ev2 = sym.Evaluator(prog, sym.Options(opaque={f'{RA}.days_in_year'}))
  v, _, _ = ev2.run(f)
  site, loc = f'{RA}.datetime_to_orbital_time', (f.file, f.lineno)
  if chk.check(v.k == 'obj' and v.a[0].endswith('OrbitalTime'), rule, f'{site}: returns an OrbitalTime', sym.show(v)[:120], loc):
    B = alg.Algebra(ev2)
    w = S('when')
    hour, minute = B.conv(Term('attr', w, 'hour')), B.conv(Term('attr', w, 'minute'))
    yday = [t for t in sym.walk(v) if t.k == 'attr' and t.a[1] == 'tm_yday']
    chk.require(bool(yday), f'{site}: day-of-year not used')
    yd = B.conv(yday[0])
    diy = [t for t in sym.walk(v) if t.k == 'call' and util.callee_name(t) == 'days_in_year']
    fday = (60 * hour + minute) / 1440
    chk.check(alg.equal(B.conv(util.field(v, 'synodic_phase')), 2 * sp.pi * fday), rule, f'{site}: synodic phase = 2π·(60·hour + minute)/1440', sym.show(util.field(v, 'synodic_phase'))[:160], loc)
    ok = bool(diy) and alg.equal(B.conv(util.field(v, 'orbital_phase')), 2 * sp.pi * ((yd - 1) + fday) / B.conv(diy[0])) and list(diy[0].a[1]) == [w]
    chk.check(ok, rule, f'{site}: orbital phase = 2π·((day_of_year − 1) + fraction_of_day)/days_in_year(when)', sym.show(util.field(v, 'orbital_phase'))[:200], loc)
  g = prog.func(f'{RA}.days_in_year')
  v, _, _ = ev.run(g)
  txt = sym.show(v, maxdepth=10)
  chk.check('month=12' in txt and 'day=31' in txt and 'year=when.year' in txt and txt.endswith('tm_yday'), rule, f'{RA}.days_in_year: day-of-year of 31 December of that year', txt, (g.file, g.lineno))
  f = c.find_method('__init__')
  ev3 = sym.Evaluator(prog, sym.Options(opaque={f'{RA}.datetime_to_orbital_time', f'{RA}.datetime64_to_datetime'}))
  v, _, env = ev3.run(f)
  me = env['self']
  site, loc = f'{RA}.SolarRadiation.__init__', (f.file, f.lineno)
  rate_t = util.field(me, 'orbital_rate')
  C = alg.Algebra(ev3)
  yr = C.name(lambda t: pint_unit_of(t) == sym.const('year'), 'year', positive=True)
  dy = C.name(lambda t: pint_unit_of(t) == sym.const('day'), 'day', positive=True)
  for fld, unit, what in (('orbital_phase', yr, 'year'), ('synodic_phase', dy, 'day')):
    r = util.field(rate_t, fld) if rate_t is not None and rate_t.k == 'obj' else None
    ok = r is not None and r.k == 'call' and util.callee_name(r) == 'nondimensionalize' and alg.equal(C.conv(util.call_args(r)[-1]), 2 * sp.pi / unit)
    chk.check(ok, rule, f'{site}: {fld} rate = nondimensionalize(2π / {what})', sym.show(r)[:160] if r is not None else 'missing', loc)
  ref_t = util.field(me, 'reference_orbital_time')
  rd = util.field(me, 'reference_datetime')
  ok = ref_t is not None and ref_t.k == 'call' and util.callee_name(ref_t) == 'datetime_to_orbital_time' and util.call_args(ref_t) == [rd]
  chk.check(ok, rule, f'{site}: the reference phase is the orbital time of the (same) reference datetime that defines time 0', sym.show(ref_t, maxdepth=3)[:160] if ref_t is not None else 'missing', loc)
  m = c.find_method('datetime_to_time')
  v, _, _ = sym.Evaluator(prog, sym.Options(opaque={f'{RA}.datetime_to_time'})).run(m)
  ok = v.k == 'call' and util.callee_name(v) == 'datetime_to_time' and [a.a[1] if a.k == 'attr' and a.a[0].k == 'sym' and sym.show(a.a[0]).startswith('self') else None for a in util.call_args(v)][1:] == ['physics_specs', 'reference_datetime']
  chk.check(ok, rule, f'{RA}.SolarRadiation.datetime_to_time: measured from the same reference datetime with the same specs', sym.show(v)[:160], (m.file, m.lineno))
  chk.at_least(rule, 9)


def run(chk, prog, tier):
  rule_scale(chk, prog)
  rule_rounding(chk, prog)
  rule_unit_pairs(chk, prog)
  rule_phases(chk, prog)
  chk.assume('pint: Quantity arithmetic, .to(unit), .to_base_units(), dimensionality; numpy datetime64 / timedelta64 arithmetic and unit codes',
             'python int() and ndarray.astype(int / timedelta64) truncate toward zero')
  return dict(
      explanation=('Scale.nondimensionalize / dimensionalize / _scaling_factor / __init__ are abstractly interpreted and matched as an inverse pair sharing one factor; in the time-'
                   'conversion functions every conversion of a value to an integer-like type is located and its operand classified (re-dimensionalised float → must be rounded; '
                   'calendar / integer sources are exempt); the numpy and pint unit literals or variables at each site are extracted and compared through a unit-pair table; '
                   'the orbital phase maps are compared as normal forms. Not decided: floating-point exactness of round trips.'),
      trusted_base=['python ast', 'sympy canonicalisation', 'pint and numpy datetime semantics'],
      analysed=dict(functions=[f'{SC}.Scale.*', f'{PE}.PrimitiveEquationsSpecs.*timedelta64', f'{XU}.datetime64_to_nondim_time', f'{XU}.nondim_time_to_datetime64',
                               f'{XU}.nondim_time_delta_from_time_axis', f'{XU}.selective_temporal_shift', f'{RA}.datetime_to_time', f'{RA}.datetime_to_orbital_time',
                               f'{RA}.SolarRadiation.time_to_orbital_time']),
  )
