"""C11 — structural invariants survive any number of steps (compositional premises P1–P5, clock, means)."""
from __future__ import annotations

import sympy as sp

from sa import alg, domains, match, sym, util
from sa.model import AnalysisError
from sa.sym import Term
from rules import common

PE = 'primitive_equations'
SW = 'shallow_water'
TI = 'time_integration'
SH = 'spherical_harmonic'
G = f'{SH}.Grid.'

CLAIM = dict(
    text=('Decides the premises from which the exact-zero invariants follow by induction over steps: (P1) every field of every explicit tendency (dry, with time, '
          'moist, moist+cloud, shallow water) is the direct output of Grid.clip_wavenumbers — nothing is added after the clip; the time-carrying wrappers only '
          're-pack; (P2) the call tree of implicit_terms / implicit_inverse contains no operator that mixes the spectral axes (no shift, longitude derivative, '
          'transform, roll) and its einsums keep (m, l) as batch indices; (P3) filters multiply by a function of total wavenumber only and leave leaves failing '
          'the shape gate untouched; (P4) every integrator touches the state only through F, G, G⁻¹ and linear combinations with state-independent scalars; '
          '(P5) the recurrence weights carry the triangular mask; the clock tendency is the constant 1 (explicit) / 0 (implicit) and the solve returns the '
          'incoming clock; the dry and shallow-water vorticity / divergence tendencies are sums of outputs of ∇², div, curl, each of which has a structurally '
          'zero (0,0) row, and the shallow-water potential tendency is −div(·) explicitly and −Φ_ref·divergence implicitly. Also decided: the flux-form tracer advection is −∇·(u q) + q·δ with the nodal wind synthesised from (ζ, δ) without clipping and δ the transform of the prognostic divergence (the consistency a uniform tracer needs). Does not decide conservation of '
          'the moist global means or of a uniform tracer (they rest on quadrature exactness), nor "to rounding" for the clock.'
          ' Later additions: C11.T uniform-tracer consistency, C11.M moist divergence form, the clock snap rounds (not truncates) the step count, C11.S shared state.'),
    note=('The implication "premises ⇒ invariant" is a paper argument (linear-combination integrators preserve a coordinate subspace that F, G, G⁻¹ and the '
          'filters preserve); the check decides the premises on the current source. Σb = 1 for the tableaux is decided under C06.'),
    technique='must-pass-through / who-may-call over inlined call trees + LIN domain on integrator steps + dependence sets (shared with C15) + value-at-l=0 domain',
)

GRID_OPS = {G + n for n in ('to_modal', 'to_nodal', 'clip_wavenumbers', 'laplacian', 'inverse_laplacian', 'cos_lat_grad', 'div_cos_lat', 'curl_cos_lat', 'd_dlon',
                             'cos_lat_d_dlat', 'sec_lat_d_dlat_cos2', 'sec2_lat', 'cos_lat', 'nodal_mesh', 'nodal_axes', 'k_cross')}
EXPL_OPAQUE = common.SIGMA_PROPS | GRID_OPS | {
    f'{SH}.get_cos_lat_vector', 'sigma_coordinates.cumulative_sigma_integral', 'sigma_coordinates.sigma_integral', 'sigma_coordinates.centered_vertical_advection',
    f'{PE}.get_sigma_ratios', f'{PE}.get_geopotential_diff', f'{PE}.compute_diagnostic_state', f'{PE}.div_sec_lat',
}
MIXING = {'shift', 'd_dlon', 'to_nodal', 'to_modal', 'transform', 'inverse_transform', 'longitudinal_derivative', 'cos_lat_d_dlat', 'sec_lat_d_dlat_cos2',
          'cos_lat_grad', 'div_cos_lat', 'curl_cos_lat', 'real_basis_derivative', 'real_basis_derivative_with_zero_imag', 'roll', 'fft', 'ifft', 'clip_wavenumbers',
          '_unstack_m', '_stack_m', 'get_cos_lat_vector'}


def S(n):
  return Term('sym', n)


def is_clip(t):
  return t.k == 'call' and util.callee_name(t) == 'clip_wavenumbers' and t.a[0].k == 'bound'


def clipped_source(t, parents):
  """True when `t` is (a projection of) a clip_wavenumbers output or of a parent explicit_terms result."""
  while True:
    if is_clip(t):
      return 'clip'
    if t.k == 'call' and util.callee_name(t) == 'explicit_terms' and t.a[0].k == 'bound' and t.a[0].a[1] in parents:
      return 'parent'
    if t.k in ('attr',):
      t = t.a[0]
      continue
    if t.k == 'sub' and t.a[1].k == 'const':
      t = t.a[0]
      continue
    return None


def rule_p1(chk, prog):
  rule = 'C11.P1-explicit-clipped'
  classes = [f'{PE}.PrimitiveEquations', f'{PE}.PrimitiveEquationsWithTime', f'{PE}.MoistPrimitiveEquations', f'{PE}.MoistPrimitiveEquationsWithCloudMoisture',
             f'{SW}.ShallowWaterEquations']
  checked_impl = {}
  for cq in classes:
    c = prog.cls(cq)
    f = c.find_method('explicit_terms')
    chk.require(f is not None, f'{cq}.explicit_terms not found')
    impl = f.qualname
    parents = {m.qualname for k in c.mro()[1:] for m in [k.methods.get('explicit_terms')] if m is not None}
    ev = sym.Evaluator(prog, sym.Options(opaque=EXPL_OPAQUE | parents, max_depth=8, model_nonscalar=False))
    v, ctx, env = ev.run(f, self_cls=c)
    site, loc = f'{cq.replace("dinosaur.", "")}.explicit_terms', (f.file, f.lineno)
    if is_clip(v):
      args = util.call_args(v)
      n_arg = util.call_kwargs(v).get('n', args[1] if len(args) > 1 else None)
      chk.check(n_arg is None or (n_arg.k == 'const' and n_arg.a[0] >= 1), rule, f'{site}: the whole tendency is returned through clip_wavenumbers (top total wavenumber zeroed last)',
                sym.show(v, maxdepth=2)[:120], loc)
      chk.check(args[0].k == 'obj', rule, f'{site}: the clipped value is the complete state of tendencies', sym.show(args[0], maxdepth=1)[:120], loc)
      continue
    if v.k != 'obj':
      chk.violation(rule, f'{site}: returns a state of clipped tendencies', f'unrecognised result {sym.show(v, maxdepth=2)[:120]}', loc)
      continue
    for name, val in v.a[1]:
      if name == 'sim_time':
        continue
      src = clipped_source(val, parents)
      if src is None and val.k == 'mapover':
        src = clipped_source(val.a[0], parents)
      what = {'clip': 'is the direct output of clip_wavenumbers', 'parent': 'is re-packed from the (clipped) parent tendency'}.get(src, '')
      chk.check(src is not None, rule, f'{site}: field `{name}` {what or "passes through clip_wavenumbers after its last operation"}', sym.show(val, maxdepth=3)[:200], val.loc or loc,
                'clip_wavenumbers(...) as the outermost operation', sym.show(val, maxdepth=3)[:200])
  chk.at_least(rule, 14)


def rule_p2(chk, prog):
  rule = 'C11.P2-implicit-diagonal'
  sites = [(f'{PE}.PrimitiveEquations', 'implicit_terms', {}), (f'{PE}.PrimitiveEquations', 'implicit_inverse', {'method': 'split'}),
           (f'{PE}.PrimitiveEquations', 'implicit_inverse', {'method': 'stacked'}), (f'{PE}.PrimitiveEquations', 'implicit_inverse', {'method': 'blockwise'}),
           (f'{PE}.PrimitiveEquationsWithTime', 'implicit_terms', {}), (f'{PE}.PrimitiveEquationsWithTime', 'implicit_inverse', {}),
           (f'{SW}.ShallowWaterEquations', 'implicit_terms', {}), (f'{SW}.ShallowWaterEquations', 'implicit_inverse', {})]
  for cq, m, bind in sites:
    c = prog.cls(cq)
    f = c.find_method(m)
    ev = sym.Evaluator(prog, sym.Options(opaque=common.SIGMA_PROPS, max_depth=8))
    v, ctx, env = ev.run(f, self_cls=c, bind={k_: sym.const(x) for k_, x in bind.items()})
    tag = f'[{bind["method"]}]' if bind else ''
    site, loc = f'{cq.replace("dinosaur.", "")}.{m}{tag}', (f.file, f.lineno)
    is_state = lambda t: t.k == 'attr' and t.a[0] == S('state')
    bad = []
    n_calls = 0
    for t in sym.walk(v):
      if t.k != 'call' or not sym.contains(t, is_state):
        continue
      n_calls += 1
      name = util.callee_name(t)
      if name in MIXING:
        bad.append(f'{name} at {t.loc}')
        continue
      ep = match.einsum_parts(t)
      if ep is not None and ep[0] == 'string':
        ins, out = match.parse_spec(ep[1])
        data = [i for i, o in zip(ins, ep[2]) if sym.contains(o, is_state)]
        for d in data:
          dd, oo = d.replace('...', ''), out.replace('...', '')
          if len(dd) < 2 or len(oo) < 2 or dd[-2:] != oo[-2:]:
            bad.append(f"einsum '{ep[1]}' does not keep the two spectral indices of its data as trailing batch indices")
      if name in ('cumsum', 'reverse_cumsum'):
        ax = util.call_kwargs(t).get('axis', t.a[1][1] if len(t.a[1]) > 1 else None)
        if ax != sym.const(0):
          bad.append(f'{name} along axis {sym.show(ax) if ax is not None else None}')
      if name == 'concatenate':
        ax = util.call_kwargs(t).get('axis', t.a[1][1] if len(t.a[1]) > 1 else sym.const(0))
        if ax != sym.const(0):
          bad.append(f'concatenate along axis {sym.show(ax)}')
    chk.check(not bad, rule, f'{site}: only level-wise and per-wavenumber operations touch the state (no spectral-axis mixing)', f'{n_calls} state-dependent calls inspected' if not bad else str(bad[:3]),
              loc, 'laplacian / vertical matvec / vertical cumsum / element-wise arithmetic', str(bad[:3]))
  chk.at_least(rule, 8)


def rule_p3(chk, prog):
  from rules import c15
  before = len(chk.instances)
  c15.rule_scaling(chk, prog, 'exponential_filter', 'attenuation', [
      (c15.is_sym('attenuation'), 'NN'), (c15.is_sym('cutoff'), 'NN'), (c15.is_sym('order'), 'P'),
      (lambda t: t.k == 'bin' and t.a[0] == '-' and t.a[1] == sym.const(1) and t.a[2] == Term('sym', 'cutoff'), 'P')])
  c15.rule_scaling(chk, prog, 'horizontal_diffusion_filter', 'scale', [(c15.is_sym('scale'), 'NN'), (c15.is_sym('order'), 'P')])
  c15.rule_shape_gate(chk, prog)
  keep = []
  for i in chk.instances[before:]:
    if i['rule'] in ('C15.3-depends-on-l-only', 'C15.6-shape-gate'):
      i['rule'] = 'C11.P3-filters-diagonal'
      keep.append(i)
    elif i['rule'] == 'C15.2-mean-preserved':
      i['rule'] = 'C11.P3m-filters-keep-mean'
      keep.append(i)
  chk.instances[before:] = keep
  chk.violations[:] = [v for v in chk.violations if v in chk.instances]
  for r in list(chk.minimum):
    if r.startswith('C15.'):
      chk.minimum.pop(r)
  chk.at_least('C11.P3-filters-diagonal', 5)
  chk.at_least('C11.P3m-filters-keep-mean', 2)


def rule_p0(chk, prog):
  """The clip itself: decided by the same rule as C02.5, filed here because P1 rests on it."""
  from rules import c02
  c02.clip_mask_rule(chk, prog, 'C11.P0-clip-mask')
  chk.at_least('C11.P0-clip-mask', 4)


INTEGRATORS = ['backward_forward_euler', 'crank_nicolson_rk2', 'semi_implicit_leapfrog', 'low_storage_runge_kutta_crank_nicolson', 'imex_runge_kutta']


def rule_p4(chk, prog):
  rule = 'C11.P4-integrators-linear'
  for name in INTEGRATORS:
    ev = sym.Evaluator(prog)
    f = prog.func(f'{TI}.{name}')
    v, _, _ = ev.run(f)
    step, _, senv = util.inner(ev, v, f.qualname)
    fi, _ = ev.get_func(v)
    up = S(fi.param_names()[0])
    site, loc = f'{TI}.{name}', (f.file, f.lineno)
    TERMS = ('explicit_terms', 'implicit_terms', 'implicit_inverse')
    is_op = lambda t: t.k == 'call' and util.callee_name(t) in TERMS
    is_var = lambda t: t == up or t.k == 'carried' or is_op(t) or (t.k == 'sub' and t.a[0] == up) or (t.k == 'sub' and t.a[0].k in ('loop', 'carried'))
    L = domains.Lin(is_var)
    problems = []
    cls_ = L.of(step)
    if cls_ not in ('L', 'Z'):
      problems.append(f'step value is {cls_} in the state')
    for t in sym.walk(step):
      if is_op(t):
        args = util.call_args(t)
        a0 = L.of(args[0])
        if a0 not in ('L', 'Z'):
          problems.append(f'{util.callee_name(t)} is applied to a value that is {a0} in the state: {sym.show(args[0], maxdepth=3)[:80]}')
        for w in args[1:]:
          if sym.contains(w, is_var):
            problems.append(f'{util.callee_name(t)} weight depends on the state')
      if t.k == 'loop' and L.of(t.a[2]) not in ('L', 'Z'):
        problems.append(f'loop body for {t.a[0]} is not linear in the state')
    chk.check(not problems, rule, f'{site}: the state is touched only by F, G, G⁻¹ and linear combinations with state-independent weights', 'linear' if not problems else str(problems[:3]), loc,
              'L (linear-homogeneous) everywhere', str(problems[:3]))
  # Robert–Asselin is leaf-wise linear (C15.7 decides the weights)
  ev = sym.Evaluator(prog)
  f = prog.func(f'{TI}.robert_asselin_leapfrog_filter')
  v, _, _ = ev.run(f)
  step, _, _ = util.inner(ev, v, f.qualname)
  fi, _ = ev.get_func(v)
  ps = [S(p) for p in fi.param_names()]
  L = domains.Lin(lambda t: t in ps or (t.k == 'sub' and t.a[0] in ps))
  chk.check(L.of(step) in ('L', 'Z'), rule, f'{TI}.robert_asselin_leapfrog_filter: leaf-wise linear combination of time levels', L.of(step), (f.file, f.lineno))
  chk.at_least(rule, 6)


def rule_p5(chk, prog):
  rule = 'C11.P5-triangle-respected'
  ev = sym.Evaluator(prog)
  f = prog.func(G + '_derivative_recurrence_weights')
  v, _, _ = ev.run(f)
  chk.require(v.k == 'tuple' and len(v.a) == 2, 'recurrence weights are not a pair')
  for name, t in zip('ab', v.a):
    base = t
    while base.k == 'store':
      base = base.a[0]
    ok = match.is_ext_call(base, 'sqrt') and any(x.k == 'attr' and x.a[1] == 'mask' for x in match.plain_factors(_num(base.a[1][0])))
    chk.check(ok, rule, f'{SH}.Grid._derivative_recurrence_weights: {name} is multiplied by the triangular mask inside the root (no coupling into or out of |m| > l)',
              sym.show(base)[:160], (f.file, f.lineno))
  # laplacian eigenvalue vanishes at l = 0; sec_lat_d_dlat_cos2 cannot feed l = 0
  from rules import c02, c15
  f = prog.func(G + 'laplacian_eigenvalues')
  v, _, _ = ev.run(f)
  sgn = domains.Sign(assume=[(c02.is_l, 'NN'), (c02.is_radius, 'P')])
  z = domains.AtZero(c02.is_l, sgn).of(v)
  chk.check(z == 'Z', 'C11.means-operators', f'{SH}.Grid.laplacian_eigenvalues vanish at l = 0 (∇² annihilates the global mean)', z, (f.file, f.lineno), 'Z', z)
  ev2 = sym.Evaluator(prog, sym.Options(opaque={G + '_derivative_recurrence_weights'}))
  f = prog.func(G + 'sec_lat_d_dlat_cos2')
  v, _, _ = ev2.run(f)
  shifts = list({t for t in sym.walk(v) if t.k == 'call' and util.callee_qual(t).endswith('jax_numpy_utils.shift')})
  A, l, m, r, mask = c02.named_algebra(ev2)
  x = A.conv(S(f.param_names()[1]))
  ok = len(shifts) == 2
  detail = ''
  for s_ in shifts:
    off = s_.a[1][1]
    w = sp.cancel(A.conv(s_.a[1][0]) / x)
    if off == sym.const(-1):
      # destination l=0 receives source l=1: the weight must vanish there
      at1 = sp.simplify(w.subs(l, 1))
      ok = ok and at1 == 0
      detail += f'weight of l→l−1 at l=1: {at1}; '
    elif off == sym.const(1):
      detail += 'l→l+1 cannot reach l=0 (zero-filled shift); '
    else:
      ok = False
  chk.check(ok, 'C11.means-operators', f'{SH}.Grid.sec_lat_d_dlat_cos2: nothing is transferred into l = 0 (div and curl have a zero (0,0) row)', detail, (f.file, f.lineno))
  chk.at_least(rule, 2)
  chk.at_least('C11.means-operators', 2)


def _num(t):
  if t.k == 'bin' and t.a[0] == '/':
    return t.a[1]
  return t


def additive_terms(t):
  if t.k == 'bin' and t.a[0] == '+':
    return additive_terms(t.a[1]) + additive_terms(t.a[2])
  if t.k == 'bin' and t.a[0] == '-':
    return additive_terms(t.a[1]) + additive_terms(t.a[2])
  return [t]


def outer_operator(t):
  """Outermost spectral operator of a term after stripping signs and state-independent scalar factors."""
  while True:
    if t.k == 'un' and t.a[0] in '+-':
      t = t.a[1]
      continue
    if t.k == 'bin' and t.a[0] == '*':
      l, r = t.a[1], t.a[2]
      lc = not sym.contains(l, lambda z: z.k == 'sym' and z.a[0] == 'state' or (z.k == 'call' and util.callee_name(z) == 'compute_diagnostic_state'))
      rc = not sym.contains(r, lambda z: z.k == 'sym' and z.a[0] == 'state' or (z.k == 'call' and util.callee_name(z) == 'compute_diagnostic_state'))
      if lc and not rc:
        t = r
        continue
      if rc and not lc:
        t = l
        continue
      if lc and rc:
        # state-independent term (orography): pick the operator among the factors
        for x in (l, r):
          if x.k == 'call' and x.a[0].k == 'bound':
            return util.callee_name(x)
      return None
    if t.k == 'call' and t.a[0].k == 'bound':
      return util.callee_name(t)
    return None


def rule_means(chk, prog):
  rule = 'C11.means-tendencies'
  MEANFREE = {'laplacian', 'div_cos_lat', 'curl_cos_lat'}
  for cq, fields in ((f'{PE}.PrimitiveEquations', ('vorticity', 'divergence')), (f'{SW}.ShallowWaterEquations', ('vorticity', 'divergence', 'potential'))):
    c = prog.cls(cq)
    for m in ('explicit_terms', 'implicit_terms'):
      f = c.find_method(m)
      ev = sym.Evaluator(prog, sym.Options(opaque=EXPL_OPAQUE, max_depth=8, model_nonscalar=False))
      v, _, _ = ev.run(f, self_cls=c)
      site, loc = f'{cq.replace("dinosaur.", "")}.{m}', (f.file, f.lineno)
      st = util.call_args(v)[0] if is_clip(v) else v
      if st.k != 'obj':
        chk.violation(rule, f'{site}: tendencies are returned as a state of (clipped) fields', f'unrecognised result {sym.show(st, maxdepth=2)[:120]}', loc)
        continue
      for name in fields:
        val = util.field(st, name)
        if val is None:
          chk.violation(rule, f'{site}: `{name}` tendency', 'field not found in the returned state', loc)
          continue
        if is_clip(val):
          val = util.call_args(val)[0]
        if name == 'potential' and m == 'implicit_terms':
          deps = {t.a[1] for t in sym.walk(val) if t.k == 'attr' and t.a[0] == S('state')}
          chk.check(deps == {'divergence'}, rule, f'{site}: the potential (layer-thickness) tendency is −Φ_ref·divergence — its (0,0) entry is tied to that of divergence', str(sorted(deps)), loc,
                    "{'divergence'}", str(sorted(deps)))
          continue
        if match.is_ext_call(val, 'zeros_like'):
          chk.ok(rule, f'{site}: `{name}` tendency is identically zero', '', loc)
          continue
        ops = [outer_operator(t) for t in additive_terms(val)]
        ok = all(o in MEANFREE for o in ops)
        chk.check(ok, rule, f'{site}: every additive term of the `{name}` tendency is an output of ∇², div or curl (zero (0,0) row ⇒ global mean unchanged)', str(ops), val.loc or loc,
                  'subset of {laplacian, div_cos_lat, curl_cos_lat}', str(ops))
  chk.at_least(rule, 9)


def rule_clock(chk, prog):
  rule = 'C11.clock'
  # the clock snap used between steps: sim_time ← dt·round(sim_time / dt) (the identity on multiples of dt), nothing else touched
  f = prog.func(f'{TI}.maybe_fix_sim_time_roundoff')
  ev0 = sym.Evaluator(prog)
  v0, _, env0 = ev0.run(f)
  stp, dtp = S(f.param_names()[0]), S(f.param_names()[1])
  A0 = alg.Algebra(ev0)
  tsym = A0.name(lambda t: t == Term('attr', stp, 'sim_time'), 'sim_time')
  dsym = A0.name(lambda t: t == dtp, 'dt', positive=True)
  new_time = None
  for t in sym.walk(v0):
    if t.k == 'obj' and util.field(t, 'sim_time') is not None:
      new_time = util.field(t, 'sim_time')
  if new_time is None:
    stores = [t for t in [v0] + [x for x in env0.values() if isinstance(x, Term)] for t in sym.walk(t) if t.k == 'setattr' or (t.k == 'store' and sym.show(t.a[1]) == "'sim_time'")]
    new_time = stores[0].a[2] if stores else None
  if new_time is None:
    # attribute assignment on the parameter is modelled as an updated object; fall back to the assigned expression in the syntax tree
    import ast as _ast
    for n_ in _ast.walk(f.node):
      if isinstance(n_, _ast.Assign) and isinstance(n_.targets[0], _ast.Attribute) and n_.targets[0].attr == 'sim_time':
        new_time = ev0.eval(n_.value, {f.param_names()[0]: stp, f.param_names()[1]: dtp}, sym.Ctx(f, 0)) if hasattr(ev0, 'eval') else None
  ok = new_time is not None
  if ok:
    e = A0.conv(new_time)
    rounds = [x for x in e.atoms(sp.Function) if 'round' in str(x.func)]
    ok = len(rounds) == 1 and alg.equal(rounds[0].args[0], tsym / dsym) and alg.equal(e, dsym * rounds[0])
  chk.check(ok, rule, f'{TI}.maybe_fix_sim_time_roundoff: sim_time ← dt·round(sim_time/dt) — the nearest multiple of dt, the identity on the exact clock', sym.show(new_time)[:120] if new_time is not None else 'not found',
            (f.file, f.lineno), 'dt * round(sim_time / dt)', sym.show(new_time)[:120] if new_time is not None else 'not found')
  for cq, m, want in ((f'{PE}.PrimitiveEquationsWithTime', 'explicit_terms', 1.0), (f'{PE}.MoistPrimitiveEquations', 'explicit_terms', 1.0),
                      (f'{PE}.MoistPrimitiveEquationsWithCloudMoisture', 'explicit_terms', 1.0), (f'{PE}.PrimitiveEquationsWithTime', 'implicit_terms', 0.0),
                      (f'{PE}.MoistPrimitiveEquations', 'implicit_terms', 0.0)):
    c = prog.cls(cq)
    f = c.find_method(m)
    parents = {k.methods[m].qualname for k in c.mro() if m in k.methods and k.methods[m] is not f}
    ev = sym.Evaluator(prog, sym.Options(opaque=EXPL_OPAQUE | parents, max_depth=6, model_nonscalar=False))
    v, _, _ = ev.run(f, self_cls=c)
    st = util.field(v, 'sim_time') if v.k == 'obj' else None
    ok = st is not None and st.k == 'const' and isinstance(st.a[0], (int, float)) and not isinstance(st.a[0], bool) and float(st.a[0]) == want
    chk.check(ok, rule, f'{cq.replace("dinosaur.", "")}.{m}: the clock tendency is the constant {want}', sym.show(st) if st is not None else 'missing', (f.file, f.lineno), str(want),
              sym.show(st) if st is not None else 'missing')
  c = prog.cls(f'{PE}.PrimitiveEquationsWithTime')
  f = c.find_method('implicit_inverse')
  ev = sym.Evaluator(prog, sym.Options(opaque={f'{PE}.PrimitiveEquations.implicit_inverse'}))
  for cq in (f'{PE}.PrimitiveEquationsWithTime', f'{PE}.MoistPrimitiveEquations'):
    cc = prog.cls(cq)
    ff = cc.find_method('implicit_inverse')
    v, _, _ = ev.run(ff, self_cls=cc)
    st = util.field(v, 'sim_time') if v.k == 'obj' else None
    chk.check(st == Term('attr', S('state'), 'sim_time'), rule, f'{cq.replace("dinosaur.", "")}.implicit_inverse: returns the incoming clock object (no arithmetic on it)',
              sym.show(st) if st is not None else 'missing', (ff.file, ff.lineno), 'state.sim_time', sym.show(st) if st is not None else 'missing')
  chk.at_least(rule, 7)


def rule_uniform_tracer(chk, prog):
  """Necessary conditions of `a uniform tracer stays uniform`: the flux-form advection −∇·(u q) + q δ cancels for constant q
  only if the nodal wind and the nodal divergence of the diagnostic state describe the same flow mode for mode, i.e. the wind
  is synthesised from (ζ, δ) without dropping the top wavenumber and δ is the transform of the prognostic divergence."""
  from sa import report
  from rules import c05
  rule = 'C11.T-uniform-tracer-consistency'
  probe = report.Check('C11-probe')
  c05.rule_diagnostic(probe, prog)
  keep = [i for i in probe.instances if any(w in i['key'] for w in ('cos_lat_u', 'nodal `divergence`', 'nodal `tracers`'))]
  if len(keep) < 3:
    raise AnalysisError('C11: the diagnostic-state instances for the wind / divergence / tracers were not produced')
  for i in keep:
    i = dict(i, rule=rule)
    chk.instances.append(i)
    if i['status'] != 'holds':
      chk.violations.append(i)
  probe2 = report.Check('C11-probe')
  c05.rule_terms(probe2, prog)
  keep2 = [i for i in probe2.instances if 'horizontal_scalar_advection' in i['key']]
  if len(keep2) < 3:
    raise AnalysisError('C11: the flux-form instances of horizontal_scalar_advection were not produced')
  for i in keep2:
    i = dict(i, rule=rule)
    chk.instances.append(i)
    if i['status'] != 'holds':
      chk.violations.append(i)
  chk.at_least(rule, 6)


def rule_moist_divergence_form(chk, prog):
  """Necessary condition of `the global mean of divergence never changes` for the moist classes: the reference-temperature
  humidity correction c·(q ∆ln pₛ + ∇q·∇ln pₛ) is the divergence c·∇·(q ∇ln pₛ) only if the q that multiplies the Laplacian is
  the very field whose gradient is taken — the nodal tracer of the diagnostic state and the modal tracer of the state, of the
  same name, with nothing applied to either (a clamp, a scaling or another tracer on one side leaves a non-zero mean)."""
  rule = 'C11.M-moist-correction-is-a-divergence'
  GR = 'spherical_harmonic.Grid.'
  opaque = {GR + n for n in ('to_nodal', 'to_modal', 'laplacian', 'cos_lat_grad', 'clip_wavenumbers')} | {f'{PE}.get_geopotential_diff'}
  def bare_tracers(t, holder):
    """names when t is a bare tracer read holder.tracers[name] or a sum of such reads, else None"""
    t = util.strip(t)
    if t.k == 'sub' and t.a[1].k == 'const' and isinstance(t.a[1].a[0], str) and t.a[0].k == 'attr' and t.a[0].a[1] == 'tracers' and t.a[0].a[0] == holder:
      return {t.a[1].a[0]}
    if t.k == 'bin' and t.a[0] == '+':
      l, r = bare_tracers(t.a[1], holder), bare_tracers(t.a[2], holder)
      return None if l is None or r is None else l | r
    return None
  reads_tracer = lambda t: sym.contains(t, lambda z: z.k == 'attr' and z.a[1] == 'tracers')
  for cname in ('MoistPrimitiveEquations', 'MoistPrimitiveEquationsWithCloudMoisture'):
    cls = prog.cls(f'{PE}.{cname}')
    f = cls.find_method('divergence_tendency_due_to_humidity')
    ev = sym.Evaluator(prog, sym.Options(opaque=opaque))
    v, _, env = ev.run(f, self_cls=cls)
    site, loc = f'{PE}.{cname}.divergence_tendency_due_to_humidity', (f.file, f.lineno)
    st, aux = S(f.param_names()[1]), S(f.param_names()[2])
    lap_nodal = lambda t: t.k == 'call' and util.callee_name(t) == 'to_nodal' and util.call_args(t) and util.callee_name(util.call_args(t)[0]) == 'laplacian'
    prods = [t for t in sym.walk(v) if t.k == 'bin' and t.a[0] == '*' and any(lap_nodal(x) for x in match.plain_factors(t))]
    tops = [t for t in prods if not any(o is not t and sym.contains(o, lambda z: z is t) for o in prods)]
    nodal_keys, ok_nodal = set(), True
    for t in tops:
      for fct in match.plain_factors(t):
        if reads_tracer(fct):
          k = bare_tracers(fct, aux)
          if k is None:
            ok_nodal = False
          else:
            nodal_keys |= k
    grads = list({t for t in sym.walk(v) if t.k == 'call' and util.callee_name(t) == 'cos_lat_grad' and reads_tracer(t)})
    modal_keys, ok_modal = set(), bool(grads)
    for gt in grads:
      k = bare_tracers(util.call_args(gt)[0], st)
      if k is None:
        ok_modal = False
      else:
        modal_keys |= k
    chk.require(len(tops) >= 1, f'{site}: no q·∆ln pₛ product found')
    chk.check(ok_nodal, rule, f'{site}: the factor of ∆ln pₛ is the bare nodal tracer (sum) of the diagnostic state', f'tracers {sorted(nodal_keys)}', loc,
              'aux_state.tracers[name] (nothing applied)', 'a function of the tracer')
    chk.check(ok_modal, rule, f'{site}: the gradient is taken of the bare modal tracer (sum) of the state', f'tracers {sorted(modal_keys)}', loc, 'state.tracers[name] (nothing applied)', 'a function of the tracer')
    chk.check(nodal_keys == modal_keys and bool(nodal_keys), rule, f'{site}: both halves of ∇·(q ∇ln pₛ) use the same tracer(s)', f'{sorted(nodal_keys)} vs {sorted(modal_keys)}', loc)
  chk.at_least(rule, 6)


def run(chk, prog, tier):
  rule_moist_divergence_form(chk, prog)
  from rules import c01 as _c01
  _c01.rule_shared_state(chk, prog, rule='C11.S-shared-arrays-never-updated-in-place')
  rule_uniform_tracer(chk, prog)
  rule_p0(chk, prog)
  rule_p1(chk, prog)
  rule_p2(chk, prog)
  rule_p3(chk, prog)
  rule_p4(chk, prog)
  rule_p5(chk, prog)
  rule_means(chk, prog)
  rule_clock(chk, prog)
  chk.note('outside the quantifier of C11: held_suarez.HeldSuarezForcing.explicit_terms returns an un-clipped temperature tendency, so an equation composed with it does not keep the '
           'top total wavenumber exactly zero')
  chk.assume('tree_math vectors combine pytrees leaf-wise and linearly',
             'tableau weights sum to one (decided under C06.2)')
  return dict(
      explanation=('For every equation class the explicit tendency is abstractly interpreted with the Grid operators opaque and each returned field is required to be the '
                   'direct output of clip_wavenumbers (or a projection of the already-checked parent result); the fully inlined implicit call trees are searched for '
                   'spectral-axis mixing operators and einsum subscripts are inspected; filter scalings are reduced to their leaf dependences (rule shared with C15); each '
                   'integrator step is evaluated over opaque F, G, G⁻¹ and classified in the LIN domain; the clock fields are read off the re-packing wrappers; the '
                   'outermost operator of every additive term of the dry / shallow-water vorticity and divergence tendencies is extracted and the l=0 behaviour of '
                   'those operators is evaluated in the value-at-zero domain. Uniform tracer: only the mutual consistency of nodal wind and nodal divergence and the flux form of the advection are decided. Not decided: moist global means, exact uniform-tracer preservation (quadrature exactness).'),
      trusted_base=['python ast', 'sympy canonicalisation', 'the inductive argument premises ⇒ invariant'],
      analysed=dict(classes=['PrimitiveEquations', 'PrimitiveEquationsWithTime', 'MoistPrimitiveEquations', 'MoistPrimitiveEquationsWithCloudMoisture', 'ShallowWaterEquations'],
                    integrators=INTEGRATORS),
  )
