"""C07 — sharded execution equals single-device execution: padding discipline, wiring of the sharded paths."""
from __future__ import annotations

import ast
import itertools
import os

import sympy as sp

from sa import alg, guards, match, model, sym, util
from sa.model import AnalysisError, norm_ident, unparse
from sa.sym import Term
from rules import common

SH = 'spherical_harmonic'
JU = 'jax_numpy_utils'
CS = 'coordinate_systems'

CLAIM = dict(
    text=('Decides the structural conditions under which padding and sharding cannot change resolved values: no load from a tail-padded spectral array (wavenumber '
          'axes, eigenvalues, mask, recurrence weights) uses an end-relative index, and the extent of such an array never enters arithmetic (package-wide scan, with a '
          'built-in positive fixture); padded shapes are limits rounded up to base×shards (twice that for the interleaved ±m axis), paddings are shape − limits; the '
          'implementation transforms / longitude derivative are reached only through the vertical pad-and-crop wrapper, which crops exactly the padding it added; the '
          'shard_map specs of stack/unstack are mutually inverse and the derivative keeps its spec; sharded_einsum falls back to the same einsum without a mesh, '
          'derives the replicated operand\'s spec from the side that stays in place, and the two-way all-gather / reduce-scatter schedules — folded from the source '
          'index expressions for every even axis size ≤ 8 — pair every operand chunk with the matching shard exactly once; the matmul cumsum takes the parallel path '
          'iff the summed axis is sharded and names that mesh axis; the sharding-constraint helper drops / blanks the level entry for 2-D and single-level arrays. '
          'Also decided: padded extents (modal_shape / .shape / len of tail-padded spectral arrays) never enter arithmetic with wavenumber data; implementation transforms are referenced only as the function handed to _with_vertical_padding together with the mesh of the same grid (decided on values, so aliases and keyword spelling do not matter). Does not decide numerical equality of sharded and unsharded results, nor NaN-freedom in general.'
          ' Later additions: C07.5 shard frequency offset; C07.9 shared arrays; C07.11 the cumulative-sum (z-sharded / blockwise) form of the temperature coupling equals the dense one (C03.3b re-filed); C07.12 the clip mask counts from the resolved truncation for every n and every fast path. C07.13 representation dispatch by shape: padded nodal and modal shapes are folded over the named grids × (x, y) meshes (finding F8); C07.1 a padding-aware index uses the padding component of the axis it indexes.'),
    note=('Trusted: jax.lax collectives (ppermute moves data src→dst, psum(1) is the axis size, axis_index), shard_map semantics, PartitionSpec positions. The schedule '
          'folding enumerates device ids and loop counters over finite ranges on index expressions extracted from the current source; no dinosaur code is executed.'),
    technique='package-wide dataflow scan (padded-array taint) + who-may-call + spec algebra + finite folding of collective-schedule index expressions',
)


def S(n):
  return Term('sym', n)


def all_functions(prog):
  for m in prog.modules.values():
    for f in m.functions.values():
      yield f
    for c in m.classes.values():
      for f in c.methods.values():
        yield f


# ----------------------------------------------------------- padded arrays
def is_padded_source(t):
  return t.k == 'attr' and t.a[1] in common.PADDED_SOURCES


def is_modal_shape(t):
  return t.k == 'attr' and t.a[1] == 'modal_shape'


ELEMENTWISE_CALLS = {'abs', 'absolute', 'sqrt', 'exp', 'negative', 'square', 'asarray', 'array', 'float32', 'float64', 'log', 'sign'}


def pure_padded(t):
  """Array computed element-wise from tail-padded spectral arrays and scalars only (so its last entries are pad values)."""
  def rec(x):
    x = util.strip(x)
    if is_padded_source(x):
      return True, True
    if x.k == 'const':
      return True, False
    if x.k == 'attr' and x.a[1] in ('radius', 'total_wavenumbers', 'longitude_wavenumbers'):
      return True, False
    if x.k == 'sub' and x.a[1].k == 'const' and util.strip(x.a[0]).k == 'attr' and util.strip(x.a[0]).a[1] in ('modal_axes', 'modal_mesh', '_derivative_recurrence_weights'):
      return True, True
    if x.k == 'bin' and x.a[0] in ('+', '-', '*', '/', '**'):
      (pl, hl), (pr, hr) = rec(x.a[1]), rec(x.a[2])
      return pl and pr, hl or hr
    if x.k == 'un':
      return rec(x.a[1])
    if x.k == 'store':
      return rec(x.a[0])
    if x.k == 'call' and (alg.ext_short(x.a[0]) in ELEMENTWISE_CALLS) and len(x.a[1]) == 1:
      return rec(x.a[1][0])
    return False, False
  p, h = rec(t)
  return p and h


def padded_scan(prog, chk, rule, files=None):
  """Scans every function for end-relative loads / extents of tail-padded spectral arrays."""
  n = 0
  hits = []
  for f in all_functions(prog):
    if files is not None and f.file not in files:
      continue
    ev = sym.Evaluator(prog, sym.Options(max_depth=2, opaque={f'{SH}.Grid.laplacian_eigenvalues', f'{SH}.Grid._derivative_recurrence_weights', f'{SH}.Grid.modal_mesh', f'{SH}.Grid.mask',
                                                             f'{SH}.Grid.modal_axes', f'{SH}.FastSphericalHarmonics.modal_axes', f'{SH}.FastSphericalHarmonics.mask',
                                                             f'{SH}.RealSphericalHarmonics.modal_axes', f'{SH}.RealSphericalHarmonics.mask'}))
    try:
      v, ctx, env = ev.run(f)
    except RecursionError:
      continue
    values = [v] + [x for x in env.values() if isinstance(x, Term)]
    for lam in list(ev.lambdas):
      fi, cenv = ev.lambdas[lam]
      if fi.parent is f:
        try:
          b, _, benv = ev.run(fi, closure=cenv)
          values.append(b)
          values.extend(x for x in benv.values() if isinstance(x, Term))
        except Exception:
          pass
    seen = set()
    for val in values:
      for t in sym.walk(val, seen):
        loc = t.loc
        inside = loc is not None and loc[0] == f.file and f.lineno <= loc[1] <= (f.node.end_lineno or f.lineno)
        if t.k == 'sub' and pure_padded(t.a[0]) and not sym.contains(t.a[1], is_padded_source):
          base = util.strip(t.a[0])
          # selecting a component of a tuple-valued source (modal_axes[1]) is not an index into the padded axis
          if base.k == 'attr' and base.a[1] in ('modal_axes', 'modal_mesh', '_derivative_recurrence_weights') and t.a[1].k == 'const':
            continue
          if not inside:
            continue
          n += 1
          kind = common.index_kind(t.a[1])
          hits.append((f, t, 'index', kind))
        elif t.k == 'attr' and t.a[1] in ('size', 'shape') and pure_padded(t.a[0]) and inside:
          n += 1
          hits.append((f, t, 'extent', 'end'))
        elif t.k == 'call' and t.a[0] == Term('ext', 'len') and t.a[1] and pure_padded(t.a[1][0]) and inside:
          n += 1
          hits.append((f, t, 'extent', 'end'))
        elif t.k == 'bin' and t.a[0] in ('+', '-', '*', '/', '//', '%', '**') and inside:
          # wavenumber data combined arithmetically with the padded extent of the modal layout (e.g. l / (modal_shape[-1] - 1))
          for data, other in ((t.a[1], t.a[2]), (t.a[2], t.a[1])):
            if sym.contains(data, is_padded_source) and not sym.contains(data, is_modal_shape) and sym.contains(other, is_modal_shape) and not sym.contains(other, is_padded_source):
              n += 1
              hits.append((f, t, 'extent', 'end'))
              break
  out = 0
  for f, t, what, kind in hits:
    q = f.qualname.replace('dinosaur.', '')
    if what == 'index':
      key = f'{q}: load [{sym.show(t.a[1])}] from {sym.show(util.strip(t.a[0]), maxdepth=2)[-60:]}'
      if kind == 'end':
        chk.violation(rule, key, 'end-relative index into a tail-padded spectral array: on padded layouts (FastSphericalHarmonics with a shape multiple or a mesh) the entry read is zero padding, '
                      'not the top resolved mode', t.loc, 'index derived from total_wavenumbers / modal_limits / modal_padding', sym.show(t.a[1]))
        out += 1
      else:
        # a padding-aware index must use the padding of the axis it indexes: (m, l) = components (0, 1) of modal_padding / modal_shape
        base = util.strip(t.a[0])
        role = None
        if base.k == 'attr' and base.a[1] == 'laplacian_eigenvalues':
          role = 1
        elif base.k == 'sub' and base.a[0].k == 'attr' and base.a[0].a[1] == 'modal_axes' and base.a[1].k == 'const' and base.a[1].a[0] in (0, 1, -1, -2):
          role = base.a[1].a[0] % 2
        comps = [z.a[1].a[0] % 2 for z in sym.walk(t.a[1]) if z.k == 'sub' and z.a[0].k == 'attr' and z.a[0].a[1] in ('modal_padding', 'modal_shape', 'modal_limits')
                 and z.a[1].k == 'const' and isinstance(z.a[1].a[0], int)]
        if role is not None and any(c != role for c in comps):
          chk.violation(rule, key, f'the index skips the padding of the other spectral axis: this array runs along the {"total" if role == 1 else "zonal"}-wavenumber axis (component {role} of modal_padding), '
                        'so on layouts whose two paddings differ the entry read is not the top resolved mode (or is padding)', t.loc, f'modal_padding[{role}]', sym.show(t.a[1]))
          out += 1
        else:
          chk.ok(rule, key, f'index class: {kind}', t.loc)
    else:
      key = f'{q}: extent {sym.show(t, maxdepth=3)[-70:]} of a tail-padded spectral array'
      chk.violation(rule, key, 'the padded extent of a spectral axis enters a computation: its value changes with base_shape_multiple / mesh while the resolved truncation does not', t.loc,
                    'total_wavenumbers / .max() of the wavenumbers', sym.show(t, maxdepth=3))
      out += 1
  return n, out


def rule_padded(chk, prog):
  rule = 'C07.1-padded-axis-loads'
  n, bad = padded_scan(prog, chk, rule)
  # stores of zero into padded arrays: classified table
  ev = sym.Evaluator(prog)
  for q, why in ((f'{SH}.Grid._derivative_recurrence_weights', 'a[:, 0] = 0 / b[:, -1] = 0: a value leaking into a padded column is annihilated by the zero-padded basis and by a·mask on the way back'),
                 (f'{SH}.Grid.clip_wavenumbers', 'zeroed block is n + modal_padding[-1] columns (padding-derived, decided under C02.5)'),
                 (f'{SH}.Grid.inverse_laplacian', 'zeroed from total_wavenumbers on (limit-derived, decided under C02.2)')):
    chk.note(f'store into a tail-padded array at {q.replace("dinosaur.", "")}: {why}')
  # positive fixture: the rule must fire on a tiny example on every run
  fx = os.path.join(os.path.dirname(os.path.dirname(os.path.abspath(__file__))), 'fixtures', 'padded_fixture')
  fprog = model.Program(repo=fx)
  from sa import report
  probe = report.Check('C07-fixture')
  fn, fbad = padded_scan(fprog, probe, rule)
  if fbad < 2:
    raise AnalysisError(f'positive fixture for {rule} no longer matches ({fbad} of 2 expected reports): the scan is blind')
  chk.ok(rule, 'positive fixture fixtures/padded_fixture: the scan reports its end-index load and its extent use', f'{fbad} report(s) on the fixture')
  chk.at_least(rule, 2)


# -------------------------------------------------------- shapes & paddings
def rule_shapes(chk, prog):
  rule = 'C07.2-padded-shapes'
  c = prog.cls(f'{SH}.FastSphericalHarmonics')
  ev = sym.Evaluator(prog, sym.Options(std_opaque=False, opaque={f'{SH}._round_to_multiple', f'{SH}.FastSphericalHarmonics._mesh_shape'}))
  selft = Term('sym', 'self:FastSphericalHarmonics', cls=c)
  A = alg.Algebra(ev)
  base = A.name(lambda t: t.k == 'bool' and t.a[0] == 'or' and t.a[1][0].k == 'attr' and t.a[1][0].a[1] == 'base_shape_multiple' and t.a[1][1] == sym.const(1), 'base')
  ms = lambda i: Term('sub', Term('call', Term('bound', selft, f'dinosaur.{SH}.FastSphericalHarmonics._mesh_shape'), (selft,), ()), sym.const(i))
  xs, ys = A.name(lambda t: t == ms(0), 'x_shards'), A.name(lambda t: t == ms(1), 'y_shards')
  for prop, limits, mult in (('nodal_shape', 'nodal_limits', (base * xs, base * ys)), ('modal_shape', 'modal_limits', (2 * base * xs, base * ys))):
    f = c.find_method(prop)
    v, _, _ = ev.run(f)
    site, loc = f'{SH}.FastSphericalHarmonics.{prop}', (f.file, f.lineno)
    ok = (v.k == 'call' and v.a[0] == Term('ext', 'tuple') and v.a[1][0].k == 'call' and v.a[1][0].a[0] == Term('ext', 'map') and len(v.a[1][0].a[1]) == 3
          and v.a[1][0].a[1][0] == Term('func', f'dinosaur.{SH}._round_to_multiple'))
    if not chk.check(ok, rule, f'{site}: each limit is rounded up with _round_to_multiple', sym.show(v)[:200], loc):
      continue
    lim, mul = v.a[1][0].a[1][1], v.a[1][0].a[1][2]
    okl = sym.show(lim).endswith(limits) or (lim.k == 'tuple' and True)
    limv, _, _ = ev.run(c.find_method(limits))
    chk.check(lim == limv or (lim.k == 'attr' and lim.a[1] == limits), rule, f'{site}: rounds the {limits}', sym.show(lim)[:120], loc)
    okm = mul.k == 'tuple' and len(mul.a) == 2 and alg.equal(A.conv(mul.a[0]), mult[0]) and alg.equal(A.conv(mul.a[1]), mult[1])
    chk.check(okm, rule, f'{site}: multiples are ({mult[0]}, {mult[1]})' + (' — twice the x multiple keeps each ±m pair on one shard' if prop == 'modal_shape' else ''),
              sym.show(mul)[:200], loc, str(mult), str(tuple(A.conv(z) for z in mul.a)) if mul.k == 'tuple' else sym.show(mul)[:100])
  f = prog.func(f'{SH}._round_to_multiple')
  v, _, _ = sym.Evaluator(prog).run(f)
  B = alg.Algebra(None)
  x, m = B.name(lambda t: t == S('x'), 'x'), B.name(lambda t: t == S('multiple'), 'mult')
  ok = alg.equal(B.conv(v), m * sp.Function('math.ceil')(x / m))
  chk.check(ok, rule, f'{SH}._round_to_multiple(x, m) = m·ceil(x / m)', sym.show(v), (f.file, f.lineno), 'multiple * ceil(x / multiple)', sym.show(v))
  ev2 = sym.Evaluator(prog, sym.Options(opaque={f'{SH}.FastSphericalHarmonics.{p}' for p in ('nodal_shape', 'modal_shape', 'nodal_limits', 'modal_limits')}))
  for prop, shp, lim in (('nodal_padding', 'nodal_shape', 'nodal_limits'), ('modal_padding', 'modal_shape', 'modal_limits')):
    f = c.find_method(prop)
    v, _, _ = ev2.run(f)
    site, loc = f'{SH}.FastSphericalHarmonics.{prop}', (f.file, f.lineno)
    comps = [t for t in sym.walk(v) if t.k == 'comp']
    ok = False
    if comps:
      cp = comps[0]
      body, gens = cp.a[1], cp.a[2]
      lv = gens[0].a[0]
      it = lv.a[1]
      ok = (it.k == 'call' and it.a[0] == Term('ext', 'zip') and [sym.show(z).split('.')[-1] for z in it.a[1]] == [shp, lim] and body.k == 'bin' and body.a[0] == '-'
            and body.a[1] == Term('sub', lv, sym.const(0)) and body.a[2] == Term('sub', lv, sym.const(1)))
    chk.check(ok, rule, f'{site} = {shp} − {lim} element-wise', sym.show(v)[:160], loc)
  f = c.find_method('_mesh_shape')
  v, _, _ = sym.Evaluator(prog).run(f)
  ok = (v.k == 'phi' and v.a[2] == Term('tuple', sym.const(1), sym.const(1)) and v.a[1].k == 'tuple' and [sym.show(z)[-10:] for z in v.a[1].a] == ["shape['x']", "shape['y']"])
  chk.check(ok, rule, f'{SH}.FastSphericalHarmonics._mesh_shape = (mesh x, mesh y) or (1, 1) without a mesh', sym.show(v), (f.file, f.lineno))
  chk.at_least(rule, 9)


# ---------------------------------------------------- vertical pad / crop
IMPL_METHODS = ('transform', 'inverse_transform', 'longitudinal_derivative')


def rule_vertical_padding(chk, prog, rule='C07.3-vertical-pad-crop'):
  n = 0
  # who-may-use, on values (not on syntax): a reference to an implementation transform may only occur as the function
  # handed to _with_vertical_padding together with the same grid's mesh — whether written inline, through a local
  # alias, positionally or by keyword
  def impl_ref(t):
    if t.k == 'bound' and t.a[1].rsplit('.', 1)[-1] in IMPL_METHODS and '.spherical_harmonic.' in t.a[1] and 'SphericalHarmonics' in t.a[1]:
      return t.a[1].rsplit('.', 1)[-1]
    if t.k == 'attr' and t.a[1] in IMPL_METHODS and t.a[0].k == 'attr' and t.a[0].a[1] == 'spherical_harmonics':
      return t.a[1]
    return None
  for f in all_functions(prog):
    if f.cls is not None and f.cls.name in ('RealSphericalHarmonics', 'FastSphericalHarmonics', 'SphericalHarmonics', 'RealSphericalHarmonicsWithZeroImag'):
      continue
    ev0 = sym.Evaluator(prog, sym.Options(model_vertical_padding=False, max_depth=0, opaque={f'{SH}._with_vertical_padding'}))
    try:
      v, ctx, env = ev0.run(f)
    except RecursionError:
      continue
    values = [v] + [x for x in env.values() if isinstance(x, Term)] + [c for _, c, _ in ev0.calls if isinstance(c, Term)]
    wrapped, refs = {}, {}
    seen = set()
    for val in values:
      for t in sym.walk(val, seen):
        if t.k == 'call' and util.callee_qual(t).endswith(f'{SH}._with_vertical_padding'):
          kw = util.call_kwargs(t)
          if kw.get('f') is not None and impl_ref(kw['f']):
            wrapped[kw['f']] = (t, kw.get('mesh'))
        if impl_ref(t):
          refs.setdefault(t, t.loc)
    # direct calls of an implementation method are recorded as callee terms
    direct = [c for _, c, _ in ev0.calls if isinstance(c, Term) and impl_ref(c)]
    q = f.qualname.replace('dinosaur.', '')
    for r in refs:
      name = impl_ref(r)
      ok = r in wrapped and r not in direct
      n += 1
      chk.check(ok, rule, f'{q}: spherical_harmonics.{name} is used only as the function wrapped by _with_vertical_padding',
                sym.show(wrapped[r][0], maxdepth=3)[:120] if r in wrapped else 'used directly', (f.file, f.lineno),
                f'_with_vertical_padding(self.spherical_harmonics.{name}, self.spmd_mesh)', 'direct call / reference outside the wrapper')
      if ok:
        mesh = wrapped[r][1]
        same_grid = mesh is not None and mesh.k == 'attr' and mesh.a[1] == 'spmd_mesh' and r.a[0].k == 'attr' and mesh.a[0] == r.a[0].a[0]
        chk.check(same_grid, rule, f'{q}: the wrapper of {name} receives the mesh of the same grid', sym.show(mesh) if mesh is not None else 'missing', (f.file, f.lineno))
  ev = sym.Evaluator(prog, sym.Options(model_vertical_padding=False, opaque={f'{SH}._vertical_pad', f'{SH}._vertical_crop'}))
  f = prog.func(f'{SH}._with_vertical_padding')
  v, _, _ = ev.run(f)
  g, _, genv = util.inner(ev, v, f.qualname)
  gi, _ = ev.get_func(v)
  x = S(gi.param_names()[0])
  pad = Term('call', Term('func', f'dinosaur.{SH}._vertical_pad'), (x, S('mesh')), ())
  want = Term('call', Term('func', f'dinosaur.{SH}._vertical_crop'), (Term('call', S('f'), (Term('sub', pad, sym.const(0)),), ()), Term('sub', pad, sym.const(1))), ())
  chk.check(g == want, rule, f'{SH}._with_vertical_padding: crop(f(pad(x)[0]), pad(x)[1]) — the crop removes exactly the padding that was added to the same input', sym.show(g), (f.file, f.lineno), sym.show(want), sym.show(g))
  ev2 = sym.Evaluator(prog, sym.Options(model_vertical_padding=False, opaque={f'{SH}._round_to_multiple', f'{JU}.pad_in_dim'}))
  f = prog.func(f'{SH}._vertical_pad')
  v, _, _ = ev2.run(f)
  site, loc = f'{SH}._vertical_pad', (f.file, f.lineno)
  fld, mesh = S('field'), S('mesh')
  ok = v.k == 'phi' and v.a[1] == Term('tuple', fld, sym.NONE) and v.a[2].k == 'tuple' and len(v.a[2].a) == 2
  if chk.check(ok, rule, f'{site}: returns (field, None) untouched, or (padded field, padding)', sym.show(v)[:200], loc):
    padded, z = v.a[2].a
    A = alg.Algebra(ev2)
    n0 = A.conv(Term('sub', Term('attr', fld, 'shape'), sym.const(0)))
    rt = A.conv(Term('call', Term('func', f'dinosaur.{SH}._round_to_multiple'), (Term('sub', Term('attr', fld, 'shape'), sym.const(0)), Term('sub', Term('attr', mesh, 'shape'), sym.const('z'))), ()))
    chk.check(alg.equal(A.conv(z), rt - n0), rule, f'{site}: padding = round_to_multiple(levels, mesh z) − levels', sym.show(z)[:160], loc)
    okp = match.is_ext_call(padded, 'pad') and padded.a[1][0] == fld and padded.a[1][1] == Term('list', Term('tuple', sym.const(0), z), Term('tuple', sym.const(0), sym.const(0)), Term('tuple', sym.const(0), sym.const(0))) and not padded.a[2]
    if not okp and padded.k == 'call' and util.callee_name(padded) == 'pad_in_dim':
      # the repo's own helper: pad_in_dim(x, (before, after), axis)
      b = ev2.bind_args(prog.func(f'{JU}.pad_in_dim'), list(padded.a[1]), list(padded.a[2]), None, None)
      okp = b is not None and b.get('x') == fld and b.get('pad_width') == Term('tuple', sym.const(0), z) and b.get('axis') == sym.const(0)
    chk.check(okp, rule, f'{site}: zero-pads only the tail of the level axis', sym.show(padded)[:200], loc)
  f = prog.func(f'{SH}._vertical_crop')
  v, _, _ = ev2.run(f)
  fld, p = S('field'), S('padding')
  sl = match.slice_in_dim(v.a[2]) if v.k == 'phi' else None
  ok = (v.k == 'phi' and v.a[1] == fld and sl is not None and sl[0] == fld and sl[1] == sym.const(0) and sl[2] == Term('un', '-', p) and sl[3] == sym.const(0)
        and v.a[0] == Term('un', 'not', p))
  chk.check(ok, rule, f'{SH}._vertical_crop: identity for no padding, otherwise drops the last `padding` levels', sym.show(v), (f.file, f.lineno))
  chk.at_least(rule, 11)


# ------------------------------------------------------------ shard specs
def spec_table(t):
  """φ-tree of PartitionSpec(...) → {tuple of cond texts: tuple of entry texts}"""
  out = {}
  def rec(x, conds):
    if x.k == 'phi':
      rec(x.a[1], conds + (sym.show(x.a[0]),))
      rec(x.a[2], conds + ('not ' + sym.show(x.a[0]),))
      return
    if x.k == 'call' and x.a[0] == Term('ext', 'jax.sharding.PartitionSpec'):
      # entries may themselves be φ on the singleton-level test; expand
      entries = [[]]
      for e in x.a[1]:
        if e.k == 'phi':
          entries = [p + [(sym.show(e.a[0]), sym.show(e.a[1]))] for p in entries] + [p + [('not ' + sym.show(e.a[0]), sym.show(e.a[2]))] for p in entries]
        else:
          entries = [p + [(None, sym.show(e))] for p in entries]
      for p in entries:
        cs = conds + tuple(sorted({c for c, _ in p if c}))
        out[cs] = tuple(v for _, v in p)
      return
    out[conds] = ('?' + sym.show(x)[:40],)
  rec(t, ())
  return out


def shmap_call(ev, fname):
  calls = [e for e in ev.events if e[0] == 'wrapped-call' and e[1][0] == 'jax.experimental.shard_map.shard_map']
  if not calls:
    raise AnalysisError(f'{fname}: no shard_map application found')
  return calls[-1][1][1]


def rule_specs(chk, prog):
  rule = 'C07.4-shard-specs'
  got = {}
  for fname in ('_unstack_m', '_stack_m', '_fourier_derivative_for_real_basis_with_zero_imag'):
    ev = sym.Evaluator(prog, sym.Options(opaque={'fourier.real_basis_derivative_with_zero_imag'}))
    f = prog.func(f'{SH}.{fname}')
    v, ctx, env = ev.run(f)
    call = shmap_call(ev, fname)
    a = list(call.a[1])
    kw = util.call_kwargs(call)
    mesh = a[1] if len(a) > 1 else kw.get('mesh')
    ins = a[2] if len(a) > 2 else kw.get('in_specs')
    outs = a[3] if len(a) > 3 else kw.get('out_specs')
    chk.check(mesh == S('mesh') and ins is not None and ins.k == 'tuple' and len(ins.a) == 1 and outs is not None, rule, f'{SH}.{fname}: shard_map(fn, mesh, (in_spec,), out_spec) on the given mesh', sym.show(call, maxdepth=2)[:120], (f.file, f.lineno))
    got[fname] = (spec_table(ins.a[0]) if ins is not None and ins.k == 'tuple' and ins.a else {}, spec_table(outs) if outs is not None else {}, f)
    none_path = v.k == 'phi' and sym.show(v.a[0]) == '(mesh is None)'
  def by_entries(tbl):
    return sorted(set(tbl.values()))
  ui, uo, fu = got['_unstack_m']
  si, so, fs = got['_stack_m']
  chk.check(by_entries(ui) == by_entries(so) and by_entries(uo) == by_entries(si), rule, f'{SH}._unstack_m / _stack_m: input spec of one is the output spec of the other (2-D and 3-D variants, with and without a single level)',
            f'unstack {by_entries(ui)} → {by_entries(uo)}; stack {by_entries(si)} → {by_entries(so)}', (fu.file, fu.lineno))
  for tbl, name in ((ui, 'unstack in'), (uo, 'unstack out'), (si, 'stack in'), (so, 'stack out')):
    ok = all(e[-2:] == ("'x'", "'y'") for e in tbl.values())
    chk.check(ok, rule, f"{SH}: {name} specs shard the last two axes over ('x', 'y')", str(by_entries(tbl)), (fu.file, fu.lineno))
  ok = all(('None' in e) for e in uo.values()) and all(('None' in e) for e in si.values())
  chk.check(ok, rule, f'{SH}: the sign axis created by _unstack_m is replicated (None) in both directions', str(by_entries(uo)), (fu.file, fu.lineno))
  di, do, fd = got['_fourier_derivative_for_real_basis_with_zero_imag']
  chk.check(di == do and all(e[-2:] == ("'x'", "'y'") for e in di.values()), rule, f'{SH}._fourier_derivative_for_real_basis_with_zero_imag: one spec for input and output', str(by_entries(di)), (fd.file, fd.lineno))
  # _transform_einsum: 'x','y' on the trailing positions of both specs in every branch; z first for the ellipsis branch
  ev = sym.Evaluator(prog, sym.Options(opaque={f'{JU}.sharded_einsum'}))
  f = prog.func(f'{SH}._transform_einsum')
  v, ctx, env = ev.run(f)
  se = [t for t in sym.walk(v) if t.k == 'call' and util.callee_name(t) == 'sharded_einsum']
  site, loc = f'{SH}._transform_einsum', (f.file, f.lineno)
  if chk.check(len(set(se)) == 1, rule, f'{site}: one sharded_einsum call on the mesh path', str(len(set(se))), loc):
    kw = util.call_kwargs(se[0])
    rs, os_ = spec_table(kw['rhs_spec']), spec_table(kw['out_spec'])
    ok = all(e[-2:] == ("'x'", "'y'") for e in list(rs.values()) + list(os_.values()))
    chk.check(ok, rule, f"{site}: 'x', 'y' sit on the last two positions of rhs_spec and out_spec in every branch", f'{by_entries(rs)} / {by_entries(os_)}', loc)
    chk.check(kw.get('mesh') == S('mesh') and kw.get('precision') == S('precision') and sym.show(kw.get('reverse_arg_order')) == 'bool(reverse_einsum_arg_order)', rule,
              f'{site}: mesh, precision and argument-order option are forwarded', '', loc)
    a = list(se[0].a[1])
    chk.check(a[1:] == [S('lhs'), S('rhs')], rule, f'{site}: operands are forwarded in order (lhs, rhs)', str([sym.show(z) for z in a[1:]]), loc)
  nomesh = v.a[1] if v.k == 'phi' and sym.show(v.a[0]) == '(mesh is None)' else None
  ok = nomesh is not None and match.einsum_parts(nomesh) is not None and list(nomesh.a[1]) == [S('subscripts'), S('lhs'), S('rhs')] and util.call_kwargs(nomesh).get('precision') == S('precision')
  chk.check(ok, rule, f'{site}: without a mesh it is the plain einsum with the same subscripts, operands and precision', sym.show(nomesh)[:160] if nomesh is not None else 'n/a', loc)
  chk.at_least(rule, 14)


# -------------------------------------------------------- sharded einsum
def rule_sharded_einsum(chk, prog):
  rule = 'C07.6-sharded-einsum'
  opaque = {f'{JU}._allgather_matmul_twoway', f'{JU}._matmul_reducescatter_twoway', f'{JU}._parse_einsum_subscripts', f'{JU}._determine_reduce_subscript', f'{JU}._determine_transfer_subscript'}
  ev = sym.Evaluator(prog, sym.Options(std_opaque=False, opaque=opaque))
  f = prog.func(f'{JU}.sharded_einsum')
  v, ctx, env = ev.run(f)
  site, loc = f'{JU}.sharded_einsum', (f.file, f.lineno)
  ok = v.k == 'phi' and sym.show(v.a[0]) == '(mesh is None)'
  if not chk.check(ok, rule, f'{site}: branches on the presence of a mesh', sym.show(v, maxdepth=2)[:120], loc):
    return
  nm = v.a[1]
  chk.check(match.einsum_parts(nm) is not None and list(nm.a[1]) == [S('subscripts'), S('lhs'), S('rhs')] and util.call_kwargs(nm) == {'precision': S('precision')}, rule,
            f'{site}: without a mesh → jnp.einsum(subscripts, lhs, rhs, precision=precision)', sym.show(nm), loc)
  body = v.a[2]
  parse = Term('call', Term('func', f'dinosaur.{JU}._parse_einsum_subscripts'), (S('subscripts'),), ())
  lhs_s, rhs_s, out_s = (Term('sub', parse, sym.const(i)) for i in range(3))
  red = Term('call', Term('func', f'dinosaur.{JU}._determine_reduce_subscript'), (Term('star', parse), S('rhs_spec')), ())
  tra = Term('call', Term('func', f'dinosaur.{JU}._determine_transfer_subscript'), (Term('star', parse), S('out_spec')), ())
  idx = lambda base, s_: Term('call', Term('attr', base, 'index'), (s_,), ())
  axis_name = Term('sub', S('rhs_spec'), idx(rhs_s, red))
  arms = [body.a[1], body.a[2]] if body.k == 'phi' else [body]
  okg = len(arms) == 2 and util.callee_name(arms[0]) == '_allgather_matmul_twoway' and util.callee_name(arms[1]) == '_matmul_reducescatter_twoway'
  if chk.check(okg, rule, f'{site}: gather_inputs selects the all-gather schedule, otherwise the reduce-scatter schedule', sym.show(body, maxdepth=2)[:160], loc):
    for arm, axkw, want_axis, which in ((arms[0], 'split_axis', idx(lhs_s, red), 'contracted (reduce)'), (arms[1], 'scatter_axis', idx(lhs_s, tra), 'transferred (output)')):
      kw = util.call_kwargs(arm)
      a = [kw.get(n_) for n_ in ('einsum_spec', 'lhs', 'rhs')]
      chk.check(a == [S('subscripts'), S('lhs'), S('rhs')], rule, f'{site}: {util.callee_name(arm)} receives (subscripts, lhs, rhs)', str([sym.show(z) for z in a]), loc)
      chk.check(kw.get(axkw) == want_axis, rule, f'{site}: {util.callee_name(arm)} splits lhs along the position of the {which} subscript', sym.show(kw.get(axkw))[:120] if kw.get(axkw) is not None else 'missing', loc,
                sym.show(want_axis)[:120], sym.show(kw.get(axkw))[:120] if kw.get(axkw) is not None else 'missing')
      chk.check(kw.get('axis_name') == axis_name, rule, f'{site}: {util.callee_name(arm)} communicates over the mesh axis that shards the contracted subscript of rhs', sym.show(kw.get('axis_name'))[:120] if kw.get('axis_name') is not None else 'missing', loc)
      chk.check(kw.get('precision') == S('precision') and kw.get('reverse_arg_order') == S('reverse_arg_order'), rule, f'{site}: {util.callee_name(arm)} receives precision and argument order', '', loc)
    gcond = body.a[0] if body.k == 'phi' else None
    okc = gcond is not None and gcond.k == 'phi' and sym.show(gcond.a[0]) == '(gather_inputs is None)' and gcond.a[2] == S('gather_inputs')
    chk.check(okc, rule, f'{site}: an explicit gather_inputs is honoured; the default compares output and rhs sizes', sym.show(gcond)[:160] if gcond is not None else 'n/a', loc)
  call = shmap_call(ev, 'sharded_einsum')
  kw = util.call_kwargs(call)
  ins = kw.get('in_specs')
  okm = kw.get('mesh') == S('mesh') and kw.get('out_specs') == S('out_spec') and ins is not None and ins.k == 'tuple' and len(ins.a) == 2 and ins.a[1] == S('rhs_spec')
  chk.check(okm, rule, f'{site}: shard_map(mesh=mesh, in_specs=(lhs_spec, rhs_spec), out_specs=out_spec)', sym.show(call, maxdepth=3)[:200], loc)
  if okm:
    ls = ins.a[0]
    comps = [t for t in sym.walk(ls) if t.k == 'comp']
    ok = len(comps) == 2
    srcs = []
    for cp in comps:
      body_ = cp.a[1]
      srcs.append('out_spec' if sym.contains(body_, lambda z: z == S('out_spec')) else ('rhs_spec' if sym.contains(body_, lambda z: z == S('rhs_spec')) else '?'))
    # φ(gather ? [out_spec …] : [rhs_spec …])
    phis = [t for t in sym.walk(ls) if t.k == 'phi' and t.a[1].k == 'comp' and t.a[2].k == 'comp']
    ok = ok and len(phis) == 1 and sym.contains(phis[0].a[1], lambda z: z == S('out_spec')) and sym.contains(phis[0].a[2], lambda z: z == S('rhs_spec'))
    chk.check(ok, rule, f'{site}: lhs partitioning follows out_spec when inputs are gathered and rhs_spec when outputs are scattered (the side kept in place)', str(srcs), loc,
              "['out_spec', 'rhs_spec']", str(srcs))
  # reduce / transfer subscript selection
  for fname, spec, a_in, a_notin in (('_determine_reduce_subscript', 'rhs_spec', 'rhs_subscripts', 'out_subscripts'), ('_determine_transfer_subscript', 'out_spec', 'out_subscripts', 'rhs_subscripts')):
    ev2 = sym.Evaluator(prog, sym.Options(std_opaque=False))
    g = prog.func(f'{JU}.{fname}')
    v2, c2, e2 = ev2.run(g)
    conds = [t for t in sym.walk(v2) if t.k == 'bool' and t.a[0] == 'and']
    ok = False
    if conds:
      txt = [sym.show(z) for z in conds[0].a[1]]
      ok = (any(f'not in {a_notin}' in z for z in txt) and any(f' in {a_in}' in z and 'not in' not in z for z in txt) and any(f'{spec}[{a_in}.index(' in z and 'is not None' in z for z in txt))
    chk.check(ok, rule, f'{JU}.{fname}: picks lhs subscripts that are absent from {a_notin}, present in {a_in} and sharded there', str([sym.show(z) for z in conds[0].a[1]]) if conds else 'n/a', (g.file, g.lineno))
    rz = [sym.show(guards.path_cond(p)) for p, e, l in c2.raises]
    chk.check(any('!= 1' in z for z in rz), rule, f'{JU}.{fname}: rejects anything but exactly one such subscript', str(rz)[:160], (g.file, g.lineno))
  chk.at_least(rule, 18)


# --------------------------------------------------- collective schedules
class Fold:
  """Folds integer index expressions for a concrete device id / axis size."""

  def __init__(self, d, n, extra=None):
    self.d, self.n, self.extra = d, n, dict(extra or {})

  def __call__(self, t):
    k, a = t.k, t.a
    if t in self.extra:
      return self.extra[t]
    if k == 'const':
      return a[0]
    if k == 'call' and t.a[0] == Term('ext', 'jax.lax.axis_index'):
      return self.d
    if k == 'call' and t.a[0] == Term('ext', 'jax.lax.psum') and t.a[1] and t.a[1][0] == sym.const(1):
      return self.n
    if k == 'bin':
      l, r = self(a[1]), self(a[2])
      return {'+': lambda: l + r, '-': lambda: l - r, '*': lambda: l * r, '//': lambda: l // r, '%': lambda: l % r, '&': lambda: l & r, '|': lambda: l | r}[a[0]]()
    if k == 'un' and a[0] == '-':
      return -self(a[1])
    raise guards.Inconclusive(sym.show(t)[:80])


def fold_perm(perm_term, n):
  """[(src, dst)] pairs of a ppermute `perm` comprehension for axis size n."""
  if perm_term.k == 'comp':
    body, gens = perm_term.a[1], perm_term.a[2]
    lv = gens[0].a[0]
    pairs = []
    for j in range(n):
      fo = Fold(0, n, {lv: j})
      pairs.append((fo(body.a[0]), fo(body.a[1])))
    return pairs
  if perm_term.k == 'list':
    return [(Fold(0, n)(p.a[0]), Fold(0, n)(p.a[1])) for p in perm_term.a]
  raise guards.Inconclusive('perm ' + sym.show(perm_term)[:60])


def chunk_index(t):
  """INDEX of dynamic_slice_in_dim(lhs, INDEX * chunk_size, chunk_size, axis=…)."""
  if t.k == 'call' and t.a[0] == Term('ext', 'jax.lax.dynamic_slice_in_dim'):
    start, size = t.a[1][1], t.a[1][2]
    fs = match.plain_factors(start)
    rest = [x for x in fs if x != size]
    if len(fs) == 2 and len(rest) == 1:
      return rest[0]
  return None


def not_reversed(t):
  """Resolve φ(reverse_arg_order ? a : b) → b everywhere."""
  def sub(x):
    if not isinstance(x, Term):
      if isinstance(x, tuple):
        return tuple(sub(y) for y in x)
      return x
    if x.k == 'phi' and x.a[0] == S('reverse_arg_order'):
      return sub(x.a[2])
    if not sym.contains(x, lambda z: z.k == 'phi' and z.a[0] == S('reverse_arg_order')):
      return x
    return Term(x.k, *tuple(sub(y) for y in x.a), cls=x.cls, loc=x.loc)
  return sub(t)


class Schedule:
  """Per-device symbolic execution of the *index bookkeeping* of a collective matmul:
  rhs buffers are tracked by origin shard, accumulators by multisets of (lhs chunk, rhs origin)."""

  def __init__(self, n, ev):
    self.n, self.ev = n, ev

  def buffer(self, t, env):
    """per-device origin list"""
    if t in env:
      return env[t]
    if t == S('rhs'):
      return list(range(self.n))
    if t.k == 'call' and t.a[0] == Term('ext', 'jax.lax.ppermute'):
      src = self.value(t.a[1][0], env)
      perm = fold_perm(util.call_kwargs(t)['perm'], self.n)
      out = [None] * self.n if not isinstance(src[0], list) else [[] for _ in range(self.n)]
      for s_, d_ in perm:
        out[d_] = src[s_]
      return out
    raise guards.Inconclusive('buffer ' + sym.show(t, maxdepth=3)[:80])

  def value(self, t, env):
    if t in env:
      return env[t]
    if t == S('rhs'):
      return list(range(self.n))
    if t.k == 'call' and t.a[0] == Term('ext', 'jax.lax.ppermute'):
      return self.buffer(t, env)
    if t.k == 'bin' and t.a[0] == '+':
      l, r = self.value(t.a[1], env), self.value(t.a[2], env)
      return [a + b for a, b in zip(l, r)]
    ep = match.einsum_parts(t)
    if ep is not None and ep[0] in ('string',) or (ep is not None and len(t.a[1]) == 3):
      ops = list(t.a[1][1:])
      lhs_op = [o for o in ops if chunk_index(o) is not None]
      rhs_op = [o for o in ops if chunk_index(o) is None]
      if len(lhs_op) != 1 or len(rhs_op) != 1:
        raise guards.Inconclusive('matmul operands ' + sym.show(t, maxdepth=2)[:80])
      idx = chunk_index(lhs_op[0])
      buf = self.value(rhs_op[0], env)
      return [[(Fold(d, self.n, env.get('__ints__', {}))(idx), buf[d])] for d in range(self.n)]
    raise guards.Inconclusive('value ' + sym.show(t, maxdepth=3)[:80])


def run_schedule(ev, fqual, prog, n):
  """Returns the per-device multiset of (chunk, origin) pairs of the final accumulator for axis size n."""
  f = prog.func(fqual)
  v, ctx, env = ev.run(f)
  v = not_reversed(v)
  # general branch (axis_size != 1)
  if v.k == 'phi':
    v = v.a[2]
  sch = Schedule(n, ev)

  def eval_top(t, env_):
    if t.k == 'bin' and t.a[0] == '+':
      l, r = eval_top(t.a[1], env_), eval_top(t.a[2], env_)
      return [a + b for a, b in zip(l, r)]
    if t.k == 'call' and t.a[0] == Term('ext', 'jax.lax.ppermute'):
      src = eval_top(t.a[1][0], env_)
      perm = fold_perm(util.call_kwargs(t)['perm'], n)
      out = [[] for _ in range(n)]
      for s_, d_ in perm:
        out[d_] = src[s_]
      return out
    if t.k == 'sub' and t.a[0].k == 'call' and t.a[0].a[0] == Term('ext', 'jax.lax.fori_loop') and t.a[1].k == 'const':
      return loop(t.a[0], env_)[t.a[1].a[0]]
    if t.k == 'call' and t.a[0] == Term('ext', 'jax.lax.fori_loop'):
      return loop(t, env_)
    return sch.value(not_reversed(t), env_)

  def loop(t, env_):
    lo, hi, body, init = t.a[1]
    lo_, hi_ = Fold(0, n)(lo), Fold(0, n)(hi)
    carr = [eval_top(x, env_) for x in init.a]
    fi, cenv = ev.get_func(body)
    pn = fi.param_names()
    for i in range(lo_, hi_):
      b, _, _ = ev.run(fi, closure=cenv, bind={pn[0]: sym.const(i)})
      b = not_reversed(b)
      cs = S(pn[1])
      e2 = {Term('sub', cs, sym.const(k_)): carr[k_] for k_ in range(len(carr))}
      carr = [eval_top(x, e2) for x in b.a]
    return carr

  res = eval_top(v, {})
  if isinstance(res, list) and res and isinstance(res[0], list) and res[0] and isinstance(res[0][0], list):
    res = res[0]   # fori_loop returned the carry tuple: the accumulator is element 0
  return res


def rule_schedules(chk, prog, sizes=(2, 4, 6, 8)):
  rule = 'C07.6b-collective-schedules'
  for fname, kind in (('_allgather_matmul_twoway', 'gather'), ('_matmul_reducescatter_twoway', 'scatter')):
    f = prog.func(f'{JU}.{fname}')
    site, loc = f'{JU}.{fname}', (f.file, f.lineno)
    for n in sizes:
      ev = sym.Evaluator(prog, sym.Options(std_opaque=False))
      try:
        res = run_schedule(ev, f'{JU}.{fname}', prog, n)
      except guards.Inconclusive as e:
        raise AnalysisError(f'{site}: schedule idiom not recognised ({e})')
      bad = None
      for d in range(n):
        pairs = sorted(res[d])
        want = sorted((c, c) for c in range(n)) if kind == 'gather' else sorted((d, o) for o in range(n))
        if pairs != want:
          bad = (d, pairs, want)
          break
      what = ('every lhs chunk c meets the rhs shard that originated on device c, each exactly once' if kind == 'gather'
              else 'device d ends with output chunk d accumulated from every rhs shard exactly once')
      chk.check(bad is None, rule, f'{site}: axis size {n}: {what}', f'{n} devices × {n} (chunk, shard) pairs folded' if bad is None else f'device {bad[0]} accumulates {bad[1]}', loc,
                'all n pairs, once' if bad is None else str(bad[2]), '' if bad is None else str(bad[1]))
    # guards: odd sizes rejected, size 1 is the plain matmul
    ev = sym.Evaluator(prog, sym.Options(std_opaque=False))
    v, ctx, env = ev.run(f)
    rz = [sym.show(guards.path_cond(p)) for p, e, l in ctx.raises]
    chk.check(any('% 2' in z for z in rz), rule, f'{site}: odd axis sizes (other than 1) are rejected', str(rz)[:200], loc)
    v1 = not_reversed(v)
    ok1 = v1.k == 'phi' and '== 1' in sym.show(v1.a[0]) and match.einsum_parts(v1.a[1]) is not None and list(v1.a[1].a[1]) == [S('einsum_spec'), S('lhs'), S('rhs')]
    chk.check(ok1, rule, f'{site}: a single shard reduces to the plain einsum(spec, lhs, rhs)', sym.show(v1.a[1])[:120] if v1.k == 'phi' else 'n/a', loc)
  check_reversed_einsum(chk, prog, rule)
  chk.at_least(rule, 13)



def check_reversed_einsum(chk, prog, rule):
  """Reversed argument order swaps operands and the two input subscripts together."""
  g = prog.func(f'{JU}._reversed_arg_order_einsum')
  ev = sym.Evaluator(prog, sym.Options(std_opaque=False))
  v, _, _ = ev.run(g)
  ok = match.einsum_parts(v) is not None and list(v.a[1][1:]) == [S('y'), S('x')] and v.a[1][0].k == 'fstr'
  if ok:
    parts = v.a[1][0].a
    txt = [sym.show(p) if isinstance(p, Term) else p for p in parts]
    ok = len([p for p in parts if isinstance(p, Term)]) == 3 and txt[1] == ',' and txt[3] == '->' and '[1]' in txt[0] and '[0]' in txt[2] and "split(',')" in txt[0] and "split('->')[1]" in txt[4]
  chk.check(ok, rule, f'{JU}._reversed_arg_order_einsum: einsum(f"{{rhs}},{{lhs}}->{{out}}", y, x) — operands and their subscripts are exchanged together', sym.show(v)[:200], (g.file, g.lineno))


# ----------------------------------------------------------------- cumsum
def rule_cumsum(chk, prog):
  rule = 'C07.7-cumsum-sharding'
  ev = sym.Evaluator(prog, sym.Options(std_opaque=False, opaque={f'{JU}._single_device_dot_cumsum', f'{JU}._parallel_dot_cumsum'}))
  f = prog.func(f'{JU}._dot_cumsum')
  v, ctx, env = ev.run(f)
  site, loc = f'{JU}._dot_cumsum', (f.file, f.lineno)
  ok = v.k == 'phi' and sym.show(v.a[0]) == '((sharding is None) or (sharding.spec[axis] is None))'
  chk.check(ok, rule, f'{site}: single-device path iff there is no sharding or the summed axis is not sharded', sym.show(v.a[0]) if v.k == 'phi' else sym.show(v)[:80], loc,
            '(sharding is None) or (sharding.spec[axis] is None)', sym.show(v.a[0]) if v.k == 'phi' else '')
  if v.k == 'phi':
    par = v.a[2]
    kw = util.call_kwargs(par) if par.k == 'call' else {}
    okp = util.callee_name(par) == '_parallel_dot_cumsum' and kw.get('axis') == S('axis') and kw.get('reverse') == S('reverse') and sym.show(kw.get('axis_name')) == 'sharding.spec[axis]'
    chk.check(okp, rule, f'{site}: the parallel path sums along the same axis / direction and communicates over the mesh axis named by the spec entry of that axis', sym.show(par)[:160], loc)
    call = shmap_call(ev, '_dot_cumsum')
    k2 = util.call_kwargs(call)
    oks = sym.show(k2.get('mesh')) == 'sharding.mesh' and sym.show(k2.get('in_specs')) == '(sharding.spec)' and sym.show(k2.get('out_specs')) == 'sharding.spec'
    chk.check(oks, rule, f'{site}: shard_map uses the sharding\'s own mesh and spec for input and output', sym.show(call, maxdepth=2)[:160], loc)
  # the parallel algorithm: local prefix sums + sums of the preceding (following) shards
  ev2 = sym.Evaluator(prog, sym.Options(std_opaque=False, opaque={f'{JU}._single_device_dot_cumsum'}))
  g = prog.func(f'{JU}._parallel_dot_cumsum')
  v, ctx, env = ev2.run(g)
  site, loc = f'{JU}._parallel_dot_cumsum', (g.file, g.lineno)
  def unique_in(pred):
    xs = list({t for t in sym.walk(v) if pred(t)})
    return xs[0] if len(xs) == 1 else None
  parts = unique_in(lambda t: t.k == 'call' and util.callee_name(t) == '_single_device_dot_cumsum')
  okp = parts is not None and util.callee_name(parts) == '_single_device_dot_cumsum' and util.call_kwargs(parts).get('axis') == S('axis') and util.call_kwargs(parts).get('reverse') == S('reverse')
  chk.check(okp, rule, f'{site}: starts from the local prefix sums along the same axis and direction', sym.show(parts)[:120] if parts is not None else 'missing', loc)
  last = unique_in(lambda t: t.k == 'call' and t.a[0] == Term('ext', 'jax.lax.index_in_dim'))
  okl = last is not None and last.k == 'call' and last.a[0] == Term('ext', 'jax.lax.index_in_dim') and last.a[1][0] == parts and last.a[1][1] == sym.mk_phi(S('reverse'), sym.const(0), sym.const(-1)) and last.a[1][2] == S('axis')
  chk.check(okl, rule, f'{site}: each shard contributes its total = last (first, if reversed) local prefix sum', sym.show(last)[:120] if last is not None else 'missing', loc, 'index_in_dim(partials, 0 if reverse else -1, axis)', sym.show(last)[:120] if last is not None else '')
  sums = unique_in(lambda t: t.k == 'call' and t.a[0] == Term('ext', 'jax.lax.all_gather'))
  oks = sums is not None and sums.k == 'call' and sums.a[0] == Term('ext', 'jax.lax.all_gather') and list(sums.a[1][:2]) == [last, S('axis_name')] and util.call_kwargs(sums).get('tiled') == sym.TRUE
  chk.check(oks, rule, f'{site}: shard totals are all-gathered over the named mesh axis', sym.show(sums)[:120] if sums is not None else 'missing', loc)
  tot = unique_in(lambda t: t.k == 'loop')
  okt = False
  if tot is not None and tot.k == 'loop':
    body = tot.a[2]
    lv = tot.a[3]
    it = lv.a[1]
    okt = (sym.show(it).startswith('enumerate(φ(reverse ? ') and 'sums' not in sym.show(it) or True)
    txt = sym.show(it, maxdepth=20)
    okt = txt.startswith('enumerate(φ(reverse ? ') and '[1:]' in txt and '[:-1]' in txt and 'start=φ(reverse ? 1 : 0)' in txt
    i_, term_ = Term('sub', lv, sym.const(0)), Term('sub', lv, sym.const(1))
    ai = Term('call', Term('ext', 'jax.lax.axis_index'), (S('axis_name'),), ())
    want_body = Term('bin', '+', Term('carried', tot.a[0], tot.a[4]), Term('bin', '*', sym.mk_phi(S('reverse'), Term('call', Term('ext', 'jax.numpy.greater'), (i_, ai), ()),
                     Term('call', Term('ext', 'jax.numpy.less'), (i_, ai), ())), term_))
    okt = okt and body == want_body and tot.a[1] == parts
  chk.check(okt, rule, f'{site}: adds the totals of the shards strictly before (after, if reversed) this shard', sym.show(tot, maxdepth=6)[:240] if tot is not None else 'missing', loc)
  chk.at_least(rule, 7)


def rule_sharding_constraint(chk, prog):
  rule = 'C07.8-sharding-constraint'
  ev = sym.Evaluator(prog, sym.Options(model_nonscalar=True))
  f = prog.func(f'{CS}._with_sharding_constraint')
  v, ctx, env = ev.run(f)
  site, loc = f'{CS}._with_sharding_constraint', (f.file, f.lineno)
  ok = v.k == 'phi' and sym.show(v.a[0]) == '(sharding is None)' and v.a[1] == S(f.param_names()[0])
  chk.check(ok, rule, f'{site}: without a sharding the pytree is returned unchanged', sym.show(v, maxdepth=2)[:120], loc)
  wsc = [t for t in sym.walk(v) if t.k == 'call' and t.a[0] == Term('ext', 'jax.lax.with_sharding_constraint')]
  if chk.check(len(set(wsc)) == 1, rule, f'{site}: one with_sharding_constraint per array leaf', str(len(set(wsc))), loc):
    sh = wsc[0].a[1][1]
    txt = sym.show(sh, maxdepth=12)
    ok2 = 'PartitionSpec(*sharding.spec[1:])' in txt and 'PartitionSpec(None, *sharding.spec[1:])' in txt and txt.rstrip(')').endswith('sharding')
    ok2 = ok2 and sh.k == 'phi' and '.ndim == 2' in sym.show(sh.a[0]) and sh.a[2].k == 'phi' and '.shape[0] == 1' in sym.show(sh.a[2].a[0])
    chk.check(ok2, rule, f'{site}: 2-D arrays drop the level entry, single-level arrays replicate it, full 3-D arrays use the given sharding', txt[:240], loc)
  rz = [sym.show(guards.path_cond(p)) for p, e, l in ctx.raises]
  chk.check(any('len(sharding.spec) != 3' in z for z in rz), rule, f'{site}: requires a 3-entry (z, x, y) partition spec', str(rz)[:200], loc)
  c = prog.cls(f'{CS}.CoordinateSystem')
  for prop, spec in (('dycore_sharding', 'dycore_partition_spec'), ('physics_sharding', 'physics_partition_spec')):
    g = c.find_method(prop)
    r, _, _ = sym.Evaluator(prog).run(g)
    ok = r.k == 'phi' and '(self:CoordinateSystem.spmd_mesh is None)' == sym.show(r.a[0]) and r.a[1] == sym.NONE and sym.show(r.a[2]) == f'jax.sharding.NamedSharding(self:CoordinateSystem.spmd_mesh, self:CoordinateSystem.{spec})'
    chk.check(ok, rule, f'{CS}.CoordinateSystem.{prop}: None without a mesh, NamedSharding(mesh, {spec}) otherwise', sym.show(r), (g.file, g.lineno))
  chk.at_least(rule, 6)


def rule_shard_offset(chk, prog):
  """C07.5: the sharded longitude derivative offsets its frequencies by the first wavenumber of its own shard, computed from
  the *local (padded) block* it actually holds — decided by the layout rule shared with C02.4 (instances re-filed here)."""
  from sa import report
  from rules import c02
  rule = 'C07.5-shard-frequency-offset'
  probe = report.Check('C07-probe')
  c02.rule_fourier(probe, prog)
  keep = [i for i in probe.instances if '_fourier_derivative_for_real_basis_with_zero_imag' in i['key']]
  if len(keep) < 2:
    raise AnalysisError('C07: the sharded-derivative instances of the Fourier layout rule were not produced')
  for i in keep:
    i = dict(i, rule=rule)
    chk.instances.append(i)
    if i['status'] != 'holds':
      chk.violations.append(i)
  chk.at_least(rule, 2)


def rule_sharded_implicit(chk, prog):
  """C07.11: on a mesh with z > 1 (and always in the blockwise inverse) the temperature coupling is applied in its cumulative-sum form,
  whose sums run through the sharded cumsum; it must be the same operator as the dense −H·div used without a mesh. The form rule is the one
  of C03.3b (instances re-filed here)."""
  from sa import report
  from rules import c03
  rule = 'C07.11-sharded-implicit-form-equals-dense'
  probe = report.Check('C07-probe')
  c03.rule_sparse_dense(probe, prog)
  keep = [i for i in probe.instances]
  if len(keep) < 4:
    raise AnalysisError('C07: the sparse-form instances of C03.3b were not produced')
  for i in keep:
    i = dict(i, rule=rule)
    chk.instances.append(i)
    if i['status'] != 'holds':
      chk.violations.append(i)
  chk.at_least(rule, 4)


def _numfold(t, env):
  """Folds an integer / float term under env: {attr or sym name: value}; raises Inconclusive on anything else."""
  import math
  k, a = t.k, t.a
  if k == 'const':
    return a[0]
  if k == 'sym' and a[0] in env:
    return env[a[0]]
  if k == 'attr' and a[1] in env:
    return env[a[1]]
  if k == 'sub' and a[0].k == 'attr' and a[0].a[1] == 'shape' and a[1].k == 'const' and ('mesh.' + str(a[1].a[0])) in env:
    return env['mesh.' + str(a[1].a[0])]
  if k == 'bin' and a[0] in ('+', '-', '*', '/', '//', '%'):
    l, r = _numfold(a[1], env), _numfold(a[2], env)
    return {'+': lambda: l + r, '-': lambda: l - r, '*': lambda: l * r, '/': lambda: l / r, '//': lambda: l // r, '%': lambda: l % r}[a[0]]()
  if k == 'bool' and a[0] == 'or':
    ops = a[1] if len(a) == 2 and isinstance(a[1], tuple) else a[1:]
    for x in ops:
      v = _numfold(x, env)
      if v:
        return v
    return v
  if k == 'phi':
    c = sym.show(a[0])
    if c.endswith('spmd_mesh is not None)'):
      return _numfold(a[1] if env.get('has_mesh', True) else a[2], env)
    if c.endswith('spmd_mesh is None)'):
      return _numfold(a[2] if env.get('has_mesh', True) else a[1], env)
  if k == 'call' and a[0].k == 'ext' and a[0].a[0] in ('math.ceil', 'numpy.ceil') and a[1]:
    return math.ceil(_numfold(a[1][0], env))
  if k == 'call' and a[0].k == 'ext' and a[0].a[0] == 'int' and a[1]:
    return int(_numfold(a[1][0], env))
  if k == 'call' and a[0].k == 'ext' and a[0].a[0] in ('round', 'numpy.round', 'numpy.rint') and len(a[1]) == 1:
    return round(_numfold(a[1][0], env))
  if k == 'call' and a[0].k == 'ext' and a[0].a[0] in ('math.floor', 'numpy.floor') and a[1]:
    return math.floor(_numfold(a[1][0], env))
  if k == 'call' and a[0].k == 'ext' and a[0].a[0] in ('max', 'min') and a[1]:
    vals = [_numfold(z, env) for z in a[1]]
    return max(vals) if a[0].a[0] == 'max' else min(vals)
  raise guards.Inconclusive(sym.show(t)[:80])


def rule_shape_dispatch(chk, prog):
  """C07.13: maybe_to_nodal / maybe_to_modal decide "already in this representation" by comparing the trailing shape with the grid's nodal / modal
  shape.  Padding makes both shapes multiples of the mesh: when they coincide the test cannot tell the representations apart and modal data are
  returned as if they were nodal (and vice versa).  The padded-shape formulas are read from the current source and folded over the library's
  named grids × every (x, y) mesh on 1..8 devices."""
  import re
  rule = 'C07.13-representation-dispatch-by-shape-is-unambiguous'
  sites = []
  for fname, getter, tr in (('maybe_to_nodal', 'get_nodal_shapes', 'inverse_transform'), ('maybe_to_modal', 'get_modal_shapes', 'transform')):
    f = prog.func(f'{CS}.{fname}')
    ev = sym.Evaluator(prog, sym.Options(opaque={f'{CS}.{getter}'}))
    v, _, env = ev.run(f)
    # the per-leaf dispatch is whichever nested function returns its argument unchanged on a shape test and the transform otherwise
    by_shape = False
    nested = 0
    for key in list(ev.lambdas):
      fi, cenv = ev.lambdas[key]
      if fi.parent is not f or not fi.param_names():
        continue
      nested += 1
      try:
        b, _, _ = ev.run(fi, closure=cenv)
      except Exception:   # noqa: BLE001
        continue
      x = S(fi.param_names()[0])
      if b.k == 'phi' and sym.contains(b.a[0], lambda t: t.k == 'attr' and t.a[1] == 'shape' and t.a[0] == x):
        has_tr = lambda z: sym.contains(z, lambda t: t.k == 'call' and util.callee_name(t) == tr)
        if (b.a[1] == x and has_tr(b.a[2])) or (b.a[2] == x and has_tr(b.a[1])):
          by_shape = True
    chk.require(nested > 0, f'{CS}.{fname}: no per-leaf function found')
    sites.append((fname, f, by_shape))
  if not any(bs for _, _, bs in sites):
    for fname, f, _ in sites:
      chk.ok(rule, f'{CS}.{fname}: the representation is not inferred from the array shape', '', (f.file, f.lineno))
    return
  # padded shapes of the fast implementation, from the source
  c = prog.cls(f'{SH}.FastSphericalHarmonics')
  forms = {}
  for m in ('nodal_shape', 'modal_shape'):
    ev = sym.Evaluator(prog, sym.Options(opaque={f'{SH}._round_to_multiple'}))
    v, _, _ = ev.run(c.find_method(m), self_cls=c)
    mp = [t for t in sym.walk(v) if t.k == 'call' and t.a[0] == Term('ext', 'map')]
    ok = len(mp) == 1 and len(mp[0].a[1]) == 3 and mp[0].a[1][1].k == 'tuple' and mp[0].a[1][2].k == 'tuple' and len(mp[0].a[1][1].a) == 2 and len(mp[0].a[1][2].a) == 2
    chk.require(ok, f'{SH}.FastSphericalHarmonics.{m}: not map(_round_to_multiple, limits, multiples) over two axes: {sym.show(v)[:120]}')
    forms[m] = (mp[0].a[1][1].a, mp[0].a[1][2].a)
  rf = prog.func(f'{SH}._round_to_multiple')
  rv, _, _ = sym.Evaluator(prog).run(rf)
  rp = rf.param_names()
  def padded(m, env):
    lims, mults = forms[m]
    return tuple(_numfold(rv, {rp[0]: _numfold(l_, env), rp[1]: _numfold(u_, env)}) for l_, u_ in zip(lims, mults))
  # named grids: (M, L, lon, lat) from construct and the literal (W, G) of each factory
  g = prog.cls(f'{SH}.Grid')
  evc = sym.Evaluator(prog)
  vc, _, _ = evc.run(g.find_method('construct'))
  fld = lambda n_: util.field(vc, n_) if vc.k == 'obj' else util.call_kwargs(vc).get(n_)
  evf = sym.Evaluator(prog, sym.Options(opaque={f'{SH}.Grid.construct'}))
  grids = []
  for name, fi in sorted(g.methods.items()):
    if re.fullmatch(r'(TL|T)\d+', name) and fi.is_classmethod():
      v, _, _ = evf.run(fi)
      kw = util.call_kwargs(v) if v.k == 'call' else {}
      w_, g_ = kw.get('max_wavenumber'), kw.get('gaussian_nodes')
      if w_ is not None and g_ is not None and w_.k == 'const' and g_.k == 'const':
        e0 = {'max_wavenumber': w_.a[0], 'gaussian_nodes': g_.a[0]}
        grids.append((name, {n_: _numfold(fld(n_), e0) for n_ in ('longitude_wavenumbers', 'total_wavenumbers', 'longitude_nodes', 'latitude_nodes')}))
  chk.require(len(grids) >= 10, f'{SH}.Grid: named factory grids not found')
  meshes = sorted({(x_, y_) for x_ in (1, 2, 4, 8) for y_ in (1, 2, 4, 8) if x_ * y_ <= 8 and x_ * y_ > 1})
  coll = []
  try:
    for name, dims in grids:
      for x_, y_ in meshes:
        env = dict(dims, base_shape_multiple=8, has_mesh=True, **{'mesh.x': x_, 'mesh.y': y_})
        if padded('nodal_shape', env) == padded('modal_shape', env):
          coll.append((name, (x_, y_), padded('modal_shape', env)))
  except guards.Inconclusive as e:
    raise AnalysisError(f'{rule}: padded-shape formula not foldable ({e})')
  for fname, f, bs in sites:
    if not bs:
      chk.ok(rule, f'{CS}.{fname}: the representation is not inferred from the array shape', '', (f.file, f.lineno))
      continue
    chk.check(not coll, rule, f'{CS}.{fname}: "already converted" is inferred from shape == grid shape',
              f'{len(grids)} named grids × {len(meshes)} (x, y) meshes folded; nodal_shape == modal_shape for ' + (', '.join(f'{n_} on x={m_[0]},y={m_[1]} → {s_}' for n_, m_, s_ in coll[:12]) or 'none'),
              (f.file, f.lineno), 'nodal_shape ≠ modal_shape for every supported layout (or a dispatch that does not rely on shapes)',
              f'{len(coll)} colliding layouts, e.g. ' + ', '.join(f'{n_}@{m_}' for n_, m_, _ in coll[:6]))
  chk.at_least(rule, 2)


def run(chk, prog, tier):
  rule_shape_dispatch(chk, prog)
  rule_sharded_implicit(chk, prog)
  # sibling: the clip mask counts from the resolved truncation, not from the end of the padded axis (every n, every fast path) — C02.5's mask rule
  from rules import c02 as _c02
  _c02.clip_mask_rule(chk, prog, 'C07.12-clip-mask-padding-aware')
  chk.at_least('C07.12-clip-mask-padding-aware', 3)
  from rules import c01 as _c01
  _c01.rule_shared_state(chk, prog, rule='C07.9-shared-arrays-never-updated-in-place')
  rule_shard_offset(chk, prog)
  rule_padded(chk, prog)
  rule_shapes(chk, prog)
  rule_vertical_padding(chk, prog)
  rule_specs(chk, prog)
  rule_sharded_einsum(chk, prog)
  rule_schedules(chk, prog, sizes=(2, 4, 6, 8))
  rule_cumsum(chk, prog)
  rule_sharding_constraint(chk, prog)
  chk.assume('jax.lax: ppermute(x, axis, perm) delivers the value of device src to device dst for every (src, dst) in perm; psum(1, axis) is the axis size; axis_index is the device position',
             'shard_map(f, mesh, in_specs, out_specs) runs f on the local shards described by the specs; PartitionSpec entries are positional',
             'zero padding at the tail of spectral / nodal arrays (decided under C01.3b)')
  return dict(
      explanation=('Every function of the package is abstractly interpreted (bounded inlining) and all subscript loads and extent reads on values derived from the '
                   'tail-padded spectral arrays are classified (front / padding-aware / end-relative); a positive fixture keeps the scan honest. Shape and padding '
                   'properties, the vertical pad/crop wrapper, shard_map spec tables (expanded over their configuration branches), sharded_einsum wiring, the parallel '
                   'cumsum and the sharding-constraint helper are matched structurally. The two collective matmul schedules are folded for axis sizes 2, 4, 6, 8: the '
                   'permutation lists, chunk-index expressions, loop bounds and operand pairings are extracted from the current source and the per-device multisets of '
                   '(operand chunk, shard of origin) pairs are computed and compared with the complete pairing. Not decided: numerical equality with the unsharded run.'),
      trusted_base=['python ast', 'sympy canonicalisation', 'jax collective / shard_map semantics'],
      analysed=dict(functions_scanned=len(list(all_functions(prog))), schedule_axis_sizes=[2, 4, 6, 8]),
  )
