"""C15 — spectral filters: mean-preserving, non-amplifying, step-size consistent."""
from __future__ import annotations

import sympy as sp

from sa import alg, domains, sym, util
from sa.model import AnalysisError
from sa.sym import Term
from rules import common

CLAIM = dict(
    text=('Decides, from the two closed-form scalings in filtering.py and their callers in time_integration.py: the multiplier is exp(E) with E ≤ 0 '
          '(SIGN domain under the documented parameter ranges), E vanishes at total wavenumber 0, E is non-increasing in total wavenumber (monotonicity '
          'domain), the multiplier depends on the total-wavenumber axis and parameters only, E is linear-homogeneous in the strength and the step filters '
          'pass a strength linear-homogeneous in dt (so half steps compose), the diffusion step filter normalises by the padding-aware top eigenvalue with '
          'the same order, leaves failing the shape gate are returned untouched, Robert–Asselin weights are (r, 1−2r, r) with the newest level returned '
          'unchanged, and the (u, u_next) adapters filter only the newest state. Does not decide slice-by-slice equality for array-valued strengths '
          '(run-time broadcasting).'
          ' Later additions: C15.9 the diffusion normalisation reads the eigenvalue at index total_wavenumbers − 1 exactly; C15.10 shared arrays (cached eigenvalues are never negated in place).'),
    note=('Parameter assumptions (documented ranges): attenuation, scale ≥ 0; order a positive integer; 0 ≤ cutoff < 1; tau, dt, radius > 0; '
          'total wavenumbers ≥ 0 with positive maximum. Trusted: python ast, sympy canonicalisation, numpy broadcasting rules for the shape gate.'),
    technique='abstract interpretation (SIGN / monotone / value-at-zero domains, linearity by normal forms) of the filter scaling expressions + dependence sets',
)

FI = 'filtering'
TI = 'time_integration'


def is_l(t):
  t = util.strip(t)
  return t.k == 'sub' and t.a[1] == sym.const(1) and t.a[0].k == 'attr' and t.a[0].a[1] == 'modal_axes'


def is_lmax(t):
  return t.k == 'call' and t.a[0].k == 'attr' and t.a[0].a[1] == 'max' and is_l(t.a[0].a[0]) and not t.a[1]


def is_sym(name):
  return lambda t: t.k == 'sym' and t.a[0] == name


def is_attr(name):
  return lambda t: t.k == 'attr' and t.a[1] == name


def leaves(t):
  """Leaf atoms an expression depends on (symbols and attribute chains)."""
  out = []
  stack = [t]
  seen = set()
  while stack:
    x = stack.pop()
    if not isinstance(x, Term):
      if isinstance(x, tuple):
        stack.extend(x)
      continue
    if id(x) in seen:
      continue
    seen.add(id(x))
    if is_l(x):
      out.append(('l', x))
      continue
    if x.k == 'sub' and x.a[0].k == 'attr' and x.a[1].k == 'const':
      out.append((sym.show(x), x))
      continue
    if x.k == 'attr':
      out.append((sym.show(x), x))
      continue
    if x.k == 'sym':
      out.append((x.a[0], x))
      continue
    if x.k == 'call':
      stack.extend(x.a[1])
      stack.extend(v for _, v in x.a[2])
      if x.a[0].k == 'attr':
        stack.append(x.a[0].a[0])
      elif x.a[0].k not in ('ext', 'func'):
        stack.append(x.a[0])
      continue
    stack.extend(c for c in x.a if isinstance(c, (Term, tuple)))
  return out


def filter_scaling(chk, prog, name):
  ev = sym.Evaluator(prog, sym.Options(opaque={f'{FI}._make_filter_fn'}))
  f = prog.func(f'{FI}.{name}')
  v, ctx, env = ev.run(f)
  cs = util.calls(v, name='_make_filter_fn')
  chk.require(len(cs) == 1 and v is cs[0] or (len(cs) == 1 and v == cs[0]), f'{FI}.{name}: does not return _make_filter_fn(scaling, …): {sym.show(v)[:120]}')
  scaling = util.call_args(cs[0])[0]
  return ev, f, scaling, cs[0].loc


def exp_arg(t):
  if t.k == 'call' and alg.ext_short(t.a[0]) == 'exp' and len(t.a[1]) == 1:
    return t.a[1][0]
  return None


def lin_homogeneous(ev, expr, var_pred):
  """expr = var · c with c free of var (normal forms)."""
  A = alg.Algebra(ev)
  v = A.name(var_pred, 'strength_var')
  e = A.conv(expr)
  if not e.has(v):
    return False, 'does not depend on the variable'
  d = sp.simplify(sp.diff(e, v))
  if d.has(v):
    return False, f'derivative {d} still depends on it'
  if sp.simplify(e.subs(v, 0)) != 0:
    return False, f'value at 0 is {sp.simplify(e.subs(v, 0))}'
  return True, f'∂/∂var = {d}'


def rule_scaling(chk, prog, name, strength, extra_assume):
  site = f'{FI}.{name}'
  ev, f, scaling, loc = filter_scaling(chk, prog, name)
  params = f.param_names()
  E = exp_arg(scaling)
  sgn = domains.Sign(
      assume=[
          (is_l, 'NN'), (is_lmax, 'P'), (is_attr('radius'), 'P'),
      ] + extra_assume,
      integer=[is_sym('order')],
  )
  if not chk.check(E is not None, 'C15.1-factor-range', f'{site}: multiplier has the form exp(E)', sym.show(scaling)[:200], loc,
                   'exp(E) with E ≤ 0', sym.show(scaling)[:200]):
    return
  s = sgn.of(E)
  chk.check(domains.is_nonpos(s), 'C15.1-factor-range', f'{site}: exponent E ≤ 0, so the multiplier lies in (0, 1]',
            f'sign(E) = {s}; E = {sym.show(E, maxdepth=12)}', loc, 'E ≤ 0', f'sign {s}')
  z = domains.AtZero(is_l, sgn, const_pred=is_lmax).of(E)
  chk.check(z == 'Z', 'C15.2-mean-preserved', f'{site}: E = 0 at total wavenumber 0, so the global mean is multiplied by exactly 1',
            f'value class at l=0: {z}', loc, 'Z (zero)', z)
  lv = leaves(scaling)
  allowed = set(params) | {'l'}
  bad = []
  for label, t in lv:
    if label == 'l' or label in params:
      continue
    if t.k == 'attr' and t.a[1] in ('radius', 'spherical_harmonics'):
      continue
    if t.k == 'sub':
      bad.append(label)
      continue
    if t.k == 'attr' and t.a[1] in ('modal_axes',):
      continue
    bad.append(label)
  chk.check(not bad and any(lb == 'l' for lb, _ in lv), 'C15.3-depends-on-l-only', f'{site}: the multiplier depends on the total-wavenumber axis and the parameters only',
            f'leaves: {sorted(set(lb for lb, _ in lv))}', loc, 'total wavenumber + parameters', f'also reads {bad}')
  m = domains.Mono(is_l, sgn, const_pred=is_lmax).of(E)
  chk.check(m in ('D', 'C'), 'C15.4-non-increasing', f'{site}: E is non-increasing in total wavenumber', f'monotonicity class {m}', loc, 'D', m)
  ok, why = lin_homogeneous(ev, E, is_sym(strength))
  chk.check(ok, 'C15.5-step-consistency', f'{site}: E is linear-homogeneous in `{strength}` (two half-strength applications equal one full one)', why, loc)
  return ev, f, scaling


def strength_passed(chk, prog, fname, target, target_strength, forwards):
  """The step filter passes a strength linear-homogeneous in dt and forwards the shape parameters."""
  site = f'{TI}.{fname}'
  ev = sym.Evaluator(prog, sym.Options(opaque={f'{FI}.{target}'}))
  f = prog.func(f'{TI}.{fname}')
  v, ctx, env = ev.run(f)
  step, _, _ = util.inner(ev, v, site)
  cs = util.calls(step, name=target)
  chk.require(len(cs) == 1, f'{site}: expected exactly one call of {FI}.{target}, found {len(cs)}')
  call = cs[0]
  bound = ev.bind_args(prog.func(f'{FI}.{target}'), list(call.a[1]), list(call.a[2]), None, None)
  chk.require(bound is not None, f'{site}: cannot bind the arguments of {target}')
  strength = bound[target_strength]
  ok, why = lin_homogeneous(ev, strength, is_sym('dt'))
  chk.check(ok, 'C15.5-step-consistency', f'{site}: the strength passed to {target} is linear-homogeneous in dt', f'{sym.show(strength, maxdepth=10)}: {why}', call.loc,
            'c·dt', sym.show(strength, maxdepth=10))
  for pname in forwards:
    chk.check(bound[pname] == Term('sym', pname), 'C15.5-step-consistency', f'{site}: forwards `{pname}` unchanged to {target}', sym.show(bound[pname]), call.loc,
              pname, sym.show(bound[pname]))
  chk.check(bound['grid'] == Term('sym', 'grid'), 'C15.5-step-consistency', f'{site}: builds the filter on the given grid', sym.show(bound['grid']), call.loc)
  return ev, f, step, call, bound


def rule_adapters(chk, prog):
  rule = 'C15.8-adapters'
  ev = sym.Evaluator(prog)
  f = prog.func(f'{TI}.runge_kutta_step_filter')
  v, _, _ = ev.run(f)
  step, _, senv = util.inner(ev, v, f.qualname)
  fi, _ = ev.get_func(v)
  pn = fi.param_names()
  chk.require(len(pn) == 2, f'{f.qualname}: adapter does not take (u, u_next)')
  u, un = Term('sym', pn[0]), Term('sym', pn[1])
  ok = step.k == 'call' and step.a[0] == Term('sym', 'state_filter') and list(step.a[1]) == [un]
  chk.check(ok and not sym.contains(step, lambda t: t == u), rule, f'{TI}.runge_kutta_step_filter: returns state_filter(u_next) and ignores u', sym.show(step), (f.file, f.lineno),
            'state_filter(u_next)', sym.show(step))
  f = prog.func(f'{TI}.leapfrog_step_filter')
  v, _, _ = ev.run(f)
  step, _, senv = util.inner(ev, v, f.qualname)
  fi, _ = ev.get_func(v)
  pn = fi.param_names()
  u, un = Term('sym', pn[0]), Term('sym', pn[1])
  ok = (step.k == 'tuple' and len(step.a) == 2 and step.a[0] == Term('sub', un, sym.const(0))
        and step.a[1].k == 'call' and step.a[1].a[0] == Term('sym', 'state_filter') and list(step.a[1].a[1]) == [Term('sub', un, sym.const(1))])
  chk.check(ok and not sym.contains(step, lambda t: t == u), rule, f'{TI}.leapfrog_step_filter: returns (current, state_filter(future)) of u_next and ignores u',
            sym.show(step), (f.file, f.lineno), '(u_next[0], state_filter(u_next[1]))', sym.show(step))
  chk.at_least(rule, 2)


def rule_robert_asselin(chk, prog):
  rule = 'C15.7-robert-asselin'
  ev = sym.Evaluator(prog)
  f = prog.func(f'{TI}.robert_asselin_leapfrog_filter')
  v, _, _ = ev.run(f)
  step, _, senv = util.inner(ev, v, f.qualname)
  fi, _ = ev.get_func(v)
  pn = fi.param_names()
  u, un = Term('sym', pn[0]), Term('sym', pn[1])
  site = f'{TI}.robert_asselin_leapfrog_filter'
  chk.require(step.k == 'tuple' and len(step.a) == 2, f'{site}: does not return a pair: {sym.show(step)}')
  prev, cur, fut = Term('sub', u, sym.const(0)), Term('sub', u, sym.const(1)), Term('sub', un, sym.const(1))
  chk.check(step.a[1] == fut, rule, f'{site}: the newest time level is returned unchanged', sym.show(step.a[1]), (f.file, f.lineno), 'u_next[1]', sym.show(step.a[1]))
  A = alg.Algebra(ev)
  r = A.name(is_sym(f.param_names()[0]), 'r')
  sp_, sc_, sf_ = A.name(lambda t: t == prev, 'prev'), A.name(lambda t: t == cur, 'cur'), A.name(lambda t: t == fut, 'fut')
  e = A.conv(step.a[0])
  res = alg.linear_coeffs(e, [sp_, sc_, sf_])
  if not chk.check(res is not None and res[1] == 0, rule, f'{site}: filtered level is a linear combination of (previous, current, future)', str(e), (f.file, f.lineno)):
    return
  cp, cc, cf = res[0]
  chk.check(alg.equal(cp, r) and alg.equal(cf, r) and alg.equal(cc, 1 - 2 * r), rule,
            f'{site}: weights are (r, 1−2r, r): they sum to 1 and are symmetric, so sequences linear in time are fixed',
            f'({cp}, {cc}, {cf})', (f.file, f.lineno), '(r, 1 - 2*r, r)', f'({cp}, {cc}, {cf})')
  chk.at_least(rule, 3)


def rule_shape_gate(chk, prog):
  rule = 'C15.6-shape-gate'
  ev = sym.Evaluator(prog)
  f = prog.func(f'{FI}._make_filter_fn')
  v, _, env = ev.run(f)
  site = f'{FI}._make_filter_fn'
  ok = v.k == 'partial' and v.a[0].k == 'ext' and v.a[0].a[0] in sym.TREE_MAPS and len(v.a[1]) == 1
  if not chk.check(ok, rule, f'{site}: returns a leaf-wise tree_map of the rescale function', sym.show(v), (f.file, f.lineno)):
    return
  resc, _, renv = util.inner(ev, v.a[1][0], site)
  fi, _ = ev.get_func(v.a[1][0])
  x = Term('sym', fi.param_names()[0])
  scaling = env[f.param_names()[0]]
  good = resc.k == 'phi' and resc.a[2] == x and resc.a[1].k == 'bin' and resc.a[1].a[0] == '*' and {resc.a[1].a[1], resc.a[1].a[2]} == {x, scaling}
  chk.check(good, rule, f'{site}: leaf ↦ scaling·leaf when the gate holds, the very same leaf otherwise', sym.show(resc), resc.loc or (f.file, f.lineno),
            'φ(gate ? scaling*x : x)', sym.show(resc))
  if resc.k == 'phi':
    cond = resc.a[0]
    shape_x = lambda t: t.k == 'call' and alg.ext_short(t.a[0]) == 'shape' and list(t.a[1]) == [x]
    bshape = [t for t in sym.walk(cond) if t.k == 'call' and alg.ext_short(t.a[0]) == 'broadcast_shapes']
    ok = (cond.k == 'cmp' and cond.a[0] == ('==',) and any(shape_x(o) for o in cond.a[1]) and len(bshape) == 1
          and any(shape_x(a_) for a_ in bshape[0].a[1])
          and any(a_.k == 'attr' and a_.a[1] == 'shape' and a_.a[0] == scaling for a_ in bshape[0].a[1]))
    chk.check(ok, rule, f'{site}: the gate is shape(x) == broadcast_shapes(shape(x), scaling.shape) (scalars, clocks and other shapes fail it)',
              sym.show(cond), cond.loc or (f.file, f.lineno), 'shape(x) == broadcast_shapes(shape(x), scaling.shape)', sym.show(cond))
  else:
    chk.violation(rule, f'{site}: the gate is shape(x) == broadcast_shapes(shape(x), scaling.shape) (scalars, clocks and other shapes fail it)',
                  'no shape gate: every leaf is rescaled', resc.loc or (f.file, f.lineno), 'φ(gate ? scaling*x : x)', sym.show(resc))
  chk.at_least(rule, 3)


def rule_diffusion_step(chk, prog):
  site = f'{TI}.horizontal_diffusion_step_filter'
  ev, f, step, call, bound = strength_passed(chk, prog, 'horizontal_diffusion_step_filter', 'horizontal_diffusion_filter', 'scale', ['order'])
  scale = bound['scale']
  # the top eigenvalue used for normalisation
  subs = [t for t in sym.walk(scale) if t.k == 'sub' and sym.contains(t.a[0], is_l)]
  if not chk.check(len(subs) == 1, 'C15.9-top-mode', f'{site}: normalises by one indexed entry of the Laplacian eigenvalues', sym.show(scale, maxdepth=8), call.loc):
    return
  top = subs[0]
  common.check_padded_index(chk, 'C15.9-top-mode', site, top, call.loc)
  # …and it is exactly the last resolved total wavenumber (index total_wavenumbers − 1): one further is padding (0 → infinite scale)
  # or out of range, one less does not give the documented e-folding of the top mode
  Ai = alg.Algebra(ev)
  Ls = Ai.name(lambda t: t.k == 'attr' and t.a[1] == 'total_wavenumbers', 'L', integer=True, positive=True)
  idx = top.a[1]
  pad_l = Ai.name(lambda t: t.k == 'sub' and t.a[0].k == 'attr' and t.a[0].a[1] == 'modal_padding' and t.a[1].k == 'const' and t.a[1].a[0] in (1, -1), 'pad_l', integer=True, nonnegative=True)
  # an end-relative spelling counts from the padded length L + pad_l of the total-wavenumber axis
  from_end = idx.k not in ('tuple', 'slice') and alg.equal(Ai.conv(idx) + Ls + pad_l, Ls - 1)
  chk.check(idx.k not in ('tuple', 'slice') and (alg.equal(Ai.conv(idx), Ls - 1) or from_end), 'C15.9-top-mode', f'{site}: the normalising eigenvalue is that of total wavenumber L − 1 (the top resolved mode)',
            sym.show(idx), call.loc, 'total_wavenumbers - 1', sym.show(idx))
  # scale · |λ_top|^order == dt / tau
  A = alg.Algebra(ev, opaque=lambda t: t == top)
  e = A.conv(scale) * sp.Abs(A.atom(top)) ** A.conv(Term('sym', 'order'))
  want = A.conv(Term('sym', 'dt')) / A.conv(Term('sym', 'tau'))
  chk.check(alg.equal(sp.simplify(e), want), 'C15.5-step-consistency', f'{site}: scale·|λ_top|^order = dt/tau (the top mode decays by e⁻¹ per tau)',
            str(sp.simplify(e)), call.loc, 'dt/tau', str(sp.simplify(e)))
  sgn = domains.Sign(assume=[(is_sym('dt'), 'P'), (is_sym('tau'), 'P'), (is_sym('order'), 'P'), (is_l, 'NN'), (is_attr('radius'), 'P')])
  s = sgn.of(scale)
  chk.check(domains.is_nonneg(s), 'C15.1-factor-range', f'{site}: the strength passed to the diffusion filter is ≥ 0', f'sign {s}', call.loc)


def run(chk, prog, tier):
  from rules import c01 as _c01
  _c01.rule_shared_state(chk, prog, rule='C15.10-shared-arrays-never-updated-in-place')
  rule_scaling(chk, prog, 'exponential_filter', 'attenuation', [
      (is_sym('attenuation'), 'NN'), (is_sym('cutoff'), 'NN'), (is_sym('order'), 'P'),
      (lambda t: t.k == 'bin' and t.a[0] == '-' and t.a[1] == sym.const(1) and t.a[2] == Term('sym', 'cutoff'), 'P'),
  ])
  rule_scaling(chk, prog, 'horizontal_diffusion_filter', 'scale', [(is_sym('scale'), 'NN'), (is_sym('order'), 'P')])
  strength_passed(chk, prog, 'exponential_step_filter', 'exponential_filter', 'attenuation', ['order', 'cutoff'])
  strength_passed(chk, prog, 'exponential_leapfrog_step_filter', 'exponential_filter', 'attenuation', ['order', 'cutoff'])
  rule_diffusion_step(chk, prog)
  rule_shape_gate(chk, prog)
  rule_robert_asselin(chk, prog)
  rule_adapters(chk, prog)
  # adapters used by the three step filters
  ev = sym.Evaluator(prog, sym.Options(opaque={f'{FI}.exponential_filter', f'{FI}.horizontal_diffusion_filter', f'{TI}.runge_kutta_step_filter', f'{TI}.leapfrog_step_filter'}))
  for fname, adapter in (('exponential_step_filter', 'runge_kutta_step_filter'), ('exponential_leapfrog_step_filter', 'leapfrog_step_filter'),
                         ('horizontal_diffusion_step_filter', 'runge_kutta_step_filter')):
    f = prog.func(f'{TI}.{fname}')
    v, _, _ = ev.run(f)
    chk.check(v.k == 'call' and util.callee_name(v) == adapter, 'C15.8-adapters', f'{TI}.{fname}: wraps its state filter with {adapter}', sym.show(v, maxdepth=4)[:160], (f.file, f.lineno),
              adapter, util.callee_name(v) if v.k == 'call' else sym.show(v)[:80])
  for r, n in (('C15.1-factor-range', 4), ('C15.2-mean-preserved', 2), ('C15.3-depends-on-l-only', 2), ('C15.4-non-increasing', 2), ('C15.5-step-consistency', 11), ('C15.9-top-mode', 3)):
    chk.at_least(r, n)
  chk.assume('attenuation ≥ 0, scale ≥ 0, order a positive integer, 0 ≤ cutoff < 1, tau > 0, dt > 0, radius > 0, 0 ≤ r ≤ ½',
             'total wavenumbers are ≥ 0 and their maximum is > 0 (grids with at least two total wavenumbers)',
             'numpy broadcasting semantics of np.broadcast_shapes; jax.tree_util.tree_map applies a function leaf-wise')
  return dict(
      explanation=('The scaling expressions of exponential_filter and horizontal_diffusion_filter are obtained by abstract interpretation (Grid.laplacian_eigenvalues '
                   'inlined), then evaluated in the SIGN, monotonicity and value-at-l=0 domains and tested for linear homogeneity in the strength by normal '
                   'forms; the three step filters are bound to the filter parameters to check the dt-linearity of the passed strength, the forwarding of order / '
                   'cutoff and the normalisation scale·|λ_top|^order = dt/tau with a padding-aware top index; _make_filter_fn, the Robert–Asselin filter and the '
                   'two adapters are checked structurally (gate, weights, returned levels). Not decided: equality of array-valued strengths with slice-wise '
                   'scalar filters.'),
      trusted_base=['python ast', 'sympy canonicalisation', 'sign / monotonicity transfer functions in sa/domains.py'],
      analysed=dict(functions=['filtering.exponential_filter', 'filtering.horizontal_diffusion_filter', 'filtering._make_filter_fn', 'filtering._preserves_shape',
                               'time_integration.exponential_step_filter', 'time_integration.exponential_leapfrog_step_filter',
                               'time_integration.horizontal_diffusion_step_filter', 'time_integration.robert_asselin_leapfrog_filter',
                               'time_integration.runge_kutta_step_filter', 'time_integration.leapfrog_step_filter', 'spherical_harmonic.Grid.laplacian_eigenvalues']),
  )
