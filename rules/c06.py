"""C06 — IMEX integrators: coefficient validation, tableau conditions, step shape.

Decides (statically, from the source of dinosaur/time_integration.py):
  * the length guards accept exactly the consistent coefficient sets;
  * the literal tableaux satisfy the order / stage-time / stability conditions
    of the schemes they claim;
  * every implicit solve is a Crank–Nicolson (θ=½) or backward-Euler pair with
    matching weights, stage updates have the low-storage / IMEX-RK form.
Does not decide the Taylor-expansion claim for arbitrary F (numerical).
"""
from __future__ import annotations

import itertools
from fractions import Fraction

import sympy as sp

from sa import alg, guards, sym, util
from sa.model import AnalysisError
from sa.sym import Term

MOD = 'time_integration'

CLAIM = dict(
    text=('Decides the structural clauses of C06 on every run from the source of time_integration.py: the coefficient-length guards accept exactly the '
          'consistent sets (all length patterns enumerated against the index ranges used by the stage loops); the literal RK3 / RK4 / SIL3 tableaux satisfy '
          'the order, stage-time, coupling and A-stability conditions of the schemes they claim (exact rational arithmetic); every implicit solve in the five '
          'integrators is a θ=½ Crank–Nicolson or backward-Euler pair with matching, consistent weights, the low-storage register update and the IMEX-RK stage '
          'table (unrolled on the SIL3 literals) have the form of the scheme. Does not decide the Taylor-order claim for arbitrary nonlinear F or numerical '
          'amplification factors (needs execution).'
          ' Later additions: the IMEX tableau guard requires equal stage counts across the explicit and implicit halves (folded over length patterns); crank_nicolson_rk2 returns its last implicit solve (the amplification factor is that of the solve, not a difference of large terms). A sparse probe tableau (a stage used by the next stage only, zero final weight) is pushed through the generic IMEX driver.'),
    note=('Trusted: python ast; sympy canonicalisation; Butcher order conditions up to 4 and the 2N-storage identity (cited in rules/c06.py); tree_math '
          'wrappers only re-package pytrees. A necessary-condition check: a broken rule instance breaks order/stability/validation for some input; passing '
          'all instances does not prove the numerical claim.'),
    technique='abstract interpretation to term normal forms + exact folding of literal tableaux + guard enumeration over length patterns',
)


# ----------------------------------------------------------------- helpers
def is_len_of(t):
  return t.k == 'call' and t.a[0].k == 'ext' and t.a[0].a[0] == 'len' and len(t.a[1]) == 1


def seq_name(t):
  """Name of a coefficient sequence: parameter `alphas` or field `tableau.a_ex`."""
  if t.k == 'sym':
    return t.a[0]
  if t.k == 'attr':
    return t.a[1]
  return None


def loop_bounds(lv):
  """(lo, hi) terms of the range a loop variable runs over, or None."""
  it = lv.a[1]
  if it.k == 'call' and it.a[0].k == 'ext' and it.a[0].a[0] == 'range':
    args = it.a[1]
    if len(args) == 1:
      return sym.const(0), args[0]
    if len(args) == 2:
      return args[0], args[1]
  return None


class LenAlgebra:
  """Affine arithmetic over len(sequence) atoms and loop variables."""

  def __init__(self):
    self.len_syms = {}
    self.lv_syms = {}
    self.lvs = {}

  def conv(self, t):
    if t.k == 'const' and isinstance(t.a[0], int):
      return sp.Integer(t.a[0])
    if is_len_of(t):
      n = seq_name(t.a[1][0])
      if n is None:
        raise guards.Inconclusive(sym.show(t))
      return self.len_syms.setdefault(n, sp.Symbol('len_' + n, integer=True))
    if t.k == 'loopvar':
      s = self.lv_syms.setdefault((t.a[0], t.a[2]), sp.Symbol(f'{t.a[0]}_{t.a[2]}', integer=True))
      self.lvs[s] = t
      return s
    if t.k == 'bin' and t.a[0] in '+-*':
      l, r = self.conv(t.a[1]), self.conv(t.a[2])
      return {'+': l + r, '-': l - r, '*': l * r}[t.a[0]]
    if t.k == 'un' and t.a[0] == '-':
      return -self.conv(t.a[1])
    raise guards.Inconclusive(sym.show(t))

  def extreme(self, e, want_max=True):
    """Max (min) of an affine index expression over its loop variables."""
    for _ in range(8):
      lv = [s for s in e.free_symbols if s in self.lvs]
      if not lv:
        return sp.expand(e)
      s = lv[0]
      coeff = sp.expand(e).coeff(s, 1)
      if coeff.free_symbols:
        raise guards.Inconclusive(f'non-constant coefficient of {s} in {e}')
      b = loop_bounds(self.lvs[s])
      if b is None:
        raise guards.Inconclusive(f'loop variable {s} not over a range')
      lo, hi = self.conv(b[0]), self.conv(b[1])
      up = (coeff >= 0) == want_max
      e = e.subs(s, hi - 1 if up else lo)
    raise guards.Inconclusive(f'cannot bound {e}')


def required_lengths(term, names):
  """{sequence name: required length expr} from first-level subscripts."""
  la = LenAlgebra()
  req = {}
  sites = {}
  for x in sym.walk(term):
    if x.k != 'sub':
      continue
    n = seq_name(x.a[0])
    if n not in names or x.a[0].k not in ('sym', 'attr'):
      continue
    idx = x.a[1]
    if idx.k == 'slice' or idx.k == 'tuple':
      continue
    if idx.k == 'const' and isinstance(idx.a[0], int) and idx.a[0] < 0:
      continue   # x[-k] needs len ≥ k only; it never exceeds what the stage indices already require
    try:
      e = la.extreme(la.conv(idx), True) + 1
    except guards.Inconclusive:
      continue
    sites.setdefault(n, []).append(sym.show(x))
    if n in req:
      d = sp.simplify(e - req[n])
      if d.is_number:
        if d > 0:
          req[n] = e
      else:
        raise AnalysisError(f'cannot compare index ranges {e} and {req[n]} of {n}')
    else:
      req[n] = e
  return req, la, sites


def decide_guard(chk, rule, site, cond, req, la, loc, domain=range(1, 7)):
  """accepted ⇔ consistent over all length patterns."""
  names = sorted(req)
  atoms = guards.atoms_of(cond, is_len_of)
  atom_names = [seq_name(a.a[1][0]) for a in atoms]
  missing = [n for n in names if n not in atom_names]
  wrongly_accepted = None
  wrongly_rejected = None
  n_cases = 0
  all_names = sorted(set(names) | set(n for n in atom_names if n))
  for combo in itertools.product(domain, repeat=len(all_names)):
    asg = dict(zip(all_names, combo))
    subs = {la.len_syms[n]: asg[n] for n in asg if n in la.len_syms}
    try:
      consistent = all(int(sp.Integer(asg[n])) == int(req[n].subs(subs)) for n in names)
    except TypeError as e:
      raise AnalysisError(f'{site}: required lengths not closed over the sequence lengths: {req}') from e

    def val(x, asg=asg):
      if is_len_of(x):
        n = seq_name(x.a[1][0])
        if n in asg:
          return asg[n]
      raise KeyError(x)

    try:
      raised = bool(guards.fold(cond, val))
    except guards.Inconclusive as e:
      raise AnalysisError(f'{site}: guard idiom not recognised: {e}') from e
    n_cases += 1
    if not raised and not consistent and wrongly_accepted is None:
      wrongly_accepted = asg
    if raised and consistent and wrongly_rejected is None:
      wrongly_rejected = asg
  key = f'{site}: raise-guard over lengths of {{{", ".join(names)}}}'
  expected = 'accepted ⇔ ' + ' ∧ '.join(f'len({n}) = {req[n]}' for n in names)
  if wrongly_accepted is not None:
    chk.violation(rule, key, f'inconsistent coefficient lengths are accepted (silently truncated / mis-indexed), e.g. {wrongly_accepted}',
                  loc, expected, sym.show(cond))
  elif wrongly_rejected is not None:
    chk.violation(rule, key, f'a consistent coefficient set is rejected, e.g. {wrongly_rejected}', loc, expected, sym.show(cond))
  else:
    chk.ok(rule, key, f'{n_cases} length patterns enumerated; guard = {sym.show(cond)}; {expected}', loc)
  if missing:
    chk.violation(rule, key + ' [coverage]', f'sequence(s) {missing} are indexed with the shared stage index but never validated', loc,
                  expected, sym.show(cond))


def raise_condition(ctx_raises):
  conds = [guards.path_cond(p) for p, exc, loc in ctx_raises]
  if not conds:
    return None, None
  loc = ctx_raises[0][2]
  if len(conds) == 1:
    return conds[0], loc
  return Term('bool', 'or', tuple(conds)), loc


# ------------------------------------------------------------- rule: guards
def rule_length_guards(chk, prog):
  rule = 'C06.1-length-guard'
  ev = sym.Evaluator(prog)
  f = prog.func(f'{MOD}.low_storage_runge_kutta_crank_nicolson')
  v, ctx, env = ev.run(f)
  cond, loc = raise_condition(ctx.raises)
  chk.require(cond is not None, f'{f.qualname}: no length validation (raise) found')
  step, _, _ = util.inner(ev, v, f.qualname)
  seqs = [n for n in f.param_names() if n not in ('equation', 'time_step')]
  req, la, sites = required_lengths(step, set(seqs))
  chk.require(len(req) >= 3, f'{f.qualname}: expected ≥3 coefficient sequences indexed by the stage loop, found {sorted(req)}')
  decide_guard(chk, rule, f'{MOD}.low_storage_runge_kutta_crank_nicolson', cond, req, la, loc)

  c = prog.cls(f'{MOD}.ImExButcherTableau')
  post = c.find_method('__post_init__')
  chk.require(post is not None, 'ImExButcherTableau.__post_init__ not found')
  ev = sym.Evaluator(prog)
  v, ctx, env = ev.run(post)
  cond, loc = raise_condition(ctx.raises)
  chk.require(cond is not None, 'ImExButcherTableau.__post_init__: no validation (raise) found')
  g = prog.func(f'{MOD}.imex_runge_kutta')
  v, _, _ = ev.run(g)
  step, _, _ = util.inner(ev, v, g.qualname)
  fields = {fl[0] for fl in c.all_fields()}
  req, la, sites = required_lengths(step, fields)
  chk.require(len(req) >= 4, f'imex_runge_kutta: expected the 4 tableau sequences to be indexed, found {sorted(req)}')
  decide_guard(chk, rule, f'{MOD}.ImExButcherTableau.__post_init__', cond, req, la, loc)
  chk.note('inner row lengths of a_ex / a_im are not validated by ImExButcherTableau (outside the anchored mechanism; informational)')
  chk.at_least(rule, 2)


# ------------------------------------------------------- rule: tableau data
def frac_list(xs, what):
  try:
    return [alg.to_fraction(x) for x in xs]
  except Exception as e:
    raise AnalysisError(f'{what}: tableau entries are not literal numbers: {xs}') from e


def low_storage_to_butcher(beta, gamma):
  s = len(beta)
  # A[k][j]: coefficient of F(u_j) in u_k, k = 0..s
  rows = [[Fraction(0)] * s]
  coeff_h = [Fraction(0)] * s  # h_{k-1} as combination of F(u_j)
  u = [Fraction(0)] * s
  for k in range(s):
    h = [beta[k] * c for c in coeff_h]
    h[k] += 1
    u = [a + gamma[k] * b for a, b in zip(u, h)]
    rows.append(list(u))
    coeff_h = h
  A = rows[:s]
  b = rows[s]
  return A, b


def order_conditions(A, b, order):
  s = len(b)
  c = [sum(A[i]) for i in range(s)]
  dot = lambda x, y: sum(p * q for p, q in zip(x, y))
  Ac = [dot(A[i], c) for i in range(s)]
  c2 = [x * x for x in c]
  c3 = [x ** 3 for x in c]
  Ac2 = [dot(A[i], c2) for i in range(s)]
  AAc = [dot(A[i], Ac) for i in range(s)]
  conds = [(1, 'Σb = 1', sum(b), Fraction(1))]
  conds += [(2, 'b·c = 1/2', dot(b, c), Fraction(1, 2))]
  conds += [(3, 'b·c² = 1/3', dot(b, c2), Fraction(1, 3)), (3, 'b·A·c = 1/6', dot(b, Ac), Fraction(1, 6))]
  conds += [
      (4, 'b·c³ = 1/4', dot(b, c3), Fraction(1, 4)),
      (4, 'Σ bᵢcᵢ(Ac)ᵢ = 1/8', sum(b[i] * c[i] * Ac[i] for i in range(s)), Fraction(1, 8)),
      (4, 'b·A·c² = 1/12', dot(b, Ac2), Fraction(1, 12)),
      (4, 'b·A·A·c = 1/24', dot(b, AAc), Fraction(1, 24)),
  ]
  return [x for x in conds if x[0] <= order], c


def factory_call(prog, factory, callee):
  ev = sym.Evaluator(prog, sym.Options(opaque={f'{MOD}.{callee}'}))
  f = prog.func(f'{MOD}.{factory}')
  v, ctx, env = ev.run(f)
  cs = [x for x in util.calls(v, name=callee)]
  if len(cs) != 1:
    raise AnalysisError(f'{factory}: expected one call of {callee}, found {len(cs)}')
  call = cs[0]
  bound = ev.bind_args(prog.func(f'{MOD}.{callee}'), list(call.a[1]), list(call.a[2]), None, None)
  if bound is None:
    raise AnalysisError(f'{factory}: cannot bind the arguments of {callee}')
  return bound, call.loc or (f.file, f.lineno)


def rule_low_storage_tableau(chk, prog, factory, order, tol):
  rule = 'C06.2-tableau'
  bound, loc = factory_call(prog, factory, 'low_storage_runge_kutta_crank_nicolson')
  lists = {}
  for n in ('alphas', 'betas', 'gammas'):
    lit = util.literal_list(bound[n])
    if lit is None:
      raise AnalysisError(f'{factory}: {n} is not a literal list: {sym.show(bound[n])}')
    lists[n] = frac_list(lit, f'{factory}.{n}')
  al, be, ga = lists['alphas'], lists['betas'], lists['gammas']
  site = f'{MOD}.{factory}'
  if not chk.check(len(al) - 1 == len(be) == len(ga), rule, f'{site}: coefficient list lengths',
                   f'len(alphas)-1, len(betas), len(gammas) = {len(al) - 1}, {len(be)}, {len(ga)}', loc):
    return
  A, b = low_storage_to_butcher(be, ga)
  conds, c = order_conditions(A, b, order)
  for o, name, got, want in conds:
    chk.check(abs(got - want) <= tol, rule, f'{site}: order-{o} condition {name}',
              f'value {float(got):.15g} (|err| = {float(abs(got - want)):.2e}, tol {float(tol):.0e})', loc,
              expected=str(want), found=str(float(got)))
  chk.check(be[0] == 0, rule, f'{site}: β₀ = 0 (no register carried into the first stage)', f'β₀ = {be[0]}', loc, '0', str(be[0]))
  chk.check(al[0] == 0 and abs(al[-1] - 1) <= tol, rule, f'{site}: α₀ = 0 and α_last = 1 (implicit sub-steps cover one step)',
            f'α = {[float(x) for x in al]}', loc, '0 … 1', f'{float(al[0])} … {float(al[-1])}')
  chk.check(all(x < y for x, y in zip(al, al[1:])), rule, f'{site}: α strictly increasing (every Crank–Nicolson sub-step has µ > 0, |R| ≤ 1)',
            f'α = {[float(x) for x in al]}', loc)
  for k in range(len(be)):
    chk.check(abs(al[k] - c[k]) <= tol, rule, f'{site}: α[{k}] equals the explicit abscissa c[{k}]',
              f'α[{k}] = {float(al[k]):.13g}, c[{k}] = {float(c[k]):.13g}', loc, str(float(c[k])), str(float(al[k])))


def rule_sil3_tableau(chk, prog):
  rule = 'C06.2-tableau'
  bound, loc = factory_call(prog, 'imex_rk_sil3', 'imex_runge_kutta')
  tab = bound['tableau']
  site = f'{MOD}.imex_rk_sil3'
  chk.require(tab.k == 'obj', f'{site}: tableau argument is not an ImExButcherTableau literal: {sym.show(tab)}')
  t = {}
  for n in ('a_ex', 'a_im', 'b_ex', 'b_im'):
    lit = util.literal_list(util.field(tab, n))
    chk.require(lit is not None, f'{site}: {n} is not a literal list')
    t[n] = lit
  s = len(t['b_ex'])
  if not chk.check(len(t['a_ex']) + 1 == len(t['a_im']) + 1 == s == len(t['b_im']), rule, f'{site}: tableau list lengths', str({k: len(v) for k, v in t.items()}), loc):
    return
  ok_rows = all(len(t['a_ex'][i]) == i + 1 for i in range(s - 1)) and all(len(t['a_im'][i]) == i + 2 for i in range(s - 1))
  if not chk.check(ok_rows, rule, f'{site}: row i of a_ex has i+1 entries and of a_im i+2 entries (explicit / diagonally implicit)',
                   str([len(r) for r in t['a_ex']]) + ' / ' + str([len(r) for r in t['a_im']]), loc):
    return
  F = lambda x: alg.to_fraction(x)
  Aex = [[Fraction(0)] * s] + [[F(x) for x in row] + [Fraction(0)] * (s - len(row)) for row in t['a_ex']]
  Aim = [[Fraction(0)] * s] + [[F(x) for x in row] + [Fraction(0)] * (s - len(row)) for row in t['a_im']]
  bex = [F(x) for x in t['b_ex']]
  bim = [F(x) for x in t['b_im']]
  cex = [sum(r) for r in Aex]
  cim = [sum(r) for r in Aim]
  dot = lambda x, y: sum(p * q for p, q in zip(x, y))
  chk.check(sum(bex) == 1, rule, f'{site}: Σ b_ex = 1', str(sum(bex)), loc, '1', str(sum(bex)))
  chk.check(sum(bim) == 1, rule, f'{site}: Σ b_im = 1', str(sum(bim)), loc, '1', str(sum(bim)))
  chk.check(cex == cim, rule, f'{site}: explicit and implicit stage times coincide (c_ex = c_im)', f'{cex} vs {cim}', loc, str(cex), str(cim))
  for bn, bv in (('b_ex', bex), ('b_im', bim)):
    for cn, cv in (('c_ex', cex), ('c_im', cim)):
      chk.check(dot(bv, cv) == Fraction(1, 2), rule, f'{site}: second-order (coupling) condition {bn}·{cn} = 1/2', str(dot(bv, cv)), loc, '1/2', str(dot(bv, cv)))
  Ac = [dot(r, cex) for r in Aex]
  chk.check(dot(bex, Ac) == Fraction(1, 6), rule, f'{site}: b_ex·A_ex·c = 1/6 (third order for linear F)', str(dot(bex, Ac)), loc, '1/6', str(dot(bex, Ac)))
  chk.check(all(Aim[i][i] >= 0 for i in range(s)), rule, f'{site}: implicit diagonal a_ii ≥ 0 (poles of the stability function in the right half-plane)',
            str([Aim[i][i] for i in range(s)]), loc)
  # A-stability of the implicit part on the imaginary axis: |D(iy)|² − |N(iy)|² has no negative coefficient
  z, y = sp.symbols('z y', real=True)
  M = sp.Matrix([[sp.Rational(x.numerator, x.denominator) for x in r] for r in Aim])
  bvec = sp.Matrix([[sp.Rational(x.numerator, x.denominator) for x in bim]])
  I = sp.eye(s)
  D = (I - z * M).det()
  N = sp.expand(D + z * (bvec * (I - z * M).adjugate() * sp.ones(s, 1))[0, 0])
  D = sp.expand(D)
  zi = sp.I * y
  E = sp.expand(sp.expand(D.subs(z, zi) * D.subs(z, -zi)) - sp.expand(N.subs(z, zi) * N.subs(z, -zi)))
  coeffs = sp.Poly(E, y).all_coeffs() if E != 0 else [0]
  chk.check(all(cf >= 0 for cf in coeffs) and sp.im(E) == 0, rule, f'{site}: implicit part is A-stable (|R(iy)| ≤ 1: E(y) = |D|² − |N|² has only non-negative coefficients)',
            f'E(y) = {sp.factor(E)}', loc, 'all coefficients ≥ 0', str(sp.factor(E)))
  # the limit |R(∞)| ≤ 1 is implied by E ≥ 0; explicit part needs no bound (not stiff)


# ------------------------------------------------------ rule: shape of steps
def is_term_call(t, name):
  return t.k == 'call' and util.callee_name(t) == name


def step_algebra(ev):
  return alg.Algebra(ev, opaque=lambda t: t.k == 'call' and util.callee_name(t) in ('explicit_terms', 'implicit_terms', 'implicit_inverse'))


def solves(term):
  return [x for x in sym.walk(term) if is_term_call(x, 'implicit_inverse')]


def decompose(A, expr):
  """{atom term or '1': coefficient} of an affine combination of opaque atoms."""
  e = sp.expand(A.conv(expr))
  atoms = [s for s in e.free_symbols if s in A.rev and A.rev[s].k in ('call', 'carried', 'sym', 'sub') and s not in [x for _, x in A.named]]
  state_atoms = []
  for s in atoms:
    t = A.rev[s]
    if t.k == 'call' and util.callee_name(t) in ('explicit_terms', 'implicit_terms', 'implicit_inverse'):
      state_atoms.append(s)
  return e, state_atoms


def rule_step_shapes(chk, prog):
  rule = 'C06.3-step-shape'
  ev = sym.Evaluator(prog)

  def coeffs_of(A, X, state_syms):
    """Coefficients of F(·), G(·) atoms and of the plain state atoms in X."""
    e = sp.expand(A.conv(X))
    out = {}
    for s in e.free_symbols:
      t = A.rev.get(s)
      if t is None:
        continue
      if t.k == 'call' and util.callee_name(t) in ('explicit_terms', 'implicit_terms', 'implicit_inverse'):
        out[s] = sp.cancel(e.coeff(s, 1))
    for s in state_syms:
      out[s] = sp.cancel(e.coeff(s, 1))
    return e, out

  def kinds(A, cs):
    F = {s: c for s, c in cs.items() if A.rev[s].k == 'call' and util.callee_name(A.rev[s]) == 'explicit_terms'}
    G = {s: c for s, c in cs.items() if A.rev[s].k == 'call' and util.callee_name(A.rev[s]) == 'implicit_terms'}
    return F, G

  # --- backward/forward Euler ---------------------------------------------
  f = prog.func(f'{MOD}.backward_forward_euler')
  v, _, _ = ev.run(f)
  step, _, senv = util.inner(ev, v, f.qualname)
  A = step_algebra(ev)
  site = f'{MOD}.backward_forward_euler'
  chk.require(is_term_call(step, 'implicit_inverse'), f'{site}: step is not a single implicit solve: {sym.show(step)}')
  X, w = util.call_args(step)[:2]
  u0 = A.conv(senv[f_first_param(ev, v)])
  e, cs = coeffs_of(A, X, [u0])
  F, G = kinds(A, cs)
  wv = A.conv(w)
  chk.check(cs.get(u0) == 1 and not G and len(F) == 1 and alg.equal(sum(F.values()), wv), rule,
            f'{site}: u₁ = G⁻¹(u₀ + w·F(u₀), w) (forward/backward Euler pair, equal weights)',
            f'solve weight {wv}; explicit weight {sum(F.values()) if F else None}; G-weights {list(G.values())}', step.loc)
  chk.check(alg.equal(wv, A.conv(ev_param(ev, v, 'time_step'))), rule, f'{site}: the solve weight is the time step', str(wv), step.loc)

  # --- Crank–Nicolson RK2 -------------------------------------------------
  f = prog.func(f'{MOD}.crank_nicolson_rk2')
  v, _, _ = ev.run(f)
  step, _, senv = util.inner(ev, v, f.qualname)
  A = step_algebra(ev)
  site = f'{MOD}.crank_nicolson_rk2'
  u0 = A.conv(senv[f_first_param(ev, v)])
  ss = solves(step)
  chk.require(len(ss) == 2, f'{site}: expected 2 implicit solves, found {len(ss)}')
  dt = A.conv(ev_param(ev, v, 'time_step'))
  for i, s in enumerate(sorted(ss, key=lambda t: len(sym.show(t, maxdepth=40)))):
    X, w = util.call_args(s)[:2]
    e, cs = coeffs_of(A, X, [u0])
    F, G = kinds(A, cs)
    wv = A.conv(w)
    chk.check(len(G) == 1 and alg.equal(sum(G.values()), wv), rule, f'{site}: solve {i + 1} is Crank–Nicolson (weight of G(u₀) equals the solve weight)',
              f'G-weight {list(G.values())}, solve weight {wv}', s.loc, expected=str(wv), found=str(list(G.values())))
    chk.check(cs.get(u0) == 1, rule, f'{site}: solve {i + 1} starts from u₀ with coefficient 1', str(cs.get(u0)), s.loc)
    chk.check(alg.equal(sum(F.values()), 2 * wv), rule, f'{site}: solve {i + 1}: explicit weights sum to the full sub-step 2w (consistency)',
              f'ΣF-weights {sp.cancel(sum(F.values()))}, 2w = {2 * wv}', s.loc, expected=str(2 * wv), found=str(sp.cancel(sum(F.values()))))
    chk.check(alg.equal(wv, dt / 2), rule, f'{site}: solve {i + 1}: w = dt/2', str(wv), s.loc, 'dt/2', str(wv))
  chk.check(step in ss, rule, f'{site}: the step returns the last solve', sym.show(step)[:80], step.loc)
  last = max(ss, key=lambda t: len(sym.show(t, maxdepth=40)))
  X, w = util.call_args(last)[:2]
  e, cs = coeffs_of(A, X, [u0])
  F, G = kinds(A, cs)
  chk.check(len(F) == 2 and all(alg.equal(c, dt / 2) for c in F.values()), rule, f'{site}: Heun corrector averages F(u₀) and F(u₁) with weights dt/2',
            str(list(F.values())), last.loc, '[dt/2, dt/2]', str(list(F.values())))

  # --- semi-implicit leapfrog ----------------------------------------------
  f = prog.func(f'{MOD}.semi_implicit_leapfrog')
  v, _, _ = ev.run(f)
  step, _, senv = util.inner(ev, v, f.qualname)
  site = f'{MOD}.semi_implicit_leapfrog'
  chk.require(step.k == 'tuple' and len(step.a) == 2, f'{site}: step does not return a (current, future) pair: {sym.show(step)}')
  uparam = senv[f_first_param(ev, v)]
  prev_t, cur_t = ev.subscript(uparam, sym.const(0)), ev.subscript(uparam, sym.const(1))
  A = step_algebra(ev)
  chk.check(step.a[0] == cur_t, rule, f'{site}: the new pair starts with the old current level', sym.show(step.a[0]), step.loc)
  fut = step.a[1]
  chk.require(is_term_call(fut, 'implicit_inverse'), f'{site}: future level is not an implicit solve')
  X, w = util.call_args(fut)[:2]
  prev = A.conv(prev_t)
  e, cs = coeffs_of(A, X, [prev])
  F, G = kinds(A, cs)
  dt = A.conv(ev_param(ev, v, 'time_step'))
  wv = A.conv(w)
  okF = len(F) == 1 and util.call_args(A.rev[list(F)[0]])[0] == cur_t
  okG = len(G) == 1 and util.call_args(A.rev[list(G)[0]])[0] == prev_t
  chk.check(okF and okG, rule, f'{site}: explicit terms at the current level, implicit terms at the previous level',
            f'F args {[sym.show(util.call_args(A.rev[s])[0]) for s in F]}, G args {[sym.show(util.call_args(A.rev[s])[0]) for s in G]}', fut.loc)
  chk.check(cs.get(prev) == 1, rule, f'{site}: centred step starts from the previous level with coefficient 1', str(cs.get(prev)), fut.loc)
  chk.check(alg.equal(sum(F.values()), 2 * dt), rule, f'{site}: explicit weight is 2·dt (centred difference)', str(sum(F.values())), fut.loc, '2*dt', str(sum(F.values())))
  chk.check(alg.equal(sum(G.values()) + wv, sum(F.values())), rule, f'{site}: implicit weights (previous + future) sum to the explicit weight 2·dt',
            f'G(prev) weight {sum(G.values())}, solve weight {wv}', fut.loc, str(sum(F.values())), str(sp.cancel(sum(G.values()) + wv)))
  alpha = A.conv(ev_param(ev, v, 'alpha'))
  chk.check(alg.equal(wv, 2 * dt * alpha), rule, f'{site}: solve weight is 2·dt·alpha', str(wv), fut.loc)
  for q, pname in ((f'{MOD}.semi_implicit_leapfrog', 'alpha'), ('shallow_water.shallow_water_leapfrog_step', 'alpha'),
                   ('shallow_water.shallow_water_leapfrog_trajectory', 'alpha')):
    g = prog.func(q)
    d = default_of(ev, g, pname)
    chk.require(d is not None and d.k == 'const', f'{q}: default of {pname} is not a literal')
    chk.check(alg.to_fraction(d.a[0]) >= Fraction(1, 2), rule, f'{q}: default alpha ≥ 1/2 (implicit part not amplifying)', str(d.a[0]), (g.file, g.lineno), '≥ 0.5', str(d.a[0]))

  # --- low-storage RK + CN loop body ----------------------------------------
  f = prog.func(f'{MOD}.low_storage_runge_kutta_crank_nicolson')
  v, _, _ = ev.run(f)
  step, _, senv = util.inner(ev, v, f.qualname)
  site = f'{MOD}.low_storage_runge_kutta_crank_nicolson'
  chk.require(step.k == 'loop', f'{site}: step is not a stage loop over the state: {sym.show(step)[:120]}')
  body = step.a[2]
  lv = step.a[3]
  chk.require(is_term_call(body, 'implicit_inverse'), f'{site}: stage update is not an implicit solve')
  X, w = util.call_args(body)[:2]
  carried = [x for x in sym.walk(body) if x.k == 'carried']
  ucar = [x for x in carried if x.a[0] == step.a[0]]
  hcar = [x for x in carried if x.a[0] != step.a[0]]
  chk.require(len(ucar) == 1 and len(hcar) == 1, f'{site}: expected one carried state and one carried register, found {[x.a[0] for x in carried]}')
  A = step_algebra(ev)
  us, hs = A.conv(ucar[0]), A.conv(hcar[0])
  e, cs = coeffs_of(A, X, [us, hs])
  F, G = kinds(A, cs)
  wv = A.conv(w)
  dt = A.conv(ev_param(ev, v, 'time_step'))
  names = f.param_names()
  sub = lambda name, off: A.conv(Term('sub', ev_param(ev, v, name), lv if off == 0 else Term('bin', '+', lv, sym.const(off))))
  al0, al1, be, ga = sub(names[0], 0), sub(names[0], 1), sub(names[1], 0), sub(names[2], 0)
  chk.check(len(G) == 1 and alg.equal(sum(G.values()), wv) and util.call_args(A.rev[list(G)[0]])[0] == ucar[0], rule,
            f'{site}: stage solve is Crank–Nicolson on the carried state (weight of G(u) equals the solve weight µ)', f'G-weight {list(G.values())}, µ = {wv}', body.loc,
            str(wv), str(list(G.values())))
  chk.check(alg.equal(wv, dt * (al1 - al0) / 2), rule, f'{site}: µ = ½·dt·(α[k+1] − α[k])', str(wv), body.loc, 'dt*(α[k+1]-α[k])/2', str(wv))
  chk.check(cs.get(us) == 1, rule, f'{site}: stage starts from the carried state with coefficient 1', str(cs.get(us)), body.loc)
  chk.check(len(F) == 1 and alg.equal(sum(F.values()), ga * dt) and util.call_args(A.rev[list(F)[0]])[0] == ucar[0], rule,
            f'{site}: explicit term F(u) enters with weight γ[k]·dt', str(list(F.values())), body.loc, str(ga * dt), str(list(F.values())))
  chk.check(alg.equal(cs.get(hs), ga * dt * be), rule, f'{site}: the register of the previous stage enters with weight γ[k]·dt·β[k] (h ← F(u) + β[k]·h)',
            str(cs.get(hs)), body.loc, str(ga * dt * be), str(cs.get(hs)))
  # register initialised with 0, state with the step input
  h_init = None
  for x in sym.walk(step):
    pass
  b = loop_bounds(lv)
  chk.check(b is not None and b[0] == sym.const(0) and is_len_of(b[1]) and seq_name(b[1].a[1][0]) in names[1:3], rule,
            f'{site}: the stage loop runs over all β/γ entries', sym.show(lv.a[1]), lv.loc)

  # --- IMEX-RK stage table (unrolled on the SIL3 literals) ------------------
  rule_imex_stage_table(chk, prog)
  chk.at_least(rule, 25)


def f_first_param(ev, closure_value):
  fi, _ = ev.get_func(closure_value)
  return fi.param_names()[0]


def ev_param(ev, closure_value, name):
  fi, cenv = ev.get_func(closure_value)
  if name in cenv:
    t = cenv[name]
    return t
  raise AnalysisError(f'{fi.qualname}: enclosing parameter {name} not found')


def default_of(ev, f, pname):
  a = f.args
  pos = a.posonlyargs + a.args
  defaults = [None] * (len(pos) - len(a.defaults)) + list(a.defaults)
  for p, d in zip(pos, defaults):
    if p.arg == pname and d is not None:
      return ev.eval_module_expr(f.module, d)
  for p, d in zip(a.kwonlyargs, a.kw_defaults):
    if p.arg == pname and d is not None:
      return ev.eval_module_expr(f.module, d)
  return None


def lit(v):
  if isinstance(v, (list, tuple)):
    return Term('list', *[lit(x) for x in v])
  return sym.const(v)


# Probe tableaux for the generic driver (the shipped SIL3 tableau alone cannot tell `a_im[i-1][i]` from `a_im[i-1][-1]`, nor
# a final recombination from "return the last stage": it is ragged and stiffly accurate in both parts).  Entries are distinct
# primes over a common denominator so that any misplaced index shows up as a different number; they are *not* meant to be
# a useful scheme — the rule only compares the weights the driver applies with the entries at the documented positions.
PROBE_TABLEAUX = {
    # rectangular (zero-padded full-matrix) rows; neither part stiffly accurate
    'rectangular 3-stage probe': dict(
        a_ex=[[Fraction(2, 97), 0, 0, 0], [Fraction(3, 97), Fraction(5, 97), 0, 0], [Fraction(7, 97), Fraction(11, 97), Fraction(13, 97), 0]],
        a_im=[[Fraction(17, 97), Fraction(19, 97), 0, 0], [Fraction(23, 97), Fraction(29, 97), Fraction(31, 97), 0], [Fraction(37, 97), Fraction(41, 97), Fraction(43, 97), Fraction(47, 97)]],
        b_ex=[Fraction(53, 97), Fraction(59, 97), Fraction(61, 97), Fraction(67, 97)],
        b_im=[Fraction(71, 97), Fraction(73, 97), Fraction(79, 97), Fraction(83, 97)]),
    # ragged rows; implicit part stiffly accurate (b_im equals the last row of a_im), explicit part not
    'ragged probe, implicit part stiffly accurate': dict(
        a_ex=[[Fraction(2, 89)], [Fraction(3, 89), Fraction(5, 89)]],
        a_im=[[Fraction(7, 89), Fraction(11, 89)], [Fraction(13, 89), Fraction(17, 89), Fraction(19, 89)]],
        b_ex=[Fraction(23, 89), Fraction(29, 89), Fraction(31, 89)],
        b_im=[Fraction(13, 89), Fraction(17, 89), Fraction(19, 89)]),
    # sparse: the tendencies of stages 1 and 2 are used by the immediately following stage only and carry zero final weight (as in Heun's
    # third-order method): a driver that decides "is F(Y_i) needed later?" one row too late never evaluates them
    'sparse probe, stage used by the next stage only': dict(
        a_ex=[[Fraction(2, 83)], [0, Fraction(3, 83)], [Fraction(5, 83), 0, Fraction(7, 83)]],
        a_im=[[Fraction(17, 83), Fraction(19, 83)], [0, Fraction(23, 83), Fraction(29, 83)], [Fraction(31, 83), 0, Fraction(37, 83), Fraction(41, 83)]],
        b_ex=[Fraction(11, 83), 0, 0, Fraction(13, 83)],
        b_im=[Fraction(43, 83), 0, 0, Fraction(47, 83)]),
}


def rule_imex_stage_table(chk, prog):
  ev = sym.Evaluator(prog, sym.Options(unroll_limit=16))
  f = prog.func(f'{MOD}.imex_rk_sil3')
  v, _, _ = ev.run(f)
  step, _, senv = util.inner(ev, v, 'imex_rk_sil3')
  bound, loc = factory_call(prog, 'imex_rk_sil3', 'imex_runge_kutta')
  tab = bound['tableau']
  t = {n: util.literal_list(util.field(tab, n)) for n in ('a_ex', 'a_im', 'b_ex', 'b_im')}
  chk.require(all(x is not None for x in t.values()), f'{MOD}.imex_runge_kutta[SIL3]: tableau is not literal')
  imex_stage_table(chk, prog, ev, v, step, senv, t, f'{MOD}.imex_runge_kutta[SIL3]', loc)
  # the same comparison on probe tableaux handed to the generic driver
  g = prog.func(f'{MOD}.imex_runge_kutta')
  cls = prog.cls(f'{MOD}.ImExButcherTableau')
  for label, t in PROBE_TABLEAUX.items():
    ev2 = sym.Evaluator(prog, sym.Options(unroll_limit=16))
    tobj = Term('obj', cls.qualname, tuple((n, lit(t[n])) for n in ('a_ex', 'a_im', 'b_ex', 'b_im')), 0, cls=cls)
    v2, _, _ = ev2.run(g, bind={'tableau': tobj})
    step2, _, senv2 = util.inner(ev2, v2, 'imex_runge_kutta')
    imex_stage_table(chk, prog, ev2, v2, step2, senv2, t, f'{MOD}.imex_runge_kutta[{label}]', (g.file, g.lineno))


def imex_stage_table(chk, prog, ev, v, step, senv, t, site, loc):
  rule = 'C06.3-step-shape'
  s = len(t['b_ex'])
  if sym.contains(step, lambda x: x.k in ('loop', 'phi', 'comp', 'carried')):
    raise AnalysisError(f'{site}: the stage loop could not be unrolled on the literal tableau (unrecognised idiom): {sym.show(step)[:160]}')
  A = step_algebra(ev)
  y0t = senv[f_first_param(ev, v)]
  y0 = A.conv(y0t)
  dt = A.conv(ev_param(ev, v, 'time_step'))
  ss = solves(step)
  # stage number of a solve = 1 + max stage among the solves nested inside it
  stage = {}

  def stage_of(term):
    if term in stage:
      return stage[term]
    inner_solves = [x for x in sym.walk(util.call_args(term)[0]) if is_term_call(x, 'implicit_inverse')]
    n = 1 + max([stage_of(x) for x in inner_solves], default=0)
    stage[term] = n
    return n

  for x in ss:
    stage_of(x)
  by_stage = {}
  for x, n in stage.items():
    by_stage.setdefault(n, []).append(x)
  ok = all(len(v_) == 1 for v_ in by_stage.values()) and sorted(by_stage) == list(range(1, s))
  if not chk.check(ok, rule, f'{site}: one implicit solve per stage 1..{s - 1}', str({k: len(v_) for k, v_ in by_stage.items()}), loc):
    return
  Y = {0: y0t}
  for n in range(1, s):
    Y[n] = by_stage[n][0]

  def fg_coeffs(X):
    e = sp.expand(A.conv(X))
    cF, cG = {}, {}
    for sy in e.free_symbols:
      tt = A.rev.get(sy)
      if tt is None or tt.k != 'call':
        continue
      nm = util.callee_name(tt)
      if nm in ('explicit_terms', 'implicit_terms'):
        argt = util.call_args(tt)[0]
        j = [k for k, yt in Y.items() if yt == argt]
        if len(j) != 1:
          raise AnalysisError(f'{site}: tendency evaluated at a value that is not a stage value: {sym.show(argt)[:100]}')
        (cF if nm == 'explicit_terms' else cG)[j[0]] = sp.cancel(e.coeff(sy, 1))
    return e, cF, cG, sp.cancel(e.coeff(y0, 1))

  Fr = lambda x: sp.Rational(alg.to_fraction(x).numerator, alg.to_fraction(x).denominator)
  for i in range(1, s):
    X, w = util.call_args(Y[i])[:2]
    e, cF, cG, c0 = fg_coeffs(X)
    expF = {j: dt * Fr(t['a_ex'][i - 1][j]) for j in range(i) if Fr(t['a_ex'][i - 1][j]) != 0}
    expG = {j: dt * Fr(t['a_im'][i - 1][j]) for j in range(i) if Fr(t['a_im'][i - 1][j]) != 0}
    chk.check(cF == expF, rule, f'{site}: stage {i}: weights of F(Y_j) are dt·a_ex[{i - 1}][j]', str(cF), Y[i].loc, str(expF), str(cF))
    chk.check(cG == expG, rule, f'{site}: stage {i}: weights of G(Y_j) are dt·a_im[{i - 1}][j], j < {i}', str(cG), Y[i].loc, str(expG), str(cG))
    chk.check(alg.equal(A.conv(w), dt * Fr(t['a_im'][i - 1][i])), rule, f'{site}: stage {i}: solve weight is dt·a_im[{i - 1}][{i}] (the diagonal entry)',
              str(A.conv(w)), Y[i].loc, str(dt * Fr(t['a_im'][i - 1][i])), str(A.conv(w)))
    chk.check(c0 == 1, rule, f'{site}: stage {i} starts from y₀ with coefficient 1', str(c0), Y[i].loc)
  e, cF, cG, c0 = fg_coeffs(step)
  expF = {j: dt * Fr(t['b_ex'][j]) for j in range(s) if Fr(t['b_ex'][j]) != 0}
  expG = {j: dt * Fr(t['b_im'][j]) for j in range(s) if Fr(t['b_im'][j]) != 0}
  chk.check(cF == expF and cG == expG and c0 == 1, rule, f'{site}: final combination y₀ + dt·Σ b_ex[j]F(Y_j) + dt·Σ b_im[j]G(Y_j)',
            f'F {cF}; G {cG}; y₀ {c0}', step.loc, f'F {expF}; G {expG}; y₀ 1', f'F {cF}; G {cG}; y₀ {c0}')


# ----------------------------------------------------------------- driver
def run(chk, prog, tier):
  rule_length_guards(chk, prog)
  rule_low_storage_tableau(chk, prog, 'crank_nicolson_rk3', 3, Fraction(0))
  rule_low_storage_tableau(chk, prog, 'crank_nicolson_rk4', 4, Fraction(1, 10**10))
  rule_sil3_tableau(chk, prog)
  chk.at_least('C06.2-tableau', 30)
  rule_step_shapes(chk, prog)
  chk.assume(
      'the tree_math wrappers (wrap / unwrap / Vector) only re-package pytrees as vectors',
      'Python list/len/range/sum/any semantics (modelled for literal bounds)',
      'order conditions of Runge–Kutta methods up to order 4 (Butcher); 2N-storage form h_k = F(u_k) + β_k h_{k-1}, u_{k+1} = u_k + γ_k dt h_k (Williamson 1980)',
      'A-stability criterion: poles in the right half-plane and |R(iy)| ≤ 1 on the imaginary axis (maximum principle)',
  )
  return dict(
      explanation=(
          'Static decision of the structural clauses of C06 from the source of time_integration.py: (1) the raise-guards of '
          'low_storage_runge_kutta_crank_nicolson and ImExButcherTableau.__post_init__ are folded over every pattern of sequence lengths 1..6 and must '
          'accept exactly the sets whose lengths equal the index ranges used by the stage loops (derived from the subscripts in step_fn); (2) the literal '
          'tableaux reached through the factory calls are folded to exact rationals and must satisfy the order conditions of the claimed order, the '
          'stage-time / monotonicity conditions of the Crank–Nicolson sub-steps and, for SIL3, the coupling conditions and A-stability of the implicit part; '
          '(3) each step function is abstractly interpreted over opaque F, G, G⁻¹ and the scalar weights of every implicit solve are compared as normal '
          'forms (θ=½ symmetry, consistency sums, leapfrog 2dt split, low-storage register update, IMEX-RK stage table on the SIL3 literals). '
          'Not decided: the full Taylor-order claim for arbitrary nonlinear F and the numerical amplification factors.'),
      trusted_base=['python ast', 'sympy (canonicalisation of rational expressions, exact linear algebra on the 4x4 tableau)'],
      analysed=dict(module='dinosaur/time_integration.py', functions=[
          'backward_forward_euler', 'crank_nicolson_rk2', 'semi_implicit_leapfrog', 'low_storage_runge_kutta_crank_nicolson',
          'crank_nicolson_rk3', 'crank_nicolson_rk4', 'ImExButcherTableau.__post_init__', 'imex_runge_kutta', 'imex_rk_sil3']),
  )
