"""C13 — vertical (sigma) calculus: validation, measures, dispatch, boundary fluxes, geopotential weights."""
from __future__ import annotations

import itertools

import sympy as sp

from sa import alg, guards, match, sym, util
from sa.model import AnalysisError
from sa.sym import Term
from rules import common

SC = 'sigma_coordinates'
JU = 'jax_numpy_utils'
PE = 'primitive_equations'

CLAIM = dict(
    text=('Decides the structural clauses of C13: SigmaCoordinates rejects level sets whose end points are not (0, 1) or that are not strictly increasing (guard '
          'folded over all truth patterns; strictness read from the comparison); the derived level quantities are the documented differences/means; every '
          'cumulative / total sigma integral multiplies by the layer thickness along the summed axis before summing, the log-sigma integral uses the '
          'trapezoid integrand [(x[k+1]+x[k])/2 …, x_last] with Δlog σ(append 0), centred differences divide by centre-to-centre distances; cumsum and '
          'reverse_cumsum accept the same methods, select direction consistently and the matmul form contracts with the ≤ / ≥ triangular mask; centred and '
          'upwind advection pad w and ∂x/∂σ with zeros top-then-bottom and average with −½; sigma ratios, the dense geopotential weights and the '
          'cumulative-sum form agree with α_j = ½Δlog σ, α_last = −log σ_last, G[j,j]=α_j, G[j,k>j]=α_k+α_{k−1}, scaled by R. Also decided: coordinate arrays (boundaries, centers, thickness) are never updated in place (may-alias analysis shared with C01.7). Does not decide the '
          'telescoping / summation-by-parts identities or exactness on affine data numerically.'
          ' Later additions: C13.6 coordinate arrays never updated in place.'),
    note=('Trusted: numpy/jax semantics of diff(append=), concatenate, cumsum, flip, einsum with interleaved axes, lax.slice_in_dim. Recognised idioms are '
          'listed in rules/c13.py; an unrecognised spelling at an anchored site is reported as ANALYSIS-ERROR, not as a verdict.'),
    technique='abstract interpretation to terms + structural / normal-form matching of measures and index patterns + guard folding over truth patterns',
)

SIGMA_PROPS = {f'{SC}.SigmaCoordinates.{p}' for p in ('layer_thickness', 'centers', 'center_to_center', 'layers', 'internal_boundaries')}


def S(n):
  return Term('sym', n)


def evaluator(prog, extra=()):
  return sym.Evaluator(prog, sym.Options(opaque=SIGMA_PROPS | set(extra)))


# ------------------------------------------------------------- validation
def monotone_atom(t):
  """Recognises a strict/non-strict increasing test.  Returns (polarity, strict) or None.

  polarity True: the term is true when the sequence IS increasing."""
  def inner_cmp(x):
    x = util.strip(x)
    if x.k == 'cmp' and len(x.a[0]) == 1:
      op = x.a[0][0]
      l, r = x.a[1]
      if match.is_ext_call(l, 'diff') and r.k == 'const' and r.a[0] == 0:
        return op
      if match.is_ext_call(r, 'diff') and l.k == 'const' and l.a[0] == 0:
        return {'<': '>', '>': '<', '<=': '>=', '>=': '<='}.get(op)
    return None
  agg = None
  arg = None
  if t.k == 'call' and t.a[0].k == 'ext' and t.a[0].a[0] in ('all', 'any', 'numpy.all', 'numpy.any') and len(t.a[1]) == 1:
    agg, arg = t.a[0].a[0].split('.')[-1], t.a[1][0]
  elif t.k == 'call' and t.a[0].k == 'attr' and t.a[0].a[1] in ('all', 'any') and not t.a[1]:
    agg, arg = t.a[0].a[1], t.a[0].a[0]
  if agg is None:
    return None
  op = inner_cmp(arg)
  if op is None:
    return None
  if agg == 'all' and op in ('>', '>='):
    return True, op == '>'
  if agg == 'any' and op in ('<=', '<'):
    return False, op == '<='
  return None


def isclose_atom(t):
  if match.is_ext_call(t, 'isclose', 'allclose') and len(t.a[1]) >= 2:
    return t.a[1][0], t.a[1][1]
  if t.k == 'cmp' and t.a[0] == ('==',):
    return t.a[1][0], t.a[1][1]
  return None


def rule_validation(chk, prog):
  rule = 'C13.1-level-validation'
  c = prog.cls(f'{SC}.SigmaCoordinates')
  init = c.find_method('__init__')
  chk.require(init is not None and init.cls is c, 'SigmaCoordinates.__init__ not found')
  ev = sym.Evaluator(prog)
  v, ctx, env = ev.run(init)
  site = f'{SC}.SigmaCoordinates.__init__'
  loc = (init.file, init.lineno)
  if not chk.check(bool(ctx.raises), rule, f'{site}: validates its boundaries', 'no raise statement', loc):
    return
  cond = Term('bool', 'or', tuple(guards.path_cond(p) for p, e, l in ctx.raises)) if len(ctx.raises) > 1 else guards.path_cond(ctx.raises[0][0])
  bparam = init.param_names()[1]
  def is_b(t):
    t = util.strip(t)
    return t == S(bparam) or (t.k == 'attr' and t.a[1] == 'boundaries')
  first = last = None
  mono = None
  atoms = []
  for t in sym.walk(cond):
    ic = isclose_atom(t)
    if ic is not None:
      x, val = ic
      if x.k == 'sub' and is_b(x.a[0]) and x.a[1].k == 'const' and val.k == 'const':
        if x.a[1].a[0] == 0 and val.a[0] == 0:
          first = t
          atoms.append(t)
        elif x.a[1].a[0] == -1 and val.a[0] == 1:
          last = t
          atoms.append(t)
        else:
          chk.violation(rule, f'{site}: end-point test {sym.show(t)}', 'compares the wrong boundary with the wrong value', t.loc or loc, 'boundaries[0]≈0 / boundaries[-1]≈1', sym.show(t))
    m = monotone_atom(t)
    if m is not None and mono is None:
      mono = (t, m)
      atoms.append(t)
  chk.check(first is not None and last is not None, rule, f'{site}: tests boundaries[0] ≈ 0 and boundaries[-1] ≈ 1',
            f'first: {sym.show(first) if first is not None else None}; last: {sym.show(last) if last is not None else None}', loc)
  if not chk.check(mono is not None, rule, f'{site}: tests monotonicity of the boundaries with a recognised idiom', 'no all(diff(b) > 0)-like test found', loc):
    return
  mt, (pol, strict) = mono
  chk.check(strict, rule, f'{site}: monotonicity is strict (zero-thickness layers are rejected)', sym.show(mt), mt.loc or loc, 'diff(boundaries) > 0 for all', sym.show(mt))
  if first is None or last is None:
    return
  # fold: raise ⇔ ¬(first ∧ last ∧ increasing)
  bad = None
  for combo in itertools.product((False, True), repeat=3):
    env_ = {first: combo[0], last: combo[1], mt: combo[2] if pol else not combo[2]}
    def val(x, env_=env_):
      if x in env_:
        return env_[x]
      raise KeyError(x)
    try:
      raised = bool(guards.fold(cond, val))
    except guards.Inconclusive as e:
      raise AnalysisError(f'{site}: guard idiom not recognised: {e}')
    want = not all(combo)
    if raised != want and bad is None:
      bad = (combo, raised)
  chk.check(bad is None, rule, f'{site}: raises exactly when an end point is wrong or the boundaries are not increasing',
            '8 truth patterns of (first≈0, last≈1, increasing) folded' if bad is None else f'pattern (first, last, increasing) = {bad[0]} → raised = {bad[1]}',
            loc, 'raise ⇔ ¬(first ∧ last ∧ increasing)', sym.show(cond)[:240])
  chk.at_least(rule, 5)


def rule_level_quantities(chk, prog):
  rule = 'C13.1b-level-quantities'
  ev = sym.Evaluator(prog)
  c = prog.cls(f'{SC}.SigmaCoordinates')
  A = alg.Algebra(ev, opaque=lambda t: t.k == 'sub' and t.a[0].k == 'attr' and t.a[0].a[1] == 'boundaries')
  def prop(name):
    f = c.find_method(name)
    chk.require(f is not None, f'SigmaCoordinates.{name} not found')
    v, _, _ = ev.run(f)
    return f, v
  b = lambda s_: Term('sub', Term('attr', Term('sym', 'self:SigmaCoordinates', cls=c), 'boundaries'), s_)
  sl = lambda lo, hi: Term('slice', sym.const(lo) if lo is not None else sym.NONE, sym.const(hi) if hi is not None else sym.NONE, sym.NONE)
  f, v = prop('centers')
  want = (A.conv(b(sl(1, None))) + A.conv(b(sl(None, -1)))) / 2
  chk.check(alg.equal(A.conv(v), want), rule, 'SigmaCoordinates.centers = (boundaries[1:] + boundaries[:-1]) / 2', sym.show(v), (f.file, f.lineno), '(b[1:]+b[:-1])/2', sym.show(v))
  f, v = prop('layer_thickness')
  ok = match.is_ext_call(v, 'diff') and len(v.a[1]) == 1 and not v.a[2] and util.strip(v.a[1][0]).k == 'attr' and util.strip(v.a[1][0]).a[1] == 'boundaries'
  chk.check(ok, rule, 'SigmaCoordinates.layer_thickness = diff(boundaries)', sym.show(v), (f.file, f.lineno), 'np.diff(self.boundaries)', sym.show(v))
  ev2 = sym.Evaluator(prog, sym.Options(opaque={f'{SC}.SigmaCoordinates.centers'}))
  f2 = c.find_method('center_to_center')
  v2, _, _ = ev2.run(f2)
  ok = match.is_ext_call(v2, 'diff') and len(v2.a[1]) == 1 and not v2.a[2] and match.attr_of(v2.a[1][0], 'centers')
  chk.check(ok, rule, 'SigmaCoordinates.center_to_center = diff(centers)', sym.show(v2), (f2.file, f2.lineno), 'np.diff(self.centers)', sym.show(v2))
  f, v = prop('layers')
  ok = v.k == 'bin' and v.a[0] == '-' and v.a[2] == sym.const(1) and v.a[1].k == 'call' and v.a[1].a[0] == Term('ext', 'len') and match.attr_of(v.a[1].a[1][0], 'boundaries')
  chk.check(ok, rule, 'SigmaCoordinates.layers = len(boundaries) − 1', sym.show(v), (f.file, f.lineno), 'len(self.boundaries) - 1', sym.show(v))
  chk.at_least(rule, 4)


# -------------------------------------------------------------- integrals
def scaled_along_axis(t, data, weight_pred):
  """t == data scaled by a 1-D weight along `axis` (interleaved einsum or broadcast product)."""
  fs = match.factors(t)
  datas = [f for f in fs if not isinstance(f, tuple)]
  ws = [f for f in fs if isinstance(f, tuple)]
  if datas == [data] and len(ws) == 1 and weight_pred(ws[0][2]):
    wa = ws[0][1]
    # weight axes must be [x_axes[axis]]
    ok_axes = wa.k == 'list' and len(wa.a) == 1 and wa.a[0].k == 'sub' and wa.a[0].a[1] == S('axis')
    return ok_axes, 'einsum'
  return False, None


def cumsum_info(t):
  """(kind, operand, axis) for jax_numpy_utils.cumsum / reverse_cumsum calls."""
  if t.k == 'call' and t.a[0].k == 'func' and t.a[0].a[0] in (f'dinosaur.{JU}.cumsum', f'dinosaur.{JU}.reverse_cumsum'):
    args = list(t.a[1])
    kw = util.call_kwargs(t)
    x = args[0] if args else kw.get('x')
    axis = args[1] if len(args) > 1 else kw.get('axis')
    return t.a[0].a[0].rsplit('.', 1)[-1], x, axis, kw
  return None


def direction_phi(v, site, chk, rule, loc):
  """Checks φ(downward ? cumsum(E) : reverse_cumsum(E)); returns E or None."""
  if not (v.k == 'phi' and v.a[0] == S('downward')):
    chk.violation(rule, f'{site}: direction dispatch', 'does not select the summation direction from `downward`', loc, 'φ(downward ? cumsum : reverse_cumsum)', sym.show(v)[:160])
    return None
  a, b = cumsum_info(v.a[1]), cumsum_info(v.a[2])
  ok = a is not None and b is not None and a[0] == 'cumsum' and b[0] == 'reverse_cumsum' and a[1] == b[1] and a[2] == b[2] == S('axis')
  chk.check(ok, rule, f'{site}: downward ⇒ cumsum, otherwise reverse_cumsum, over the same integrand and axis', sym.show(v)[:200], loc,
            'φ(downward ? cumsum(E, axis) : reverse_cumsum(E, axis))', sym.show(v)[:200])
  if ok:
    kwa, kwb = a[3], b[3]
    chk.check(kwa.get('method') == kwb.get('method') == S('cumsum_method'), rule, f'{site}: both directions use the requested cumsum method',
              f"{sym.show(kwa.get('method')) if kwa.get('method') is not None else None} / {sym.show(kwb.get('method')) if kwb.get('method') is not None else None}", loc)
    return a[1]
  return None


def rule_integrals(chk, prog):
  rule = 'C13.2-measure'
  ev = evaluator(prog)
  thick = lambda t: match.attr_of(t, 'layer_thickness')
  # cumulative_sigma_integral
  f = prog.func(f'{SC}.cumulative_sigma_integral')
  v, ctx, env = ev.run(f)
  site, loc = f'{SC}.cumulative_sigma_integral', (f.file, f.lineno)
  E = direction_phi(v, site, chk, 'C13.3-direction', loc)
  if E is not None:
    ok, how = scaled_along_axis(E, S('x'), thick)
    chk.check(ok, rule, f'{site}: the summed integrand is x · layer_thickness along `axis` (midpoint rule)', sym.show(E)[:200], E.loc or loc,
              'x scaled by coordinates.layer_thickness along axis', sym.show(E)[:200])
  # sigma_integral
  f = prog.func(f'{SC}.sigma_integral')
  v, ctx, env = ev.run(f)
  site, loc = f'{SC}.sigma_integral', (f.file, f.lineno)
  base = match.method_call(v, 'sum')
  ok = base is not None and util.call_kwargs(v).get('axis') == S('axis')
  if chk.check(ok, rule, f'{site}: total integral is a sum along `axis`', sym.show(v)[:160], loc, '(x·Δσ).sum(axis=axis)', sym.show(v)[:160]):
    ok2, how = scaled_along_axis(base, S('x'), thick)
    chk.check(ok2, rule, f'{site}: the summed integrand is x · layer_thickness along `axis`', sym.show(base)[:200], base.loc or loc, 'x scaled by layer_thickness', sym.show(base)[:200])
  # cumulative_log_sigma_integral
  f = prog.func(f'{SC}.cumulative_log_sigma_integral')
  v, ctx, env = ev.run(f)
  site, loc = f'{SC}.cumulative_log_sigma_integral', (f.file, f.lineno)
  E = direction_phi(v, site, chk, 'C13.3-direction', loc)
  if E is not None:
    fs = match.factors(E)
    datas = [x for x in fs if not isinstance(x, tuple)]
    ws = [x for x in fs if isinstance(x, tuple)]
    ok = len(datas) == 1 and len(ws) == 1
    if chk.check(ok, rule, f'{site}: integrand scaled by one 1-D weight along `axis`', sym.show(E)[:160], loc):
      w = ws[0][2]
      okw = (match.is_ext_call(w, 'diff') and len(w.a[1]) == 1 and util.call_kwargs(w).get('append') == sym.const(0) and match.is_ext_call(w.a[1][0], 'log')
             and match.attr_of(w.a[1][0].a[1][0], 'centers'))
      chk.check(okw, rule, f'{site}: the weight is Δ log σ of the layer centres with 0 appended (last interval ends at σ = 1)', sym.show(w), w.loc or loc,
                'diff(log(centers), append=0)', sym.show(w))
      cp = match.concat_parts(datas[0])
      okc = cp is not None and len(cp[0]) == 2 and cp[1] == S('axis')
      if chk.check(okc, rule, f'{site}: integrand = concatenate([interpolated, last], axis)', sym.show(datas[0])[:200], loc):
        interp, lastp = cp[0]
        sl = match.slice_in_dim(lastp)
        chk.check(sl is not None and sl[0] == S('x') and sl[1] == sym.const(-1) and sl[2] == sym.NONE and sl[3] == S('axis'), rule,
                  f'{site}: the last entry of the integrand is the bare surface-most value x[-1:]', sym.show(lastp), loc, 'slice_in_dim(x, -1, None, axis)', sym.show(lastp))
        A = alg.Algebra(ev, opaque=lambda t: match.slice_in_dim(t) is not None)
        up = Term('call', Term('ext', 'jax.lax.slice_in_dim'), (S('x'), sym.const(1), sym.NONE), (('axis', S('axis')),))
        lo = Term('call', Term('ext', 'jax.lax.slice_in_dim'), (S('x'), sym.const(0), sym.const(-1)), (('axis', S('axis')),))
        chk.check(alg.equal(A.conv(interp), (A.conv(up) + A.conv(lo)) / 2), rule, f'{site}: interior integrand is the trapezoid mean (x[k+1] + x[k]) / 2',
                  sym.show(interp)[:200], loc, '(x[1:] + x[:-1]) / 2', sym.show(interp)[:200])
  # centered_difference
  f = prog.func(f'{SC}.centered_difference')
  v, ctx, env = ev.run(f)
  site, loc = f'{SC}.centered_difference', (f.file, f.lineno)
  fs = match.factors(v)
  datas = [x for x in fs if not isinstance(x, tuple)]
  ws = [x for x in fs if isinstance(x, tuple)]
  ok = len(datas) == 1 and len(ws) == 1 and datas[0].k == 'call' and util.callee_qual(datas[0]).endswith(f'{JU}.diff') and datas[0].a[1][0] == S('x')
  if chk.check(ok, rule, f'{site}: difference of neighbouring layers scaled by one weight', sym.show(v)[:200], loc):
    kw = util.call_kwargs(datas[0])
    ax = kw.get('axis', datas[0].a[1][1] if len(datas[0].a[1]) > 1 else None)
    chk.check(ax == S('axis'), rule, f'{site}: differences are taken along `axis`', sym.show(ax) if ax is not None else 'default', loc)
    w = ws[0][2]
    okw = w.k == 'bin' and w.a[0] == '/' and w.a[1] == sym.const(1) and match.attr_of(w.a[2], 'center_to_center')
    chk.check(okw, rule, f'{site}: divides by the centre-to-centre distance (not the layer thickness)', sym.show(w), w.loc or loc, '1 / coordinates.center_to_center', sym.show(w))
  chk.at_least(rule, 11)
  chk.at_least('C13.3-direction', 4)


# ---------------------------------------------------- cumsum dispatch / dot
def rule_cumsum_dispatch(chk, prog):
  rule = 'C13.3-direction'
  ev = sym.Evaluator(prog, sym.Options(opaque={f'{JU}._dot_cumsum'}, std_opaque=False))
  out = {}
  for name in ('cumsum', 'reverse_cumsum'):
    f = prog.func(f'{JU}.{name}')
    v, ctx, env = ev.run(f)
    out[name] = (f, v, ctx)
  def methods(v):
    """{method literal: arm term}"""
    res = {}
    t = v
    while t.k == 'phi':
      c = t.a[0]
      if c.k == 'cmp' and c.a[0] == ('==',) and c.a[1][0] == S('method') and c.a[1][1].k == 'const':
        res[c.a[1][1].a[0]] = t.a[1]
        t = t.a[2]
      else:
        return None
    return res, t
  ms = {}
  for name, (f, v, ctx) in out.items():
    m = methods(v)
    # the last arm is reached under ¬(method == last literal); recover it from the raise path
    site = f'{JU}.{name}'
    loc = (f.file, f.lineno)
    if m is None:
      raise AnalysisError(f'{site}: method dispatch idiom not recognised: {sym.show(v)[:160]}')
    res, tail = m
    lits = set(res)
    # literals compared on the raising path
    for p, e, l in ctx.raises:
      for c in p:
        for t in sym.walk(c):
          if t.k == 'cmp' and t.a[0] == ('==',) and t.a[1][0] == S('method') and t.a[1][1].k == 'const':
            lits.add(t.a[1][1].a[0])
    if len(lits) > len(res):
      missing = [x for x in lits if x not in res]
      if len(missing) == 1:
        res[missing[0]] = tail
    ms[name] = res
    chk.check(bool(ctx.raises), rule, f'{site}: an unknown method raises', 'no raise' if not ctx.raises else 'raises ValueError', loc)
  chk.check(set(ms['cumsum']) == set(ms['reverse_cumsum']) and len(ms['cumsum']) >= 2, rule, f'{JU}.cumsum / reverse_cumsum accept the same method set',
            f"{sorted(ms['cumsum'])} vs {sorted(ms['reverse_cumsum'])}", (out['cumsum'][0].file, out['cumsum'][0].lineno))
  for name in ('cumsum', 'reverse_cumsum'):
    f = out[name][0]
    loc = (f.file, f.lineno)
    dot = ms[name].get('dot')
    if dot is not None:
      kw = util.call_kwargs(dot) if dot.k == 'call' else {}
      b = ev.bind_args(prog.func(f'{JU}._dot_cumsum'), list(dot.a[1]), list(dot.a[2]), None, None) if dot.k == 'call' and util.callee_qual(dot).endswith('_dot_cumsum') else None
      ok = b is not None and b['x'] == S('x') and b['axis'] == S('axis') and b['sharding'] == S('sharding')
      rev = b is not None and b['reverse'] == sym.TRUE
      chk.check(ok and rev == (name == 'reverse_cumsum'), rule, f'{JU}.{name}: method dot → _dot_cumsum(x, axis, sharding) with reverse={name == "reverse_cumsum"}', sym.show(dot), loc,
                f'reverse={name == "reverse_cumsum"}', sym.show(dot))
    jx = ms[name].get('jax')
    if jx is not None:
      cs = lambda t, x: match.is_ext_call(t, 'cumsum') and list(t.a[1])[:1] == [x] and (list(t.a[1])[1:2] == [S('axis')] or util.call_kwargs(t).get('axis') == S('axis'))
      fl = lambda t: match.is_ext_call(t, 'flip') and (list(t.a[1])[1:2] == [S('axis')] or util.call_kwargs(t).get('axis') == S('axis'))
      if name == 'cumsum':
        ok = cs(jx, S('x'))
        want = 'jnp.cumsum(x, axis)'
      else:
        ok = fl(jx) and match.is_ext_call(jx.a[1][0], 'cumsum') and fl(jx.a[1][0].a[1][0]) and jx.a[1][0].a[1][0].a[1][0] == S('x') and cs(jx.a[1][0], jx.a[1][0].a[1][0])
        want = 'flip(cumsum(flip(x, axis), axis), axis)'
      chk.check(ok, rule, f'{JU}.{name}: method jax → {want}', sym.show(jx), loc, want, sym.show(jx))
  # _dot_cumsum → _single_device_dot_cumsum(x, axis, reverse=reverse) on the unsharded path
  ev2 = sym.Evaluator(prog, sym.Options(opaque={f'{JU}._single_device_dot_cumsum', f'{JU}._parallel_dot_cumsum'}, std_opaque=False))
  f = prog.func(f'{JU}._dot_cumsum')
  v, ctx, env = ev2.run(f)
  singles = [t for t in sym.walk(v) if t.k == 'call' and util.callee_qual(t).endswith('_single_device_dot_cumsum')]
  ok = bool(singles)
  for s_ in singles:
    b = ev2.bind_args(prog.func(f'{JU}._single_device_dot_cumsum'), list(s_.a[1]), list(s_.a[2]), None, None)
    ok = ok and b is not None and b['x'] == S('x') and b['axis'] == S('axis') and b['reverse'] == S('reverse')
  chk.check(ok, rule, f'{JU}._dot_cumsum: the unsharded path forwards x, axis and reverse', sym.show(singles[0]) if singles else 'no call', (f.file, f.lineno))
  # triangular mask of the matmul form
  ev3 = sym.Evaluator(prog, sym.Options(std_opaque=False))
  f = prog.func(f'{JU}._single_device_dot_cumsum')
  v, ctx, env = ev3.run(f)
  site, loc = f'{JU}._single_device_dot_cumsum', (f.file, f.lineno)
  ep = match.einsum_parts(v)
  ok = ep is not None and ep[0] == 'interleaved' and len(ep[1]) == 2
  if not chk.check(ok, 'C13.3b-dot-cumsum', f'{site}: is a two-operand einsum with explicit axes', sym.show(v)[:200], loc):
    return
  (w, wa), (x, xa) = ep[1]
  outa = ep[2]
  if x != S('x'):
    (x, xa), (w, wa) = ep[1]
  # axes: w:[axis, ndim]  x: range(ndim)  out: range(ndim) with [axis] = ndim
  naxis = [t for t in sym.walk(wa) if True][0]
  okax = (wa.k == 'list' and len(wa.a) == 2 and wa.a[1] == Term('attr', S('x'), 'ndim')
          and outa is not None and outa.k == 'store' and outa.a[1] == wa.a[0] and outa.a[2] == wa.a[1])
  chk.check(okax, 'C13.3b-dot-cumsum', f'{site}: contracts the first mask index with x along `axis`; the second mask index replaces it in the output',
            f'mask axes {sym.show(wa)}, out {sym.show(outa) if outa is not None else None}', loc, 'w[axis, new], out[axis] = new', sym.show(wa))
  # mask = op(i, j) with i = arange[:, None] (contracted), j = arange[None, :] (output)
  wt = w
  if match.method_call(wt, 'astype') is not None:
    wt = match.method_call(wt, 'astype')
  def op_args(t):
    if t.k == 'call' and alg.ext_short(t.a[0]) in ('less_equal', 'greater_equal', 'less', 'greater') and len(t.a[1]) == 2:
      return alg.ext_short(t.a[0]), t.a[1]
    if t.k == 'cmp' and len(t.a[0]) == 1:
      return {'<=': 'less_equal', '>=': 'greater_equal', '<': 'less', '>': 'greater'}.get(t.a[0][0]), t.a[1]
    return None, None
  def orient(t):
    """'col' for arange[:, None], 'row' for arange[None, :]"""
    if t.k == 'sub' and t.a[1].k == 'tuple' and len(t.a[1].a) == 2 and match.is_ext_call(t.a[0], 'arange'):
      a0, a1 = t.a[1].a
      full = lambda z: z.k == 'slice' and all(y == sym.NONE for y in z.a)
      new = lambda z: (z.k == 'ext' and z.a[0].endswith('newaxis')) or z == sym.NONE
      if full(a0) and new(a1):
        return 'col'
      if new(a0) and full(a1):
        return 'row'
    return None
  if wt.k == 'phi' and wt.a[0] == S('reverse'):
    arms = {True: wt.a[1], False: wt.a[2]}
  elif wt.k == 'call' and wt.a[0].k == 'phi' and wt.a[0].a[0] == S('reverse'):
    arms = {True: Term('call', wt.a[0].a[1], wt.a[1], wt.a[2]), False: Term('call', wt.a[0].a[2], wt.a[1], wt.a[2])}
  else:
    arms = None
  if not chk.check(arms is not None, 'C13.3b-dot-cumsum', f'{site}: the triangular mask depends on `reverse`', sym.show(wt)[:160], loc):
    return
  for rev, arm in arms.items():
    if match.method_call(arm, 'astype') is not None:
      arm = match.method_call(arm, 'astype')
    op, args = op_args(arm)
    o = [orient(a_) for a_ in args] if args is not None else [None, None]
    # mask[i, j] must be (i ≤ j) forward, (i ≥ j) reverse, with i the contracted (first) index
    if o == ['row', 'col'] and op is not None:
      op = {'less_equal': 'greater_equal', 'greater_equal': 'less_equal', 'less': 'greater', 'greater': 'less'}[op]
      o = ['col', 'row']
    want = 'greater_equal' if rev else 'less_equal'
    chk.check(o == ['col', 'row'] and op == want, 'C13.3b-dot-cumsum',
              f'{site}: reverse={rev}: mask[i, j] = (i {"≥" if rev else "≤"} j) — inclusive prefix sum over the contracted index', sym.show(arm)[:160], loc,
              f'{want}(i[:, None], j[None, :])', sym.show(arm)[:160])
  chk.at_least('C13.3b-dot-cumsum', 4)


# ---------------------------------------------------------------- advection
def zeros_like_slice(t, of):
  """jnp.zeros(shape of `of` with size 1 along axis)"""
  if not match.is_ext_call(t, 'zeros'):
    return False
  shp = t.a[1][0] if t.a[1] else util.call_kwargs(t).get('shape')
  if shp is None:
    return False
  return sym.contains(shp, lambda z: z == Term('attr', S(of), 'shape')) and sym.contains(shp, lambda z: z.k == 'store' and z.a[1] == S('axis') and z.a[2] == sym.const(1))


def rule_advection(chk, prog, rule='C13.4-boundary-fluxes', centred_only=False):
  ev = evaluator(prog, extra={f'{SC}.centered_difference'})
  f = prog.func(f'{SC}.centered_vertical_advection')
  v, ctx, env = ev.run(f)
  site, loc = f'{SC}.centered_vertical_advection', (f.file, f.lineno)
  sl = [t for t in sym.walk(v) if match.slice_in_dim(t) is not None]
  A = alg.Algebra(ev, opaque=lambda t: match.slice_in_dim(t) is not None)
  e = sp.expand(A.conv(v))
  syms_ = [A.atom(t) for t in sl]
  res = alg.linear_coeffs(e, syms_) if sl else None
  ok = res is not None and res[1] == 0 and len(sl) == 2 and all(c == sp.Rational(-1, 2) for c in res[0])
  if not chk.check(ok, rule, f'{site}: result = −½·(flux[1:] + flux[:-1]) (average of the two neighbouring interface products)', sym.show(v)[:160], loc,
                   '-0.5*(slice(p,1,None) + slice(p,0,-1))', str(e)[:200]):
    return
  infos = [match.slice_in_dim(t) for t in sl]
  prods = {i[0] for i in infos}
  bounds = sorted([(sym.show(i[1]), sym.show(i[2])) for i in infos])
  chk.check(len(prods) == 1 and bounds == [('0', '-1'), ('1', 'None')] and all(i[3] == S('axis') for i in infos), rule,
            f'{site}: both slices are taken from the same padded product along `axis`', str(bounds), loc)
  prod = list(prods)[0]
  fs = match.plain_factors(prod)
  if not chk.check(len(fs) == 2, rule, f'{site}: the interface flux is w · ∂x/∂σ', sym.show(prod)[:160], loc):
    return
  def padded(t, inner_pred, default_of, what):
    cp = match.concat_parts(t)
    ok = cp is not None and len(cp[0]) == 3 and cp[1] == S('axis') and inner_pred(cp[0][1])
    if not chk.check(ok, rule, f'{site}: {what} is concatenated [top, interior, bottom] along `axis`', sym.show(t)[:200], loc):
      return
    for pos, part in ((0, cp[0][0]), (1, cp[0][2])):
      good = part.k == 'phi' and zeros_like_slice(part.a[1], default_of) and part.a[2].k == 'sub' and part.a[2].a[1] == sym.const(pos)
      chk.check(good, rule, f'{site}: default {"top" if pos == 0 else "bottom"} boundary value of {what} is zero (given values are used in top, bottom order)',
                sym.show(part)[:200], loc, f'zeros(slice shape) | boundary_values[{pos}]', sym.show(part)[:200])
  wcat = [t for t in fs if sym.contains(t, lambda z: z == S('w'))]
  xcat = [t for t in fs if sym.contains(t, lambda z: z.k == 'call' and util.callee_name(z) == 'centered_difference')]
  if chk.check(len(wcat) == 1 and len(xcat) == 1 and wcat[0] is not xcat[0], rule, f'{site}: one factor is the padded velocity, the other the padded centred difference', '', loc):
    padded(wcat[0], lambda t: t == S('w'), 'w', 'w')
    cd = lambda t: t.k == 'call' and util.callee_name(t) == 'centered_difference' and list(t.a[1])[:3] == [S('x'), S('coordinates'), S('axis')]
    padded(xcat[0], cd, 'x', '∂x/∂σ')
  if centred_only:
    chk.at_least(rule, 5)
    return
  # upwind
  f = prog.func(f'{SC}.upwind_vertical_advection')
  v, ctx, env = ev.run(f)
  site, loc = f'{SC}.upwind_vertical_advection', (f.file, f.lineno)
  def side(t):
    """classify concat([zeros, X]) → ('up', X) / concat([X, zeros]) → ('down', X)"""
    cp = match.concat_parts(t)
    if cp is None or len(cp[0]) != 2 or cp[1] != S('axis'):
      return None
    a, b = cp[0]
    if match.is_ext_call(a, 'zeros') and not match.is_ext_call(b, 'zeros'):
      return 'up', b
    if match.is_ext_call(b, 'zeros') and not match.is_ext_call(a, 'zeros'):
      return 'down', a
    return None
  ok = v.k == 'un' and v.a[0] == '-' and v.a[1].k == 'bin' and v.a[1].a[0] == '+'
  if chk.check(ok, rule, f'{site}: result = −(max(w↑,0)·∂x↑ + min(w↓,0)·∂x↓)', sym.show(v)[:200], loc):
    terms = [v.a[1].a[1], v.a[1].a[2]]
    seen = {}
    for tm in terms:
      fs = match.plain_factors(tm)
      lim = [t for t in fs if match.is_ext_call(t, 'maximum', 'minimum')]
      oth = [t for t in fs if t not in lim]
      if len(lim) != 1 or len(oth) != 1:
        continue
      which = alg.ext_short(lim[0].a[0])
      sw, sx = side(lim[0].a[1][0]), side(oth[0])
      zero = lim[0].a[1][1] == sym.const(0)
      if sw and sx and zero:
        seen[which] = (sw[0], sw[1], sx[0], sx[1])
    okm = seen.get('maximum', (None,))[0] == 'up' and seen.get('maximum')[2] == 'up' and seen['maximum'][1] == S('w')
    okn = seen.get('minimum', (None,))[0] == 'down' and seen.get('minimum')[2] == 'down' and seen['minimum'][1] == S('w')
    chk.check(bool(okm) and bool(okn), rule, f'{site}: downward velocity (w>0) uses the upper difference, upward (w<0) the lower one, zero flux through top and bottom',
              str({k: (v_[0], v_[2]) for k, v_ in seen.items()}), loc, "{'maximum': ('up','up'), 'minimum': ('down','down')}", str({k: (v_[0], v_[2]) for k, v_ in seen.items()}))
  chk.at_least(rule, 9)


# ------------------------------------------------------------ geopotential
def rule_geopotential(chk, prog):
  rule = 'C13.5-geopotential-weights'
  ev = evaluator(prog)
  f = prog.func(f'{PE}.get_sigma_ratios')
  v, ctx, env = ev.run(f)
  site, loc = f'{PE}.get_sigma_ratios', (f.file, f.lineno)
  cen = lambda t: match.attr_of(t, 'centers')
  ok = v.k == 'store' and v.a[3] == '=' and v.a[1] == sym.const(-1)
  if chk.check(ok, rule, f'{site}: α = ½·Δlog σ with the last entry overwritten', sym.show(v)[:200], loc):
    base, idx, val = v.a[0], v.a[1], v.a[2]
    okb = (base.k == 'bin' and base.a[0] == '/' and base.a[2] == sym.const(2) and match.is_ext_call(base.a[1], 'diff') and util.call_kwargs(base.a[1]).get('append') == sym.const(0)
           and match.is_ext_call(base.a[1].a[1][0], 'log') and cen(base.a[1].a[1][0].a[1][0]))
    chk.check(okb, rule, f'{site}: α_j = (log σ_(j+1) − log σ_j) / 2 on the layer centres', sym.show(base), loc, 'diff(log(centers), append=0) / 2', sym.show(base))
    okv = (val.k == 'un' and val.a[0] == '-' and match.is_ext_call(val.a[1], 'log') and val.a[1].a[1][0].k == 'sub' and cen(val.a[1].a[1][0].a[0])
           and val.a[1].a[1][0].a[1] == sym.const(-1))
    chk.check(okv, rule, f'{site}: α_last = −log σ_last', sym.show(val), loc, '-log(centers[-1])', sym.show(val))
  # dense weights
  ev2 = evaluator(prog, extra={f'{PE}.get_sigma_ratios'})
  f = prog.func(f'{PE}.get_geopotential_weights')
  v, ctx, env = ev2.run(f)
  site, loc = f'{PE}.get_geopotential_weights', (f.file, f.lineno)
  alpha_call = lambda t: t.k == 'call' and util.callee_name(t) == 'get_sigma_ratios'
  fs = match.plain_factors(v)
  Rf = [t for t in fs if t == S('ideal_gas_constant')]
  Wf = [t for t in fs if t.k == 'loop']
  if chk.check(len(Rf) == 1 and len(Wf) == 1 and len(fs) == 2, rule, f'{site}: returns ideal_gas_constant · weights', sym.show(v)[:120], loc, 'R * weights', sym.show(v)[:120]):
    stores = [t for t in sym.walk(Wf[0]) if t.k == 'store' and t.a[3] == '=']
    lvs = {}
    for t in sym.walk(Wf[0]):
      if t.k == 'loopvar':
        lvs[t.a[0]] = t
    diag = off = None
    for st in stores:
      idx, val = st.a[1], st.a[2]
      if idx.k == 'tuple' and len(idx.a) == 2 and idx.a[0].k == 'loopvar':
        if idx.a[0] == idx.a[1]:
          diag = (st, idx.a[0], val)
        elif idx.a[1].k == 'loopvar':
          off = (st, idx.a[0], idx.a[1], val)
    okd = diag is not None and diag[2].k == 'sub' and alpha_call(diag[2].a[0]) and diag[2].a[1] == diag[1]
    chk.check(okd, rule, f'{site}: G[j, j] = α[j]', sym.show(diag[0])[-120:] if diag else 'no diagonal store', loc, 'weights[j, j] = alpha[j]', sym.show(diag[2]) if diag else '')
    oko = False
    if off is not None:
      st, j, k, val = off
      A = alg.Algebra(ev2, opaque=lambda t: t.k == 'sub' and alpha_call(t.a[0]))
      ak = Term('sub', [t for t in sym.walk(val) if alpha_call(t)][0], k) if [t for t in sym.walk(val) if alpha_call(t)] else None
      if ak is not None:
        akm = Term('sub', ak.a[0], Term('bin', '-', k, sym.const(1)))
        oko = alg.equal(A.conv(val), A.conv(ak) + A.conv(akm))
      b = c06_bounds(k)
      okr = b is not None and b[0] == Term('bin', '+', j, sym.const(1)) and match.attr_of(b[1], 'layers')
      bj = c06_bounds(j)
      okj = bj is not None and bj[0] == sym.const(0) and match.attr_of(bj[1], 'layers')
      chk.check(okr and okj, rule, f'{site}: j runs over all layers and k over the layers below j (k = j+1 … layers−1)', f'j∈{sym.show(j.a[1])}, k∈{sym.show(k.a[1])}', loc)
    chk.check(oko, rule, f'{site}: G[j, k] = α[k] + α[k−1] for k > j', sym.show(off[3]) if off else 'no off-diagonal store', loc, 'alpha[k] + alpha[k - 1]', sym.show(off[3]) if off else '')
    init = Wf[0].a[1]
    while init.k == 'loop':
      init = init.a[1]
    chk.check(match.is_ext_call(init, 'zeros'), rule, f'{site}: entries above… below the diagonal start as zero (upper-triangular G)', sym.show(init), loc)
  # sparse form
  f = prog.func(f'{PE}.get_geopotential_diff')
  v, ctx, env = ev2.run(f, bind={'method': sym.const('sparse')})
  site, loc = f'{PE}.get_geopotential_diff[sparse]', (f.file, f.lineno)
  rc = [t for t in sym.walk(v) if cumsum_info(t) is not None]
  ok = len(rc) == 1 and cumsum_info(rc[0])[0] == 'reverse_cumsum' and cumsum_info(rc[0])[2] == sym.const(0)
  if chk.check(ok, rule, f'{site}: one reverse (surface-to-level) cumulative sum along the level axis', sym.show(v)[:160], loc, 'reverse_cumsum(·, axis=0)', str([sym.show(t)[:60] for t in rc])):
    kind, operand, axis, kw = cumsum_info(rc[0])
    chk.check(kw.get('sharding') == S('sharding'), rule, f'{site}: forwards the sharding to the cumulative sum', sym.show(kw.get('sharding')) if kw.get('sharding') is not None else 'missing', loc)
    al = [t for t in sym.walk(v) if alpha_call(t)]
    chk.require(bool(al), f'{site}: does not use get_sigma_ratios')
    alpha_t = al[0]
    is_sl = lambda t: t.k == 'sub' and alpha_or_scaled(t.a[0], alpha_call)
    A = alg.Algebra(ev2, opaque=lambda t: t is rc[0] or t == rc[0] or (t.k == 'sub' and t.a[1].k == 'slice') or match.is_ext_call(t, 'concatenate'))
    T = A.conv(S('temperature'))
    R = A.conv(S('ideal_gas_constant'))
    al_s = A.conv(alpha_t)
    cc = [t for t in sym.walk(v) if match.is_ext_call(t, 'concatenate')]
    okc = len(set(cc)) == 1
    if chk.check(okc, rule, f'{site}: one shifted-sum vector α2', str([sym.show(t)[:80] for t in set(cc)]), loc):
      a2 = A.atom(cc[0])
      want = A.atom(rc[0]) + (R * al_s - a2) * T
      chk.check(alg.equal(A.conv(v), want), rule, f'{site}: Φ = reverse_cumsum(α2·T) + (R·α − α2)·T', sym.show(v)[:200], loc, 'rc + (R*alpha - alpha2)*T', str(sp.simplify(A.conv(v)))[:200])
      chk.check(alg.equal(A.conv(operand), a2 * T), rule, f'{site}: the summed operand is α2·T (carries the log-σ measure)', sym.show(operand)[:160], loc, 'alpha2 * T', sym.show(operand)[:160])
      parts = match.concat_parts(cc[0])
      okp = parts is not None and len(parts[0]) == 2 and parts[0][0] == Term('list', sym.const(0))
      if okp:
        B = alg.Algebra(ev2, opaque=lambda t: t.k == 'sub' and t.a[1].k == 'slice')
        s1 = Term('slice', sym.const(1), sym.NONE, sym.NONE)
        s0 = Term('slice', sym.NONE, sym.const(-1), sym.NONE)
        # α2[1:] = R·(α[1:] + α[:-1]) — R may multiply before or after slicing
        cand = parts[0][1]
        Ralpha = [t for t in sym.walk(cand) if t.k == 'sub' and t.a[1] in (s1, s0)]
        bases = {t.a[0] for t in Ralpha}
        okp = len(bases) == 1 and {t.a[1] for t in Ralpha} == {s1, s0}
        if okp:
          base = list(bases)[0]
          okp = alg.equal(B.conv(cand), B.conv(Term('sub', base, s1)) + B.conv(Term('sub', base, s0)))
          C = alg.Algebra(ev2)
          okp = okp and alg.equal(C.conv(base), C.conv(S('ideal_gas_constant')) * C.conv(alpha_t))
      chk.check(bool(okp), rule, f'{site}: α2 = [0, R·(α[1:] + α[:-1])] (same off-diagonal entries as the dense G)', sym.show(cc[0])[:200], loc, 'concatenate([[0], alpha[1:] + alpha[:-1]])', sym.show(cc[0])[:200])
  # dense arm uses the weights with the same R
  v, ctx, env = ev2.run(f, bind={'method': sym.const('dense')})
  site = f'{PE}.get_geopotential_diff[dense]'
  gw = [t for t in sym.walk(v) if t.k == 'call' and util.callee_name(t) == 'get_geopotential_weights'] if False else []
  chk.at_least(rule, 12)


def alpha_or_scaled(t, alpha_call):
  return sym.contains(t, alpha_call)


def c06_bounds(lv):
  it = lv.a[1]
  if it.k == 'call' and it.a[0].k == 'ext' and it.a[0].a[0] == 'range':
    args = it.a[1]
    if len(args) == 1:
      return sym.const(0), args[0]
    if len(args) == 2:
      return args[0], args[1]
  return None


def run(chk, prog, tier):
  from rules import c01 as _c01
  _c01.rule_shared_state(chk, prog, rule='C13.6-coordinate-arrays-never-updated-in-place')
  rule_validation(chk, prog)
  rule_level_quantities(chk, prog)
  rule_integrals(chk, prog)
  rule_cumsum_dispatch(chk, prog)
  rule_advection(chk, prog)
  rule_geopotential(chk, prog)
  common.rule_vweight(chk, prog, 'C13.2b-prefix-sums-weighted', modules=(SC,))
  chk.assume('numpy/jax: diff(x, append=0), concatenate, cumsum, flip, einsum with interleaved axis lists, lax.slice_in_dim(x, start, stop, axis)',
             'np.isclose(a, b) as the end-point test; all()/any() over element-wise comparisons')
  return dict(
      explanation=('The vertical-calculus functions of sigma_coordinates.py, jax_numpy_utils.py (cumsum family) and primitive_equations.py (sigma ratios, '
                   'geopotential weights) are abstractly interpreted with the level quantities kept symbolic; the resulting terms are matched against the '
                   'documented discretisation: which weight multiplies the integrand along which axis, direction dispatch, triangular-mask orientation and '
                   'inclusiveness, zero boundary values and their order, −½ averaging, α / G index tables (loop stores with their index ranges) and the '
                   'equivalent cumulative-sum form by normal forms. The SigmaCoordinates guard is folded over all 8 truth patterns. Not decided: the '
                   'summation-by-parts / telescoping identities and exactness on affine data (array-index algebra / numerics).'),
      trusted_base=['python ast', 'sympy canonicalisation', 'numpy / jax array primitives named above'],
      analysed=dict(functions=[f'{SC}.SigmaCoordinates.__init__', f'{SC}.cumulative_sigma_integral', f'{SC}.sigma_integral', f'{SC}.cumulative_log_sigma_integral',
                               f'{SC}.centered_difference', f'{SC}.centered_vertical_advection', f'{SC}.upwind_vertical_advection', f'{JU}.cumsum', f'{JU}.reverse_cumsum',
                               f'{JU}._dot_cumsum', f'{JU}._single_device_dot_cumsum', f'{PE}.get_sigma_ratios', f'{PE}.get_geopotential_weights', f'{PE}.get_geopotential_diff']),
  )
