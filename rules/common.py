"""Rule fragments shared by several properties."""
from __future__ import annotations

from sa import sym, util
from sa.sym import Term

PADDING_AWARE = ('total_wavenumbers', 'longitude_wavenumbers', 'modal_padding', 'modal_limits')
PADDED_SOURCES = ('modal_axes', 'modal_mesh', 'laplacian_eigenvalues', 'mask', '_derivative_recurrence_weights')


def mentions_padding_aware(t):
  return sym.contains(t, lambda x: x.k == 'attr' and x.a[1] in PADDING_AWARE)


def index_kind(idx):
  """'front' | 'aware' | 'end' | 'symbolic' for a subscript index on a padded axis."""
  parts = list(idx.a) if idx.k == 'tuple' else [idx]
  kinds = []
  for p in parts:
    comps = [c for c in p.a] if p.k == 'slice' else [p]
    for c in comps:
      if c.k == 'const':
        v = c.a[0]
        if v is None or v is Ellipsis:
          continue
        if isinstance(v, int) and not isinstance(v, bool):
          kinds.append('end' if v < 0 else 'front')
          continue
        kinds.append('symbolic')
        continue
      if c.k == 'ext' and c.a[0].endswith('newaxis'):
        continue
      if mentions_padding_aware(c):
        kinds.append('aware')
      elif sym.contains(c, lambda x: (x.k == 'attr' and x.a[1] in ('shape', 'size', 'modal_shape')) or (x.k == 'call' and x.a[0].k == 'ext' and x.a[0].a[0] == 'len')):
        kinds.append('end')
      elif c.k == 'un' and c.a[0] == '-':
        kinds.append('end')
      else:
        kinds.append('symbolic')
  if 'end' in kinds:
    return 'end'
  if 'aware' in kinds:
    return 'aware'
  if 'symbolic' in kinds:
    return 'symbolic'
  return 'front'


def check_padded_index(chk, rule, site, sub_term, loc):
  """A load from a zero-padded spectral axis must not be end-relative."""
  kind = index_kind(sub_term.a[1])
  key = f'{site}: load {sym.show(sub_term.a[1])} from a tail-padded spectral array'
  if kind == 'end':
    chk.violation(rule, key, 'end-relative index on an array whose tail is zero padding in padded layouts (FastSphericalHarmonics with a shape multiple or a mesh): '
                  'the entry read is a pad value, not the top resolved mode', sub_term.loc or loc,
                  'an index derived from total_wavenumbers / modal_limits / modal_padding', sym.show(sub_term.a[1]))
    return False
  chk.ok(rule, key, f'index class: {kind}', sub_term.loc or loc)
  return True


# ---------------------------------------------------------------- VWEIGHT
SIGMA_PROPS = {f'sigma_coordinates.SigmaCoordinates.{p}' for p in ('layer_thickness', 'centers', 'center_to_center', 'layers', 'internal_boundaries')}
MEASURE_CALLS = ('get_sigma_ratios', 'get_temperature_implicit_weights', 'get_geopotential_weights')


def is_measure(t):
  """Atoms that carry a vertical quadrature measure (Δσ, Δ log σ or matrices built from them)."""
  if t.k == 'attr' and t.a[1] in ('layer_thickness', 'center_to_center'):
    return True
  if t.k == 'call' and util.callee_name(t) in MEASURE_CALLS:
    return True
  if t.k == 'call' and t.a[0].k == 'ext' and t.a[0].a[0] in ('numpy.diff', 'jax.numpy.diff'):
    return sym.contains(t, lambda x: x.k == 'attr' and x.a[1] in ('centers', 'boundaries'))
  return False


def prefix_sum_sites(ev, value_terms, include_sum=False):
  out = {}
  for v in value_terms:
    for t in sym.walk(v):
      if t.k != 'call':
        continue
      q = util.callee_qual(t)
      name = None
      operand = None
      if q in ('dinosaur.jax_numpy_utils.cumsum', 'dinosaur.jax_numpy_utils.reverse_cumsum', 'numpy.cumsum', 'jax.numpy.cumsum'):
        name = q.rsplit('.', 1)[-1]
        operand = t.a[1][0] if t.a[1] else util.call_kwargs(t).get('x')
      elif t.a[0].k == 'attr' and t.a[0].a[1] in ('cumsum',) or (include_sum and t.a[0].k == 'attr' and t.a[0].a[1] == 'sum' and 'axis' in util.call_kwargs(t)):
        name = '.' + t.a[0].a[1]
        operand = t.a[0].a[0]
      if name is None or operand is None:
        continue
      key = (t.loc, name)
      out.setdefault(key, (t, operand))
  return out


def rule_vweight(chk, prog, rule, modules):
  """Every vertical prefix / total sum integrates a measure-weighted operand."""
  n = 0
  for m in modules:
    mod = prog.module(m)
    funcs = list(mod.functions.values())
    for c in mod.classes.values():
      funcs.extend(c.methods.values())
    for f in funcs:
      ev = sym.Evaluator(prog, sym.Options(opaque=SIGMA_PROPS | {f'primitive_equations.{x}' for x in MEASURE_CALLS}, max_depth=2))
      try:
        v, ctx, env = ev.run(f)
      except RecursionError:
        continue
      values = [v] + [x for x in env.values() if isinstance(x, Term)]
      sites = prefix_sum_sites(ev, values, include_sum=(m == 'sigma_coordinates'))
      for (loc, name), (t, operand) in sorted(sites.items(), key=lambda kv: str(kv[0])):
        if loc is None or loc[0] != f.file:
          continue
        if not (f.lineno <= loc[1] <= (f.node.end_lineno or f.lineno)):
          continue  # a site inlined from another function is reported there
        ok = sym.contains(operand, is_measure)
        key = f'{f.qualname.replace("dinosaur.", "")}: {name}({sym.show(operand, maxdepth=3)[:70]})'
        chk.check(ok, rule, key, 'operand carries a vertical measure (Δσ / Δlog σ)' if ok else
                  'a vertical prefix/total sum of a bare field: the discrete ∫dσ needs the layer weight (wrong on unevenly spaced levels)', loc,
                  'operand data-dependent on layer_thickness / sigma ratios', sym.show(operand, maxdepth=6)[:200])
        n += 1
  return n
