"""Rule fragments shared by several properties."""
from __future__ import annotations

from sa import sym, util
from sa.sym import Term

PADDING_AWARE = ('total_wavenumbers', 'longitude_wavenumbers', 'modal_padding', 'modal_limits')
PADDED_SOURCES = ('modal_axes', 'modal_mesh', 'laplacian_eigenvalues', 'mask', '_derivative_recurrence_weights')


def mentions_padding_aware(t):
  return sym.contains(t, lambda x: x.k == 'attr' and x.a[1] in PADDING_AWARE)


def index_kind(idx):
  """'front' | 'aware' | 'end' | 'symbolic' for a subscript index on a padded axis."""
  parts = list(idx.a) if idx.k == 'tuple' else [idx]
  kinds = []
  for p in parts:
    comps = [c for c in p.a] if p.k == 'slice' else [p]
    for c in comps:
      if c.k == 'const':
        v = c.a[0]
        if v is None or v is Ellipsis:
          continue
        if isinstance(v, int) and not isinstance(v, bool):
          kinds.append('end' if v < 0 else 'front')
          continue
        kinds.append('symbolic')
        continue
      if c.k == 'ext' and c.a[0].endswith('newaxis'):
        continue
      if mentions_padding_aware(c):
        kinds.append('aware')
      elif sym.contains(c, lambda x: (x.k == 'attr' and x.a[1] in ('shape', 'size', 'modal_shape')) or (x.k == 'call' and x.a[0].k == 'ext' and x.a[0].a[0] == 'len')):
        kinds.append('end')
      elif c.k == 'un' and c.a[0] == '-':
        kinds.append('end')
      else:
        kinds.append('symbolic')
  if 'end' in kinds:
    return 'end'
  if 'aware' in kinds:
    return 'aware'
  if 'symbolic' in kinds:
    return 'symbolic'
  return 'front'


def check_padded_index(chk, rule, site, sub_term, loc):
  """A load from a zero-padded spectral axis must not be end-relative."""
  kind = index_kind(sub_term.a[1])
  key = f'{site}: load {sym.show(sub_term.a[1])} from a tail-padded spectral array'
  if kind == 'end':
    chk.violation(rule, key, 'end-relative index on an array whose tail is zero padding in padded layouts (FastSphericalHarmonics with a shape multiple or a mesh): '
                  'the entry read is a pad value, not the top resolved mode', sub_term.loc or loc,
                  'an index derived from total_wavenumbers / modal_limits / modal_padding', sym.show(sub_term.a[1]))
    return False
  chk.ok(rule, key, f'index class: {kind}', sub_term.loc or loc)
  return True
