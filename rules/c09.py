"""C09 — the two spherical-harmonic implementations are observationally equivalent: interface, layouts, options."""
from __future__ import annotations

import ast

from sa import astnorm, match, sym, util
from sa.model import AnalysisError, norm_ident, unparse
from sa.sym import Term

SH = 'spherical_harmonic'
JU = 'jax_numpy_utils'

CLAIM = dict(
    text=('Decides the structural conditions of equivalence: both implementations override every abstract member of the SphericalHarmonics interface with the same '
          'kind and arity; Grid and all client modules use grid.spherical_harmonics only through that interface (no isinstance dispatch beyond the mesh assertion, '
          'implementation classes are named only in spherical_harmonic.py, the registry and constructor arguments); the two coefficient layouts differ exactly by '
          'the extra zero-imaginary slot, tail zero padding and the padding / slot conjuncts of the mask, each builder agreeing with its own longitude derivative, '
          'both taking Legendre functions, nodes and weights from the same calls; the tuning options can only reach what they are meant to tune — '
          'reverse_einsum_arg_order only the choice einsum / operand-and-subscript-swapped einsum, transform_precision only `precision=`, base_shape_multiple only '
          'padded shapes, stacked_fourier_transforms only the paired reshape/branches whose specs are adjoint and whose memory order is shared; the deprecated alias '
          'adds nothing. Does not decide numerical equality of fields, tendencies or trajectories.'
          ' Later additions: C09.5 the level padding of the z-sharded fast path pads and crops the same end (C07.3 re-filed), in either the jnp.pad or the pad_in_dim spelling. C09.6 the package-wide padded-extent scan (C07.1 re-filed).'),
    note=('Reuses the layout / adjoint / memory-order rules of C01 and the builder–derivative agreement of C02 as sibling checks between the two classes.'),
    technique='interface conformance over the class model + who-may-read analysis of option attributes (AST roles) + sibling layout rules shared with C01/C02',
)

IMPLS = ('RealSphericalHarmonics', 'FastSphericalHarmonics')
OPTIONS = {
    # option attribute -> {function qualname suffix: set of allowed syntactic roles}
    'reverse_einsum_arg_order': {'FastSphericalHarmonics.__post_init__': {'init', 'test'}, 'FastSphericalHarmonics.transform': {'einsum_args'}, 'FastSphericalHarmonics.inverse_transform': {'einsum_args'}},
    'transform_precision': {'FastSphericalHarmonics.transform': {'einsum_args'}, 'FastSphericalHarmonics.inverse_transform': {'einsum_args'}},
    'base_shape_multiple': {'FastSphericalHarmonics.__post_init__': {'init', 'test'}, 'FastSphericalHarmonics.nodal_shape': {'shape'}, 'FastSphericalHarmonics.modal_shape': {'shape'}},
    'stacked_fourier_transforms': {'FastSphericalHarmonics.__post_init__': {'init', 'test'}, 'FastSphericalHarmonics.basis': {'test'}, 'FastSphericalHarmonics.transform': {'test'},
                                   'FastSphericalHarmonics.inverse_transform': {'test'}},
}


def all_functions(prog):
  for m in prog.modules.values():
    for f in m.functions.values():
      yield f
    for c in m.classes.values():
      for f in c.methods.values():
        yield f


def kind_of(f):
  if f.is_property():
    return 'property'
  if f.is_classmethod():
    return 'classmethod'
  return 'method'


def rule_interface(chk, prog):
  rule = 'C09.1-interface'
  base = prog.cls(f'{SH}.SphericalHarmonics')
  abstract = [m for m in base.methods.values() if sym.is_abstract(m)]
  chk.require(len(abstract) >= 12, f'SphericalHarmonics: expected ≥12 abstract members, found {len(abstract)}')
  for cname in IMPLS:
    c = prog.cls(f'{SH}.{cname}')
    chk.check(base in c.mro(), rule, f'{SH}.{cname} derives from SphericalHarmonics', str([k.name for k in c.mro()]), (c.file, c.lineno))
    for m in abstract:
      o = c.methods.get(m.name)
      ok = o is not None and not sym.is_abstract(o) and kind_of(o) == kind_of(m) and len(o.param_names()) == len(m.param_names())
      chk.check(ok, rule, f'{SH}.{cname}.{m.name}: overrides the abstract {kind_of(m)} with the same arity', 'missing' if o is None else f'{kind_of(o)}/{len(o.param_names())} params',
                (c.file, o.lineno if o is not None else c.lineno), f'{kind_of(m)}/{len(m.param_names())} params', 'missing' if o is None else f'{kind_of(o)}/{len(o.param_names())} params')
  alias = prog.cls(f'{SH}.RealSphericalHarmonicsWithZeroImag')
  ok = [b.name for b in alias.bases] == ['FastSphericalHarmonics'] and not alias.methods and not alias.fields and not alias.class_assigns
  chk.check(ok, rule, f'{SH}.RealSphericalHarmonicsWithZeroImag is a member-less alias of FastSphericalHarmonics', str(sorted(alias.methods)), (alias.file, alias.lineno))
  chk.at_least(rule, 2 * 12 + 3)


def rule_agnostic(chk, prog):
  rule = 'C09.2-implementation-agnostic'
  base = prog.cls(f'{SH}.SphericalHarmonics')
  iface = set(base.methods) | {f[0] for f in base.all_fields()}
  n = 0
  for f in all_functions(prog):
    if f.cls is not None and f.cls.name in IMPLS + ('SphericalHarmonics', 'RealSphericalHarmonicsWithZeroImag'):
      continue
    nf = astnorm.normalised(f.node)
    for node in ast.walk(nf):
      if isinstance(node, ast.Attribute) and isinstance(node.value, ast.Attribute) and node.value.attr == 'spherical_harmonics':
        n += 1
        chk.check(node.attr in iface, rule, f'{f.qualname.replace("dinosaur.", "")}: uses spherical_harmonics.{node.attr} — a member of the common interface', node.attr, (f.file, node.lineno),
                  'member of SphericalHarmonics', node.attr)
      if isinstance(node, ast.Call) and isinstance(node.func, ast.Name) and node.func.id == 'isinstance' and len(node.args) == 2:
        names = {x.id if isinstance(x, ast.Name) else getattr(x, 'attr', '') for x in ast.walk(node.args[1])}
        if names & set(IMPLS) | (names & {'RealSphericalHarmonicsWithZeroImag'}):
          in_assert = f.qualname.endswith('Grid.__post_init__') and any(isinstance(p, ast.Assert) and node in ast.walk(p) for p in ast.walk(nf))
          chk.check(in_assert, rule, f'{f.qualname.replace("dinosaur.", "")}: isinstance test on an implementation class', unparse(node), (f.file, node.lineno),
                    'only the mesh ⇒ FastSphericalHarmonics assertion in Grid.__post_init__', unparse(node))
  # implementation classes named outside spherical_harmonic.py: registry values, defaults and call arguments only
  for m in prog.modules.values():
    if m.name == f'dinosaur.{SH}':
      continue
    parents = {}
    for node in ast.walk(m.tree):
      for ch in ast.iter_child_nodes(node):
        parents[id(ch)] = node
    for node in ast.walk(m.tree):
      if isinstance(node, ast.Attribute) and node.attr in IMPLS + ('RealSphericalHarmonicsWithZeroImag',):
        par = parents.get(id(node))
        role = None
        if isinstance(par, ast.Dict):
          role = 'registry value'
        elif isinstance(par, ast.keyword) or (isinstance(par, ast.Call) and node in par.args):
          role = 'constructor / call argument'
        elif isinstance(par, ast.arguments):
          role = 'parameter default'
        elif isinstance(par, (ast.Tuple, ast.List)) and isinstance(parents.get(id(par)), (ast.Dict, ast.Assign)):
          role = 'table entry'
        n += 1
        chk.check(role is not None, rule, f'{m.name.replace("dinosaur.", "")}: names {node.attr} only as {role or "?"}', unparse(par)[:100] if par is not None else '', (m.relpath, node.lineno),
                  'registry value / call argument / default', type(par).__name__)
  chk.at_least(rule, 10)


def rule_options(chk, prog):
  """Tuning options reach only places that cannot change values: sinks are classified on the evaluated values
  (sa/flow.py), so aliases, temporaries, keyword / positional spelling and statement order do not matter."""
  from sa import flow
  rule = 'C09.4-options-cannot-change-values'
  c = prog.cls(f'{SH}.FastSphericalHarmonics')
  TEST = ('test',)
  opt = lambda name: (lambda t: t.k == 'attr' and t.a[1] == name and t.a[0].k == 'sym' and t.a[0].a[0].startswith('self:'))
  par = lambda name: (lambda t: t == Term('sym', name))

  def check_sinks(site, f, label, got, allowed, required=True):
    got = {g for g in got if g != ('root',)}
    extra = sorted(str(g) for g in got - allowed)
    ok = not extra and (bool(got) or not required)
    chk.check(ok, rule, f'{site}: `{label}` reaches only {sorted(str(a) for a in allowed)}', f'sinks: {sorted(str(g) for g in got)}', (f.file, f.lineno),
              str(sorted(str(a) for a in allowed)), f'also reaches {extra}' if extra else 'not consumed at all')

  # 1. transform / inverse_transform: precision hint and argument order are handed to _transform_einsum under their own
  #    parameters; the stacking flag only selects between the two (equivalent) contraction arms
  SHAPES = {f'{SH}.FastSphericalHarmonics.{n}' for n in ('nodal_shape', 'modal_shape', 'nodal_padding', 'modal_padding')}
  for mname in ('transform', 'inverse_transform'):
    f = c.find_method(mname)
    ev = sym.Evaluator(prog, sym.Options(opaque={f'{SH}._transform_einsum'} | SHAPES))
    v, _, env = ev.run(f)
    vals = [v] + [c_ for _, c_, _ in ev.calls if isinstance(c_, Term)]
    site = f'{SH}.FastSphericalHarmonics.{mname}'
    check_sinks(site, f, 'reverse_einsum_arg_order', flow.sinks(vals, opt('reverse_einsum_arg_order')), {('arg', '_transform_einsum', 'reverse_einsum_arg_order')})
    check_sinks(site, f, 'transform_precision', flow.sinks(vals, opt('transform_precision')), {('arg', '_transform_einsum', 'precision')})
    check_sinks(site, f, 'stacked_fourier_transforms', flow.sinks(vals, opt('stacked_fourier_transforms')), {TEST})
    check_sinks(site, f, 'base_shape_multiple', flow.sinks(vals, opt('base_shape_multiple')), set(), required=False)
  # 2. the other value-producing members never read precision / order; stacking only as a layout selector; the shape multiple only in shapes
  for mname in ('basis', 'mask', 'modal_axes', 'nodal_axes', 'longitudinal_derivative', 'modal_limits', 'nodal_limits'):
    f = c.find_method(mname)
    if f is None:
      continue
    ev = sym.Evaluator(prog, sym.Options(opaque=SHAPES))
    v, _, env = ev.run(f)
    site = f'{SH}.FastSphericalHarmonics.{mname}'
    for o in ('reverse_einsum_arg_order', 'transform_precision', 'base_shape_multiple'):
      check_sinks(site, f, o, flow.sinks([v], opt(o)), set(), required=False)
    check_sinks(site, f, 'stacked_fourier_transforms', flow.sinks([v], opt('stacked_fourier_transforms')), {TEST}, required=(mname == 'basis'))
  for mname in ('nodal_shape', 'modal_shape'):
    f = c.find_method(mname)
    v, _, env = sym.Evaluator(prog).run(f)
    got = flow.sinks([v], opt('base_shape_multiple'))
    chk.check(bool(got), rule, f'{SH}.FastSphericalHarmonics.{mname}: the shape multiple is consumed by the padded shape', str(sorted(str(g) for g in got)), (f.file, f.lineno))
    for o in ('reverse_einsum_arg_order', 'transform_precision', 'stacked_fourier_transforms'):
      check_sinks(f'{SH}.FastSphericalHarmonics.{mname}', f, o, flow.sinks([v], opt(o)), set(), required=False)
  # 3. nobody else reads the options (who-may-read over every function of the package)
  allowed_readers = {f'dinosaur.{SH}.FastSphericalHarmonics.{n}' for n in ('__post_init__', 'transform', 'inverse_transform', 'basis', 'nodal_shape', 'modal_shape')}
  readers = {}
  for f in all_functions(prog):
    for node in ast.walk(f.node):
      if isinstance(node, ast.Attribute) and node.attr in OPTIONS and isinstance(node.ctx, ast.Load):
        readers.setdefault(f.qualname, set()).add(node.attr)
  for q, opts in sorted(readers.items()):
    f = prog.funcs[q]
    chk.check(q in allowed_readers, rule, f'{q.replace("dinosaur.", "")}: reads the tuning option(s) {sorted(opts)}', '', (f.file, f.lineno), f'only {sorted(x.rsplit(".", 1)[-1] for x in allowed_readers)} read them', q)
  # 4. inside _transform_einsum / sharded_einsum / the collectives the two parameters reach their keyword (or a branch selector) only
  table = (
      (f'{SH}._transform_einsum', {f'{JU}.sharded_einsum'}, 'reverse_einsum_arg_order', {('arg', 'sharded_einsum', 'reverse_arg_order')}),
      (f'{SH}._transform_einsum', {f'{JU}.sharded_einsum'}, 'precision', {('arg', 'sharded_einsum', 'precision'), ('arg', 'einsum', 'precision')}),
      (f'{JU}.sharded_einsum', None, 'reverse_arg_order', {('arg', '_allgather_matmul_twoway', 'reverse_arg_order'), ('arg', '_matmul_reducescatter_twoway', 'reverse_arg_order')}),
      (f'{JU}.sharded_einsum', None, 'precision', {('arg', '_allgather_matmul_twoway', 'precision'), ('arg', '_matmul_reducescatter_twoway', 'precision'), ('arg', 'einsum', 'precision')}),
      (f'{JU}._allgather_matmul_twoway', None, 'reverse_arg_order', {TEST}),
      (f'{JU}._matmul_reducescatter_twoway', None, 'reverse_arg_order', {TEST}),
      (f'{JU}._allgather_matmul_twoway', None, 'precision', {('arg', 'φ-selected callee', 'precision'), ('arg', '_reversed_arg_order_einsum', 'precision'), ('arg', 'einsum', 'precision')}),
      (f'{JU}._matmul_reducescatter_twoway', None, 'precision', {('arg', 'φ-selected callee', 'precision'), ('arg', '_reversed_arg_order_einsum', 'precision'), ('arg', 'einsum', 'precision')}),
  )
  coll = {f'{JU}._allgather_matmul_twoway', f'{JU}._matmul_reducescatter_twoway', f'{JU}._reversed_arg_order_einsum'}
  for fq, opq, pname, allowed in table:
    g = prog.func(fq)
    ev = sym.Evaluator(prog, sym.Options(opaque=opq)) if opq is not None else sym.Evaluator(prog, sym.Options(std_opaque=False, opaque=coll))
    v, _, env = ev.run(g)
    vals = [v] + [x for n_, x in env.items() if isinstance(x, Term) and n_ != pname] + [c_ for _, c_, _ in ev.calls if isinstance(c_, Term)]
    check_sinks(fq, g, pname, flow.sinks(vals, par(pname)), allowed)
  # the selected flavours are einsum and the operand+subscript swapped einsum
  ev = sym.Evaluator(prog, sym.Options(std_opaque=False, opaque={f'{JU}._reversed_arg_order_einsum'}))
  g = prog.func(f'{JU}._allgather_matmul_twoway')
  v, ctx, env = ev.run(g)
  parts = [t for x in [v] + [y for y in env.values() if isinstance(y, Term)] for t in sym.walk(x) if t.k == 'partial' and t.a[0].k == 'phi']
  mm = parts[0] if parts else None
  ok = (mm is not None and len(set(parts)) == 1 and mm.a[0].a[0] == Term('sym', 'reverse_arg_order')
        and mm.a[0].a[1] == Term('func', f'dinosaur.{JU}._reversed_arg_order_einsum') and mm.a[0].a[2] == Term('ext', 'jax.numpy.einsum')
        and mm.a[1] == (Term('sym', 'einsum_spec'),) and dict(mm.a[2]) == {'precision': Term('sym', 'precision')})
  chk.check(ok, rule, f'{JU}._allgather_matmul_twoway: both flavours are partial(·, einsum_spec, precision=precision) of einsum / _reversed_arg_order_einsum', sym.show(mm)[:200] if mm is not None else 'missing', (g.file, g.lineno))
  chk.at_least(rule, 24)


def rule_layout_siblings(chk, prog):
  """Re-files the sibling layout rules of C01 / C02 under C09."""
  from rules import c01, c02
  before = len(chk.instances)
  c01.rule_transforms(chk, prog)
  c01.rule_basis(chk, prog)
  c01.rule_integrate_mask(chk, prog)
  c02.rule_fourier(chk, prog)
  keep = []
  mapping = {'C01.2-adjoint-pairing': 'C09.3-layouts', 'C01.2b-tuning-options': 'C09.4-options-cannot-change-values', 'C01.2c-memory-order': 'C09.3-layouts',
             'C01.3b-basis-data': 'C09.3-layouts', 'C01.5-mask': 'C09.3-layouts', 'C02.4-fourier-layout': 'C09.3-layouts', 'C01.3-weight-once': 'C09.3-layouts'}
  for i in chk.instances[before:]:
    if i['rule'] in mapping:
      i['rule'] = mapping[i['rule']]
      keep.append(i)
  chk.instances[before:] = keep
  chk.violations[:] = [v for v in chk.violations if v in chk.instances]
  for r in list(chk.minimum):
    if r.startswith(('C01.', 'C02.')):
      chk.minimum.pop(r)
  chk.at_least('C09.3-layouts', 60)
  # modal_shape of the two classes
  import sympy as sp
  from sa import alg
  ev = sym.Evaluator(prog)
  c = prog.cls(f'{SH}.RealSphericalHarmonics')
  f = c.find_method('modal_shape')
  v, _, _ = ev.run(f)
  A = alg.Algebra(ev)
  M = A.name(lambda t: t.k == 'attr' and t.a[1] == 'longitude_wavenumbers', 'M')
  L = A.name(lambda t: t.k == 'attr' and t.a[1] == 'total_wavenumbers', 'L')
  ok = v.k == 'tuple' and len(v.a) == 2 and alg.equal(A.conv(v.a[0]), 2 * M - 1) and alg.equal(A.conv(v.a[1]), L)
  chk.check(ok, 'C09.3-layouts', f'{SH}.RealSphericalHarmonics.modal_shape = (2M − 1, L); the fast layout has limits (2M, L) — exactly one extra (zero-imaginary) slot', sym.show(v), (f.file, f.lineno))
  for cname in IMPLS:
    cc = prog.cls(f'{SH}.{cname}')
    f = cc.find_method('longitudinal_derivative')
    ev2 = sym.Evaluator(prog, sym.Options(opaque={'fourier.real_basis_derivative', 'fourier.real_basis_derivative_with_zero_imag', f'{SH}._fourier_derivative_for_real_basis_with_zero_imag'}))
    v, _, _ = ev2.run(f)
    want = {'RealSphericalHarmonics': 'real_basis_derivative', 'FastSphericalHarmonics': '_fourier_derivative_for_real_basis_with_zero_imag'}[cname]
    okd = v.k == 'call' and util.callee_name(v) == want
    if cname == 'RealSphericalHarmonics' and okd:
      okd = util.call_kwargs(v).get('axis') == sym.const(-2) or (len(v.a[1]) > 1 and v.a[1][1] == sym.const(-2))
    chk.check(okd, 'C09.3-layouts', f'{SH}.{cname}.longitudinal_derivative uses the derivative that matches its own basis builder ({want}) along axis −2', sym.show(v), (f.file, f.lineno))
  c2 = prog.cls(f'{SH}.FastSphericalHarmonics')
  f = c2.find_method('basis')
  bname = {'RealSphericalHarmonics': 'real_basis', 'FastSphericalHarmonics': 'real_basis_with_zero_imag'}
  for cname in IMPLS:
    cc = prog.cls(f'{SH}.{cname}')
    src = ast.unparse(cc.find_method('basis').node)
    chk.check(f'fourier.{bname[cname]}(' in src and ('real_basis_with_zero_imag(' in src) == (cname == 'FastSphericalHarmonics'), 'C09.3-layouts',
              f'{SH}.{cname}.basis builds its Fourier matrix with fourier.{bname[cname]}', '', (cc.file, cc.find_method('basis').lineno))


def run(chk, prog, tier):
  rule_interface(chk, prog)
  rule_agnostic(chk, prog)
  rule_options(chk, prog)
  from rules import c07
  c07.check_reversed_einsum(chk, prog, 'C09.4-options-cannot-change-values')
  # sibling: the z-sharded path of the fast implementation pads and crops the level axis around its transforms; pad and crop must act on the
  # same end (decided under C07.3) or every Grid method returns level-shifted fields that the reference implementation does not
  c07.rule_vertical_padding(chk, prog, rule='C09.5-level-padding-transparent')
  # sibling: the shape-padding multiple must not change resolved values — no computation outside the transforms may read the padded extent or
  # the end of a tail-padded spectral axis (the package-wide scan of C07.1, re-filed)
  n_sc, _bad = c07.padded_scan(prog, chk, 'C09.6-padding-multiple-is-invisible')
  chk.at_least('C09.6-padding-multiple-is-invisible', 2)
  try:
    rule_layout_siblings(chk, prog)
  except AnalysisError as e:
    if not chk.violations:
      raise
    chk.note(f'sibling layout rules could not be evaluated on this tree ({e}); the violations above are reported first')
  chk.assume('XLA precision hints and argument order do not change the mathematical result of an einsum',
             'reshape(order="F") / stack / unstack as decided under C01')
  return dict(
      explanation=('The class model is queried for interface conformance; all attribute accesses on `.spherical_harmonics`, isinstance tests and mentions of the '
                   'implementation classes are enumerated package-wide; every read of the four tuning options is located and classified by its syntactic role (branch test, '
                   'keyword, einsum_args tuple, shape arithmetic, default initialisation) and compared with an allow table; the adjoint / layout / memory-order / '
                   'builder–derivative rules of C01 and C02 are re-run as sibling checks. Not decided: numerical equality of the two implementations.'),
      trusted_base=['python ast', 'rules of C01 / C02'],
      analysed=dict(classes=list(IMPLS) + ['SphericalHarmonics', 'RealSphericalHarmonicsWithZeroImag', 'Grid'], options=sorted(OPTIONS)),
  )
