"""C08 — derivatives are finite, adjoint and correct: conditions under which jax's guarantees apply."""
from __future__ import annotations

import ast

from sa import alg, match, sym, util
from sa.model import AnalysisError, norm_ident, unparse
from sa.sym import Term
from rules import common, c11

PE = 'primitive_equations'
SW = 'shallow_water'
TI = 'time_integration'
SH = 'spherical_harmonic'
VI = 'vertical_interpolation'
HS = 'held_suarez'
FI = 'filtering'

CLAIM = dict(
    text=('Decides the conditions under which automatic differentiation of the dycore is well defined: on every data path from the state / field parameters to the result '
          'of 60+ differentiable entry points (tendencies, implicit operators and solves of all equation classes, Held–Suarez forcing, Grid operators, filters, '
          'interpolation routines, integrator steps and scan combinators; call trees inlined) there is no gradient-annihilating operation (stop_gradient, rounding, '
          'sign, integer casts, arg-reductions) and no operation whose derivative is not finite at admissible inputs (norm, sqrt, fractional power, inverse '
          'trigonometric functions, log) outside a reasoned allow-table; static factors that multiply traced values are made finite before the product (reciprocal '
          'Laplacian eigenvalues are zeroed at l = 0 and on the padding) and the numpy inverse is taken only behind the Tracer guard; the checkpointed sub-scan '
          'captures only non-traced objects and passes exactly (carry, slice). Also decided: no data-dependent branching primitive (lax.cond / switch / while_loop with a predicate computed from the state) sits on a data path — only the taken branch is differentiated. Does not decide agreement of JVP with finite differences, JVP/VJP adjointness '
          '(a property of jax itself for traceable code) or finiteness at every state numerically.'
          ' Later additions: C08.4 every jax.custom_jvp / custom_vjp rule in the package passes on the tangent (cotangent) of each differentiable argument (AST data-flow over the rule, positive fixture); relu-type activations on data paths are hazards (one-sided derivative 0 at the kink where the central difference of the piecewise-linear function is ½); lax.cond / switch / while_loop on data-dependent predicates. Hand-written rules are verified: a JVP must be jax.jvp of the implementation, a VJP of a linear map is decided by a transpose calculus over operator words; otherwise the check ends with no verdict.'),
    note=('jax primitives used on data paths are differentiable with finite derivatives at admissible inputs; allow-table entries (with reasons) are in rules/c08.py. '
          'A cross-reference list of `where(c, a/b, …)` patterns is printed as NOTE only.'),
    technique='taint analysis (state → result) over inlined call trees with a hazard-operation table + closure-capture analysis + shared structural rules (C02.2, C03.7)',
)

ANNIHILATING = {'jax.lax.stop_gradient', 'jax.numpy.round', 'jax.numpy.rint', 'jax.numpy.floor', 'jax.numpy.ceil', 'jax.numpy.trunc', 'jax.numpy.sign', 'jax.numpy.argmax',
                'jax.numpy.argmin', 'jax.numpy.argsort', 'jax.numpy.floor_divide', 'jax.numpy.fix', 'numpy.round', 'numpy.floor', 'numpy.ceil', 'numpy.sign', 'round', 'int',
                'jax.numpy.heaviside', 'jax.numpy.digitize'}
NONSMOOTH = {'jax.numpy.linalg.norm', 'numpy.linalg.norm', 'jax.numpy.sqrt', 'jax.numpy.arccos', 'jax.numpy.arcsin', 'jax.numpy.log', 'jax.numpy.cbrt', 'jax.numpy.hypot',
             'jax.numpy.reciprocal', 'jax.numpy.arctan2', 'jax.numpy.angle', 'jax.numpy.abs', 'jax.numpy.absolute', 'jax.numpy.std', 'jax.numpy.var'}
# derivative convention at a kink differs from the symmetric one of maximum / minimum / abs (which equals the central difference of a
# piecewise-linear function at the tie): relu-type activations return the one-sided derivative 0 at 0
ONE_SIDED = {'jax.nn.relu', 'jax.nn.relu6', 'jax.nn.leaky_relu', 'jax.nn.elu', 'jax.nn.hard_tanh', 'jax.nn.hard_sigmoid', 'jax.nn.celu', 'jax.nn.selu', 'jax.nn.hard_swish',
             'jax.nn.hard_silu'}
ALLOW = {
    # (entry qualname suffix or '*', hazard) -> reason
    ('held_suarez.HeldSuarezForcing.explicit_terms', 'jax.numpy.log'): 'log of p/p0 with positive surface pressure (exp of the prognostic log-pressure)',
    ('held_suarez.HeldSuarezForcing.explicit_terms', 'pow-fractional'): '(p/p0)**kappa with positive pressure',
    ('held_suarez.HeldSuarezForcing.equilibrium_temperature', 'jax.numpy.log'): 'log of p/p0 with positive pressure',
    ('held_suarez.HeldSuarezForcing.equilibrium_temperature', 'pow-fractional'): '(p/p0)**kappa with positive pressure',
    ('radiation.SolarRadiation.time_to_orbital_time', 'floordiv'): 'phase wrap x − ⌊x/2π⌋·2π has derivative 1 almost everywhere',
    ('time_integration.maybe_fix_sim_time_roundoff', 'jax.numpy.round'): 'documented rounding of the clock only',
}


def all_functions(prog):
  for m in prog.modules.values():
    for f in m.functions.values():
      yield f
    for c in m.classes.values():
      for f in c.methods.values():
        yield f


def entry_points(prog):
  eps = []
  for cq in (f'{PE}.PrimitiveEquations', f'{PE}.PrimitiveEquationsWithTime', f'{PE}.MoistPrimitiveEquations', f'{PE}.MoistPrimitiveEquationsWithCloudMoisture', f'{SW}.ShallowWaterEquations'):
    c = prog.cls(cq)
    for m in ('explicit_terms', 'implicit_terms', 'implicit_inverse'):
      eps.append((c, c.find_method(m), ['state'], {}))
  c = prog.cls(f'{TI}.TimeReversedImExODE')
  for m in ('explicit_terms', 'implicit_terms', 'implicit_inverse'):
    eps.append((c, c.find_method(m), ['state'], {}))
  c = prog.cls(f'{HS}.HeldSuarezForcing')
  eps.append((c, c.find_method('explicit_terms'), ['state'], {}))
  eps.append((c, c.find_method('equilibrium_temperature'), ['nodal_surface_pressure'], {}))
  g = prog.cls(f'{SH}.Grid')
  for m, ps in (('to_nodal', ['x']), ('to_modal', ['z']), ('laplacian', ['x']), ('inverse_laplacian', ['x']), ('clip_wavenumbers', ['x']), ('d_dlon', ['x']), ('cos_lat_d_dlat', ['x']),
                ('sec_lat_d_dlat_cos2', ['x']), ('cos_lat_grad', ['x']), ('div_cos_lat', ['v']), ('curl_cos_lat', ['v']), ('k_cross', ['v']), ('integrate', ['z'])):
    eps.append((g, g.find_method(m), ps, {}))
  for q, ps in ((f'{SH}.get_cos_lat_vector', ['vorticity', 'divergence']), (f'{SH}.uv_nodal_to_vor_div_modal', ['u_nodal', 'v_nodal']), (f'{SH}.vor_div_to_uv_nodal', ['vorticity', 'divergence']),
                (f'{PE}.compute_diagnostic_state', ['state']), (f'{PE}.compute_vertical_velocity', ['state']), (f'{PE}.semi_lagrangian_vertical_advection_step', ['state']),
                (f'{PE}.get_geopotential', ['temperature_variation', 'orography']), (f'{PE}.get_geopotential_with_moisture', ['temperature', 'specific_humidity', 'nodal_orography']),
                (f'{PE}.get_geopotential_diff', ['temperature']), (f'{PE}.get_temperature_implicit', ['divergence']), (f'{PE}.div_sec_lat', ['m_component', 'n_component']),
                (f'{VI}.interp', ['x', 'xp', 'fp']), (f'{VI}._dot_interp', ['x', 'fp']), (f'{VI}.linear_interp_with_linear_extrap', ['x', 'fp']), (f'{VI}._linear_interp_with_safe_extrap', ['x', 'fp']),
                (f'{VI}.vertical_interpolation', ['x', 'fp']), (f'{VI}.interp_pressure_to_sigma', ['fields', 'surface_pressure']), (f'{VI}.interp_sigma_to_pressure', ['fields', 'surface_pressure']),
                (f'{VI}.interp_hybrid_to_sigma', ['fields', 'surface_pressure']), (f'{VI}.regrid_hybrid_to_sigma', ['fields', 'surface_pressure']), (f'{VI}.get_surface_pressure', ['geopotential', 'orography']),
                ('sigma_coordinates.centered_difference', ['x']), ('sigma_coordinates.cumulative_sigma_integral', ['x']), ('sigma_coordinates.sigma_integral', ['x']),
                ('sigma_coordinates.cumulative_log_sigma_integral', ['x']), ('sigma_coordinates.centered_vertical_advection', ['w', 'x']), ('sigma_coordinates.upwind_vertical_advection', ['w', 'x']),
                (f'{TI}.accumulate_repeated', ['state']), (f'{TI}.nested_checkpoint_scan', ['init', 'xs']), (f'{TI}._inner_nested_scan', ['init', 'xs'])):
    eps.append((None, prog.func(q), ps, {}))
  return eps


def closure_entries(prog):
  """Entry points that are returned closures: (factory qualname, data params of the closure)."""
  return [(f'{TI}.backward_forward_euler', None), (f'{TI}.crank_nicolson_rk2', None), (f'{TI}.semi_implicit_leapfrog', None), (f'{TI}.low_storage_runge_kutta_crank_nicolson', None),
          (f'{TI}.imex_runge_kutta', None), (f'{TI}.step_with_filters', None), (f'{TI}.repeated', None), (f'{TI}.trajectory_from_step', None), (f'{TI}.robert_asselin_leapfrog_filter', None),
          (f'{TI}.runge_kutta_step_filter', None), (f'{TI}.leapfrog_step_filter', None), (f'{TI}.exponential_step_filter', None), (f'{TI}.exponential_leapfrog_step_filter', None),
          (f'{TI}.horizontal_diffusion_step_filter', None), (f'{TI}.digital_filter_initialization', None), (f'{FI}._make_filter_fn', None)]


BRANCHING = {'jax.lax.cond': 0, 'jax.lax.switch': 0, 'jax.lax.while_loop': 2, 'jax.lax.select_n': 0}


def hazards_in(term, is_data):
  """[(hazard name, term)] for hazardous operations applied to data-dependent values."""
  out = []
  for t in sym.walk(term):
    if t.k == 'call' and t.a[0].k == 'ext':
      n = t.a[0].a[0]
      args = list(t.a[1]) + [v for _, v in t.a[2]]
      if n in BRANCHING and len(args) > BRANCHING[n] and isinstance(args[BRANCHING[n]], Term) and sym.contains(args[BRANCHING[n]], is_data):
        # only the taken branch is differentiated: at states on the branch boundary (e.g. a field that is exactly zero) the
        # derivative is that of the wrong branch unless both agree to first order
        out.append((n + ' on a data-dependent predicate', t))
        continue
      if n in ONE_SIDED and any(sym.contains(x, is_data) for x in args if isinstance(x, Term)):
        out.append((n + ' (one-sided derivative at the kink: 0 at 0, where the central difference of the piecewise-linear function is ½)', t))
        continue
      if (n in ANNIHILATING or n in NONSMOOTH) and any(sym.contains(x, is_data) for x in args if isinstance(x, Term)):
        out.append((n, t))
    elif t.k == 'call' and t.a[0].k == 'attr' and t.a[0].a[1] in ('astype', 'item', 'round', 'argmax', 'argmin', 'argsort') and sym.contains(t.a[0].a[0], is_data):
      if t.a[0].a[1] == 'astype':
        tgt = t.a[1][0] if t.a[1] else None
        txt = sym.show(tgt) if tgt is not None else ''
        if 'int' in txt or 'bool' in txt:
          out.append(('astype-int', t))
      else:
        out.append(('.' + t.a[0].a[1], t))
    elif t.k == 'bin' and t.a[0] == '//' and sym.contains(t.a[1], is_data):
      out.append(('floordiv', t))
    elif t.k == 'bin' and t.a[0] == '**' and sym.contains(t.a[1], is_data):
      e = t.a[2]
      integral = e.k == 'const' and isinstance(e.a[0], int)
      if not integral:
        out.append(('pow-fractional', t))
    elif t.k == 'bin' and t.a[0] == '%' and sym.contains(t.a[1], is_data):
      out.append(('mod', t))
  return out


def allowed(site, hazard):
  for (s_, h), why in ALLOW.items():
    if h == hazard and (s_ == '*' or site.endswith(s_)):
      return why
  return None


def rule_taint(chk, prog):
  rule = 'C08.1-no-gradient-hazard-on-data-paths'
  n = 0
  for c, f, params, bind in entry_points(prog):
    chk.require(f is not None, 'entry point missing')
    ev = sym.Evaluator(prog, sym.Options(opaque=common.SIGMA_PROPS, max_depth=8))
    v, ctx, env = ev.run(f, self_cls=c) if c is not None else ev.run(f)
    q = (f'{c.qualname}.{f.name}' if c is not None else f.qualname).replace('dinosaur.', '')
    names = set(params)
    missing = [p for p in params if p not in f.param_names()]
    chk.require(not missing, f'{q}: data parameter(s) {missing} no longer exist')
    is_data = lambda t, names=names: t.k == 'sym' and t.a[0] in names
    values = [v]
    for lam in list(ev.lambdas):
      fi, cenv = ev.lambdas[lam]
      if fi.parent is f:
        try:
          b, _, _ = ev.run(fi, closure=cenv)
          values.append(b)
        except Exception:
          pass
    hz = []
    for val in values:
      hz.extend(hazards_in(val, is_data))
    bad = [(h, t) for h, t in hz if allowed(q, h) is None]
    for h, t in hz:
      why = allowed(q, h)
      if why:
        chk.note(f'{q}: {h} on a data path is allow-listed — {why}')
    chk.check(not bad, rule, f'{q}: no gradient-annihilating / non-finite-derivative operation between {sorted(names)} and the result',
              f'{sum(1 for _ in sym.walk(v))} term nodes inspected' if not bad else f'{bad[0][0]}: {sym.show(bad[0][1], maxdepth=3)[:120]}', bad[0][1].loc if bad else (f.file, f.lineno),
              'only smooth jax primitives', f'{bad[0][0]}' if bad else '')
    n += 1
  for fq, _ in closure_entries(prog):
    f = prog.func(fq)
    ev = sym.Evaluator(prog, sym.Options(opaque=common.SIGMA_PROPS, max_depth=8))
    v, ctx, env = ev.run(f)
    lam = v
    if lam.k == 'phi':
      lam = lam.a[2] if lam.a[2].k == 'lambda' else lam.a[1]
    if lam.k == 'partial' and lam.a[1]:
      lam = lam.a[1][0]
    fi, cenv = ev.get_func(lam)
    q = fq
    if fi is None:
      raise AnalysisError(f'{fq}: does not return a closure')
    b, _, _ = ev.run(fi, closure=cenv)
    names = set(fi.param_names())
    is_data = lambda t, names=names: (t.k == 'sym' and t.a[0] in names) or t.k == 'carried'
    values = [b]
    for l2 in list(ev.lambdas):
      fj, cj = ev.lambdas[l2]
      if fj.parent is fi:
        try:
          bb, _, _ = ev.run(fj, closure=cj)
          values.append(bb)
        except Exception:
          pass
    hz = []
    for val in values:
      hz.extend(hazards_in(val, is_data))
    bad = [(h, t) for h, t in hz if allowed(q, h) is None]
    chk.check(not bad, rule, f'{q} → {fi.name}: no gradient-annihilating / non-finite-derivative operation on the stepped state', 'clean' if not bad else f'{bad[0][0]}: {sym.show(bad[0][1], maxdepth=3)[:120]}',
              bad[0][1].loc if bad else (f.file, f.lineno), 'only smooth jax primitives', f'{bad[0][0]}' if bad else '')
    n += 1
  # positive control: the two allow-listed sites must still be found (otherwise the scan is blind)
  ev = sym.Evaluator(prog)
  f = prog.func(f'{TI}.maybe_fix_sim_time_roundoff')
  v, _, env = ev.run(f)
  vals = [v] + [x for x in env.values() if isinstance(x, Term)]
  found = any(h == 'jax.numpy.round' for val in vals for h, _ in hazards_in(val, lambda t: t.k == 'sym' and t.a[0] == 'state'))
  if not found:
    raise AnalysisError('positive control lost: the rounding in maybe_fix_sim_time_roundoff is no longer recognised as a hazard — the taint scan is blind')
  chk.ok(rule, 'positive control: time_integration.maybe_fix_sim_time_roundoff (documented clock rounding) is recognised by the scan', 'jax.numpy.round on state.sim_time')
  chk.at_least(rule, 70)


def _enclosing(m, lineno, name):
  """FuncInfo of the innermost function of module m that contains the definition `name` at `lineno` (None at module level)."""
  import ast
  best = None
  for f in [f for f in m.functions.values()] + [f for c in m.classes.values() for f in c.methods.values()]:
    for nd in ast.walk(f.node):
      if nd is not f.node and isinstance(nd, (ast.FunctionDef, ast.Assign)) and getattr(nd, 'lineno', -1) == lineno:
        best = f
  return best


def verify_custom_rule(chk, prog, m, site, rule):
  """A hand-written derivative rule replaces what autodiff would derive, so its *formula* has to be established too.
  Verifiable forms: a JVP that hands (primals, tangents) on to jax.jvp of the implementation; a VJP of a linear map, decided by the
  transpose calculus of sa/adjoint.py.  Anything else cannot be decided statically and is reported as such (no verdict)."""
  from sa import adjoint
  short = m.name.replace('dinosaur.', '')
  where = (m.relpath, site.lineno)
  if site.kind == 'custom_jvp':
    if site.wholesale:
      chk.ok(rule, f'{short}.{site.name}: the JVP rule differentiates the implementation itself (tangents handed on as a whole)', site.rule, where)
      return
    raise AnalysisError(f'{short}.{site.name}: hand-written JVP formula ({site.rule}) cannot be verified statically — no verdict on C08 for a tree that carries it')
  parent = _enclosing(m, site.lineno, site.name)
  ev = sym.Evaluator(prog, sym.Options(opaque=common.SIGMA_PROPS | {'jax_numpy_utils.cumsum', 'jax_numpy_utils.reverse_cumsum'}, max_depth=4))
  fis = {}
  if parent is not None:
    try:
      ev.run(parent)
    except Exception as e:   # noqa: BLE001
      raise AnalysisError(f'{short}.{site.name}: enclosing function could not be evaluated ({e})')
    for key in list(ev.lambdas):
      fi, cenv = ev.lambdas[key]
      if fi.parent is parent and fi.name in (site.name, site.rule):
        fis[fi.name] = (fi, cenv)
  else:
    for nme in (site.name, site.rule):
      f_ = m.functions.get(nme)
      if f_ is not None:
        fis[nme] = (f_, None)
  if site.name not in fis or site.rule not in fis:
    raise AnalysisError(f'{short}.{site.name}: hand-written VJP ({site.rule}) — primal / backward function not resolvable for the transpose check; no verdict')
  (pf, penv), (bf, benv) = fis[site.name], fis[site.rule]
  pv, _, _ = ev.run(pf, closure=penv) if penv is not None else ev.run(pf)
  bv, _, _ = ev.run(bf, closure=benv) if benv is not None else ev.run(bf)
  diff_idx = [i for i in range(len(site.params)) if i not in site.nondiff]
  ct = Term('sym', bf.param_names()[-1])
  outs = list(bv.a) if bv.k == 'tuple' else [bv]
  A = alg.Algebra(ev)
  for k, i in enumerate(diff_idx):
    x = Term('sym', site.params[i])
    wp = adjoint.words(pv, x, A)
    wb = adjoint.words(outs[k], ct, A) if k < len(outs) else None
    if wp is None or wb is None:
      raise AnalysisError(f'{short}.{site.name}: hand-written VJP ({site.rule}) of a map that is not recognisably linear in `{site.params[i]}` cannot be verified statically; no verdict')
    want = adjoint.transpose(wp)
    chk.check(adjoint.same(wb, want), rule, f'{short}.{site.name}: the backward rule {site.rule} is the transpose of the primal in `{site.params[i]}` (operator words: scale, cumsum ↔ reverse_cumsum)',
              adjoint.show(wb), where, adjoint.show(want), adjoint.show(wb))


def rule_custom_rules(chk, prog):
  """Hand-written derivative rules are outside the taint argument: each must pass on the tangent of every differentiable argument."""
  import ast
  import os
  from sa import custom_deriv
  rule = 'C08.4-custom-derivative-rules-complete'
  n = 0
  for name, m in sorted(prog.modules.items()):
    short = name.replace('dinosaur.', '')
    if short.endswith('_test'):
      continue
    sites = custom_deriv.scan(m.tree)
    for s_ in sites:
      for arg, text in s_.problems:
        chk.violation(rule, f'{short}.{s_.name}: {s_.kind} rule {s_.rule or "?"}, argument {arg}', text, (m.relpath, s_.lineno), 'the returned tangent depends on the tangent of every differentiable argument', text)
      if not s_.problems:
        chk.ok(rule, f'{short}.{s_.name}: {s_.kind} rule {s_.rule} uses the tangent / returns a cotangent of every differentiable argument', str(s_.params), (m.relpath, s_.lineno))
        verify_custom_rule(chk, prog, m, s_, rule)
    n += 1
  chk.ok(rule, f'{n} modules scanned for jax.custom_jvp / jax.custom_vjp definitions (decorator, partial and call forms) and their defjvp / defjvps / defvjp registrations', '')
  fx = os.path.join(os.path.dirname(os.path.dirname(os.path.abspath(__file__))), 'fixtures', 'custom_deriv_fixture', 'dinosaur', 'fixture.py')
  got = {s_.name: sorted(a for a, _ in s_.problems) for s_ in custom_deriv.scan(ast.parse(open(fx).read()))}
  want = {'complete': [], 'drops_y': ['y'], 'with_static': ['y'], 'vjp_zero': ['y'], 'wholesale': []}
  if got != want:
    raise AnalysisError(f'positive fixture for {rule} no longer matches ({got}): the scan is blind or over-eager')
  chk.ok(rule, 'positive fixture fixtures/custom_deriv_fixture: the three incomplete rules are reported, the two complete ones are not', str(got))
  chk.at_least(rule, 2)


def rule_static(chk, prog):
  from rules import c02, c03
  before = len(chk.instances)
  c02.rule_eigenvalues(chk, prog)
  for i in chk.instances[before:]:
    i['rule'] = 'C08.2-finite-static-factors'
  chk.minimum.pop('C02.2-laplacian', None)
  chk.at_least('C08.2-finite-static-factors', 6)
  # Tracer guard before np.linalg.inv
  before = len(chk.instances)
  c03.rule_strategies(chk, prog)
  keep = []
  for i in chk.instances[before:]:
    if i['rule'] == 'C03.7-static-step':
      i['rule'] = 'C08.2-finite-static-factors'
      keep.append(i)
  chk.instances[before:] = keep
  chk.violations[:] = [v for v in chk.violations if v in chk.instances]
  for r in list(chk.minimum):
    if r.startswith('C03.'):
      chk.minimum.pop(r)


def rule_checkpoint(chk, prog):
  rule = 'C08.3-checkpoint-transparent'
  f = prog.func(f'{TI}._inner_nested_scan')
  subs = [n for n in ast.walk(f.node) if isinstance(n, ast.FunctionDef) and n is not f.node]
  chk.require(len(subs) == 1, f'{f.qualname}: expected one nested function (the checkpointed sub-scan), found {len(subs)}')
  sub = subs[0]
  decs = [unparse(d) for d in sub.decorator_list]
  chk.check(decs == ['checkpoint_fn'], rule, f'{f.qualname}: the sub-scan (and nothing else) is wrapped by checkpoint_fn', str(decs), (f.file, sub.lineno))
  params = {a.arg for a in sub.args.args}
  chk.check(len(sub.args.args) == 2, rule, f'{f.qualname}: the checkpointed function takes exactly (carry, xs)', str(sorted(params)), (f.file, sub.lineno))
  free = {norm_ident(n.id) for n in ast.walk(sub) if isinstance(n, ast.Name) and isinstance(n.ctx, ast.Load)} - params
  outer = set(f.param_names())
  allowed_free = {'f', 'lengths', 'scan_fn', 'checkpoint_fn', '_inner_nested_scan'}
  traced = {'init', 'xs'}
  chk.check(free <= allowed_free and not (free & traced), rule, f'{f.qualname}: the checkpointed function captures only non-traced objects from the enclosing scope', str(sorted(free)), (f.file, sub.lineno),
            str(sorted(allowed_free)), str(sorted(free)))
  g = prog.func(f'{TI}.nested_checkpoint_scan')
  src = ast.unparse(g.node)
  dflt = None
  for a_, d_ in list(zip(g.args.kwonlyargs, g.args.kw_defaults)) + list(zip(reversed(g.args.args), reversed(g.args.defaults))):
    if a_.arg == 'checkpoint_fn':
      dflt = d_
  chk.check(dflt is not None and 'jax.checkpoint' in unparse(dflt), rule,
            f'{g.qualname}: the default checkpoint function is jax.checkpoint (value-transparent)', unparse(dflt) if dflt is not None else 'none', (g.file, g.lineno))
  chk.at_least(rule, 4)


def note_double_where(chk, prog):
  for f in all_functions(prog):
    for n in ast.walk(f.node):
      if isinstance(n, ast.Call) and unparse(n.func) in ('jnp.where', 'jax.numpy.where') and len(n.args) == 3:
        for arm in n.args[1:]:
          if any(isinstance(x, ast.BinOp) and isinstance(x.op, ast.Div) for x in ast.walk(arm)):
            chk.note(f'cross-reference (not armed): {f.qualname.replace("dinosaur.", "")}:{n.lineno} where(c, …/…, …) — a zero denominator in the untaken arm gives NaN gradients (double-where problem)')
            break


def run(chk, prog, tier):
  rule_custom_rules(chk, prog)
  rule_taint(chk, prog)
  rule_static(chk, prog)
  rule_checkpoint(chk, prog)
  note_double_where(chk, prog)
  chk.assume('jax primitives (einsum, exp, sin/cos, pad, slice, concatenate, where, maximum/minimum, scan, …) are differentiable with finite derivatives at admissible inputs, and jax\'s JVP / VJP of traceable code are mutually adjoint',
             'surface pressure is positive (Held–Suarez allow-table entries)')
  return dict(
      explanation=('Each listed entry point is abstractly interpreted with its call tree inlined (depth 8); all operation nodes that depend on the data parameters are '
                   'matched against a table of gradient-annihilating and non-finite-derivative operations (calls, integer casts, floor division, non-integer powers), with a '
                   'reasoned allow-table and a positive control; integrator / filter factories are evaluated and their returned closures analysed the same way; the rules that '
                   'make static factors finite before they meet traced values (C02.2) and guard the numpy inverse (C03.7) are re-run; the checkpointed sub-scan\'s free variables '
                   'are computed from the syntax tree. Not decided: numerical JVP / finite-difference agreement, adjointness, finiteness at every state.'),
      trusted_base=['python ast', 'differentiability of jax primitives'],
      analysed=dict(entry_points=len(entry_points(prog)) + len(closure_entries(prog))),
  )
