"""C20 — physical forcings: bounded, periodic, dissipative (radiation.py, held_suarez.py)."""
from __future__ import annotations

from fractions import Fraction

import sympy as sp

from sa import alg, domains, match, sym, util
from sa.model import AnalysisError
from sa.sym import Term

CLAIM = dict(
    text=('Decides, from the closed-form expressions in radiation.py and held_suarez.py: the incident flux is irradiance × a clamp of the very same sine-of-altitude '
          'expression at threshold 0 (so it is ≥ 0 and exactly 0 when the sun is at or below the horizon — SIGN domain with an indicator lemma); the irradiance is '
          'A + B·cos(orbital phase − perihelion) with A − |B| > 0 for the source constants (1361, 47) and A + B = 1 for both normalised variants; the sine of the '
          'altitude has the spherical-cosine-law form cos·cos·cos + sin·sin over the same two angles (hence lies in [−1, 1]); the flux is 2π-periodic in the '
          'orbital phase, the synodic phase and longitude (PERIODIC domain: every phase reaches sin/cos with an integer slope); SolarRadiation wires longitude / '
          'latitude / irradiance constants to the matching roles. Held–Suarez: kv ≥ 0, kv = 0 for σ ≤ σ_b, kt ≥ 0 (interval lemma on A + B·c, c ∈ [0, 1]), '
          'equilibrium temperature is a maximum with the floor, the nodal wind tendency is exactly −kv·(cos-weighted wind)/cos² for both components, vorticity / '
          'divergence are curl / div of that one field, the temperature tendency is −kt·((T_ref + T′) − T_eq), the surface-pressure tendency is identically zero. '
          'Does not decide the global-mean = S/4 clause (quadrature) nor the spectral-space identity "tendency = −kv·vorticity" beyond its nodal form.'
          " Later additions: C20.5 the solar geometry uses the Grid's offset-carrying longitudes (implementation longitudes + longitude_offset as a normal form); C20.6 normalised flux = flux/(mean+variation) by clamp-factor comparison; C20.7/C20.8 Held–Suarez rates (interval lemma), floor applied to the final temperature, drag on the wind from (vorticity, divergence)."),
    note=('Parameter assumptions (documented ranges): mean irradiance > variation ≥ 0; kf, ka ≥ 0, ks ≥ ka is NOT needed (interval lemma uses ka ≥ 0 and ks ≥ 0); '
          '0 < σ_b < 1, 0 < σ ≤ 1; positive scales. Lemma used: |cos a·cos b·cos c + sin a·sin b| ≤ 1 (Cauchy–Schwarz). Trusted: python ast, sympy canonicalisation.'),
    technique='abstract interpretation of the forcing expressions (SIGN with indicator lemma, PERIODIC phase-slope domain, unit-interval lemma) + normal-form comparison of linear coefficients',
)

RA = 'radiation'
HS = 'held_suarez'
PE = 'primitive_equations'
GRID_OPS = {f'spherical_harmonic.Grid.{n}' for n in ('to_nodal', 'to_modal', 'curl_cos_lat', 'div_cos_lat')}


def S(n):
  return Term('sym', n)


def floc(f):
  return (f.file, f.lineno)


# ------------------------------------------------------------------ helpers
def clamp_at_zero(t):
  """If `t` is a non-negative clamp of some x at threshold 0, returns (x, strict?, rest factors).

  Recognised spellings (x the gated value, r the remaining factors of the product):
    r * (x > 0) * x, r * (x >= 0) * x          indicator product
    r * maximum(x, 0) / maximum(0, x)           clamp
    where(x > 0, v, 0) with v a product containing x
    r * relu-like clip(x, 0, None|hi)
  """
  t = util.strip(t)
  fs = [util.strip(f) for f in match.plain_factors(t)]
  # indicator product
  for i, f in enumerate(fs):
    if f.k == 'cmp' and len(f.a[0]) == 1 and f.a[0][0] in ('>', '>=', '<', '<='):
      op = f.a[0][0]
      l, r = f.a[1]
      if op in ('<', '<='):
        l, r, op = r, l, {'<': '>', '<=': '>='}[op]
      if not (r.k == 'const' and r.a[0] == 0 and not isinstance(r.a[0], bool)):
        continue
      others = fs[:i] + fs[i + 1:]
      hit = [j for j, o in enumerate(others) if o == l]
      if len(hit) >= 1:
        rest = [o for j, o in enumerate(others) if j != hit[0]]
        return l, op, rest
  for i, f in enumerate(fs):
    if f.k == 'call' and alg.ext_short(f.a[0]) == 'maximum' and len(f.a[1]) == 2:
      x, y = f.a[1]
      for u, z in ((x, y), (y, x)):
        if z.k == 'const' and z.a[0] == 0 and not isinstance(z.a[0], bool):
          return u, '>', fs[:i] + fs[i + 1:]
    if f.k == 'call' and alg.ext_short(f.a[0]) == 'clip' and len(f.a[1]) >= 2:
      lo = f.a[1][1]
      if lo.k == 'const' and lo.a[0] == 0 and not isinstance(lo.a[0], bool):
        return f.a[1][0], '>', fs[:i] + fs[i + 1:]
    if f.k == 'call' and alg.ext_short(f.a[0]) == 'where' and len(f.a[1]) == 3:
      c, v, z = f.a[1]
      if z.k == 'const' and z.a[0] == 0 or (z.k == 'call' and alg.ext_short(z.a[0]) in ('zeros_like', 'zeros')):
        inner = clamp_at_zero(Term('bin', '*', c, v))
        if inner is not None:
          x, op, rest = inner
          return x, op, rest + fs[:i] + fs[i + 1:]
  return None


def irradiance_form(A, expr, phase_pred):
  """expr = a + b·cos(arg) with a, b free of the phase; returns (a, b, arg term) or None."""
  coss = [t for t in sym.walk(expr) if t.k == 'call' and alg.ext_short(t.a[0]) == 'cos' and len(t.a[1]) == 1 and sym.contains(t.a[1][0], phase_pred)]
  if len(coss) != 1:
    return None
  c = coss[0]
  B = alg.Algebra(A.ev, opaque=lambda t: t == c)
  B.named = list(A.named)
  catom = B.atom(c)
  e = B.conv(expr)
  res = alg.linear_coeffs(e, [catom])
  if res is None:
    return None
  (b,), a = res
  return a, b, c.a[1][0], B


# ------------------------------------------------------------ C20.1 flux
def rule_flux(chk, prog):
  rule = 'C20.1-flux-nonnegative-and-dark-at-night'
  f = prog.func(f'{RA}.get_radiation_flux')
  site, loc = f'{RA}.get_radiation_flux', floc(f)
  ev = sym.Evaluator(prog, sym.Options(opaque={f'{RA}.get_solar_sin_altitude', f'{RA}.get_direct_solar_irradiance'}))
  v, _, _ = ev.run(f)
  c = clamp_at_zero(v)
  if not chk.check(c is not None, rule, f'{site}: flux = irradiance × (clamp at 0 of a value x) with the gate and the factor being the same x',
                   sym.show(v, maxdepth=5)[:300], loc, 'I·(x > 0)·x, I·maximum(x, 0) or where(x > 0, I·x, 0)', sym.show(v, maxdepth=5)[:300]):
    return None
  x, op, rest = c
  ok = x.k == 'call' and util.callee_qual(x).endswith(f'{RA}.get_solar_sin_altitude')
  chk.check(ok, rule, f'{site}: the gated value is the sine of the solar altitude (night ⇔ sin(altitude) ≤ 0 ⇒ flux exactly 0)', sym.show(x, maxdepth=3)[:200], x.loc or loc,
            'get_solar_sin_altitude(…)', sym.show(x, maxdepth=3)[:200])
  if ok:
    g = prog.func(f'{RA}.get_solar_sin_altitude')
    b = ev.bind_args(g, list(x.a[1]), list(x.a[2]), None, None)
    chk.require(b is not None, f'{site}: cannot bind the arguments of get_solar_sin_altitude')
    ot = S(f.param_names()[0])
    want = dict(orbital_phase=Term('attr', ot, 'orbital_phase'), synodic_phase=Term('attr', ot, 'synodic_phase'),
                longitude=S('longitude'), latitude=S('latitude'))
    for pname, w in want.items():
      got = b.get(pname)
      chk.check(got == w, rule, f'{site}: sin-altitude receives `{pname}` from the matching input', sym.show(got)[:120] if got is not None else 'missing', x.loc or loc,
                sym.show(w), sym.show(got) if got is not None else 'missing')
  irr = [r for r in rest if r.k == 'call' and util.callee_qual(r).endswith(f'{RA}.get_direct_solar_irradiance')]
  sgn = domains.Sign(assume=[(lambda t: t.k == 'call' and util.callee_qual(t).endswith(f'{RA}.get_direct_solar_irradiance'), 'P')]).with_fact(x, 'NN' if op == '>=' else 'P')
  s = 'P'
  for r in rest:
    s = domains.mul(s, sgn.of(r))
  chk.check(len(irr) == 1 and domains.is_nonneg(s), rule, f'{site}: the remaining factor is the (positive) direct irradiance, so flux ≥ 0',
            f'factors besides the clamp: {[sym.show(r, maxdepth=2)[:60] for r in rest]}; sign {s}', loc, 'one call of get_direct_solar_irradiance, sign ≥ 0', f'sign {s}')
  if irr:
    g = prog.func(f'{RA}.get_direct_solar_irradiance')
    b = ev.bind_args(g, list(irr[0].a[1]), list(irr[0].a[2]), None, None)
    chk.require(b is not None, f'{site}: cannot bind the arguments of get_direct_solar_irradiance')
    ot = S(f.param_names()[0])
    for pname, w in (('orbital_phase', Term('attr', ot, 'orbital_phase')), ('mean_irradiance', S('mean_irradiance')), ('variation', S('variation'))):
      got = b.get(pname)
      chk.check(got == w, rule, f'{site}: irradiance receives `{pname}` from the matching input', sym.show(got)[:120] if got is not None else 'missing', irr[0].loc or loc,
                sym.show(w), sym.show(got) if got is not None else 'missing')
  chk.at_least(rule, 9)
  return True


def default_terms(ev, f):
  """{parameter: term of its default expression} (defaults are evaluated in the module scope)."""
  a = f.args
  names = [x.arg for x in a.posonlyargs + a.args]
  defaults = [None] * (len(names) - len(a.defaults)) + list(a.defaults)
  out = {}
  for n, d in list(zip(names, defaults)) + [(x.arg, d) for x, d in zip(a.kwonlyargs, a.kw_defaults)]:
    if d is not None:
      out[n] = ev.eval_module_expr(f.module, d)
  return out


def is_global(name):
  return lambda t: t.k == 'global' and t.a[1] == name


def rule_irradiance(chk, prog):
  rule = 'C20.2-irradiance-positive-and-peaks-at-perihelion'
  f = prog.func(f'{RA}.get_direct_solar_irradiance')
  site, loc = f'{RA}.get_direct_solar_irradiance', floc(f)
  ev = sym.Evaluator(prog)
  v, _, _ = ev.run(f)
  A = alg.Algebra(ev, expand_globals=False)
  mean = A.name(lambda t: t == S('mean_irradiance'), 'mean', positive=True)
  var = A.name(lambda t: t == S('variation'), 'variation', nonnegative=True)
  phase = lambda t: t == S('orbital_phase')
  form = irradiance_form(A, v, phase)
  if not chk.check(form is not None, rule, f'{site}: irradiance = a + b·cos(θ) with a, b independent of the orbital phase', sym.show(v)[:200], loc):
    return
  a, b, arg, B = form
  chk.check(alg.equal(a, mean) and alg.equal(b, var), rule, f'{site}: a = mean irradiance, b = variation (range [mean − variation, mean + variation])', f'a={a}, b={b}', loc,
            'a=mean, b=variation', f'a={a}, b={b}')
  # θ = orbital_phase − perihelion: slope 1 and zero at the perihelion
  C = alg.Algebra(ev, expand_globals=False)
  ph = C.name(phase, 'phi')
  pe = C.name(lambda t: t == S('perihelion'), 'perihelion')
  chk.check(alg.equal(C.conv(arg), ph - pe), rule, f'{site}: θ = orbital_phase − perihelion (maximum mean + variation exactly at the perihelion, period one year)',
            sym.show(arg)[:120], loc, 'orbital_phase - perihelion', str(C.conv(arg)))
  # defaults: mean > variation > 0 from the source constants, same unit
  m = prog.module(RA)
  tsi = ev.global_definition(Term('global', m.name, 'TOTAL_SOLAR_IRRADIANCE'))
  siv = ev.global_definition(Term('global', m.name, 'SOLAR_IRRADIANCE_VARIATION'))
  D = alg.Algebra(ev, expand_globals=False)
  ratio = sp.cancel(D.conv(tsi) / D.conv(siv))
  ok = ratio.is_number and ratio > 1
  chk.check(bool(ok), rule, f'{RA}: TOTAL_SOLAR_IRRADIANCE / SOLAR_IRRADIANCE_VARIATION is a pure number > 1 (same unit; irradiance ≥ mean − variation > 0 all year)',
            f'ratio = {ratio}', (m.path, 1), 'a number > 1', str(ratio))
  dflt = default_terms(ev, f)
  want = dict(mean_irradiance='TOTAL_SOLAR_IRRADIANCE', variation='SOLAR_IRRADIANCE_VARIATION', perihelion='PERIHELION')
  for n, g in want.items():
    got = dflt.get(n)
    chk.check(got is not None and got.k == 'global' and got.a[1] == g, rule, f'{site}: default `{n}` is the module constant {g}', sym.show(got) if got is not None else 'missing', loc,
              g, sym.show(got) if got is not None else 'missing')
  for fn in (f'{RA}.get_radiation_flux', f'{RA}.get_normalized_radiation_flux'):
    dmx = default_terms(ev, prog.func(fn))
    for n in ('mean_irradiance', 'variation'):
      got = dmx.get(n)
      chk.check(got is not None and got.k == 'global' and got.a[1] == want[n], rule, f'{fn}: default `{n}` is the module constant {want[n]}', sym.show(got) if got is not None else 'missing',
                floc(prog.func(fn)), want[n], sym.show(got) if got is not None else 'missing')
  chk.at_least(rule, 11)


# ------------------------------------------------- C20.3 sine of the altitude
def trig_factor(t, fn):
  t = util.strip(t)
  if t.k == 'call' and alg.ext_short(t.a[0]) == fn and len(t.a[1]) == 1:
    return t.a[1][0]
  return None


def rule_sin_altitude(chk, prog):
  rule = 'C20.3-sin-altitude-cosine-law'
  f = prog.func(f'{RA}.get_solar_sin_altitude')
  site, loc = f'{RA}.get_solar_sin_altitude', floc(f)
  ev = sym.Evaluator(prog, sym.Options(opaque={f'{RA}.get_declination', f'{RA}.get_hour_angle'}))
  v, _, _ = ev.run(f)
  v = util.strip(v)
  ok = v.k == 'bin' and v.a[0] == '+'
  if not chk.check(ok, rule, f'{site}: result is a sum of two products', sym.show(v, maxdepth=4)[:200], loc, 'cos a·cos b·cos h + sin a·sin b', sym.show(v, maxdepth=4)[:200]):
    return
  terms = [match.plain_factors(v.a[1]), match.plain_factors(v.a[2])]
  found = None
  for t3, t2 in ((terms[0], terms[1]), (terms[1], terms[0])):
    cs = [trig_factor(x, 'cos') for x in t3]
    ss = [trig_factor(x, 'sin') for x in t2]
    if len(t3) == 3 and len(t2) == 2 and all(c is not None for c in cs) and all(s is not None for s in ss):
      if set(ss) <= set(cs) and len(set(ss)) == 2:
        h = [c for c in cs if c not in ss]
        if len(h) == 1:
          found = (ss, h[0])
  if not chk.check(found is not None, rule,
                   f'{site}: cos(a)·cos(b)·cos(h) + sin(a)·sin(b) over the same two angles a, b (Cauchy–Schwarz ⇒ value in [−1, 1], so flux ≤ irradiance ≤ perihelion constant)',
                   sym.show(v, maxdepth=5)[:300], loc, 'cos a·cos b·cos h + sin a·sin b', sym.show(v, maxdepth=5)[:300]):
    return
  (a_, b_), h = found
  angles = {sym.show(a_, maxdepth=2), sym.show(b_, maxdepth=2)}
  lat = S('latitude')
  dec = [x for x in (a_, b_) if x.k == 'call' and util.callee_name(x) == 'get_declination']
  chk.check(lat in (a_, b_) and len(dec) == 1, rule, f'{site}: the two angles are the latitude and the solar declination', str(sorted(angles)), loc,
            'latitude, get_declination(orbital_phase)', str(sorted(angles)))
  chk.check(h.k == 'call' and util.callee_name(h) == 'get_hour_angle', rule, f'{site}: the third cosine is the hour angle', sym.show(h, maxdepth=2)[:120], loc)
  if dec:
    chk.check(util.arg(dec[0], 0, 'orbital_phase') == S('orbital_phase'), rule, f'{site}: declination is taken at the orbital phase', sym.show(dec[0])[:120], loc)
  if h.k == 'call' and util.callee_name(h) == 'get_hour_angle':
    g = prog.func(f'{RA}.get_hour_angle')
    b = ev.bind_args(g, list(h.a[1]), list(h.a[2]), None, None)
    chk.require(b is not None, f'{site}: cannot bind the arguments of get_hour_angle')
    for n in ('orbital_phase', 'synodic_phase', 'longitude'):
      chk.check(b.get(n) == S(n), rule, f'{site}: hour angle receives `{n}` from the matching input', sym.show(b.get(n)) if b.get(n) is not None else 'missing', h.loc or loc,
                n, sym.show(b.get(n)) if b.get(n) is not None else 'missing')
  # declination: bounded amplitude × sin(phase − equinox)
  g = prog.func(f'{RA}.get_declination')
  dv, _, _ = sym.Evaluator(prog).run(g)
  A = alg.Algebra(sym.Evaluator(prog), deep_globals=True)
  ph = A.name(lambda t: t == S('orbital_phase'), 'phi')
  e = A.conv(dv)
  incl = sp.Rational('23.45') * sp.pi / 180
  eq = sp.Integer(79) * 2 * sp.pi / sp.Rational('365.25')
  amp = sp.simplify(e.subs(ph, eq + sp.pi / 2))
  zero = sp.simplify(e.subs(ph, eq))
  chk.check(zero == 0 and amp.is_number and 0 < amp < sp.pi / 2, rule, f'{RA}.get_declination: zero at the spring equinox, amplitude in (0, π/2) (declination is a latitude)',
            f'value at equinox {zero}, amplitude {sp.N(amp, 6)}', floc(g), 'δ(equinox) = 0, 0 < δ_max < π/2', f'{zero}, {amp}')
  chk.at_least(rule, 9)


# ------------------------------------------------------- C20.4 periodicity
def number_of(ev):
  A = alg.Algebra(ev, deep_globals=True)
  def num(t):
    try:
      e = sp.nsimplify(A.conv(t), rational=False)
    except Exception:
      return None
    e = sp.simplify(e)
    if e.is_Rational:
      return Fraction(int(e.p), int(e.q))
    return None
  return num


def rule_periodic(chk, prog):
  rule = 'C20.4-periodic-in-phase'
  f = prog.func(f'{RA}.get_radiation_flux')
  site, loc = f'{RA}.get_radiation_flux', floc(f)
  ev = sym.Evaluator(prog)
  v, _, _ = ev.run(f)
  ot = S(f.param_names()[0])
  variables = [
      ('orbital phase', lambda t: t == Term('attr', ot, 'orbital_phase')),
      ('synodic (daily) phase', lambda t: t == Term('attr', ot, 'synodic_phase')),
      ('longitude', lambda t: t == S('longitude')),
  ]
  num = number_of(ev)
  for label, pred in variables:
    chk.require(sym.contains(v, pred), f'{site}: the flux does not depend on the {label} at all')
    P = domains.Periodic(pred, num)
    r = P.of(v)
    good = r[0] == 'A' and r[1] == 0
    chk.check(good, rule, f'{site}: the flux is 2π-periodic in the {label} (it reaches sin/cos with integer slope only)',
              'periodic' if good else str(r[1]), loc, 'slope 0 (periodic)', str(r[1]))
  # the same for the pieces that are public on their own
  for fn, label, pn in ((f'{RA}.get_direct_solar_irradiance', 'orbital phase', 'orbital_phase'), (f'{RA}.get_declination', 'orbital phase', 'orbital_phase'),
                        (f'{RA}.equation_of_time', 'orbital phase', 'orbital_phase')):
    g = prog.func(fn)
    gv, _, _ = ev.run(g)
    P = domains.Periodic(lambda t, pn=pn: t == S(pn), num)
    r = P.of(gv)
    good = r[0] == 'A' and r[1] == 0
    chk.check(good, rule, f'{fn}: 2π-periodic in the {label}', 'periodic' if good else str(r[1]), floc(g), 'slope 0 (periodic)', str(r[1]))
  # hour angle: slope exactly 1 in the synodic phase and in longitude (one revolution per day / per 2π of longitude), periodic in the orbital phase
  g = prog.func(f'{RA}.get_hour_angle')
  gv, _, _ = ev.run(g)
  for pn, want in (('synodic_phase', 1), ('longitude', 1), ('orbital_phase', 0)):
    P = domains.Periodic(lambda t, pn=pn: t == S(pn), num)
    r = P.of(gv)
    chk.check(r[0] == 'A' and r[1] == want, rule, f'{RA}.get_hour_angle: phase slope in `{pn}` is {want}', str(r[1]), floc(g), str(want), str(r[1]))
  chk.at_least(rule, 9)


# ------------------------------------------- C20.5 class wiring / normalised
def rule_solar_class(chk, prog):
  rule = 'C20.5-solar-radiation-roles'
  c = prog.cls(f'{RA}.SolarRadiation')
  f = c.find_method('radiation_flux')
  site, loc = f'{RA}.SolarRadiation.radiation_flux', floc(f)
  ev = sym.Evaluator(prog, sym.Options(opaque={f'{RA}.get_radiation_flux', f'{RA}.SolarRadiation.time_to_orbital_time'}))
  v, _, env = ev.run(f)
  me = env['self']
  chk.require(v.k == 'call' and util.callee_name(v) == 'get_radiation_flux', f'{site}: does not return get_radiation_flux(…)')
  g = prog.func(f'{RA}.get_radiation_flux')
  b = ev.bind_args(g, list(v.a[1]), list(v.a[2]), None, None)
  chk.require(b is not None, f'{site}: cannot bind the arguments of get_radiation_flux')
  selfattr = lambda n: (lambda t: t is not None and t.k == 'attr' and t.a[1] == n and t.a[0] == me)
  for pn, an in (('longitude', 'lon'), ('latitude', 'lat'), ('mean_irradiance', 'total_solar_irradiance'), ('variation', 'solar_irradiance_variation')):
    chk.check(selfattr(an)(b.get(pn)), rule, f'{site}: `{pn}` ← self.{an}', sym.show(b.get(pn)) if b.get(pn) is not None else 'missing', loc, f'self.{an}',
              sym.show(b.get(pn)) if b.get(pn) is not None else 'missing')
  o = b.get(g.param_names()[0])
  ok = o is not None and o.k == 'call' and util.callee_name(o) == 'time_to_orbital_time' and util.call_args(o) == [S('time')]
  chk.check(ok, rule, f'{site}: orbital time ← self.time_to_orbital_time(time) (wrapped phases; the flux is periodic so the wrap is invisible)', sym.show(o)[:120] if o is not None else 'missing', loc)
  # constructor
  f = c.find_method('__init__')
  site, loc = f'{RA}.SolarRadiation.__init__', floc(f)
  ev2 = sym.Evaluator(prog, sym.Options(opaque={f'{RA}.datetime_to_orbital_time', f'{RA}.datetime64_to_datetime'}))
  _, _, env = ev2.run(f)
  obj = env['self']
  lon, lat = util.field(obj, 'lon'), util.field(obj, 'lat')
  chk.require(lon is not None and lat is not None, f'{site}: lon / lat are not set')
  is_axis = lambda i: (lambda t: t.k == 'sub' and t.a[1] == sym.const(i) and t.a[0].k == 'attr' and t.a[0].a[1] in ('nodal_axes', 'nodal_mesh'))
  chk.check(sym.contains(lon, is_axis(0)) and not sym.contains(lon, is_axis(1)), rule, f'{site}: self.lon is the longitude mesh (axis 0)', sym.show(lon)[:160], loc)
  # the Grid's axes carry longitude_offset; the implementation object's own nodal_axes start at longitude 0 whatever the offset
  impl_axis = lambda i: (lambda t: t.k == 'sub' and t.a[1] == sym.const(i) and t.a[0].k == 'attr' and t.a[0].a[1] in ('nodal_axes', 'nodal_mesh') and t.a[0].a[0].k == 'attr'
                         and t.a[0].a[0].a[1] == 'spherical_harmonics')
  raw = [t for t in sym.walk(lon) if impl_axis(0)(t)]
  if raw:
    Al = alg.Algebra(ev2, opaque=lambda t: impl_axis(0)(t))
    off = Term('attr', raw[0].a[0].a[0].a[0], 'longitude_offset')
    okl = alg.equal(Al.conv(lon), Al.conv(raw[0]) + Al.conv(off))
  else:
    okl = True   # taken from the Grid-level property as a whole
  chk.check(okl, rule, f'{site}: self.lon carries the grid\'s longitude_offset (the implementation object\'s own axes start at longitude 0 whatever the offset)', sym.show(lon)[:160], loc,
            'implementation longitudes + grid.longitude_offset', sym.show(lon)[:160])
  la = trig_factor(lat, 'arcsin')
  chk.check(la is not None and is_axis(1)(util.strip(la)), rule, f'{site}: self.lat = arcsin(sin-latitude mesh) (axis 1)', sym.show(lat)[:160], loc, 'arcsin(nodal_mesh[1])', sym.show(lat)[:160])
  for fld, g_ in (('total_solar_irradiance', 'TOTAL_SOLAR_IRRADIANCE'), ('solar_irradiance_variation', 'SOLAR_IRRADIANCE_VARIATION')):
    t = util.field(obj, fld)
    ok = t is not None and t.k == 'call' and util.callee_name(t) == 'nondimensionalize' and is_global(g_)(util.call_args(t)[-1])
    chk.check(ok, rule, f'{site}: self.{fld} = physics_specs.nondimensionalize({g_}) (one linear map for both, so mean > variation is preserved)', sym.show(t)[:160] if t is not None else 'missing', loc)
  # normalised variants
  rule = 'C20.6-normalised-peak-is-one'
  f = prog.func(f'{RA}.get_normalized_radiation_flux')
  site, loc = f'{RA}.get_normalized_radiation_flux', floc(f)
  # implementation-agnostic: with everything inlined, normalised flux · (mean + variation) must be the plain flux of the same
  # inputs (normalising the inputs or the result are the same thing; dividing by anything else — e.g. the instantaneous
  # irradiance — is not)
  evn = sym.Evaluator(prog)
  vn, _, _ = evn.run(f)
  vf, _, _ = evn.run(g)
  A = alg.Algebra(evn, expand_globals=False)
  mean = A.name(lambda t: t == S('mean_irradiance'), 'mean', positive=True)
  var = A.name(lambda t: t == S('variation'), 'variation', nonnegative=True)
  # the clamp indicator (s > 0) is invariant under positive rescaling of the irradiance; both sides carry the same atom
  cn, cf = clamp_at_zero(vn), clamp_at_zero(vf)
  if cn is not None and cf is not None and cn[0] == cf[0]:
    # both are (positive factor) × clamp of the same sine of altitude, whatever the clamp idiom: compare the factors
    prod = lambda fs: sp.Mul(*[A.conv(x) for x in fs]) if fs else sp.Integer(1)
    lhs, rhs = prod(cn[2]) * (mean + var), prod(cf[2])
  else:
    lhs, rhs = A.conv(vn) * (mean + var), A.conv(vf)
  chk.check(alg.equal(lhs, rhs), rule, f'{site}: normalised flux = flux / (mean + variation) for the same orbital time, longitude and latitude (peak irradiance 1, seasonal cycle kept)',
            str(sp.simplify(lhs / rhs))[:160] if rhs != 0 else 'flux is 0', loc, 'flux/(mean + variation)', str(sp.simplify(lhs / rhs))[:200] if rhs != 0 else '')
  f = c.find_method('normalized')
  site, loc = f'{RA}.SolarRadiation.normalized', floc(f)
  v, _, _ = ev2.run(f)
  chk.require(v.k == 'obj', f'{site}: does not return the constructed object: {sym.show(v, maxdepth=2)[:120]}')
  t_, s_ = util.field(v, 'total_solar_irradiance'), util.field(v, 'solar_irradiance_variation')
  B = alg.Algebra(ev2, expand_globals=False)
  nd = lambda g_: (lambda t: t.k == 'call' and util.callee_name(t) == 'nondimensionalize' and is_global(g_)(util.call_args(t)[-1]))
  T0 = B.name(nd('TOTAL_SOLAR_IRRADIANCE'), 'T0', positive=True)
  V0 = B.name(nd('SOLAR_IRRADIANCE_VARIATION'), 'V0', positive=True)
  te, se = B.conv(t_), B.conv(s_)
  chk.check(alg.equal(te + se, 1) and alg.equal(te * V0, se * T0), rule,
            f'{site}: both constants are divided by the one sum taken before either is modified: peak irradiance 1, ratio unchanged', f'total→{te}, variation→{se}', loc,
            'T0/(T0+V0), V0/(T0+V0)', f'{te}, {se}')
  chk.at_least('C20.5-solar-radiation-roles', 9)
  chk.at_least(rule, 2)


# ------------------------------------------------------- Held–Suarez rates
def hs_symbols(A, me):
  at = lambda n: (lambda t: t.k == 'attr' and t.a[1] == n and t.a[0] == me)
  names = {}
  for n in ('kf', 'ka', 'ks'):
    names[n] = A.name(at(n), n, nonnegative=True)
  names['sigma'] = A.name(at('sigma'), 'sigma', positive=True)
  names['sigma_b'] = A.name(at('sigma_b'), 'sigma_b', positive=True)
  return names


def in_unit_interval(t, A, n):
  """t ∈ [0, 1] by the lemmas: trig ** even; maximum(0, r) with 1 − r ≥ 0; products of such."""
  t = util.strip(t)
  fs = [util.strip(x) for x in match.plain_factors(t)]
  if len(fs) > 1:
    return all(in_unit_interval(x, A, n) for x in fs)
  if t.k == 'bin' and t.a[0] == '**':
    base, e = util.strip(t.a[1]), t.a[2]
    if e.k == 'const' and isinstance(e.a[0], int) and e.a[0] > 0 and e.a[0] % 2 == 0:
      return trig_factor(base, 'cos') is not None or trig_factor(base, 'sin') is not None
    return False
  if t.k == 'call' and alg.ext_short(t.a[0]) in ('square',) and len(t.a[1]) == 1:
    b = util.strip(t.a[1][0])
    return trig_factor(b, 'cos') is not None or trig_factor(b, 'sin') is not None
  c = clamp_at_zero(t)
  if c is not None and not c[2] and t.k == 'call':
    r = A.conv(c[0])
    tau, beta = sp.Symbol('tau', nonnegative=True), sp.Symbol('beta', positive=True)
    e = sp.cancel((1 - r).subs({n['sigma']: 1 - tau}).subs({n['sigma_b']: 1 - beta}))
    return bool(e.is_nonnegative)
  return False


def rule_hs_rates(chk, prog):
  rule = 'C20.7-held-suarez-rates'
  c = prog.cls(f'{HS}.HeldSuarezForcing')
  ev = sym.Evaluator(prog)
  # kv
  f = c.find_method('kv')
  site, loc = f'{HS}.HeldSuarezForcing.kv', floc(f)
  v, _, env = ev.run(f)
  me = env['self']
  A = alg.Algebra(ev)
  n = hs_symbols(A, me)
  cl = clamp_at_zero(v)
  if chk.check(cl is not None, rule, f'{site}: kv = (factors) × clamp-at-0 of a level function', sym.show(v)[:200], loc, 'kf·maximum(0, r(σ))', sym.show(v)[:200]):
    r, _, rest = cl
    sgn = domains.Sign(assume=[(lambda t: t.k == 'attr' and t.a[1] in ('kf', 'ka', 'ks') and t.a[0] == me, 'NN')])
    s = 'P'
    for x in rest:
      s = domains.mul(s, sgn.of(x))
    chk.check(domains.is_nonneg(s), rule, f'{site}: kv ≥ 0 (non-negative friction rate)', f'sign of the factors besides the clamp: {s}', loc, '≥ 0', s)
    re = A.conv(r)
    delta, beta = sp.Symbol('delta', nonnegative=True), sp.Symbol('beta', positive=True)
    above = sp.cancel(re.subs({n['sigma']: n['sigma_b'] - delta}).subs({n['sigma_b']: 1 - beta}))
    chk.check(bool(above.is_nonpositive), rule, f'{site}: the clamped level function is ≤ 0 for σ ≤ σ_b, so kv = 0 above the boundary layer', f'r(σ_b − δ) = {above}', loc, '≤ 0', str(above))
    chk.check(sym.contains(r, lambda t: t.k == 'attr' and t.a[1] == 'sigma' and t.a[0] == me), rule, f'{site}: the rate depends on the level (σ)', sym.show(r)[:120], loc)
  # kt
  f = c.find_method('kt')
  site, loc = f'{HS}.HeldSuarezForcing.kt', floc(f)
  v, _, env = ev.run(f)
  me = env['self']
  A = alg.Algebra(ev)
  n = hs_symbols(A, me)
  # find the unit-interval shape factor c: kt = a + b·c
  cands = [t for t in sym.walk(v) if t.k == 'bin' and t.a[0] == '*' and in_unit_interval(t, A, n)]
  cands = [t for t in cands if not any(o is not t and sym.contains(o, lambda x: x is t) for o in cands)]
  if chk.check(len(cands) == 1, rule, f'{site}: kt = a + b·c with one shape factor c ∈ [0, 1] (clamped level function × even power of cos/sin of latitude)',
               sym.show(v)[:240], loc, 'ka + (ks − ka)·maximum(0, r(σ))·cos⁴', sym.show(v)[:240]):
    cterm = cands[0]
    B = alg.Algebra(ev, opaque=lambda t: t == cterm)
    nb = hs_symbols(B, me)
    catom = B.atom(cterm)
    res = alg.linear_coeffs(B.conv(v), [catom])
    if chk.check(res is not None, rule, f'{site}: kt is affine in the shape factor', str(B.conv(v)), loc):
      (b,), a = res
      lo, hi = sp.simplify(a), sp.simplify(a + b)
      chk.check(bool(lo.is_nonnegative) and bool(hi.is_nonnegative), rule, f'{site}: kt lies between a and a + b, both ≥ 0 for ka, ks ≥ 0 (non-negative relaxation rate)',
                f'a = {lo}, a + b = {hi}', loc, 'a ≥ 0 and a + b ≥ 0', f'{lo}, {hi}')
  # equilibrium temperature floor
  f = c.find_method('equilibrium_temperature')
  site, loc = f'{HS}.HeldSuarezForcing.equilibrium_temperature', floc(f)
  v, _, env = ev.run(f)
  me = env['self']
  v = util.strip(v)
  is_min = lambda t: util.strip(t).k == 'attr' and util.strip(t).a[1] == 'minT' and util.strip(t).a[0] == me
  ok = False
  if v.k == 'call' and alg.ext_short(v.a[0]) == 'maximum' and len(v.a[1]) == 2:
    ok = any(is_min(x) for x in v.a[1])
  elif v.k == 'call' and alg.ext_short(v.a[0]) == 'clip' and len(v.a[1]) >= 2:
    ok = is_min(v.a[1][1])
  elif v.k == 'call' and alg.ext_short(v.a[0]) == 'where' and len(v.a[1]) == 3:
    cnd, x, y = v.a[1]
    if cnd.k == 'cmp' and len(cnd.a[0]) == 1:
      op = cnd.a[0][0]
      l, r = cnd.a[1]
      if op in ('>', '>=') and ((is_min(r) and x == l and is_min(y)) or (is_min(l) and is_min(x) and y == r)):
        ok = True
      if op in ('<', '<=') and ((is_min(l) and x == r and is_min(y)) or (is_min(r) and is_min(x) and y == l)):
        ok = True
  chk.check(ok, rule, f'{site}: result is maximum(self.minT, ·): the equilibrium temperature is bounded below by its floor', sym.show(v, maxdepth=2)[:200], loc,
            'maximum(self.minT, …)', sym.show(v, maxdepth=2)[:200])
  chk.at_least(rule, 7)


def rule_hs_tendencies(chk, prog):
  rule = 'C20.8-held-suarez-tendencies'
  c = prog.cls(f'{HS}.HeldSuarezForcing')
  f = c.find_method('explicit_terms')
  site, loc = f'{HS}.HeldSuarezForcing.explicit_terms', floc(f)
  # compute_diagnostic_state is inlined (whether the forcing goes through it or rebuilds the wind itself must not matter);
  # the Grid operators, the wind inversion and the rate helpers stay opaque
  opaque = {'spherical_harmonic.get_cos_lat_vector', f'{HS}.HeldSuarezForcing.kv', f'{HS}.HeldSuarezForcing.kt', f'{HS}.HeldSuarezForcing.equilibrium_temperature',
            'sigma_coordinates.cumulative_sigma_integral', 'sigma_coordinates.sigma_integral'} | GRID_OPS | {'spherical_harmonic.Grid.cos_lat_grad', 'spherical_harmonic.Grid.laplacian'}
  ev = sym.Evaluator(prog, sym.Options(opaque=opaque))
  v, _, env = ev.run(f)
  me = env['self']
  st = S(f.param_names()[1])
  chk.require(v.k == 'obj' and v.a[0].endswith('.State'), f'{site}: does not return a primitive_equations.State: {sym.show(v, maxdepth=2)[:120]}')
  fld = lambda n_: util.field(v, n_)
  def unwrap(t, name):
    """argument of a Grid operator call `name`."""
    if t is not None and t.k == 'call' and util.callee_name(t) == name:
      args = util.call_args(t)
      return args[0] if args else None
    return None
  vor, div = fld('vorticity'), fld('divergence')
  uv_v, uv_d = unwrap(vor, 'curl_cos_lat'), unwrap(div, 'div_cos_lat')
  chk.check(uv_v is not None and uv_d is not None, rule, f'{site}: vorticity tendency = curl_cos_lat(·), divergence tendency = div_cos_lat(·)',
            f'{sym.show(vor, maxdepth=2)[:90]} | {sym.show(div, maxdepth=2)[:90]}', loc, 'curl_cos_lat(w), div_cos_lat(w)',
            f'{util.callee_name(vor) if vor is not None else None}, {util.callee_name(div) if div is not None else None}')
  if uv_v is None or uv_d is None:
    return
  chk.check(uv_v == uv_d, rule, f'{site}: curl and div are taken of one and the same velocity-tendency field', '', loc)
  # default clip: the spectral operators are called without clip=False
  for t, nm in ((vor, 'curl_cos_lat'), (div, 'div_cos_lat')):
    kw = util.call_kwargs(t)
    chk.check('clip' not in kw or kw['clip'] == sym.TRUE, rule, f'{site}: {nm} keeps its default wavenumber clipping', str(sorted(kw)), loc)
  nod = unwrap(uv_v, 'to_modal')
  if not chk.check(nod is not None, rule, f'{site}: the velocity tendency is built on the nodal grid and transformed once', sym.show(uv_v, maxdepth=2)[:160], loc):
    return
  grid = Term('attr', Term('attr', me, 'coords'), 'horizontal')
  winds = list({t for t in sym.walk(nod) if t.k == 'call' and util.callee_name(t) == 'to_nodal' and util.call_args(t) and util.callee_name(util.call_args(t)[0]) == 'get_cos_lat_vector'})
  if not chk.check(len(winds) == 1, rule, f'{site}: the drag acts on one nodal wind field to_nodal(get_cos_lat_vector(…))', str([sym.show(w_, maxdepth=3)[:80] for w_ in winds]), loc):
    return
  u = winds[0]
  inv = util.call_args(u)[0]
  kw = util.call_kwargs(inv)
  ok = kw.get('vorticity') == Term('attr', st, 'vorticity') and kw.get('divergence') == Term('attr', st, 'divergence') and kw.get('grid') == grid
  chk.check(ok, rule, f'{site}: the wind is inverted from the vorticity and divergence of the incoming state on the equation grid', sym.show(inv, maxdepth=3)[:160], loc)
  chk.check(kw.get('clip') == sym.FALSE, rule, f'{site}: the wind keeps the extra total wavenumber that cosθ∇ produces (clip=False), so curl / div of −kv·u/cos² '
            'return −kv·(ζ, δ) for every retained wavenumber', f"clip={sym.show(kw['clip']) if 'clip' in kw else 'default (True)'}", loc, 'clip=False', sym.show(kw.get('clip')) if 'clip' in kw else 'default (True)')
  src = None
  is_me_call = lambda n_: (lambda t: t.k == 'call' and util.callee_name(t) == n_ and t.a[0].k in ('bound', 'attr') and t.a[0].a[0] == me)
  A = alg.Algebra(ev, opaque=lambda t: t == u or any(is_me_call(n_)(t) for n_ in ('kv', 'kt', 'equilibrium_temperature')))
  ua = A.atom(u)
  kva = A.name(is_me_call('kv'), 'kv', nonnegative=True)
  cosl = A.name(lambda t: t.k == 'attr' and t.a[1] == 'cos_lat', 'cos_lat', positive=True)
  sec2 = A.name(lambda t: t.k == 'attr' and t.a[1] == 'sec2_lat', 'sec2_lat', positive=True)
  res = alg.linear_coeffs(A.conv(nod).subs(sec2, 1 / cosl**2), [ua])
  if chk.check(res is not None and res[1] == 0, rule, f'{site}: nodal velocity tendency is linear-homogeneous in the (cos-weighted) wind', str(A.conv(nod))[:200], loc):
    coef = res[0][0]
    chk.check(alg.equal(coef * cosl**2, -kva), rule, f'{site}: d(u, v)/dt = −kv·(u, v): coefficient × cos² = −self.kv() (Rayleigh drag, same rate for both components)',
              f'coefficient = {coef}', loc, '-kv/cos_lat**2', str(coef))
  # temperature
  tt = fld('temperature_variation')
  nodt = unwrap(tt, 'to_modal')
  if chk.check(nodt is not None, rule, f'{site}: temperature tendency is built on the nodal grid and transformed once', sym.show(tt, maxdepth=2)[:160], loc):
    is_tv = lambda t: t.k == 'call' and util.callee_name(t) == 'to_nodal' and util.call_args(t) == [Term('attr', st, 'temperature_variation')]
    is_ref = lambda t: t.k == 'attr' and t.a[1] == 'reference_temperature' and t.a[0] == me
    teq = [t for t in sym.walk(nodt) if is_me_call('equilibrium_temperature')(t)]
    B = alg.Algebra(ev)
    a_tv, a_ref = B.name(is_tv, 'T_variation'), B.name(is_ref, 'T_ref')
    a_kt, a_teq = B.name(is_me_call('kt'), 'kt'), B.name(is_me_call('equilibrium_temperature'), 'T_eq')
    e = B.conv(nodt)
    chk.check(alg.equal(e, -a_kt * ((a_ref + a_tv) - a_teq)), rule, f'{site}: dT/dt = −kt·((T_ref + T′) − T_eq): Newtonian relaxation of the full temperature toward equilibrium',
              str(e)[:200], loc, '-kt*((T_ref + T_variation) - T_eq)', str(e)[:200])
    chk.require(len(teq) >= 1, f'{site}: self.equilibrium_temperature(…) is not called in the temperature tendency')
    ps = util.call_args(teq[0])
    ok = len(ps) == 1 and trig_factor(ps[0], 'exp') is not None
    if ok:
      inner = unwrap(trig_factor(ps[0], 'exp'), 'to_nodal')
      ok = inner == Term('attr', st, 'log_surface_pressure')
    chk.check(ok, rule, f'{site}: T_eq is evaluated at the nodal surface pressure exp(to_nodal(state.log_surface_pressure))', sym.show(ps[0], maxdepth=4)[:160] if ps else 'missing', loc)
  lsp = fld('log_surface_pressure')
  z = domains.Sign().of(lsp) if lsp is not None else 'T'
  chk.check(z == 'Z', rule, f'{site}: the surface-pressure tendency is identically zero', sym.show(lsp)[:120] if lsp is not None else 'missing', loc, 'zeros', sym.show(lsp)[:120] if lsp is not None else 'missing')
  # constructor: coordinates
  f = c.find_method('__init__')
  site, loc = f'{HS}.HeldSuarezForcing.__init__', floc(f)
  _, _, env = sym.Evaluator(prog, sym.Options(opaque={'sigma_coordinates.SigmaCoordinates.centers'})).run(f)
  obj = env['self']
  sg, lat = util.field(obj, 'sigma'), util.field(obj, 'lat')
  chk.require(sg is not None and lat is not None, f'{site}: sigma / lat are not set')
  chk.check(sym.contains(sg, lambda t: (t.k == 'attr' and t.a[1] == 'centers') or (t.k == 'call' and util.callee_name(t) == 'centers')) and sym.contains(sg, lambda t: t.k == 'attr' and t.a[1] == 'vertical'),
            rule, f'{site}: self.sigma = layer centres of the vertical coordinate', sym.show(sg)[:120], loc)
  la = trig_factor(lat, 'arcsin')
  is_axis1 = lambda t: t.k == 'sub' and t.a[1] == sym.const(1) and t.a[0].k == 'attr' and t.a[0].a[1] in ('nodal_axes', 'nodal_mesh')
  chk.check(la is not None and is_axis1(util.strip(la)), rule, f'{site}: self.lat = arcsin(sin-latitude mesh)', sym.show(lat)[:140], loc)
  chk.at_least(rule, 13)


def run(chk, prog, tier):
  rule_flux(chk, prog)
  rule_irradiance(chk, prog)
  rule_sin_altitude(chk, prog)
  rule_periodic(chk, prog)
  rule_solar_class(chk, prog)
  rule_hs_rates(chk, prog)
  rule_hs_tendencies(chk, prog)
  chk.assume('mean irradiance > variation ≥ 0 for caller-supplied values (decided for the source constants); kf, ka, ks ≥ 0; 0 < σ_b < 1; 0 < σ ≤ 1; positive unit scales',
             'lemma: |cos a·cos b·cos c + sin a·sin b| ≤ |cos a·cos b| + |sin a·sin b| ≤ 1 (Cauchy–Schwarz)',
             'cos and sin are 2π-periodic; jax.tree.map applies a function leaf-wise')
  return dict(
      explanation=('get_radiation_flux is abstractly interpreted with its two helpers kept opaque and matched against the clamp idioms (indicator product, maximum, where, clip); '
                   'the sign of the remaining factors is computed in the SIGN domain; get_direct_solar_irradiance and both normalised variants are compared as normal forms '
                   '(a + b·cos θ, a + b = 1); get_solar_sin_altitude is matched against the spherical cosine law; the fully inlined flux is evaluated in the PERIODIC domain for each '
                   'phase variable; SolarRadiation.__init__ / radiation_flux / normalized are checked for role agreement. HeldSuarezForcing.kv / kt / equilibrium_temperature are '
                   'evaluated in SIGN plus a unit-interval lemma with symbolic substitutions σ = σ_b − δ, σ = 1 − τ; explicit_terms is decomposed (Grid operators and kv / kt / T_eq '
                   'opaque) and its linear coefficients compared with −kv/cos² and −kt·(T − T_eq). Not decided: global mean = S/4, spectral-space friction identity.'),
      trusted_base=['python ast', 'sympy canonicalisation and assumption queries on rational expressions', 'sign / periodic transfer functions in sa/domains.py'],
      analysed=dict(functions=[f'{RA}.get_radiation_flux', f'{RA}.get_normalized_radiation_flux', f'{RA}.get_direct_solar_irradiance', f'{RA}.get_solar_sin_altitude',
                               f'{RA}.get_declination', f'{RA}.get_hour_angle', f'{RA}.equation_of_time', f'{RA}.SolarRadiation.__init__', f'{RA}.SolarRadiation.radiation_flux',
                               f'{RA}.SolarRadiation.normalized', f'{HS}.HeldSuarezForcing.__init__', f'{HS}.HeldSuarezForcing.kv', f'{HS}.HeldSuarezForcing.kt',
                               f'{HS}.HeldSuarezForcing.equilibrium_temperature', f'{HS}.HeldSuarezForcing.explicit_terms']),
  )
