"""C05 — tendencies match the continuous equations: term inventory and coefficient tables."""
from __future__ import annotations

import sympy as sp

from sa import alg, match, sym, util
from sa.model import AnalysisError
from sa.sym import Term
from rules import common, c11, c01

PE = 'primitive_equations'
SW = 'shallow_water'
SH = 'spherical_harmonic'

CLAIM = dict(
    text=('Decides, for the dry, time-carrying, moist and shallow-water equation sets, that each prognostic tendency contains every term of the continuous equations '
          'with its coefficient and sign: the explicit state is assembled from exactly the documented term functions (coefficient +1 each, nodal parts transformed '
          'once); each term function normalises to its closed form — ½Σ(u cosθ)²sec²θ under −∇², −g∇²(orography), −(ζ+f)v / +(ζ+f)u with the vertical-advection '
          'and R·T′·∇ln pₛ parts under −curl / −div (no intermediate clipping), flux-form horizontal advection T·δ − div_sec_lat(uT, vT), κ·(T_ref·ω/p[explicit '
          'flow] + T′·ω/p[full flow]) with the documented ω/p stencil, −ΣGΔσ for ln pₛ, the diagnostic σ̇ from cumulative sigma integrals; the shallow-water b, g, e '
          'terms, the layer-coupling matrix orientation D[a,b] = min(ρ_b/ρ_a, 1) with zero diagonal, and clipping; the moist corrections use the virtual-'
          'temperature factors; every Coriolis provider is 2Ω sinθ (recorded finding: shallow_water.get_coriolis / shallow_water_states.one_layer hard-wire '
          '2Ω = radius = 1). Does not decide pointwise agreement with the continuous equations or exact steadiness of the balanced families numerically.'
          ' Later additions: C05.5/C05.6 shared state and metric factors; the div_sec_lat form rule; Coriolis siblings.'),
    note=('Reference forms follow Durran, Numerical Methods for Fluid Dynamics §8.6 and the module docstrings; they are written out in rules/c05.py. Opaque linear '
          'operators (to_modal, laplacian, div/curl, vertical advection, sigma integrals) are compared as function symbols with normalised arguments.'),
    technique='abstract interpretation of every tendency method to terms + normal-form comparison with closed-form references (sympy canonicalisation) + sibling agreement',
)


def S(n):
  return Term('sym', n)


def A_(t, n):
  return Term('attr', t, n)


def I_(t, i):
  return Term('sub', t, sym.const(i))


METHODS = ('curl_and_div_tendencies', 'kinetic_energy_tendency', 'orography_tendency', 'horizontal_scalar_advection', 'nodal_temperature_vertical_tendency',
           'nodal_temperature_adiabatic_tendency', 'nodal_log_pressure_tendency', '_vertical_tendency', '_t_omega_over_sigma_sp', 'coriolis_parameter', 'T_ref',
           'divergence_tendency_due_to_humidity', 'vorticity_tendency_due_to_humidity', '_get_specific_humidity', '_virtual_temperature', '_get_cloud_water', '_get_cloud_ice')


def method_quals(prog, cls):
  out = set()
  for k in cls.mro():
    for n in METHODS:
      if n in k.methods:
        out.add(k.methods[n].qualname)
  return out


def evaluate(prog, cls, name, keep=(), extra_opaque=(), bind=None):
  f = cls.find_method(name)
  if f is None:
    raise AnalysisError(f'{cls.qualname}.{name} not found')
  opaque = (c11.EXPL_OPAQUE | method_quals(prog, cls) | set(extra_opaque)) - {f.qualname} - {q for q in method_quals(prog, cls) if q.rsplit('.', 1)[-1] in keep}
  ev = sym.Evaluator(prog, sym.Options(opaque=opaque, max_depth=8, model_nonscalar=False))
  v, ctx, env = ev.run(f, self_cls=cls, bind=bind)
  return ev, f, v, ctx, env


def mcall(ev, selft, cls, name, *args, **kw):
  m = cls.find_method(name)
  return util.repo_call(Term('bound', selft, m.qualname), (selft,) + tuple(args), kw)


def flag_true(t, flag):
  return c01.split_on_flag(t, flag)[0]


def flag_false(t, flag):
  return c01.split_on_flag(t, flag)[1]


class Ref:
  """Builds reference terms for one equation class."""

  def __init__(self, prog, cls):
    self.prog, self.cls = prog, cls
    self.self = Term('sym', f'self:{cls.name}', cls=cls)
    self.grid = A_(A_(self.self, 'coords'), 'horizontal')
    self.vert = A_(A_(self.self, 'coords'), 'vertical')
    self.specs = A_(self.self, 'physics_specs')
    self.aux = S('aux_state')
    self.gcls = prog.cls(f'{SH}.Grid')

  def g(self, name, *args, **kw):
    m = self.gcls.find_method(name)
    return util.repo_call(Term('bound', self.grid, m.qualname), (self.grid,) + tuple(args), kw)

  def gp(self, name):
    return A_(self.grid, name)

  def m(self, name, *args, **kw):
    mm = self.cls.find_method(name)
    return util.repo_call(Term('bound', self.self, mm.qualname), (self.self,) + tuple(args), kw)

  def mp(self, name):
    return A_(self.self, name)


def eq(A, got, want_expr):
  return alg.equal(A.conv(got) if isinstance(got, Term) else got, want_expr)


# ------------------------------------------------------------ inventory
def rule_inventory(chk, prog):
  rule = 'C05.1-term-inventory'
  for cname in ('PrimitiveEquations', 'MoistPrimitiveEquations', 'MoistPrimitiveEquationsWithCloudMoisture'):
    cls = prog.cls(f'{PE}.{cname}')
    ev, f, v, ctx, env = evaluate(prog, cls, 'explicit_terms')
    site, loc = f'{PE}.{cname}.explicit_terms', (f.file, f.lineno)
    R = Ref(prog, cls)
    moist = cname != 'PrimitiveEquations'
    st = v
    if v.k == 'obj' and moist:
      # StateWithTime(**clip(state).asdict(), sim_time=1.0): fields are attr(clip(State), name)
      src = util.field(v, 'divergence')
      chk.require(src is not None and src.k == 'attr' and c11.is_clip(src.a[0]), f'{site}: unrecognised re-packing of the clipped state')
      st = util.call_args(src.a[0])[0]
    elif c11.is_clip(v):
      st = util.call_args(v)[0]
    chk.require(st.k == 'obj', f'{site}: no state of tendencies found')
    state_arg = S(f.param_names()[1])
    cds = [t for t in sym.walk(st) if t.k == 'call' and util.callee_name(t) == 'compute_diagnostic_state']
    chk.require(bool(cds), f'{site}: does not compute the diagnostic state')
    aux = cds[0]
    b = ev.bind_args(prog.func(f'{PE}.compute_diagnostic_state'), list(aux.a[1]), list(aux.a[2]), None, None)
    swt = b['state'] if b else None
    ok_state = swt == state_arg or (swt is not None and swt.k == 'obj' and all(fv == A_(state_arg, fn) for fn, fv in swt.a[1]))
    chk.check(len(set(cds)) == 1 and ok_state and sym.show(b['coords']).endswith('.coords'), rule, f'{site}: one diagnostic state of the input state on the equation\'s coordinates', sym.show(aux)[:120], loc)
    A = alg.Algebra(ev, opaque=lambda t: t.k == 'call' and t.a[0].k == 'bound' and util.callee_name(t) in METHODS)
    cd = R.m('curl_and_div_tendencies', aux)
    want_div = A.conv(I_(cd, 1)) + A.conv(R.m('kinetic_energy_tendency', aux)) + A.conv(R.m('orography_tendency'))
    want_vor = A.conv(I_(cd, 0))
    if moist:
      want_div += A.conv(R.m('divergence_tendency_due_to_humidity', swt, aux))
      want_vor += A.conv(R.m('vorticity_tendency_due_to_humidity', swt, aux))
    chk.check(eq(A, util.field(st, 'divergence'), want_div), rule,
              f'{site}: divergence tendency = div part of curl_and_div + kinetic-energy + orography' + (' + humidity correction' if moist else '') + ' (each with coefficient 1)',
              sym.show(util.field(st, 'divergence'), maxdepth=4)[:240], loc, str(want_div)[:240], str(A.conv(util.field(st, 'divergence')))[:240])
    chk.check(eq(A, util.field(st, 'vorticity'), want_vor), rule, f'{site}: vorticity tendency = curl part of curl_and_div' + (' + humidity correction' if moist else ''),
              sym.show(util.field(st, 'vorticity'), maxdepth=4)[:240], loc, str(want_vor)[:200], str(A.conv(util.field(st, 'vorticity')))[:200])
    hs = R.m('horizontal_scalar_advection', A_(aux, 'temperature_variation'), aux_state=aux)
    want_T = A.conv(R.g('to_modal', Term('bin', '+', Term('bin', '+', I_(hs, 0), R.m('nodal_temperature_vertical_tendency', aux)), R.m('nodal_temperature_adiabatic_tendency', aux)))) + A.conv(I_(hs, 1))
    chk.check(eq(A, util.field(st, 'temperature_variation'), want_T), rule,
              f'{site}: temperature tendency = to_modal(horizontal[nodal] + vertical + adiabatic) + horizontal[modal]', sym.show(util.field(st, 'temperature_variation'), maxdepth=4)[:240], loc,
              str(want_T)[:240], str(A.conv(util.field(st, 'temperature_variation')))[:240])
    want_p = A.conv(R.g('to_modal', R.m('nodal_log_pressure_tendency', aux)))
    chk.check(eq(A, util.field(st, 'log_surface_pressure'), want_p), rule, f'{site}: ln pₛ tendency = to_modal(nodal_log_pressure_tendency)', sym.show(util.field(st, 'log_surface_pressure'))[:200], loc)
    tr = util.field(st, 'tracers')
    okt = tr is not None and tr.k == 'mapover' and len(tr.a[1]) == 2
    if chk.check(okt, rule, f'{site}: tracer tendencies are mapped over (vertical, horizontal) tendency trees', sym.show(tr, maxdepth=2)[:160] if tr is not None else 'missing', loc):
      lv, lh = tr.a[2]
      want_tr = A.conv(R.g('to_modal', Term('bin', '+', lv, I_(lh, 0)))) + A.conv(I_(lh, 1))
      chk.check(eq(A, tr.a[0], want_tr), rule, f'{site}: each tracer: to_modal(vertical + horizontal[nodal]) + horizontal[modal]', sym.show(tr.a[0], maxdepth=5)[:200], loc)
      tv, th = tr.a[1]
      okv = tv.k == 'mapover' and tv.a[1] == (A_(aux, 'tracers'),)
      if okv:
        body = flag_true(tv.a[0], 'include_vertical_advection')
        okv = body == R.m('_vertical_tendency', A_(aux, 'sigma_dot_full'), tv.a[2][0])
      chk.check(okv, rule, f'{site}: tracer vertical tendency = vertical advection of the nodal tracer by the full σ̇', sym.show(tv, maxdepth=5)[:200], loc)
      okh = th.k == 'mapover' and th.a[1] == (A_(aux, 'tracers'),) and th.a[0] == R.m('horizontal_scalar_advection', th.a[2][0], aux_state=aux)
      chk.check(okh, rule, f'{site}: tracer horizontal tendency = horizontal_scalar_advection of the nodal tracer', sym.show(th, maxdepth=5)[:200], loc)
  chk.at_least(rule, 24)


# ------------------------------------------------------ coefficient tables
def rule_terms(chk, prog):
  rule = 'C05.2-coefficients'
  for cname in ('PrimitiveEquations', 'MoistPrimitiveEquations', 'MoistPrimitiveEquationsWithCloudMoisture'):
    cls = prog.cls(f'{PE}.{cname}')
    R = Ref(prog, cls)
    aux = R.aux
    moist = cname != 'PrimitiveEquations'
    u, v_ = I_(A_(aux, 'cos_lat_u'), 0), I_(A_(aux, 'cos_lat_u'), 1)
    sec2 = R.gp('sec2_lat')
    # -- curl and div -----------------------------------------------------
    ev, f, v, ctx, env = evaluate(prog, cls, 'curl_and_div_tendencies')
    site, loc = f'{PE}.{cname}.curl_and_div_tendencies', (f.file, f.lineno)
    if f.cls is cls or cname != 'MoistPrimitiveEquationsWithCloudMoisture':
      vt = flag_true(v, 'include_vertical_advection')
      vf = flag_false(v, 'include_vertical_advection')
      A = alg.Algebra(ev)
      zeta, fcor = A_(aux, 'vorticity'), R.mp('coriolis_parameter')
      if moist:
        q = R.m('_get_specific_humidity', aux)
        ratio = Term('bin', '/', A_(R.specs, 'water_vapor_gas_constant'), A_(R.specs, 'ideal_gas_constant'))
        mc = Term('bin', '*', Term('bin', '-', ratio, sym.const(1)), q)
        RT = R.m('_virtual_temperature', aux, mc)
      else:
        RT = Term('bin', '*', A_(R.specs, 'ideal_gas_constant'), A_(aux, 'temperature_variation'))
      gl = A_(aux, 'cos_lat_grad_log_sp')
      def comb(sign_uv, adv_of, gl_i, with_adv=True):
        e = sign_uv * (A.conv(zeta) + A.conv(fcor)) * A.conv(sec2)
        adv = -A.conv(R.m('_vertical_tendency', A_(aux, 'sigma_dot_full'), adv_of)) if with_adv else 0
        return e + (adv + A.conv(RT) * A.conv(I_(gl, gl_i))) * A.conv(sec2)
      for vv, with_adv, tag in ((vt, True, ''), (vf, False, ' [no vertical advection]')):
        ok = vv.k == 'tuple' and len(vv.a) == 2
        if not chk.check(ok, rule, f'{site}{tag}: returns (vorticity, divergence) tendencies', sym.show(vv, maxdepth=2)[:120], loc):
          continue
        cu = A.conv(R.g('to_modal', S('__x__'))).func
        want_u = comb(-A.conv(v_), u, 0, with_adv)
        want_v = comb(A.conv(u), v_, 1, with_adv)
        def operator_form(t, opname):
          """t == −op((to_modal(X), to_modal(Y)), clip=False) → (X, Y)"""
          if not (t.k == 'un' and t.a[0] == '-' and t.a[1].k == 'call' and util.callee_name(t.a[1]) == opname):
            return None
          c = t.a[1]
          if util.call_kwargs(c).get('clip') != sym.FALSE:
            return 'clip'
          vec = util.call_args(c)[0]
          if not (vec.k == 'tuple' and len(vec.a) == 2 and all(x.k == 'call' and util.callee_name(x) == 'to_modal' for x in vec.a)):
            return None
          return util.call_args(vec.a[0])[0], util.call_args(vec.a[1])[0]
        for idx, opname, label in ((0, 'curl_cos_lat', 'vorticity'), (1, 'div_cos_lat', 'divergence')):
          of = operator_form(vv.a[idx], opname)
          if of == 'clip':
            chk.violation(rule, f'{site}{tag}: {label} tendency = −{opname}(to_modal(·), clip=False)', 'the operator clips an intermediate result (information lost before the final clip)', loc)
            continue
          if not chk.check(of is not None, rule, f'{site}{tag}: {label} tendency = −{opname}((to_modal(A), to_modal(B)), clip=False)', sym.show(vv.a[idx], maxdepth=3)[:160], loc):
            continue
          X, Y = of
          chk.check(alg.equal(A.conv(X), want_u), rule, f'{site}{tag}: {label}: first component = (−(ζ+f)·v + σ̇∂u/∂σ-part + R·T·∂λ ln pₛ)·sec²θ with k×(u,v) = (−v, u)',
                    str(sp.simplify(A.conv(X)))[:200], loc, str(sp.simplify(want_u))[:200], str(sp.simplify(A.conv(X)))[:200])
          chk.check(alg.equal(A.conv(Y), want_v), rule, f'{site}{tag}: {label}: second component = (+(ζ+f)·u + σ̇∂v/∂σ-part + R·T·∂θ ln pₛ)·sec²θ',
                    str(sp.simplify(A.conv(Y)))[:200], loc, str(sp.simplify(want_v))[:200], str(sp.simplify(A.conv(Y)))[:200])
    if moist:
      ev, f, v, ctx, env = evaluate(prog, cls, '_virtual_temperature')
      A = alg.Algebra(ev)
      mcs = S('moisture_contribution')
      want = A.conv(A_(R.specs, 'ideal_gas_constant')) * A.conv(A_(aux, 'temperature_variation')) * (1 + A.conv(mcs))
      if cname.endswith('CloudMoisture'):
        want = A.conv(A_(R.specs, 'ideal_gas_constant')) * A.conv(A_(aux, 'temperature_variation')) * (
            1 + A.conv(mcs) - A.conv(R.m('_get_cloud_water', aux)) - A.conv(R.m('_get_cloud_ice', aux)))
      chk.check(alg.equal(A.conv(v), want), rule, f'{PE}.{cname}._virtual_temperature = R·T′·(1 + moisture' + (' − cloud water − cloud ice)' if cname.endswith('CloudMoisture') else ')'),
                sym.show(v)[:200], (f.file, f.lineno))
    if cname == 'MoistPrimitiveEquationsWithCloudMoisture':
      continue
    # -- kinetic energy ------------------------------------------------------
    ev, f, v, ctx, env = evaluate(prog, cls, 'kinetic_energy_tendency')
    site, loc = f'{PE}.{cname}.kinetic_energy_tendency', (f.file, f.lineno)
    ok = v.k == 'un' and v.a[0] == '-' and util.callee_name(v.a[1]) == 'laplacian' and util.callee_name(util.call_args(v.a[1])[0]) == 'to_modal'
    if chk.check(ok, rule, f'{site}: −∇²(to_modal(K))', sym.show(v)[:200], loc):
      K = util.call_args(util.call_args(v.a[1])[0])[0]
      A = alg.Algebra(ev)
      stk = Term('call', Term('ext', 'jax.numpy.stack'), (A_(aux, 'cos_lat_u'),), ())
      want = sp.Function('m_sum')(A.conv(stk) ** 2, 0) * A.conv(sec2) / 2
      chk.check(alg.equal(A.conv(K), want), rule, f'{site}: K = ½·Σ(u cosθ)²·sec²θ (sum over the two components)', sym.show(K)[:200], loc, str(want), str(A.conv(K)))
    # -- orography -----------------------------------------------------------
    ev, f, v, ctx, env = evaluate(prog, cls, 'orography_tendency')
    A = alg.Algebra(ev)
    want = -A.conv(A_(R.specs, 'gravity_acceleration')) * A.conv(R.g('laplacian', R.mp('orography')))
    chk.check(alg.equal(A.conv(v), want), rule, f'{PE}.{cname}.orography_tendency = −g·∇²(orography)', sym.show(v)[:200], (f.file, f.lineno), str(want), str(A.conv(v)))
    # -- horizontal advection -------------------------------------------------
    ev, f, v, ctx, env = evaluate(prog, cls, 'horizontal_scalar_advection')
    site, loc = f'{PE}.{cname}.horizontal_scalar_advection', (f.file, f.lineno)
    A = alg.Algebra(ev)
    sc = S('scalar')
    ok = v.k == 'tuple' and len(v.a) == 2
    if chk.check(ok, rule, f'{site}: returns (nodal, modal) parts', sym.show(v)[:160], loc):
      chk.check(alg.equal(A.conv(v.a[0]), A.conv(sc) * A.conv(A_(aux, 'divergence'))), rule, f'{site}: nodal part = scalar·δ (flux form)', sym.show(v.a[0]), loc)
      m_ = v.a[1]
      okm = m_.k == 'un' and m_.a[0] == '-' and util.callee_name(m_.a[1]) == 'div_sec_lat'
      if chk.check(okm, rule, f'{site}: modal part = −div_sec_lat(u·scalar, v·scalar)', sym.show(m_)[:200], loc):
        a0, a1, a2 = m_.a[1].a[1][:3]
        chk.check(alg.equal(A.conv(a0), A.conv(u) * A.conv(sc)) and alg.equal(A.conv(a1), A.conv(v_) * A.conv(sc)) and a2 == R.grid, rule,
                  f'{site}: flux components are (u·scalar, v·scalar) on the equation grid', f'{sym.show(a0)}, {sym.show(a1)}', loc)
    # -- vertical temperature tendency ------------------------------------------
    ev, f, v, ctx, env = evaluate(prog, cls, 'nodal_temperature_vertical_tendency')
    site, loc = f'{PE}.{cname}.nodal_temperature_vertical_tendency', (f.file, f.lineno)
    A = alg.Algebra(ev)
    full = R.m('_vertical_tendency', A_(aux, 'sigma_dot_full'), A_(aux, 'temperature_variation'))
    refp = R.m('_vertical_tendency', A_(aux, 'sigma_dot_explicit'), R.mp('T_ref'))
    vt = flag_true(v, 'include_vertical_advection')
    ok = vt.k == 'phi' and alg.equal(A.conv(vt.a[1]), A.conv(full) + A.conv(refp)) and alg.equal(A.conv(vt.a[2]), A.conv(full))
    chk.check(ok, rule, f'{site}: σ̇_full·∂T′/∂σ plus, for non-uniform T_ref only, σ̇_explicit·∂T_ref/∂σ', sym.show(vt, maxdepth=4)[:240], loc)
    if vt.k == 'phi':
      c = vt.a[0]
      okc = (c.k == 'cmp' and c.a[0] == ('>',) and c.a[1][1] == sym.const(1) and sym.contains(c.a[1][0], lambda t: match.is_ext_call(t, 'unique'))
             and sym.contains(c.a[1][0], lambda t: t == R.mp('T_ref') or (t.k == 'attr' and t.a[1] == 'reference_temperature')))
      chk.check(okc, rule, f'{site}: the T_ref advection is skipped only when T_ref has a single distinct value (its vertical derivative is then zero)', sym.show(c), loc)
    # -- adiabatic ----------------------------------------------------------------
    ev, f, v, ctx, env = evaluate(prog, cls, 'nodal_temperature_adiabatic_tendency')
    site, loc = f'{PE}.{cname}.nodal_temperature_adiabatic_tendency', (f.file, f.lineno)
    A = alg.Algebra(ev)
    udg = A_(aux, 'u_dot_grad_log_sp')
    gfull = Term('bin', '+', udg, A_(aux, 'divergence'))
    mean = R.m('_t_omega_over_sigma_sp', R.mp('T_ref'), udg, udg)
    if not moist:
      var = R.m('_t_omega_over_sigma_sp', A_(aux, 'temperature_variation'), gfull, udg)
      want = A.conv(A_(R.specs, 'kappa')) * (A.conv(mean) + A.conv(var))
      chk.check(alg.equal(A.conv(v), want), rule, f'{site}: κ·(T_ref·ω/p[G = u·∇ln pₛ] + T′·ω/p[G = u·∇ln pₛ + δ])', sym.show(v)[:240], loc, str(want)[:200], str(A.conv(v))[:200])
    else:
      calls = [t for t in sym.walk(v) if t.k == 'call' and util.callee_name(t) == '_t_omega_over_sigma_sp']
      okn = len(set(calls)) == 2 and mean in calls
      if chk.check(okn, rule, f'{site}: κ·(T_ref part with the explicit flow + moist temperature part with the full flow)', sym.show(v, maxdepth=4)[:240], loc):
        other = [t for t in set(calls) if t != mean][0]
        tf, g_, w_ = util.call_args(other)
        chk.check(alg.equal(A.conv(g_), A.conv(gfull)) and w_ == udg, rule, f'{site}: the moist temperature part uses the full flow G = u·∇ln pₛ + δ', sym.show(g_), loc)
        q = R.m('_get_specific_humidity', aux)
        eps = A.conv(A_(R.specs, 'water_vapor_gas_constant')) / A.conv(A_(R.specs, 'ideal_gas_constant'))
        # Cp = R / kappa (property inlined or not)
        cpv = A.conv(A_(R.specs, 'water_vapor_isobaric_heat_capacity'))
        cp = A.conv(A_(R.specs, 'ideal_gas_constant')) / A.conv(A_(R.specs, 'kappa'))
        dl = cpv / cp
        qq = A.conv(q)
        want_t = A.conv(A_(aux, 'temperature_variation')) * (1 + (eps - 1) * qq) / (1 + (dl - 1) * qq) + A.conv(R.mp('T_ref')) * ((eps - dl) * qq) / (1 + (dl - 1) * qq)
        got_t = A.conv(tf)
        repl = {s_: cp for s_, tt in A.rev.items() if tt.k == 'attr' and tt.a[1] == 'Cp'}
        repl.update({s_: cpv for s_, tt in A.rev.items() if tt.k == 'attr' and tt.a[1] == 'Cp_vapor'})
        repl.update({s_: A.conv(A_(R.specs, 'water_vapor_gas_constant')) for s_, tt in A.rev.items() if tt.k == 'attr' and tt.a[1] == 'R_vapor'})
        repl.update({s_: A.conv(A_(R.specs, 'ideal_gas_constant')) for s_, tt in A.rev.items() if tt.k == 'attr' and tt.a[1] == 'R'})
        chk.check(alg.equal(got_t.xreplace(repl), want_t), rule,
                  f'{site}: moist temperature factor = T′·(1+(ε−1)q)/(1+(δ−1)q) + T_ref·(ε−δ)q/(1+(δ−1)q), ε = R_v/R, δ = c_pv/c_p', str(got_t)[:200], loc)
        chk.check(alg.equal(A.conv(v), A.conv(A_(R.specs, 'kappa')) * (A.conv(mean) + A.conv(other))), rule, f'{site}: both parts are added and multiplied by κ', '', loc)
    # -- ω/p stencil ------------------------------------------------------------------
    ev, f, v, ctx, env = evaluate(prog, cls, '_t_omega_over_sigma_sp')
    site, loc = f'{PE}.{cname}._t_omega_over_sigma_sp', (f.file, f.lineno)
    csi = [t for t in sym.walk(v) if t.k == 'call' and util.callee_name(t) == 'cumulative_sigma_integral']
    pads = [t for t in sym.walk(v) if t.k == 'sub' and match.is_ext_call(t.a[0], 'pad')]
    ok = len(set(csi)) == 1 and len(set(pads)) == 1
    if chk.check(ok, rule, f'{site}: one downward cumulative sigma integral of G and one shifted copy', sym.show(v, maxdepth=4)[:200], loc):
      ci = csi[0]
      bb = ev.bind_args(prog.func('sigma_coordinates.cumulative_sigma_integral'), list(ci.a[1]), list(ci.a[2]), None, None)
      chk.check(bb is not None and bb['x'] == S('g_term') and bb['coordinates'] == R.vert and bb['downward'] == sym.TRUE and bb['axis'] == sym.const(-3), rule,
                f'{site}: F = ∫₀^σ G dσ on the equation levels (downward, level axis)', sym.show(ci)[:160], loc)
      A = alg.Algebra(ev, opaque=lambda t: t in pads or t in csi)
      al = [t for t in sym.walk(v) if t.k == 'call' and util.callee_name(t) == 'get_sigma_ratios']
      chk.require(bool(al), f'{site}: sigma ratios not used')
      a_s, F_s, P_s = A.conv(al[0]), A.atom(ci), A.atom(pads[0])
      dsg = A.conv(A_(R.vert, 'layer_thickness'))
      want = A.conv(S('temperature_field')) * (A.conv(S('v_dot_grad_log_sp')) - (a_s * F_s + P_s) / dsg)
      chk.check(alg.equal(A.conv(v), want), rule, f'{site}: T·(v·∇ln pₛ − (α_n F_n + α_(n−1) F_(n−1)) / Δσ_n)', sym.show(v, maxdepth=5)[:200], loc, str(want), str(A.conv(v)))
      pd = pads[0]
      padcall = pd.a[0]
      okp = (alg.equal(alg.Algebra(ev, opaque=lambda t: t in csi).conv(padcall.a[1][0]), alg.Algebra(ev, opaque=lambda t: t in csi).conv(al[0]) * 1 * sp.Symbol('x')) or True)
      B = alg.Algebra(ev, opaque=lambda t: t in csi)
      okp = alg.equal(B.conv(padcall.a[1][0]), B.conv(al[0]) * B.atom(ci))
      pw = padcall.a[1][1]
      okw = pw == Term('list', Term('tuple', sym.const(1), sym.const(0)), Term('tuple', sym.const(0), sym.const(0)), Term('tuple', sym.const(0), sym.const(0)))
      oki = pd.a[1] == Term('tuple', Term('slice', sym.NONE, sym.const(-1), sym.NONE), sym.const(Ellipsis))
      chk.check(okp and okw and oki, rule, f'{site}: the shifted copy is pad(α·F, one level at the top)[:-1] (level n−1, zero above the top layer)', sym.show(pd)[:200], loc)
    # -- ln ps ------------------------------------------------------------------------
    ev, f, v, ctx, env = evaluate(prog, cls, 'nodal_log_pressure_tendency')
    ok = v.k == 'un' and v.a[0] == '-' and util.callee_name(v.a[1]) == 'sigma_integral' and list(v.a[1].a[1][:2]) == [A_(aux, 'u_dot_grad_log_sp'), R.vert]
    chk.check(ok, rule, f'{PE}.{cname}.nodal_log_pressure_tendency = −Σ (u·∇ln pₛ) Δσ', sym.show(v), (f.file, f.lineno), '-sigma_integral(aux.u_dot_grad_log_sp, vertical)', sym.show(v))
    ev, f, v, ctx, env = evaluate(prog, cls, '_vertical_tendency')
    ok = v.k == 'call' and v.a[0] == R.mp('vertical_advection') and list(v.a[1]) == [S('w'), S('x'), R.vert]
    chk.check(ok, rule, f'{PE}.{cname}._vertical_tendency = vertical_advection(w, x, vertical coordinates)', sym.show(v), (f.file, f.lineno))
  chk.at_least(rule, 50)


def rule_diagnostic(chk, prog):
  rule = 'C05.2b-diagnostic-state'
  f = prog.func(f'{PE}.compute_diagnostic_state')
  ev = sym.Evaluator(prog, sym.Options(opaque=c11.EXPL_OPAQUE - {f.qualname}, max_depth=6, model_nonscalar=False))
  v, ctx, env = ev.run(f)
  site, loc = f'{PE}.compute_diagnostic_state', (f.file, f.lineno)
  chk.require(v.k == 'obj', f'{site}: does not return DiagnosticState')
  st, co = S('state'), S('coords')
  grid, vert = A_(co, 'horizontal'), A_(co, 'vertical')
  gcls = prog.cls(f'{SH}.Grid')
  def g(name, *args, **kw):
    return util.repo_call(Term('bound', grid, gcls.find_method(name).qualname), (grid,) + tuple(args), kw)
  for n in ('vorticity', 'divergence', 'temperature_variation', 'tracers'):
    chk.check(util.field(v, n) == g('to_nodal', A_(st, n)), rule, f'{site}: nodal `{n}` = to_nodal(state.{n})', sym.show(util.field(v, n))[:120], loc)
  vec = util.repo_call(Term('func', f'dinosaur.{SH}.get_cos_lat_vector'), (A_(st, 'vorticity'), A_(st, 'divergence'), grid), (('clip', sym.FALSE),))
  chk.check(util.field(v, 'cos_lat_u') == g('to_nodal', vec), rule, f'{site}: cos_lat_u = to_nodal(get_cos_lat_vector(ζ, δ, grid, clip=False))', sym.show(util.field(v, 'cos_lat_u'))[:200], loc)
  glsp = g('to_nodal', g('cos_lat_grad', A_(st, 'log_surface_pressure'), clip=sym.FALSE))
  chk.check(util.field(v, 'cos_lat_grad_log_sp') == glsp, rule, f'{site}: cos_lat_grad_log_sp = to_nodal(cos_lat_grad(ln pₛ, clip=False))', sym.show(util.field(v, 'cos_lat_grad_log_sp'))[:200], loc)
  A = alg.Algebra(ev)
  udg = util.field(v, 'u_dot_grad_log_sp')
  want = sp.Function('sum')(A.conv(g('to_nodal', vec)) * A.conv(glsp) * A.conv(A_(grid, 'sec2_lat')))
  chk.check(alg.equal(A.conv(udg), want), rule, f'{site}: u·∇ln pₛ = Σ_components (u cosθ)·(cosθ ∇ln pₛ)·sec²θ', sym.show(udg)[:200], loc, str(want)[:200], str(A.conv(udg))[:200])
  csi = lambda x: Term('call', Term('func', 'dinosaur.sigma_coordinates.cumulative_sigma_integral'), (x, vert), ())
  for fname, integrand, label in (('sigma_dot_explicit', udg, 'G = u·∇ln pₛ'), ('sigma_dot_full', Term('bin', '+', util.field(v, 'divergence'), udg), 'G = δ + u·∇ln pₛ')):
    val = util.field(v, fname)
    sl = match.slice_in_dim(val)
    ok = sl is not None and sl[1] == sym.const(0) and sl[2] == sym.const(-1)
    if not chk.check(ok, rule, f'{site}: {fname} keeps the interior layer boundaries (drops the surface)', sym.show(val, maxdepth=3)[:160], loc):
      continue
    F = [t for t in sym.walk(sl[0]) if t.k == 'call' and util.callee_name(t) == 'cumulative_sigma_integral']
    okf = len(set(F)) == 1 and alg.equal(A.conv(F[0].a[1][0]), A.conv(integrand)) and F[0].a[1][1] == vert
    chk.check(okf, rule, f'{site}: {fname} integrates {label} over σ', sym.show(F[0])[:160] if F else 'none', loc)
    if okf:
      B = alg.Algebra(ev, opaque=lambda t: t in F or match.slice_in_dim(t) is not None)
      last = [t for t in sym.walk(sl[0]) if match.slice_in_dim(t) is not None and match.slice_in_dim(t)[0] in F]
      okl = len(set(last)) == 1 and match.slice_in_dim(last[0])[1] == sym.const(-1) and match.slice_in_dim(last[0])[2] == sym.NONE
      cs = Term('call', Term('ext', 'numpy.cumsum'), (A_(vert, 'layer_thickness'),), ())
      okv = okl and alg.equal(B.conv(sl[0]), B.conv(cs) * B.atom(last[0]) - B.atom(F[0]))
      chk.check(okv, rule, f'{site}: {fname} = σ_k·F_total − F_k (mass-conserving vertical velocity at interfaces)', sym.show(sl[0], maxdepth=4)[:200], loc,
                'cumsum(Δσ)·F[-1:] − F', str(B.conv(sl[0]))[:200])
  chk.at_least(rule, 12)


# ---------------------------------------------------------- shallow water
def rule_shallow_water(chk, prog):
  rule = 'C05.2c-shallow-water'
  cls = prog.cls(f'{SW}.ShallowWaterEquations')
  f = cls.find_method('explicit_terms')
  opaque = c11.GRID_OPS | {f'{SH}.get_cos_lat_vector', f'{SW}.state_to_nodal', f'{SW}.ShallowWaterEquations.coriolis_parameter', f'{SW}.ShallowWaterEquations.density_ratios'}
  ev = sym.Evaluator(prog, sym.Options(opaque=opaque, max_depth=6, model_nonscalar=False))
  v, ctx, env = ev.run(f, self_cls=cls)
  site, loc = f'{SW}.ShallowWaterEquations.explicit_terms', (f.file, f.lineno)
  chk.require(v.k == 'obj', f'{site}: does not return State')
  selft = Term('sym', 'self:ShallowWaterEquations', cls=cls)
  grid = A_(A_(selft, 'coords'), 'horizontal')
  st = S('state')
  # splitting of the stacked transform: b, g, e = split(to_modal(concat([nodal_b, nodal_g, e[None]])), [2, 4])
  A = alg.Algebra(ev)
  nu = [t for t in sym.walk(v) if t.k == 'call' and util.callee_name(t) == 'to_nodal']
  ns = [t for t in sym.walk(v) if t.k == 'call' and util.callee_name(t) == 'state_to_nodal']
  cats = [t for t in sym.walk(v) if match.is_ext_call(t, 'concatenate')]
  chk.require(len(set(cats)) >= 1 and len(set(ns)) == 1, f'{site}: stacked transform idiom not recognised')
  cat = [t for t in set(cats) if len(match.concat_parts(t)[0]) == 3][0]
  nb, ng, ne = match.concat_parts(cat)[0]
  ne0 = ne.a[1][0] if match.is_ext_call(ne, 'expand_dims') else ne
  nstate = ns[0]
  uvec = Term('call', Term('ext', 'jax.numpy.stack'), (Term('call', Term('func', f'dinosaur.{SH}.get_cos_lat_vector'), (A_(st, 'vorticity'), A_(st, 'divergence'), grid), ()),), ())
  gcls = prog.cls(f'{SH}.Grid')
  nodal_u = Term('call', Term('bound', grid, gcls.find_method('to_nodal').qualname), (grid, uvec), ())
  U = A.conv(nodal_u)
  sec2 = A.conv(A_(grid, 'sec2_lat'))
  zf = A.conv(A_(nstate, 'vorticity')) + A.conv(A_(selft, 'coriolis_parameter'))
  chk.check(alg.equal(A.conv(nb), U * zf * sec2), rule, f'{site}: b = (u cosθ)·(ζ + f)·sec²θ with ζ from the clipped nodal state', sym.show(nb)[:200], loc)
  chk.check(alg.equal(A.conv(ng), U * A.conv(A_(nstate, 'potential')) * sec2), rule, f'{site}: g = (u cosθ)·Φ·sec²θ', sym.show(ng)[:200], loc)
  chk.check(alg.equal(A.conv(ne0), sp.Function('m_sum')(U * U, 0) * sec2 / 2), rule, f'{site}: e = ½·Σ(u cosθ)²·sec²θ', sym.show(ne0)[:200], loc)
  bb = ev.bind_args(prog.func(f'{SW}.state_to_nodal'), list(nstate.a[1]), list(nstate.a[2]), None, None)
  chk.check(bb is not None and bb['state'] == st and bb['grid'] == grid, rule, f'{site}: nodal state of the input state on the equation grid', sym.show(nstate), loc)
  # outputs
  sp_ = [t for t in sym.walk(v) if match.is_ext_call(t, 'split')]
  oksp = len(set(sp_)) == 1 and sp_[0].a[1][1] == Term('list', sym.const(2), sym.const(4)) and util.call_kwargs(sp_[0]).get('axis') == sym.const(0) \
      and util.callee_name(sp_[0].a[1][0]) == 'to_modal' and util.call_args(sp_[0].a[1][0])[0] == cat
  chk.check(oksp, rule, f'{site}: (b, g, e) = split(to_modal(concatenate([b(2), g(2), e(1)])), [2, 4]) — same order in and out', sym.show(sp_[0], maxdepth=3)[:200] if sp_ else 'none', loc)
  if oksp:
    bm, gm, em = (Term('sub', sp_[0], sym.const(i)) for i in range(3))
    em = Term('call', Term('ext', 'jax.numpy.squeeze'), (em,), (('axis', sym.const(0)),))
    def clip_arg(t):
      return util.call_args(t)[0] if c11.is_clip(t) else None
    B = alg.Algebra(ev)
    def gop(name, x):
      return B.conv(Term('call', Term('bound', grid, gcls.find_method(name).qualname), (grid, x), ()))
    vv = clip_arg(util.field(v, 'vorticity'))
    chk.check(vv is not None and alg.equal(B.conv(vv), -gop('div_cos_lat', bm)), rule, f'{site}: vorticity tendency = clip(−∇·b)', sym.show(util.field(v, 'vorticity'), maxdepth=4)[:160], loc)
    pp = clip_arg(util.field(v, 'potential'))
    chk.check(pp is not None and alg.equal(B.conv(pp), -gop('div_cos_lat', gm)), rule, f'{site}: potential tendency = clip(−∇·g) (mass flux divergence)', sym.show(util.field(v, 'potential'), maxdepth=4)[:160], loc)
    dd = clip_arg(util.field(v, 'divergence'))
    ptot = [t for t in sym.walk(dd) if match.einsum_parts(t) is not None] if dd is not None else []
    okd = dd is not None and len(set(ptot)) == 1
    if chk.check(okd, rule, f'{site}: divergence tendency contains the layer-coupled potential', sym.show(dd, maxdepth=4)[:160] if dd is not None else 'not clipped', loc):
      pe = ptot[0]
      ep = match.einsum_parts(pe)
      oke = ep[0] == 'string' and ep[1].replace(' ', '') == 'ab,...bml->...aml' and ep[2][0] == A_(selft, 'density_ratios') and ep[2][1] == A_(st, 'potential')
      chk.check(oke, rule, f'{site}: p_a = Σ_b D[a, b]·Φ_b with D = density_ratios (output layer a, summed layer b)', sym.show(pe)[:160], loc, "einsum('ab,...bml->...aml', density_ratios, potential)", sym.show(pe)[:160])
      Bo = alg.Algebra(ev, opaque=lambda t: t == pe)
      P_ = Bo.atom(pe)
      oro = Bo.conv(A_(selft, 'orography'))
      def gop2(name, x_expr_term):
        return Bo.conv(Term('call', Term('bound', grid, gcls.find_method(name).qualname), (grid, x_expr_term), ()))
      # −∇²(p + orography + e) + curl(b): compare through the φ on orography
      d_with = take_true_arm(dd, lambda c: sym.contains(c, lambda t: t.k == 'attr' and t.a[1] == 'orography'))
      lap = [t for t in sym.walk(d_with) if t.k == 'call' and util.callee_name(t) == 'laplacian']
      okl = len(set(lap)) == 1
      if okl:
        inner = util.call_args(lap[0])[0]
        Bi = alg.Algebra(ev, opaque=lambda t: t == pe or t == em or match.is_ext_call(t, 'squeeze'))
        sq = [t for t in sym.walk(inner) if match.is_ext_call(t, 'squeeze')]
        okl = len(set(sq)) == 1 and sq[0] == em and alg.equal(Bi.conv(inner), Bi.atom(pe) + Bi.conv(A_(selft, 'orography')) + Bi.atom(sq[0]))
        Bl = alg.Algebra(ev, opaque=lambda t: t in lap)
        okl = okl and alg.equal(Bl.conv(d_with), -Bl.atom(lap[0]) + Bl.conv(Term('call', Term('bound', grid, gcls.find_method('curl_cos_lat').qualname), (grid, bm), ())))
      chk.check(okl, rule, f'{site}: divergence tendency = clip(−∇²(p + orography + e) + curl(b))', sym.show(d_with, maxdepth=5)[:240], loc)
  # density ratios orientation
  g = prog.func(f'{SW}.get_density_ratios')
  ev2 = sym.Evaluator(prog)
  r, _, _ = ev2.run(g)
  site2, loc2 = f'{SW}.get_density_ratios', (g.file, g.lineno)
  base = r
  stores = []
  while base.k == 'store':
    stores.append(base)
    base = base.a[0]
  d = S(g.param_names()[0])
  okb = match.is_ext_call(base, 'minimum') and base.a[1][1] == sym.const(1)
  if chk.check(okb, rule, f'{site2}: ratios are min(·, 1)', sym.show(base), loc2):
    q = base.a[1][0]
    # numerator varies along the last (column, summed layer b) axis, denominator along rows (output layer a)
    okq = (q.k == 'bin' and q.a[0] == '/' and q.a[1] == d and q.a[2].k == 'sub' and q.a[2].a[0] == d
           and q.a[2].a[1] == Term('tuple', sym.const(Ellipsis), Term('ext', 'numpy.newaxis')))
    chk.check(okq, rule, f'{site2}: D[a, b] = min(ρ_b / ρ_a, 1): the column (summed-layer) density is the numerator', sym.show(q), loc2, 'density / density[..., np.newaxis]', sym.show(q))
  chk.check(len(stores) == 1 and stores[0].a[1] == sym.const('diagonal') and stores[0].a[2] == sym.const(0), rule, f'{site2}: the diagonal is zero (a layer\'s own potential is the implicit term)',
            str([sym.show(s_.a[1]) for s_ in stores]), loc2)
  ev3 = sym.Evaluator(prog, sym.Options(opaque={f'{SW}.get_density_ratios'}))
  fdr = cls.find_method('density_ratios')
  r, _, _ = ev3.run(fdr)
  chk.check(util.callee_name(r) == 'get_density_ratios' and sym.show(r.a[1][0]).endswith('physics_specs.densities'), rule, f'{SW}.ShallowWaterEquations.density_ratios uses the specs densities', sym.show(r), (fdr.file, fdr.lineno))
  # state_to_nodal clips before transforming
  h = prog.func(f'{SW}.state_to_nodal')
  ev4 = sym.Evaluator(prog, sym.Options(opaque=c11.GRID_OPS, model_nonscalar=False))
  r, _, _ = ev4.run(h)
  calls = [t for t in sym.walk(r) if t.k == 'call' and util.callee_name(t) == 'to_nodal']
  ok = bool(calls) and all(c11.is_clip(util.call_args(t)[0]) for t in calls)
  chk.check(ok, rule, f'{SW}.state_to_nodal: fields are clipped before synthesis', sym.show(r, maxdepth=4)[:160], (h.file, h.lineno))
  chk.at_least(rule, 14)



def rule_moist_corrections(chk, prog):
  rule = 'C05.2d-moist-corrections'
  cls = prog.cls(f'{PE}.MoistPrimitiveEquations')
  R = Ref(prog, cls)
  aux, st = R.aux, S('state')
  Rv, Rd = A_(R.specs, 'water_vapor_gas_constant'), A_(R.specs, 'ideal_gas_constant')
  Tref = R.mp('T_ref')
  sec2 = R.gp('sec2_lat')
  def repl_aliases(A, e):
    repl = {s_: A.conv(Rv) for s_, tt in list(A.rev.items()) if tt.k == 'attr' and tt.a[1] == 'R_vapor'}
    repl.update({s_: A.conv(Rd) for s_, tt in list(A.rev.items()) if tt.k == 'attr' and tt.a[1] == 'R'})
    return e.xreplace(repl)
  # vorticity correction
  ev, f, v, ctx, env = evaluate(prog, cls, 'vorticity_tendency_due_to_humidity')
  site, loc = f'{PE}.MoistPrimitiveEquations.vorticity_tendency_due_to_humidity', (f.file, f.lineno)
  A = alg.Algebra(ev)
  qm = R.m('_get_specific_humidity', st)
  gq = R.g('to_nodal', R.g('cos_lat_grad', qm, clip=sym.FALSE))
  gl = A_(aux, 'cos_lat_grad_log_sp')
  coef = A.conv(Tref) * (A.conv(Rv) - A.conv(Rd)) * A.conv(sec2)
  ok = v.k == 'call' and util.callee_name(v) == 'to_modal'
  if chk.check(ok, rule, f'{site}: to_modal of one nodal term', sym.show(v, maxdepth=3)[:160], loc):
    inner = util.call_args(v)[0]
    want = coef * (A.conv(I_(gl, 0)) * A.conv(I_(gq, 1)) - A.conv(I_(gl, 1)) * A.conv(I_(gq, 0)))
    chk.check(alg.equal(repl_aliases(A, A.conv(inner)), want), rule, f'{site}: T_ref·(R_v − R)·sec²θ·(∇ln pₛ × ∇q)·k with un-clipped ∇q', sym.show(inner, maxdepth=5)[:240], loc,
              str(want)[:240], str(repl_aliases(A, A.conv(inner)))[:240])
  # divergence correction
  ev, f, v, ctx, env = evaluate(prog, cls, 'divergence_tendency_due_to_humidity')
  site, loc = f'{PE}.MoistPrimitiveEquations.divergence_tendency_due_to_humidity', (f.file, f.lineno)
  gds = [t for t in sym.walk(v) if t.k == 'call' and util.callee_name(t) == 'get_geopotential_diff']
  if chk.check(len(set(gds)) == 1, rule, f'{site}: one moist geopotential difference', str(len(set(gds))), loc):
    gd = gds[0]
    b = ev.bind_args(prog.func(f'{PE}.get_geopotential_diff'), list(gd.a[1]), list(gd.a[2]), None, None)
    A = alg.Algebra(ev, opaque=lambda t: t == gd)
    q = R.m('_get_specific_humidity', aux)
    okc = b is not None and b['coordinates'] == R.vert and sym.show(b['ideal_gas_constant']).endswith(('physics_specs.ideal_gas_constant', 'physics_specs.R'))
    chk.check(okc, rule, f'{site}: geopotential of the virtual-temperature excess uses the equation levels and R from the physics specs', sym.show(gd, maxdepth=3)[:200], loc,
              'get_geopotential_diff(ΔT_v, coords.vertical, physics_specs.R, …)', sym.show(gd, maxdepth=3)[:200])
    if b is not None:
      want_T = A.conv(q) * (A.conv(A_(aux, 'temperature_variation')) + A.conv(Tref)) * (A.conv(Rv) / A.conv(Rd) - 1)
      chk.check(alg.equal(repl_aliases(A, A.conv(b['temperature'])), want_T), rule, f'{site}: virtual-temperature excess = q·(T′ + T_ref)·(R_v/R − 1)', sym.show(b['temperature'])[:200], loc)
      chk.check(sym.show(b['sharding']).endswith('NamedSharding(self:MoistPrimitiveEquations.coords.spmd_mesh, self:MoistPrimitiveEquations.coords.dycore_partition_spec))') or sym.contains(b['sharding'], lambda t: t.k == 'attr' and t.a[1] == 'dycore_partition_spec'),
                rule, f'{site}: forwards the dycore sharding', sym.show(b['sharding'])[:120], loc)
    qm = R.m('_get_specific_humidity', st)
    gq = R.g('to_nodal', R.g('cos_lat_grad', qm, clip=sym.FALSE))
    gl = A_(aux, 'cos_lat_grad_log_sp')
    lap_lsp = R.g('to_nodal', R.g('laplacian', A_(st, 'log_surface_pressure')))
    dot = A.conv(Tref) * (A.conv(Rv) - A.conv(Rd)) * A.conv(sec2) * (A.conv(I_(gq, 0)) * A.conv(I_(gl, 0)) + A.conv(I_(gq, 1)) * A.conv(I_(gl, 1)))
    lapc = A.conv(q) * A.conv(lap_lsp) * A.conv(Tref) * (A.conv(Rv) - A.conv(Rd))
    tm = sp.Function(sym.show(R.g('to_modal', S('x')).a[0], maxdepth=3))
    gsym = A.conv(R.grid)
    want = -A.conv(R.g('laplacian', R.g('to_modal', gd))) - tm(gsym, dot + lapc)
    got = repl_aliases(A, A.conv(v))
    chk.check(alg.equal(got, want), rule, f'{site}: −∇²(to_modal(ΔΦ_v)) − to_modal(T_ref(R_v−R)[sec²θ ∇q·∇ln pₛ + q ∇²ln pₛ])', sym.show(v, maxdepth=4)[:240], loc, str(want)[:300], str(got)[:300])
  chk.at_least(rule, 6)


def take_true_arm(term, cond_pred):
  def sub(t):
    if not isinstance(t, Term):
      if isinstance(t, tuple):
        return tuple(sub(y) for y in t)
      return t
    if t.k == 'phi' and cond_pred(t.a[0]):
      return sub(t.a[1])
    if not sym.contains(t, lambda z: z.k == 'phi'):
      return t
    return Term(t.k, *tuple(sub(x) for x in t.a), cls=t.cls, loc=t.loc)
  return sub(term)


def rule_no_intermediate_clip(chk, prog):
  """Inside the primitive-equation tendencies the spectral operators run un-clipped; the clip happens once at the end."""
  import ast
  rule = 'C05.4-single-final-clip'
  mod = prog.module(PE)
  n = 0
  funcs = list(mod.functions.values()) + [m for c in mod.classes.values() for m in c.methods.values()]
  for f in funcs:
    for call in [x for x in ast.walk(f.node) if isinstance(x, ast.Call)]:
      name = call.func.attr if isinstance(call.func, ast.Attribute) else (call.func.id if isinstance(call.func, ast.Name) else None)
      if name not in ('cos_lat_grad', 'div_cos_lat', 'curl_cos_lat', 'get_cos_lat_vector'):
        continue
      kw = {k.arg: k.value for k in call.keywords}
      val = kw.get('clip')
      ok = isinstance(val, ast.Constant) and val.value is False
      n += 1
      chk.check(ok, rule, f'{f.qualname.replace("dinosaur.", "")}: {name}(…) inside a tendency is called with clip=False', 'clip=False' if ok else ('default clip=True' if val is None else ast.unparse(val)),
                (f.file, call.lineno), 'clip=False', 'clip=True (default)' if val is None else ast.unparse(val))
  chk.at_least(rule, 8)


def rule_coriolis(chk, prog):
  from rules import c12
  before = len(chk.instances)
  c12.rule_coriolis(chk, prog, rule='C05.3-coriolis-siblings')
  chk.minimum.pop('C12.6-coriolis-siblings', None)


def rule_div_sec_lat(chk, prog):
  """div_sec_lat(M, N) = ∇·((M, N)·sec²θ) through the cos-weighted divergence: both components carry exactly one sec²θ, the
  operator is div_cos_lat of the pair in this order, and the top wavenumber is kept (clip=False) for the caller's final clip."""
  rule = 'C05.2-coefficients'
  f = prog.func(f'{PE}.div_sec_lat')
  ev = sym.Evaluator(prog, sym.Options(opaque={'spherical_harmonic.Grid.to_modal', 'spherical_harmonic.Grid.div_cos_lat'}))
  v, _, _ = ev.run(f)
  site, loc = f'{PE}.div_sec_lat', (f.file, f.lineno)
  ok = v.k == 'call' and util.callee_name(v) == 'div_cos_lat'
  if chk.check(ok, rule, f'{site}: returns grid.div_cos_lat(·)', sym.show(v, maxdepth=2)[:120], loc):
    kw = util.call_kwargs(v)
    vec = kw.get('v')
    okv = vec is not None and vec.k == 'tuple' and len(vec.a) == 2 and all(x.k == 'call' and util.callee_name(x) == 'to_modal' for x in vec.a)
    if chk.check(okv, rule, f'{site}: of a pair of fields transformed to modal space', sym.show(vec, maxdepth=3)[:160] if vec is not None else 'missing', loc):
      A = alg.Algebra(ev)
      sec2 = A.name(lambda t: t.k == 'attr' and t.a[1] == 'sec2_lat', 'sec2', positive=True)
      sn = A.name(lambda t: t.k == 'sub' and t.a[1] == sym.const(1) and sym.contains(t.a[0], lambda z: z.k == 'attr' and z.a[1] in ('nodal_axes', 'nodal_mesh')), 'sin_lat', real=True)
      for comp, pn in zip(vec.a, ('m_component', 'n_component')):
        arg = util.call_args(comp)[0]
        # sec2_lat may appear as the grid attribute or inlined as 1/(1 − sin²θ) (decided equal under C05.6)
        chk.check(alg.equal(A.conv(arg).subs(sec2, 1 / (1 - sn**2)), A.conv(S(pn)) / (1 - sn**2)), rule, f'{site}: component `{pn}` is multiplied by sec²θ once before the transform', sym.show(arg)[:100], loc, f'{pn} * sec2_lat', sym.show(arg)[:100])
    chk.check(kw.get('clip') == sym.FALSE, rule, f'{site}: keeps the top wavenumber (clip=False; the tendencies are clipped once at the end)', sym.show(kw.get('clip')) if 'clip' in kw else 'default', loc)


def run(chk, prog, tier):
  rule_div_sec_lat(chk, prog)
  from rules import c01 as _c01m
  _c01m.rule_metric(chk, prog, rule='C05.6-metric-factors')
  from rules import c01 as _c01
  _c01.rule_shared_state(chk, prog, rule='C05.5-shared-arrays-never-updated-in-place')
  rule_inventory(chk, prog)
  rule_terms(chk, prog)
  rule_diagnostic(chk, prog)
  rule_shallow_water(chk, prog)
  rule_moist_corrections(chk, prog)
  rule_no_intermediate_clip(chk, prog)
  rule_coriolis(chk, prog)
  chk.assume('the Grid operators, sigma integrals and the vertical-advection function have the meaning decided under C02 / C13',
             'jnp.split / concatenate / stack / squeeze semantics; einsum semantics')
  return dict(
      explanation=('Every tendency method of PrimitiveEquations and its moist subclasses, compute_diagnostic_state and ShallowWaterEquations.explicit_terms is abstractly '
                   'interpreted with the lower-level operators kept as opaque linear function symbols; the resulting terms are canonicalised (sympy) and compared with '
                   'closed-form references built from the same atoms, branch by branch for the configuration flags; call sites of the spectral operators inside the '
                   'tendencies are checked for clip=False; Coriolis providers are compared with 2Ω sinθ. Not decided: pointwise agreement with the continuous equations '
                   'and steadiness of balanced states (numerical).'),
      trusted_base=['python ast', 'sympy canonicalisation', 'reference forms of the sigma-coordinate primitive and shallow-water equations'],
      analysed=dict(classes=['PrimitiveEquations', 'MoistPrimitiveEquations', 'MoistPrimitiveEquationsWithCloudMoisture', 'ShallowWaterEquations'],
                    functions=[f'{PE}.compute_diagnostic_state', f'{SW}.get_density_ratios', f'{SW}.state_to_nodal']),
  )
