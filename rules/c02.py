"""C02 — spectral differential operators: recurrence tables, eigenvalues, radius powers, layouts, clipping."""
from __future__ import annotations

import sympy as sp

from sa import alg, domains, guards, match, sym, util
from sa.model import AnalysisError
from sa.sym import Term
from rules import common

SH = 'spherical_harmonic'
FO = 'fourier'
G = f'{SH}.Grid.'

CLAIM = dict(
    text=('Decides the coefficient and structure facts the operators need to be exact: the derivative recurrence weights normalise to ε(l,m)=√((l²−m²)/(4l²−1)) '
          'and ε(l+1,m) (masked, first column of a and only top/padding columns of b zeroed); cos_lat_d_dlat and sec_lat_d_dlat_cos2 are the two-term shifts '
          'with weights ((l+1)·a, −l·b) and ((l−1)·a, −(l+2)·b) and the matching shift directions; the Laplacian eigenvalues are −l(l+1)/radius², the inverse '
          'Laplacian multiplies by their reciprocal with index 0 and indices ≥ total_wavenumbers zeroed; every operator carries the power of `radius` of '
          'its physical dimension on every return path (unit-of-measure analysis); each real Fourier basis builder and its longitude derivative agree on '
          'which slot holds cos / sin of which wavenumber, on the neighbour, sign and frequency used (index expressions folded on 16 slots); grad / div / '
          'curl clip by default and clip_wavenumbers zeroes n + padding trailing columns; the u,v ↔ vorticity, divergence converters divide by cos(lat) on '
          'the nodal side, use k×(a,b) = (−b, a) and invert the Laplacian of both potentials. Also decided: cached operator tables (eigenvalues, recurrence weights, masks) are never updated in place (may-alias analysis shared with C01.7); the Fourier basis layout is the same const | 0 | cos k | sin k table in every configuration branch of its builder. Does not decide agreement with analytic derivatives or the '
          'vector-calculus identities numerically.'
          " Later additions: C02.10 every Grid factory carries the caller's radius into the constructed grid; the clip mask is decided arm by arm when a fast path on n == c exists (every arm keeps exactly j < L − n); C02.9 metric factors; C02.7 shared tables never updated in place."),
    note=('Reference formulas (cited in rules/c02.py): (1−μ²)dP̄_l^m/dμ = (l+1)ε_l P̄_(l−1) − l ε_(l+1) P̄_(l+1); μP̄_l = ε_(l+1)P̄_(l+1) + ε_l P̄_(l−1); scipy.linalg.dft uses '
          'e^(−2πijk/n) (so sin = −Im). shift(y, s)[l] = y[l − s] with zero fill.'),
    technique='normal forms of coefficient expressions (sympy canonicalisation) + unit-of-measure abstract interpretation + folding of index expressions on a finite slot range',
)


def S(n):
  return Term('sym', n)


def is_modal_axis(i):
  def p(t):
    t = util.strip(t)
    return t.k == 'sub' and t.a[1] == sym.const(i) and t.a[0].k == 'attr' and t.a[0].a[1] in ('modal_axes', 'modal_mesh')
  return p


is_l = is_modal_axis(1)
is_m = is_modal_axis(0)


def is_radius(t):
  return t.k == 'attr' and t.a[1] == 'radius'


def is_mask(t):
  return t.k == 'attr' and t.a[1] == 'mask'


def eps2(l, m):
  return (l**2 - m**2) / (4 * l**2 - 1)


def named_algebra(ev, **kw):
  A = alg.Algebra(ev, **kw)
  l = A.name(is_l, 'l')
  m = A.name(is_m, 'm')
  r = A.name(is_radius, 'radius', positive=True)
  mask = A.name(is_mask, 'mask')
  return A, l, m, r, mask


def strip_stores(t):
  stores = []
  while t.k == 'store':
    stores.append((t.a[1], t.a[2], t.a[3], t.loc))
    t = t.a[0]
  return t, list(reversed(stores))


def full_slice(t):
  return t.k == 'slice' and all(x == sym.NONE for x in t.a)


# ------------------------------------------------------- recurrence weights
def rule_recurrence(chk, prog):
  rule = 'C02.1-recurrence-tables'
  ev = sym.Evaluator(prog)
  f = prog.func(G + '_derivative_recurrence_weights')
  v, ctx, env = ev.run(f)
  site, loc = f'{SH}.Grid._derivative_recurrence_weights', (f.file, f.lineno)
  chk.require(v.k == 'tuple' and len(v.a) == 2, f'{site}: does not return (a, b)')
  A, l, m, r, mask = named_algebra(ev)
  for name, t, ref, zero_col in (('a', v.a[0], eps2(l, m), 'first'), ('b', v.a[1], eps2(l + 1, m), 'last')):
    base, stores = strip_stores(t)
    ok = match.is_ext_call(base, 'sqrt') and len(base.a[1]) == 1
    if not chk.check(ok, rule, f'{site}: {name} is a square root of a rational function of (l, m)', sym.show(base)[:160], loc):
      continue
    arg = A.conv(base.a[1][0])
    chk.check(alg.equal(arg, mask * ref), rule,
              f'{site}: {name}² = mask · ε²({ "l" if name == "a" else "l+1"}, m) with ε²(l, m) = (l² − m²)/(4l² − 1)', str(sp.factor(arg)), base.loc or loc,
              str(sp.factor(mask * ref)), str(sp.factor(arg)))
    # stores of zero
    cols = []
    for idx, val, op, sloc in stores:
      okz = op == '=' and val == sym.const(0) and idx.k == 'tuple' and len(idx.a) == 2 and full_slice(idx.a[0])
      if not okz:
        chk.violation(rule, f'{site}: {name} is modified after the formula by {sym.show(idx)} {op} {sym.show(val)}', 'unexpected modification of the recurrence weights', sloc or loc)
        continue
      cols.append((idx.a[1], sloc))
    if zero_col == 'first':
      ok = len(cols) == 1 and cols[0][0] == sym.const(0)
      chk.check(ok, rule, f'{site}: only column l = 0 of a is zeroed (no coupling from l = 0 downwards)', str([sym.show(c) for c, _ in cols]), loc, '[0]', str([sym.show(c) for c, _ in cols]))
    else:
      def top_only(c):
        if c == sym.const(-1):
          return True
        if c.k == 'slice' and c.a[1] == sym.NONE and c.a[2] == sym.NONE:
          B = alg.Algebra(ev)
          tw = B.name(lambda t: t.k == 'attr' and t.a[1] == 'total_wavenumbers', 'L')
          try:
            return alg.equal(B.conv(c.a[0]), tw - 1)
          except Exception:
            return False
        return False
      ok = len(cols) == 1 and top_only(cols[0][0])
      chk.check(ok, rule, f'{site}: of b only the top total wavenumber (and padding) column is zeroed', str([sym.show(c) for c, _ in cols]), loc,
                '[-1] or [total_wavenumbers - 1:]', str([sym.show(c) for c, _ in cols]))
  # the two latitude derivatives
  ev2 = sym.Evaluator(prog, sym.Options(opaque={G + '_derivative_recurrence_weights'}))
  for fname, cm, cp, label in (('cos_lat_d_dlat', lambda l: l + 1, lambda l: -l, 'cosθ ∂/∂θ'), ('sec_lat_d_dlat_cos2', lambda l: l - 1, lambda l: -(l + 2), 'secθ ∂/∂θ cos²θ')):
    f = prog.func(G + fname)
    v, ctx, env = ev2.run(f)
    site, loc = f'{SH}.Grid.{fname}', (f.file, f.lineno)
    shifts = [t for t in sym.walk(v) if t.k == 'call' and util.callee_qual(t).endswith('jax_numpy_utils.shift')]
    B, l, m, r, mask = named_algebra(ev2, opaque=lambda t: t.k == 'call' and util.callee_qual(t).endswith('jax_numpy_utils.shift'))
    e = sp.expand(B.conv(v))
    okform = len(set(shifts)) == 2 and sp.expand(e - sum(B.atom(s_) for s_ in set(shifts))) == 0
    if not chk.check(okform, rule, f'{site}: {label} is the sum of exactly two shifted, weighted copies of x', sym.show(v, maxdepth=3)[:160], loc):
      continue
    aw = B.name(lambda t: t.k == 'sub' and t.a[1] == sym.const(0) and t.a[0].k == 'attr' and t.a[0].a[1] == '_derivative_recurrence_weights', 'a')
    bw = B.name(lambda t: t.k == 'sub' and t.a[1] == sym.const(1) and t.a[0].k == 'attr' and t.a[0].a[1] == '_derivative_recurrence_weights', 'b')
    B.memo.clear()
    x = B.conv(S(f.param_names()[1]))
    seen = {}
    for s_ in set(shifts):
      args = list(s_.a[1])
      kw = util.call_kwargs(s_)
      y, off = args[0], args[1]
      axis = kw.get('axis', args[2] if len(args) > 2 else None)
      if off.k != 'const' or axis != sym.const(-1):
        chk.violation(rule, f'{site}: shift with offset {sym.show(off)} along {sym.show(axis) if axis is not None else None}', 'shift is not by a constant ±1 along the total-wavenumber axis', s_.loc or loc)
        continue
      seen[off.a[0]] = sp.cancel(B.conv(y) / x)
    want = {-1: cm(l) * aw, 1: cp(l) * bw}
    for off in (-1, 1):
      got = seen.get(off)
      chk.check(got is not None and alg.equal(got, want[off]), rule,
                f'{site}: contribution l → l{"−1" if off == -1 else "+1"} (shift {off:+d}) has weight {"(" + str(want[off]) + ")"}',
                str(got), loc, str(want[off]), str(got))
  chk.at_least(rule, 10)


# ------------------------------------------------------------- eigenvalues
def rule_eigenvalues(chk, prog):
  rule = 'C02.2-laplacian'
  ev = sym.Evaluator(prog)
  f = prog.func(G + 'laplacian_eigenvalues')
  v, _, _ = ev.run(f)
  A, l, m, r, mask = named_algebra(ev)
  chk.check(alg.equal(A.conv(v), -l * (l + 1) / r**2), rule, f'{SH}.Grid.laplacian_eigenvalues = −l(l+1)/radius²', str(A.conv(v)), (f.file, f.lineno), '-l*(l+1)/radius**2', str(A.conv(v)))
  ev2 = sym.Evaluator(prog, sym.Options(opaque={G + 'laplacian_eigenvalues'}))
  eig = lambda t: t.k == 'attr' and t.a[1] == 'laplacian_eigenvalues'
  f = prog.func(G + 'laplacian')
  v, _, _ = ev2.run(f)
  x = S(f.param_names()[1])
  fs = match.plain_factors(v)
  chk.check(len(fs) == 2 and x in fs and any(eig(t) for t in fs), rule, f'{SH}.Grid.laplacian multiplies by the eigenvalues', sym.show(v), (f.file, f.lineno), 'x * laplacian_eigenvalues', sym.show(v))
  f = prog.func(G + 'inverse_laplacian')
  v, _, _ = ev2.run(f)
  site, loc = f'{SH}.Grid.inverse_laplacian', (f.file, f.lineno)
  x = S(f.param_names()[1])
  fs = match.plain_factors(v)
  other = [t for t in fs if t != x]
  if chk.check(len(fs) == 2 and x in fs and len(other) == 1, rule, f'{site}: multiplies x by one factor', sym.show(v)[:160], loc):
    base, stores = strip_stores(other[0])
    okb = base.k == 'bin' and base.a[0] == '/' and base.a[1] == sym.const(1) and eig(base.a[2])
    chk.check(okb, rule, f'{site}: the factor is the reciprocal of the eigenvalues', sym.show(base), loc, '1 / laplacian_eigenvalues', sym.show(base))
    idxs = [(i, v_) for i, v_, op, _ in stores if op == '=']
    z0 = any(i == sym.const(0) and v_ == sym.const(0) for i, v_ in idxs)
    ztail = any(i.k == 'slice' and i.a[1] == sym.NONE and i.a[0].k == 'attr' and i.a[0].a[1] == 'total_wavenumbers' and v_ == sym.const(0) for i, v_ in idxs)
    chk.check(z0, rule, f'{site}: the l = 0 entry (zero eigenvalue) is set to 0', str([sym.show(i) for i, _ in idxs]), loc)
    chk.check(ztail, rule, f'{site}: entries at and beyond total_wavenumbers (padding, zero eigenvalues) are set to 0', str([sym.show(i) for i, _ in idxs]), loc,
              'inverse_eigenvalues[total_wavenumbers:] = 0', str([sym.show(i) for i, _ in idxs]))
    chk.check(len(idxs) == 2 and len(stores) == 2, rule, f'{site}: nothing else of the reciprocal is modified', str([sym.show(i) for i, _ in idxs]), loc)
  chk.at_least(rule, 6)


# ------------------------------------------------------------ radius powers
def radius_domain():
  def linear_ops(t):
    n = util.callee_name(t)
    q = util.callee_qual(t)
    if q.endswith('jax_numpy_utils.shift'):
      return [t.a[1][0]]
    if n in ('longitudinal_derivative', 'transform', 'inverse_transform'):
      return [util.call_args(t)[-1]]
    if n in ('to_modal', 'to_nodal', 'clip_wavenumbers') and t.a[0].k == 'bound':
      return [util.call_args(t)[0]]
    return None
  return domains.UnitExp(is_radius, linear_ops)


OPERATORS = [
    (G + 'd_dlon', 0, '∂/∂λ'), (G + 'cos_lat_d_dlat', 0, 'cosθ ∂/∂θ'), (G + 'sec_lat_d_dlat_cos2', 0, 'secθ ∂/∂θ cos²θ'),
    (G + 'cos_lat_grad', -1, 'cosθ ∇'), (G + 'div_cos_lat', -1, '∇·(v cosθ)'), (G + 'curl_cos_lat', -1, 'k·∇×(v cosθ)'),
    (G + 'laplacian', -2, '∇²'), (G + 'inverse_laplacian', 2, '∇⁻²'), (G + 'clip_wavenumbers', 0, 'clip'), (G + 'k_cross', 0, 'k×'),
    (G + 'integrate', 2, '∫ dA'),
    (f'{SH}.get_cos_lat_vector', 1, 'v cosθ from (ζ, δ)'), (f'{SH}.vor_div_to_uv_nodal', 1, '(u, v) from (ζ, δ)'),
    (f'{SH}.uv_nodal_to_vor_div_modal', -1, '(ζ, δ) from (u, v)'), ('primitive_equations.div_sec_lat', -1, 'div_sec_lat'),
]


def rule_radius(chk, prog):
  rule = 'C02.3-radius-power'
  for q, want, label in OPERATORS:
    f = prog.func(q)
    ev = sym.Evaluator(prog)
    v, ctx, env = ev.run(f)
    dom = radius_domain()
    site, loc = q.replace('dinosaur.', ''), (f.file, f.lineno)
    try:
      got = dom.of(v)
    except domains.Inconsistent as e:
      chk.violation(rule, f'{site}: {label} carries radius^{want} on every path', str(e), loc, f'radius^{want}', 'mixed powers')
      continue
    except RecursionError:
      raise AnalysisError(f'{site}: term too deep for the unit analysis')
    chk.check(got == want or (got is None), rule, f'{site}: {label} carries radius^{want} on every return path (clip or not)', f'radius^{got}', loc, f'radius^{want}', f'radius^{got}')
  chk.at_least(rule, len(OPERATORS))


# ------------------------------------------------------- Fourier layouts
def fold_index(t, ival, is_i, zero_syms=()):
  if is_i(t):
    return ival
  k, a = t.k, t.a
  if k == 'const':
    return a[0]
  if k == 'sym' and a[0] in zero_syms:
    return 0
  if k == 'bin':
    l, r = fold_index(a[1], ival, is_i, zero_syms), fold_index(a[2], ival, is_i, zero_syms)
    return {'+': lambda: l + r, '-': lambda: l - r, '*': lambda: l * r, '//': lambda: l // r, '%': lambda: l % r}[a[0]]()
  if k == 'un' and a[0] == '-':
    return -fold_index(a[1], ival, is_i, zero_syms)
  if k == 'cmp' and len(a[0]) == 1:
    l, r = fold_index(a[1][0], ival, is_i, zero_syms), fold_index(a[1][1], ival, is_i, zero_syms)
    return {'==': l == r, '!=': l != r, '<': l < r, '>': l > r, '<=': l <= r, '>=': l >= r}[a[0][0]]
  if k == 'call' and alg.ext_short(a[0]) in ('asarray', 'array', 'int32', 'int64') and a[1]:
    return fold_index(a[1][0], ival, is_i, zero_syms)
  raise guards.Inconclusive(sym.show(t)[:80])


def phi_arms(v, cond=()):
  """[(path condition texts, value)] for a value that is a tree of configuration joins."""
  if v.k == 'phi':
    return phi_arms(v.a[1], cond + (sym.show(v.a[0], maxdepth=4),)) + phi_arms(v.a[2], cond + ('not ' + sym.show(v.a[0], maxdepth=4),))
  return [(cond, v)]


def basis_roles(chk, site, v, loc, nslots=16):
  """slot → ('const',) | ('zero',) | ('cos', k) | ('sin', k) | ('other', text) from the builder's stores.

  A column that is written again from its own previous content (rescaled, shifted …) or from anything that is not
  the constant column, zero, Re(dft) or −Im(dft) gets the role 'other' and is reported by the caller."""
  base, stores = strip_stores(v)
  roles = {}
  facts = []
  for idx, val, op, sloc in stores:
    if not (idx.k == 'tuple' and len(idx.a) == 2 and full_slice(idx.a[0])):
      raise AnalysisError(f'{site}: unrecognised basis assignment {sym.show(idx)}')
    col = idx.a[1]
    if col.k == 'const' and isinstance(col.a[0], int):
      slots = [col.a[0] % nslots]
    elif col.k == 'slice' and col.a[0].k == 'const' and col.a[1] == sym.NONE and col.a[2].k == 'const':
      slots = list(range(col.a[0].a[0], nslots, col.a[2].a[0]))
    else:
      raise AnalysisError(f'{site}: unrecognised column index {sym.show(col)}')
    kind = None
    if op != '=' or sym.contains(val, lambda t: t.k == 'store'):
      kind = 'other'
    elif val == sym.const(0):
      kind = 'zero'
    elif match.is_ext_call(val, 'real'):
      kind = 'cos'
      facts.append(('cos', val.a[1][0]))
    elif val.k == 'un' and val.a[0] == '-' and match.is_ext_call(val.a[1], 'imag'):
      kind = 'sin'
      facts.append(('sin', val.a[1].a[1][0]))
    elif match.is_ext_call(val, 'imag'):
      kind = 'minus-sin'
    else:
      kind = 'const'
      facts.append(('const', val))
    for n, s_ in enumerate(slots):
      if kind == 'other':
        roles[s_] = ('other', f'{sym.show(col)} {op} {sym.show(val, maxdepth=3)[:80]}')
      else:
        roles[s_] = (kind, n + 1) if kind in ('cos', 'sin', 'minus-sin') else (kind,)
  return roles, facts


def rule_fourier(chk, prog):
  rule = 'C02.4-fourier-layout'
  ev = sym.Evaluator(prog)
  for builder, deriv in (('real_basis', 'real_basis_derivative'), ('real_basis_with_zero_imag', 'real_basis_derivative_with_zero_imag')):
    fb = prog.func(f'{FO}.{builder}')
    vb, ctxb, _ = ev.run(fb)
    site, loc = f'{FO}.{builder}', (fb.file, fb.lineno)
    n = 16
    arms = phi_arms(vb)
    per_arm = [(cond, basis_roles(chk, site, arm, loc)) for cond, arm in arms]
    roles, facts = per_arm[-1][1]
    for cond, (r_, f_) in per_arm:
      other = {i: r for i, r in r_.items() if r[0] == 'other'}
      where_ = f' [when {" and ".join(cond)}]' if cond else ''
      chk.check(not other and r_ == roles, rule, f'{site}: every column is the constant, zero, Re(dft) or −Im(dft) column of its wavenumber, in every configuration',
                f'{len(arms)} configuration(s)' if not other and r_ == roles else f'{where_} {other or "layout differs between configurations"}', loc,
                'one layout: const | 0 | cos k | sin k', str(other)[:200])
    missing = [i for i in range(n) if i not in roles]
    chk.check(not missing, rule, f'{site}: every column of the basis is assigned', f'unassigned slots {missing}', loc)
    chk.check(not any(r[0] == 'minus-sin' for r in roles.values()), rule, f'{site}: sin columns are −Im of the DFT matrix (scipy uses e^(−2πijk/n))',
              str({i: r for i, r in roles.items() if r[0] == 'minus-sin'}), loc, '-np.imag(dft)', '+np.imag(dft)')
    # normalisation and wavenumber alignment of the dft slice
    A = alg.Algebra(ev)
    for kind, t in facts:
      if kind == 'const':
        chk.check(alg.equal(A.conv(t) ** 2, 1 / (2 * sp.pi)), rule, f'{site}: the constant column is 1/√(2π) (unit L² norm)', str(A.conv(t)), loc, '1/sqrt(2*pi)', str(A.conv(t)))
      else:
        # t = (dft(nodes)[:, :wavenumbers] / sqrt(pi))[:, 1:]
        ok = (t.k == 'sub' and t.a[1].k == 'tuple' and len(t.a[1].a) == 2 and full_slice(t.a[1].a[0]) and t.a[1].a[1] == Term('slice', sym.const(1), sym.NONE, sym.NONE))
        inner = t.a[0] if ok else None
        ok = ok and inner.k == 'bin' and inner.a[0] == '/' and alg.equal(A.conv(inner.a[2]) ** 2, sp.pi)
        d = inner.a[1] if ok else None
        ok = ok and d.k == 'sub' and d.a[0].k == 'call' and d.a[0].a[0] == Term('ext', 'scipy.linalg.dft') and d.a[0].a[1][0] == S('nodes') \
            and d.a[1].k == 'tuple' and d.a[1].a[1] == Term('slice', sym.NONE, S('wavenumbers'), sym.NONE)
        chk.check(bool(ok), rule, f'{site}: {kind} columns are the DFT columns 1 … wavenumbers−1 divided by √π', sym.show(t)[:160], loc, '(dft(nodes)[:, :wavenumbers] / sqrt(pi))[:, 1:]', sym.show(t)[:160])
    # pairing: cos k and sin k are neighbours (cos first)
    pairs_ok = all(roles.get(i + 1) == ('sin', r[1]) for i, r in roles.items() if r[0] == 'cos' and i + 1 < n)
    chk.check(pairs_ok, rule, f'{site}: cos(kλ) at slot i is followed by sin(kλ) at slot i+1', str({i: roles[i] for i in sorted(roles)[:7]}), loc)
    guard_ok = any(sym.show(guards.path_cond(p)) in ('(nodes < wavenumbers)', '(wavenumbers > nodes)') for p, e, l in ctxb.raises)
    chk.check(guard_ok, rule, f'{site}: rejects nodes < wavenumbers', str([sym.show(guards.path_cond(p)) for p, e, l in ctxb.raises]), loc)
    # derivative
    fd = prog.func(f'{FO}.{deriv}')
    vd, ctxd, _ = ev.run(fd)
    dsite, dloc = f'{FO}.{deriv}', (fd.file, fd.lineno)
    u = S(fd.param_names()[0])
    fs = match.plain_factors(vd)
    wh = [t for t in fs if match.is_ext_call(t, 'where')]
    js = [t for t in fs if t not in wh]
    if not chk.check(len(wh) == 1 and len(js) == 1 and len(wh[0].a[1]) == 3, rule, f'{dsite}: result = frequency · where(selector, neighbour⁺, −neighbour⁻)', sym.show(vd)[:200], dloc):
      continue
    sel, A_, B_ = wh[0].a[1]
    is_i = lambda t: (t.k == 'call' and t.a[0].k == 'attr' and t.a[0].a[1] == 'reshape' and match.is_ext_call(t.a[0].a[0], 'arange')) or match.is_ext_call(t, 'arange')
    def nb(t):
      """(sign, offset) for ±shift(u, s, axis)"""
      sign = 1
      if t.k == 'un' and t.a[0] == '-':
        sign, t = -1, t.a[1]
      if t.k == 'call' and util.callee_qual(t).endswith('jax_numpy_utils.shift') and t.a[1][0] == u and t.a[1][1].k == 'const':
        return sign, -t.a[1][1].a[0]   # shift(u, s)[i] = u[i - s]
      return None
    na, nb_ = nb(A_), nb(B_)
    if not chk.check(na is not None and nb_ is not None, rule, f'{dsite}: both branches are ±shift(u, ±1, axis)', f'{sym.show(A_)} / {sym.show(B_)}', dloc):
      continue
    bad = []
    try:
      for i in range(n - 1):
        J = fold_index(js[0], i, is_i, zero_syms=('frequency_offset',))
        SEL = bool(fold_index(sel, i, is_i, zero_syms=('frequency_offset',)))
        sign, off = na if SEL else nb_
        role = roles.get(i)
        if role is None or role[0] == 'other':
          continue  # reported above
        if role[0] in ('const', 'zero'):
          if J != 0:
            bad.append((i, role, f'frequency {J} ≠ 0'))
          continue
        k = role[1]
        partner = ('sin', k) if role[0] == 'cos' else ('cos', k)
        want_sign = 1 if role[0] == 'cos' else -1
        src = i + off
        if J != k or roles.get(src) != partner or sign != want_sign:
          bad.append((i, role, f'got {sign * J:+d}·u[{src}] ({roles.get(src)})', f'want {want_sign * k:+d}·u[slot of {partner}]'))
    except guards.Inconclusive as e:
      raise AnalysisError(f'{dsite}: index expression not recognised: {e}')
    chk.check(not bad, rule, f'{dsite}: for every slot the derivative takes ±k times the partner coefficient of the same wavenumber k, matching the layout of {builder}',
              f'{n - 1} slots folded' if not bad else str(bad[:3]), dloc, 'd/dλ cos kλ = −k sin kλ, d/dλ sin kλ = k cos kλ in this layout', str(bad[:3]))
    par = 'odd' if builder == 'real_basis' else 'even'
    conds = [sym.show(guards.path_cond(p)) for p, e, l in ctxd.raises]
    chk.check(len(ctxd.raises) >= 2, rule, f'{dsite}: rejects a wrong-parity length and a non-negative axis', str(conds), dloc)
  # the sharded derivative offsets the frequency by its shard's first wavenumber
  f = prog.func(f'{SH}._fourier_derivative_for_real_basis_with_zero_imag')
  ev2 = sym.Evaluator(prog, sym.Options(opaque={f'{FO}.real_basis_derivative_with_zero_imag'}))
  v, ctx, env = ev2.run(f)
  site, loc = f'{SH}._fourier_derivative_for_real_basis_with_zero_imag', (f.file, f.lineno)
  calls = [t for t in sym.walk(v) if t.k == 'call' and util.callee_name(t) == 'real_basis_derivative_with_zero_imag']
  fd = prog.func(f'{FO}.real_basis_derivative_with_zero_imag')
  unsh = [c for c in calls if ev2.bind_args(fd, list(c.a[1]), list(c.a[2]), None, None)['frequency_offset'] == sym.const(0)]
  chk.check(len(unsh) >= 1 and all(ev2.bind_args(fd, list(c.a[1]), list(c.a[2]), None, None)['axis'] == sym.const(-2) for c in calls), rule,
            f'{site}: differentiates along the longitudinal-wavenumber axis (−2); the unsharded path has no frequency offset', str([sym.show(c)[:80] for c in calls]), loc)
  diff = env.get('differentiate')
  if diff is not None and diff.k == 'lambda':
    b, _, benv = util.inner(ev2, diff, site)
    bc = [t for t in sym.walk(b) if t.k == 'call' and util.callee_name(t) == 'real_basis_derivative_with_zero_imag']
    ok = len(bc) == 1
    if ok:
      bb = ev2.bind_args(fd, list(bc[0].a[1]), list(bc[0].a[2]), None, None)
      off = bb['frequency_offset']
      uu = S(ev2.get_func(diff)[0].param_names()[0])
      B = alg.Algebra(ev2)
      want = sp.Function('floordiv')(B.conv(Term('sub', Term('attr', uu, 'shape'), bb['axis'])), 2) * B.conv(Term('call', Term('ext', 'jax.lax.axis_index'), (sym.const('x'),), ()))
      ok = bb['axis'] == sym.const(-2) and alg.equal(B.conv(off), want)
    chk.check(ok, rule, f'{site}: on a mesh the frequency offset is (local extent // 2) · axis_index("x") — the first wavenumber of the shard (± pairs stay together)',
              sym.show(bc[0])[:200] if bc else 'no call', loc, "u.shape[-2] // 2 * lax.axis_index('x')", sym.show(bc[0])[:200] if bc else '')
  else:
    chk.violation(rule, f'{site}: sharded branch', 'no shard-local differentiate function found', loc)
  chk.at_least(rule, 16)


def mask_keep_threshold(t, B, L, pad):
  """Abstract value of a 0/1 mask along the (possibly tail-padded) total-wavenumber axis.

  Returns ('index', thr): keep ⇔ position j < thr (positions 0 … L+pad−1), or
  ('wavenumber', thr): keep ⇔ l_j < thr where l_j is the *value* of modal_axes[1]
  (0 on padding), or None for an unrecognised construction."""
  while t.k == 'call' and t.a[0].k == 'attr' and t.a[0].a[1] == 'astype':
    t = t.a[0].a[0]
  shape = L + pad
  is_shape_l = lambda z: sym.contains(z, lambda y: y.k == 'attr' and y.a[1] == 'modal_shape')
  base, stores = strip_stores(t)
  if stores and match.is_ext_call(base, 'ones') and is_shape_l(base.a[1][0]):
    if len(stores) == 1 and stores[0][1] == sym.const(0) and stores[0][0].k == 'slice' and stores[0][0].a[1] == sym.NONE and stores[0][0].a[2] == sym.NONE:
      k = B.conv(stores[0][0].a[0])     # [-k:] = 0
      return ('index', sp.expand(shape + k))
    return None
  if t.k == 'cmp' and len(t.a[0]) == 1 and t.a[0][0] in ('<', '<='):
    lhs, rhs = t.a[1]
    thr = B.conv(rhs) + (1 if t.a[0][0] == '<=' else 0)
    if lhs.k == 'call' and alg.ext_short(lhs.a[0]) == 'arange' and len(lhs.a[1]) == 1 and is_shape_l(lhs.a[1][0]):
      return ('index', sp.expand(thr))
    if lhs.k == 'sub' and lhs.a[1] == sym.const(1) and lhs.a[0].k == 'attr' and lhs.a[0].a[1] == 'modal_axes':
      return ('wavenumber', sp.expand(thr))
  return None


def clip_mask_rule(chk, prog, rule):
  """clip_wavenumbers(x, n) keeps exactly the positions j < L − n of the total-wavenumber axis (so zeroes the top n wavenumbers *and* the tail padding)."""
  ev2 = sym.Evaluator(prog)
  f = prog.func(G + 'clip_wavenumbers')
  v, ctx, env = ev2.run(f)
  site, loc = f'{SH}.Grid.clip_wavenumbers', (f.file, f.lineno)
  x = S(f.param_names()[1])
  # a fast path for particular n (φ on n == c) is decided arm by arm with n bound on the arm where the test holds
  def arms(t, bound):
    if t.k == 'phi' and t.a[0].k == 'cmp' and tuple(t.a[0].a[0]) == ('==',) and len(t.a[0].a[1]) == 2 and S('n') in t.a[0].a[1]:
      ops = t.a[0].a[1]
      c = ops[1] if ops[0] == S('n') else ops[0]
      if c.k == 'const' and isinstance(c.a[0], int) and bound is None:
        return arms(t.a[1], c.a[0]) + arms(t.a[2], None)
    return [(bound, t)]
  for nb, arm in arms(v, None):
    where = f' [n == {nb}]' if nb is not None else (' [general n]' if v.k == 'phi' else '')
    fs = match.plain_factors(arm)
    other = [t for t in fs if t != x]
    if chk.check(len(fs) == 2 and x in fs and len(other) == 1, rule, f'{site}{where}: multiplies by a 0/1 mask along the total-wavenumber axis', sym.show(arm)[:200], loc):
      B = alg.Algebra(ev2)
      n = B.name(lambda t: t == S('n'), 'n', positive=True)
      pad = B.name(lambda t: t.k == 'sub' and t.a[1] == sym.const(-1) and t.a[0].k == 'attr' and t.a[0].a[1] == 'modal_padding', 'pad_l', nonnegative=True)
      L = B.name(lambda t: t.k == 'attr' and t.a[1] == 'total_wavenumbers', 'L', positive=True)
      B.name(lambda t: t.k == 'sub' and t.a[1] == sym.const(-1) and t.a[0].k == 'attr' and t.a[0].a[1] == 'modal_shape', 'shape_l')
      m_ = other[0]
      while m_.k == 'call' and m_.a[0].k == 'ext' and m_.a[0].a[0].rsplit('.', 1)[-1] in ('asarray', 'array') and m_.a[1]:
        m_ = m_.a[1][0]   # dtype conversion of the mask
      res = mask_keep_threshold(m_, B, L, pad)
      if res is None:
        raise AnalysisError(f'{site}: unrecognised mask construction {sym.show(other[0])[:160]}')
      kind, thr = res
      for s_ in list(thr.free_symbols):
        if s_.name == 'shape_l':
          thr = thr.subs(s_, L + pad)
      want = L - n
      if nb is not None:
        thr, want = thr.subs(n, nb), want.subs(n, nb)
      thr = sp.expand(thr)
      chk.check(kind == 'index', rule, f'{site}{where}: the mask is decided by position along the padded axis (tail padding reads as wavenumber 0 in modal_axes and must still be zeroed)',
                f'{kind}-based mask {sym.show(other[0])[:160]}', loc, 'position-based mask (ones(...).at[-k:].set(0) or arange(shape) < c)', f'compares wavenumber values: padding (l = 0) is kept')
      chk.check(alg.equal(thr, want), rule, f'{site}{where}: keeps exactly the positions j < total_wavenumbers − n (the last n + modal_padding[-1] columns are zeroed)', f'keep ⇔ j < {thr}', loc,
                f'j < {want}', f'j < {thr}')
  conds = [sym.show(guards.path_cond(p)) for p, e, l in ctx.raises]
  chk.check(any('n' in c for c in conds), rule, f'{site}: rejects non-positive n', str(conds), loc)


# -------------------------------------------------------------- clipping
def rule_clip(chk, prog):
  rule = 'C02.5-default-clip'
  ev = sym.Evaluator(prog, sym.Options(opaque={G + 'clip_wavenumbers', G + 'd_dlon', G + 'cos_lat_d_dlat', G + 'sec_lat_d_dlat_cos2'}))
  clipc = lambda t: t.k == 'call' and util.callee_name(t) == 'clip_wavenumbers'
  for fname in ('cos_lat_grad', 'div_cos_lat', 'curl_cos_lat'):
    f = prog.func(G + fname)
    d = None
    for a_, dflt in zip(reversed(f.args.args), reversed(f.args.defaults)):
      if a_.arg == 'clip':
        d = dflt
    chk.check(d is not None and getattr(d, 'value', None) is True, rule, f'{SH}.Grid.{fname}: clip defaults to True', sym.unparse(d) if d is not None else 'no default', (f.file, f.lineno))
    v, ctx, env = ev.run(f)
    ok = v.k == 'phi' and v.a[0] == S('clip') and clipc(v.a[1]) and util.call_args(v.a[1])[0] == v.a[2] and not clipc(v.a[2])
    okn = ok and (len(util.call_args(v.a[1])) == 1 and not v.a[1].a[2])
    chk.check(okn, rule, f'{SH}.Grid.{fname}: clip=True returns clip_wavenumbers(raw) (one wavenumber), clip=False the very same raw value', sym.show(v, maxdepth=4)[:200], (f.file, f.lineno),
              'φ(clip ? clip_wavenumbers(raw) : raw)', sym.show(v, maxdepth=4)[:200])
  # form of the raw operators
  dd = lambda t, x: t.k == 'call' and util.callee_name(t) == 'd_dlon' and util.call_args(t) == [x]
  ev3 = sym.Evaluator(prog, sym.Options(opaque={G + 'clip_wavenumbers', G + 'd_dlon', G + 'cos_lat_d_dlat', G + 'sec_lat_d_dlat_cos2'}))
  A = alg.Algebra(ev3, opaque=lambda t: t.k == 'call' and util.callee_name(t) in ('d_dlon', 'cos_lat_d_dlat', 'sec_lat_d_dlat_cos2'))
  r = A.name(is_radius, 'radius')
  def op(name, x):
    c = prog.cls(f'{SH}.Grid')
    selfs = Term('sym', 'self:Grid', cls=c)
    return A.conv(Term('call', Term('bound', selfs, f'dinosaur.{SH}.Grid.{name}'), (selfs, x), ()))
  f = prog.func(G + 'div_cos_lat')
  v, _, _ = ev3.run(f, bind={'clip': sym.FALSE})
  vv = S('v')
  v0, v1 = Term('sub', vv, sym.const(0)), Term('sub', vv, sym.const(1))
  chk.check(alg.equal(A.conv(v), (op('d_dlon', v0) + op('sec_lat_d_dlat_cos2', v1)) / r), 'C02.6-composition', f'{SH}.Grid.div_cos_lat = (∂λ v₀ + secθ∂θ(cos²θ v₁)) / radius',
            sym.show(v)[:200], (f.file, f.lineno))
  f = prog.func(G + 'curl_cos_lat')
  v, _, _ = ev3.run(f, bind={'clip': sym.FALSE})
  chk.check(alg.equal(A.conv(v), (op('d_dlon', v1) - op('sec_lat_d_dlat_cos2', v0)) / r), 'C02.6-composition', f'{SH}.Grid.curl_cos_lat = (∂λ v₁ − secθ∂θ(cos²θ v₀)) / radius',
            sym.show(v)[:200], (f.file, f.lineno))
  f = prog.func(G + 'cos_lat_grad')
  v, _, _ = ev3.run(f, bind={'clip': sym.FALSE})
  x = S('x')
  ok = v.k == 'tuple' and len(v.a) == 2 and alg.equal(A.conv(v.a[0]), op('d_dlon', x) / r) and alg.equal(A.conv(v.a[1]), op('cos_lat_d_dlat', x) / r)
  chk.check(ok, 'C02.6-composition', f'{SH}.Grid.cos_lat_grad = (∂λ x, cosθ∂θ x) / radius', sym.show(v)[:200], (f.file, f.lineno))
  clip_mask_rule(chk, prog, rule)
  chk.at_least(rule, 9)
  chk.at_least('C02.6-composition', 3)


# -------------------------------------------------------------- uv ↔ ζ, δ
def rule_uv(chk, prog):
  rule = 'C02.6-composition'
  opaque = {G + n for n in ('to_modal', 'to_nodal', 'cos_lat', 'curl_cos_lat', 'div_cos_lat', 'cos_lat_grad', 'inverse_laplacian', 'k_cross')}
  ev = sym.Evaluator(prog, sym.Options(opaque=opaque | {f'{SH}.get_cos_lat_vector'}))
  f = prog.func(G + 'k_cross')
  v, _, _ = sym.Evaluator(prog).run(f)
  vv = S(f.param_names()[1])
  ok = v.k == 'tuple' and len(v.a) == 2 and v.a[0] == Term('un', '-', Term('sub', vv, sym.const(1))) and v.a[1] == Term('sub', vv, sym.const(0))
  chk.check(ok, rule, f'{SH}.Grid.k_cross: k × (a, b) = (−b, a)', sym.show(v), (f.file, f.lineno), '(-v[1], v[0])', sym.show(v))
  coslat = lambda t: t.k == 'attr' and t.a[1] == 'cos_lat'
  f = prog.func(f'{SH}.vor_div_to_uv_nodal')
  v, _, _ = ev.run(f)
  site, loc = f'{SH}.vor_div_to_uv_nodal', (f.file, f.lineno)
  ok = v.k == 'tuple' and len(v.a) == 2
  for i, comp in enumerate(v.a if ok else []):
    good = (comp.k == 'bin' and comp.a[0] == '/' and coslat(comp.a[2]) and comp.a[1].k == 'call' and util.callee_name(comp.a[1]) == 'to_nodal'
            and util.call_args(comp.a[1])[0].k == 'sub' and util.call_args(comp.a[1])[0].a[1] == sym.const(i)
            and util.callee_name(util.call_args(comp.a[1])[0].a[0]) == 'get_cos_lat_vector')
    chk.check(good, rule, f'{site}: component {i} = to_nodal((v cosθ)[{i}]) / cosθ', sym.show(comp)[:200], loc)
    if good:
      b = ev.bind_args(prog.func(f'{SH}.get_cos_lat_vector'), list(util.call_args(comp.a[1])[0].a[0].a[1]), list(util.call_args(comp.a[1])[0].a[0].a[2]), None, None)
      chk.check(b is not None and b['vorticity'] == S('vorticity') and b['divergence'] == S('divergence') and b['grid'] == S('grid') and b['clip'] == S('clip'), rule,
                f'{site}: component {i}: vorticity, divergence, grid and clip are forwarded in this order', str({k: sym.show(x) for k, x in (b or {}).items()}), loc)
  f = prog.func(f'{SH}.uv_nodal_to_vor_div_modal')
  v, _, _ = ev.run(f)
  site, loc = f'{SH}.uv_nodal_to_vor_div_modal', (f.file, f.lineno)
  ok = v.k == 'tuple' and len(v.a) == 2 and util.callee_name(v.a[0]) == 'curl_cos_lat' and util.callee_name(v.a[1]) == 'div_cos_lat'
  if chk.check(ok, rule, f'{site}: returns (curl, div) of the same vector', sym.show(v, maxdepth=3)[:200], loc):
    va, vb = util.call_args(v.a[0])[0], util.call_args(v.a[1])[0]
    def comp_ok(t, name):
      return (t.k == 'call' and util.callee_name(t) == 'to_modal' and util.call_args(t)[0].k == 'bin' and util.call_args(t)[0].a[0] == '/'
              and util.call_args(t)[0].a[1] == S(name) and coslat(util.call_args(t)[0].a[2]))
    good = va == vb and va.k == 'tuple' and len(va.a) == 2 and comp_ok(va.a[0], 'u_nodal') and comp_ok(va.a[1], 'v_nodal')
    chk.check(good, rule, f'{site}: the vector is (to_modal(u / cosθ), to_modal(v / cosθ)) in this order', sym.show(va)[:200], loc)
    chk.check(util.call_kwargs(v.a[0]).get('clip') == S('clip') and util.call_kwargs(v.a[1]).get('clip') == S('clip'), rule, f'{site}: forwards clip to both operators', '', loc)
  ev2 = sym.Evaluator(prog, sym.Options(opaque=opaque))
  f = prog.func(f'{SH}.get_cos_lat_vector')
  v, _, _ = ev2.run(f)
  site, loc = f'{SH}.get_cos_lat_vector', (f.file, f.lineno)
  A = alg.Algebra(ev2, opaque=lambda t: t.k == 'call' and util.callee_name(t) in ('cos_lat_grad', 'k_cross'))
  grads = [t for t in sym.walk(v) if t.k == 'call' and util.callee_name(t) == 'cos_lat_grad']
  kx = [t for t in sym.walk(v) if t.k == 'call' and util.callee_name(t) == 'k_cross']
  def grad_of(t):
    a0 = util.call_args(t)[0]
    if a0.k == 'call' and util.callee_name(a0) == 'inverse_laplacian':
      return sym.show(util.call_args(a0)[0])
    return None
  ok = len(set(grads)) == 2 and len(set(kx)) == 1
  if chk.check(ok, rule, f'{site}: two potential gradients, one of them rotated by k×', sym.show(v)[:200], loc):
    rot = util.call_args(list(set(kx))[0])[0]
    plain = [g for g in set(grads) if g != rot]
    good = (rot in grads and grad_of(rot) == 'vorticity' and len(plain) == 1 and grad_of(plain[0]) == 'divergence'
            and alg.equal(A.conv(v), A.atom(plain[0]) + A.atom(list(set(kx))[0])))
    chk.check(good, rule, f'{site}: v cosθ = cosθ∇(∇⁻²δ) + k × cosθ∇(∇⁻²ζ)', sym.show(v)[:240], loc, 'grad(inv_lap(divergence)) + k_cross(grad(inv_lap(vorticity)))', sym.show(v)[:240])
    chk.check(all(util.call_kwargs(g).get('clip') == S('clip') for g in set(grads)), rule, f'{site}: forwards clip to both gradients', '', loc)
  chk.at_least(rule, 12)


def rule_factory_radius(chk, prog):
  """Every way the library hands out a Grid must carry the caller's radius into it: a factory that accepts `radius` and drops it returns a
  unit-sphere grid whose metric factors are off by powers of the radius."""
  import re
  rule = 'C02.10-factories-forward-their-options'
  g = prog.cls(f'{SH}.Grid')
  n = 0
  for name, fi in sorted(g.methods.items()):
    if not fi.is_classmethod():
      continue
    site, loc = f'{SH}.Grid.{name}', (fi.file, fi.lineno)
    ev = sym.Evaluator(prog, sym.Options(opaque={f'{SH}.Grid.construct'} if re.fullmatch(r'(TL|T)\d+', name) else set()))
    v, _, _ = ev.run(fi)
    fields = {f_ for f_, _, _ in g.fields}
    shared = [p_ for p_ in fi.param_names() if p_ in fields]
    if shared:
      for p_ in shared:
        got = util.field(v, p_) if v.k == 'obj' else (util.call_kwargs(v).get(p_) if v.k == 'call' else None)
        chk.check(got is not None and got == Term('sym', p_), rule, f'{site}: the `{p_}` argument becomes the `{p_}` of the constructed Grid' + (' (a dropped radius silently yields a unit sphere)' if p_ == 'radius' else ''),
                  sym.show(got) if got is not None else 'not passed', loc, f'{p_}={p_}', sym.show(got) if got is not None else 'field default')
        n += 1
    elif re.fullmatch(r'(TL|T)\d+', name):
      ok = v.k == 'call' and util.callee_name(v) == 'construct' and any(k_ == '**' for k_, _ in v.a[2])
      chk.check(ok, rule, f'{site}: forwards its keyword options (radius among them) to construct', sym.show(v, maxdepth=2)[:120], loc)
      n += 1
  chk.at_least(rule, 20)


def run(chk, prog, tier):
  rule_factory_radius(chk, prog)
  from rules import c01 as _c01m
  _c01m.rule_metric(chk, prog, rule='C02.9-metric-factors')
  from rules import c01 as _c01
  _c01.rule_shared_state(chk, prog, rule='C02.7-cached-arrays-never-updated-in-place')
  rule_recurrence(chk, prog)
  rule_eigenvalues(chk, prog)
  rule_radius(chk, prog)
  rule_fourier(chk, prog)
  rule_clip(chk, prog)
  rule_uv(chk, prog)
  chk.assume('scipy.linalg.dft(n)[j, k] = exp(−2πi·jk/n); numpy real/imag; jax_numpy_utils.shift(y, s, axis)[l] = y[l − s] with zero fill',
             'modal_axes / modal_mesh [0] is the zonal wavenumber m, [1] the total wavenumber l; mask is 1 inside the triangular truncation',
             'spherical-harmonic transforms are linear and radius-free')
  return dict(
      explanation=('The Grid operators, the Fourier basis builders / derivatives and the velocity converters are abstractly interpreted; coefficient expressions '
                   'are canonicalised with sympy over named atoms (l, m, radius, mask, a, b) and compared with the reference recurrences; the power of `radius` '
                   'carried by each operator is computed compositionally through the inlined call tree (sums must agree, products add) for every return path; '
                   'builder stores give a slot→(cos|sin, k) table against which the derivative\'s frequency, selector, neighbour and sign expressions are folded '
                   'for 15 slots; clipping defaults and the padding-aware clip mask are matched structurally. Not decided: numerical agreement with analytic '
                   'derivatives and the vector-calculus identities.'),
      trusted_base=['python ast', 'sympy canonicalisation', 'reference recurrences for normalised associated Legendre functions'],
      analysed=dict(functions=[q.replace('dinosaur.', '') for q, _, _ in OPERATORS] + [G + '_derivative_recurrence_weights', G + 'laplacian_eigenvalues', f'{FO}.real_basis',
                               f'{FO}.real_basis_derivative', f'{FO}.real_basis_with_zero_imag', f'{FO}.real_basis_derivative_with_zero_imag',
                               f'{SH}._fourier_derivative_for_real_basis_with_zero_imag']),
  )
