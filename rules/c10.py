"""C10 — equivariance under rotations about the axis and the equatorial mirror: symmetry type system."""
from __future__ import annotations

import ast

import sympy as sp

from sa import alg, match, sym, util
from sa.model import AnalysisError
from sa.sym import Term
from rules import common, c11

PE = 'primitive_equations'
SW = 'shallow_water'
SH = 'spherical_harmonic'
G = f'{SH}.Grid.'

CLAIM = dict(
    text=('Decides two structural conditions of equivariance. Rotation: no tendency, implicit operator or Grid operator of the dry, moist and shallow-water equation '
          'sets reads the longitude coordinate (nodal axes / mesh component 0, longitudes, longitude_offset) — longitude enters only through the equispaced Fourier '
          'basis, whose derivative treats both parities with the same frequency (shared with C02). Mirror: a parity type system (even / odd under θ → −θ; vectors '
          'carry (even, odd) components, vorticity and the Coriolis parameter are odd, ∂/∂λ keeps and the two ∂/∂θ-type operators flip parity, k× swaps components) is '
          'evaluated compositionally over the inlined tendency code: every sum must combine equal parities, div/curl must receive components of opposite parity, and '
          'each prognostic tendency must come out with the parity of its field (vorticity odd, all others even); the metric factors are even functions of sin θ and '
          'the Coriolis parameter an odd one; the latitude-derivative recurrences shift the total wavenumber by exactly ±1. Also decided: the spectral mask keeps the cos / sin slots of one zonal wavenumber together (even slot limit, |m| in the triangle condition) in both layouts. Does not decide the commutation of '
          'tendencies / steps with the symmetry operators numerically.'
          ' Later additions: C10.5 the mask keeps cos/sin pairs together.'),
    note=('Library facts: Gauss / equiangular latitude nodes and weights are symmetric about the equator (checked as linspace symmetric bounds under C01.6); '
          'P̄_l^m has parity (−1)^(l+m), so an operator that shifts l by one flips the parity.'),
    technique='taint (who-may-read the longitude coordinate) + abstract interpretation in a Z₂ parity domain with vector components over the inlined tendency terms',
)


class Inconsistent(Exception):
  pass


E, O = 'E', 'O'


def flip(p):
  if p is None:
    return None
  if isinstance(p, tuple):
    return tuple(flip(x) for x in p)
  return O if p == E else E


def mul(a, b):
  if a is None or b is None:
    return None
  if isinstance(a, tuple) and isinstance(b, tuple):
    if len(a) != len(b):
      raise Inconsistent(f'component-wise product of vectors with {len(a)} and {len(b)} components')
    return tuple(mul(x, y) for x, y in zip(a, b))
  if isinstance(a, tuple):
    return tuple(mul(x, b) for x in a)
  if isinstance(b, tuple):
    return tuple(mul(a, y) for y in b)
  return E if a == b else O


def same(vals, where):
  vs = [v for v in vals if v is not None]
  if not vs:
    return None
  first = vs[0]
  for v in vs[1:]:
    if isinstance(first, tuple) != isinstance(v, tuple):
      # scalar broadcast against a vector: every component must match
      t, s_ = (first, v) if isinstance(first, tuple) else (v, first)
      if any(x is not None and x != s_ for x in t):
        raise Inconsistent(f'a scalar of parity {s_} is added to a vector of parities {t} in {sym.show(where, maxdepth=3)[:140]}')
      first = t
      continue
    if isinstance(first, tuple):
      if len(first) != len(v):
        raise Inconsistent(f'vectors of different length are added in {sym.show(where, maxdepth=3)[:140]}')
      first = tuple(same([x, y], where) for x, y in zip(first, v))
    elif first != v:
      raise Inconsistent(f'terms of opposite mirror parity ({first} and {v}) are added in {sym.show(where, maxdepth=4)[:200]}')
  return first


FIELD_PARITY = {'vorticity': O, 'divergence': E, 'temperature_variation': E, 'log_surface_pressure': E, 'tracers': E, 'potential': E, 'sim_time': E}
AUX_PARITY = dict(FIELD_PARITY, cos_lat_u=(E, O), sigma_dot_explicit=E, sigma_dot_full=E, cos_lat_grad_log_sp=(E, O), u_dot_grad_log_sp=E)
SELF_PARITY = {'coriolis_parameter': O, 'T_ref': E, 'reference_temperature': E, 'orography': E, 'sec2_lat': E, 'cos_lat': E, 'density_ratios': E, 'ref_potential': E,
               'reference_potential': E, 'layer_thickness': E, 'laplacian_eigenvalues': E, 'mask': E}
LONGITUDE_READS = ('longitudes', 'longitude_offset')


def is_longitude(t):
  if t.k == 'attr' and t.a[1] in LONGITUDE_READS:
    return True
  s = util.strip(t)
  if s.k == 'sub' and s.a[1] == sym.const(0) and util.strip(s.a[0]).k == 'attr' and util.strip(s.a[0]).a[1] in ('nodal_axes', 'nodal_mesh'):
    return True
  return False


def is_sin_lat(t):
  s = util.strip(t)
  return s.k == 'sub' and s.a[1] == sym.const(1) and util.strip(s.a[0]).k == 'attr' and util.strip(s.a[0]).a[1] in ('nodal_axes', 'nodal_mesh')


class Parity:

  def __init__(self, state_names=('state', 'state_without_time')):
    self.memo = {}
    self.state_names = state_names

  def of(self, t):
    key = id(t)
    if key in self.memo and self.memo[key][0] is t:
      return self.memo[key][1]
    r = self._of(t)
    self.memo[key] = (t, r)
    return r

  def _of(self, t):
    k, a = t.k, t.a
    if is_longitude(t):
      raise Inconsistent(f'the longitude coordinate {sym.show(t)[:60]} is read')
    if is_sin_lat(t):
      return O
    if k == 'const':
      return None if (a[0] == 0 and not isinstance(a[0], bool)) or a[0] is None else E
    if k in ('bcast', 'leaf'):
      return self.of(a[0])
    if k == 'sym':
      return E
    if k == 'attr':
      base = a[0]
      if base.k == 'sym' and base.a[0] == 'aux_state' or (base.k == 'call' and util.callee_name(base) == 'compute_diagnostic_state'):
        if a[1] in AUX_PARITY:
          return AUX_PARITY[a[1]]
      if base.k == 'sym' and (base.a[0] in self.state_names or (base.cls is not None and base.cls.name in ('State', 'StateWithTime'))):
        if a[1] in FIELD_PARITY:
          return FIELD_PARITY[a[1]]
      if base.k == 'obj':
        v = util.field(base, a[1])
        if v is not None:
          return self.of(v)
      if base.k == 'call' and a[1] in FIELD_PARITY and base.cls is not None:
        # field of a state-valued call (clip / parent explicit_terms): parity of the call's field
        p = self.of(base)
        if isinstance(p, dict):
          return p.get(a[1])
      if a[1] in SELF_PARITY:
        return SELF_PARITY[a[1]]
      if sym.contains(t, lambda z: z.k == 'attr' and z.a[1] == 'physics_specs') or a[1] in ('radius', 'include_vertical_advection', 'vertical_matmul_method', 'spmd_mesh', 'dycore_partition_spec',
                                                                                          'layers', 'shape', 'ndim', 'dtype', 'size', 'vertical', 'horizontal', 'coords'):
        return E
      return E
    if k == 'sub':
      p = self.of(a[0])
      if isinstance(p, tuple) and a[1].k == 'const' and isinstance(a[1].a[0], int):
        return p[a[1].a[0]]
      if isinstance(p, dict):
        return p
      return p
    if k == 'un':
      return self.of(a[1]) if a[0] in '+-' else E
    if k == 'bin':
      op = a[0]
      if op in ('+', '-'):
        return same([self.of(a[1]), self.of(a[2])], t)
      if op in ('*', '/', '@'):
        return mul(self.of(a[1]), self.of(a[2]))
      if op == '**':
        p = self.of(a[1])
        e = a[2]
        if e.k == 'const' and isinstance(e.a[0], int):
          if e.a[0] % 2 == 0:
            return tuple(E if x is not None else None for x in p) if isinstance(p, tuple) else (None if p is None else E)
          return p
        if p in (E, None) or (isinstance(p, tuple) and all(x in (E, None) for x in p)):
          return p
        raise Inconsistent(f'non-integer power of an odd quantity: {sym.show(t)[:100]}')
      return same([self.of(a[1]), self.of(a[2])], t)
    if k in ('cmp', 'bool'):
      return E
    if k in ('tuple', 'list'):
      return tuple(self.of(x) for x in a)
    if k == 'dict':
      return {sym.cval(kk): self.of(vv) for kk, vv in a}
    if k == 'obj':
      return {n: self.of(v) for n, v in a[1]}
    if k == 'phi':
      pa, pb = self.of(a[1]), self.of(a[2])
      if isinstance(pa, dict) or isinstance(pb, dict):
        return pa if isinstance(pa, dict) else pb
      return same([pa, pb], t)
    if k == 'store':
      return same([self.of(a[0]), self.of(a[2])], t)
    if k == 'mapover':
      return self.of(a[0])
    if k == 'loop':
      return same([self.of(a[1]) if a[1].k != 'unbound' else None, self.of(a[2])], t)
    if k in ('carried', 'loopvar', 'lambda', 'partial', 'func', 'ext', 'class', 'global', 'fstr', 'slice', 'unknown', 'comp', 'module'):
      return E
    if k == 'call':
      return self.call(t)
    return E

  # ------------------------------------------------------------------ calls
  def call(self, t):
    name = util.callee_name(t)
    args = util.call_args(t)
    f = t.a[0]
    short = alg.ext_short(f)
    if f.k == 'bound' and f.a[1].startswith(f'dinosaur.{SH}.Grid.'):
      x = self.of(args[0]) if args else None
      if name in ('to_modal', 'to_nodal', 'clip_wavenumbers', 'laplacian', 'inverse_laplacian', 'd_dlon', 'integrate'):
        return x
      if name in ('cos_lat_d_dlat', 'sec_lat_d_dlat_cos2'):
        return flip(x)
      if name == 'cos_lat_grad':
        if isinstance(x, (tuple, dict)):
          raise Inconsistent('gradient of a non-scalar')
        return (x, flip(x))
      if name == 'k_cross':
        if not (isinstance(x, tuple) and len(x) == 2):
          raise Inconsistent('k × applied to a non-vector')
        return (x[1], x[0])
      if name in ('div_cos_lat', 'curl_cos_lat'):
        if not (isinstance(x, tuple) and len(x) == 2):
          raise Inconsistent(f'{name} applied to a non-vector: {sym.show(args[0], maxdepth=2)[:80]}')
        a_, b_ = x
        if a_ is not None and b_ is not None and a_ != flip(b_):
          raise Inconsistent(f'{name} receives components of equal mirror parity ({a_}, {b_}): the zonal and meridional components of a vector must have opposite parity')
        if name == 'div_cos_lat':
          return a_ if a_ is not None else flip(b_)
        return b_ if b_ is not None else flip(a_)
    if name == 'div_sec_lat' and len(args) == 3:
      a_, b_ = self.of(args[0]), self.of(args[1])
      if a_ is not None and b_ is not None and a_ != flip(b_):
        raise Inconsistent(f'div_sec_lat receives components of equal mirror parity ({a_}, {b_})')
      return a_ if a_ is not None else flip(b_)
    if name == 'get_cos_lat_vector' and len(args) >= 2:
      pz, pd = self.of(args[0]), self.of(args[1])
      if pz is not None and pd is not None and pz != flip(pd):
        raise Inconsistent(f'get_cos_lat_vector(vorticity, divergence): arguments have parities ({pz}, {pd}) — vorticity must be odd and divergence even')
      pd = pd if pd is not None else flip(pz)
      return (pd, flip(pd))
    if name == 'compute_diagnostic_state':
      return dict(AUX_PARITY)
    if name in ('cumulative_sigma_integral', 'sigma_integral', 'cumulative_log_sigma_integral', 'centered_difference', 'get_geopotential_diff', 'get_temperature_implicit', 'cumsum',
                'reverse_cumsum', '_add_constant') and args:
      return self.of(args[0])
    if name in ('_vertical_matvec', '_vertical_matvec_per_wavenumber') and len(args) == 2:
      return self.of(args[1])
    if name in ('centered_vertical_advection', 'upwind_vertical_advection', 'vertical_advection') and len(args) >= 2:
      return mul(self.of(args[0]), self.of(args[1]))
    if name in ('get_sigma_ratios', 'get_geopotential_weights', 'get_temperature_implicit_weights', '_get_implicit_term_matrix', 'get_density_ratios', 'inv', 'eye'):
      return E
    if name in ('explicit_terms', 'implicit_terms', 'implicit_inverse') and f.k == 'bound':
      return dict(FIELD_PARITY)
    if short in ('stack', 'asarray', 'array') and t.a[1]:
      return self.of(t.a[1][0])
    if short == 'concatenate' and t.a[1]:
      parts = t.a[1][0]
      out = []
      items = parts.a if parts.k in ('list', 'tuple') else [parts]
      for x in items:
        p = self.of(x)
        if isinstance(p, tuple):
          out.extend(p)
        else:
          out.append(p)
      # level-wise concatenation of equal-parity pieces stays a scalar parity
      if all(not isinstance(self.of(x), tuple) for x in items):
        return same(out, t)
      return tuple(out)
    if short == 'split' and len(t.a[1]) >= 2:
      p = self.of(t.a[1][0])
      idx = t.a[1][1]
      if isinstance(p, tuple) and idx.k in ('list', 'tuple') and all(x.k == 'const' for x in idx.a):
        cuts = [0] + [x.a[0] for x in idx.a] + [len(p)]
        return tuple(tuple(p[i:j]) if j - i > 1 else (p[i],) for i, j in zip(cuts, cuts[1:]))
      return p
    if short in ('squeeze', 'expand_dims', 'pad', 'reshape', 'negative', 'exp', 'abs', 'absolute', 'zeros_like', 'ones_like', 'broadcast_to', 'where', 'maximum', 'minimum', 'log', 'sqrt', 'square',
                 'einsum', 'unique', 'tril', 'roll', 'diag', 'cumsum', 'diff', 'ones', 'zeros', 'slice_in_dim'):
      if short in ('zeros_like', 'zeros'):
        return None
      if short in ('ones_like', 'ones', 'unique', 'tril'):
        return E
      if short == 'squeeze':
        p = self.of(t.a[1][0])
        return p[0] if isinstance(p, tuple) and len(p) == 1 else p
      if short == 'expand_dims':
        p = self.of(t.a[1][0])
        return (p,) if not isinstance(p, tuple) else p
      if short in ('exp', 'log', 'sqrt'):
        p = self.of(t.a[1][0])
        if p == O:
          raise Inconsistent(f'{short} of an odd quantity')
        return p
      if short in ('abs', 'absolute', 'square'):
        p = self.of(t.a[1][0])
        return tuple(E for _ in p) if isinstance(p, tuple) else (None if p is None else E)
      if short == 'einsum':
        ops = [x for x in t.a[1] if not (x.k == 'const' and isinstance(x.a[0], str)) and x.k not in ('list',) and not (x.k == 'call' and x.a[0] == Term('ext', 'range'))]
        out = E
        for x in ops:
          px = self.of(x)
          if isinstance(px, tuple):
            px = same(list(px), t)
          out = mul(out, px)
        return out
      if short == 'where' and len(t.a[1]) == 3:
        return same([self.of(t.a[1][1]), self.of(t.a[1][2])], t)
      if short in ('maximum', 'minimum') and len(t.a[1]) == 2:
        return same([self.of(t.a[1][0]), self.of(t.a[1][1])], t)
      return self.of(t.a[1][0]) if t.a[1] else E
    if t.a[0] == Term('ext', 'jax.lax.slice_in_dim') and t.a[1]:
      return self.of(t.a[1][0])
    if f.k == 'attr' and f.a[1] in ('swapaxes', 'transpose') and f.a[0].k not in ('ext', 'mod'):
      p = self.of(f.a[0])   # decides the value being permuted first (an inconsistent reshape is reported there)
      axes = [x.a[0] for x in t.a[1] if x.k == 'const' and isinstance(x.a[0], int)]
      if isinstance(p, tuple) and (f.a[1] == 'transpose' or 0 in axes or len(axes) != len(t.a[1])):
        raise Inconsistent(f'{f.a[1]} moves the axis along which the components are stacked')
      return p
    if f.k == 'attr' and f.a[1] in ('sum', 'astype', 'reshape', 'ravel', 'squeeze', 'mean'):
      p = self.of(f.a[0])
      if f.a[1] == 'reshape' and isinstance(p, tuple) and t.a[1]:
        # components stacked along axis 0 (term-major): merging axes 0 and 1 and splitting them again must keep that order
        def shape_index(e):
          if e.k == 'sub' and e.a[1].k == 'const' and isinstance(e.a[1].a[0], int):
            b = e.a[0]
            if b.k == 'sub' and b.a[0].k == 'attr' and b.a[0].a[1] == 'shape':
              return e.a[1].a[0]   # x.shape[:k][i]
            if b.k == 'attr' and b.a[1] == 'shape':
              return e.a[1].a[0]
          return None
        shp = t.a[1][0] if len(t.a[1]) == 1 else Term('tuple', *t.a[1])
        lead = shp.a[1] if shp.k == 'bin' and shp.a[0] == '+' else shp
        if lead.k == 'tuple' and len(lead.a) >= 2:
          i0, i1 = shape_index(lead.a[0]), shape_index(lead.a[1])
          if (i0, i1) == (1, 0):
            raise Inconsistent('the stacked (term, layer) axes were flattened term-major but are split again as (layer, term): components of different terms / parities end up in one slot')
      if f.a[1] in ('sum', 'mean') and isinstance(p, tuple):
        return same(list(p), t)
      return p
    if t.a[0] == Term('ext', 'sum') and t.a[1]:
      p = self.of(t.a[1][0])
      return same(list(p), t) if isinstance(p, tuple) else p
    if f.k in ('sym',) or (f.k == 'attr' and f.a[1] == 'vertical_advection'):
      if f.k == 'attr' and f.a[1] == 'vertical_advection' and len(t.a[1]) >= 2:
        return mul(self.of(t.a[1][0]), self.of(t.a[1][1]))
    # unknown callee: even if all arguments are even / parity-free
    ps = [self.of(x) for x in list(t.a[1]) + [v for _, v in t.a[2]] if isinstance(x, Term)]
    flat = []
    for p in ps:
      if isinstance(p, tuple):
        flat.extend(p)
      elif not isinstance(p, dict):
        flat.append(p)
    if all(p in (E, None) for p in flat):
      return E
    raise Inconsistent(f'unmodelled operation {sym.show(t.a[0], maxdepth=2)[:60]} on an odd quantity')


TEND_OPAQUE = common.SIGMA_PROPS | c11.GRID_OPS | {
    f'{SH}.get_cos_lat_vector', 'sigma_coordinates.cumulative_sigma_integral', 'sigma_coordinates.sigma_integral', 'sigma_coordinates.centered_vertical_advection',
    'sigma_coordinates.upwind_vertical_advection', f'{PE}.get_sigma_ratios', f'{PE}.get_geopotential_diff', f'{PE}.get_temperature_implicit', f'{PE}.compute_diagnostic_state',
    f'{PE}.div_sec_lat', f'{PE}._get_implicit_term_matrix', f'{PE}._vertical_matvec', f'{PE}._vertical_matvec_per_wavenumber', f'{SW}.get_density_ratios',
}


def rule_tendencies(chk, prog):
  rule = 'C10.4-mirror-parity'
  sites = []
  for cq in (f'{PE}.PrimitiveEquations', f'{PE}.PrimitiveEquationsWithTime', f'{PE}.MoistPrimitiveEquations', f'{PE}.MoistPrimitiveEquationsWithCloudMoisture', f'{SW}.ShallowWaterEquations'):
    for m in ('explicit_terms', 'implicit_terms', 'implicit_inverse'):
      sites.append((cq, m))
  for cq, m in sites:
    c = prog.cls(cq)
    f = c.find_method(m)
    chk.require(f is not None, f'{cq}.{m} not found')
    binds = [{}]
    if m == 'implicit_inverse' and 'method' in f.param_names():
      binds = [{'method': sym.const(x)} for x in ('split', 'stacked', 'blockwise')]
    for bind in binds:
      ev = sym.Evaluator(prog, sym.Options(opaque=TEND_OPAQUE, max_depth=8, model_nonscalar=False))
      v, ctx, env = ev.run(f, self_cls=c, bind=bind or None)
      tag = f'[{sym.cval(bind["method"])}]' if bind else ''
      site, loc = f'{cq.replace("dinosaur.", "")}.{m}{tag}', (f.file, f.lineno)
      P = Parity()
      try:
        res = P.of(v)
      except Inconsistent as e:
        chk.violation(rule, f'{site}: every prognostic tendency has the mirror parity of its field', str(e), loc, 'vorticity odd; divergence, temperature, pressure, tracers, potential even', str(e)[:200])
        continue
      except RecursionError:
        raise AnalysisError(f'{site}: term too deep for the parity analysis')
      if not isinstance(res, dict):
        chk.violation(rule, f'{site}: every prognostic tendency has the mirror parity of its field', f'result is not a state ({res})', loc)
        continue
      bad = {n: p for n, p in res.items() if n in FIELD_PARITY and p is not None and not isinstance(p, (dict, tuple)) and p != FIELD_PARITY[n]}
      bad.update({n: p for n, p in res.items() if isinstance(p, tuple)})
      chk.check(not bad, rule, f'{site}: every prognostic tendency has the mirror parity of its field', str({n: res[n] for n in res}), loc,
                str({n: FIELD_PARITY[n] for n in res if n in FIELD_PARITY}), str(bad))
  # the diagnostic state delivers the parities assumed for aux_state
  f = prog.func(f'{PE}.compute_diagnostic_state')
  ev = sym.Evaluator(prog, sym.Options(opaque=TEND_OPAQUE - {f.qualname}, max_depth=6, model_nonscalar=False))
  v, ctx, env = ev.run(f)
  site, loc = f'{PE}.compute_diagnostic_state', (f.file, f.lineno)
  P = Parity()
  try:
    res = P.of(v)
    bad = {n: (res.get(n), want) for n, want in AUX_PARITY.items() if res.get(n) is not None and res.get(n) != want}
    chk.check(not bad, rule, f'{site}: the diagnostic fields have the parities the tendencies rely on (u cosθ: (even, odd), ∇ln pₛ: (even, odd), scalars even, vorticity odd)', str(res), loc,
              str(AUX_PARITY), str(bad))
  except Inconsistent as e:
    chk.violation(rule, f'{site}: the diagnostic fields have the parities the tendencies rely on', str(e), loc)
  chk.at_least(rule, 18)


def rule_longitude_blind(chk, prog):
  rule = 'C10.1-longitude-blind'
  targets = []
  for cq in (f'{PE}.PrimitiveEquations', f'{PE}.PrimitiveEquationsWithTime', f'{PE}.MoistPrimitiveEquations', f'{PE}.MoistPrimitiveEquationsWithCloudMoisture', f'{SW}.ShallowWaterEquations'):
    c = prog.cls(cq)
    for m in ('explicit_terms', 'implicit_terms', 'implicit_inverse'):
      targets.append((c, c.find_method(m)))
  gc = prog.cls(f'{SH}.Grid')
  for name in ('to_nodal', 'to_modal', 'laplacian', 'inverse_laplacian', 'clip_wavenumbers', 'd_dlon', 'cos_lat_d_dlat', 'sec_lat_d_dlat_cos2', 'cos_lat_grad', 'k_cross', 'div_cos_lat', 'curl_cos_lat',
               'integrate', '_derivative_recurrence_weights', 'laplacian_eigenvalues', 'cos_lat', 'sec2_lat', 'mask'):
    targets.append((gc, gc.find_method(name)))
  for fq in (f'{PE}.compute_diagnostic_state', f'{SH}.get_cos_lat_vector', f'{SH}.vor_div_to_uv_nodal', f'{SH}.uv_nodal_to_vor_div_modal', f'{PE}.div_sec_lat'):
    targets.append((None, prog.func(fq)))
  for c, f in targets:
    ev = sym.Evaluator(prog, sym.Options(opaque=common.SIGMA_PROPS, max_depth=8))
    v, ctx, env = ev.run(f, self_cls=c) if c is not None else ev.run(f)
    reads = [t for t in sym.walk(v) if is_longitude(t)]
    q = (f'{c.qualname}.{f.name}' if c is not None else f.qualname).replace('dinosaur.', '')
    chk.check(not reads, rule, f'{q}: does not read the longitude coordinate (fully inlined call tree)', 'no read' if not reads else sym.show(reads[0])[:80], (f.file, f.lineno),
              'no use of nodal_axes[0] / nodal_mesh[0] / longitudes / longitude_offset', sym.show(reads[0])[:80] if reads else '')
  # allowed readers: initial states, radiation, regridding, xarray coordinates
  allowed_mods = {'dinosaur.primitive_equations_states', 'dinosaur.shallow_water_states', 'dinosaur.radiation', 'dinosaur.horizontal_interpolation', 'dinosaur.xarray_utils',
                  'dinosaur.pipelines.regrid', 'dinosaur.held_suarez', f'dinosaur.{SH}'}
  for m in prog.modules.values():
    if m.name in allowed_mods:
      continue
    for node in ast.walk(m.tree):
      if isinstance(node, ast.Attribute) and node.attr in ('longitudes', 'longitude_offset'):
        chk.violation(rule, f'{m.name.replace("dinosaur.", "")}: reads `{node.attr}`', 'the absolute longitude is read in a module that implements dynamics', (m.relpath, node.lineno))
  chk.at_least(rule, 30)


def rule_metric_parity(chk, prog):
  rule = 'C10.3-latitude-parity'
  ev = sym.Evaluator(prog)
  for q, want in ((G + 'cos_lat', 'even'), (G + 'sec2_lat', 'even'), (f'{PE}.PrimitiveEquations.coriolis_parameter', 'odd'), (f'{SW}.ShallowWaterEquations.coriolis_parameter', 'odd')):
    f = prog.func(q)
    v, _, _ = ev.run(f)
    A = alg.Algebra(ev)
    s = A.name(is_sin_lat, 'sinlat', real=True)
    e = A.conv(v)
    em = e.subs(s, -s)
    ok = alg.equal(em, e) if want == 'even' else alg.equal(em, -e)
    chk.check(ok and e.has(s), rule, f'{q.replace("dinosaur.", "")}: an {want} function of sin θ', str(e), (f.file, f.lineno), f'f(−s) = {"f(s)" if want == "even" else "−f(s)"}', str(em))
  # latitude-derivative recurrences shift l by exactly one (parity (−1)^(l+m) flips)
  ev2 = sym.Evaluator(prog, sym.Options(opaque={G + '_derivative_recurrence_weights'}))
  for name in ('cos_lat_d_dlat', 'sec_lat_d_dlat_cos2'):
    f = prog.func(G + name)
    v, _, _ = ev2.run(f)
    shifts = list({t for t in sym.walk(v) if t.k == 'call' and util.callee_qual(t).endswith('jax_numpy_utils.shift')})
    offs = sorted(sym.cval(t.a[1][1]) for t in shifts if t.a[1][1].k == 'const')
    A = alg.Algebra(ev2, opaque=lambda t: t in shifts)
    okform = sp.expand(A.conv(v) - sum(A.atom(t) for t in shifts)) == 0
    chk.check(offs == [-1, 1] and okform and all((util.call_kwargs(t).get('axis') or (t.a[1][2] if len(t.a[1]) > 2 else None)) == sym.const(-1) for t in shifts), rule,
              f'{SH}.Grid.{name}: couples l only to l ± 1 (so it maps even ↔ odd functions of latitude)', str(offs), (f.file, f.lineno), '[-1, 1]', str(offs))
  f = prog.func(G + 'd_dlon')
  v, _, _ = sym.Evaluator(prog).run(f)
  ok = v.k == 'call' and util.callee_name(v) == 'longitudinal_derivative'
  chk.check(ok, rule, f'{SH}.Grid.d_dlon: acts along the zonal-wavenumber axis only (keeps latitude parity)', sym.show(v), (f.file, f.lineno))
  chk.at_least(rule, 7)


def rule_fourier_symmetric(chk, prog):
  from rules import c02
  before = len(chk.instances)
  c02.rule_fourier(chk, prog)
  for i in chk.instances[before:]:
    i['rule'] = 'C10.2-fourier-no-privileged-phase'
  chk.minimum.pop('C02.4-fourier-layout', None)
  # cos/sin pairs must stay paired with their wavenumber through the stacked (sign, m) layout
  from rules import c01
  before = len(chk.instances)
  c01.rule_basis(chk, prog)
  keep = []
  for i in chk.instances[before:]:
    if i['rule'] == 'C01.2c-memory-order':
      i['rule'] = 'C10.2-fourier-no-privileged-phase'
      keep.append(i)
  chk.instances[before:] = keep
  chk.violations[:] = [v for v in chk.violations if v in chk.instances]
  for r in list(chk.minimum):
    if r.startswith('C01.'):
      chk.minimum.pop(r)
  chk.at_least('C10.2-fourier-no-privileged-phase', 22)


def rule_mask_pairs(chk, prog):
  """A rotation about the axis mixes the cos(mλ) and sin(mλ) members of one zonal wavenumber, so a mask (which also
  multiplies the derivative recurrence weights) must keep or drop both slots of a pair together."""
  import sympy as sp
  from rules import c01
  rule = 'C10.5-mask-keeps-cos-sin-pairs'
  for cname in ('RealSphericalHarmonics', 'FastSphericalHarmonics'):
    c = prog.cls(f'{SH}.{cname}')
    f = c.find_method('mask')
    site, loc = f'{SH}.{cname}.mask', (f.file, f.lineno)
    for kind, cj, lim in c01.mask_conjuncts(prog, cname):
      txt = sym.show(cj, maxdepth=4)[:120]
      if kind == 'triangle':
        chk.ok(rule, f'{site}: the triangle condition uses |m| (same verdict for the cos and the sin slot of a wavenumber)', txt, loc)
      elif kind == 'zero-imag-row':
        chk.ok(rule, f'{site}: the only single slot removed is sin(0·λ) ≡ 0', txt, loc)
      elif kind == 'l-limit':
        chk.ok(rule, f'{site}: the total-wavenumber limit does not depend on the slot', txt, loc)
      elif lim is not None and sym.contains(cj, lambda t: t.k == 'sub' and t.a[1] == sym.const(0)):
        # slots of wavenumber k ≥ 1 are (2k, 2k+1) in the zero-imag layout: `i < E` keeps pairs intact iff E is even
        par = sp.simplify(sp.Mod(lim, 2))
        chk.check(par == 0, rule, f'{site}: the slot limit along the zonal axis is even, so `i < limit` never separates the (2k, 2k+1) pair of a wavenumber',
                  f'limit = {lim}, limit mod 2 = {par}', loc, 'even limit (2·longitude_wavenumbers)', f'{lim} (mod 2 = {par})')
      else:
        reads_m = sym.contains(cj, lambda t: t.k == 'sub' and t.a[1] == sym.const(0) and util.strip(t.a[0]).k == 'attr' and util.strip(t.a[0]).a[1] == 'modal_axes')
        chk.check(not reads_m, rule, f'{site}: conjunct {txt} treats +m and −m alike', 'reads the signed zonal wavenumber outside abs()' if reads_m else 'does not read the signed zonal wavenumber', loc)
  chk.at_least(rule, 5)


def run(chk, prog, tier):
  rule_longitude_blind(chk, prog)
  rule_fourier_symmetric(chk, prog)
  rule_mask_pairs(chk, prog)
  rule_metric_parity(chk, prog)
  rule_tendencies(chk, prog)
  chk.assume('latitude nodes and quadrature weights are symmetric about the equator (roots_legendre / symmetric linspace; decided structurally under C01.6)',
             'normalised associated Legendre functions have parity (−1)^(l+m) in sin θ',
             'state fields: vorticity is a pseudo-scalar (odd), divergence / temperature / ln pₛ / tracers / potential are scalars (even), u cosθ even and v cosθ odd')
  return dict(
      explanation=('The fully inlined call trees of all tendency / implicit methods and Grid operators are searched for reads of the longitude coordinate. The tendency terms of every '
                   'equation class (methods inlined, Grid and sigma operators opaque) are evaluated in a Z₂ parity domain with vector-valued components: products multiply, sums '
                   'must agree, ∂θ-type operators flip, div / curl check the opposite parity of their two components, k× swaps; the parity of each returned field is compared with '
                   'the parity of the prognostic variable. Metric factors are tested as even / odd functions of sin θ by substitution in their normal forms; the layout rule of '
                   'C02 is reused for the Fourier pair. Not decided: numerical commutation with the symmetry operators.'),
      trusted_base=['python ast', 'sympy canonicalisation', 'parity of associated Legendre functions'],
      analysed=dict(classes=['PrimitiveEquations', 'PrimitiveEquationsWithTime', 'MoistPrimitiveEquations', 'MoistPrimitiveEquationsWithCloudMoisture', 'ShallowWaterEquations', 'Grid']),
  )
