"""C17 — vertical interpolation: exact on affine data, documented extrapolation (structural clauses)."""
from __future__ import annotations

import sympy as sp

from sa import alg, guards, match, sym, util
from sa.model import AnalysisError
from sa.sym import Term

VI = 'vertical_interpolation'
PE = 'primitive_equations'
HI = 'horizontal_interpolation'

CLAIM = dict(
    text=('Decides which extrapolation mode each public routine implements and that the shared weight construction is a partition of unity on two neighbouring nodes: '
          '(1) mode table over 10 routines — constant (jnp.interp defaults, or the matrix path with both clamp selectors), unlimited linear (matrix path without clamps), linear for n '
          'cells then NaN (left=nan, right=nan with coordinates and values extended by the same helper the same number of times); (2) both platform arms of `interp` receive (x, xp, fp) and '
          'the selector reads only the device platform; (3) in `_dot_interp` and `linear_interp_with_linear_extrap` the two weights are 1−w and w with w = (x − xp[:-1])/(xp[1:] − xp[:-1]), '
          'the left weight is padded after and selected by u−1, the right weight padded before and selected by u, u = clip(searchsorted(xp, x, side=\'right\'), 1, n−1), and the result is '
          'dot(weights, fp); the extension helpers continue each end with the slope of the cell at that same end; (4) coordinates per regridding direction (σ·pₛ against pressure centers, '
          'p/pₛ against σ centers, hybrid a/pₛ + b centers, surface pressure as the zero of orography·g − geopotential); vmap axes never map the shared coordinate vector; (5) the bilinear '
          'regridder interpolates latitude then longitude with (target, source) roles in both calls, the nearest-neighbour regridder indexes the raveled source with indices built from '
          '(source, target). Also decided: the end-cell extension is decided in an array-ends domain (first / last two elements of an array built from y by concatenate / diff / slicing), whatever helper structure implements it. Does not decide exactness on affine data, node reproduction, boundedness or agreement of the two platform paths at ties.'
          ' Later additions: C17.5 interpolation nodes are increasing (monotonicity domain); the leaf filter of interp_pressure_to_sigma tests the level axis −3.'),
    note='jnp.interp / searchsorted / pad / dot semantics are trusted; the accelerator path is analysed exactly like the default path (it cannot be executed here at all).',
    technique='resolved-callee mode table + keyword constants + normal forms of the weight expressions + argument-role matching',
)


def S(n):
  return Term('sym', n)


def is_nan(t):
  return t is not None and sym.show(t).endswith('nan')


def strip_wrappers(t):
  """Looks through vmap / vectorize / jit / partial wrappers to the wrapped function term."""
  while True:
    if t.k == 'call' and t.a[0].k == 'ext' and t.a[0].a[0] in ('jax.vmap', 'jax.numpy.vectorize', 'jax.jit') and t.a[1]:
      t = t.a[1][0]
      continue
    if t.k == 'call' and util.callee_name(t) == 'vectorize_vertical_interpolation' and t.a[1]:
      t = t.a[1][0]
      continue
    return t


# ------------------------------------------------------------------ matrix weights
def matrix_weights(chk, rule, site, loc, W, A, names):
  """Checks W = pad(1−w, after)·(i == u−1) + pad(w, before)·(i == u)."""
  terms = []
  def addends(t):
    if t.k == 'bin' and t.a[0] == '+':
      return addends(t.a[1]) + addends(t.a[2])
    return [t]
  terms = addends(W)
  if not chk.check(len(terms) == 2, rule, f'{site}: weights are the sum of a left-node and a right-node contribution', sym.show(W, maxdepth=3)[:160], loc):
    return
  info = []
  for t in terms:
    fs = match.plain_factors(t)
    pad = [f for f in fs if match.is_ext_call(f, 'pad')]
    sel = [f for f in fs if f.k == 'cmp' and f.a[0] == ('==',)]
    if len(fs) != 2 or len(pad) != 1 or len(sel) != 1:
      chk.violation(rule, f'{site}: each contribution is pad(weight)·(i == node index)', sym.show(t, maxdepth=4)[:160], loc)
      return
    widths = pad[0].a[1][1]
    w0 = widths.a[0] if widths.k in ('list', 'tuple') and len(widths.a) == 1 else None
    side = None
    if w0 is not None and w0.k == 'tuple' and len(w0.a) == 2:
      side = {(0, 1): 'after', (1, 0): 'before'}.get((w0.a[0].a[0] if w0.a[0].k == 'const' else None, w0.a[1].a[0] if w0.a[1].k == 'const' else None))
    info.append((side, pad[0].a[1][0], sel[0]))
  sides = {s for s, _, _ in info}
  if not chk.check(sides == {'after', 'before'}, rule, f'{site}: one weight vector is padded after, the other before (n−1 cell weights → n node weights)', str(sides), loc):
    return
  left = [i for i in info if i[0] == 'after'][0]
  right = [i for i in info if i[0] == 'before'][0]
  wl, wr = A.conv(left[1]), A.conv(right[1])
  xs, x0, x1 = names['x'], names['xp_lo'], names['xp_hi']
  w = (xs - x0) / (x1 - x0)
  chk.check(alg.equal(wr, w), rule, f'{site}: right-node weight w = (x − xp[:-1]) / (xp[1:] − xp[:-1])', sym.show(right[1]), loc, '(x - xp[:-1]) / (xp[1:] - xp[:-1])', sym.show(right[1]))
  chk.check(alg.equal(wl + wr, 1), rule, f'{site}: the two weights sum to one (partition of unity → constants and affine data are reproduced inside a cell)', f'{sym.show(left[1])} + {sym.show(right[1])}', loc,
            '(1 − w) + w', str(sp.simplify(wl + wr)))
  # selectors
  def sel_parts(c):
    a, b = c.a[1]
    ar = [z for z in (a, b) if match.is_ext_call(z, 'arange')]
    other = [z for z in (a, b) if not match.is_ext_call(z, 'arange')]
    return (ar[0] if ar else None, other[0] if other else None)
  il, ul = sel_parts(left[2])
  ir, ur = sel_parts(right[2])
  n_len = Term('call', Term('ext', 'len'), (S('xp'),), ())
  chk.check(il is not None and ir is not None and il == ir and list(il.a[1]) == [n_len], rule, f'{site}: node index i = arange(len(xp))', sym.show(il) if il is not None else 'none', loc)
  ok = ur is not None and ul is not None and ul == Term('bin', '-', ur, sym.const(1))
  chk.check(ok, rule, f'{site}: the padded-after weight (1 − w) is selected at node u − 1 and the padded-before weight (w) at node u — each cell weight meets its own two nodes', f'left @ {sym.show(ul) if ul is not None else None}; right @ {sym.show(ur) if ur is not None else None}',
            loc, 'left @ u - 1; right @ u', f'left @ {sym.show(ul) if ul is not None else None}; right @ {sym.show(ur) if ur is not None else None}')
  if ur is not None:
    okc = match.is_ext_call(ur, 'clip') and len(ur.a[1]) == 3 and ur.a[1][1] == sym.const(1) and ur.a[1][2] == Term('bin', '-', n_len, sym.const(1))
    chk.check(okc, rule, f'{site}: u is clipped to [1, n − 1], so both u − 1 and u are valid node indices for every query (also exactly at and beyond the last node)', sym.show(ur, maxdepth=3)[:160], loc,
              'clip(searchsorted(…), 1, len(xp) - 1)', sym.show(ur, maxdepth=3)[:160])
    ss = ur.a[1][0] if okc else ur
    oks = match.is_ext_call(ss, 'searchsorted') and list(ss.a[1][:2]) == [S('xp'), S('x')] and util.call_kwargs(ss).get('side') == sym.const('right')
    chk.check(oks, rule, f"{site}: u = searchsorted(xp, x, side='right') (a query on a node belongs to the cell to its right)", sym.show(ss, maxdepth=3)[:140], loc, "searchsorted(xp, x, side='right')", sym.show(ss, maxdepth=3)[:140])


def weight_algebra(ev):
  A = alg.Algebra(ev, strip_index=False)
  lo = Term('sub', S('xp'), Term('slice', sym.NONE, sym.const(-1), sym.NONE))
  hi = Term('sub', S('xp'), Term('slice', sym.const(1), sym.NONE, sym.NONE))
  names = {'x': A.name(lambda t: t == S('x'), 'x'), 'xp_lo': A.name(lambda t: t == lo, 'xp_lo'), 'xp_hi': A.name(lambda t: t == hi, 'xp_hi')}
  return A, names


def rule_matrix(chk, prog):
  rule = 'C17.3-matrix-weights'
  modes = {}
  for q in (f'{VI}._dot_interp', f'{VI}.linear_interp_with_linear_extrap'):
    ev = sym.Evaluator(prog, sym.Options(identity_arrays=False))
    f = prog.func(q)
    v, _, _ = ev.run(f)
    loc = (f.file, f.lineno)
    ok = match.is_ext_call(v, 'dot') and len(v.a[1]) == 2 and v.a[1][1] == S('fp')
    if not chk.check(ok, rule, f'{q}: returns dot(weights, fp)', sym.show(v, maxdepth=2)[:120], loc):
      continue
    W = v.a[1][0]
    clamps = []
    while match.is_ext_call(W, 'where') and len(W.a[1]) == 3:
      clamps.append((W.a[1][0], W.a[1][1]))
      W = W.a[1][2]
    A, names = weight_algebra(ev)
    matrix_weights(chk, rule, q, loc, W, A, names)
    modes[q] = clamps
  # clamp selectors of _dot_interp
  q = f'{VI}._dot_interp'
  f = prog.func(q)
  cl = modes.get(q, [])
  n_len = Term('call', Term('ext', 'len'), (S('xp'),), ())
  first = Term('sub', S('xp'), sym.const(0))
  last = Term('sub', S('xp'), sym.const(-1))
  want = {('<', sym.show(first)): sym.const(0), ('>', sym.show(last)): Term('bin', '-', n_len, sym.const(1))}
  got = {}
  for cond, sel in cl:
    if cond.k == 'cmp' and len(cond.a[0]) == 1 and cond.a[1][0] == S('x') and sel.k == 'cmp' and sel.a[0] == ('==',):
      node = [z for z in sel.a[1] if not match.is_ext_call(z, 'arange')]
      got[(cond.a[0][0], sym.show(cond.a[1][1]))] = node[0] if node else None
  ok = set(got) == set(want) and all(got[k] == want[k] for k in want)
  chk.check(ok, rule, f'{q}: queries below xp[0] take node 0 and queries above xp[-1] take node n − 1 (constant extrapolation, like jnp.interp)', str({k: sym.show(v) if v is not None else None for k, v in got.items()}),
            (f.file, f.lineno), 'x < xp[0] → i == 0; x > xp[-1] → i == n - 1', str({k: sym.show(v) if v is not None else None for k, v in got.items()}))
  q2 = f'{VI}.linear_interp_with_linear_extrap'
  f2 = prog.func(q2)
  chk.check(modes.get(q2) == [], rule, f'{q2}: no clamp selectors (the end cells are continued linearly without limit)', f'{len(modes.get(q2) or [])} clamp(s)', (f2.file, f2.lineno))
  chk.at_least(rule, 16)


# ------------------------------------------------------------------ extension helpers
class Ends:
  """Array-ends domain: what is known about a 1-D array built from `y` — its leading and trailing elements as exact
  expressions in y[0], y[1], y[-2], y[-1], whether the array is fully known (`exact`), and how many copies of y it embeds."""

  def __init__(self, head, tail, exact, ycount=0):
    self.head, self.tail, self.exact, self.ycount = list(head), list(tail), exact, ycount

  @staticmethod
  def scalar(e):
    return ('scalar', e)


Y0, Y1, YM2, YM1 = sp.symbols('y_0 y_1 y_m2 y_m1')


def ends_of(t, y):
  """Ends | ('scalar', expr) | None (not understood) for a term built from y."""
  t = util.strip(t) if t.k == 'bcast' else t
  if t == y:
    return Ends([Y0, Y1], [YM2, YM1], False, 1)
  if t.k == 'const' and isinstance(t.a[0], (int, float)) and not isinstance(t.a[0], bool):
    return ('scalar', alg.exact(t.a[0]))
  if t.k in ('list', 'tuple'):
    xs = [ends_of(x, y) for x in t.a]
    if all(x is not None and x[0] == 'scalar' for x in xs if not isinstance(x, Ends)) and not any(isinstance(x, Ends) for x in xs) and all(x is not None for x in xs):
      vals = [x[1] for x in xs]
      return Ends(vals, vals, True)
    return None
  if t.k == 'call':
    short = alg.ext_short(t.a[0])
    args = t.a[1]
    if short in ('array', 'asarray', 'atleast_1d') and len(args) >= 1:
      e = ends_of(args[0], y)
      if e is not None and not isinstance(e, Ends):
        return Ends([e[1]], [e[1]], True)
      return e
    if short == 'diff' and len(args) == 1 and not [k for k, _ in t.a[2] if k in ('prepend', 'append', 'n')]:
      e = ends_of(args[0], y)
      if not isinstance(e, Ends):
        return None
      if e.exact:
        d = [b - a for a, b in zip(e.head, e.head[1:])]
        return Ends(d, d, True)
      return Ends([e.head[1] - e.head[0]] if len(e.head) >= 2 else [], [e.tail[-1] - e.tail[-2]] if len(e.tail) >= 2 else [], False, 0)
    if short in ('concatenate', 'hstack', 'append'):
      cp = match.concat_parts(t) if short == 'concatenate' else None
      parts = cp[0] if cp is not None else (list(args[0].a) if short == 'hstack' and args and args[0].k in ('list', 'tuple') else (list(args[:2]) if short == 'append' else None))
      if parts is None:
        return None
      es = [ends_of(p_, y) for p_ in parts]
      if any(e is None for e in es):
        return None
      es = [Ends([e[1]], [e[1]], True) if not isinstance(e, Ends) else e for e in es]
      head, tail = [], []
      for e in es:
        head += e.head
        if not e.exact:
          break
      for e in reversed(es):
        tail = e.tail + tail
        if not e.exact:
          break
      exact = all(e.exact for e in es)
      return Ends(head, tail if not exact else head, exact, sum(e.ycount for e in es))
    if short == 'pad':
      return None
  if t.k == 'sub':
    e = ends_of(t.a[0], y)
    idx = t.a[1]
    if not isinstance(e, Ends):
      return None
    if idx.k == 'const' and isinstance(idx.a[0], int):
      i = idx.a[0]
      try:
        return ('scalar', e.head[i] if i >= 0 else e.tail[i])
      except IndexError:
        return None
    if idx.k == 'slice' and idx.a[2] == sym.NONE:
      lo, hi = idx.a[0], idx.a[1]
      cv = lambda z: None if z == sym.NONE else (z.a[0] if z.k == 'const' and isinstance(z.a[0], int) else 'x')
      lo, hi = cv(lo), cv(hi)
      if 'x' in (lo, hi):
        return None
      if (lo in (None, 0)) and hi is not None and hi > 0 and hi <= len(e.head):
        return Ends(e.head[:hi], e.head[:hi], True)
      if lo is not None and lo < 0 and hi is None and -lo <= len(e.tail):
        return Ends(e.tail[lo:], e.tail[lo:], True)
      if e.exact:
        part = e.head[slice(lo, hi)]
        return Ends(part, part, True)
    return None
  if t.k == 'un' and t.a[0] == '-':
    e = ends_of(t.a[1], y)
    if e is None:
      return None
    if isinstance(e, Ends):
      return Ends([-x for x in e.head], [-x for x in e.tail], e.exact, 0)
    return ('scalar', -e[1])
  if t.k == 'bin' and t.a[0] in ('+', '-', '*', '/'):
    a, b = ends_of(t.a[1], y), ends_of(t.a[2], y)
    if a is None or b is None:
      return None
    f = {'+': lambda p_, q_: p_ + q_, '-': lambda p_, q_: p_ - q_, '*': lambda p_, q_: p_ * q_, '/': lambda p_, q_: p_ / q_}[t.a[0]]
    if not isinstance(a, Ends) and not isinstance(b, Ends):
      return ('scalar', f(a[1], b[1]))
    if isinstance(a, Ends) and isinstance(b, Ends):
      if a.exact != b.exact or (a.exact and len(a.head) != len(b.head)):
        # a one-element array broadcasts against any array
        if a.exact and len(a.head) == 1:
          a = ('scalar', a.head[0])
        elif b.exact and len(b.head) == 1:
          b = ('scalar', b.head[0])
        else:
          return None
      else:
        n_h, n_t = min(len(a.head), len(b.head)), min(len(a.tail), len(b.tail))
        return Ends([f(p_, q_) for p_, q_ in zip(a.head[:n_h], b.head[:n_h])], [f(p_, q_) for p_, q_ in zip(a.tail[len(a.tail) - n_t:], b.tail[len(b.tail) - n_t:])], a.exact, 0)
    if isinstance(a, Ends):
      return Ends([f(p_, b[1]) for p_ in a.head], [f(p_, b[1]) for p_ in a.tail], a.exact, 0)
    return Ends([f(a[1], q_) for q_ in b.head], [f(a[1], q_) for q_ in b.tail], b.exact, 0)
  return None


def rule_extension(chk, prog):
  rule = 'C17.2-end-cell-extension'
  y = S('y')
  ev = sym.Evaluator(prog, sym.Options(identity_arrays=False))
  f = prog.func(f'{VI}._extrapolate_both')
  v, _, _ = ev.run(f)
  site, loc = f'{VI}._extrapolate_both', (f.file, f.lineno)
  e = ends_of(v, y)
  if not isinstance(e, Ends) or e.exact or len(e.head) < 2 or len(e.tail) < 2:
    raise AnalysisError(f'{site}: unrecognised construction {sym.show(v, maxdepth=4)[:160]}')
  chk.check(e.ycount == 1 and alg.equal(e.head[1], Y0) and alg.equal(e.tail[-2], YM1), rule, f'{site}: one value is added before y and one after it; y itself is kept unchanged',
            f'embeds y {e.ycount}×; second element {e.head[1]}, last but one {e.tail[-2]}', loc, 'y once, neighbours y[0] / y[-1]', f'{e.head[1]}, {e.tail[-2]}')
  first, last = sp.expand(e.head[0]), sp.expand(e.tail[-1])
  chk.check(alg.equal(first, 2 * Y0 - Y1), rule, f'{site}: the value added in front is y[0] − (y[1] − y[0]) — the first cell continued with its own slope', str(first), loc,
            '2*y[0] - y[1]', str(first))
  chk.check(alg.equal(last, 2 * YM1 - YM2), rule, f'{site}: the value added at the end is y[-1] + (y[-1] − y[-2]) — the last cell continued with its own slope (not the first cell\'s)',
            str(last), loc, '2*y[-1] - y[-2]', str(last))
  # safe extrapolation: same helper, same count, NaN beyond
  evs = sym.Evaluator(prog, sym.Options(opaque={f'{VI}._extrapolate_both'}))
  f = prog.func(f'{VI}._linear_interp_with_safe_extrap')
  v, _, _ = evs.run(f)
  site, loc = f'{VI}._linear_interp_with_safe_extrap', (f.file, f.lineno)
  ok = match.is_ext_call(v, 'interp') and len(v.a[1]) == 3 and v.a[1][0] == S('x')
  if chk.check(ok, rule, f'{site}: jnp.interp(x, extended xp, extended fp, …)', sym.show(v, maxdepth=3)[:160], loc):
    kw = util.call_kwargs(v)
    chk.check(is_nan(kw.get('left')) and is_nan(kw.get('right')), rule, f'{site}: values beyond the extended range are missing on both sides (left=nan, right=nan)', f'left={sym.show(kw["left"]) if "left" in kw else None}, right={sym.show(kw["right"]) if "right" in kw else None}', loc,
              'left=nan, right=nan', str({k: sym.show(x) for k, x in kw.items()}))
    lx, lf = v.a[1][1], v.a[1][2]
    def loop_info(t, base):
      if t.k != 'loop':
        return None
      name, init, body, lv, uid = t.a
      car = Term('carried', name, uid)
      one = body.k == 'call' and util.callee_name(body) == '_extrapolate_both' and util.call_args(body) == [car]
      return (init == S(base), one, sym.show(lv.a[1]))
    ix, if_ = loop_info(lx, 'xp'), loop_info(lf, 'fp')
    ok = ix is not None and if_ is not None and ix[0] and if_[0] and ix[1] and if_[1] and ix[2] == if_[2] == 'range(n)'
    chk.check(ok, rule, f'{site}: coordinates and values are extended by the same helper exactly n times each', f'xp: {ix}; fp: {if_}', loc, '_extrapolate_both applied range(n) times to both', f'xp: {ix}; fp: {if_}')
  chk.at_least(rule, 6)


# ------------------------------------------------------------------ modes
def mode_of(prog, q, depth=0):
  """Extrapolation mode implemented by function `q` (resolved through forwarding wrappers)."""
  opaque = {f'{VI}._dot_interp', f'{VI}.linear_interp_with_linear_extrap', f'{VI}._linear_interp_with_safe_extrap', f'{VI}.interp', f'{PE}._vertical_interp', f'{VI}.vertical_interpolation'} - {q}
  ev = sym.Evaluator(prog, sym.Options(opaque=opaque | {f'{VI}._extrapolate_both'}))
  f = prog.func(q)
  v, _, _ = ev.run(f)
  return term_modes(prog, v, depth), v


def term_modes(prog, v, depth=0):
  out = set()
  found = False
  for t in sym.walk(v):
    if t.k != 'call':
      continue
    if match.is_ext_call(t, 'interp'):
      kw = util.call_kwargs(t)
      found = True
      if not kw:
        out.add('constant')
      elif is_nan(kw.get('left')) and is_nan(kw.get('right')) and set(kw) == {'left', 'right'}:
        out.add('nan-outside' if not any(x.k == 'loop' for x in t.a[1]) else 'linear-n-then-nan')
      else:
        out.add('?' + sym.show(t, maxdepth=2)[:60])
    name = util.callee_name(t)
    if name == '_dot_interp':
      out.add('constant(matrix)'); found = True
    elif name == 'linear_interp_with_linear_extrap':
      out.add('linear-unlimited'); found = True
    elif name == '_linear_interp_with_safe_extrap':
      out.add('linear-n-then-nan'); found = True
    elif name in ('interp', 'vertical_interpolation', '_vertical_interp') and t.a[0].k != 'ext' and depth < 3:
      qual = {'interp': f'{VI}.interp', 'vertical_interpolation': f'{VI}.vertical_interpolation', '_vertical_interp': f'{PE}._vertical_interp'}[name]
      out |= mode_of(prog, qual, depth + 1)[0]
      found = True
  return out


def rule_modes(chk, prog):
  rule = 'C17.1-extrapolation-mode'
  table = [
      (f'{VI}.interp', {'constant', 'constant(matrix)'}, 'constant extrapolation on both platform paths'),
      (f'{VI}.vertical_interpolation', {'constant', 'constant(matrix)'}, 'constant extrapolation (documented)'),
      (f'{PE}._vertical_interp', {'constant', 'constant(matrix)'}, 'constant extrapolation (matches the zero boundary derivative of vertical advection)'),
      (f'{PE}.semi_lagrangian_vertical_advection_step', {'constant', 'constant(matrix)'}, 'constant extrapolation'),
      (f'{VI}.get_surface_pressure', {'linear-unlimited'}, 'unlimited linear extrapolation (the surface may lie below the lowest level)'),
      (f'{VI}._linear_interp_with_safe_extrap', {'linear-n-then-nan'}, 'linear for n cells, then missing'),
      (f'{VI}.interp_hybrid_to_sigma', {'linear-n-then-nan'}, 'linear for one cell, then missing'),
  ]
  for q, want, what in table:
    got, v = mode_of(prog, q)
    f = prog.func(q)
    chk.check(got == want, rule, f'{q}: {what}', f'modes found: {sorted(got)}', (f.file, f.lineno), str(sorted(want)), str(sorted(got)))
  # default interpolate_fn of the two pressure <-> sigma routines
  for q in (f'{VI}.interp_pressure_to_sigma', f'{VI}.interp_sigma_to_pressure'):
    f = prog.func(q)
    d = None
    a = f.args
    pos = a.posonlyargs + a.args
    for arg, dflt in zip(pos[len(pos) - len(a.defaults):], a.defaults):
      if arg.arg == 'interpolate_fn':
        d = dflt
    chk.require(d is not None, f'{q}: no default interpolate_fn')
    ev = sym.Evaluator(prog, sym.Options(opaque={f'{VI}.vectorize_vertical_interpolation'}))
    t = strip_wrappers(ev.eval_module_expr(f.module, d))
    name = t.a[-1] if t.k == 'func' else sym.show(t)
    ok = name.endswith('_linear_interp_with_safe_extrap')
    chk.check(ok, rule, f'{q}: the default interpolate_fn is the vectorised `_linear_interp_with_safe_extrap` (linear for one cell, then missing)', sym.unparse(d), (f.file, f.lineno),
              'vectorize_vertical_interpolation(_linear_interp_with_safe_extrap)', sym.unparse(d))
  g = prog.func(f'{VI}._linear_interp_with_safe_extrap')
  dn = dict(zip([a.arg for a in g.args.args][-len(g.args.defaults):], g.args.defaults)).get('n')
  chk.check(dn is not None and sym.unparse(dn) == '1', rule, f'{VI}._linear_interp_with_safe_extrap: extends by one cell by default', sym.unparse(dn) if dn is not None else 'none', (g.file, g.lineno))
  # platform selector
  ev = sym.Evaluator(prog, sym.Options(opaque={f'{VI}._dot_interp'}))
  f = prog.func(f'{VI}.interp')
  v, _, _ = ev.run(f)
  site, loc = f'{VI}.interp', (f.file, f.lineno)
  ok = v.k == 'phi' and len(v.a) == 3
  if chk.check(ok, rule, f'{site}: chooses between the matrix path and jnp.interp', sym.show(v, maxdepth=3)[:160], loc):
    c = v.a[0]
    deps = {t.a[0] for t in sym.walk(c) if t.k == 'sym'}
    chk.check(not deps and 'platform' in sym.show(c, maxdepth=8), rule, f'{site}: the selector depends on the device platform only (never on the data)', sym.show(c, maxdepth=8)[:120], loc)
    a1, a2 = v.a[1], v.a[2]
    args = [S('x'), S('xp'), S('fp')]
    ok = util.callee_name(a1) == '_dot_interp' and util.call_args(a1) == args and match.is_ext_call(a2, 'interp') and list(a2.a[1]) == args and not a2.a[2]
    chk.check(ok, rule, f'{site}: both paths receive (x, xp, fp) unchanged and in that order', f'{sym.show(a1)[:80]} | {sym.show(a2)[:80]}', loc)
  chk.at_least(rule, 13)


# ------------------------------------------------------------------ coordinates per direction
def rule_coordinates(chk, prog):
  rule = 'C17.4-coordinates'
  op = {f'{VI}._linear_interp_with_safe_extrap', f'{VI}.linear_interp_with_linear_extrap', f'{VI}.interp'}
  ev = sym.Evaluator(prog, sym.Options(opaque=op))
  A = alg.Algebra(ev)
  ps = A.name(lambda t: t == S('surface_pressure'), 'ps', positive=True)
  sig = A.name(lambda t: sym.show(t) == '((sigma_coords.boundaries[1:] + sigma_coords.boundaries[:-1]) / 2)' or sym.show(t) == 'sigma_coords.centers', 'sigma_c')
  pc = A.name(lambda t: sym.show(t) == 'pressure_coords.centers', 'p_c')
  # pressure -> sigma
  f = prog.func(f'{VI}.interp_pressure_to_sigma')
  v, _, _ = ev.run(f)
  calls = [t for t in sym.walk(v) if t.k == 'call' and t.a[0] == S('interpolate_fn')]
  site, loc = f'{VI}.interp_pressure_to_sigma', (f.file, f.lineno)
  chk.require(len(set(calls)) == 1, f'{site}: expected one interpolate_fn call')
  x, xp, fp = calls[0].a[1]
  chk.check(alg.equal(A.conv(x), sig * ps), rule, f'{site}: queries are the sigma centers times surface pressure (pressure of each sigma level)', sym.show(x, maxdepth=4)[:120], loc, 'sigma centers * surface_pressure', sym.show(x, maxdepth=4)[:120])
  chk.check(sym.show(xp) == 'pressure_coords.centers' and fp == S('fields'), rule, f'{site}: known values live on the pressure centers', f'{sym.show(xp)}, {sym.show(fp)}', loc)
  chk.check(v.k == 'phi' and v.a[2] == S('fields') and sym.contains(v.a[0], lambda t: t.k == 'sub' and t.a[1] == sym.const(-3) and 'shape' in sym.show(t.a[0])) and 'pressure_coords.centers.shape[0]' in sym.show(v.a[0], maxdepth=8), rule,
            f'{site}: only leaves whose level axis (−3) has the source level count are interpolated; others pass through', sym.show(v.a[0], maxdepth=8)[:140] if v.k == 'phi' else sym.show(v)[:100], loc)
  # sigma -> pressure
  f = prog.func(f'{VI}.interp_sigma_to_pressure')
  v, _, _ = ev.run(f)
  calls = [t for t in sym.walk(v) if t.k == 'call' and t.a[0] == S('interpolate_fn')]
  site, loc = f'{VI}.interp_sigma_to_pressure', (f.file, f.lineno)
  chk.require(len(set(calls)) == 1, f'{site}: expected one interpolate_fn call')
  x, xp, fp = calls[0].a[1]
  chk.check(alg.equal(A.conv(x), pc / ps), rule, f'{site}: queries are the pressure centers divided by surface pressure (sigma of each pressure level)', sym.show(x, maxdepth=4)[:120], loc, 'pressure centers / surface_pressure', sym.show(x, maxdepth=4)[:120])
  chk.check(alg.equal(A.conv(xp), sig) and fp == S('fields'), rule, f'{site}: known values live on the sigma centers', f'{sym.show(xp, maxdepth=4)[:80]}, {sym.show(fp)}', loc)
  # hybrid -> sigma
  f = prog.func(f'{VI}.interp_hybrid_to_sigma')
  v, _, _ = ev.run(f)
  site, loc = f'{VI}.interp_hybrid_to_sigma', (f.file, f.lineno)
  calls = [t for t in sym.walk(v) if t.k == 'call' and util.callee_name(t) == '_linear_interp_with_safe_extrap']
  chk.require(len(set(calls)) == 1, f'{site}: expected one interpolation call')
  b = ev.bind_args(prog.func(f'{VI}._linear_interp_with_safe_extrap'), list(calls[0].a[1]), list(calls[0].a[2]), None, None)
  B = alg.Algebra(ev, strip_index=False)
  ps2 = B.name(lambda t: t == S('surface_pressure'), 'ps', positive=True)
  sl = lambda base, a0, a1: Term('sub', base, Term('slice', a0, a1, sym.NONE))
  # xp = (h[1:] + h[:-1]) / 2 with h = a_boundaries / pₛ + b_boundaries (normal forms; operand order is irrelevant)
  bases = {t.a[0] for t in sym.walk(b['xp']) if t.k == 'sub' and t.a[1].k == 'slice'}
  okh = len(bases) == 1
  if okh:
    h = list(bases)[0]
    Bh = alg.Algebra(ev, strip_index=False, opaque=lambda t: t == h)
    hat = lambda a0, a1: Bh.conv(sl(h, a0, a1))
    okh = alg.equal(Bh.conv(b['xp']), (hat(sym.const(1), sym.NONE) + hat(sym.NONE, sym.const(-1))) / 2)
    Ch = alg.Algebra(ev)
    ca = Ch.name(lambda t: t.k == 'attr' and t.a[1] == 'a_boundaries', 'a')
    cb = Ch.name(lambda t: t.k == 'attr' and t.a[1] == 'b_boundaries', 'b')
    cp = Ch.name(lambda t: t == S('surface_pressure'), 'ps', positive=True)
    okh = okh and alg.equal(Ch.conv(h), ca / cp + cb)
  chk.check(okh, rule, f'{site}: source coordinates are the centers (midpoints) of the hybrid boundaries a/pₛ + b in sigma units', sym.show(b['xp'], maxdepth=5)[:160], loc)
  chk.check(alg.equal(A.conv(b['x']), sig) and b['fp'] == S('fields'), rule, f'{site}: queries are the sigma centers; the field supplies the known values', sym.show(b['x'], maxdepth=4)[:100], loc)
  # surface pressure
  f = prog.func(f'{VI}.get_surface_pressure')
  v, _, _ = ev.run(f)
  site, loc = f'{VI}.get_surface_pressure', (f.file, f.lineno)
  calls = [t for t in sym.walk(v) if t.k == 'call' and util.callee_name(t) == 'linear_interp_with_linear_extrap']
  chk.require(len(set(calls)) == 1, f'{site}: expected one interpolation call')
  x, xp, fp = calls[0].a[1]
  C = alg.Algebra(ev)
  oro, g, phi = (C.name(lambda t, n=n: t == S(n), n) for n in ('orography', 'gravity_acceleration', 'geopotential'))
  chk.check(x.k == 'const' and x.a[0] == 0 and alg.equal(C.conv(xp), oro * g - phi), rule, f'{site}: surface pressure is the level value at which orography·g − geopotential crosses zero (an increasing function along the level axis)',
            f'x={sym.show(x)}, xp={sym.show(xp)}', loc, 'x = 0, xp = orography * g - geopotential', f'x={sym.show(x)}, xp={sym.show(xp)}')
  chk.check(sym.show(fp) == 'pressure_levels.centers', rule, f'{site}: interpolated values are the pressure level centers', sym.show(fp), loc)
  # vmap axes: the shared coordinate vector is never mapped
  f = prog.func(f'{VI}.vectorize_vertical_interpolation')
  evw = sym.Evaluator(prog)
  v, _, _ = evw.run(f)
  site, loc = f'{VI}.vectorize_vertical_interpolation', (f.file, f.lineno)
  axes = []
  t = v
  while t.k == 'call' and t.a[0].k == 'ext' and t.a[0].a[0] in ('jax.vmap', 'jax.numpy.vectorize'):
    if t.a[0].a[0] == 'jax.vmap':
      ia = t.a[1][1] if len(t.a[1]) > 1 else util.call_kwargs(t).get('in_axes')
      axes.append(tuple(x.a[0] if x.k == 'const' else sym.show(x) for x in ia.a) if ia is not None and ia.k == 'tuple' else None)
    else:
      sig_ = util.call_kwargs(t).get('signature')
      axes.append(('sig', sig_.a[0] if sig_ is not None and sig_.k == 'const' else None))
    t = t.a[1][0]
  chk.check(t == S('interpolate_fn'), rule, f'{site}: wraps the given function', sym.show(t), loc)
  chk.check(axes == [('sig', '(a,x,y),(b),(b,x,y)->(a,x,y)'), (0, None, None), (-1, None, -1), (-1, None, -1)], rule,
            f'{site}: the two horizontal axes are mapped for queries and values (never for the shared coordinate vector), then the target levels for the queries only', str(axes), loc,
            "[vectorize '(a,x,y),(b),(b,x,y)->(a,x,y)', vmap (0, None, None), vmap (-1, None, -1) ×2]", str(axes))
  chk.at_least(rule, 11)


# ------------------------------------------------------------------ horizontal regridders
def rule_horizontal(chk, prog):
  rule = 'C17.5-horizontal-roles'
  ev = sym.Evaluator(prog)
  c = prog.cls(f'{HI}.BilinearRegridder')
  f = c.find_method('__call__')
  v, _, _ = ev.run(f)
  site, loc = f'{HI}.BilinearRegridder.__call__', (f.file, f.lineno)
  ok = match.is_ext_call(v, 'interp') and len(v.a[1]) == 3 and match.is_ext_call(v.a[1][2], 'interp') and not v.a[2] and not v.a[1][2].a[2]
  if chk.check(ok, rule, f'{site}: two nested jnp.interp calls with default (constant) extrapolation', sym.show(v, maxdepth=3)[:160], loc):
    inner = v.a[1][2]
    def desc(t):
      g = {x.a[1] for x in sym.walk(t) if x.k == 'attr' and x.a[1] in ('source_grid', 'target_grid')}
      ax = {sym.show(x.a[1]) for x in sym.walk(t) if x.k == 'sub' and x.a[0].k == 'attr' and x.a[0].a[1] == 'nodal_axes'}
      return (sorted(g), sorted(ax))
    got = [desc(inner.a[1][0]), desc(inner.a[1][1]), desc(v.a[1][0]), desc(v.a[1][1])]
    want = [(['target_grid'], ['1']), (['source_grid'], ['1']), (['target_grid'], ['0']), (['source_grid'], ['0'])]
    chk.check(got == want and inner.a[1][2] == S('field'), rule, f'{site}: latitude first — interp(target latitudes, source latitudes, field) — then longitude with (target, source) roles again', str(got), loc, str(want), str(got))
    # jnp.interp needs increasing nodes: the node arrays must be non-decreasing functions of the (increasing) grid coordinate
    # — a wrap such as `% 2π` reorders them for grids whose offset pushes a node across 0 / 2π
    from sa import domains
    is_axis = lambda t: t.k == 'sub' and t.a[0].k == 'attr' and t.a[0].a[1] == 'nodal_axes'
    sgn = domains.Sign(assume=[(is_axis, 'T')])
    for label, xp in (('latitude', inner.a[1][1]), ('longitude', v.a[1][1])):
      m = domains.Mono(is_axis, sgn).of(xp)
      chk.check(m == 'I', rule, f'{site}: the source {label} nodes handed to jnp.interp are an increasing function of the grid coordinate (sorted for every longitude offset)',
                f'monotonicity class {m}: {sym.show(xp, maxdepth=4)[:100]}', loc, 'I (increasing)', m)
  wraps = [e for e in ev.events if e[0] == 'wrap']
  sigs = [dict(e[1][2]).get('signature') for e in wraps if e[1][0] == 'jax.numpy.vectorize']
  sigs = [s_.a[0] for s_ in sigs if s_ is not None and s_.k == 'const']
  chk.check(sigs == ['(a),(b),(b)->(a)', '(a),(b),(b,y)->(a,y)'], rule, f'{site}: the latitude pass works on the last axis, the longitude pass on the second-to-last axis (nodal layout (lon, lat))', str(sigs), loc)
  c = prog.cls(f'{HI}.NearestRegridder')
  evn = sym.Evaluator(prog, sym.Options(opaque={f'{HI}.nearest_neighbor_indices'}))
  f = c.find_method('nearest_neighbor_2d')
  v, ctx, _ = evn.run(f)
  site, loc = f'{HI}.NearestRegridder.nearest_neighbor_2d', (f.file, f.lineno)
  txt = sym.show(v, maxdepth=8)
  idx = [t for t in sym.walk(v) if t.k == 'call' and util.callee_name(t) == 'nearest_neighbor_indices']
  ok = len(set(idx)) == 1 and [sym.show(a).split('.')[-1] for a in util.call_args(idx[0])] == ['source_grid', 'target_grid'] and txt.startswith('array.ravel().take(') and 'target_grid' in txt.split('.reshape(')[-1]
  chk.check(ok, rule, f'{site}: takes from the raveled source array at indices built from (source grid, target grid) and reshapes to the target nodal shape', txt[:200], loc)
  rz = [sym.show(guards.path_cond(p), maxdepth=8) for p, e, l in ctx.raises]
  chk.check(any('array.shape' in z and 'source_grid' in z for z in rz), rule, f'{site}: an input that does not have the source nodal shape raises', str(rz)[:160], loc)
  g = prog.func(f'{HI}.nearest_neighbor_indices')
  v, _, _ = sym.Evaluator(prog).run(g)
  site, loc = f'{HI}.nearest_neighbor_indices', (g.file, g.lineno)
  tree = [t for t in sym.walk(v) if t.k == 'call' and sym.show(t.a[0]).endswith('BallTree')]
  qry = [t for t in sym.walk(v) if t.k == 'call' and t.a[0].k == 'attr' and t.a[0].a[1] == 'query']
  ok = len(tree) == 1 and len(qry) == 1
  if chk.check(ok, rule, f'{site}: builds a tree and queries it', sym.show(v, maxdepth=3)[:160], loc):
    ti, qi = tree[0].a[1][0], qry[0].a[1][0]
    deps = lambda t: {x.a[0] for x in sym.walk(t) if x.k == 'sym'}
    chk.check(deps(ti) == {'source_grid'} and deps(qi) == {'target_grid'} and util.call_kwargs(tree[0]).get('metric') == sym.const('haversine'), rule,
              f'{site}: the tree indexes the source points, the query uses the target points, distance is great-circle (haversine)', f'tree ← {sorted(deps(ti))}, query ← {sorted(deps(qi))}', loc)
    def order(t):
      parts = t.a[1][0].a if t.k == 'call' and t.a[1] and t.a[1][0].k in ('list', 'tuple') else []
      return ['lat' if 'arcsin' in sym.show(p) else 'lon' for p in parts]
    chk.check(order(ti) == ['lat', 'lon'] and order(qi) == ['lat', 'lon'], rule, f'{site}: both coordinate stacks are (latitude, longitude) — the order the haversine metric expects', f'{order(ti)} / {order(qi)}', loc)
  chk.at_least(rule, 8)


def run(chk, prog, tier):
  rule_modes(chk, prog)
  rule_extension(chk, prog)
  rule_matrix(chk, prog)
  rule_coordinates(chk, prog)
  rule_horizontal(chk, prog)
  chk.assume('jnp.interp: linear inside, constant outside unless left/right are given; searchsorted / clip / pad / dot semantics',
             'vmap / vectorize apply the wrapped function along the mapped axes only')
  return dict(
      explanation=('Every interpolation routine is abstractly interpreted with the interpolation kernels opaque; the kernel each one reaches and its keyword constants give the extrapolation mode, '
                   'compared against the documented table. The weight expressions of the two matrix kernels are normalised with sympy (partition of unity, formula of w), their selectors, '
                   'clipping and searchsorted side matched structurally; the extension helpers are compared with 2·y_end − y_next; argument roles of each regridding direction and of the '
                   'horizontal regridders are matched by data flow. Not decided: numerical exactness, tie behaviour, round trips.'),
      trusted_base=['python ast', 'sympy canonicalisation', 'jax.numpy interp/searchsorted/pad semantics'],
      analysed=dict(functions=[f'{VI}._dot_interp', f'{VI}.interp', f'{VI}._extrapolate_left/right/both', f'{VI}._linear_interp_with_safe_extrap', f'{VI}.linear_interp_with_linear_extrap',
                               f'{VI}.vertical_interpolation', f'{VI}.get_surface_pressure', f'{VI}.interp_pressure_to_sigma', f'{VI}.interp_sigma_to_pressure', f'{VI}.interp_hybrid_to_sigma',
                               f'{VI}.vectorize_vertical_interpolation', f'{PE}._vertical_interp', f'{PE}.semi_lagrangian_vertical_advection_step', f'{HI}.BilinearRegridder.__call__',
                               f'{HI}.NearestRegridder.nearest_neighbor_2d', f'{HI}.nearest_neighbor_indices']),
  )
