"""C04 — the full tendency does not depend on the reference-temperature split: split discipline."""
from __future__ import annotations

import sympy as sp

from sa import alg, domains, match, sym, util
from sa.model import AnalysisError
from sa.sym import Term
from rules import common, c05, c11, c03

PE = 'primitive_equations'

CLAIM = dict(
    text=('Decides the split discipline that makes explicit + implicit independent of T_ref: at every ω/p and vertical-advection term of the temperature tendency '
          '(dry and moist) a temperature argument built from T_ref alone is paired with the explicit-only flow (u·∇ln pₛ, σ̇_explicit — its divergence part is what the '
          'implicit H·δ carries) and an argument containing T′ or tracers with the full flow; T_ref enters the implicit tendency only through R·T_ref·ln pₛ and as '
          'the reference profile of H, T′ only through the geopotential operator; the κ and R used in the explicit half and handed to the implicit operators are the '
          'same physics_specs attributes; the T_ref-advection shortcut tests only whether T_ref has one distinct value; the dense H matrix equals the documented '
          'formula term by term (κT_r(Pα_r + shift(Pα)_r)/Δσ_r − K − shift(K), K = ΔT/(Δσ_r+Δσ_(r+1))·(P − ΣΔσ), times the column thickness), which is the '
          'implicit half of the explicit centred T_ref advection; no spectral operator inside the tendencies clips an intermediate result. Also decided: the tracers that load the virtual temperature of the temperature variation (R·T′·(1+…)·∇ln pₛ) are exactly the tracers of the reference-temperature corrections, for the humidity-only and the cloud-moisture class (C04.7). Does not decide '
          'equality of the totals for two profiles numerically.'
          ' Later additions: C04.7/C04.8 the T_ref half of the pressure-gradient force carries the same tracer loading (names and coefficients) as the T′ half (finding F7, fixed); C04.9 the explicit centred advection applied to T_ref is the plain two-interface average that the H matrix hard-codes, and it is the default vertical_advection. C04.10 the ω/p stencil and the explicit R·T′·∇ln pₛ force on every configuration branch (C05.2 instances re-filed).'),
    note=('Durran §8.6.5 (H matrix) as restated in the docstring of get_temperature_implicit_weights; numpy roll / tril / cumsum / diff semantics. Row vs column '
          'broadcasts (x[..., None] vs x) are kept distinct in the comparison.'),
    technique='dependence classification of call-site arguments (taint by role) + normal-form comparison of the H matrix with its documented formula',
)


def S(n):
  return Term('sym', n)


A_ = c05.A_
I_ = c05.I_


def uses(t, pred):
  return sym.contains(t, pred)


def rule_pairing(chk, prog):
  rule = 'C04.1-flow-pairing'
  n = 0
  for cname in ('PrimitiveEquations', 'MoistPrimitiveEquations'):
    cls = prog.cls(f'{PE}.{cname}')
    R = c05.Ref(prog, cls)
    aux = R.aux
    is_tref = lambda t: (t.k == 'attr' and t.a[1] in ('T_ref', 'reference_temperature'))
    is_var = lambda t: t.k == 'attr' and t.a[0] == aux and t.a[1] in ('temperature_variation', 'tracers') or (t.k == 'call' and util.callee_name(t) in ('_get_specific_humidity', '_get_cloud_water', '_get_cloud_ice'))
    is_div = lambda t: t.k == 'attr' and t.a[0] == aux and t.a[1] in ('divergence', 'sigma_dot_full')
    for mname in ('nodal_temperature_adiabatic_tendency', 'nodal_temperature_vertical_tendency'):
      ev, f, v, ctx, env = c05.evaluate(prog, cls, mname)
      site, loc = f'{PE}.{cname}.{mname}', (f.file, f.lineno)
      calls = [t for t in sym.walk(v) if t.k == 'call' and util.callee_name(t) in ('_t_omega_over_sigma_sp', '_vertical_tendency') and t.a[0].k == 'bound']
      seen = set()
      for c in calls:
        if c in seen:
          continue
        seen.add(c)
        args = util.call_args(c)
        if util.callee_name(c) == '_t_omega_over_sigma_sp':
          temp, flow = args[0], args[1]
          third = args[2]
        else:
          flow, temp = args[0], args[1]
          third = None
        kind_t = 'variation' if uses(temp, is_var) else ('reference' if uses(temp, is_tref) else 'other')
        kind_f = 'full' if uses(flow, is_div) else 'explicit'
        want = {'variation': 'full', 'reference': 'explicit'}.get(kind_t)
        key = f'{site}: {util.callee_name(c)}({sym.show(temp, maxdepth=3)[:60]}, …)'
        if want is None:
          chk.violation(rule, key, 'temperature argument is neither built from T_ref nor from the temperature variation / tracers', c.loc or loc)
          continue
        chk.check(kind_f == want, rule, key + f': a {kind_t}-temperature factor is paired with the {want} flow',
                  f'flow argument {sym.show(flow, maxdepth=3)[:80]} is {kind_f}', c.loc or loc, f'{want} flow', f'{kind_f} flow ({sym.show(flow, maxdepth=3)[:80]})')
        if third is not None:
          chk.check(third == A_(aux, 'u_dot_grad_log_sp'), rule, key + ': the local term is v·∇ln pₛ', sym.show(third), c.loc or loc)
        n += 1
  chk.at_least(rule, 8)


def rule_implicit_side(chk, prog):
  rule = 'C04.2-implicit-carries-tref-linear-part'
  cls = prog.cls(f'{PE}.PrimitiveEquations')
  f = cls.find_method('implicit_terms')
  ev = sym.Evaluator(prog, sym.Options(opaque=c03.PE_OPAQUE | {f'{PE}.get_geopotential_diff', f'{PE}.get_temperature_implicit', f'{PE}.PrimitiveEquations.T_ref'}))
  v, ctx, env = ev.run(f, self_cls=cls)
  site, loc = f'{PE}.PrimitiveEquations.implicit_terms', (f.file, f.lineno)
  chk.require(v.k == 'obj', f'{site}: does not return State')
  is_tref = lambda t: t.k == 'attr' and t.a[1] in ('T_ref', 'reference_temperature')
  st = S('state')
  # divergence: −∇²(G·T′ + R·T_ref·ln pₛ)
  A = c03.OpAlgebra(ev)
  d = util.field(v, 'divergence')
  gd = [t for t in sym.walk(d) if t.k == 'call' and util.callee_name(t) == 'get_geopotential_diff']
  okg = len(set(gd)) == 1 and util.call_args(gd[0])[0] == A_(st, 'temperature_variation') and not uses(gd[0], is_tref)
  chk.check(okg, rule, f'{site}: the geopotential operator acts on T′ only (T_ref does not enter it)', sym.show(gd[0], maxdepth=3)[:160] if gd else 'none', loc)
  Bq = alg.Algebra(ev, opaque=lambda t: t in gd)
  lap = [t for t in sym.walk(d) if t.k == 'call' and util.callee_name(t) == 'laplacian']
  if chk.check(len(set(lap)) == 1, rule, f'{site}: one Laplacian in the divergence tendency', '', loc):
    inner = util.call_args(lap[0])[0]
    Rr = Bq.name(lambda t: t.k == 'attr' and t.a[1] in ('ideal_gas_constant', 'R') and sym.contains(t, lambda z: z.k == 'attr' and z.a[1] == 'physics_specs'), 'R')
    Tr = Bq.name(is_tref, 'Tref')
    want = Bq.atom(gd[0]) + Rr * Tr * Bq.conv(A_(st, 'log_surface_pressure')) if gd else None
    chk.check(gd and alg.equal(Bq.conv(inner), want), rule, f'{site}: ∇² acts on G·T′ + R·T_ref·ln pₛ (T_ref enters linearly, once, multiplied by the specs gas constant)',
              sym.show(inner, maxdepth=4)[:200], loc, 'G(T′) + R*T_ref*lnps', str(Bq.conv(inner))[:200])
  t_ = util.field(v, 'temperature_variation')
  okt = t_.k == 'call' and util.callee_name(t_) == 'get_temperature_implicit'
  if chk.check(okt, rule, f'{site}: the temperature tendency is the H operator applied to the divergence', sym.show(t_, maxdepth=2)[:160], loc):
    b = ev.bind_args(prog.func(f'{PE}.get_temperature_implicit'), list(t_.a[1]), list(t_.a[2]), None, None)
    ok = (b is not None and b['divergence'] == A_(st, 'divergence') and sym.show(b['reference_temperature']).endswith('.reference_temperature')
          and sym.show(b['kappa']).endswith('physics_specs.kappa') and sym.show(b['coordinates']).endswith('coords.vertical'))
    chk.check(ok, rule, f'{site}: H is built with this equation\'s reference_temperature, physics_specs.kappa and vertical levels', str({k_: sym.show(x)[-50:] for k_, x in (b or {}).items()}), loc)
  p_ = util.field(v, 'log_surface_pressure')
  chk.check(not uses(p_, is_tref) and not uses(util.field(v, 'vorticity'), is_tref), rule, f'{site}: ln pₛ and vorticity tendencies do not involve T_ref', '', loc)
  # constants on the explicit half
  for cname in ('PrimitiveEquations', 'MoistPrimitiveEquations'):
    c2 = prog.cls(f'{PE}.{cname}')
    ev2, f2, v2, _, _ = c05.evaluate(prog, c2, 'nodal_temperature_adiabatic_tendency')
    fs = match.plain_factors(v2)
    kap = [t for t in fs if t.k == 'attr' and t.a[1] == 'kappa']
    chk.check(len(kap) == 1 and sym.show(kap[0]).endswith('physics_specs.kappa') and len(fs) == 2, 'C04.3-same-constants', f'{PE}.{cname}.nodal_temperature_adiabatic_tendency: the explicit ω/p terms are multiplied by the same physics_specs.kappa that parametrises H',
              sym.show(v2, maxdepth=2)[:120], (f2.file, f2.lineno))
  ev3, f3, v3, _, _ = c05.evaluate(prog, prog.cls(f'{PE}.PrimitiveEquations'), 'curl_and_div_tendencies')
  Rs = {sym.show(t) for t in sym.walk(v3) if t.k == 'attr' and t.a[1] in ('ideal_gas_constant', 'R', 'R_vapor', 'water_vapor_gas_constant') and sym.contains(t, lambda z: z.k == 'attr' and z.a[1] == 'physics_specs')}
  chk.check(Rs == {'self:PrimitiveEquations.physics_specs.ideal_gas_constant'}, 'C04.3-same-constants', f'{PE}.PrimitiveEquations.curl_and_div_tendencies: the explicit R·T′·∇ln pₛ uses the same physics_specs gas constant as the implicit G and R·T_ref·ln pₛ',
            str(sorted(Rs)), (f3.file, f3.lineno))
  chk.at_least(rule, 6)
  chk.at_least('C04.3-same-constants', 3)


def rule_h_matrix(chk, prog):
  rule = 'C04.4-H-matrix-table'
  f = prog.func(f'{PE}.get_temperature_implicit_weights')
  ev = sym.Evaluator(prog, sym.Options(opaque=common.SIGMA_PROPS | {f'{PE}.get_sigma_ratios'}))
  v, ctx, env = ev.run(f)
  site, loc = f'{PE}.get_temperature_implicit_weights', (f.file, f.lineno)
  co, T, kap = S('coordinates'), S('reference_temperature'), S('kappa')
  nax = Term('ext', 'numpy.newaxis')
  bc = lambda t: Term('sub', t, Term('tuple', sym.const(Ellipsis), nax))
  L = A_(co, 'layers')
  th = A_(co, 'layer_thickness')
  call = lambda name, *a, **kw: Term('call', Term('ext', name), tuple(a), tuple(kw.items()))
  P = call('numpy.tril', call('numpy.ones', Term('list', L, L)))
  alpha_r = bc(Term('call', Term('func', f'dinosaur.{PE}.get_sigma_ratios'), (co,), ()))
  SHf = lambda X: Term('store', call('numpy.roll', X, sym.const(1), axis=sym.const(0)), sym.const(0), sym.const(0), '=')
  mul = lambda a, b: Term('bin', '*', a, b)
  add = lambda a, b: Term('bin', '+', a, b)
  subt = lambda a, b: Term('bin', '-', a, b)
  div = lambda a, b: Term('bin', '/', a, b)
  sl = lambda lo, hi: Term('slice', sym.const(lo) if lo is not None else sym.NONE, sym.const(hi) if hi is not None else sym.NONE, sym.NONE)
  pa = mul(P, alpha_r)
  h0 = div(mul(mul(kap, bc(T)), add(pa, SHf(pa))), bc(th))
  k0 = bc(call('numpy.concatenate', Term('tuple', div(call('numpy.diff', T), add(Term('sub', th, sl(None, -1)), Term('sub', th, sl(1, None)))), Term('list', sym.const(0))), axis=sym.const(0)))
  k1 = subt(P, bc(call('numpy.cumsum', th)))
  k = mul(k0, k1)
  ref = mul(subt(subt(h0, k), SHf(k)), th)
  A = alg.Algebra(ev, strip_index=False)
  got, want = A.conv(v), A.conv(ref)
  pieces = [
      ('h0', 'h0', h0, 'κ·T_r·(P·α_r + shift(P·α)_r)/Δσ_r'),
      ('k0', 'k0', k0, 'ΔT_r / (Δσ_r + Δσ_(r+1)), last row 0'),
      ('k1', 'k1', k1, 'P − cumsum(Δσ)_r'),
  ]
  # diagnostic decomposition (only when the function keeps such intermediates, under whatever names): each documented piece
  # that some local holds is reported on its own, which localises a mismatch of the whole
  locals_ = [x for n_, x in env.items() if isinstance(x, Term) and n_ not in f.param_names() and x.k in ('bin', 'sub', 'call', 'store')]
  for label, var, reft, doc in pieces:
    want_piece = A.conv(reft)
    hit = [x for x in locals_ if alg.equal(A.conv(x), want_piece)]
    if hit:
      chk.ok(rule, f'{site}: {label} = {doc}', sym.show(hit[0], maxdepth=6)[:200], hit[0].loc or loc)
  chk.check(alg.equal(got, want), rule, f'{site}: H = (h0 − K − shift(K)) · Δσ_s with K = k0·(P − cumsum(Δσ)) (documented formula, column s carries its layer thickness)',
            sym.show(v, maxdepth=4)[:200], loc, 'documented H', str(sp.simplify(got - want))[:200])
  conds = [sym.show(common_path(p)) for p, e, l in ctx.raises]
  chk.check(any('ndim' in c and 'layers' in c for c in conds), rule, f'{site}: rejects a reference temperature that is not a vector of length `layers`', str(conds)[:200], loc)
  chk.at_least(rule, 2)


def common_path(p):
  from sa import guards
  return guards.path_cond(p)


def rule_single_clip(chk, prog):
  before = len(chk.instances)
  c05.rule_no_intermediate_clip(chk, prog)
  for i in chk.instances[before:]:
    i['rule'] = 'C04.5-single-final-clip'
  chk.minimum.pop('C05.4-single-final-clip', None)
  chk.at_least('C04.5-single-final-clip', 8)


def rule_shortcut(chk, prog):
  rule = 'C04.6-shortcut-sound'
  for cname in ('PrimitiveEquations', 'MoistPrimitiveEquations'):
    cls = prog.cls(f'{PE}.{cname}')
    ev, f, v, ctx, env = c05.evaluate(prog, cls, 'nodal_temperature_vertical_tendency')
    site, loc = f'{PE}.{cname}.nodal_temperature_vertical_tendency', (f.file, f.lineno)
    phis = [t for t in sym.walk(v) if t.k == 'phi' and sym.contains(t.a[0], lambda z: match.is_ext_call(z, 'unique'))]
    ok = len(phis) >= 1
    for ph in phis:
      A = alg.Algebra(ev)
      diff = sp.simplify(A.conv(c05.flag_true(ph.a[1], 'include_vertical_advection')) - A.conv(c05.flag_true(ph.a[2], 'include_vertical_advection')))
      calls = [t for t in sym.walk(ph.a[1]) if t.k == 'call' and util.callee_name(t) == '_vertical_tendency']
      tref_calls = [c for c in calls if sym.contains(util.call_args(c)[1], lambda z: z.k == 'attr' and z.a[1] in ('T_ref', 'reference_temperature'))]
      ok = ok and len(tref_calls) == 1 and alg.equal(diff, A.conv(tref_calls[0]))
      c = ph.a[0]
      ok = ok and c.k == 'cmp' and c.a[0] == ('>',) and c.a[1][1] == sym.const(1) and sym.contains(c.a[1][0], lambda z: z.k == 'attr' and z.a[1] == 'size')
    chk.check(ok, rule, f'{site}: the uniform-T_ref shortcut drops exactly the advection of T_ref (which vanishes for a constant profile: zero centred differences)',
              sym.show(phis[0].a[0]) if phis else 'no shortcut', loc)
  chk.at_least(rule, 2)


def tracer_keys(t):
  """Names of the tracers read below a term (`….tracers['name']`)."""
  out = set()
  for x in sym.walk(t):
    if x.k == 'sub' and x.a[1].k == 'const' and isinstance(x.a[1].a[0], str) and x.a[0].k == 'attr' and x.a[0].a[1] == 'tracers':
      out.add(x.a[1].a[0])
  return out


def rule_virtual_temperature(chk, prog):
  """The tracers that load the virtual temperature of the temperature variation (R·T′·(1 + …)) must be the tracers of the
  reference-temperature corrections (the T_ref·(…)·∇ln pₛ terms of *_tendency_due_to_humidity): a loading applied to T′ only
  makes explicit + implicit depend on how T is split into T_ref + T′."""
  rule = 'C04.7-virtual-temperature-loading'
  for cname in ('MoistPrimitiveEquations', 'MoistPrimitiveEquationsWithCloudMoisture'):
    cls = prog.cls(f'{PE}.{cname}')
    ev = sym.Evaluator(prog, sym.Options(opaque=c11.EXPL_OPAQUE - {f'{PE}.{c}.{m}' for c in ('MoistPrimitiveEquations', 'MoistPrimitiveEquationsWithCloudMoisture', 'PrimitiveEquations')
                                                                   for m in ('_virtual_temperature', '_get_specific_humidity', '_get_cloud_water', '_get_cloud_ice', '_reference_cloud_loading_terms')},
                                         max_depth=6))
    f = cls.find_method('curl_and_div_tendencies')
    v, _, _ = ev.run(f, self_cls=cls)
    site, loc = f'{PE}.{cname}', (cls.file, cls.lineno)
    # factors that multiply temperature_variation · ∇ln pₛ in the momentum forcing
    prods = [t for t in sym.walk(v) if t.k == 'bin' and t.a[0] == '*' and sym.contains(t, lambda z: z.k == 'attr' and z.a[1] == 'temperature_variation')
             and sym.contains(t, lambda z: z.k == 'attr' and z.a[1] == 'cos_lat_grad_log_sp')]
    chk.require(bool(prods), f'{site}.curl_and_div_tendencies: no T′·∇ln pₛ product found')
    load_tv = set()
    for pterm in prods:
      load_tv |= tracer_keys(pterm)
    refs = {}
    for m in ('vorticity_tendency_due_to_humidity', 'divergence_tendency_due_to_humidity'):
      g = cls.find_method(m)
      gv, _, _ = ev.run(g, self_cls=cls)
      # tracers that occur in a product with the reference temperature
      keys = set()
      for t in sym.walk(gv):
        if t.k == 'bin' and t.a[0] == '*' and sym.contains(t, lambda z: z.k == 'attr' and z.a[1] in ('T_ref', 'reference_temperature')):
          keys |= tracer_keys(t)
      refs[m] = keys
    for m, keys in refs.items():
      chk.check(keys == load_tv, rule, f'{site}.{m}: the T_ref part of the pressure-gradient force is loaded by the same tracers as the T′ part',
                f'T′ part: {sorted(load_tv)}; T_ref part: {sorted(keys)}', loc, str(sorted(load_tv)), str(sorted(keys)))
  chk.at_least(rule, 4)


def rule_loading_coefficients(chk, prog):
  """The pressure-gradient force is −R·T_v·∇ln pₛ with T_v = (T_ref + T′)·(1 + Σ c_X·X).  The T′ part carries the loading
  factors c_X inside `_virtual_temperature`; the T_ref part is carried by *_tendency_due_to_humidity as
  R·T_ref·c_X·(curl | div)(X ∇ln pₛ).  Both halves must use the same c_X (value and sign) for every loading tracer X —
  otherwise the sum depends on the split.  c_X is read off the virtual temperature and compared as normal forms."""
  rule = 'C04.8-loading-coefficients'
  GR = 'spherical_harmonic.Grid.'
  keep = ('_virtual_temperature', '_get_specific_humidity', '_get_cloud_water', '_get_cloud_ice', '_reference_cloud_loading_terms', 'vorticity_tendency_due_to_humidity',
          'divergence_tendency_due_to_humidity')
  classes = ('MoistPrimitiveEquations', 'MoistPrimitiveEquationsWithCloudMoisture')
  opaque = (c11.EXPL_OPAQUE - {f'{PE}.{c}.{m}' for c in classes + ('PrimitiveEquations',) for m in keep}) | {GR + n for n in ('to_nodal', 'to_modal', 'laplacian', 'cos_lat_grad')} | {f'{PE}.get_geopotential_diff'}
  is_tr = lambda holder: (lambda t: t.k == 'sub' and t.a[1].k == 'const' and isinstance(t.a[1].a[0], str) and t.a[0].k == 'attr' and t.a[0].a[1] == 'tracers' and t.a[0].a[0] == holder)
  for cname in classes:
    cls = prog.cls(f'{PE}.{cname}')
    ev = sym.Evaluator(prog, sym.Options(opaque=opaque, max_depth=6))
    site, loc = f'{PE}.{cname}', (cls.file, cls.lineno)
    # (a) loading coefficients from the T′ half
    f = cls.find_method('curl_and_div_tendencies')
    v, _, _ = ev.run(f, self_cls=cls)
    aux = S(f.param_names()[1])
    prods = [t for t in sym.walk(v) if t.k == 'bin' and t.a[0] == '*' and sym.contains(t, lambda z: z.k == 'attr' and z.a[1] == 'temperature_variation')
             and not sym.contains(t, lambda z: z.k == 'attr' and z.a[1] == 'cos_lat_grad_log_sp') and sym.contains(t, is_tr(aux))]
    chk.require(bool(prods), f'{site}.curl_and_div_tendencies: virtual temperature product not found')
    rtv = max(prods, key=lambda t: len(sym.show(t, maxdepth=30)))
    A = alg.Algebra(ev)
    Rs = A.name(lambda t: t.k == 'attr' and t.a[1] in ('R', 'ideal_gas_constant') and sym.show(t.a[0]).endswith('physics_specs'), 'R', positive=True)
    Rv = A.name(lambda t: t.k == 'attr' and t.a[1] in ('R_vapor', 'water_vapor_gas_constant') and sym.show(t.a[0]).endswith('physics_specs'), 'Rv', positive=True)
    Tp = A.name(lambda t: t.k == 'attr' and t.a[1] == 'temperature_variation', 'Tprime')
    names = sorted(tracer_keys(rtv))
    atoms = {n_: A.name((lambda n_: lambda t: is_tr(aux)(t) and t.a[1].a[0] == n_)(n_), 'X_' + n_.split('_')[1 if n_.startswith('specific_cloud') else -1] + str(i)) for i, n_ in enumerate(names)}
    e = sp.expand(sp.cancel(A.conv(rtv) / (Rs * Tp)))
    res = alg.linear_coeffs(e, [atoms[n_] for n_ in names])
    if not chk.check(res is not None and alg.equal(res[1], 1), rule, f'{site}._virtual_temperature: R·T′·(1 + Σ c_X·X) — affine in the loading tracers with constant term 1', str(e), loc):
      continue
    cX = dict(zip(names, res[0]))
    # (b) the T_ref half: nodal arguments of the to_modal calls of the two corrections
    Tref = lambda B: B.name(lambda t: t.k == 'attr' and t.a[1] in ('T_ref', 'reference_temperature'), 'Tref')
    for m, part in (('vorticity_tendency_due_to_humidity', 'curl'), ('divergence_tendency_due_to_humidity', 'div')):
      g = cls.find_method(m)
      gv, _, _ = ev.run(g, self_cls=cls)
      st, ax = S(g.param_names()[1]), S(g.param_names()[2])
      B = alg.Algebra(ev)
      R2 = B.name(lambda t: t.k == 'attr' and t.a[1] in ('R', 'ideal_gas_constant') and sym.show(t.a[0]).endswith('physics_specs'), 'R', positive=True)
      Rv2 = B.name(lambda t: t.k == 'attr' and t.a[1] in ('R_vapor', 'water_vapor_gas_constant') and sym.show(t.a[0]).endswith('physics_specs'), 'Rv', positive=True)
      T2 = Tref(B)
      sec2 = B.name(lambda t: t.k == 'attr' and t.a[1] == 'sec2_lat', 'sec2', positive=True)
      # to_modal is linear: the value is Σ ± to_modal(arg) (+ the geopotential part, which carries no ∇ln pₛ)
      tm = B.name(lambda t: False, 'unused')
      calls = [t for t in sym.walk(gv) if t.k == 'call' and util.callee_name(t) == 'to_modal' and sym.contains(t, lambda z: z.k == 'attr' and z.a[1] == 'cos_lat_grad_log_sp')]
      chk.require(bool(calls), f'{site}.{m}: no to_modal(… ∇ln pₛ …) term found')
      C = alg.Algebra(ev, opaque=lambda t: t in calls)
      C.named = list(B.named)
      whole = sp.expand(C.conv(gv))
      nodal = sp.Integer(0)
      okl = True
      for cterm in set(calls):
        at = C.atom(cterm)
        co = whole.coeff(at, 1)
        okl = okl and co.is_number
        nodal = nodal + co * B.conv(util.call_args(cterm)[0])
      chk.check(okl, rule, f'{site}.{m}: the ∇ln pₛ corrections enter through to_modal with constant weights', str(whole)[:160], (g.file, g.lineno))
      L = [B.conv(Term('sub', Term('attr', ax, 'cos_lat_grad_log_sp'), sym.const(i))) for i in (0, 1)]
      lap = [t for t in sym.walk(gv) if t.k == 'call' and util.callee_name(t) == 'to_nodal' and util.call_args(t) and util.callee_name(util.call_args(t)[0]) == 'laplacian']
      LAP = B.conv(lap[0]) if lap else sp.Integer(0)
      want = sp.Integer(0)
      grads = {t for t in sym.walk(gv) if t.k == 'call' and util.callee_name(t) == 'to_nodal' and util.call_args(t) and util.callee_name(util.call_args(t)[0]) == 'cos_lat_grad'
               and sym.contains(t, lambda z: z.k == 'attr' and z.a[1] == 'tracers')}
      groups = {}
      for gt in grads:
        keys = frozenset(tracer_keys(gt))
        groups[keys] = gt
      covered = set()
      for keys, gt in groups.items():
        cs = {sp.simplify(cX.get(k_, sp.nan)) for k_ in keys}
        if len(cs) != 1:
          chk.violation(rule, f'{site}.{m}: tracers {sorted(keys)} are differentiated together', 'they share one gradient but load the virtual temperature with different coefficients', (g.file, g.lineno))
          continue
        c_ = list(cs)[0]
        covered |= set(keys)
        GX = [B.conv(Term('sub', gt, sym.const(i))) for i in (0, 1)]
        XN = sum(B.conv(Term('sub', Term('attr', ax, 'tracers'), sym.const(k_))) for k_ in sorted(keys))
        if part == 'curl':
          want = want + R2 * T2 * c_ * sec2 * (L[0] * GX[1] - L[1] * GX[0])
        else:
          want = want - R2 * T2 * c_ * (XN * LAP + sec2 * (GX[0] * L[0] + GX[1] * L[1]))
      chk.check(covered == set(names), rule, f'{site}.{m}: every tracer that loads the virtual temperature has a T_ref term', f'{sorted(covered)} vs {sorted(names)}', (g.file, g.lineno))
      got = sp.expand(nodal.subs(Rv2, Rv2))
      chk.check(alg.equal(got, want), rule, f'{site}.{m}: the T_ref half is R·T_ref·c_X·{"(∇ln pₛ × ∇X)·sec²" if part == "curl" else "−(X ∆ln pₛ + ∇X·∇ln pₛ·sec²)"} with the c_X of the virtual temperature '
                '(' + ', '.join(k_.split('_', 1)[1][:12] + ': ' + str(sp.simplify(v_)) for k_, v_ in cX.items()) + ')', str(sp.factor(got))[:200], (g.file, g.lineno), str(sp.factor(want))[:200], str(sp.factor(got))[:200])
  chk.at_least(rule, 8)


def rule_default_advection(chk, prog):
  """The equation classes take the centred stencil as their default vertical advection (the one H is written for)."""
  import ast as _ast
  rule = 'C04.9-explicit-stencil-matches-H'
  cls = prog.cls(f'{PE}.PrimitiveEquations')
  d = [dv for n, _, dv in cls.fields if n == 'vertical_advection']
  chk.require(bool(d), f'{PE}.PrimitiveEquations: field vertical_advection not found')
  txt = _ast.unparse(d[0]) if d[0] is not None else 'None'
  chk.check(txt.split('.')[-1] == 'centered_vertical_advection', rule,
            f'{PE}.PrimitiveEquations.vertical_advection defaults to the centred stencil (the discretisation the implicit H matrix is derived from)', txt, (cls.file, cls.lineno))


def rule_explicit_half(chk, prog):
  """C04.10: the explicit halves that H and the implicit pressure-gradient term are the counterparts of — the ω/p stencil applied to T_ref and T′
  (α-weighted layer and the layer above, zero above the top layer: H is derived from exactly this form) and the explicit R·T′·∇ln pₛ force on
  every configuration branch (its T_ref share is always applied implicitly).  The form rules are those of C05.2 (instances re-filed here)."""
  from sa import report
  from rules import c05
  rule = 'C04.10-explicit-counterparts-of-the-implicit-terms'
  probe = report.Check('C04-probe')
  c05.rule_terms(probe, prog)
  keep = [i for i in probe.instances if '_t_omega_over_sigma_sp' in i['key'] or 'curl_and_div_tendencies' in i['key']]
  if len(keep) < 6:
    raise AnalysisError(f'C04: the ω/p and pressure-gradient instances of C05.2 were not produced ({len(keep)})')
  for i in keep:
    i = dict(i, rule=rule)
    chk.instances.append(i)
    if i['status'] != 'holds':
      chk.violations.append(i)
  chk.at_least(rule, 6)


def run(chk, prog, tier):
  rule_explicit_half(chk, prog)
  rule_loading_coefficients(chk, prog)
  rule_virtual_temperature(chk, prog)
  rule_pairing(chk, prog)
  rule_implicit_side(chk, prog)
  rule_h_matrix(chk, prog)
  rule_single_clip(chk, prog)
  rule_shortcut(chk, prog)
  # sibling: the explicit centred advection applied to T_ref must be the stencil that the H matrix hard-codes (plain two-interface average of
  # σ̇·Δ(T_ref)/Δσ with zero boundary fluxes, C04.5) — any other explicit stencil leaves a T_ref-dependent remainder on non-uniform levels
  from rules import c13 as _c13
  _c13.rule_advection(chk, prog, rule='C04.9-explicit-stencil-matches-H', centred_only=True)
  rule_default_advection(chk, prog)
  chk.assume('the explicit centred advection and ω/p stencils are the ones decided under C13 / C05',
             'numpy roll / tril / cumsum / diff / concatenate semantics')
  return dict(
      explanation=('The temperature-tendency methods of the dry and moist classes are abstractly interpreted with the ω/p and vertical-advection helpers opaque; every '
                   'call site\'s temperature argument is classified by the sources it depends on (T_ref only vs. temperature variation / tracers) and its flow argument by '
                   'dependence on the divergence; implicit_terms is checked for where T_ref and T′ may enter; the H matrix builder is compared as a normal form with '
                   'a reference term written from the documented formula, keeping row and column broadcasts distinct; spectral-operator call sites are checked for '
                   'clip=False. Not decided: numerical equality of explicit+implicit for two reference profiles.'),
      trusted_base=['python ast', 'sympy canonicalisation', 'documented H-matrix formula (Durran §8.6.5)'],
      analysed=dict(functions=[f'{PE}.PrimitiveEquations.nodal_temperature_adiabatic_tendency', f'{PE}.PrimitiveEquations.nodal_temperature_vertical_tendency',
                               f'{PE}.MoistPrimitiveEquations.nodal_temperature_adiabatic_tendency', f'{PE}.PrimitiveEquations.implicit_terms', f'{PE}.get_temperature_implicit_weights']),
  )
