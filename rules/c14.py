"""C14 — stepping / scan combinators equal their sequential definition."""
from __future__ import annotations

import sympy as sp

from sa import alg, guards, sym, util
from sa.model import AnalysisError
from sa.sym import Term

TI = 'time_integration'

CLAIM = dict(
    text=('Decides the index, ordering and wiring facts in which off-by-one errors of the combinators live: trajectory_from_step returns the stepped carry and emits '
          'the incoming carry iff start_with_input else the outgoing one, through post_process_fn, scanning exactly outer_steps times over a step repeated '
          'inner_steps times; repeated scans `steps` times and threads the carry; step_with_filters applies the filters in the given order to (original input, '
          'running output) and no closure built in a loop in time_integration.py reads a loop-rebound variable late (python late binding would apply only the last filter); the nested checkpointed scan has base case len==1, recurses on lengths[1:] with the same f/scan/checkpoint, scans lengths[0] per '
          'level, returns (carry, concatenated outputs) and rejects inconsistent lengths; accumulate_repeated steps before accumulating from a zero accumulator '
          'and returns the accumulator; digital_filter_initialization normalises the initial weight and both weight vectors by the same total = 1 + (number of '
          'accumulated branches)·Σw and runs the backward branch on the time-reversed equation with the same filters and dt; TimeReversedImExODE negates both '
          'tendencies and the solve step. Also decided: configuration shortcuts of trajectory_from_step (arms that bypass the outer scan) still select their frames by start_with_input. Does not decide numerical equality with a Python loop or of gradients.'
          " Later additions: C14.6 also decides the Lanczos weights (window sinc(n/(N+1)) × low-pass sinc(n·span/(τc·N)), n = 1…N, N rounded) against Lynch & Huang's formula; C14.9 shared arrays."),
    note=('Trusted: lax.scan semantics (carry threading, stacked outputs, `length`), jax.tree_util.tree_map leaf-wise application, jax.checkpoint being value-'
          'transparent. Roles are identified by data flow (parameter positions, call results), not by variable names.'),
    technique='abstract interpretation of the closures to terms + structural matching of scan wiring, guard folding',
)


def sym_(n):
  return Term('sym', n)


def strip_int(t):
  """Accepts `p` or identity wrappers int(p)."""
  if t.k == 'call' and t.a[0].k == 'ext' and t.a[0].a[0] == 'int' and len(t.a[1]) == 1:
    return t.a[1][0]
  return t


def scan_call(t):
  """(callee, f, init, xs, length) of a scan-like call term."""
  if t.k != 'call':
    return None
  args = list(t.a[1])
  kw = util.call_kwargs(t)
  f = args[0] if len(args) > 0 else kw.get('f')
  init = args[1] if len(args) > 1 else kw.get('init')
  xs = args[2] if len(args) > 2 else kw.get('xs')
  length = args[3] if len(args) > 3 else kw.get('length')
  return t.a[0], f, init, xs, length


def rule_trajectory(chk, prog):
  rule = 'C14.1-trajectory'
  site = f'{TI}.trajectory_from_step'
  ev = sym.Evaluator(prog, sym.Options(opaque={f'{TI}.repeated'}))
  f = prog.func(site)
  v, ctx, env = ev.run(f)
  loc = (f.file, f.lineno)
  multi, _, menv = util.inner(ev, v, site)
  # configuration shortcuts (e.g. `if outer_steps == 1: …`) are separate arms of the value: the main arm must be the
  # outer scan, every other arm must still let the emitted frames depend on `start_with_input` (a necessary condition:
  # for a step that changes the state, frame k differs between the two modes for every k)
  def arms_of(t, cond=()):
    if t.k == 'phi':
      return arms_of(t.a[1], cond + (sym.show(t.a[0], maxdepth=3),)) + arms_of(t.a[2], cond + ('not ' + sym.show(t.a[0], maxdepth=3),))
    return [(cond, t)]
  arms = arms_of(multi)
  scans = [(c, a) for c, a in arms if scan_call(a) is not None and scan_call(a)[0] == sym_('outer_scan_fn')]
  for c, a in arms:
    if (c, a) in scans:
      continue
    frames = a.a[1] if a.k == 'tuple' and len(a.a) == 2 else a
    dep = sym.contains(frames, lambda t: t == sym_('start_with_input'))
    chk.check(dep, rule, f'{site}: the shortcut taken when {" and ".join(c) or "always"} still selects its frames by `start_with_input`',
              sym.show(frames, maxdepth=4)[:200], a.loc or loc, 'frames depend on start_with_input (incoming state first, or outgoing state)', sym.show(frames, maxdepth=4)[:200])
  chk.require(len(scans) >= 1, f'{site}: no configuration of multistep is a call of outer_scan_fn: {sym.show(multi)[:120]}')
  multi = scans[-1][1]
  sc = scan_call(multi)
  callee, stepf, init, xs, length = sc
  mfi, _ = ev.get_func(v)
  chk.check(init == sym_(mfi.param_names()[0]), rule, f'{site}: the outer scan starts from the given state', sym.show(init), multi.loc or loc)
  chk.check(length is not None and strip_int(length) == sym_('outer_steps'), rule, f'{site}: the outer scan runs exactly outer_steps times',
            sym.show(length) if length is not None else 'missing', multi.loc or loc, 'outer_steps', sym.show(length) if length is not None else 'missing')
  chk.check(xs is None or xs == sym.NONE, rule, f'{site}: the outer scan has no scanned input', sym.show(xs) if xs is not None else 'None', multi.loc or loc)
  body, bctx, benv = util.inner(ev, stepf, site + '.step')
  sfi, _ = ev.get_func(stepf)
  carry_in = sym_(sfi.param_names()[0])
  if not chk.check(body.k == 'tuple' and len(body.a) == 2, rule, f'{site}: scan body returns (carry, frame)', sym.show(body)[:200], body.loc or loc):
    return
  carry_out, frame = body.a
  # carry_out = S(carry_in) with S ∈ {step_fn, repeated(step_fn, inner_steps, inner_scan_fn)}
  def step_apps(t):
    """decompose φ-tree of applications S(carry_in) → list of (cond, callee)"""
    if t.k == 'phi':
      return step_apps(t.a[1]) + step_apps(t.a[2])
    if t.k == 'call' and list(t.a[1]) == [carry_in] and not t.a[2]:
      return [t.a[0]]
    return [None]
  apps = step_apps(carry_out)
  ok = all(a is not None for a in apps)
  plain = [a for a in apps if a == sym_('step_fn')]
  rep = [a for a in apps if a is not None and a.k == 'call' and util.callee_name(a) == 'repeated']
  ok = ok and len(plain) + len(rep) == len(apps) and len(rep) >= 1
  chk.check(ok, rule, f'{site}: the new carry is the (repeated) step function applied to the incoming carry', sym.show(carry_out)[:240], carry_out.loc or loc,
            'repeated(step_fn, inner_steps, …)(carry_in) [or step_fn(carry_in) when inner_steps == 1]', sym.show(carry_out)[:240])
  for r in rep:
    b = ev.bind_args(prog.func(f'{TI}.repeated'), list(r.a[1]), list(r.a[2]), None, None)
    good = b is not None and b['fn'] == sym_('step_fn') and strip_int(b['steps']) == sym_('inner_steps')
    chk.check(good, rule, f'{site}: repeated() receives step_fn and inner_steps', sym.show(r)[:200], r.loc or loc, 'repeated(step_fn, inner_steps, inner_scan_fn)', sym.show(r)[:200])
    if b is not None:
      chk.check(b['scan_fn'] == sym_('inner_scan_fn'), rule, f'{site}: the inner repeat uses inner_scan_fn', sym.show(b['scan_fn']), r.loc or loc)
  if carry_out.k == 'phi':
    c = carry_out.a[0]
    conds_ok = c.k == 'cmp' and len(c.a[0]) == 1 and set(map(sym.show, c.a[1])) == {'inner_steps', '1'} and c.a[0][0] in ('!=', '>', '==')
    chk.check(conds_ok, rule, f'{site}: the un-repeated step is used only when inner_steps is 1', sym.show(c), c.loc or loc)
  # frame
  good = frame.k == 'call' and frame.a[0] == sym_('post_process_fn') and len(frame.a[1]) == 1
  if chk.check(good, rule, f'{site}: the emitted frame goes through post_process_fn', sym.show(frame)[:200], frame.loc or loc):
    fr = frame.a[1][0]
    ok = fr.k == 'phi' and fr.a[0] == sym_('start_with_input') and fr.a[1] == carry_in and fr.a[2] == carry_out
    chk.check(ok, rule, f'{site}: frame = incoming carry if start_with_input else outgoing carry', sym.show(fr)[:240], fr.loc or loc,
              'φ(start_with_input ? carry_in : carry_out)', sym.show(fr)[:240])
  chk.at_least(rule, 8)


def rule_repeated(chk, prog):
  rule = 'C14.2-repeated'
  site = f'{TI}.repeated'
  ev = sym.Evaluator(prog)
  f = prog.func(site)
  v, ctx, env = ev.run(f)
  loc = (f.file, f.lineno)
  arms = [v]
  if v.k == 'phi':
    c = v.a[0]
    ok = c.k == 'cmp' and c.a[0] == ('==',) and set(map(sym.show, c.a[1])) == {'steps', '1'} and v.a[1] == sym_('fn')
    chk.check(ok, rule, f'{site}: returns fn itself only when steps == 1', sym.show(v)[:160], loc, 'φ(steps == 1 ? fn : scan)', sym.show(v)[:160])
    arms = [v.a[2]]
  lam = arms[0]
  fi, _ = ev.get_func(lam)
  chk.require(fi is not None, f'{site}: the general branch is not a function: {sym.show(lam)}')
  body, _, _ = util.inner(ev, lam, site)
  x0 = sym_(fi.param_names()[0])
  good = body.k == 'sub' and body.a[1] == sym.const(0) and scan_call(body.a[0]) is not None
  if not chk.check(good, rule, f'{site}: returns the final carry of a scan', sym.show(body)[:200], body.loc or loc):
    return
  callee, g, init, xs, length = scan_call(body.a[0])
  chk.check(callee == sym_('scan_fn'), rule, f'{site}: scans with the given scan_fn', sym.show(callee), loc)
  chk.check(init == x0, rule, f'{site}: the scan starts from the input state', sym.show(init), loc)
  chk.check(length is not None and strip_int(length) == sym_('steps'), rule, f'{site}: the scan has length `steps`', sym.show(length) if length is not None else 'missing', loc,
            'steps', sym.show(length) if length is not None else 'missing')
  gb, _, _ = util.inner(ev, g, site + '.g')
  gfi, _ = ev.get_func(g)
  gx = sym_(gfi.param_names()[0])
  ok = gb.k == 'tuple' and len(gb.a) == 2 and gb.a[0] == sym.mk_call(sym_('fn'), [gx]) and gb.a[1] == sym.NONE
  chk.check(ok, rule, f'{site}: each scan iteration applies fn once to the carry and emits nothing', sym.show(gb), gb.loc or loc, '(fn(x), None)', sym.show(gb))
  chk.at_least(rule, 5)


def rule_closure_binding(chk, prog):
  """Closures built in a loop over filters / stages must not read the loop variable late."""
  import ast, os
  from sa import closures
  rule = 'C14.8-closure-binding'
  fx = os.path.join(os.path.dirname(os.path.dirname(os.path.abspath(__file__))), 'fixtures', 'closures_fixture', 'fixture.py')
  tree = ast.parse(open(fx).read())
  got = {f.name: len(closures.late_bound(f)) for f in tree.body if isinstance(f, ast.FunctionDef)}
  if got != {'compose_bad': 1, 'compose_good': 0, 'consume_now': 0, 'store_bad': 1}:
    raise AnalysisError(f'closure-binding fixture no longer matches: {got}')
  chk.ok(rule, 'fixture fixtures/closures_fixture: late-bound loop closures are reported, value-bound and immediately consumed ones are not', str(got))
  mod = prog.module(TI)
  nf = 0
  for f in ast.walk(mod.tree):
    if not isinstance(f, ast.FunctionDef):
      continue
    nf += 1
    for n, var, esc in closures.late_bound(f):
      chk.violation(rule, f'{TI}.{f.name}: closure created in a loop reads `{var}` late', f'the closure is {esc}, so every instance sees the last value of `{var}` '
                    '(e.g. only the last filter is applied, several times)', (mod.relpath, n.lineno), 'bind the value (default argument / partial) or call inside the iteration', ast.unparse(n)[:160])
  chk.ok(rule, f'{TI}: no escaping closure in a loop reads a loop-rebound variable', f'{nf} function definitions scanned')


def rule_step_with_filters(chk, prog):
  rule = 'C14.3-filter-order'
  site = f'{TI}.step_with_filters'
  ev = sym.Evaluator(prog)
  f = prog.func(site)
  v, _, _ = ev.run(f)
  loc = (f.file, f.lineno)
  body, _, _ = util.inner(ev, v, site)
  fi, _ = ev.get_func(v)
  u = sym_(fi.param_names()[0])
  if not chk.check(body.k == 'loop', rule, f'{site}: the result is the running output of a loop over the filters', sym.show(body)[:200], body.loc or loc):
    return
  name, init, step, lv, uid = body.a
  chk.check(init == sym.mk_call(sym_('step_fn'), [u]), rule, f'{site}: the running output starts as step_fn(u)', sym.show(init), loc, 'step_fn(u)', sym.show(init))
  chk.check(lv.a[1] == sym_('filters'), rule, f'{site}: filters are applied in the given order (no reversal / slicing)', sym.show(lv.a[1]), lv.loc or loc, 'filters', sym.show(lv.a[1]))
  car = Term('carried', name, uid)
  ok = step.k == 'call' and step.a[0] == lv and list(step.a[1]) == [u, car] and not step.a[2]
  chk.check(ok, rule, f'{site}: each filter receives (original input, running output) and its result becomes the running output', sym.show(step), step.loc or loc,
            'filter_fn(u, u_next)', sym.show(step))
  chk.at_least(rule, 4)


def rule_nested_scan(chk, prog):
  rule = 'C14.4-nested-scan'
  site = f'{TI}._inner_nested_scan'
  ev = sym.Evaluator(prog)
  f = prog.func(site)
  v, ctx, env = ev.run(f)
  loc = (f.file, f.lineno)
  P = {n: sym_(n) for n in f.param_names()}
  pn = f.param_names()
  chk.require(len(pn) >= 6, f'{site}: signature changed: {pn}')
  fP, initP, xsP, lenP, scanP, ckP = [P[n] for n in pn[:6]]   # further (optional) parameters do not concern the recursion
  if not chk.check(v.k == 'phi', rule, f'{site}: has a base case and a recursive case', sym.show(v)[:200], loc):
    return
  c, base, rec = v.a
  ok = c.k == 'cmp' and c.a[0] == ('==',) and set(map(sym.show, c.a[1])) == {f'len({pn[3]})', '1'}
  chk.check(ok, rule, f'{site}: base case is len(lengths) == 1', sym.show(c), loc, 'len(lengths) == 1', sym.show(c))
  sc = scan_call(base)
  ok = sc is not None and sc[0] == scanP and sc[1] == fP and sc[2] == initP and sc[3] == xsP and sc[4] == Term('sub', lenP, sym.const(0))
  chk.check(ok, rule, f'{site}: base case is scan_fn(f, init, xs, lengths[0])', sym.show(base), loc, 'scan_fn(f, init, xs, lengths[0])', sym.show(base))
  ok = rec.k == 'tuple' and len(rec.a) == 2
  if not chk.check(ok, rule, f'{site}: recursive case returns (carry, stacked outputs)', sym.show(rec)[:200], loc):
    return
  carry, out = rec.a
  ok = carry.k == 'sub' and carry.a[1] == sym.const(0) and scan_call(carry.a[0]) is not None
  if not chk.check(ok, rule, f'{site}: the carry is element 0 of the level scan', sym.show(carry)[:200], loc):
    return
  level = carry.a[0]
  callee, subf, init, xs, length = scan_call(level)
  chk.check(callee == scanP and init == initP and xs == xsP and length == Term('sub', lenP, sym.const(0)), rule,
            f'{site}: each level scans lengths[0] steps over xs from init with scan_fn', sym.show(level)[:200], loc, 'scan_fn(sub_scans, init, xs, lengths[0])', sym.show(level)[:200])
  ok = out.k == 'call' and alg.ext_short(out.a[0]) == 'concatenate' and list(out.a[1]) == [Term('sub', level, sym.const(1))] and (not out.a[2] or util.call_kwargs(out).get('axis') == sym.const(0))
  chk.check(ok, rule, f'{site}: the outputs of the level scan are concatenated along the leading axis', sym.show(out)[:200], loc, 'concatenate(scan(...)[1])', sym.show(out)[:200])
  ok = subf.k == 'call' and subf.a[0] == ckP and len(subf.a[1]) == 1 and subf.a[1][0].k == 'lambda'
  if chk.check(ok, rule, f'{site}: the scanned function is checkpoint_fn(sub_scans)', sym.show(subf), loc):
    lam = subf.a[1][0]
    ev.opt.opaque.add(f.qualname)  # the recursive call stays a call node
    sb, _, _ = util.inner(ev, lam, site + '.sub_scans')
    lfi, _ = ev.get_func(lam)
    lp = [sym_(n) for n in lfi.param_names()]
    want_args = [fP, lp[0], lp[1], Term('sub', lenP, Term('slice', sym.const(1), sym.NONE, sym.NONE)), scanP, ckP]
    got = ev.bind_args(f, list(sb.a[1]), list(sb.a[2]), None, None) if sb.k == 'call' and util.callee_qual(sb).endswith('_inner_nested_scan') else None
    ok = got is not None and [got[n] for n in pn[:6]] == want_args
    chk.check(ok, rule, f'{site}: sub_scans(carry, xs) recurses on lengths[1:] with the same f, scan_fn, checkpoint_fn and its own carry/xs (well-founded, length-preserving)',
              sym.show(sb)[:240], sb.loc or loc, '_inner_nested_scan(f, carry, xs, lengths[1:], scan_fn, checkpoint_fn)', sym.show(sb)[:240])
    # closure capture: only f, lengths, scan_fn, checkpoint_fn from the outer scope (nothing traced)
  # entry point
  site2 = f'{TI}.nested_checkpoint_scan'
  ev2 = sym.Evaluator(prog, sym.Options(opaque={f'{TI}._inner_nested_scan'}))
  g = prog.func(site2)
  v2, ctx2, env2 = ev2.run(g)
  loc2 = (g.file, g.lineno)
  cond = guards.path_cond(ctx2.raises[0][0]) if ctx2.raises else None
  if chk.check(cond is not None, rule, f'{site2}: inconsistent length / nested_lengths raise', 'no raise found' if cond is None else sym.show(cond), loc2):
    # fold the guard over length ∈ {None, 4, 6}, prod ∈ {4, 6}
    prod_atoms = [t for t in sym.walk(cond) if t.k == 'call' and t.a[0].k == 'ext' and t.a[0].a[0] in ('math.prod', 'numpy.prod') and list(t.a[1]) == [sym_('nested_lengths')]]
    ok = bool(prod_atoms)
    table = {}
    if ok:
      try:
        for L in (None, 4, 6):
          for Pd in (4, 6):
            def val(x, L=L, Pd=Pd):
              if x == sym_('length'):
                return L
              if x in prod_atoms:
                return Pd
              raise KeyError(x)
            table[(L, Pd)] = bool(guards.fold(cond, val))
      except guards.Inconclusive as e:
        raise AnalysisError(f'{site2}: guard idiom not recognised: {e}')
      want = {(L, Pd): (L is not None and L != Pd) for L in (None, 4, 6) for Pd in (4, 6)}
      ok = table == want
    chk.check(ok, rule, f'{site2}: raises exactly when length is given and differs from prod(nested_lengths)', sym.show(cond), ctx2.raises[0][2], 'length is not None and length != prod(nested_lengths)', sym.show(cond))
  ok = v2.k == 'call' and util.callee_qual(v2).endswith('_inner_nested_scan')
  if chk.check(ok, rule, f'{site2}: delegates to _inner_nested_scan', sym.show(v2)[:200], loc2):
    b = ev2.bind_args(f, list(v2.a[1]), list(v2.a[2]), None, None)
    chk.require(b is not None, f'{site2}: cannot bind the arguments of _inner_nested_scan')
    ok = b[pn[0]] == sym_('f') and b[pn[1]] == sym_('init') and b[pn[3]] == sym_('nested_lengths') and b[pn[4]] == sym_('scan_fn') and b[pn[5]] == sym_('checkpoint_fn')
    chk.check(ok, rule, f'{site2}: passes f, init, nested_lengths, scan_fn, checkpoint_fn through unchanged', sym.show(v2)[:200], loc2)
    xs = b[pn[2]]
    # xs.reshape(tuple(nested_lengths) + xs.shape[1:])
    ok = (xs.k == 'call' and xs.a[0].k == 'attr' and xs.a[0].a[1] == 'reshape' and xs.a[0].a[0] == sym_('xs') and len(xs.a[1]) == 1)
    if ok:
      shp = xs.a[1][0]
      A = shp
      ok = (A.k == 'bin' and A.a[0] == '+' and A.a[1] == sym.mk_call(Term('ext', 'tuple'), [sym_('nested_lengths')])
            and A.a[2] == Term('sub', Term('attr', sym_('xs'), 'shape'), Term('slice', sym.const(1), sym.NONE, sym.NONE)))
    chk.check(ok, rule, f'{site2}: scanned inputs are reshaped to nested_lengths + trailing shape', sym.show(xs)[:200], loc2, 'x.reshape(tuple(nested_lengths) + x.shape[1:])', sym.show(xs)[:200])
  chk.at_least(rule, 11)


def rule_accumulate(chk, prog):
  rule = 'C14.5-accumulate'
  site = f'{TI}.accumulate_repeated'
  ev = sym.Evaluator(prog)
  f = prog.func(site)
  v, _, _ = ev.run(f)
  loc = (f.file, f.lineno)
  # v = scan(...)[0][1]
  ok = v.k == 'sub' and v.a[1] == sym.const(1) and v.a[0].k == 'sub' and v.a[0].a[1] == sym.const(0) and scan_call(v.a[0].a[0]) is not None
  if not chk.check(ok, rule, f'{site}: returns the accumulator component of the final scan carry', sym.show(v)[:200], loc, 'scan(...)[0][1]', sym.show(v)[:200]):
    return
  callee, body, init, xs, length = scan_call(v.a[0].a[0])
  chk.check(callee == sym_('scan_fn') and xs == sym_('weights'), rule, f'{site}: scans over the weights with scan_fn', f'{sym.show(callee)} over {sym.show(xs) if xs is not None else None}', loc)
  ok = init is not None and init.k == 'tuple' and len(init.a) == 2 and init.a[0] == sym_('state') and init.a[1].k == 'call' and alg.ext_short(init.a[1].a[0]) == 'zeros_like' and list(init.a[1].a[1]) == [sym_('state')]
  chk.check(ok, rule, f'{site}: the carry starts as (state, zeros_like(state))', sym.show(init) if init is not None else 'None', loc, '(state, zeros_like(state))', sym.show(init) if init is not None else 'None')
  b, _, _ = util.inner(ev, body, site + '.f')
  bfi, _ = ev.get_func(body)
  carry, weight = [sym_(n) for n in bfi.param_names()[:2]]
  ok = b.k == 'tuple' and len(b.a) == 2 and b.a[0].k == 'tuple' and len(b.a[0].a) == 2 and b.a[1] == sym.NONE
  if not chk.check(ok, rule, f'{site}: scan body returns ((state, averaged), None)', sym.show(b)[:200], loc):
    return
  new_state, new_avg = b.a[0].a
  stepped = sym.mk_call(sym_('step_fn'), [Term('sub', carry, sym.const(0))])
  chk.check(new_state == stepped, rule, f'{site}: the state is advanced by one step_fn application', sym.show(new_state), loc, 'step_fn(carry[0])', sym.show(new_state))
  A = alg.Algebra(ev, opaque=lambda t: t == stepped or t == Term('sub', carry, sym.const(1)) or t == Term('sub', carry, sym.const(0)))
  e = sp.expand(A.conv(new_avg))
  s_new, s_old, a_old, w = A.atom(stepped), A.atom(Term('sub', carry, sym.const(0))), A.atom(Term('sub', carry, sym.const(1))), A.conv(weight)
  ok = sp.expand(e - (a_old + w * s_new)) == 0
  chk.check(ok, rule, f'{site}: averaged ← averaged + weight · (state AFTER the step)', str(e), new_avg.loc or loc, 'carry[1] + weight*step_fn(carry[0])', sym.show(new_avg))
  chk.at_least(rule, 6)


def rule_dfi_weights(chk, prog, rule='C14.6-dfi', count_rule=None):
  """The Lanczos weights of Lynch & Huang (1992): h_n ∝ sinc(n/(N+1)) · sinc(n·θc/π) with θc = 2π·dt/τc and span = 2N·dt, i.e. the
  low-pass argument is n·span/(τc·N); N is the *rounded* number of steps on each side (a truncated quotient changes with rounding
  noise in span/dt, e.g. when the same physical times are expressed in another scale)."""
  f = prog.func(f'{TI}._dfi_lanczos_weights')
  site, loc = f'{TI}._dfi_lanczos_weights', (f.file, f.lineno)
  ev = sym.Evaluator(prog)
  v, ctx, env = ev.run(f)
  span, tau, dt = sym_('time_span'), sym_('cutoff_period'), sym_('dt')
  rounding = {'round', 'rint', 'around'}
  trunc = {'int', 'floor', 'ceil', 'trunc', 'fix'}
  short = lambda z: z.a[0].a[0].rsplit('.', 1)[-1] if z.k == 'call' and z.a[0].k == 'ext' else None
  def count_terms(t):
    out, inner_of = [], set()
    for z in sym.walk(t):
      if short(z) in rounding | trunc and z.a[1] and sym.contains(z.a[1][0], lambda q: q == dt):
        if short(z) in trunc and short(z.a[1][0]) in rounding:
          inner_of.add(z.a[1][0])   # integer conversion of an already rounded value: the pair is one rounded count
        out.append(z)
      elif z.k == 'bin' and z.a[0] == '//' and sym.contains(z, lambda q: q == dt):
        out.append(z)
      elif z.k == 'call' and z.a[0].k == 'attr' and z.a[0].a[1] == 'astype' and sym.contains(z.a[0].a[0], lambda q: q == dt):
        out.append(z)
    return [z for z in dict.fromkeys(out) if z not in inner_of]
  cts = count_terms(v)
  chk.require(bool(cts), f'{site}: the number of steps is no longer derived from time_span and dt by a recognisable conversion')
  A0 = alg.Algebra(ev)
  for c in cts:
    r_ = c.a[1][0] if short(c) in trunc and short(c.a[1][0]) in rounding else c
    okc = short(r_) in rounding and alg.equal(A0.conv(r_.a[1][0]), A0.conv(span) / (2 * A0.conv(dt)))
    chk.check(okc, count_rule or rule, f'{site}: N = round(time_span / (2·dt)) — the quotient of two model times is rounded to the nearest count, not truncated',
              sym.show(c)[:120], c.loc or loc, 'round(time_span / (2 * dt))', sym.show(c)[:120])
  if count_rule is not None:
    return
  N = cts[0]
  sincs = list(dict.fromkeys(t for t in sym.walk(v) if t.k == 'call' and t.a[0].k == 'ext' and t.a[0].a[0].rsplit('.', 1)[-1] == 'sinc'))
  A = alg.Algebra(ev, opaque=lambda t: t in sincs or t == N or (t.k == 'call' and t.a[0].k == 'ext' and t.a[0].a[0].rsplit('.', 1)[-1] == 'arange'))
  e = A.conv(v)
  prod = 1
  for s_ in sincs:
    prod = prod * A.atom(s_)
  if not chk.check(len(sincs) == 2 and alg.equal(e, prod), rule, f'{site}: weights = (Lanczos window) · (ideal low-pass response), a product of two sinc factors', sym.show(v)[:200], loc):
    return
  ar = [t for t in sym.walk(v) if t.k == 'call' and t.a[0].k == 'ext' and t.a[0].a[0].rsplit('.', 1)[-1] == 'arange']
  okn = bool(ar) and all(list(t.a[1])[0] == sym.const(1) and alg.equal(A.conv(list(t.a[1])[1]), A.atom(N) + 1) for t in ar) and len(set(ar)) == 1
  chk.check(okn, rule, f'{site}: n runs over 1 … N (time 0 carries the separate unit weight)', sym.show(ar[0])[:100] if ar else 'no arange', loc, 'arange(1, N + 1)', sym.show(ar[0])[:100] if ar else '')
  if not okn:
    return
  n = A.atom(ar[0])
  Ns, T, tc = A.atom(N), A.conv(span), A.conv(tau)
  args = [sp.simplify(A.conv(s_.a[1][0])) for s_ in sincs]
  want = [sp.simplify(n / (Ns + 1)), sp.simplify(n * T / (tc * Ns))]
  match_ = (alg.equal(args[0], want[0]) and alg.equal(args[1], want[1])) or (alg.equal(args[0], want[1]) and alg.equal(args[1], want[0]))
  chk.check(match_, rule, f'{site}: sinc arguments are n/(N+1) (window) and n·time_span/(cutoff_period·N) = n·θc/π (low-pass with cutoff period τc)', str(args), loc,
            str(want), str(args))


def rule_dfi(chk, prog):
  rule = 'C14.6-dfi'
  site = f'{TI}.digital_filter_initialization'
  ev = sym.Evaluator(prog, sym.Options(opaque={f'{TI}.accumulate_repeated', f'{TI}.step_with_filters', f'{TI}._dfi_lanczos_weights'}))
  f = prog.func(site)
  v, _, _ = ev.run(f)
  loc = (f.file, f.lineno)
  body, _, _ = util.inner(ev, v, site)
  fi, _ = ev.get_func(v)
  state = sym_(fi.param_names()[0])
  accs = util.calls(body, name='accumulate_repeated')
  if not chk.check(len(accs) >= 2, rule, f'{site}: a forward and a backward accumulated branch', f'{len(accs)} accumulate_repeated call(s)', loc):
    return
  acc_f = prog.func(f'{TI}.accumulate_repeated')
  binds = [ev.bind_args(acc_f, list(c.a[1]), list(c.a[2]), None, None) for c in accs]
  chk.require(all(b is not None for b in binds), f'{site}: cannot bind accumulate_repeated arguments')
  A = alg.Algebra(ev, opaque=lambda t: t in accs or (t.k == 'call' and util.callee_name(t) == '_dfi_lanczos_weights'))
  e = sp.expand(A.conv(body))
  st = A.conv(state)
  acc_syms = [A.atom(c) for c in accs]
  res = alg.linear_coeffs(e, [st] + acc_syms)
  if not chk.check(res is not None and res[1] == 0 and all(c == 1 for c in res[0][1:]), rule, f'{site}: result = w₀·state + Σ accumulated branches (each with coefficient 1)',
                   str(e)[:300], loc):
    return
  w0 = res[0][0]
  wts = [A.conv(b['weights']) for b in binds]
  W = [t for t in sym.walk(body) if t.k == 'call' and util.callee_name(t) == '_dfi_lanczos_weights']
  chk.require(len(set(W)) == 1, f'{site}: expected one Lanczos weight vector, found {len(set(W))}')
  Wsym = A.atom(W[0])
  chk.check(all(alg.equal(w, wts[0]) for w in wts), rule, f'{site}: every branch uses the same normalised weights', str(wts), loc)
  # total = 1/w0 ; weights = W/total ; total = 1 + n_branches * W.sum()
  total = sp.simplify(1 / w0)
  ok_same = alg.equal(sp.simplify(wts[0] * total), Wsym)
  chk.check(ok_same, rule, f'{site}: the initial weight and the weight vectors are divided by the same total', f'w₀ = {w0}; weights = {wts[0]}', loc, 'W/total with total = 1/w₀', str(wts[0]))
  Wsum = [s for s in total.atoms(sp.Function) if s.func.__name__ == 'm_sum']
  expected = 1 + len(accs) * (Wsum[0] if Wsum else sp.Symbol('ΣW'))
  chk.check(bool(Wsum) and alg.equal(total, expected), rule, f'{site}: total = 1 + (number of accumulated branches)·ΣW, so a steady state is returned unchanged',
            f'total = {total}', loc, str(expected), str(total))
  chk.check(all(b['state'] == state for b in binds), rule, f'{site}: every branch starts from the input state', str([sym.show(b['state']) for b in binds]), loc)
  steps = [b['step_fn'] for b in binds]
  infos = []
  for s in steps:
    ok = s.k == 'call' and util.callee_name(s) == 'step_with_filters'
    if not ok:
      infos.append(None)
      continue
    sb = ev.bind_args(prog.func(f'{TI}.step_with_filters'), list(s.a[1]), list(s.a[2]), None, None)
    solver = sb['step_fn']
    good = solver.k == 'call' and solver.a[0] == sym_('ode_solver') and len(solver.a[1]) == 2
    infos.append((solver.a[1][0], solver.a[1][1], sb['filters']) if good else None)
  if chk.check(all(i is not None for i in infos), rule, f'{site}: each branch steps with step_with_filters(ode_solver(eq, dt), filters)', str([sym.show(s)[:80] for s in steps]), loc):
    eqs = [i[0] for i in infos]
    fwd = [q for q in eqs if q == sym_('equation')]
    bwd = [q for q in eqs if q.k == 'obj' and q.a[0].endswith('TimeReversedImExODE') and util.field(q, 'forward_eq') == sym_('equation')]
    chk.check(len(fwd) == 1 and len(bwd) == 1 and len(eqs) == 2, rule, f'{site}: one branch integrates the equation, the other its time reversal', str([sym.show(q) for q in eqs]), loc,
              '[equation, TimeReversedImExODE(equation)]', str([sym.show(q) for q in eqs]))
    chk.check(all(i[1] == sym_('dt') for i in infos) and all(i[2] == sym_('filters') for i in infos), rule, f'{site}: both branches use the same dt and the same filters',
              str([(sym.show(i[1]), sym.show(i[2])) for i in infos]), loc)
  chk.at_least(rule, 8)


def rule_time_reversed(chk, prog):
  rule = 'C14.7-time-reversal'
  ev = sym.Evaluator(prog)
  c = prog.cls(f'{TI}.TimeReversedImExODE')
  for m in ('explicit_terms', 'implicit_terms'):
    f = c.find_method(m)
    chk.require(f is not None and f.cls is c, f'TimeReversedImExODE.{m} missing')
    v, _, _ = ev.run(f)
    st = sym_(f.param_names()[1])
    fwd = [t for t in sym.walk(v) if t.k == 'call' and util.callee_name(t) == m]
    ok = (v.k == 'call' and alg.ext_short(v.a[0]) == 'negative' and len(fwd) == 1 and list(v.a[1]) == fwd and util.call_args(fwd[0]) == [st]
          and fwd[0].a[0].k == 'bound' and fwd[0].a[0].a[0].k == 'attr' and fwd[0].a[0].a[0].a[1] == 'forward_eq')
    ok = ok or (v.k == 'un' and v.a[0] == '-' and len(fwd) == 1 and v.a[1] == fwd[0])
    chk.check(ok, rule, f'{TI}.TimeReversedImExODE.{m}: every leaf of the forward {m} is negated', sym.show(v), (f.file, f.lineno), f'-forward_eq.{m}(state)', sym.show(v))
  f = c.find_method('implicit_inverse')
  v, _, _ = ev.run(f)
  st, step = sym_(f.param_names()[1]), sym_(f.param_names()[2])
  ok = v.k == 'call' and util.callee_name(v) == 'implicit_inverse' and util.call_args(v) == [st, Term('un', '-', step)]
  chk.check(ok, rule, f'{TI}.TimeReversedImExODE.implicit_inverse: forward solve with the negated step', sym.show(v), (f.file, f.lineno), 'forward_eq.implicit_inverse(state, -step_size)', sym.show(v))
  chk.at_least(rule, 3)


def run(chk, prog, tier):
  from rules import c01 as _c01
  _c01.rule_shared_state(chk, prog, rule='C14.9-shared-arrays-never-updated-in-place')
  rule_trajectory(chk, prog)
  rule_repeated(chk, prog)
  rule_closure_binding(chk, prog)
  try:
    rule_step_with_filters(chk, prog)
  except AnalysisError:
    if not any(v['rule'] == 'C14.8-closure-binding' for v in chk.violations):
      raise
  rule_nested_scan(chk, prog)
  rule_accumulate(chk, prog)
  rule_dfi(chk, prog)
  rule_dfi_weights(chk, prog)
  rule_time_reversed(chk, prog)
  chk.assume('lax.scan(f, init, xs, length) threads the carry through f `length` times and stacks the second outputs',
             'jax.tree_util.tree_map applies its function leaf-wise; jax.checkpoint does not change values',
             'scan-like parameters (outer_scan_fn, inner_scan_fn, scan_fn) follow the lax.scan calling convention')
  return dict(
      explanation=('Every combinator in time_integration.py (trajectory_from_step, repeated, step_with_filters, nested_checkpoint_scan / _inner_nested_scan, '
                   'accumulate_repeated, digital_filter_initialization, TimeReversedImExODE) is abstractly interpreted; the resulting closure terms are matched '
                   'against the sequential definition by data-flow roles: which value becomes the carry, which the emitted frame, which length each scan gets, '
                   'the order and arguments of filter application, base / recursive case of the nested scan, accumulation after stepping, the shared '
                   'normalisation total of the digital filter. Not decided: numerical equality of trajectories or gradients with a Python loop.'),
      trusted_base=['python ast', 'sympy (linear-coefficient extraction)', 'lax.scan / tree_map / checkpoint semantics'],
      analysed=dict(functions=[f'{TI}.{n}' for n in ('trajectory_from_step', 'repeated', 'step_with_filters', 'nested_checkpoint_scan', '_inner_nested_scan',
                                                   'accumulate_repeated', 'digital_filter_initialization', 'TimeReversedImExODE')]),
  )
