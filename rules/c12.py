"""C12 — results do not depend on the non-dimensionalisation scale: constant discipline."""
from __future__ import annotations

import ast

import sympy as sp

from sa import alg, domains, match, sym, util
from sa.model import AnalysisError, norm_ident, unparse
from sa.sym import Term
from rules import common

PE = 'primitive_equations'
SW = 'shallow_water'

CLAIM = dict(
    text=('Decides the constant discipline that makes a scale a pure relabelling: module-level constants evaluated under DEFAULT_SCALE at import are used '
          'only as parameter defaults; every in-package call of a function that has such a default binds that parameter explicitly with a value taken from '
          'physics_specs or forwarded from the caller\'s own parameter; every Quantity-annotated parameter of the forcing / initial-state / radiation '
          'constructors reaches arithmetic only through nondimensionalize (dimensionless-by-documentation parameters are tabled); raw .magnitude / .m reads '
          'occur only inside Scale or directly on a dimensionalize(…, unit) result (plus one tabled SI-dataset site); the two specs constructors pass every '
          'SI constant through the given scale in field order; every Grid operator carries the power of radius of its dimension; all Coriolis-parameter '
          'providers normalise to 2·Ω·sinθ with Ω from the specs (recorded finding: shallow_water.get_coriolis and shallow_water_states.one_layer hard-wire '
          '2Ω = radius = 1). Does not decide equality of re-dimensionalised results under two scales numerically.'
          ' Later additions: C12.5 radius powers, C12.7 SI defaults carry the dimension of their role (unit-dimension algebra), C12.8 counts derived from quotients of model times are rounded (DFI step count), C12.9 every field of a configuration dataclass read by the numerics takes part in ==/hash (static jit arguments and caches are keyed by equality; positive fixture). C12.10 the diffusion normalisation uses the grid\'s own top eigenvalue (C15.9 re-filed).'),
    note=('Assumes the user builds Grid(radius=specs.radius); pint\'s unit algebra is trusted. Exemption tables (with reasons) are in rules/c12.py.'),
    technique='taint / who-may-use analysis of default-scale constants over all call sites + typestate (dimensional → non-dimensional) by abstract interpretation + unit-of-measure analysis',
)

DIMENSIONLESS_BY_DOC = {
    # parameter annotated Quantity but documented as a pure number / angle in radians
    ('held_suarez.HeldSuarezForcing.__init__', 'sigma_b'): 'sigma level (dimensionless)',
    ('primitive_equations_states.baroclinic_perturbation_jw', 'lon_location'): 'longitude in radians',
    ('primitive_equations_states.baroclinic_perturbation_jw', 'lat_location'): 'latitude in radians',
    ('primitive_equations_states.baroclinic_perturbation_jw', 'perturbation_radius'): 'ratio to the planet radius',
}
QUANTITY_FUNCS = [
    'held_suarez.HeldSuarezForcing.__init__', 'primitive_equations_states.isothermal_rest_atmosphere',
    'primitive_equations_states.isothermal_rest_atmosphere_with_orography_path', 'primitive_equations_states.steady_state_jw',
    'primitive_equations_states.baroclinic_perturbation_jw',
]
MAGNITUDE_IO_SITES = {
    ('xarray_utils.nodal_orography_from_ds', 'scales.GRAVITY_ACCELERATION.magnitude'): 'dataset stores geopotential in SI units; divides by g in SI',
}


def S(n):
  return Term('sym', n)


# ------------------------------------------------- default-scale constants
def default_scale_constants(prog, ev):
  """{(module, name)} of module-level values computed under DEFAULT_SCALE."""
  out = {}
  for m in prog.modules.values():
    for name, expr in m.assigns.items():
      try:
        t = ev.eval_module_expr(m, expr)
      except Exception:
        continue
      def is_default_scale(x):
        if x.k == 'global' and x.a[1] in ('DEFAULT_SCALE', 'ATMOSPHERIC_SCALE'):
          return True
        if x.k == 'global' and (x.a[0], x.a[1]) in out:
          return True
        return False
      if t.k == 'global' and is_default_scale(t) and m.name != 'dinosaur.scales':
        out[(m.name, name)] = 'alias of DEFAULT_SCALE'
      elif t.k == 'call' and util.callee_name(t) in ('nondimensionalize', 'dimensionalize') and t.a[0].k in ('attr', 'bound') and is_default_scale(t.a[0].a[0]):
        out[(m.name, name)] = 'non-dimensionalised under DEFAULT_SCALE at import'
  return out


def all_functions(prog):
  for m in prog.modules.values():
    for f in m.functions.values():
      yield f
    for c in m.classes.values():
      for f in c.methods.values():
        yield f


def rule_default_scale(chk, prog):
  rule = 'C12.1-default-scale-constants'
  ev = sym.Evaluator(prog, sym.Options(opaque={'scales.Scale.nondimensionalize', 'scales.Scale.dimensionalize'}))
  consts = default_scale_constants(prog, ev)
  chk.require(len(consts) >= 6, f'expected the default-scale module constants of primitive_equations / shallow_water, found {sorted(consts)}')
  names_by_mod = {}
  for (mn, n) in consts:
    names_by_mod.setdefault(mn, set()).add(n)
  # (a) only as parameter defaults
  defaulted = {}  # FuncInfo -> {param: const name}
  for f in all_functions(prog):
    mod = f.module
    local = names_by_mod.get(mod.name, set())
    a = f.args
    pos = a.posonlyargs + a.args
    dfl = [None] * (len(pos) - len(a.defaults)) + list(a.defaults)
    pairs = list(zip(pos, dfl)) + list(zip(a.kwonlyargs, a.kw_defaults))
    default_nodes = set()
    for p, d in pairs:
      if d is None:
        continue
      for n in ast.walk(d):
        default_nodes.add(id(n))
      cn = const_ref(prog, mod, d, consts)
      if cn:
        defaulted.setdefault(f, {})[norm_ident(p.arg)] = cn
    for n in ast.walk(f.node):
      if id(n) in default_nodes:
        continue
      cn = const_ref(prog, mod, n, consts) if isinstance(n, (ast.Name, ast.Attribute)) and isinstance(getattr(n, 'ctx', None), ast.Load) else None
      if cn and not shadowed(f, n):
        chk.violation(rule, f'{f.qualname.replace("dinosaur.", "")}: reads {cn} in its body', 'a constant evaluated under DEFAULT_SCALE is used by scale-aware code; results change with the scale',
                      (f.file, n.lineno), 'physics_specs.<constant> / a parameter', cn)
  for (mn, n), why in sorted(consts.items()):
    chk.ok(rule, f'{mn.replace("dinosaur.", "")}.{n}: {why}; used only as parameter default', '')
  # (b) explicit binding at every call site
  targets = {f.qualname: (f, ps) for f, ps in defaulted.items()}
  chk.require(len(targets) >= 7, f'expected ≥7 functions with default-scale defaults, found {sorted(q for q in targets)}')
  n_sites = 0
  for g in all_functions(prog):
    encl_params = set(g.param_names())
    for call in [n for n in ast.walk(g.node) if isinstance(n, ast.Call)]:
      tf = resolve_callee(prog, g.module, call.func)
      if tf is None or tf.qualname not in targets:
        continue
      f, ps = targets[tf.qualname]
      n_sites += 1
      bound = bind_ast(f, call)
      site = f'{g.qualname.replace("dinosaur.", "")} → {f.name}'
      for pname, cname in sorted(ps.items()):
        key = f'{site}: parameter `{pname}`'
        if bound is None:
          chk.violation(rule, key, 'call uses *args/**kwargs: binding of the scale-dependent parameter cannot be established', (g.file, call.lineno))
          continue
        arg = bound.get(pname)
        if arg is None:
          chk.violation(rule, key, f'not passed: falls back to {cname}, a DEFAULT_SCALE value — wrong under any other scale', (g.file, call.lineno),
                        f'{pname}=<physics_specs constant or forwarded parameter>', 'default')
          continue
        txt = unparse(arg)
        srcs = {norm_ident(n.id) for n in ast.walk(arg) if isinstance(n, ast.Name)}
        attrs = {n.attr for n in ast.walk(arg) if isinstance(n, ast.Attribute)}
        from_specs = 'physics_specs' in attrs or 'physics_specs' in srcs
        forwarded = bool(srcs & encl_params) and not const_ref_any(prog, g.module, arg, consts)
        local_from_specs = False
        if not from_specs and not forwarded:
          # local alias (r = ideal_gas_constant; physics_specs = self.physics_specs)
          local_from_specs = local_alias_ok(g, arg, encl_params)
        okv = from_specs or forwarded or local_from_specs
        chk.check(okv, rule, key, f'bound to `{txt}`', (g.file, call.lineno), 'a physics_specs constant or the caller\'s own parameter', txt)
  chk.at_least(rule, 6 + 12)


def shadowed(f, node):
  return False


def const_ref(prog, mod, node, consts):
  """Name of the default-scale constant an AST Name/Attribute refers to (or None)."""
  if isinstance(node, ast.Name):
    n = norm_ident(node.id)
    if (mod.name, n) in consts:
      return f'{mod.name.replace("dinosaur.", "")}.{n}'
    if n in mod.imports:
      kind, val = prog.resolve_dotted(mod.imports[n])
      if kind == 'assign' and (val[0].name, val[1]) in consts:
        return f'{val[0].name.replace("dinosaur.", "")}.{val[1]}'
  if isinstance(node, ast.Attribute) and isinstance(node.value, ast.Name):
    base = norm_ident(node.value.id)
    if base in mod.imports:
      kind, val = prog.resolve_dotted(mod.imports[base] + '.' + node.attr)
      if kind == 'assign' and (val[0].name, val[1]) in consts:
        return f'{val[0].name.replace("dinosaur.", "")}.{val[1]}'
  return None


def const_ref_any(prog, mod, node, consts):
  return any(const_ref(prog, mod, n, consts) for n in ast.walk(node) if isinstance(n, (ast.Name, ast.Attribute)))


def resolve_callee(prog, mod, func):
  if isinstance(func, ast.Name):
    n = norm_ident(func.id)
    if n in mod.functions:
      return mod.functions[n]
    if n in mod.imports:
      kind, val = prog.resolve_dotted(mod.imports[n])
      if kind == 'func':
        return val
  if isinstance(func, ast.Attribute) and isinstance(func.value, ast.Name):
    base = norm_ident(func.value.id)
    if base in mod.imports:
      kind, val = prog.resolve_dotted(mod.imports[base] + '.' + func.attr)
      if kind == 'func':
        return val
  return None


def bind_ast(f, call):
  a = f.args
  pos = [norm_ident(x.arg) for x in a.posonlyargs + a.args]
  if any(isinstance(x, ast.Starred) for x in call.args) or any(k.arg is None for k in call.keywords):
    return None
  out = {}
  for i, x in enumerate(call.args):
    if i < len(pos):
      out[pos[i]] = x
  for k in call.keywords:
    out[norm_ident(k.arg)] = k.value
  return out


def local_alias_ok(g, arg, encl_params):
  """`r`, where the enclosing function has `r = ideal_gas_constant` (a parameter) or `physics_specs = self.physics_specs`."""
  names = {norm_ident(n.id) for n in ast.walk(arg) if isinstance(n, ast.Name)}
  for st in ast.walk(g.node):
    if isinstance(st, ast.Assign) and len(st.targets) == 1 and isinstance(st.targets[0], ast.Name) and norm_ident(st.targets[0].id) in names:
      rhs_names = {norm_ident(n.id) for n in ast.walk(st.value) if isinstance(n, ast.Name)}
      rhs_attrs = {n.attr for n in ast.walk(st.value) if isinstance(n, ast.Attribute)}
      if (rhs_names & encl_params) or 'physics_specs' in rhs_attrs:
        return True
  return False


# ------------------------------------------------------ Quantity typestate
def is_quantity_annotation(ann):
  if ann is None:
    return False
  txt = unparse(ann)
  return any(tok in txt for tok in ('Quantity', 'QuantityOrStr'))


def rule_quantity_typestate(chk, prog):
  rule = 'C12.2-quantity-typestate'
  n = 0
  for q in QUANTITY_FUNCS:
    f = prog.func(q)
    ev = sym.Evaluator(prog, sym.Options(max_depth=3))
    a = f.args
    qparams = [norm_ident(p.arg) for p in a.posonlyargs + a.args + a.kwonlyargs if is_quantity_annotation(p.annotation)]
    chk.require(bool(qparams), f'{q}: no Quantity-annotated parameters found')
    v, ctx, env = ev.run(f)
    # only what leaves the function counts (its result, the closures it returns, the fields it sets on self): intermediates
    # such as `q = units.Quantity(p0)` are judged where they are finally used
    values = [v] + ([env['self']] if 'self' in env and isinstance(env['self'], Term) and env['self'].k == 'obj' else [])
    # closures returned / stored
    seen_l = set()
    frontier = list(values)
    for t in list(frontier):
      for z in sym.walk(t):
        if z.k == 'lambda' and z.a[0] not in seen_l:
          seen_l.add(z.a[0])
          try:
            b, bctx, benv = util.inner(ev, z, q)
            values.append(b)
          except Exception:
            pass
    for p in qparams:
      key = f'{q}: parameter `{p}`'
      if (q, p) in DIMENSIONLESS_BY_DOC:
        chk.note(f'{key} is annotated Quantity but documented dimensionless ({DIMENSIONLESS_BY_DOC[(q, p)]}); exempt from the typestate rule')
        continue
      ps = S(p)
      bad = []
      used = [False]

      def visit(t, protected):
        if not isinstance(t, Term):
          if isinstance(t, tuple):
            for y in t:
              visit(y, protected)
          return
        if t == ps:
          used[0] = True
          if not protected:
            bad.append(t)
          return
        k = t.k
        if k == 'call':
          name = util.callee_name(t)
          prot = protected
          if name == 'nondimensionalize':
            prot = True
          elif t.a[0].k == 'attr' and t.a[0].a[1] == 'Quantity' or (t.a[0].k == 'ext' and t.a[0].a[0].endswith('Quantity')):
            prot = protected  # units.Quantity(x) keeps the state; must itself be under nondimensionalize
          elif t.a[0].k == 'func' and t.a[0].a[0].replace('dinosaur.', '') in QUANTITY_FUNCS:
            prot = True       # pure forward to another function of the same API
          visit(t.a[0], protected)
          for y in t.a[1]:
            visit(y, prot)
          for _, y in t.a[2]:
            visit(y, prot)
          return
        if k == 'cmp' and t.a[0] in (('is',), ('is not',)):
          return
        if k == 'fstr':
          return
        if k == 'lambda':
          return
        for y in t.a:
          visit(y, protected)

      seen_ids = set()
      for t in values:
        if id(t) in seen_ids:
          continue
        seen_ids.add(id(t))
        visit(t, False)
      chk.check(not bad, rule, key + ' reaches arithmetic only through nondimensionalize', 'all uses are arguments of physics_specs.nondimensionalize (optionally via units.Quantity)' if not bad else
                f'{len(bad)} raw use(s) of the dimensional quantity', (f.file, f.lineno), 'physics_specs.nondimensionalize(p)', 'raw use')
      n += 1
  # radiation: dimensional module constants in SolarRadiation
  f = prog.func('radiation.SolarRadiation.__init__')
  ev = sym.Evaluator(prog, sym.Options(max_depth=2))
  v, ctx, env = ev.run(f)
  selfobj = env.get('self')
  for cname, field in (('TOTAL_SOLAR_IRRADIANCE', 'total_solar_irradiance'), ('SOLAR_IRRADIANCE_VARIATION', 'solar_irradiance_variation')):
    val = util.field(selfobj, field) if selfobj is not None and selfobj.k == 'obj' else None
    ok = val is not None and val.k == 'call' and util.callee_name(val) == 'nondimensionalize' and list(val.a[1])[-1:] == [Term('global', 'dinosaur.radiation', cname)]
    chk.check(ok, rule, f'radiation.SolarRadiation.__init__: {field} = physics_specs.nondimensionalize({cname})', sym.show(val) if val is not None else 'missing', (f.file, f.lineno))
  rate = util.field(selfobj, 'orbital_rate') if selfobj is not None and selfobj.k == 'obj' else None
  okr = rate is not None and sym.contains(rate, lambda t: t.k == 'call' and util.callee_name(t) == 'nondimensionalize')
  chk.check(okr, rule, 'radiation.SolarRadiation.__init__: the orbital rates 2π/year, 2π/day are non-dimensionalised with the given specs', sym.show(rate)[:160] if rate is not None else 'missing', (f.file, f.lineno))
  chk.at_least(rule, 18)


# --------------------------------------------------------------- magnitude
def rule_magnitude(chk, prog):
  rule = 'C12.3-raw-magnitude'
  from sa import astnorm
  n = 0
  for f in all_functions(prog):
    # single-use temporaries are substituted back first: `d = dimensionalize(v, unit); d.magnitude` is the tabled idiom too
    for node in ast.walk(astnorm.normalised(f.node)):
      if not (isinstance(node, ast.Attribute) and node.attr in ('magnitude', 'm') and isinstance(node.ctx, ast.Load)):
        continue
      base = node.value
      if node.attr == 'm' and isinstance(base, ast.Name) and norm_ident(base.id) == 'units':
        continue  # the unit `meter`
      if node.attr == 'm' and isinstance(base, ast.Attribute) and base.attr == 'units':
        continue
      q = f.qualname.replace('dinosaur.', '')
      txt = unparse(node)
      key = f'{q}: {txt}'
      n += 1
      if q.startswith('scales.Scale.'):
        chk.ok(rule, key, 'inside Scale (the non-dimensionalisation itself)', (f.file, node.lineno))
        continue
      if isinstance(base, ast.Call) and isinstance(base.func, ast.Attribute) and base.func.attr == 'dimensionalize' and len(base.args) + len(base.keywords) >= 2:
        chk.ok(rule, key, 'magnitude of a value just re-dimensionalised to a named unit', (f.file, node.lineno))
        continue
      if (q, txt) in MAGNITUDE_IO_SITES:
        chk.ok(rule, key, f'tabled I/O site: {MAGNITUDE_IO_SITES[(q, txt)]}', (f.file, node.lineno))
        continue
      chk.violation(rule, key, 'reads the raw magnitude of a dimensional quantity outside Scale: the number depends on the unit it happens to be expressed in, not on the scale',
                    (f.file, node.lineno), 'scale.nondimensionalize(q)  or  dimensionalize(v, unit).magnitude', txt)
  chk.at_least(rule, 5)


# ------------------------------------------------------ specs constructors
def rule_from_si(chk, prog):
  rule = 'C12.4-specs-from-si'
  for cq, special in ((f'{PE}.PrimitiveEquationsSpecs', {}), (f'{SW}.ShallowWaterSpecs', {'densities': 'densities'})):
    c = prog.cls(cq)
    f = c.find_method('from_si')
    chk.require(f is not None, f'{cq}.from_si not found')
    ev = sym.Evaluator(prog)
    v, _, _ = ev.run(f)
    site, loc = f'{cq.replace("dinosaur.", "")}.from_si', (f.file, f.lineno)
    if not chk.check(v.k == 'obj' and v.a[0] == c.qualname, rule, f'{site}: constructs the specs dataclass', sym.show(v)[:120], loc):
      continue
    params = set(f.param_names())
    for fname, val in v.a[1]:
      if fname == 'scale':
        chk.check(val == S('scale'), rule, f'{site}: stores the given scale', sym.show(val), loc, 'scale', sym.show(val))
        continue
      want_param = special.get(fname, fname + '_si')
      ok = (val.k == 'call' and util.callee_name(val) == 'nondimensionalize' and val.a[0].k in ('attr', 'bound') and val.a[0].a[0] == S('scale') and util.call_args(val) == [S(want_param)] and want_param in params)
      chk.check(ok, rule, f'{site}: field `{fname}` = scale.nondimensionalize({want_param})', sym.show(val), loc, f'scale.nondimensionalize({want_param})', sym.show(val))
  # wrappers forward unchanged
  for cq in (f'{PE}.PrimitiveEquationsSpecs', f'{SW}.ShallowWaterSpecs'):
    c = prog.cls(cq)
    ev = sym.Evaluator(prog)
    for m, nargs in (('nondimensionalize', 1), ('dimensionalize', 2)):
      f = c.find_method(m)
      chk.require(f is not None, f'{cq}.{m} missing')
      v, _, _ = ev.run(f)
      ps = [S(p) for p in f.param_names()[1:]]
      ok = v.k == 'call' and util.callee_name(v) == m and v.a[0].k in ('attr', 'bound') and v.a[0].a[0].k == 'attr' and v.a[0].a[0].a[1] == 'scale' and util.call_args(v) == ps and not v.a[2]
      chk.check(ok, rule, f'{cq.replace("dinosaur.", "")}.{m}: forwards to self.scale.{m} unchanged', sym.show(v), (f.file, f.lineno))
  chk.at_least(rule, 16)


# ------------------------------------------------------------ Coriolis
def rule_coriolis(chk, prog, rule='C12.6-coriolis-siblings'):
  ev = sym.Evaluator(prog)
  sinlat = lambda t: util.strip(t).k == 'sub' and util.strip(t).a[1] == sym.const(1) and util.strip(t).a[0].k == 'attr' and util.strip(t).a[0].a[1] in ('nodal_axes', 'nodal_mesh')
  omega = lambda t: t.k == 'attr' and t.a[1] == 'angular_velocity'
  for q in (f'{PE}.PrimitiveEquations.coriolis_parameter', f'{SW}.ShallowWaterEquations.coriolis_parameter', f'{SW}.get_coriolis'):
    f = prog.func(q)
    v, _, _ = ev.run(f)
    A = alg.Algebra(ev)
    s = A.name(sinlat, 'sinlat')
    om = A.name(omega, 'Omega')
    e = A.conv(v)
    has_specs = sym.contains(v, lambda t: t.k == 'attr' and t.a[1] == 'physics_specs')
    ok = alg.equal(e, 2 * om * s) and has_specs
    chk.check(ok, rule, f'{q}: Coriolis parameter = 2·Ω·sinθ with Ω from the physics specs', str(e), (f.file, f.lineno), '2*Omega*sinlat', str(e))
  # one_layer: radius powers of the balanced state
  f = prog.func('shallow_water_states.one_layer')
  ev2 = sym.Evaluator(prog)
  v, _, _ = ev2.run(f)
  from rules import c02
  dom = c02.radius_domain()
  ok = False
  detail = ''
  if v.k == 'obj':
    try:
      ev_ = dom.of(util.field(v, 'vorticity'))
      ep = dom.of(util.field(v, 'potential'))
      detail = f'vorticity ~ radius^{ev_}·u, potential ~ radius^{ep}·u²'
      ok = ev_ == -1 and ep in (0, None)
    except domains.Inconsistent as e:
      detail = str(e)
  chk.check(ok, rule, 'shallow_water_states.one_layer: balanced state carries the radius powers of its dimensions (ζ ~ u/radius, Φ ~ u²)', detail, (f.file, f.lineno),
            'vorticity ~ radius^-1, potential ~ radius^0', detail)
  chk.at_least(rule, 4)


def rule_radius(chk, prog):
  from rules import c02
  before = len(chk.instances)
  c02.rule_radius(chk, prog)
  for i in chk.instances[before:]:
    i['rule'] = 'C12.5-radius-power'
  chk.minimum.pop('C02.3-radius-power', None)
  # the equation modules take the spectrum of the Laplacian from the grid (−l(l+1)/radius²): nobody rebuilds it from the bare
  # wavenumber axis, which would silently assume radius = 1 (the non-dimensional radius is 1 only under the default length scale)
  rule = 'C12.5-radius-power'
  for short in ('primitive_equations', 'shallow_water', 'time_integration', 'held_suarez', 'primitive_equations_states', 'shallow_water_states'):
    m = prog.module(short)
    readers = []
    for f in all_functions(prog):
      if f.module is not m:
        continue
      for node in ast.walk(f.node):
        if isinstance(node, ast.Attribute) and node.attr in ('modal_axes', 'modal_mesh') and isinstance(node.ctx, ast.Load):
          readers.append((f, node.lineno))
    for f, line in readers:
      chk.violation(rule, f'{f.qualname.replace("dinosaur.", "")}: reads the bare wavenumber axes', 'wavenumber arithmetic outside the grid: a Laplacian spectrum rebuilt from l alone '
                    'drops the 1/radius² that Grid.laplacian / laplacian_eigenvalues carry, so solve and tendency disagree whenever the non-dimensional radius is not 1', (f.file, line),
                    'coords.horizontal.laplacian_eigenvalues', 'modal_axes / modal_mesh')
    if not readers:
      chk.ok(rule, f'{short}: the Laplacian spectrum is only taken from the grid (no read of modal_axes / modal_mesh)', '', (m.relpath, 1))
  chk.at_least('C12.5-radius-power', len(c02.OPERATORS) + 6)


UNIT_DIMS = {
    # unit name -> exponents of (m, s, kg, K)
    'm': (1, 0, 0, 0), 'meter': (1, 0, 0, 0), 'metre': (1, 0, 0, 0), 'km': (1, 0, 0, 0), 'kilometer': (1, 0, 0, 0),
    's': (0, 1, 0, 0), 'second': (0, 1, 0, 0), 'minute': (0, 1, 0, 0), 'hour': (0, 1, 0, 0), 'day': (0, 1, 0, 0), 'year': (0, 1, 0, 0),
    'kg': (0, 0, 1, 0), 'kilogram': (0, 0, 1, 0), 'g': (0, 0, 1, 0), 'gram': (0, 0, 1, 0),
    'degK': (0, 0, 0, 1), 'kelvin': (0, 0, 0, 1), 'K': (0, 0, 0, 1),
    'J': (2, -2, 1, 0), 'joule': (2, -2, 1, 0), 'kJ': (2, -2, 1, 0), 'W': (2, -3, 1, 0), 'watt': (2, -3, 1, 0), 'kW': (2, -3, 1, 0),
    'N': (1, -2, 1, 0), 'newton': (1, -2, 1, 0), 'pascal': (-1, -2, 1, 0), 'Pa': (-1, -2, 1, 0), 'hPa': (-1, -2, 1, 0), 'bar': (-1, -2, 1, 0),
    'dimensionless': (0, 0, 0, 0), 'radian': (0, 0, 0, 0), 'degree': (0, 0, 0, 0),
}
SI_DIMENSIONS = {
    # from_si parameter -> (m, s, kg, K) of the physical quantity it stands for
    'radius_si': ((1, 0, 0, 0), 'a length'),
    'angular_velocity_si': ((0, -1, 0, 0), 'an angular rate (1/time)'),
    'gravity_acceleration_si': ((1, -2, 0, 0), 'an acceleration'),
    'ideal_gas_constant_si': ((2, -2, 0, -1), 'a specific gas constant J/(kg K)'),
    'water_vapor_gas_constant_si': ((2, -2, 0, -1), 'a specific gas constant J/(kg K) — used in the pure number R_vapor/R − 1'),
    'water_vapor_isobaric_heat_capacity_si': ((2, -2, 0, -1), 'a specific heat J/(kg K) — used in the pure number Cp_vapor/Cp'),
    'kappa_si': ((0, 0, 0, 0), 'the pure number R/Cp'),
    'density_si': ((-3, 0, 1, 0), 'a density'),
}


def dimension_of(ev, t, depth=0):
  """(m, s, kg, K) exponents of a pint expression term, or None when a unit is not tabled."""
  if depth > 12:
    return None
  add = lambda a, b, sg=1: tuple(x + sg * y for x, y in zip(a, b))
  if t.k == 'const':
    return (0, 0, 0, 0) if isinstance(t.a[0], (int, float)) else None
  if t.k == 'global':
    if t.a[1] == 'units':
      return None
    return dimension_of(ev, ev.global_definition(t), depth + 1)
  if t.k == 'attr' and (sym.show(t.a[0]).endswith('units') or (t.a[0].k == 'global' and t.a[0].a[1] == 'units')):
    return UNIT_DIMS.get(t.a[1])
  if t.k == 'bin':
    l, r = dimension_of(ev, t.a[1], depth + 1), dimension_of(ev, t.a[2], depth + 1)
    if t.a[0] == '**':
      e = t.a[2]
      if l is None or not (e.k == 'const' and isinstance(e.a[0], int)):
        return None
      return tuple(x * e.a[0] for x in l)
    if l is None or r is None:
      return None
    if t.a[0] == '*':
      return add(l, r)
    if t.a[0] == '/':
      return add(l, r, -1)
    if t.a[0] in ('+', '-'):
      return l if l == r else None
  if t.k == 'un':
    return dimension_of(ev, t.a[1], depth + 1)
  return None


def rule_si_dimensions(chk, prog):
  """Every SI default handed to a specs constructor has the dimension of the quantity it stands for: Scale.nondimensionalize
  accepts any dimensionality, so a constant written with the wrong units (J/kg·K for J/(kg K)) gives the same number under a
  1-kelvin scale and a different one under any other — exactly a scale-dependent result."""
  rule = 'C12.7-si-defaults-have-their-dimension'
  ev = sym.Evaluator(prog)
  n = 0
  for cq in (f'{PE}.PrimitiveEquationsSpecs', f'{SW}.ShallowWaterSpecs'):
    f = prog.cls(cq).find_method('from_si')
    a = f.args
    names = [x.arg for x in a.posonlyargs + a.args]
    defaults = [None] * (len(names) - len(a.defaults)) + list(a.defaults)
    for pn, d in list(zip(names, defaults)) + [(x.arg, d_) for x, d_ in zip(a.kwonlyargs, a.kw_defaults)]:
      if d is None or pn not in SI_DIMENSIONS:
        continue
      want, what = SI_DIMENSIONS[pn]
      t = ev.eval_module_expr(f.module, d)
      got = dimension_of(ev, t)
      if got is None:
        chk.note(f'{cq.replace("dinosaur.", "")}.from_si: dimension of the default of `{pn}` ({sym.show(t)[:60]}) uses a unit that is not tabled; not judged')
        continue
      n += 1
      chk.check(got == want, rule, f'{cq.replace("dinosaur.", "")}.from_si: the default of `{pn}` ({sym.show(t)[:50]}) is {what}', f'(m, s, kg, K) exponents {got}', (f.file, f.lineno),
                str(want), str(got))
  chk.at_least(rule, 7)


def rule_identity(chk, prog):
  """Grids and coordinate objects are static arguments of jitted functions and keys of caches: what compares equal shares compiled constants.
  Every field the numerics read (radius above all: it is what differs between two scales) must take part in equality."""
  from sa import identity
  rule = 'C12.9-identity-of-configuration-objects-covers-every-field'
  n = 0
  for q, c in sorted(prog.classes.items()):
    if not c.is_dataclass() or c.module.name.endswith('_test') or not c.fields:
      continue
    short = q.replace('dinosaur.', '')
    ex = [(f, ln, how) for f, ln, how in identity.excluded_fields(c) if identity.field_is_read(prog, c, f)]
    for f, ln, how in ex:
      chk.violation(rule, f'{short}.{f}: excluded from equality ({how})', f'two {c.name} objects that differ only in `{f}` compare equal: jit caches keyed by the object (static arguments), functools caches and '
                    'pytree aux data hand the second one the constants traced for the first — e.g. the grid radius of another scale', (c.file, ln), 'every field read by the numerics takes part in ==', how)
    if not ex:
      chk.ok(rule, f'{short}: every field takes part in equality / hash ({"custom __eq__" if "__eq__" in c.methods else "generated"})', ', '.join(f for f, _, _ in c.fields)[:120], (c.file, c.lineno))
    n += 1
  import os
  from sa import model as _model
  fx = _model.Program(os.path.join(os.path.dirname(os.path.dirname(os.path.abspath(__file__))), 'fixtures', 'identity_fixture'))
  got = {c_.name: sorted(f for f, _, _ in identity.excluded_fields(c_) if identity.field_is_read(fx, c_, f)) for c_ in fx.classes.values()}
  want = {'Complete': [], 'DropsRadius': ['radius'], 'CustomEqMissesOffset': ['offset'], 'ByIdentity': []}
  if got != want:
    raise AnalysisError(f'positive fixture for {rule} no longer matches ({got}): the scan is blind or over-eager')
  chk.ok(rule, 'positive fixture fixtures/identity_fixture: compare=False and a custom __eq__ that skips a field are reported; complete and identity-compared classes are not', str(got))
  chk.at_least(rule, 10)
  # the count of DFI steps (a quotient of two model times) must not flip with rounding noise between scales
  from rules import c14 as _c14
  _c14.rule_dfi_weights(chk, prog, count_rule='C12.8-counts-from-model-times-are-rounded')


def rule_filter_normalisation(chk, prog):
  """C12.10: the diffusion filter's time scale is fixed by scale·|λ_top|^order = dt/τ; λ_top must be the grid's own eigenvalue (which carries
  1/radius²) — a normalisation rebuilt from the bare wavenumber is right only for a unit non-dimensional radius. Instances of C15.9 re-filed."""
  from sa import report
  from rules import c15
  rule = 'C12.10-filter-normalisation-uses-the-grid-spectrum'
  probe = report.Check('C12-probe')
  c15.rule_diffusion_step(probe, prog)
  keep = [i for i in probe.instances if i['rule'] == 'C15.9-top-mode']
  if not keep:
    raise AnalysisError('C12: the top-mode instances of C15.9 were not produced')
  for i in keep:
    i = dict(i, rule=rule)
    chk.instances.append(i)
    if i['status'] != 'holds':
      chk.violations.append(i)
  if all(i['status'] == 'holds' for i in keep):
    chk.at_least(rule, 2)


def run(chk, prog, tier):
  rule_filter_normalisation(chk, prog)
  rule_identity(chk, prog)
  rule_si_dimensions(chk, prog)
  rule_default_scale(chk, prog)
  rule_quantity_typestate(chk, prog)
  rule_magnitude(chk, prog)
  rule_from_si(chk, prog)
  rule_radius(chk, prog)
  rule_coriolis(chk, prog)
  chk.assume('the user builds Grid(radius=physics_specs.radius); the library cannot check this pairing and neither can the analysis',
             'pint quantities: arithmetic on un-nondimensionalised Quantity objects would not silently mix with floats only when units are attached; parameters annotated Quantity are dimensional',
             'module-level constants computed with DEFAULT_SCALE are evaluated once at import')
  return dict(
      explanation=('All modules are scanned for module-level values computed under DEFAULT_SCALE; their uses (AST loads) and every call site of every function that '
                   'takes one of them as a default are enumerated and the bound argument expressions classified (physics_specs / forwarded parameter / default). '
                   'Quantity-annotated parameters of the forcing and initial-state constructors are tracked by abstract interpretation (including the returned '
                   'closures) and every occurrence must sit under a nondimensionalize call. .magnitude/.m reads are enumerated package-wide. The specs '
                   'constructors are matched field by field. The radius unit analysis of C02 is reused. Coriolis providers are compared as normal forms. Not '
                   'decided: numerical equality of re-dimensionalised tendencies under two scales.'),
      trusted_base=['python ast', 'sympy canonicalisation', 'pint unit algebra'],
      analysed=dict(modules=sorted(m.replace('dinosaur.', '') for m in prog.modules), quantity_functions=QUANTITY_FUNCS),
  )
