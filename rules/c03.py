"""C03 — the implicit solve is the exact inverse of (1 − η·implicit tendency)."""
from __future__ import annotations

import sympy as sp

from sa import alg, domains, guards, match, sym, util
from sa.model import AnalysisError
from sa.sym import Term
from rules import common

PE = 'primitive_equations'
SW = 'shallow_water'
TI = 'time_integration'

CLAIM = dict(
    text=('Decides the structural clauses that make the solve an inverse: every vertical prefix sum in primitive_equations.py carries a layer measure (so the '
          'cumulative-sum forms can equal the dense operators on uneven levels); every field of the implicit tendency (dry, with-time, shallow-water) is '
          'linear-homogeneous in the state; the operator read from implicit_terms (coefficients of T′, ln pₛ, div per field, as normal forms over λ, G, H, Δσ, '
          'R, T_ref) equals −1/η times the off-diagonal blocks assembled in _get_implicit_term_matrix, whose diagonal blocks are identities free of η; the '
          'cumulative-sum variants agree with the dense ones (H: row factors divided by the column thickness, sums of div·Δσ); split / stacked / blockwise '
          'each combine the right sub-blocks with the right fields, pass vorticity and tracers through and raise on an unknown method, on a partition of '
          '0…2L+1; the blockwise right-hand sides equal d − M₀₁t − M₀₂σ, t − M₁₀d, σ − M₂₀d; the shallow-water solve times (1 − η·L) normalises to the '
          'identity; the reversed equation negates the step; a traced step size is rejected before any numpy inverse. Does not decide that np.linalg.inv '
          'inverts to rounding error, nor numerical equality of the strategies.'
          ' Later additions: C03.8 operator tables are never updated in place and hand-rolled memo tables are keyed by everything their value is computed from (key completeness over parameter attribute paths, with a positive fixture).'),
    note=('Trusted: numpy.linalg.inv / eye / einsum / broadcast_to / concatenate semantics; matvec helpers are the einsums they name. Operators that are '
          'diagonal in (m, l) are treated as commuting scalars per wavenumber when coefficients are compared (λ, η, R); vertical matrices appear at most once '
          'per compared product.'),
    technique='abstract interpretation + LIN domain + normal-form comparison of operator coefficients between sibling implementations + VWEIGHT dependence',
)

PE_OPAQUE = common.SIGMA_PROPS | {
    f'{PE}.get_geopotential_weights', f'{PE}.get_temperature_implicit_weights', f'{PE}._vertical_matvec', f'{PE}._vertical_matvec_per_wavenumber',
    'spherical_harmonic.Grid.laplacian', 'spherical_harmonic.Grid.laplacian_eigenvalues', f'{PE}.get_sigma_ratios',
}


def S(n):
  return Term('sym', n)


def state_field(name):
  return lambda t: t.k == 'attr' and t.a[1] == name and t.a[0].k == 'sym' and t.a[0].a[0] == 'state'


def is_state(t):
  return t.k == 'attr' and t.a[0].k == 'sym' and t.a[0].a[0] == 'state'


def linear_slots(t):
  """Linear argument slots of the repo's linear operators (None = not a known linear op)."""
  n = util.callee_name(t)
  args = util.call_args(t)
  if n in ('get_geopotential_diff', 'get_temperature_implicit') and args:
    return [args[0]]
  if n in ('laplacian', 'inverse_laplacian', 'clip_wavenumbers', 'to_modal', 'to_nodal') and args:
    return [args[0]]
  if n in ('_vertical_matvec', '_vertical_matvec_per_wavenumber') and len(args) == 2:
    return args
  if n in ('cumsum', 'reverse_cumsum') and args:
    return [args[0]]
  return None


class OpAlgebra(alg.Algebra):
  """Vertical/horizontal linear operators as commuting coefficient symbols."""

  def __init__(self, ev):
    super().__init__(ev)
    self.lam = sp.Symbol('λ')
    self.I = sp.Integer(1)

  def _conv(self, t):
    k, a = t.k, t.a
    if k == 'call':
      n = util.callee_name(t)
      args = util.call_args(t)
      kw = util.call_kwargs(t)
      if n in ('_vertical_matvec', '_vertical_matvec_per_wavenumber') and len(args) == 2:
        return self.conv(args[0]) * self.conv(args[1])
      if n == 'laplacian' and len(args) == 1:
        return self.lam * self.conv(args[0])
      if n == 'get_geopotential_weights':
        return sp.Function('Gw')(*[self.conv(x) for x in args])
      if n == 'get_temperature_implicit_weights':
        return sp.Function('Hw')(*[self.conv(x) for x in args])
      if n == 'get_geopotential_diff' and len(args) >= 3:
        return sp.Function('Gw')(self.conv(args[1]), self.conv(args[2])) * self.conv(args[0])
      if n == 'get_temperature_implicit' and len(args) >= 4:
        return -sp.Function('Hw')(self.conv(args[1]), self.conv(args[2]), self.conv(args[3])) * self.conv(args[0])
      short = alg.ext_short(a[0])
      if short == 'einsum' and a[1] and a[1][0].k == 'const' and isinstance(a[1][0].a[0], str):
        out = sp.Integer(1)
        for x in a[1][1:]:
          out = out * self.conv(x)
        return out
      if short == 'broadcast_to' and a[1]:
        return self.conv(a[1][0])
      if short in ('eye', 'ones'):
        return self.I
      if short == 'zeros':
        return sp.Integer(0)
    if k == 'attr' and a[1] == 'laplacian_eigenvalues':
      return self.lam
    if k == 'attr' and a[1] == 'T_ref':
      return self.atom(Term('attr', a[0], 'reference_temperature'))
    if k == 'sym' and a[0] == 'reference_temperature':
      return self.atom(t)
    return super()._conv(t)


def normalise_names(A, e):
  """Identify `self.reference_temperature` / parameter `reference_temperature` etc. by role name."""
  return e


# ------------------------------------------------------------ LIN + blocks
def rule_linear(chk, prog):
  rule = 'C03.2-linear'
  lin = lambda: domains.Lin(lambda t: is_state(t) or (t.k == 'leaf' and is_state(t.a[0])), linear_slots)
  sites = [
      (f'{PE}.PrimitiveEquations', 'implicit_terms', PE_OPAQUE | {f'{PE}.get_geopotential_diff', f'{PE}.get_temperature_implicit'}),
      (f'{PE}.PrimitiveEquations', 'implicit_inverse', PE_OPAQUE | {f'{PE}.get_geopotential_diff', f'{PE}.get_temperature_implicit', f'{PE}._get_implicit_term_matrix'}),
      (f'{SW}.ShallowWaterEquations', 'implicit_terms', {'spherical_harmonic.Grid.laplacian_eigenvalues'}),
      (f'{SW}.ShallowWaterEquations', 'implicit_inverse', {'spherical_harmonic.Grid.laplacian_eigenvalues'}),
  ]
  for cq, m, opaque in sites:
    c = prog.cls(cq)
    f = c.find_method(m)
    chk.require(f is not None, f'{cq}.{m} not found')
    ev = sym.Evaluator(prog, sym.Options(opaque=opaque))
    v, ctx, env = ev.run(f)
    chk.require(v.k == 'obj', f'{cq}.{m}: does not return a State: {sym.show(v)[:100]}')
    L = lin()
    for name, val in v.a[1]:
      cls_ = L.of(val)
      chk.check(cls_ in ('Z', 'L'), rule, f'{cq.replace("dinosaur.", "")}.{m}: field `{name}` is linear-homogeneous in the state', f'class {cls_}: {sym.show(val, maxdepth=5)[:160]}',
                val.loc or (f.file, f.lineno), 'Z or L', cls_)
  # with-time wrappers: sim_time tendency is the constant 0 and the solve returns the incoming clock
  c = prog.cls(f'{PE}.PrimitiveEquationsWithTime')
  for m, want in (('implicit_terms', 'zero'), ('implicit_inverse', 'same')):
    f = c.find_method(m)
    chk.require(f is not None and f.cls is c, f'PrimitiveEquationsWithTime.{m} not found')
    ev = sym.Evaluator(prog, sym.Options(opaque={f'{PE}.PrimitiveEquations.{m}'}))
    v, ctx, env = ev.run(f)
    st = util.field(v, 'sim_time') if v.k == 'obj' else None
    if want == 'zero':
      ok = st is not None and st.k == 'const' and st.a[0] == 0 and not isinstance(st.a[0], bool)
      chk.check(ok, rule, f'{PE}.PrimitiveEquationsWithTime.implicit_terms: sim_time tendency is the constant 0', sym.show(st) if st is not None else 'missing', (f.file, f.lineno), '0.0', sym.show(st) if st is not None else 'missing')
    else:
      ok = st is not None and st == Term('attr', S('state'), 'sim_time')
      chk.check(ok, rule, f'{PE}.PrimitiveEquationsWithTime.implicit_inverse: the clock passes through the solve unchanged', sym.show(st) if st is not None else 'missing', (f.file, f.lineno),
                'state.sim_time', sym.show(st) if st is not None else 'missing')
    # the remaining fields come from the parent applied to the state without time
    parent = [t for t in sym.walk(v) if t.k == 'call' and util.callee_name(t) == m]
    okp = bool(parent) and all(util.call_args(p)[0].k == 'obj' and all(fv == Term('attr', S('state'), fn) for fn, fv in util.call_args(p)[0].a[1]) for p in parent)
    chk.check(okp, rule, f'{PE}.PrimitiveEquationsWithTime.{m}: delegates to the dry equations on the same fields', sym.show(parent[0])[:120] if parent else 'no parent call', (f.file, f.lineno))
  chk.at_least(rule, 20)


def matrix_blocks(chk, prog, ev):
  """3×3 table of block terms from _get_implicit_term_matrix."""
  f = prog.func(f'{PE}._get_implicit_term_matrix')
  v, ctx, env = ev.run(f)
  site = f'{PE}._get_implicit_term_matrix'
  cp = match.concat_parts(v)
  chk.require(cp is not None and len(cp[0]) == 3 and cp[1] == sym.const(1), f'{site}: not a concatenation of three block rows along axis 1: {sym.show(v)[:120]}')
  rows = []
  for r in cp[0]:
    rp = match.concat_parts(r)
    chk.require(rp is not None and len(rp[0]) == 3 and rp[1] == sym.const(2), f'{site}: a block row is not a concatenation of three blocks along axis 2')
    rows.append(rp[0])
  return f, rows, env


def rule_blocks(chk, prog):
  rule = 'C03.3-operator-agreement'
  ev = sym.Evaluator(prog, sym.Options(opaque=PE_OPAQUE | {f'{PE}.get_geopotential_diff', f'{PE}.get_temperature_implicit'}))
  fM, rows, menv = matrix_blocks(chk, prog, ev)
  A = OpAlgebra(ev)
  eta = A.conv(S('eta'))
  fields = ['divergence', 'temperature_variation', 'log_surface_pressure']
  M = [[A.conv(b) for b in row] for row in rows]
  # implicit_terms with the dense vertical products inlined
  c = prog.cls(f'{PE}.PrimitiveEquations')
  f = c.find_method('implicit_terms')
  v, ctx, env = ev.run(f)
  chk.require(v.k == 'obj', 'implicit_terms does not return a State')
  B = OpAlgebra(ev)
  x = {n: B.name(state_field(n), {'divergence': 'd', 'temperature_variation': 't', 'log_surface_pressure': 'sigma', 'vorticity': 'zeta'}[n])
       for n in fields + ['vorticity']}
  out = {n: sp.expand(B.conv(util.field(v, n))) for n in fields + ['vorticity']}
  # rename role-equivalent atoms: self.physics_specs.ideal_gas_constant ↔ parameter ideal_gas_constant, etc.
  def role(e, alg_):
    repl = {}
    for s_, t in list(alg_.rev.items()):
      nm = None
      if t.k == 'attr' and t.a[1] in ('ideal_gas_constant', 'kappa', 'reference_temperature', 'layer_thickness', 'vertical', 'R'):
        nm = {'R': 'ideal_gas_constant'}.get(t.a[1], t.a[1])
      elif t.k == 'sym' and t.a[0] in ('ideal_gas_constant', 'kappa', 'reference_temperature', 'eta', 'step_size'):
        nm = {'step_size': 'eta'}.get(t.a[0], t.a[0])
      if nm:
        repl[s_] = sp.Symbol('role_' + nm)
    return e.xreplace(repl)
  loc = (f.file, f.lineno)
  for r, fr in enumerate(fields):
    for cidx, fc in enumerate(fields):
      key = f'{PE}: block ({fr} ← {fc})'
      Lrc = sp.expand(out[fr]).coeff(x[fc], 1)
      Mrc = M[r][cidx]
      if r == cidx:
        chk.check(role(Mrc, A) == 1 and role(Lrc, B) == 0, rule, key + ' is the identity and the implicit tendency has no self-coupling', f'M = {Mrc}; L = {Lrc}',
                  (fM.file, fM.lineno), 'M = I, L = 0', f'M = {Mrc}, L = {Lrc}')
        continue
      lhs = role(sp.expand(Mrc), A)
      rhs = role(sp.expand(-sp.Symbol('role_eta') * Lrc), B)
      chk.check(alg.equal(lhs, rhs), rule, key + ': matrix block equals −η × (coefficient in implicit_terms)', f'matrix {lhs}; −η·L {rhs}', (fM.file, fM.lineno),
                str(rhs), str(lhs))
  # no other field is coupled
  for n in fields + ['vorticity']:
    e = out[n]
    extra = [s_ for s_ in e.free_symbols if s_ in B.rev and is_state(B.rev[s_]) and s_ not in x.values()]
    chk.check(not extra, rule, f'{PE}.implicit_terms: `{n}` couples only to divergence / temperature / surface pressure', str(e)[:160], loc)
  vort = util.field(v, 'vorticity')
  tr = util.field(v, 'tracers')
  chk.check(domains.Lin(is_state, linear_slots).of(vort) == 'Z', rule, f'{PE}.implicit_terms: vorticity has no implicit tendency', sym.show(vort), loc)
  okt = tr is not None and tr.k == 'mapover' and match.is_ext_call(tr.a[0], 'zeros_like')
  chk.check(okt, rule, f'{PE}.implicit_terms: tracers have no implicit tendency', sym.show(tr) if tr is not None else 'missing', loc)
  chk.at_least(rule, 14)


def rule_sparse_dense(chk, prog):
  """The cumulative-sum variants of G and H agree with the dense operators (structure of the H split)."""
  rule = 'C03.3b-sparse-forms'
  ev = sym.Evaluator(prog, sym.Options(opaque=PE_OPAQUE))
  f = prog.func(f'{PE}.get_temperature_implicit')
  site, loc = f'{PE}.get_temperature_implicit', (f.file, f.lineno)
  vd, _, _ = ev.run(f, bind={'method': sym.const('dense')})
  Hcall = lambda t: t.k == 'call' and util.callee_name(t) == 'get_temperature_implicit_weights'
  okd = (vd.k == 'call' and util.callee_name(vd) == '_vertical_matvec' and util.call_args(vd)[1] == S('divergence') and util.call_args(vd)[0].k == 'un'
         and util.call_args(vd)[0].a[0] == '-' and Hcall(util.call_args(vd)[0].a[1]))
  chk.check(okd, rule, f'{site}[dense]: −H · divergence', sym.show(vd)[:160], loc, '_vertical_matvec(-H, divergence)', sym.show(vd)[:160])
  if okd:
    b = ev.bind_args(prog.func(f'{PE}.get_temperature_implicit_weights'), list(util.call_args(vd)[0].a[1].a[1]), list(util.call_args(vd)[0].a[1].a[2]), None, None)
    chk.check(b is not None and b['coordinates'] == S('coordinates') and b['reference_temperature'] == S('reference_temperature') and b['kappa'] == S('kappa'), rule,
              f'{site}: H is built from the given coordinates, reference temperature and kappa', sym.show(util.call_args(vd)[0].a[1]), loc)
  vs, _, _ = ev.run(f, bind={'method': sym.const('sparse')})
  arms = [vs.a[1], vs.a[2]] if vs.k == 'phi' else [vs]
  full = arms[0]
  cums = [t for t in sym.walk(full) if t.k == 'call' and util.callee_qual(t) in ('dinosaur.jax_numpy_utils.cumsum', 'dinosaur.jax_numpy_utils.reverse_cumsum')]
  kinds = sorted(util.callee_name(t) for t in set(cums))
  if not chk.check(kinds == ['cumsum', 'reverse_cumsum'], rule, f'{site}[sparse]: one downward and one upward prefix sum', str(kinds), loc):
    return
  thick = Term('attr', S('coordinates'), 'layer_thickness')
  A = alg.Algebra(ev, opaque=lambda t: t in cums or match.is_ext_call(t, 'concatenate', 'diag'))
  d = A.conv(S('divergence'))
  th = A.conv(thick)
  for cs in set(cums):
    op = cs.a[1][0]
    chk.check(alg.equal(A.conv(op), th * d), rule, f'{site}[sparse]: {util.callee_name(cs)} sums divergence · layer_thickness', sym.show(op)[:120], cs.loc or loc, 'layer_thickness * divergence', sym.show(op)[:120])
    kw = util.call_kwargs(cs)
    chk.check(kw.get('axis', cs.a[1][1] if len(cs.a[1]) > 1 else None) == sym.const(0) and kw.get('sharding') == S('sharding'), rule,
              f'{site}[sparse]: {util.callee_name(cs)} runs along the level axis with the given sharding', str({k: sym.show(v_) for k, v_ in kw.items()}), cs.loc or loc)
  # row-factor vectors: up = [0, W[1:,0]/Δσ[0]], down = [W[:-1,-1]/Δσ[-1], 0], diag = diag(W), W = −H
  cats = list({t for t in sym.walk(full) if match.is_ext_call(t, 'concatenate')})
  diags = list({t for t in sym.walk(full) if match.is_ext_call(t, 'diag')})
  def describe(cat):
    parts = match.concat_parts(cat)
    if parts is None or len(parts[0]) != 2:
      return None
    a, b = parts[0]
    zero = Term('list', sym.const(0))
    if a == zero:
      return 'up', b
    if b == zero:
      return 'down', a
    return None
  got = {}
  for cat in cats:
    dsc = describe(cat)
    if dsc:
      got[dsc[0]] = (cat, dsc[1])
  ok = set(got) == {'up', 'down'} and len(diags) == 1
  if chk.check(ok, rule, f'{site}[sparse]: row-factor vectors for the rows above ([0, …]) and below ([…, 0]) the diagonal, plus the diagonal', str(sorted(got)), loc):
    W = Term('un', '-', [t for t in sym.walk(full) if Hcall(t)][0])
    def col_factor(vec, rows, col):
      B = alg.Algebra(ev, opaque=lambda t: t.k == 'sub')
      want_w = Term('sub', W, Term('tuple', rows, sym.const(col)))
      want_t = Term('sub', thick, sym.const(col))
      return alg.equal(B.conv(vec), B.conv(want_w) / B.conv(want_t))
    sl = lambda lo, hi: Term('slice', sym.const(lo) if lo is not None else sym.NONE, sym.const(hi) if hi is not None else sym.NONE, sym.NONE)
    chk.check(col_factor(got['up'][1], sl(1, None), 0), rule, f'{site}[sparse]: factors below the diagonal are W[1:, 0] / Δσ[0] (column weight removed)', sym.show(got['up'][1])[:160], loc,
              'weights[1:, 0] / layer_thickness[0]', sym.show(got['up'][1])[:160])
    chk.check(col_factor(got['down'][1], sl(None, -1), -1), rule, f'{site}[sparse]: factors above the diagonal are W[:-1, -1] / Δσ[-1]', sym.show(got['down'][1])[:160], loc,
              'weights[:-1, -1] / layer_thickness[-1]', sym.show(got['down'][1])[:160])
    chk.check(diags[0].a[1][0] == W, rule, f'{site}[sparse]: the diagonal factor is diag(W)', sym.show(diags[0])[:120], loc)
    csum = [t for t in set(cums) if util.callee_name(t) == 'cumsum'][0]
    rsum = [t for t in set(cums) if util.callee_name(t) == 'reverse_cumsum'][0]
    up, dn, dg = A.atom(got['up'][0]), A.atom(got['down'][0]), A.atom(diags[0])
    want = up * (A.atom(csum) - th * d) + dg * d + dn * (A.atom(rsum) - th * d)
    chk.check(alg.equal(A.conv(full), want), rule, f'{site}[sparse]: result = up·(Σ_{{s<r}} ΔσD) + diag·D + down·(Σ_{{s>r}} ΔσD) (exclusive prefix sums)', sym.show(full, maxdepth=4)[:160], loc,
              'up*(cumsum - ΔσD) + diag*D + down*(reverse_cumsum - ΔσD)', str(sp.simplify(A.conv(full)))[:200])
    if vs.k == 'phi':
      short = arms[1]
      want2 = up * (A.atom(csum) - th * d) + dg * d
      okc = alg.equal(A.conv(short), want2) and sym.contains(vs.a[0], lambda t: t == got['down'][0])
      chk.check(okc, rule, f'{site}[sparse]: the upward sum is skipped only when all its row factors vanish', sym.show(vs.a[0])[:160], loc)
  chk.at_least(rule, 10)


# -------------------------------------------------------- solve strategies
def slices_table(ev, env, A=None, Ls=None):
  """{role: slice term} for the index sets of the implicit matrix, identified by their bounds (normal forms in
  L = layers), not by the names of the locals that hold them: div=[0,L) temp=[L,2L) logp=[2L,2L+1) temp_logp=[L,2L+1)."""
  out = {}
  if A is None:
    return out
  roles = {'div': (0, Ls), 'temp': (Ls, 2 * Ls), 'logp': (2 * Ls, 2 * Ls + 1), 'temp_logp': (Ls, 2 * Ls + 1)}
  cands = []
  for x in env.values():
    if isinstance(x, Term) and x.k == 'slice' and x not in cands:
      cands.append(x)
  for x in cands:
    if x.a[2] != sym.NONE:
      continue
    lo = A.conv(x.a[0]) if x.a[0] != sym.NONE else sp.Integer(0)
    if x.a[1] == sym.NONE:
      continue
    hi = A.conv(x.a[1])
    for role, (rlo, rhi) in roles.items():
      if alg.equal(lo, rlo) and alg.equal(hi, rhi) and role not in out:
        out[role] = x
  return out


def rule_strategies(chk, prog):
  rule = 'C03.4-solve-strategies'
  c = prog.cls(f'{PE}.PrimitiveEquations')
  f = c.find_method('implicit_inverse')
  site, loc = f'{PE}.PrimitiveEquations.implicit_inverse', (f.file, f.lineno)
  opaque = PE_OPAQUE | {f'{PE}._get_implicit_term_matrix', f'{PE}.get_geopotential_diff', f'{PE}.get_temperature_implicit'}
  ev = sym.Evaluator(prog, sym.Options(opaque=opaque))
  # the four index sets partition range(2L+1)
  v, ctx, env = ev.run(f, bind={'method': sym.const('split')})
  L = Term('attr', Term('attr', Term('attr', Term('sym', 'self:PrimitiveEquations', cls=c), 'coords'), 'vertical'), 'layers')
  A = alg.Algebra(ev)
  Ls = A.conv(L)
  tbl = slices_table(ev, env, A, Ls)
  nslices = len({x for x in env.values() if isinstance(x, Term) and x.k == 'slice'})
  okp = set(tbl) == {'div', 'temp', 'logp', 'temp_logp'} and nslices == 4
  chk.check(okp, rule, f'{site}: div / temp / logp index sets partition range(2·layers + 1) in the order of the matrix blocks', str({n: sym.show(t) for n, t in tbl.items()}), loc,
            'div=[0,L) temp=[L,2L) logp=[2L,2L+1) temp_logp=[L,2L+1)', str({n: sym.show(t) for n, t in tbl.items()}))
  # tracer guard before any inverse
  tr = [(p, e, l) for p, e, l in ctx.raises if sym.contains(guards.path_cond(p), lambda t: t.k == 'call' and t.a[0] == Term('ext', 'isinstance'))]
  okg = False
  if tr:
    p = tr[0][0]
    cnd = guards.path_cond(p)
    okg = (len(p) == 1 and cnd.k == 'call' and cnd.a[0] == Term('ext', 'isinstance') and cnd.a[1][0] == S('step_size')
           and sym.contains(cnd.a[1][1], lambda t: t.k == 'ext' and t.a[0].endswith('Tracer')))
  chk.check(okg, 'C03.7-static-step', f'{site}: a traced step size raises before any numpy inverse is taken', sym.show(guards.path_cond(tr[0][0])) if tr else 'no Tracer guard', loc,
            'if isinstance(step_size, Tracer): raise  (first statement)', sym.show(guards.path_cond(tr[0][0])) if tr else 'missing')
  # unknown method raises
  vu, ctxu, envu = ev.run(f)
  lits = set()
  for p, e, l in ctxu.raises:
    for cnd in p:
      for t in sym.walk(cnd):
        if t.k == 'cmp' and t.a[0] == ('==',) and t.a[1][0] == S('method') and t.a[1][1].k == 'const':
          lits.add(t.a[1][1].a[0])
  chk.check(lits >= {'split', 'stacked', 'blockwise'}, rule, f'{site}: any other `method` raises', str(sorted(lits)), loc, "raise unless method ∈ {split, stacked, blockwise}", str(sorted(lits)))
  Mcall = lambda t: t.k == 'call' and util.callee_name(t) == '_get_implicit_term_matrix'
  fields = {'div': 'divergence', 'temp': 'temperature_variation', 'logp': 'log_surface_pressure'}
  sname = {tbl[n]: n for n in tbl} if okp else {}
  stf = lambda n: Term('attr', S('state'), n)

  def passthrough(v, mname):
    chk.check(util.field(v, 'vorticity') == stf('vorticity') and util.field(v, 'tracers') == stf('tracers'), rule,
              f'{site}[{mname}]: vorticity and tracers are returned unchanged', f"{sym.show(util.field(v, 'vorticity'))}, {sym.show(util.field(v, 'tracers'))}", loc)

  def matrix_args_ok(t):
    b = ev.bind_args(prog.func(f'{PE}._get_implicit_term_matrix'), list(t.a[1]), list(t.a[2]), None, None)
    if b is None:
      return False
    return (b['eta'] == S('step_size') and sym.show(b['coords']).endswith('.coords') and sym.show(b['reference_temperature']).endswith('.reference_temperature')
            and sym.show(b['kappa']).endswith('physics_specs.kappa') and sym.show(b['ideal_gas_constant']).endswith(('physics_specs.ideal_gas_constant', 'physics_specs.R')))

  for mname in ('split', 'stacked', 'blockwise'):
    v, ctx, env = ev.run(f, bind={'method': sym.const(mname)})
    chk.require(v.k == 'obj', f'{site}[{mname}]: does not return a State')
    passthrough(v, mname)
    ms = list({t for t in sym.walk(v) if Mcall(t)})
    chk.check(len(ms) == 1 and matrix_args_ok(ms[0]), rule, f'{site}[{mname}]: the implicit matrix is built once from (step_size, coords, reference_temperature, kappa, R) of this equation',
              sym.show(ms[0])[:160] if ms else 'no matrix', loc)
    if not okp or len(ms) != 1:
      continue
    Mt = ms[0]
    inv_of = lambda t: t.k == 'call' and t.a[0].k == 'ext' and t.a[0].a[0] == 'numpy.linalg.inv'
    if mname == 'split':
      for r, fr in fields.items():
        val = util.field(v, fr)
        mvs = [t for t in sym.walk(val) if t.k == 'call' and util.callee_name(t) == '_vertical_matvec_per_wavenumber']
        pairs = set()
        good = True
        for mv in mvs:
          blk, x = util.call_args(mv)
          ok1 = blk.k == 'sub' and inv_of(blk.a[0]) and blk.a[0].a[1][0] == Mt and blk.a[1].k == 'tuple' and len(blk.a[1].a) == 3
          if not ok1:
            good = False
            continue
          rs, cs = blk.a[1].a[1], blk.a[1].a[2]
          pairs.add((sname.get(rs), sname.get(cs), sym.show(x)))
        want = {(r, cc, f'state.{fields[cc]}') for cc in fields}
        Bq = alg.Algebra(ev, opaque=lambda t: t in mvs)
        esum = sp.expand(Bq.conv(val))
        oks = good and pairs == want and all(esum.coeff(Bq.atom(mv), 1) == 1 for mv in mvs) and len(mvs) == 3
        chk.check(oks, rule, f'{site}[split]: {fr} = Σ_c inverse[{r}, c] · state.c over the three coupled fields', str(sorted(pairs)), val.loc or loc, str(sorted(want)), str(sorted(pairs)))
    elif mname == 'stacked':
      vals = {r: util.field(v, fr) for r, fr in fields.items()}
      ok = True
      stacked = None
      for r, val in vals.items():
        if not (val.k == 'sub' and sname.get(val.a[1]) == r):
          ok = False
          continue
        stacked = val.a[0]
      if ok and stacked is not None and stacked.k == 'call' and util.callee_name(stacked) == '_vertical_matvec_per_wavenumber':
        blk, x = util.call_args(stacked)
        cp = match.concat_parts(x)
        ok = (inv_of(blk) and blk.a[1][0] == Mt and cp is not None and [sym.show(p_) for p_ in cp[0]] == [f'state.{fields[k_]}' for k_ in ('div', 'temp', 'logp')]
              and (cp[1] is None or cp[1] == sym.const(0)))
      else:
        ok = False
      chk.check(ok, rule, f'{site}[stacked]: inverse · concatenate([div, temp, logp]) split with the same index sets', sym.show(stacked)[:160] if stacked is not None else 'n/a', loc)
    else:
      rule_blockwise(chk, prog, ev, f, v, env, Mt, tbl, sname, fields, site, loc)
  chk.at_least(rule, 12)
  chk.at_least('C03.7-static-step', 1)


def rule_blockwise(chk, prog, ev, f, v, env, Mt, tbl, sname, fields, site, loc):
  rule = 'C03.4-solve-strategies'
  ev2 = sym.Evaluator(prog, sym.Options(opaque=PE_OPAQUE))
  fM, rows, _ = matrix_blocks(chk, prog, ev2)
  Aop = OpAlgebra(ev2)
  Mblk = [[Aop.conv(b) for b in row] for row in rows]
  idx = {'div': 0, 'temp': 1, 'logp': 2}
  inv_of = lambda t: t.k == 'call' and t.a[0].k == 'ext' and t.a[0].a[0] == 'numpy.linalg.inv'

  class BW(OpAlgebra):
    def _conv(self_, t):
      if t.k == 'sub' and t.a[0] == Mt and t.a[1].k == 'tuple' and len(t.a[1].a) == 3:
        rs, cs = sname.get(t.a[1].a[1]), sname.get(t.a[1].a[2])
        if rs in idx and cs in idx:
          return sp.Symbol(f'M_{idx[rs]}{idx[cs]}')
      return super()._conv(t)

  B = BW(ev)
  d, t_, s_ = (B.name(state_field(n), nm) for n, nm in (('divergence', 'd'), ('temperature_variation', 't'), ('log_surface_pressure', 'sigma')))

  def role(e, alg_):
    repl = {}
    for sy, tt in list(alg_.rev.items()):
      nm = None
      if tt.k == 'attr' and tt.a[1] in ('ideal_gas_constant', 'kappa', 'reference_temperature', 'layer_thickness', 'vertical', 'R'):
        nm = {'R': 'ideal_gas_constant'}.get(tt.a[1], tt.a[1])
      elif tt.k == 'sym' and tt.a[0] in ('ideal_gas_constant', 'kappa', 'reference_temperature', 'eta', 'step_size'):
        nm = {'step_size': 'eta'}.get(tt.a[0], tt.a[0])
      if nm:
        repl[sy] = sp.Symbol('role_' + nm)
    return e.xreplace(repl)

  msub = {sp.Symbol(f'M_{r}{c}'): role(Mblk[r][c], Aop) for r in range(3) for c in range(3)}
  solves = {}
  for r, fr in fields.items():
    val = util.field(v, fr)
    solves[r] = [x for x in sym.walk(val) if x.k == 'call' and util.callee_name(x) == '_vertical_matvec_per_wavenumber' and
                 sym.contains(util.call_args(x)[0], inv_of)]
  # divergence: one solve with (I − G H)^-1 on d − M01 t − M02 σ
  dv = util.field(v, 'divergence')
  ok = len(solves['div']) == 1 and dv == solves['div'][0]
  if chk.check(ok, rule, f'{site}[blockwise]: divergence comes from one L×L solve', sym.show(dv, maxdepth=3)[:120], loc):
    blk, rhs = util.call_args(dv)
    e = role(sp.expand(B.conv(rhs)), B).xreplace(msub)
    want = sp.Symbol('d') - msub[sp.Symbol('M_01')] * sp.Symbol('t') - msub[sp.Symbol('M_02')] * sp.Symbol('sigma')
    chk.check(alg.equal(e, want), rule, f'{site}[blockwise]: right-hand side of the divergence solve is d − M₀₁·t − M₀₂·σ (matrix-free G with the same η, λ, R)', str(e), rhs.loc or loc,
              str(sp.expand(want)), str(sp.expand(e)))
    okinv = inv_of(blk) and schur_ok(blk.a[1][0], Mt, sname, ('div', 'temp_logp'), ('temp_logp', 'div'), 0)
    chk.check(okinv, rule, f'{site}[blockwise]: divergence solve uses inv(I_L − M[div, rest] @ M[rest, div])', sym.show(blk, maxdepth=5)[:200], loc)
  # temperature / log-pressure parts
  tv, lv = util.field(v, 'temperature_variation'), util.field(v, 'log_surface_pressure')
  mv_t = [x for x in sym.walk(tv) if x.k == 'call' and util.callee_name(x) == '_vertical_matvec_per_wavenumber' and sym.contains(util.call_args(x)[0], inv_of)]
  mv_l = [x for x in sym.walk(lv) if x.k == 'call' and util.callee_name(x) == '_vertical_matvec_per_wavenumber' and sym.contains(util.call_args(x)[0], inv_of)]
  if not chk.check(len(mv_t) == 2 and len(mv_l) == 2, rule, f'{site}[blockwise]: temperature and log-pressure are each the sum of two sub-block products of the (L+1)×(L+1) inverse',
                   f'{len(mv_t)} / {len(mv_l)}', loc):
    return
  Bq = alg.Algebra(ev, opaque=lambda x: x in mv_t or x in mv_l)
  chk.check(sp.expand(Bq.conv(tv) - sum(Bq.atom(x) for x in mv_t)) == 0 and sp.expand(Bq.conv(lv) - sum(Bq.atom(x) for x in mv_l)) == 0, rule,
            f'{site}[blockwise]: the two products are added with coefficient 1', '', loc)
  sl = lambda lo, hi: Term('slice', sym.const(lo) if lo is not None else sym.NONE, sym.const(hi) if hi is not None else sym.NONE, sym.NONE)
  def cls_slice(s_):
    # ':-1' → 'T' (first L rows/cols), '-1:' → 'S' (last)
    if s_.k == 'slice':
      lo, hi = s_.a[0], s_.a[1]
      if lo == sym.NONE and hi == sym.const(-1):
        return 'T'
      if lo == sym.const(-1) and hi == sym.NONE:
        return 'S'
    return None
  parts = {}
  for which, mvs in (('T', mv_t), ('S', mv_l)):
    for mv in mvs:
      blk, rhs = util.call_args(mv)
      if not (blk.k == 'sub' and inv_of(blk.a[0]) and blk.a[1].k == 'tuple' and len(blk.a[1].a) == 3):
        continue
      rr, cc = cls_slice(blk.a[1].a[1]), cls_slice(blk.a[1].a[2])
      parts[(which, rr, cc)] = (blk.a[0], rhs)
  want_keys = {('T', 'T', 'T'), ('T', 'T', 'S'), ('S', 'S', 'T'), ('S', 'S', 'S')}
  if not chk.check(set(parts) == want_keys, rule, f'{site}[blockwise]: output rows T/σ use inverse rows [:-1]/[-1:] with columns [:-1] (temperature part) and [-1:] (pressure part)',
                   str(sorted(parts)), loc, str(sorted(want_keys)), str(sorted(parts))):
    return
  invs = {p[0] for p in parts.values()}
  chk.check(len(invs) == 1 and schur_ok(list(invs)[0].a[1][0], Mt, sname, ('temp_logp', 'div'), ('div', 'temp_logp'), 1), rule,
            f'{site}[blockwise]: one inverse inv(I_(L+1) − M[rest, div] @ M[div, rest]) serves all four products', sym.show(list(invs)[0], maxdepth=5)[:200], loc)
  tparts = {parts[k][1] for k in parts if k[2] == 'T'}
  sparts = {parts[k][1] for k in parts if k[2] == 'S'}
  if chk.check(len(tparts) == 1 and len(sparts) == 1, rule, f'{site}[blockwise]: both rows use the same temperature part and the same pressure part', '', loc):
    et = role(sp.expand(B.conv(list(tparts)[0])), B).xreplace(msub)
    es = role(sp.expand(B.conv(list(sparts)[0])), B).xreplace(msub)
    wt = sp.Symbol('t') - msub[sp.Symbol('M_10')] * sp.Symbol('d')
    ws = sp.Symbol('sigma') - msub[sp.Symbol('M_20')] * sp.Symbol('d')
    chk.check(alg.equal(et, wt), rule, f'{site}[blockwise]: temperature part is t − M₁₀·d (matrix-free H with the same η, κ, T_ref)', str(et), loc, str(sp.expand(wt)), str(sp.expand(et)))
    chk.check(alg.equal(es, ws), rule, f'{site}[blockwise]: pressure part is σ − M₂₀·d', str(es), loc, str(sp.expand(ws)), str(sp.expand(es)))
  # matrix-free calls use the sparse method and this equation's constants
  for x in sym.walk(v):
    if x.k == 'call' and util.callee_name(x) in ('get_geopotential_diff', 'get_temperature_implicit'):
      kw = util.call_kwargs(x)
      chk.check(kw.get('method') == sym.const('sparse'), rule, f'{site}[blockwise]: {util.callee_name(x)} is applied matrix-free (method=sparse)', sym.show(kw.get('method')) if kw.get('method') is not None else 'default', x.loc or loc)


def schur_ok(expr, Mt, sname, left, right, extra):
  """expr == eye(L + extra) − M[:, left…] @ M[:, right…]"""
  if not (expr.k == 'bin' and expr.a[0] == '-' and match.is_ext_call(expr.a[1], 'eye')):
    return False
  n = expr.a[1].a[1][0]
  is_layers = lambda t: t.k == 'attr' and t.a[1] == 'layers'
  okn = is_layers(n) if extra == 0 else (n.k == 'bin' and n.a[0] == '+' and {True} == {is_layers(x) or x == sym.const(1) for x in n.a[1:3]} and any(is_layers(x) for x in n.a[1:3]))
  p = expr.a[2]
  if not (p.k == 'bin' and p.a[0] == '@'):
    return False
  def blk(t):
    if t.k == 'sub' and t.a[0] == Mt and t.a[1].k == 'tuple' and len(t.a[1].a) == 3:
      return sname.get(t.a[1].a[1]), sname.get(t.a[1].a[2])
    return None
  return okn and blk(p.a[1]) == left and blk(p.a[2]) == right


# ----------------------------------------------------------- shallow water
def rule_shallow_water(chk, prog):
  rule = 'C03.5-schur-complement'
  c = prog.cls(f'{SW}.ShallowWaterEquations')
  ev = sym.Evaluator(prog, sym.Options(opaque={'spherical_harmonic.Grid.laplacian_eigenvalues'}))
  fi, ft = c.find_method('implicit_inverse'), c.find_method('implicit_terms')
  vt, _, _ = ev.run(ft)
  vi, _, _ = ev.run(fi)
  chk.require(vt.k == 'obj' and vi.k == 'obj', 'ShallowWaterEquations implicit methods do not return State')
  A = alg.Algebra(ev)
  d = A.name(state_field('divergence'), 'd')
  p = A.name(state_field('potential'), 'p')
  z = A.name(state_field('vorticity'), 'zeta')
  eta = A.name(lambda t: t == S('step_size'), 'eta')
  T = {n: sp.expand(A.conv(util.field(vt, n))) for n in ('vorticity', 'divergence', 'potential')}
  Iv = {n: sp.expand(A.conv(util.field(vi, n))) for n in ('vorticity', 'divergence', 'potential')}
  loc = (fi.file, fi.lineno)
  chk.check(T['vorticity'] == 0 and sp.simplify(Iv['vorticity'] - z) == 0, rule, f'{SW}: vorticity has no implicit tendency and passes through the solve', f"{T['vorticity']}; {Iv['vorticity']}", loc)
  Lm = sp.Matrix([[T['divergence'].coeff(d, 1), T['divergence'].coeff(p, 1)], [T['potential'].coeff(d, 1), T['potential'].coeff(p, 1)]])
  resid = sp.simplify(T['divergence'] - Lm[0, 0] * d - Lm[0, 1] * p) == 0 and sp.simplify(T['potential'] - Lm[1, 0] * d - Lm[1, 1] * p) == 0
  chk.check(resid, rule, f'{SW}.implicit_terms: (divergence, potential) tendency is a linear map L of (divergence, potential)', str(Lm), (ft.file, ft.lineno))
  den = sp.together(Iv['divergence']).as_numer_denom()[1]
  Md = sp.Matrix([[sp.simplify(sp.diff(Iv['divergence'], d)), sp.simplify(sp.diff(Iv['divergence'], p))],
                  [sp.simplify(sp.diff(Iv['potential'], d)), sp.simplify(sp.diff(Iv['potential'], p))]])
  lin_ok = sp.simplify(Iv['divergence'] - Md[0, 0] * d - Md[0, 1] * p) == 0 and sp.simplify(Iv['potential'] - Md[1, 0] * d - Md[1, 1] * p) == 0
  chk.check(lin_ok, rule, f'{SW}.implicit_inverse: the solve is a linear map M(η) of (divergence, potential)', str(Md), loc)
  prod = sp.simplify(Md * (sp.eye(2) - eta * Lm))
  chk.check(prod == sp.eye(2), rule, f'{SW}: M(η)·(I − η·L) normalises to the identity (Schur-complement algebra, any sign of η)', str(prod), loc, 'Matrix([[1, 0], [0, 1]])', str(prod))
  chk.at_least(rule, 4)


def rule_time_reversed(chk, prog):
  from rules import c14
  c14.rule_time_reversed(chk, prog)
  # re-file under C03
  for i in chk.instances:
    if i['rule'] == 'C14.7-time-reversal':
      i['rule'] = 'C03.6-time-reversal'
  chk.minimum.pop('C14.7-time-reversal', None)
  chk.at_least('C03.6-time-reversal', 3)


def run(chk, prog, tier):
  from rules import c01 as _c01
  _c01.rule_shared_state(chk, prog, rule='C03.8-operator-tables-never-updated-in-place')
  common.rule_vweight(chk, prog, 'C03.1-prefix-sums-weighted', modules=(PE,))
  chk.at_least('C03.1-prefix-sums-weighted', 5)
  rule_linear(chk, prog)
  rule_blocks(chk, prog)
  rule_sparse_dense(chk, prog)
  rule_strategies(chk, prog)
  rule_shallow_water(chk, prog)
  rule_time_reversed(chk, prog)
  chk.assume('numpy.linalg.inv returns the inverse of its (well-conditioned) argument; eye / zeros / ones / broadcast_to / concatenate / einsum as documented',
             '_vertical_matvec(a, x) = a·x along the level axis; Grid.laplacian multiplies by the eigenvalues λ(l)',
             'get_geopotential_diff(x, v, R, ·) ≡ Gw(v, R)·x and get_temperature_implicit(x, v, T, κ, ·) ≡ −Hw(v, T, κ)·x, with the sparse forms checked against the dense ones separately (C03.3b, C13.5)')
  return dict(
      explanation=('implicit_terms / implicit_inverse of the primitive and shallow-water equations, _get_implicit_term_matrix, get_temperature_implicit and '
                   'TimeReversedImExODE are abstractly interpreted. Linear-homogeneity per field is decided in a LIN domain over the repo\'s linear operators; the '
                   'coupling coefficients read from implicit_terms are compared as normal forms with the blocks assembled in the matrix (M_rc = −η·L_rc, identity '
                   'diagonal); the cumulative-sum H is matched against the dense −H·div (column weight divided out, Δσ-weighted exclusive prefix sums); for each '
                   'solve strategy the sub-blocks, operands, right-hand sides and Schur inverses are matched by index-set roles; the shallow-water 2×2 algebra is '
                   'multiplied out symbolically. Not decided: conditioning / rounding of the numerical inverse and equality of the strategies in floating point.'),
      trusted_base=['python ast', 'sympy canonicalisation and 2x2 matrix product', 'numpy linear-algebra primitives'],
      analysed=dict(functions=[f'{PE}.PrimitiveEquations.implicit_terms', f'{PE}.PrimitiveEquations.implicit_inverse', f'{PE}._get_implicit_term_matrix',
                               f'{PE}.get_temperature_implicit', f'{PE}.get_geopotential_diff', f'{PE}.PrimitiveEquationsWithTime.implicit_terms',
                               f'{PE}.PrimitiveEquationsWithTime.implicit_inverse', f'{SW}.ShallowWaterEquations.implicit_terms',
                               f'{SW}.ShallowWaterEquations.implicit_inverse', f'{TI}.TimeReversedImExODE']),
  )
