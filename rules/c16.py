"""C16 — conservative regridding preserves constants, bounds and integrals (structural clauses)."""
from __future__ import annotations

import sympy as sp

from sa import alg, guards, match, sym, util
from sa.model import AnalysisError
from sa.sym import Term

HI = 'horizontal_interpolation'
VI = 'vertical_interpolation'

CLAIM = dict(
    text=('Decides the construction facts from which constants-reproduced and output-within-input-range follow: every overlap matrix is non-negative by construction '
          '(maximum(upper − lower, 0), or (upper > lower)·(sin upper − sin lower) with both bounds taken from cell bounds that start at −π/2, end at π/2 and are midpoints in between); '
          'each weight builder divides that very overlap by its own sum over axis 1 (keepdims), rows are indexed by the target points and columns by the source points (axis-role inference '
          'through the newaxis broadcasts, including the deliberate argument swap in the longitude builder), and nothing touches the weights afterwards; the einsum in '
          'ConservativeRegridder._mean and in regrid_hybrid_to_sigma contracts the field with the column (source) index of each weight matrix, longitude weights with the longitude axis '
          'and latitude weights with the latitude axis; periodic cell bounds are midpoints with the neighbour phase-aligned to the point itself, both ends of the other interval are '
          'aligned to the same reference, one period is used throughout and points are reduced modulo it first; missing values: data (NaN→0) and validity mask go through the same '
          '_mean, both arms divide by the valid fraction, the skipna=False arm yields NaN unless the fraction is ≈ 1; cached weights are built exactly like the weights used; inputs '
          'are required increasing. Does not decide equality of the area / thickness-weighted integrals, nor the phase alignment for every offset.'
          ' Later additions: C16.4 also bounds the ≈ 1 allowance of the valid-fraction test (rtol, atol ≤ 1e-3).'),
    note='jnp broadcasting, einsum, vectorize/vmap transparency are trusted. Latitude points are assumed to lie in [−π/2, π/2] and every target cell to overlap some source cell (positive row sums).',
    technique='axis-role inference over broadcast terms + structural normalisation idiom + einsum index-role algebra + sign lemma for (a>b)·(f(a)−f(b))',
)


def S(n):
  return Term('sym', n)


NEWAXIS = Term('ext', 'jax.numpy.newaxis')


def children(t):
  out = []
  def rec(x):
    if isinstance(x, Term):
      out.append(x)
    elif isinstance(x, tuple):
      for y in x:
        rec(y)
  for c in t.a:
    rec(c)
  return out


def is_newaxis(t):
  return (t.k == 'ext' and t.a[0].endswith('newaxis')) or (t.k == 'const' and t.a[0] is None)


def roles(t, memo=None):
  """{'row': params, 'col': params, 'vec': params} feeding the two axes of a broadcast 2-d term (or a 1-d vector)."""
  if memo is None:
    memo = {}
  key = id(t)
  if key in memo:
    return memo[key]
  out = {'row': set(), 'col': set(), 'vec': set()}
  def merge(o):
    for k in out:
      out[k] |= o[k]
  if t.k == 'sym':
    out['vec'].add(t.a[0])
  elif t.k == 'sub' and t.a[1].k == 'tuple' and len(t.a[1].a) == 2:
    i0, i1 = t.a[1].a
    base = roles(t.a[0], memo)
    deps = base['vec'] | base['row'] | base['col']
    if is_newaxis(i1) and not is_newaxis(i0):
      out['row'] |= deps
    elif is_newaxis(i0) and not is_newaxis(i1):
      out['col'] |= deps
    else:
      raise AnalysisError(f'axis roles: unrecognised 2-d index {sym.show(t.a[1])}')
  elif t.k == 'sub':
    merge(roles(t.a[0], memo))
  elif t.k in ('bin', 'un', 'cmp', 'bool', 'phi', 'tuple', 'list'):
    for x in children(t):
      merge(roles(x, memo))
  elif t.k == 'call':
    for x in list(t.a[1]) + [v for _, v in t.a[2]]:
      merge(roles(x, memo))
    if t.a[0].k not in ('ext',):
      merge(roles(t.a[0], memo))
  elif t.k == 'attr':
    merge(roles(t.a[0], memo))
  memo[key] = out
  return out


def matrix_roles(t):
  r = roles(t)
  if r['vec']:
    # vectors that were never broadcast into a matrix axis
    raise AnalysisError(f'axis roles: un-broadcast vector operand(s) {sorted(r["vec"])} in {sym.show(t, maxdepth=3)[:100]}')
  return r['row'], r['col']


def normalised(v):
  """(overlap, denominator call) when v = overlap / sum(overlap', …)."""
  if v.k == 'bin' and v.a[0] == '/' and v.a[2].k == 'call' and alg.ext_short(v.a[2].a[0]) == 'sum':
    return v.a[1], v.a[2]
  return None


def rule_builders(chk, prog):
  rule = 'C16.2-rows-sum-to-one'
  out = {}
  for q, src, tgt in ((f'{HI}.conservative_latitude_weights', 'source_points', 'target_points'), (f'{HI}.conservative_longitude_weights', 'source_points', 'target_points'),
                      (f'{VI}.conservative_regrid_weights', 'source_bounds', 'target_bounds')):
    ev = sym.Evaluator(prog, sym.Options(identity_arrays=False))
    f = prog.func(q)
    v, ctx, env = ev.run(f)
    loc = (f.file, f.lineno)
    n = normalised(v)
    if not chk.check(n is not None, rule, f'{q}: returns overlap / sum(overlap) with nothing applied afterwards', sym.show(v, maxdepth=3)[:200], loc, 'O / jnp.sum(O, axis=1, keepdims=True)', sym.show(v, maxdepth=3)[:200]):
      continue
    O, den = n
    arg = den.a[1][0] if den.a[1] else None
    kw = util.call_kwargs(den)
    axis = kw.get('axis', den.a[1][1] if len(den.a[1]) > 1 else None)
    chk.check(arg == O, rule, f'{q}: the denominator sums the very overlap matrix that is being normalised', sym.show(arg, maxdepth=3)[:160] if arg is not None else 'none', loc,
              'sum over the numerator', sym.show(arg, maxdepth=3)[:160] if arg is not None else 'none')
    chk.check(axis == sym.const(1) and kw.get('keepdims') == sym.const(True), rule, f'{q}: the sum runs over axis 1 and keeps the dimension (one total per row, broadcast back over the row)',
              f'axis={sym.show(axis) if axis is not None else None}, keepdims={sym.show(kw.get("keepdims")) if kw.get("keepdims") is not None else None}', loc, 'axis=1, keepdims=True',
              f'axis={sym.show(axis) if axis is not None else None}')
    rows, cols = matrix_roles(O)
    chk.check(rows == {tgt} and cols == {src}, rule, f'{q}: rows are indexed by `{tgt}` and columns by `{src}` (so axis 1 is the source axis and each target row sums to one)',
              f'rows ← {sorted(rows)}, columns ← {sorted(cols)}', loc, f'rows ← [{tgt}], columns ← [{src}]', f'rows ← {sorted(rows)}, columns ← {sorted(cols)}')
    out[q] = (ev, f, O)
    if q.startswith(HI):
      rz = [sym.show(guards.path_cond(p), maxdepth=8) for _, p, e, l in ev.raises]
      inc = [z for z in rz if 'numpy.diff(' in z and '> 0' in z]
      pts = {p for p in (src, tgt) if any(f'numpy.diff({p})' in z for z in inc)}
      chk.check(pts == {src, tgt}, rule, f'{q}: both point sets are required to be increasing', f'{sorted(pts)}', loc)
  chk.at_least(rule, 14)
  return out


def rule_sign(chk, prog, built):
  rule = 'C16.1-non-negative-overlap'
  pi2 = sp.pi / 2
  # interval and periodic overlaps: maximum(·, 0)
  for q in (f'{VI}._interval_overlap', f'{HI}._periodic_overlap'):
    ev = sym.Evaluator(prog)
    f = prog.func(q)
    v, _, _ = ev.run(f)
    ok = match.is_ext_call(v, 'maximum') and len(v.a[1]) == 2 and sym.const(0) in v.a[1]
    body = [x for x in v.a[1] if x != sym.const(0)][0] if ok else None
    chk.check(ok, rule, f'{q}: returns maximum(upper − lower, 0) (non-negative by construction)', sym.show(v, maxdepth=3)[:160], (f.file, f.lineno), 'maximum(upper - lower, 0)', sym.show(v, maxdepth=3)[:160])
    if ok:
      okd = body.k == 'bin' and body.a[0] == '-' and match.is_ext_call(body.a[1], 'minimum') and match.is_ext_call(body.a[2], 'maximum')
      chk.check(okd, rule, f'{q}: upper = minimum of the two upper ends, lower = maximum of the two lower ends (length of the intersection)', sym.show(body, maxdepth=3)[:160], (f.file, f.lineno))
  # the builders use these overlaps
  for q, helper in ((f'{VI}.conservative_regrid_weights', '_interval_overlap'), (f'{HI}.conservative_longitude_weights', '_longitude_overlap'), (f'{HI}.conservative_latitude_weights', '_latitude_overlap')):
    ev = sym.Evaluator(prog, sym.Options(opaque={f'{q.split(".")[0]}.{helper}'}))
    f = prog.func(q)
    v, _, _ = ev.run(f)
    n = normalised(v)
    ok = n is not None and n[0].k == 'call' and util.callee_name(n[0]) == helper
    chk.check(ok, rule, f'{q}: normalises the output of {helper}', sym.show(v, maxdepth=3)[:160], (f.file, f.lineno))
  # longitude overlap is the vectorised periodic overlap
  ev = sym.Evaluator(prog, sym.Options(opaque={f'{HI}._periodic_overlap', f'{HI}._periodic_upper_bounds', f'{HI}._periodic_lower_bounds'}))
  f = prog.func(f'{HI}._longitude_overlap')
  v, _, _ = ev.run(f)
  chk.check(v.k == 'call' and util.callee_name(v) == '_periodic_overlap', rule, f'{HI}._longitude_overlap: element-wise _periodic_overlap (vectorised)', sym.show(v, maxdepth=3)[:160], (f.file, f.lineno))
  # latitude: (U > L) * (sin U − sin L) with U, L inside [−π/2, π/2]
  ev = sym.Evaluator(prog, sym.Options(opaque={f'{HI}._latitude_cell_bounds'}, identity_arrays=False))
  f = prog.func(f'{HI}._latitude_overlap')
  v, _, _ = ev.run(f)
  site, loc = f'{HI}._latitude_overlap', (f.file, f.lineno)
  fs = match.plain_factors(v)
  gate = [x for x in fs if x.k == 'cmp']
  diff = [x for x in fs if x.k == 'bin' and x.a[0] == '-']
  ok = len(fs) == 2 and len(gate) == 1 and len(diff) == 1 and gate[0].a[0] == ('>',)
  if chk.check(ok, rule, f'{site}: returns (upper > lower) · (f(upper) − f(lower))', sym.show(v, maxdepth=4)[:200], loc):
    U, L = gate[0].a[1]
    fu, fl = diff[0].a[1], diff[0].a[2]
    ok = all(match.is_ext_call(x, 'sin') for x in (fu, fl)) and fu.a[1][0] == U and fl.a[1][0] == L
    chk.check(ok, rule, f'{site}: f = sin applied to the very bounds that are compared — with sin non-decreasing on [−π/2, π/2] the product is ≥ 0 and vanishes for empty intersections',
              f'{sym.show(diff[0], maxdepth=3)[:140]}', loc, 'sin(upper) - sin(lower) with the compared upper / lower', sym.show(diff[0], maxdepth=3)[:140])
    okb = match.is_ext_call(U, 'minimum') and match.is_ext_call(L, 'maximum')
    srcs = [x for x in sym.walk(v) if x.k == 'call' and util.callee_name(x) == '_latitude_cell_bounds']
    leaves_ok = all(sym.contains(a, lambda z: z.k == 'call' and util.callee_name(z) == '_latitude_cell_bounds') for x in (U, L) for a in x.a[1]) if okb else False
    chk.check(okb and leaves_ok and len(set(srcs)) == 2, rule, f'{site}: upper / lower are min / max of entries of the two cell-bound vectors (so they stay inside the range of the bounds)',
              f'{len(set(srcs))} cell-bound vectors', loc)
    if okb:
      # upper uses [1:], lower uses [:-1] of each bounds vector
      def sl(x):
        return [sym.show(a.a[1]) for a in x.a[1] if a.k == 'sub']
      up, lo = sl(U), sl(L)
      chk.check(all('1:' in s_ and ':-1' not in s_ for s_ in up) and all(':-1' in s_ for s_ in lo) and len(up) == 2 and len(lo) == 2, rule,
                f'{site}: upper ends are bounds[1:], lower ends bounds[:-1] (cell i spans bounds[i] … bounds[i+1])', f'upper {up}; lower {lo}', loc)
  g = prog.func(f'{HI}._latitude_cell_bounds')
  ev = sym.Evaluator(prog, sym.Options(identity_arrays=True))
  v, _, _ = ev.run(g)
  site, loc = f'{HI}._latitude_cell_bounds', (g.file, g.lineno)
  parts = match.concat_parts(v)
  ok = parts is not None and len(parts[0]) == 3
  if chk.check(ok, rule, f'{site}: concatenates [south pole, interior bounds, north pole]', sym.show(v)[:160], loc):
    A = alg.Algebra(ev)
    x = A.name(lambda t: t == S('x'), 'x')
    def scalar(t):
      while t.k in ('list', 'tuple') and len(t.a) == 1:
        t = t.a[0]
      if t.k == 'call' and alg.ext_short(t.a[0]) in ('array', 'asarray') and t.a[1]:
        return scalar(t.a[1][0])
      if t.k == 'un' and t.a[0] == '-':
        return Term('un', '-', scalar(t.a[1]))
      return t
    first, mid, last = parts[0]
    chk.check(alg.equal(A.conv(scalar(first)), -pi2) and alg.equal(A.conv(scalar(last)), pi2), rule, f'{site}: the outer bounds are exactly −π/2 and +π/2', f'{sym.show(first)} … {sym.show(last)}', loc)
    x0 = Term('sub', S('x'), Term('slice', sym.NONE, sym.const(-1), sym.NONE))
    x1 = Term('sub', S('x'), Term('slice', sym.const(1), sym.NONE, sym.NONE))
    B = alg.Algebra(ev, strip_index=False)
    a0 = B.name(lambda t: t == x0, 'xl')
    a1 = B.name(lambda t: t == x1, 'xr')
    chk.check(alg.equal(B.conv(mid), (a0 + a1) / 2), rule, f'{site}: interior bounds are midpoints of neighbouring points (inside [−π/2, π/2] whenever the points are)', sym.show(mid), loc, '(x[:-1] + x[1:]) / 2', sym.show(mid))
  chk.at_least(rule, 13)


def rule_periodic(chk, prog):
  rule = 'C16.6-periodic-bounds'
  ev = sym.Evaluator(prog)
  f = prog.func(f'{HI}._align_phase_with')
  v, _, _ = ev.run(f)
  site, loc = f'{HI}._align_phase_with', (f.file, f.lineno)
  A = alg.Algebra(ev)
  x, tg, P = (A.name(lambda t, n=n: t == S(n), n, real=True) for n in ('x', 'target', 'period'))
  up = A.name(lambda t: t.k == 'cmp' and t.a[0] == ('<',) and t.a[1][0] == S('x'), 'up')
  dn = A.name(lambda t: t.k == 'cmp' and t.a[0] == ('>',) and t.a[1][0] == S('x'), 'down')
  chk.check(alg.equal(A.conv(v), x + P * up - P * dn), rule, f'{site}: x + period·[x below window] − period·[x above window]', sym.show(v), loc, 'x + period*shift_up - period*shift_down', sym.show(v))
  cmps = [t for t in sym.walk(v) if t.k == 'cmp']
  B = alg.Algebra(ev)
  x, tg, P = (B.name(lambda t, n=n: t == S(n), n, real=True) for n in ('x', 'target', 'period'))
  lo = [c for c in cmps if c.a[0] == ('<',)]
  hi = [c for c in cmps if c.a[0] == ('>',)]
  ok = len(lo) == 1 and len(hi) == 1 and alg.equal(B.conv(lo[0].a[1][1]), tg - P / 2) and alg.equal(B.conv(hi[0].a[1][1]), tg + P / 2)
  chk.check(ok, rule, f'{site}: the window is target ± period/2 (result is the representative nearest to the target)', '; '.join(sym.show(c) for c in cmps), loc, 'x < target - period/2 ; x > target + period/2',
            '; '.join(sym.show(c) for c in cmps))
  evo = sym.Evaluator(prog, sym.Options(opaque={f'{HI}._align_phase_with'}))
  for name, shift, what in (('_periodic_upper_bounds', -1, 'next'), ('_periodic_lower_bounds', 1, 'previous')):
    f = prog.func(f'{HI}.{name}')
    v, _, _ = evo.run(f)
    site, loc = f'{HI}.{name}', (f.file, f.lineno)
    al = [t for t in sym.walk(v) if t.k == 'call' and util.callee_name(t) == '_align_phase_with']
    ok = len(set(al)) == 1
    if not ok:
      positional = [t for t in sym.walk(v) if t.k == 'store' and sym.contains(t.a[0], lambda z: match.is_ext_call(z, 'roll'))]
      if not positional:
        raise AnalysisError(f'{site}: unrecognised wrap-around handling {sym.show(v)[:140]}')
    if chk.check(ok, rule, f'{site}: the {what} neighbour is phase-aligned by value before averaging (the points were reduced modulo the period and need not be sorted, so the wrap is not always at the ends)',
                 sym.show(v)[:160], loc, '_align_phase_with(roll(x, ∓1), x, period)', sym.show(v)[:160]):
      b = evo.bind_args(prog.func(f'{HI}._align_phase_with'), list(al[0].a[1]), list(al[0].a[2]), None, None)
      r = b['x']
      okr = match.is_ext_call(r, 'roll') and r.a[1][0] == S('x') and r.a[1][1] == sym.const(shift)
      chk.check(okr and b['target'] == S('x') and b['period'] == S('period'), rule, f'{site}: neighbour = roll(x, {shift}), aligned to the point itself with the given period', sym.show(al[0]), loc,
                f'_align_phase_with(roll(x, {shift}), x, period)', sym.show(al[0]))
      C = alg.Algebra(evo, opaque=lambda t: t == al[0])
      xs = C.name(lambda t: t == S('x'), 'x')
      chk.check(alg.equal(C.conv(v), (xs + C.atom(al[0])) / 2), rule, f'{site}: the bound is the midpoint between the point and its aligned neighbour', sym.show(v)[:120], loc)
  f = prog.func(f'{HI}._periodic_overlap')
  v, _, _ = evo.run(f)
  site, loc = f'{HI}._periodic_overlap', (f.file, f.lineno)
  al = [t for t in sym.walk(v) if t.k == 'call' and util.callee_name(t) == '_align_phase_with']
  bs = [evo.bind_args(prog.func(f'{HI}._align_phase_with'), list(a.a[1]), list(a.a[2]), None, None) for a in set(al)]
  ok = {sym.show(b['x']) for b in bs} == {'y0', 'y1'} and all(b['target'] == S('x0') and b['period'] == S('period') for b in bs)
  chk.check(ok, rule, f'{site}: both ends of the second interval are aligned to the same reference (the first interval\'s lower end), so the interval is shifted as a whole',
            '; '.join(sym.show(a) for a in set(al)), loc, 'align(y0, x0), align(y1, x0)', '; '.join(sym.show(a) for a in set(al)))
  mn = [t for t in sym.walk(v) if match.is_ext_call(t, 'minimum')]
  mx = [t for t in sym.walk(v) if match.is_ext_call(t, 'maximum') and sym.const(0) not in t.a[1]]
  ok = len(mn) == 1 and len(mx) == 1 and S('x1') in mn[0].a[1] and S('x0') in mx[0].a[1]
  if ok:
    oy1 = [a for a in mn[0].a[1] if a != S('x1')][0]
    oy0 = [a for a in mx[0].a[1] if a != S('x0')][0]
    ok = util.callee_name(oy1) == '_align_phase_with' and util.call_args(oy1)[0] == S('y1') and util.callee_name(oy0) == '_align_phase_with' and util.call_args(oy0)[0] == S('y0')
  chk.check(ok, rule, f'{site}: upper = min(x1, aligned y1), lower = max(x0, aligned y0)', sym.show(v, maxdepth=4)[:160], loc)
  # _longitude_overlap wiring
  evl = sym.Evaluator(prog, sym.Options(opaque={f'{HI}._periodic_overlap', f'{HI}._periodic_upper_bounds', f'{HI}._periodic_lower_bounds'}))
  f = prog.func(f'{HI}._longitude_overlap')
  v, _, _ = evl.run(f)
  site, loc = f'{HI}._longitude_overlap', (f.file, f.lineno)
  chk.require(v.k == 'call' and util.callee_name(v) == '_periodic_overlap', f'{site}: not a _periodic_overlap call')
  b = evl.bind_args(prog.func(f'{HI}._periodic_overlap'), list(v.a[1]), list(v.a[2]), None, None)
  def describe(t):
    """(which bound helper, which points, axis)"""
    if not (t.k == 'sub' and t.a[1].k == 'tuple' and len(t.a[1].a) == 2):
      return None
    i0, i1 = t.a[1].a
    axis = 'row' if is_newaxis(i1) else 'col' if is_newaxis(i0) else None
    c = t.a[0]
    if not (c.k == 'call' and util.callee_name(c) in ('_periodic_upper_bounds', '_periodic_lower_bounds')):
      return None
    args = util.call_args(c)
    pts = args[0]
    ok_mod = pts.k == 'bin' and pts.a[0] == '%' and pts.a[2] == S('period')
    return (util.callee_name(c).split('_')[2], sym.show(pts.a[1]) if ok_mod else '?' + sym.show(pts), axis, args[1] == S('period'))
  got = {k: describe(b[k]) for k in ('x0', 'x1', 'y0', 'y1')}
  want = {'x0': ('lower', 'first_points', 'row', True), 'x1': ('upper', 'first_points', 'row', True), 'y0': ('lower', 'second_points', 'col', True), 'y1': ('upper', 'second_points', 'col', True)}
  chk.check(got == want, rule, f'{site}: (x0, x1) = (lower, upper) bounds of the first points down the rows, (y0, y1) = bounds of the second points along the columns, all from points reduced modulo the period',
            str(got), loc, str(want), str(got))
  chk.check(b['period'] == S('period'), rule, f'{site}: the same period is handed to the overlap', sym.show(b['period']), loc)
  d = None
  a = f.args
  for arg, dflt in zip(reversed(a.args), reversed(a.defaults)):
    if arg.arg == 'period':
      d = dflt
  E = alg.Algebra(evl)
  chk.check(d is not None and alg.equal(E.conv(evl.eval_module_expr(f.module, d)), 2 * sp.pi), rule, f'{site}: the default period is 2π (longitudes in radians)', sym.unparse(d) if d is not None else 'none', loc)
  chk.at_least(rule, 13)


def rule_contraction(chk, prog):
  rule = 'C16.3-contracted-axis'
  c = prog.cls(f'{HI}.ConservativeRegridder')
  ev = sym.Evaluator(prog, sym.Options(opaque={f'{HI}.conservative_longitude_weights', f'{HI}.conservative_latitude_weights'}))
  f = c.find_method('_mean')
  v, _, _ = ev.run(f)
  site, loc = f'{HI}.ConservativeRegridder._mean', (f.file, f.lineno)
  ep = match.einsum_parts(v)
  chk.require(ep is not None and ep[0] == 'string', f'{site}: not a string-spec einsum')
  spec, ops = ep[1], ep[2]
  ins, outp = match.parse_spec(spec)
  chk.require(len(ins) == 3 and len(ops) == 3, f'{site}: expected two weight matrices and the field')
  info = []
  for sub, op in zip(ins[:2], ops[:2]):
    kind = {'conservative_longitude_weights': 'lon', 'conservative_latitude_weights': 'lat'}.get(util.callee_name(op) if op.k == 'call' else None)
    info.append((sub, kind, op))
  chk.check(all(k is not None and len(s_) == 2 for s_, k, _ in info) and {k for _, k, _ in info} == {'lon', 'lat'}, rule, f'{site}: the operands are the longitude and the latitude weight matrices',
            str([(s_, k) for s_, k, _ in info]), loc)
  fld = ins[2]
  pos = {'lon': -2, 'lat': -1}
  for sub, kind, op in info:
    if kind is None:
      continue
    tgt_i, src_i = sub[0], sub[1]
    ok = fld[pos[kind]] == src_i and src_i not in outp and tgt_i in outp and tgt_i not in fld
    ok = ok and outp.replace('...', '')[pos[kind]] == tgt_i
    chk.check(ok, rule, f'{site}: the {kind} weights contract their column (source) index with the field\'s {"longitude" if kind == "lon" else "latitude"} axis and leave the row (target) index in the same position',
              f'{spec}: weights `{sub}`, field `{fld}`, output `{outp}`', loc, f'`{src_i}` at field axis {pos[kind]}, `{tgt_i}` at output axis {pos[kind]}', spec)
    b = ev.bind_args(prog.func(f'{HI}.conservative_{"longitude" if kind == "lon" else "latitude"}_weights'), list(op.a[1]), list(op.a[2]), None, None)
    prop = 'nodal_axes'
    def grid_of(t):
      g = [x for x in sym.walk(t) if x.k == 'attr' and x.a[1] in ('source_grid', 'target_grid')]
      return {x.a[1] for x in g}
    def axis_of(t):
      a = [x for x in sym.walk(t) if x.k == 'sub' and x.a[0].k == 'attr' and x.a[0].a[1] == 'nodal_axes']
      return {sym.show(x.a[1]) for x in a}
    ok = grid_of(b['source_points']) == {'source_grid'} and grid_of(b['target_points']) == {'target_grid'}
    want_axis = {'0'} if kind == 'lon' else {'1'}
    ok = ok and axis_of(b['source_points']) == want_axis and axis_of(b['target_points']) == want_axis
    chk.check(ok, rule, f'{site}: the {kind} weights are built from (source grid, target grid) {"longitudes" if kind == "lon" else "latitudes"} in that order', sym.show(op, maxdepth=4)[:160], loc)
  # cached properties agree with the weights used
  for prop, kind in (('lon_weights', 'lon'), ('lat_weights', 'lat')):
    p = c.find_method(prop)
    pv, _, _ = ev.run(p)
    used = [op for _, k, op in info if k == kind]
    chk.check(bool(used) and pv == used[0], rule, f'{HI}.ConservativeRegridder.{prop}: the cached matrix is built exactly like the one used by _mean', sym.show(pv, maxdepth=4)[:140], (p.file, p.lineno),
              sym.show(used[0], maxdepth=4)[:140] if used else '', sym.show(pv, maxdepth=4)[:140])
  # vertical
  ev2 = sym.Evaluator(prog, sym.Options(opaque={f'{VI}.conservative_regrid_weights', f'{VI}.HybridCoordinates.get_sigma_boundaries'}))
  f = prog.func(f'{VI}.regrid_hybrid_to_sigma')
  v, _, _ = ev2.run(f)
  site, loc = f'{VI}.regrid_hybrid_to_sigma', (f.file, f.lineno)
  es = [t for t in sym.walk(v) if match.einsum_parts(t) is not None]
  chk.require(len(es) == 1 and match.einsum_parts(es[0])[0] == 'string', f'{site}: expected one string-spec einsum, found {len(es)}')
  spec, ops = match.einsum_parts(es[0])[1:3]
  ins, outp = match.parse_spec(spec)
  ok = len(ins) == 2 and len(ins[0]) == 2 and ins[1] == ins[0][1] and outp == ins[0][0]
  chk.check(ok, rule, f'{site}: the weights contract their column (source) index with the level axis of the field; the row (target) index remains', spec, loc, 'ab,b->a', spec)
  w = ops[0]
  okw = w.k == 'call' and util.callee_name(w) == 'conservative_regrid_weights'
  if chk.check(okw, rule, f'{site}: the weights come from conservative_regrid_weights', sym.show(w, maxdepth=3)[:140], loc):
    b = ev2.bind_args(prog.func(f'{VI}.conservative_regrid_weights'), list(w.a[1]), list(w.a[2]), None, None)
    s_ok = sym.contains(b['source_bounds'], lambda t: t == S('hybrid_coords')) and sym.contains(b['source_bounds'], lambda t: t == S('surface_pressure')) and not sym.contains(b['source_bounds'], lambda t: t == S('sigma_coords'))
    t_ok = sym.show(b['target_bounds']).endswith('sigma_coords.boundaries')
    chk.check(s_ok and t_ok, rule, f'{site}: source bounds are the hybrid boundaries in sigma units at the given surface pressure, target bounds the sigma boundaries',
              f'source {sym.show(b["source_bounds"], maxdepth=4)[:100]}; target {sym.show(b["target_bounds"])}', loc)
  g = prog.cls(f'{VI}.HybridCoordinates').find_method('get_sigma_boundaries')
  gv, _, _ = sym.Evaluator(prog).run(g)
  A = alg.Algebra(sym.Evaluator(prog))
  a_ = A.name(lambda t: t.k == 'attr' and t.a[1] == 'a_boundaries', 'a_boundaries')
  b_ = A.name(lambda t: t.k == 'attr' and t.a[1] == 'b_boundaries', 'b_boundaries')
  ps = A.name(lambda t: t == S('surface_pressure'), 'ps', positive=True)
  chk.check(alg.equal(A.conv(gv), a_ / ps + b_), rule, f'{VI}.HybridCoordinates.get_sigma_boundaries: σ = a/pₛ + b (pressure a + b·pₛ divided by surface pressure)', sym.show(gv), (g.file, g.lineno), 'a/ps + b', sym.show(gv))
  chk.at_least(rule, 10)


def rule_missing(chk, prog):
  rule = 'C16.4-missing-values'
  c = prog.cls(f'{HI}.ConservativeRegridder')
  ev = sym.Evaluator(prog, sym.Options(opaque={f'{HI}.ConservativeRegridder._mean'}))
  f = c.find_method('__call__')
  v, _, _ = ev.run(f)
  site, loc = f'{HI}.ConservativeRegridder.__call__', (f.file, f.lineno)
  chk.require(v.k == 'phi' and sym.show(v.a[0]).endswith('skipna'), f'{site}: expected a branch on skipna')
  means = sorted(set(t for t in sym.walk(v) if t.k == 'call' and util.callee_name(t) == '_mean'), key=lambda t: sym.show(t))
  chk.require(len(means) == 2, f'{site}: expected the data and the validity mask to go through _mean, found {len(means)} calls')
  FIELD = S('field')
  valid = Term('call', Term('ext', 'jax.numpy.logical_not'), (Term('call', Term('ext', 'jax.numpy.isnan'), (FIELD,), ()),), ())
  args = {sym.show(util.call_args(m)[0]): (m, util.call_args(m)[0]) for m in means}
  frac = [m for m, a in args.values() if a == valid]
  data = [m for m, a in args.values() if match.is_ext_call(a, 'where') and list(a.a[1]) == [valid, FIELD, sym.const(0)]]
  ok = len(frac) == 1 and len(data) == 1
  chk.check(ok, rule, f'{site}: the data with NaN→0 and the validity mask ¬isnan(field) go through the same averaging operator (same weights)', '; '.join(args), loc,
            '_mean(where(valid, field, 0)) and _mean(valid)', '; '.join(args))
  if not ok:
    return
  ratio = Term('bin', '/', data[0], frac[0])
  chk.check(v.a[1] == ratio, rule, f'{site}: skipna=True returns mean / valid fraction (NaN only where no source cell is valid)', sym.show(v.a[1], maxdepth=3)[:140], loc, 'mean / not_null_fraction', sym.show(v.a[1], maxdepth=3)[:140])
  w = v.a[2]
  ok = match.is_ext_call(w, 'where') and len(w.a[1]) == 3 and w.a[1][1] == ratio and sym.show(w.a[1][2]).endswith('nan')
  cond = w.a[1][0] if ok else None
  ok = ok and match.is_ext_call(cond, 'isclose') and cond.a[1][0] == frac[0] and cond.a[1][1] == sym.const(1)
  chk.check(ok, rule, f'{site}: skipna=False returns mean / fraction where the valid fraction ≈ 1 and NaN everywhere else (any missing source cell poisons the target cell)', sym.show(w, maxdepth=3)[:160], loc,
            'where(isclose(fraction, 1), mean / fraction, nan)', sym.show(w, maxdepth=3)[:160])
  if ok:
    # the ≈ 1 allowance absorbs the rounding of the float32 weight sums only: with allowance a, a missing source cell that covers less than
    # a of a target cell is silently averaged away, so a bounds the overlap below which propagation is lost
    kw = dict(cond.a[2])
    extra = list(cond.a[1][2:])
    tol = {'rtol': kw.get('rtol', extra[0] if extra else sym.const(1e-5)), 'atol': kw.get('atol', extra[1] if len(extra) > 1 else sym.const(1e-8))}
    vals = {k: (t.a[0] if t.k == 'const' and isinstance(t.a[0], (int, float)) else None) for k, t in tol.items()}
    okt = all(x is not None and 0 <= x <= 1e-3 for x in vals.values())
    chk.check(okt, rule, f'{site}: the valid-fraction test allows rounding only (rtol, atol ≤ 1e-3: a missing cell covering more than 0.1 % of a target cell always propagates)', str(vals), loc,
              'rtol ≤ 1e-3, atol ≤ 1e-3', str(vals))
  d = c.find_field('skipna')
  chk.check(d is not None and d[2] is not None and sym.unparse(d[2]) == 'False', rule, f'{HI}.ConservativeRegridder.skipna defaults to False (propagate)', sym.unparse(d[2]) if d and d[2] is not None else 'none', (c.file, c.lineno))
  chk.at_least(rule, 5)


def run(chk, prog, tier):
  built = rule_builders(chk, prog)
  rule_sign(chk, prog, built)
  rule_periodic(chk, prog)
  rule_contraction(chk, prog)
  rule_missing(chk, prog)
  chk.assume('latitude points lie in [−π/2, π/2] and are increasing; every target cell overlaps some source cell (row sums are positive)',
             'jnp: broadcasting of x[:, None] against y[None, :], einsum, vectorize / vmap apply the wrapped function element-wise')
  return dict(
      explanation=('The weight builders, overlap helpers, periodic-bound helpers, ConservativeRegridder._mean / __call__ and regrid_hybrid_to_sigma are abstractly interpreted. Axis roles of the '
                   '2-d overlap terms are inferred through the newaxis broadcasts and compared with the (target, source) contract; the normalisation is matched as O / sum(O, axis=1, keepdims) '
                   'with the identical O; the sign lemmas are matched structurally; einsum specs are parsed and the contracted index of each operand is compared with its column index and the '
                   'field axis it must meet; the NaN bookkeeping is matched against mean/fraction in both arms. Not decided: integral equality and geometric correctness of the alignment for all offsets.'),
      trusted_base=['python ast', 'sympy canonicalisation', 'jax.numpy broadcasting / einsum semantics'],
      analysed=dict(functions=[f'{HI}._latitude_cell_bounds', f'{HI}._latitude_overlap', f'{HI}.conservative_latitude_weights', f'{HI}._align_phase_with', f'{HI}._periodic_upper_bounds',
                               f'{HI}._periodic_lower_bounds', f'{HI}._periodic_overlap', f'{HI}._longitude_overlap', f'{HI}.conservative_longitude_weights',
                               f'{HI}.ConservativeRegridder._mean/__call__/lat_weights/lon_weights', f'{VI}._interval_overlap', f'{VI}.conservative_regrid_weights', f'{VI}.regrid_hybrid_to_sigma',
                               f'{VI}.HybridCoordinates.get_sigma_boundaries']),
  )
