"""C19 — persistence and restructuring round trips lose nothing (writer/reader agreement)."""
from __future__ import annotations

import ast

import sympy as sp

from sa import alg, guards, match, sym, util
from sa.model import AnalysisError, norm_ident, unparse
from sa.sym import Term

XU = 'xarray_utils'
CS = 'coordinate_systems'
SH = 'spherical_harmonic'
PT = 'pytree_utils'

CLAIM = dict(
    text=('Decides writer/reader agreement, the part of each round trip that is visible in the code: every vertical-coordinate class that can be serialised and the horizontal Grid are '
          'registered in GRID_REGISTRY under their own class name; CoordinateSystem.asdict and coordinate_system_from_attrs use the same two type keys for the same slots; each '
          'registered class writes every dataclass field under its field name, array fields as lists that its constructor converts back, and exactly the keys whose written value '
          'is a surrogate (implementation name, mesh string) are dropped by the reader and have constructor defaults; user attrs cannot overwrite serialised keys; dimension names '
          'are paired positionally with the shape components they label and coordinate arrays with the axes they describe; the dataset → state extractors pass each variable to '
          'the field of the same name and cover all required fields; flatten_dict compares whole keys in both duplicate checks (fixed defect: first characters of empty-branch '
          'keys), composes and splits keys with one separator default shared by flatten / unflatten, rejects keys containing it, and hands empty branches through; pack/unpack, '
          'stack/unstack, split/concat use the same axis on both sides, complementary slices and the tree structure of their shape argument; spectral down-sampling is a prefix '
          'slice and up-sampling a tail zero-pad of the same two trailing axes with the size relation enforced, and the wavenumber axes are prefix-stable (entry i does not depend on the '
          'truncation). Also decided: an additional coordinate as long as the level axis is refused (axes are matched by shape). Does not decide bit-identical dataset round trips, shape collisions in the shape→dimension table, or that up-sampling represents the same function.'
          ' Later additions: level-collision guard of the shape→dimension table, holder discovery by return position.'),
    note='xarray / numpy / jax.tree_util semantics are trusted. Roles are identified by data flow and resolved names, not by local variable names.',
    technique='writer/reader table agreement over resolved classes and constants, element-kind inference for the duplicate checks, sibling-default agreement, structural matching of slices/pads',
)


def S(n):
  return Term('sym', n)


def const_of(ev, t):
  """String constant denoted by a term (literal or module-level constant)."""
  if t.k == 'const':
    return t.a[0]
  if t.k == 'global':
    d = ev.global_definition(t)
    if d is not None and d.k == 'const':
      return d.a[0]
  return None


def dict_entries(ev, t):
  """[(key const, value term, overridden?)] for every alternative of a dict-valued term (dict literal + item stores, φ arms)."""
  if t.k == 'phi':
    return [e for arm in t.a[1:] for e in dict_entries(ev, arm)]
  stores = []
  while t.k == 'store':
    stores.append((t.a[1], t.a[2]))
    t = t.a[0]
  if t.k != 'dict':
    raise AnalysisError(f'expected a dict value, found {sym.show(t)[:120]}')
  out = {}
  for k, v in t.a:
    kc = const_of(ev, k)
    if kc is None:
      raise AnalysisError(f'non-constant dict key {sym.show(k)}')
    out[kc] = (v, False)
  for k, v in reversed(stores):
    kc = const_of(ev, k)
    if kc is None:
      raise AnalysisError(f'non-constant item store {sym.show(k)}')
    out[kc] = (v, True)
  return [[(k, v, o) for k, (v, o) in out.items()]]


def registry(prog):
  m = prog.module(XU)
  node = m.assigns.get('GRID_REGISTRY')
  if not isinstance(node, ast.Dict):
    raise AnalysisError(f'{XU}.GRID_REGISTRY is not a dict literal')
  out = {}
  for k, v in zip(node.keys, node.values):
    if not (isinstance(k, ast.Constant) and isinstance(k.value, str)):
      raise AnalysisError(f'{XU}.GRID_REGISTRY: non-literal key {unparse(k)}')
    c = prog.resolve_class_expr(v, m)
    out[k.value] = (c, unparse(v), k.lineno)
  return out


def vertical_classes(prog):
  """Classes offering the vertical-coordinate interface used by the writers: `layers` and `centers`."""
  out = []
  for c in prog.classes.values():
    if c.module.name.endswith('_test') or '.pipelines' in c.module.name:
      continue
    def has(n):
      return c.find_method(n) is not None or c.find_field(n) is not None
    if has('layers') and has('centers') and c.name != 'CoordinateSystem':
      out.append(c)
  return sorted(out, key=lambda c: c.qualname)


def rule_registry(chk, prog):
  rule = 'C19.1-registry'
  reg = registry(prog)
  loc = (prog.module(XU).relpath, min(l for _, _, l in reg.values()))
  for key, (c, src, line) in reg.items():
    chk.check(c is not None and c.name == key, rule, f'{XU}.GRID_REGISTRY[{key!r}] is the class of that name (the writer stores type(x).__name__)', src, (prog.module(XU).relpath, line),
              key, c.name if c is not None else f'unresolved {src}')
  registered = {c.qualname for c, _, _ in reg.values() if c is not None}
  cs = prog.cls(f'{CS}.CoordinateSystem')
  hf = cs.find_field('horizontal')
  hcls = prog.resolve_class_expr(hf[1], hf[3].module)
  chk.require(hcls is not None, f'{CS}.CoordinateSystem.horizontal: cannot resolve the annotation {unparse(hf[1])}')
  chk.check(hcls.qualname in registered, rule, f'{hcls.qualname} (the horizontal slot) is registered', '', (hcls.file, hcls.lineno))
  vs = vertical_classes(prog)
  chk.require(len(vs) >= 3, f'found only {len(vs)} vertical coordinate classes')
  for c in vs:
    if c.find_method('asdict') is None:
      chk.note(f'{c.qualname} has no asdict: a CoordinateSystem using it cannot be serialised (AttributeError, not a silent loss)')
      continue
    chk.check(c.qualname in registered, rule, f'{c.qualname} (serialisable vertical coordinate) is registered, so what asdict writes can be read back', '', (c.file, c.lineno),
              'an entry in GRID_REGISTRY', 'none')
  # the two type keys: same constant ↔ same slot on both sides
  ev = sym.Evaluator(prog, sym.Options(opaque={f'{SH}.Grid.asdict'} | {f'{c.qualname}.asdict' for c in vs}))
  f = cs.find_method('asdict')
  v, ctx, env = ev.run(f)
  writer = {}
  t = v
  while t.k == 'store':
    kc = const_of(ev, t.a[1])
    val = t.a[2]
    if val.k == 'attr' and val.a[1] == '__name__' and val.a[0].k == 'typeof':
      slot = val.a[0].a[0]
      writer[slot.a[1] if slot.k == 'attr' else sym.show(slot)] = (kc, t.a[1])
    t = t.a[0]
  chk.check(set(writer) == {'horizontal', 'vertical'} and all(k is not None for k, _ in writer.values()) and len({k for k, _ in writer.values()}) == 2, rule,
            f'{CS}.CoordinateSystem.asdict writes type(horizontal).__name__ and type(vertical).__name__ under two distinct constant keys', str({s: k for s, (k, _) in writer.items()}), (f.file, f.lineno))
  base = t
  spreads = [x for x in sym.walk(base) if x.k == 'call' and util.callee_name(x) == 'asdict']
  spread_slots = sorted({x.a[1][0].a[1] for x in spreads if x.a[1] and x.a[1][0].k == 'attr'})
  chk.check(base.k == 'dict' and all(k.k == 'kwstar' for k, _ in base.a) and spread_slots == ['horizontal', 'vertical'], rule,
            f'{CS}.CoordinateSystem.asdict merges horizontal.asdict() and vertical.asdict()', sym.show(base, maxdepth=4)[:160], (f.file, f.lineno))
  rz = [sym.show(guards.path_cond(p), maxdepth=8) for p, e, l in ctx.raises]
  chk.check(any('intersection' in z for z in rz), rule, f'{CS}.CoordinateSystem.asdict: colliding horizontal / vertical keys raise (no silent overwrite)', str(rz)[:200], (f.file, f.lineno))
  g = prog.func(f'{XU}.coordinate_system_from_attrs')
  ev2 = sym.Evaluator(prog)
  r, _, _ = ev2.run(g)
  chk.require(r.k == 'obj' and r.a[0].endswith('CoordinateSystem'), f'{XU}.coordinate_system_from_attrs does not return a CoordinateSystem')
  for slot in ('horizontal', 'vertical'):
    val = util.field(r, slot)
    arms = [a for a in (val.a[1:] if val.k == 'phi' else [val]) if a.k == 'call']
    ok = bool(arms)
    keys = set()
    for a in arms:
      callee = a.a[0]
      if callee.k == 'sub' and callee.a[0].k == 'global' and callee.a[0].a[-1] == 'GRID_REGISTRY' and callee.a[1].k == 'sub' and callee.a[1].a[0] == S('attrs'):
        keys.add(const_of(ev2, callee.a[1].a[1]))
      else:
        ok = False
    want = writer.get(slot, (None, None))[0]
    chk.check(ok and keys == {want}, rule, f'{XU}.coordinate_system_from_attrs: the {slot} class is looked up in GRID_REGISTRY under the key the writer uses for {slot}',
              f'reader key {keys}, writer key {want!r}', (g.file, g.lineno), repr(want), str(keys))
  chk.at_least(rule, 14)
  return reg, vs, hcls


def init_sets_fields(prog, c):
  """{field: value term} assigned by a custom __init__, or None when the dataclass-generated __init__ is used."""
  init = c.methods.get('__init__')
  if init is None:
    return None
  ev = sym.Evaluator(prog, sym.Options(identity_arrays=False))
  v, ctx, env = ev.run(init)
  me = env['self']
  out = {}
  if me.k == 'obj':
    for name, val in me.a[1]:
      out[name] = val
  return out


def rule_fields(chk, prog, reg, vs, hcls):
  rule = 'C19.2-fields'
  g = prog.func(f'{XU}.coordinate_system_from_attrs')
  # reader: which names are dropped before construction, per slot
  pops = {}
  slot_of_var = {}
  for n in ast.walk(g.node):
    if isinstance(n, ast.Assign) and isinstance(n.targets[0], ast.Name) and isinstance(n.value, ast.Call) and isinstance(n.value.func, ast.Name) and n.value.keywords and any(k.arg is None for k in n.value.keywords):
      kw = [k for k in n.value.keywords if k.arg is None][0]
      if isinstance(kw.value, ast.Name):
        slot_of_var[kw.value.id] = n.targets[0].id
  # the slot of a constructed object is its position in the returned CoordinateSystem(horizontal, vertical), not its local name
  for n in ast.walk(g.node):
    if isinstance(n, ast.Return) and isinstance(n.value, ast.Call):
      slots_by_pos = dict(zip(('horizontal', 'vertical'), n.value.args))
      slots_by_pos.update({k.arg: k.value for k in n.value.keywords if k.arg in ('horizontal', 'vertical')})
      for slot, a_ in slots_by_pos.items():
        if isinstance(a_, ast.Name):
          for var, tgt in list(slot_of_var.items()):
            if tgt == a_.id:
              slot_of_var[var] = slot
  ev = sym.Evaluator(prog)
  for n in ast.walk(g.node):
    if isinstance(n, ast.Call) and isinstance(n.func, ast.Attribute) and n.func.attr == 'pop' and isinstance(n.func.value, ast.Name) and n.args:
      var = n.func.value.id
      key = ev.eval_module_expr(g.module, n.args[0])
      kc = const_of(ev, key)
      chk.require(kc is not None, f'{XU}.coordinate_system_from_attrs: cannot resolve popped key {unparse(n.args[0])}')
      pops.setdefault(slot_of_var.get(var, var), set()).add(kc)
      chk.check(len(n.args) == 2, rule, f'{XU}.coordinate_system_from_attrs: pop({unparse(n.args[0])}) tolerates a missing key', unparse(n), (g.file, n.lineno))
  # reader comprehension: {f.name: attrs[f.name] for f in dataclasses.fields(cls)}
  comps = [n for n in ast.walk(g.node) if isinstance(n, ast.DictComp)]
  okc = len(comps) >= 2
  for d in comps:
    it = d.generators[0]
    fv = it.target.id if isinstance(it.target, ast.Name) else None
    okc = okc and unparse(it.iter).startswith('dataclasses.fields(') and unparse(d.key) == f'{fv}.name' and unparse(d.value) == f'attrs[{fv}.name]' and not it.ifs and len(d.generators) == 1
  chk.check(okc, rule, f'{XU}.coordinate_system_from_attrs reads attrs[field name] for every dataclass field of the looked-up class', '; '.join(unparse(d) for d in comps)[:200], (g.file, g.lineno))
  classes = [(hcls, 'horizontal')] + [(c, 'vertical') for c in vs if c.find_method('asdict') is not None]
  for c, slot in classes:
    site = f'{c.qualname}.asdict'
    f = c.find_method('asdict')
    v, ctx, env = sym.Evaluator(prog).run(f)
    fields = [x[0] for x in c.all_fields()]
    surrogate = set()
    listed = set()
    for alt in dict_entries(sym.Evaluator(prog), v):
      keys = {k for k, _, _ in alt}
      chk.check(set(fields) <= keys, rule, f'{site}: every dataclass field is written under its own name', f'fields {fields}; keys {sorted(keys)}', (f.file, f.lineno), str(fields), str(sorted(keys)))
      for k, val, over in alt:
        me = Term('attr', S('self'), k)
        plain = val == me or sym.show(val).endswith(f'.{k}') and val.k == 'attr'
        aslist = val.k == 'call' and val.a[0].k == 'attr' and val.a[0].a[1] == 'tolist' and val.a[0].a[0].k == 'attr' and val.a[0].a[0].a[1] == k
        if k not in fields:
          chk.violation(rule, f'{site}: extra key `{k}` is not a field (the reader would ignore it or the constructor reject it)', sym.show(val)[:120], (f.file, f.lineno))
        elif plain or aslist:
          if aslist:
            listed.add(k)
          chk.ok(rule, f'{site}: `{k}` is written as the field value' + (' (as a list)' if aslist else ''), sym.show(val)[:100], (f.file, f.lineno))
        else:
          surrogate.add(k)
    dropped = pops.get(slot, set()) if slot == 'horizontal' else set()
    chk.check(surrogate == dropped, rule, f'{site} ↔ reader: exactly the keys written as surrogates (not the field value) are dropped before construction',
              f'surrogates {sorted(surrogate)}; dropped by the reader for the {slot} slot {sorted(dropped)}', (g.file, g.lineno), str(sorted(surrogate)), str(sorted(dropped)))
    for k in sorted(surrogate):
      fld = c.find_field(k)
      chk.check(fld is not None and fld[2] is not None, rule, f'{c.qualname}.{k}: a dropped field has a constructor default', unparse(fld[2]) if fld and fld[2] is not None else 'no default', (c.file, c.lineno))
    # constructor accepts the field names and converts lists back
    sets = init_sets_fields(prog, c)
    if sets is None:
      chk.ok(rule, f'{c.qualname}: generated __init__ takes the field names', ', '.join(fields), (c.file, c.lineno))
    else:
      init = c.methods['__init__']
      params = init.param_names()[1:]
      chk.check(set(fields) <= set(params), rule, f'{c.qualname}.__init__ accepts every field name as a keyword', f'params {params}', (init.file, init.lineno), str(fields), str(params))
      for k in fields:
        val = sets.get(k)
        conv = val is not None and val.k == 'call' and alg.ext_short(val.a[0]) in ('asarray', 'array') and bool(val.a[1]) and val.a[1][0] == S(k)
        ok = val is not None and (conv or (val == S(k) and k not in listed))
        chk.check(ok, rule, f'{c.qualname}.__init__ stores parameter `{k}` into field `{k}`' + (' and converts the serialised list back to an array' if k in listed else ''),
                  sym.show(val)[:100] if val is not None else 'not set', (init.file, init.lineno), f'np.asarray({k})' if k in listed else k, sym.show(val)[:100] if val is not None else 'not set')
  # user attrs cannot overwrite the serialised coordinates
  for fn in ('data_to_xarray', 'dynamic_covariate_data_to_xarray'):
    f = prog.func(f'{XU}.{fn}')
    # the dict that receives the serialised coordinates, under whatever local name(s): assigned from `….asdict()` or from an alias of it
    names_in = lambda node: {x.id for x in ast.walk(node) if isinstance(x, ast.Name)}
    holders = set()
    changed = True
    while changed:
      changed = False
      for n in ast.walk(f.node):
        if isinstance(n, ast.Assign) and len(n.targets) == 1 and isinstance(n.targets[0], ast.Name) and n.targets[0].id not in holders:
          has_asdict = any(isinstance(x, ast.Call) and isinstance(x.func, ast.Attribute) and x.func.attr == 'asdict' for x in ast.walk(n.value))
          if has_asdict or (names_in(n.value) & holders and not any(isinstance(x, ast.Call) for x in ast.walk(n.value) if not (isinstance(x.func, ast.Attribute) and x.func.attr in ('keys', 'asdict')))):
            holders.add(n.targets[0].id)
            changed = True
    guard = [n for n in ast.walk(f.node) if isinstance(n, ast.For) and any(isinstance(x, ast.Raise) for x in ast.walk(n)) and names_in(n.iter) & holders]
    upd = [n for n in ast.walk(f.node) if isinstance(n, ast.Call) and isinstance(n.func, ast.Attribute) and n.func.attr == 'update' and isinstance(n.func.value, ast.Name) and n.func.value.id in holders]
    ok = bool(guard) and bool(upd) and all(u.lineno > guard[0].lineno for u in upd) and any(isinstance(x, ast.Compare) and isinstance(x.ops[0], ast.In) for x in ast.walk(guard[0]))
    chk.check(ok, rule, f'{XU}.{fn}: user attrs colliding with a serialised key raise before being merged', unparse(guard[0])[:120] if guard else 'no guard', (f.file, f.lineno))
  chk.at_least(rule, 25)



# ----------------------------------------------------------------- dimension names
def _plus_parts(t):
  if t.k == 'bin' and t.a[0] == '+':
    return _plus_parts(t.a[1]) + _plus_parts(t.a[2])
  return [t]


def shape_roles(t):
  out = []
  for p in _plus_parts(t):
    if p.k == 'tuple' and not p.a:
      continue
    txt = sym.show(p, maxdepth=12)
    if p.k == 'tuple' and len(p.a) == 1 and p.a[0] == sym.const(1):
      out.append('singleton')
    elif p.k == 'tuple' and len(p.a) == 1 and 'coords.vertical' in txt:
      out.append('level')
    elif p.k == 'attr' and p.a[1] == 'modal_shape':
      out.append('modal')
    elif p.k == 'attr' and p.a[1] == 'nodal_shape':
      out.append('nodal')
    elif p.k == 'attr' and p.a[1] == 'shape' and p.a[0].k == 'sub' and p.a[0].a[1] == sym.const(1) and p.a[0].a[0].k == 'loopvar':
      out.append('extra')
    elif p.k == 'attr' and p.a[1] == 'shape' and p.a[0].k == 'sym':
      out.append(f'{p.a[0].a[0]}')
    elif p.k in ('sym', 'loopvar') or (p.k == 'sub' and p.a[0].k == 'loopvar'):
      out.append('base')
    else:
      out.append('?' + txt[:40])
  return out


def dims_roles(ev, t):
  out = []
  for p in _plus_parts(t):
    if p.k == 'tuple' and not p.a:
      continue
    if p.k == 'global':
      out.append({'MODAL_AXES_NAMES': 'modal', 'NODAL_AXES_NAMES': 'nodal'}.get(p.a[-1], '?' + p.a[-1]))
    elif p.k == 'tuple' and len(p.a) == 1 and p.a[0].k == 'global':
      out.append({'XR_LEVEL_NAME': 'level', 'XR_TIME_NAME': 'times', 'XR_SAMPLE_NAME': 'sample_ids', 'XR_REALIZATION_NAME': 'singleton'}.get(p.a[0].a[-1], '?' + p.a[0].a[-1]))
    elif p.k == 'tuple' and len(p.a) == 1 and p.a[0].k == 'sub' and p.a[0].a[1] == sym.const(0) and p.a[0].a[0].k == 'loopvar':
      out.append('extra')
    elif p.k in ('sym', 'loopvar') or (p.k == 'sub' and p.a[0].k == 'loopvar'):
      out.append('base')
    else:
      out.append('?' + sym.show(p)[:40])
  return out


def role_tree(t, leaf):
  """Role structure of a tuple-building term: φ nodes and + chains are kept, leaves are mapped to roles."""
  if t.k == 'phi':
    return ('phi', sym.show(t.a[0], maxdepth=8)) + tuple(role_tree(x, leaf) for x in t.a[1:])
  if t.k == 'bin' and t.a[0] == '+':
    return ('+', role_tree(t.a[1], leaf), role_tree(t.a[2], leaf))
  return tuple(leaf(t))


def rule_dims(chk, prog):
  rule = 'C19.3-dimension-names'
  ev = sym.Evaluator(prog)
  f = prog.func(f'{XU}._infer_dims_shape_and_coords')
  v, ctx, env = ev.run(f)
  site, loc = f'{XU}._infer_dims_shape_and_coords', (f.file, f.lineno)
  # the shape → dims table is the local built by the longest chain of stores (found by role, not by its name)
  def pairs_of(t):
    out = []
    def collect(x):
      while x.k == 'store':
        out.append((x.a[1], x.a[2], x.loc))
        x = x.a[0]
      return x
    if t.k == 'loop':
      collect(t.a[2])
      collect(t.a[1])
    else:
      collect(t)
    return out
  tables = sorted(((len(pairs_of(x)), n) for n, x in env.items() if isinstance(x, Term) and x.k in ('loop', 'store')), reverse=True)
  chk.require(bool(tables) and tables[0][0] >= 8, f'{site}: the shape → dims table (≥ 8 stores) was not found')
  pairs = pairs_of(env[tables[0][1]])
  # an additional coordinate as long as the level axis cannot be told apart by shape: it must be refused
  lv = lambda t: sym.contains(t, lambda z: z.k == 'attr' and z.a[1] in ('layers', 'boundaries', 'centers') and sym.contains(z, lambda w: w.k == 'attr' and w.a[1] == 'vertical'))
  collide = []
  for path, exc, l_ in ctx.raises:
    for cnd in path:
      for z in sym.walk(cnd):
        if z.k == 'cmp' and z.a[0] == ('==',) and any(o.k == 'attr' and o.a[1] == 'shape' for o in z.a[1]) and any(o.k == 'tuple' and len(o.a) == 1 and lv(o) for o in z.a[1]):
          collide.append(z)
        if z.k == 'cmp' and z.a[0] == ('==',) and any(o.k == 'call' and o.a[0] == Term('ext', 'len') for o in z.a[1]) and any(lv(o) and o.k != 'call' for o in z.a[1]):
          collide.append(z)
  chk.check(bool(collide), rule, f'{site}: an additional coordinate whose length equals the number of levels is refused (axes are matched by shape)',
            sym.show(collide[0])[:160] if collide else 'no raise guarded by shape == (layers,)', loc, 'raise if value.shape == (coords.vertical.layers,)', 'missing')
  chk.require(len(pairs) >= 8, f'{site}: only {len(pairs)} shape → dims entries found')
  for k, d, l in pairs:
    kr, dr = shape_roles(k), dims_roles(ev, d)
    if 'singleton' in kr:
      ok = [r for r in kr if r != 'singleton'] == dr
      what = 'surface shape (1, lon, lat) is labelled with the nodal names (singleton level is squeezed by the covariate writer)'
    else:
      ok = kr == dr and not any(r.startswith('?') for r in kr)
      what = 'each shape component is labelled by the name(s) of that component, in the same order'
    chk.check(ok, rule, f'{site}: shape {sym.show(k, maxdepth=5)[:90]} ↔ dims {sym.show(d, maxdepth=5)[:90]}: {what}', f'{kr} ↔ {dr}', l or loc, str(kr), str(dr))
  # axis-name tuples ↔ coordinate arrays
  m = prog.module(XU)
  names = {}
  for tup, axes in (('NODAL_AXES_NAMES', 'nodal_axes'), ('MODAL_AXES_NAMES', 'modal_axes')):
    node = m.assigns.get(tup)
    chk.require(isinstance(node, ast.Tuple) and len(node.elts) == 2, f'{XU}.{tup} is not a 2-tuple literal')
    names[axes] = [unparse(e) for e in node.elts]
  coords_t = v.a[0]
  while coords_t.k == 'phi':
    coords_t = coords_t.a[-1]
  extra = {}
  while coords_t.k == 'store':
    coords_t = coords_t.a[0]
  chk.require(coords_t.k == 'dict', f'{site}: coordinate table is not a dict')
  table = {k.a[-1]: val for k, val in coords_t.a if k.k == 'global'}
  for axes, nm in names.items():
    for i, n in enumerate(nm):
      val = table.get(n)
      src = [x for x in sym.walk(val) if x.k == 'sub' and x.a[0].k == 'attr' and x.a[0].a[1] in ('nodal_axes', 'modal_axes')] if val is not None else []
      ok = len({(x.a[0].a[1], sym.show(x.a[1])) for x in src}) == 1 and src[0].a[0].a[1] == axes and src[0].a[1] == sym.const(i)
      chk.check(ok, rule, f'{site}: dimension name {n} (axis {i} of {axes.split("_")[0]} arrays) is given the coordinate values of {axes}[{i}]', sym.show(val, maxdepth=5)[:120] if val is not None else 'missing', loc,
                f'{axes}[{i}]', sym.show(val, maxdepth=5)[:120] if val is not None else 'missing')
  lev = table.get('XR_LEVEL_NAME')
  chk.check(lev is not None and 'coords.vertical' in sym.show(lev, maxdepth=10) and 'horizontal' not in sym.show(lev, maxdepth=10), rule, f'{site}: the level dimension is given the vertical centers',
            sym.show(lev, maxdepth=5)[:100] if lev is not None else 'missing', loc)
  lat = table.get('XR_LAT_NAME')
  A = alg.Algebra(ev)
  if lat is not None:
    sinlat = [x for x in sym.walk(lat) if x.k == 'sub' and x.a[0].k == 'attr' and x.a[0].a[1] == 'nodal_axes']
    chk.check(bool(sinlat) and alg.equal(A.conv(lat), sp.asin(A.conv(sinlat[0])) * 180 / sp.pi), rule, f'{site}: latitude in degrees = arcsin(sin θ)·180/π', sym.show(lat, maxdepth=6)[:100], loc)
  lon = table.get('XR_LON_NAME')
  if lon is not None:
    src = [o for x in sym.walk(lon) if x.k == 'bin' and x.a[0] == '*' and sym.const(180) in x.a[1:3] for o in x.a[1:3] if o != sym.const(180)]
    chk.check(bool(src) and alg.equal(A.conv(lon), A.conv(src[0]) * 180 / sp.pi), rule, f'{site}: longitude in degrees = λ·180/π', sym.show(lon, maxdepth=6)[:100], loc)
  # realization / sample / time are prepended to shapes and names in the same order
  g = prog.func(f'{XU}._maybe_update_shape_and_dim_with_realization_time_sample')
  r, _, _ = ev.run(g)
  chk.require(r.k == 'tuple' and len(r.a) == 2, f'{g.qualname}: does not return (shape, dims)')
  st, dt = role_tree(r.a[0], shape_roles), role_tree(r.a[1], lambda x: dims_roles(ev, x))
  chk.check(st == dt and '?' not in str(st), rule, f'{XU}.{g.name}: realization / sample / time extents and names are prepended in lock-step', f'{st}'[:300], (g.file, g.lineno), str(st)[:300], str(dt)[:300])
  flat = str(st)
  chk.check(flat.find('singleton') < flat.find('sample_ids') < flat.find('times') < flat.find('base'), rule, f'{XU}.{g.name}: order is [realization, sample, time, …]', flat[:200], (g.file, g.lineno))
  # reader side: transposes to (time, level, lon, lat) and restores the singleton level at axis -3
  h = prog.func(f'{XU}.xarray_to_data_dict')
  r, hctx, henv = ev.run(h)
  orders = list({x for x in list(henv.values()) + list(sym.walk(r)) if isinstance(x, Term) and x.k == 'tuple' and len(x.a) == 4 and all(y.k == 'global' for y in x.a)})
  order = orders[0] if len(orders) == 1 else None
  got = [x.a[-1] for x in order.a] if order is not None and order.k == 'tuple' and all(x.k == 'global' for x in order.a) else None
  chk.check(got == ['XR_TIME_NAME', 'XR_LEVEL_NAME'] + names['nodal_axes'], rule, f'{XU}.xarray_to_data_dict: variables are transposed to (time, level) + NODAL_AXES_NAMES, the order the writer labels', str(got), (h.file, h.lineno))
  ex = [x for x in sym.walk(r) if x.k == 'call' and alg.ext_short(x.a[0]) == 'expand_dims']
  ok = len(set(ex)) == 1 and util.call_kwargs(ex[0]).get('axis', ex[0].a[1][1] if len(ex[0].a[1]) > 1 else None) == sym.const(-3)
  chk.check(ok, rule, f'{XU}.xarray_to_data_dict: surface variables regain the singleton level axis at position -3 (just before lon, lat)', sym.show(ex[0], maxdepth=3)[:100] if ex else 'no expand_dims', (h.file, h.lineno))
  chk.at_least(rule, 20)


# ----------------------------------------------------------------- dataset → state
def rule_extract(chk, prog):
  rule = 'C19.4-state-extraction'
  for fn in ('xarray_to_primitive_eq_data', 'xarray_to_primitive_equations_with_time_data', 'xarray_to_shallow_water_eq_data'):
    ev = sym.Evaluator(prog)
    f = prog.func(f'{XU}.{fn}')
    v, ctx, env = ev.run(f)
    site, loc = f'{XU}.{fn}', (f.file, f.lineno)
    cons = [e[1] for e in ev.events if e[0] == 'construct' and hasattr(e[1], 'k') and e[1].k == 'obj']
    chk.require(len(cons) == 1 and v.k == 'dict', f'{site}: expected one state construction and a dict result')
    cls = prog.cls(cons[0].a[0]) if cons[0].a[0] in prog.classes else prog.classes.get(cons[0].a[0])
    chk.require(cls is not None, f'{site}: cannot resolve {cons[0].a[0]}')
    required = [x[0] for x in cls.all_fields() if x[2] is None]
    given = {k.a[0]: val for k, val in v.a if k.k == 'const'}
    chk.check(set(required) <= set(given), rule, f'{site}: every required field of {cls.qualname} is filled', f'required {required}; given {sorted(given)}', loc)
    for name, val in given.items():
      if val.k == 'comp' or val.k == 'dict' or 'gen(' in sym.show(val):
        txt = sym.show(val, maxdepth=10)
        kv = [x for x in sym.walk(val) if x.k == 'call' and x.a[0] == Term('ext', 'getattr')]
        ok = len(set(kv)) == 1 and kv[0].a[1][0].k == 'sub' and kv[0].a[1][0].a[0] == S('dataset') and kv[0].a[1][0].a[1].k == 'loopvar' and kv[0].a[1][1] == S('values')
        chk.check(ok and 'tracers_to_include' in txt, rule, f'{site}: `{name}` maps each requested name k to dataset[k]', txt[:140], loc)
        continue
      if val.k == 'const' and val.a[0] is None:
        continue
      ok = val.k == 'call' and val.a[0] == Term('ext', 'getattr') and val.a[1][0] == Term('sub', S('dataset'), sym.const(name)) and val.a[1][1] == S('values')
      chk.check(ok, rule, f'{site}: field `{name}` is read from the dataset variable of the same name', sym.show(val)[:100], loc, f"getattr(dataset['{name}'], values)", sym.show(val)[:100])
  chk.at_least(rule, 15)


# ----------------------------------------------------------------- flatten / unflatten
def _defaults(f):
  a = f.args
  pos = a.posonlyargs + a.args
  out = {}
  for arg, d in zip(pos[len(pos) - len(a.defaults):], a.defaults):
    out[arg.arg] = d
  for arg, d in zip(a.kwonlyargs, a.kw_defaults):
    if d is not None:
      out[arg.arg] = d
  return out


def element_kinds(fnode):
  """{list variable: set of element kinds} from append / extend sites ('pair' = (key, value) tuples, 'key' = bare keys)."""
  kinds = {}
  unpacked = {}
  for n in ast.walk(fnode):
    if isinstance(n, ast.Assign) and isinstance(n.targets[0], ast.Tuple) and isinstance(n.value, ast.Call) and unparse(n.value.func) == fnode.name:
      for i, e in enumerate(n.targets[0].elts):
        if isinstance(e, ast.Name):
          unpacked[e.id] = i
  for n in ast.walk(fnode):
    if not (isinstance(n, ast.Call) and isinstance(n.func, ast.Attribute) and isinstance(n.func.value, ast.Name) and n.args):
      continue
    var, arg = n.func.value.id, n.args[0]
    if n.func.attr == 'append':
      kinds.setdefault(var, set()).add('pair' if isinstance(arg, ast.Tuple) and len(arg.elts) == 2 else 'key')
    elif n.func.attr == 'extend':
      if isinstance(arg, ast.Call) and isinstance(arg.func, ast.Attribute) and arg.func.attr == 'items':
        kinds.setdefault(var, set()).add('pair')
      elif isinstance(arg, ast.Name) and arg.id in unpacked:
        kinds.setdefault(var, set()).add(('rec', unpacked[arg.id]))
      else:
        kinds.setdefault(var, set()).add('?')
  return kinds


def key_composition(val, site):
  """(parts of the nested key, parts of the top-level key) of `new_key = … if prefix else …` in its recognised spellings."""
  def parts(e):
    if isinstance(e, ast.BinOp) and isinstance(e.op, ast.Add):
      return parts(e.left) + parts(e.right)
    if isinstance(e, ast.JoinedStr):
      out = []
      for v in e.values:
        if isinstance(v, ast.FormattedValue) and v.conversion == -1 and v.format_spec is None:
          out.append(unparse(v.value))
        elif isinstance(v, ast.Constant) and v.value == '':
          continue
        else:
          raise AnalysisError(f'{site}: unrecognised key composition {unparse(e)}')
      return out
    if isinstance(e, ast.Call) and isinstance(e.func, ast.Attribute) and e.func.attr == 'join' and len(e.args) == 1 and isinstance(e.args[0], (ast.List, ast.Tuple)):
      out = []
      for i, x in enumerate(e.args[0].elts):
        if i:
          out.append(unparse(e.func.value))
        out.append(unparse(x))
      return out
    if isinstance(e, ast.Name):
      return [e.id]
    raise AnalysisError(f'{site}: unrecognised key composition {unparse(e)}')
  if not isinstance(val, ast.IfExp):
    raise AnalysisError(f'{site}: unrecognised key composition {unparse(val)}')
  test = unparse(val.test).replace(' ', '')
  if test in ('prefix', "prefix!=''", 'len(prefix)>0', 'len(prefix)'):
    return parts(val.body), parts(val.orelse)
  if test in ('notprefix', "prefix==''", 'len(prefix)==0'):
    return parts(val.orelse), parts(val.body)
  raise AnalysisError(f'{site}: unrecognised top-level test {unparse(val.test)}')


class _Subst(ast.NodeTransformer):
  def __init__(self, var, D, T, site):
    self.var, self.D, self.T, self.site = var, D, T, site

  def visit_Call(self, n):
    txt = unparse(n).replace(' ', '')
    if txt in (f'isinstance({self.var},dict)', f'isinstance({self.var},(dict,))', f'isinstance({self.var},abc.Mapping)', f'isinstance({self.var},Mapping)'):
      return ast.Constant(self.D)
    if txt in (f'len({self.var})', f'bool({self.var})'):
      return ast.Constant(self.T)
    raise AnalysisError(f'{self.site}: unrecognised branch condition {unparse(n)}')

  def visit_Name(self, n):
    if n.id == self.var:
      return ast.Constant(self.T)
    raise AnalysisError(f'{self.site}: unrecognised name `{n.id}` in a branch condition')

  def visit_Compare(self, n):
    txt = unparse(n).replace(' ', '')
    if txt in (f'{self.var}=={{}}', f'len({self.var})==0'):
      return ast.Constant(not self.T)
    if txt in (f'{self.var}!={{}}', f'len({self.var})>0', f'len({self.var})!=0'):
      return ast.Constant(self.T)
    raise AnalysisError(f'{self.site}: unrecognised branch condition {unparse(n)}')


def branch_actions(stmts, var, D, T, nk, slots, site):
  """Which of recurse / empty / leaf a loop body performs for an element with (is-dict D, truthy T)."""
  out = set()
  for st in stmts:
    if isinstance(st, ast.If):
      if any(isinstance(x, ast.Raise) for x in st.body) and 'isinstance' not in unparse(st.test):
        continue   # the separator guard
      e = ast.Expression(_Subst(var, D, T, site).visit(ast.parse(unparse(st.test), mode='eval').body))
      ast.fix_missing_locations(e)
      taken = st.body if eval(compile(e, '<cond>', 'eval'), {'__builtins__': {}}) else st.orelse
      out |= branch_actions(taken, var, D, T, nk, slots, site)
      continue
    for n in ast.walk(st):
      if isinstance(n, ast.Call) and unparse(n.func) == 'flatten_dict':
        out.add('recurse')
      elif isinstance(n, ast.Call) and isinstance(n.func, ast.Attribute) and n.func.attr == 'append':
        tgt, arg = unparse(n.func.value), n.args[0]
        if tgt == slots[0] and isinstance(arg, ast.Tuple) and [unparse(x) for x in arg.elts] == [nk, var]:
          out.add('leaf')
        elif tgt == slots[1] and unparse(arg) == nk:
          out.add('empty')
        else:
          out.add('?' + unparse(n))
  return out


def rule_flatten(chk, prog):
  rule = 'C19.5-flatten-dict'
  from sa import astnorm
  import types
  raw = [prog.func(f'{PT}.{n}') for n in ('flatten_dict', 'unflatten_dict', 'replace_with_matching_or_default')]
  sigs = {r_.name: [a_.arg for a_ in r_.args.args] for r_ in raw}
  # the rule reads this imperative list-building code as syntax: temporaries are substituted back and call arguments put in
  # positional order first, so that the spelling of a statement does not matter
  def view(r_):
    node = astnorm.normalised(r_.node, sigs)
    return types.SimpleNamespace(node=node, file=r_.file, lineno=r_.lineno, name=r_.name, qualname=r_.qualname, param_names=r_.param_names, args=r_.args)
  fl, un, rp = (view(r_) for r_ in raw)
  site, loc = f'{PT}.flatten_dict', (fl.file, fl.lineno)
  kinds = element_kinds(fl.node)
  ret = [n for n in ast.walk(fl.node) if isinstance(n, ast.Return) and isinstance(n.value, ast.Tuple)]
  chk.require(len(ret) == 1 and len(ret[0].value.elts) == 2, f'{site}: expected one `return flat, empty` statement')
  slots = []
  for e in ret[0].value.elts:
    names = [x.id for x in ast.walk(e) if isinstance(x, ast.Name) and x.id in kinds]
    chk.require(len(names) == 1, f'{site}: cannot identify the list behind return slot {unparse(e)}')
    slots.append(names[0])
  resolved = {}
  for i, var in enumerate(slots):
    ks = {k for k in kinds[var] if not isinstance(k, tuple)}
    rec = {k for k in kinds[var] if isinstance(k, tuple)}
    chk.require(all(r[1] == i for r in rec) and '?' not in ks, f'{site}: list `{var}` receives elements of unknown kind {kinds[var]}')
    resolved[var] = ks
  chk.check(resolved[slots[0]] == {'pair'} and resolved[slots[1]] == {'key'}, rule, f'{site}: collects (key, value) pairs for leaves and bare keys for empty branches', str(resolved), loc)
  # duplicate checks: each collected list is checked on whole keys
  checked = {}
  for n in ast.walk(fl.node):
    if isinstance(n, ast.Call) and unparse(n.func) in ('np.unique', 'numpy.unique') and n.args:
      arg = n.args[0]
      if isinstance(arg, ast.Call) and unparse(arg.func) in ('np.array', 'np.asarray', 'numpy.array') and arg.args:
        arg = arg.args[0]
      if isinstance(arg, ast.Name) and arg.id in resolved:
        checked[arg.id] = ('whole', n.lineno)
      elif isinstance(arg, ast.ListComp) and isinstance(arg.generators[0].iter, ast.Name) and arg.generators[0].iter.id in resolved:
        v = arg.generators[0].target.id if isinstance(arg.generators[0].target, ast.Name) else None
        elt = arg.elt
        if isinstance(elt, ast.Subscript) and isinstance(elt.value, ast.Name) and elt.value.id == v and isinstance(elt.slice, ast.Constant) and elt.slice.value == 0:
          checked[arg.generators[0].iter.id] = ('first', n.lineno)
        elif isinstance(elt, ast.Name) and elt.id == v:
          checked[arg.generators[0].iter.id] = ('whole', n.lineno)
        else:
          checked[arg.generators[0].iter.id] = ('?' + unparse(elt), n.lineno)
    elif isinstance(n, ast.Compare) and isinstance(n.left, ast.Call) and unparse(n.left.func) == 'len' and isinstance(n.left.args[0], ast.Call) and unparse(n.left.args[0].func) == 'set':
      inner = n.left.args[0].args[0]
      if isinstance(inner, ast.Name) and inner.id in resolved:
        checked[inner.id] = ('whole', n.lineno)
  for var in slots:
    how = checked.get(var)
    kind = next(iter(resolved[var])) if len(resolved[var]) == 1 else None
    if how is None:
      chk.violation(rule, f'{site}: duplicate check over `{var}`', 'no duplicate-key check found for this list', loc)
      continue
    good = (kind == 'pair' and how[0] == 'first') or (kind == 'key' and how[0] == 'whole')
    why = {('pair', 'first'): 'x[0] of a (key, value) pair is the key', ('key', 'whole'): 'the elements are the keys', ('key', 'first'): 'x[0] of a key string is its first character: distinct empty branches '
           "such as 'ab' and 'ac' are reported as duplicates", ('pair', 'whole'): 'compares (key, value) pairs, not keys'}.get((kind, how[0]), f'unrecognised selection {how[0]}')
    chk.check(good, rule, f'{site}: duplicate check over `{var}` compares whole keys', why, (fl.file, how[1]), 'whole keys', why)
  # key composition / separator discipline
  src = {n: unparse(f.node) for n, f in (('fl', fl), ('un', un), ('rp', rp))}
  dfl, dun = _defaults(fl), _defaults(un)
  sep_f, sep_u = dfl.get('sep'), dun.get('sep')
  chk.check(sep_f is not None and sep_u is not None and unparse(sep_f) == unparse(sep_u), rule, f'{PT}.flatten_dict / unflatten_dict share one default separator', f'{unparse(sep_f) if sep_f else None} / {unparse(sep_u) if sep_u else None}', loc)
  key_param = None
  loops = [n for n in ast.walk(fl.node) if isinstance(n, ast.For) and isinstance(n.target, ast.Tuple) and unparse(n.iter).endswith('.items()')]
  chk.require(len(loops) == 1, f'{site}: expected one loop over input_dict.items()')
  kvar, vvar = (e.id for e in loops[0].target.elts)
  guard = [n for n in ast.walk(loops[0]) if isinstance(n, ast.If) and any(isinstance(x, ast.Raise) for x in n.body) and isinstance(n.test, ast.Compare) and isinstance(n.test.ops[0], ast.In)
           and unparse(n.test.left) == 'sep' and unparse(n.test.comparators[0]) == kvar]
  chk.check(len(guard) == 1, rule, f'{site}: a key containing the separator raises (otherwise unflatten would split it)', unparse(guard[0].test) if guard else 'no guard', loc)
  newkey = [n for n in ast.walk(loops[0]) if isinstance(n, ast.Assign) and isinstance(n.targets[0], ast.Name) and kvar in {x.id for x in ast.walk(n.value) if isinstance(x, ast.Name)} and 'sep' in unparse(n.value)]
  chk.require(len(newkey) == 1, f'{site}: cannot find the composed key')
  nk = newkey[0].targets[0].id
  val = newkey[0].value
  nested, top = key_composition(val, site)
  chk.check(nested == ['prefix', 'sep', kvar] and top == [kvar], rule, f'{site}: nested key = prefix + sep + key (bare key at top level)', unparse(val), (fl.file, newkey[0].lineno),
            f'prefix + sep + {kvar} if prefix else {kvar}', f'nested {nested}; top level {top}')
  rec = [n for n in ast.walk(loops[0]) if isinstance(n, ast.Call) and unparse(n.func) == 'flatten_dict']
  chk.require(len(rec) == 1, f'{site}: expected one recursive call')
  bound = dict(zip(fl.param_names(), (unparse(a) for a in rec[0].args)))
  bound.update({k.arg: unparse(k.value) for k in rec[0].keywords})
  chk.check(bound == {fl.param_names()[0]: vvar, 'prefix': nk, 'sep': 'sep'}, rule, f'{site}: recursion passes the sub-dict, the composed key as prefix and the same separator', unparse(rec[0]), loc,
            f'flatten_dict({vvar}, {nk}, sep=sep)', unparse(rec[0]))
  # branch classification over the truth table of (is a dict, is non-empty)
  table = {}
  for D in (True, False):
    for T in (True, False):
      table[(D, T)] = sorted(branch_actions(loops[0].body, vvar, D, T, nk, slots, site))
  want = {(True, True): ['recurse'], (True, False): ['empty'], (False, True): ['leaf'], (False, False): ['leaf']}
  chk.check(table == want, rule, f'{site}: non-empty dict → recurse; empty dict → its composed key is recorded; anything else (including falsy leaves) → (composed key, value) leaf',
            str({f"dict={d},truthy={t}": a for (d, t), a in table.items()}), loc, str(want), str(table))
  # unflatten: splits on the same separator and consumes the empty keys
  site_u = f'{PT}.unflatten_dict'
  splits = [n for n in ast.walk(un.node) if isinstance(n, ast.Call) and isinstance(n.func, ast.Attribute) and n.func.attr == 'split']
  chk.check(len(splits) == 1 and [unparse(a) for a in splits[0].args] == ['sep'], rule, f'{site_u}: keys are split on the separator parameter', unparse(splits[0]) if splits else 'no split', (un.file, un.lineno))
  ek = [n for n in ast.walk(un.node) if isinstance(n, ast.DictComp) and unparse(n.generators[0].iter) == 'empty_keys']
  ok = len(ek) == 1 and unparse(ek[0].key) == unparse(ek[0].generators[0].target) and unparse(ek[0].value) in ('{}', 'dict()')
  merged = [n for n in ast.walk(un.node) if isinstance(n, ast.For) and ('|' in unparse(n.iter) or '**' in unparse(n.iter)) and 'flat_dict' in unparse(n.iter)]
  chk.check(ok and len(merged) == 1, rule, f'{site_u}: every recorded empty key becomes an empty dict, inserted by the same nesting loop as the leaves', unparse(merged[0].iter) if merged else 'no merged loop', (un.file, un.lineno))
  # replace_with_matching_or_default: threads the empty keys and uses one separator on both sides
  site_r = f'{PT}.replace_with_matching_or_default'
  calls_f = [n for n in ast.walk(rp.node) if isinstance(n, ast.Call) and unparse(n.func) == 'flatten_dict']
  calls_u = [n for n in ast.walk(rp.node) if isinstance(n, ast.Call) and unparse(n.func) == 'unflatten_dict']
  seps = {tuple(sorted((k.arg, unparse(k.value)) for k in c.keywords if k.arg == 'sep')) + tuple(unparse(a) for a in c.args[2:]) for c in calls_f + calls_u}
  chk.check(len(calls_u) == 1 and len(calls_f) == 2 and len(seps) == 1, rule, f'{site_r}: flatten and unflatten are called with the same separator', str(seps), (rp.file, rp.lineno))
  tgt = [n for n in ast.walk(rp.node) if isinstance(n, ast.Assign) and isinstance(n.value, ast.Call) and unparse(n.value.func) == 'flatten_dict' and unparse(n.value.args[0]) == rp.param_names()[0]]
  ok = len(tgt) == 1 and isinstance(tgt[0].targets[0], ast.Tuple) and len(calls_u) == 1 and len(calls_u[0].args) == 2 and unparse(calls_u[0].args[1]) == unparse(tgt[0].targets[0].elts[1])
  chk.check(ok, rule, f'{site_r}: the empty branches of `x` are handed to unflatten_dict, so the result has the structure of `x`', unparse(calls_u[0]) if calls_u else '', (rp.file, rp.lineno))
  chk.at_least(rule, 11)



# ----------------------------------------------------------------- inverse pairs of tree utilities
def _axis_default(f):
  d = _defaults(f.node if hasattr(f, 'node') else f).get('axis')
  return None if d is None else unparse(d)


def rule_pairs(chk, prog):
  rule = 'C19.6-inverse-pairs'
  AX = S('axis')
  fn = {n: prog.func(f'{PT}.{n}') for n in ('pack_pytree', 'unpack_to_pytree', 'stack_pytree', 'unstack_to_pytree', 'split_along_axis', 'slice_along_axis', 'concat_along_axis', 'split_axis')}
  val = {}
  ctxs = {}
  for n, f in fn.items():
    ev = sym.Evaluator(prog, sym.Options(opaque={f'{PT}.slice_along_axis'} if n == 'split_along_axis' else set(), identity_arrays=False))
    val[n], ctxs[n], _ = ev.run(f)
    if n == 'concat_along_axis':
      cev = ev
  loc = lambda n: (fn[n].file, fn[n].lineno)
  flat = lambda name, i: Term('sub', sym.mk_call(Term('ext', 'jax.tree_util.tree_flatten'), [S(name)]), sym.const(i))
  # pack / unpack
  a1, a2 = _axis_default(fn['pack_pytree']), _axis_default(fn['unpack_to_pytree'])
  chk.check(a1 is not None and a1 == a2, rule, f'{PT}.pack_pytree / unpack_to_pytree share the default axis', f'{a1} / {a2}', loc('pack_pytree'))
  v = val['pack_pytree']
  arm = [x for x in sym.walk(v) if match.is_ext_call(x, 'concatenate')]
  ok = len(arm) == 1 and list(arm[0].a[1]) == [flat('pytree', 0), AX]
  chk.check(ok, rule, f'{PT}.pack_pytree concatenates the flattened leaves, in flatten order, along `axis`', sym.show(v)[:160], loc('pack_pytree'))
  v = val['unpack_to_pytree']
  ok = v.k == 'call' and v.a[0] == Term('ext', 'jax.tree_util.tree_unflatten') and v.a[1][0] == flat('pytree_of_shapes', 1)
  sp_ = v.a[1][1] if ok else None
  ok = ok and match.is_ext_call(sp_, 'split') and sp_.a[1][0] == S('array') and sp_.a[1][2] == AX
  chk.check(ok, rule, f'{PT}.unpack_to_pytree splits the array along the same `axis` and rebuilds the tree structure of `pytree_of_shapes`', sym.show(v, maxdepth=4)[:200], loc('unpack_to_pytree'))
  if ok:
    pts = sp_.a[1][1]
    good = pts.k == 'sub' and pts.a[1].k == 'slice' and pts.a[1].a[0] == sym.NONE and pts.a[1].a[1] == sym.const(-1) and match.is_ext_call(pts.a[0], 'cumsum')
    if good:
      inner = pts.a[0].a[1][0]
      while inner.k == 'call' and alg.ext_short(inner.a[0]) in ('array', 'asarray'):
        inner = inner.a[1][0]
      good = inner.k == 'comp' and inner.a[1].k == 'sub' and inner.a[1].a[1] == AX and inner.a[1].a[0].k == 'loopvar' and inner.a[1].a[0].a[1] == flat('pytree_of_shapes', 0)
    chk.check(good, rule, f'{PT}.unpack_to_pytree: split points are the running sums of the leaf extents along `axis` (all but the last), in flatten order', sym.show(pts, maxdepth=8)[:200], loc('unpack_to_pytree'),
              'cumsum([shape[axis] for shape in leaves])[:-1]', sym.show(pts, maxdepth=8)[:200])
  # stack / unstack
  a1, a2 = _axis_default(fn['stack_pytree']), _axis_default(fn['unstack_to_pytree'])
  chk.check(a1 is not None and a1 == a2, rule, f'{PT}.stack_pytree / unstack_to_pytree share the default axis', f'{a1} / {a2}', loc('stack_pytree'))
  v = val['stack_pytree']
  arm = [x for x in sym.walk(v) if match.is_ext_call(x, 'stack')]
  chk.check(len(arm) == 1 and list(arm[0].a[1]) == [flat('pytree', 0), AX], rule, f'{PT}.stack_pytree stacks the flattened leaves along a new `axis`', sym.show(v)[:160], loc('stack_pytree'))
  v = val['unstack_to_pytree']
  ok = v.k == 'call' and v.a[0] == Term('ext', 'jax.tree_util.tree_unflatten') and v.a[1][0] == flat('pytree_of_shapes', 1)
  if ok:
    leaves = v.a[1][1]
    body = leaves.a[0] if leaves.k == 'mapover' else leaves
    sq = body if match.is_ext_call(body, 'squeeze') else None
    ok = sq is not None and (util.call_kwargs(sq).get('axis') == AX or (len(sq.a[1]) > 1 and sq.a[1][1] == AX))
    src = [x for x in sym.walk(leaves) if match.is_ext_call(x, 'split')]
    ok = ok and len(set(src)) == 1 and src[0].a[1][0] == S('array') and src[0].a[1][1] == Term('sub', Term('attr', S('array'), 'shape'), AX) and src[0].a[1][2] == AX
  chk.check(ok, rule, f'{PT}.unstack_to_pytree splits into array.shape[axis] pieces along `axis`, squeezes that same axis and rebuilds the tree', sym.show(v, maxdepth=6)[:200], loc('unstack_to_pytree'))
  # split_along_axis: complementary slices
  v = val['split_along_axis']
  ok = v.k == 'tuple' and len(v.a) == 2 and all(x.k == 'call' and util.callee_name(x) == 'slice_along_axis' for x in v.a)
  if chk.check(ok, rule, f'{PT}.split_along_axis returns two slice_along_axis results', sym.show(v)[:200], loc('split_along_axis')):
    b = [cev.bind_args(fn['slice_along_axis'], list(x.a[1]), list(x.a[2]), None, None) for x in v.a]
    same = all(bb['inputs'] == S('inputs') and bb['axis'] == AX and bb['expect_same_dims'] == S('expect_same_dims') for bb in b)
    chk.check(same, rule, f'{PT}.split_along_axis: both halves slice the same inputs along the same axis with the same dimension policy', str([sym.show(bb["axis"]) for bb in b]), loc('split_along_axis'))
    i0, i1 = b[0]['idx'], b[1]['idx']
    def sl(t):
      if t.k == 'slice':
        return t.a
      if t.k == 'call' and t.a[0] == Term('ext', 'slice'):
        a = list(t.a[1])
        return (sym.NONE, a[0], sym.NONE) if len(a) == 1 else tuple(a) + (sym.NONE,) * (3 - len(a))
      return None
    s0, s1 = sl(i0), sl(i1)
    ok = s0 is not None and s1 is not None and s0[0] in (sym.const(0), sym.NONE) and s0[1] == S('split_idx') and s1[0] == S('split_idx') and s1[1] == sym.NONE and s0[2] == sym.NONE and s1[2] == sym.NONE
    chk.check(ok, rule, f'{PT}.split_along_axis: the halves are [0:split_idx] and [split_idx:] — complementary, nothing dropped or duplicated', f'{sym.show(i0)} / {sym.show(i1)}', loc('split_along_axis'),
              'slice(0, split_idx) / slice(split_idx, None)', f'{sym.show(i0)} / {sym.show(i1)}')
  # slice_along_axis: idx on the normalised axis, full slices elsewhere
  v = val['slice_along_axis']
  comps = [x for x in sym.walk(v) if x.k == 'comp' and x.a[1].k == 'phi']
  ok = len(set(comps)) == 1
  if ok:
    ph = comps[0].a[1]
    cond = ph.a[0]
    ok = cond.k == 'cmp' and cond.a[0] == ('==',) and ph.a[1] == S('idx') and ph.a[2].k == 'slice' and all(x == sym.NONE for x in ph.a[2].a)
    norm = [x for x in cond.a[1] if x.k != 'loopvar']
    ok = ok and len(norm) == 1 and sym.contains(norm[0], lambda z: z == AX)
  chk.check(ok, rule, f'{PT}.slice_along_axis applies `idx` on the (normalised) `axis` and full slices on every other axis', sym.show(comps[0], maxdepth=6)[:200] if comps else sym.show(v)[:200], loc('slice_along_axis'))
  # concat_along_axis
  v = val['concat_along_axis']
  lam = [x for x in sym.walk(v) if x.k == 'lambda']
  chk.require(len(lam) >= 1, f'{PT}.concat_along_axis: expected a leaf-wise function')
  body, _, _ = util.inner(cev, lam[0], f'{PT}.concat_along_axis')
  ok = match.is_ext_call(body, 'concatenate') and body.a[1][1] == AX and body.a[1][0].k in ('star', 'sym', 'tuple')
  mapped = v.k == 'call' and v.a[0].k == 'lambda' and any(a.k == 'star' and a.a[0] == S('pytrees') for a in v.a[1]) or v.k == 'mapover'
  chk.check(ok and mapped, rule, f'{PT}.concat_along_axis concatenates corresponding leaves of all pytrees, in the given order, along `axis`', sym.show(body)[:120], loc('concat_along_axis'))
  # split_axis
  v = val['split_axis']
  rz = [sym.show(guards.path_cond(p), maxdepth=10) for p, e, l in ctxs['split_axis'].raises]
  chk.check(any('.shape[' in z and '!= 1' in z and 'len(set(' in z for z in rz), rule, f'{PT}.split_axis: leaves with different extents along `axis` raise', str(rz)[:200], loc('split_axis'))
  spl = [x for x in sym.walk(v) if match.is_ext_call(x, 'split')]
  sq = [x for x in sym.walk(v) if match.is_ext_call(x, 'squeeze')]
  def axis_of(c, pos):
    return util.call_kwargs(c).get('axis', c.a[1][pos] if len(c.a[1]) > pos else None)
  def axis_ok(t, leaf):
    """`axis` itself, or `axis` normalised against the rank of the very leaf it is applied to."""
    if t == AX:
      return True
    if t is not None and t.k == 'phi' and sym.show(t.a[0]) == '(axis < 0)' and t.a[2] == AX and t.a[1].k == 'bin' and t.a[1].a[0] == '+':
      other = [x for x in (t.a[1].a[1], t.a[1].a[2]) if x != AX]
      return len(other) == 1 and other[0] == Term('attr', leaf, 'ndim')
    return False
  ok = len(set(spl)) == 1 and axis_ok(axis_of(spl[0], 2), spl[0].a[1][0]) and spl[0].a[1][0].k == 'loopvar'
  ok = ok and len(set(sq)) == 1 and axis_ok(axis_of(sq[0], 1), spl[0].a[1][0] if spl else None)
  chk.check(ok, rule, f'{PT}.split_axis splits every leaf into unit slices along `axis` (resolved per leaf) and squeezes that same axis unless keep_dims', sym.show(spl[0], maxdepth=4)[:160] if spl else 'no split', loc('split_axis'))
  chk.at_least(rule, 12)


# ----------------------------------------------------------------- spectral resampling
def prefix_stable(t):
  """None when entry i of the 1-d array `t` does not depend on the truncation (only its length does); otherwise the reason."""
  if t.k == 'call':
    short = alg.ext_short(t.a[0])
    args = list(t.a[1])
    if short == 'arange':
      if len(args) == 1:
        return None
      if len(args) == 2 and args[0].k == 'const':
        return None
      return f'arange start {sym.show(args[0])} depends on the truncation' if len(args) >= 2 else 'arange form'
    if short == 'pad' and len(args) == 2:
      w = args[1]
      first = w.a[0] if w.k in ('list', 'tuple') and w.a else None
      if first is not None and first.k == 'tuple' and first.a[0] == sym.const(0):
        return prefix_stable(args[0])
      return f'pad widths {sym.show(w)[:60]} are not (0, tail)'
    if short == 'concatenate' and args and args[0].k in ('list', 'tuple'):
      parts = list(args[0].a)
      for p in parts[:-1]:
        if not (p.k in ('list', 'tuple') and all(x.k == 'const' for x in p.a)):
          return f'leading part {sym.show(p)[:60]} is not a constant block'
      return prefix_stable(parts[-1])
    if t.a[0].k == 'attr' and t.a[0].a[1] == 'ravel' and not args:
      base = t.a[0].a[0]
      if match.is_ext_call(base, 'stack') and util.call_kwargs(base).get('axis') == sym.const(1) and base.a[1][0].k in ('list', 'tuple'):
        for p in base.a[1][0].a:
          r = prefix_stable(p)
          if r:
            return r
        return None
      return f'unrecognised interleave {sym.show(base)[:60]}'
    if short in ('asarray', 'array') and args:
      return prefix_stable(args[0])
  if t.k == 'un' and t.a[0] == '-':
    return prefix_stable(t.a[1])
  if t.k == 'sub' and t.a[1].k == 'slice' and t.a[1].a[2] in (sym.NONE,) and t.a[1].a[0] in (sym.NONE, sym.const(0)):
    return prefix_stable(t.a[0])
  if t.k == 'sub' and t.a[1].k == 'slice' and t.a[1].a[2] == sym.const(-1):
    return 'reversed array'
  raise AnalysisError(f'prefix-stability: unrecognised construction {sym.show(t, maxdepth=3)[:100]}')


def rule_spectral(chk, prog):
  rule = 'C19.7-spectral-resampling'
  ev = sym.Evaluator(prog)
  dn, up, ip = (prog.func(f'{CS}.{n}') for n in ('get_spectral_downsample_fn', 'get_spectral_upsample_fn', 'get_spectral_interpolate_fn'))
  mshape = lambda who, i: (lambda t: t.k == 'sub' and t.a[1] == sym.const(i) and t.a[0].k == 'attr' and t.a[0].a[1] == 'modal_shape' and sym.contains(t.a[0], lambda z: z == S(who)))
  # down: prefix slice on the two trailing axes
  v, ctx, _ = ev.run(dn)
  body, _, _ = util.inner(ev, v, dn.qualname)
  site, loc = f'{CS}.get_spectral_downsample_fn', (dn.file, dn.lineno)
  st = S(prog.func(f'{CS}.get_spectral_downsample_fn').nested['downsample_fn'].param_names()[0]) if 'downsample_fn' in dn.nested else S('state')
  ok = body.k == 'sub' and body.a[1].k == 'tuple' and len(body.a[1].a) == 3 and sym.show(body.a[1].a[0]) == 'Ellipsis'
  if chk.check(ok, rule, f'{site}: indexes x[..., a, b] on the two trailing (wavenumber) axes of every non-scalar leaf', sym.show(body)[:200], loc):
    for i, sl in enumerate(body.a[1].a[1:]):
      good = sl.k == 'slice' and sl.a[0] in (sym.const(0), sym.NONE) and sl.a[2] == sym.NONE and mshape('save_coords', i)(sl.a[1])
      chk.check(good, rule, f'{site}: trailing axis {i} keeps the prefix [0 : save_coords modal_shape[{i}]]', sym.show(sl), loc, f'0:save_coords.horizontal.modal_shape[{i}]', sym.show(sl))
  rz = [guards.path_cond(p) for p, e, l in ctx.raises]
  txt = [sym.show(z, maxdepth=10) for z in rz]
  okg = any('coords.horizontal.total_wavenumbers < save_coords.horizontal.total_wavenumbers' in z and 'coords.horizontal.longitude_wavenumbers < save_coords.horizontal.longitude_wavenumbers' in z and ' or ' in z for z in txt)
  chk.check(okg, rule, f'{site}: a target larger in either wavenumber count raises', str(txt)[-240:], loc)
  # up: tail zero-padding of the same two axes by the size difference
  v, ctx, _ = ev.run(up)
  body, _, _ = util.inner(ev, v, up.qualname)
  site, loc = f'{CS}.get_spectral_upsample_fn', (up.file, up.lineno)
  ok = match.is_ext_call(body, 'pad') and len(body.a[1]) == 2 and not [k for k, _ in body.a[2] if k in ('mode', 'constant_values')]
  if chk.check(ok, rule, f'{site}: pads every non-scalar leaf with zeros (default constant mode)', sym.show(body, maxdepth=4)[:200], loc):
    w = body.a[1][1]
    def unwrap(t):
      while t.k == 'call' and t.a[0] in (Term('ext', 'list'), Term('ext', 'tuple')) and len(t.a[1]) == 1:
        t = t.a[1][0]
      return t
    parts = [unwrap(p) for p in _plus_parts(unwrap(w))]
    lead, tail = parts[0], parts[-1]
    zero2 = lambda t: t.k in ('tuple', 'list') and len(t.a) == 1 and t.a[0].k in ('tuple', 'list') and list(t.a[0].a) == [sym.const(0), sym.const(0)]
    nd2 = lambda t: t.k == 'bin' and t.a[0] == '-' and t.a[1].k == 'attr' and t.a[1].a[1] == 'ndim' and t.a[2] == sym.const(2)
    okl = len(parts) == 2 and lead.k == 'bin' and lead.a[0] == '*' and ((zero2(lead.a[1]) and nd2(lead.a[2])) or (zero2(lead.a[2]) and nd2(lead.a[1])))
    chk.check(okl, rule, f'{site}: leading axes are not padded ((0, 0) for each of the ndim − 2 leading axes)', sym.show(lead), loc)
    A = alg.Algebra(ev)
    for i in (0, 1):
      s_i = A.name(mshape('save_coords', i), f'save{i}')
      c_i = A.name(mshape('coords', i), f'src{i}')
    okt = tail.k in ('tuple', 'list') and len(tail.a) == 2 and all(x.k in ('tuple', 'list') and len(x.a) == 2 for x in tail.a)
    if chk.check(okt, rule, f'{site}: the two trailing axes get (before, after) pad widths', sym.show(tail)[:160], loc):
      for i, pr in enumerate(tail.a):
        want = sp.Symbol(f'save{i}') - sp.Symbol(f'src{i}')
        got = A.conv(pr.a[1])
        chk.check(pr.a[0] == sym.const(0) and sp.simplify(got - want) == 0,
                  rule, f'{site}: trailing axis {i} is padded only at the tail, by save_coords modal_shape[{i}] − coords modal_shape[{i}]', sym.show(pr), loc, f'(0, {want})', f'({sym.show(pr.a[0])}, {got})')
  txt = [sym.show(guards.path_cond(p), maxdepth=12) for p, e, l in ctx.raises]
  okg = any(z.count('min(') == 2 and z.count('!= 0') == 2 and ' or ' in z for z in txt)
  chk.check(okg, rule, f'{site}: a negative pad on either axis (target smaller than source) raises', str(txt)[-240:], loc)
  # interpolate: consistent dispatch
  ev2 = sym.Evaluator(prog, sym.Options(opaque={f'{CS}.get_spectral_downsample_fn', f'{CS}.get_spectral_upsample_fn'}))
  v, ctx, _ = ev2.run(ip)
  site, loc = f'{CS}.get_spectral_interpolate_fn', (ip.file, ip.lineno)
  ok = v.k == 'phi' and util.callee_name(v.a[1]) == 'get_spectral_upsample_fn' and util.callee_name(v.a[2]) == 'get_spectral_downsample_fn'
  if chk.check(ok, rule, f'{site}: dispatches to the up-sampler or the down-sampler', sym.show(v, maxdepth=3)[:200], loc):
    c = sym.show(v.a[0], maxdepth=10)
    okc = 'source_coords.horizontal.total_wavenumbers < target_coords.horizontal.total_wavenumbers' in c and 'source_coords.horizontal.longitude_wavenumbers < target_coords.horizontal.longitude_wavenumbers' in c and ' and ' in c
    chk.check(okc, rule, f'{site}: up-sampling is chosen when the source is smaller in both wavenumber counts', c[:200], loc)
    for arm, nm in ((v.a[1], 'up'), (v.a[2], 'down')):
      chk.check(list(util.call_args(arm))[:3] == [S('source_coords'), S('target_coords'), S('expect_same_vertical')], rule, f'{site}: the {nm}-sampler gets (source, target, expect_same_vertical) in that order', sym.show(arm)[:160], loc)
    rz = [sym.show(guards.path_cond(p), maxdepth=12) for p, e, l in ctx.raises]
    chk.check(len(rz) == 1 and '>=' in rz[0], rule, f'{site}: mixed cases (larger in one count, smaller in the other) raise', rz[0][-200:] if rz else 'no raise', loc)
  # wavenumber axes are prefix-stable in every layout
  for cname in ('RealSphericalHarmonics', 'FastSphericalHarmonics'):
    c = prog.cls(f'{SH}.{cname}')
    f = c.find_method('modal_axes')
    v, _, _ = sym.Evaluator(prog, sym.Options(identity_arrays=False)).run(f)
    chk.require(v.k == 'tuple' and len(v.a) == 2, f'{SH}.{cname}.modal_axes: not a pair')
    for i, ax in enumerate(v.a):
      why = prefix_stable(ax)
      chk.check(why is None, rule, f'{SH}.{cname}.modal_axes[{i}]: entry i is the same wavenumber at every truncation (prefix slicing / tail padding keeps each coefficient on its mode)',
                why or 'built from arange / constant head / interleave / tail pad', (f.file, f.lineno), 'prefix-stable construction', why or '')
  chk.at_least(rule, 19)


def run(chk, prog, tier):
  reg, vs, hcls = rule_registry(chk, prog)
  rule_fields(chk, prog, reg, vs, hcls)
  rule_dims(chk, prog)
  rule_extract(chk, prog)
  rule_flatten(chk, prog)
  rule_pairs(chk, prog)
  rule_spectral(chk, prog)
  chk.assume('xarray.Dataset stores attrs and dims as given; jax.tree_util.tree_flatten / tree_unflatten are mutually inverse with a stable leaf order',
             'numpy: concatenate / split / stack / squeeze / pad semantics; dataclasses.asdict / fields enumerate exactly the dataclass fields')
  return dict(
      explanation=('Writer/reader agreement is decided on resolved classes, constants and abstractly interpreted terms: GRID_REGISTRY against the classes that can occupy the coordinate slots; '
                   'the keys each asdict writes against the fields the reader reads and the keys it drops; constructor parameters and list→array conversions; shape→dimension-name '
                   'table entries by positional roles; dataset→state extractors against the state dataclass fields; element-kind inference over the lists that feed the duplicate checks '
                   'of flatten_dict, the truth table of its branch conditions, separator discipline across flatten/unflatten/replace; axes, slices and tree structures of the inverse pairs; '
                   'slice/pad structure of the spectral resamplers and prefix-stability of the wavenumber axes. Not decided: bit-identical round trips through xarray/NetCDF, shape collisions '
                   'in the shape→dimension table, or that up-sampling represents the same function.'),
      trusted_base=['python ast', 'sympy (pad-width algebra)', 'xarray / numpy / jax.tree_util semantics'],
      analysed=dict(functions=[f'{XU}.GRID_REGISTRY', f'{XU}.coordinate_system_from_attrs', f'{CS}.CoordinateSystem.asdict', f'{SH}.Grid.asdict', 'SigmaCoordinates/LayerCoordinates/PressureCoordinates.asdict + __init__',
                               f'{XU}._infer_dims_shape_and_coords', f'{XU}._maybe_update_shape_and_dim_with_realization_time_sample', f'{XU}.data_to_xarray', f'{XU}.xarray_to_*',
                               f'{PT}.flatten_dict', f'{PT}.unflatten_dict', f'{PT}.replace_with_matching_or_default', f'{PT}.pack_pytree … split_axis',
                               f'{CS}.get_spectral_*_fn', f'{SH}.*.modal_axes']),
  )
