import os
os.environ['XLA_FLAGS'] = '--xla_force_host_platform_device_count=8'
import jax, numpy as np
import jax.numpy as jnp
from dinosaur import spherical_harmonic as sh, coordinate_systems as cs, sigma_coordinates as sc
hits = []
for shape in [(1,2,2),(1,4,1),(2,2,2),(1,1,8),(1,2,4),(1,4,2),(2,1,2),(2,2,1),(1,1,2),(1,2,1),(1,1,4),(1,8,1)]:
  n = int(np.prod(shape))
  devs = np.array(jax.devices()[:n]).reshape(shape)
  mesh = jax.sharding.Mesh(devs, ('z','x','y'))
  for name in ['T21','T31','T42','T85','TL31','TL47','TL63','TL95','TL127']:
    try:
      import dataclasses; g = dataclasses.replace(getattr(sh.Grid, name)(spherical_harmonics_impl=sh.FastSphericalHarmonics), spmd_mesh=mesh)
    except Exception as e:
      print('ERR', shape, name, repr(e)[:100]); continue
    if g.modal_shape == g.nodal_shape:
      hits.append((shape, name, g.modal_shape))
print('coinciding layouts:', hits)
if hits:
  shape, name, ms = hits[0]
  n = int(np.prod(shape)); devs = np.array(jax.devices()[:n]).reshape(shape)
  mesh = jax.sharding.Mesh(devs, ('z','x','y'))
  import dataclasses; g = dataclasses.replace(getattr(sh.Grid, name)(spherical_harmonics_impl=sh.FastSphericalHarmonics), spmd_mesh=mesh)
  coords = cs.CoordinateSystem(g, sc.SigmaCoordinates.equidistant(shape[0]*2), spmd_mesh=mesh)
  rng = np.random.default_rng(0)
  modal = jnp.asarray(rng.standard_normal((shape[0]*2,)+g.modal_shape).astype(np.float32)) * g.mask
  out = cs.maybe_to_nodal({'x': modal}, coords)['x']
  want = g.to_nodal(modal)
  print('maybe_to_nodal returned its modal input unchanged:', bool(np.array_equal(np.asarray(out), np.asarray(modal))), ' |to_nodal - returned| max =', float(np.abs(np.asarray(want)-np.asarray(out)).max()))
