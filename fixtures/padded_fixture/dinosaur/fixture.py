"""Positive fixture for the padded-axis rule (never part of dinosaur): both functions must be reported."""


def top_mode_by_end_index(grid):
  eigenvalues = grid.laplacian_eigenvalues
  return abs(eigenvalues[-1])


def normalise_by_extent(grid):
  _, total_wavenumber = grid.modal_axes
  return total_wavenumber / (total_wavenumber.size - 1)
