"""Positive example for the shared-state in-place update rule (never imported or executed)."""
import functools
import numpy as np


class Grid:

  @functools.cached_property
  def weights(self):
    return np.ones(4)

  def integrate(self, z, radius):
    w = self.weights
    w *= radius**2            # updates the cached array for every later call
    return (z * w).sum()

  def top(self, x):
    e = np.asarray(self.weights)[1:]
    e[-1] = 0                 # a view of the cached array
    return x * self.weights

  def fresh(self, x):
    w = self.weights * 1.0    # a new array: not reported
    w *= 2
    return x * w
