"""Positive example for sa/identity.py (never imported or executed)."""
import dataclasses

import numpy as np


@dataclasses.dataclass(frozen=True)
class Complete:
  nodes: int = 0
  radius: float = 1.0
  _scratch: dict = dataclasses.field(default_factory=dict, init=False, compare=False, repr=False)

  def lookup(self, k):
    return self._scratch.get(k)

  def area(self):
    return 4 * np.pi * self.radius**2


@dataclasses.dataclass(frozen=True)
class DropsRadius:
  nodes: int = 0
  radius: float = dataclasses.field(default=1.0, compare=False)

  def area(self):
    return 4 * np.pi * self.radius**2


@dataclasses.dataclass(frozen=True)
class CustomEqMissesOffset:
  boundaries: np.ndarray
  offset: float = 0.0

  @property
  def centers(self):
    return (self.boundaries[1:] + self.boundaries[:-1]) / 2 + self.offset * 0

  def shifted(self):
    return self.boundaries + self.offset

  def __hash__(self):
    return hash(tuple(self.boundaries.tolist()))

  def __eq__(self, other):
    return isinstance(other, CustomEqMissesOffset) and np.array_equal(self.boundaries, other.boundaries)


@dataclasses.dataclass(frozen=True, eq=False)
class ByIdentity:
  radius: float = dataclasses.field(default=1.0, compare=False)
