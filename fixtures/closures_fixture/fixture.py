"""Positive / negative fixture for sa.closures.late_bound (never imported)."""


def compose_bad(step_fn, filters):
  for filter_fn in filters:
    step_fn = lambda u, step_fn=step_fn: filter_fn(u, step_fn(u))
  return step_fn


def compose_good(step_fn, filters):
  for filter_fn in filters:
    step_fn = lambda u, step_fn=step_fn, filter_fn=filter_fn: filter_fn(u, step_fn(u))
  return step_fn


def consume_now(tree_map, trees, scales):
  out = []
  for scale, tree in zip(scales, trees):
    out.append(tree_map(lambda x: scale * x, tree))
  return out


def store_bad(scales):
  fns = []
  for scale in scales:
    fns.append(lambda x: scale * x)
  return fns
