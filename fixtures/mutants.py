"""Source-variant recipes for the sensitivity sweep (thorough tier / self-test).

(name, file, old text, new text, 'kill' | 'equiv').  'kill' variants break the
property and the rules must fire on them; 'equiv' variants are behaviour-
preserving rewrites on which the rules must stay silent.
"""
TI = 'dinosaur/time_integration.py'
RECIPES = {}

RECIPES['C06'] = [
    ('guard-chained-neq', TI, 'if not (len(alphas) - 1 == len(betas) == len(gammas)):', 'if len(alphas) - 1 != len(betas) != len(gammas):', 'kill'),
    ('guard-drops-gammas', TI, 'if not (len(alphas) - 1 == len(betas) == len(gammas)):', 'if len(alphas) - 1 != len(betas):', 'kill'),
    ('guard-equiv-set', TI, 'if not (len(alphas) - 1 == len(betas) == len(gammas)):', 'if len({len(alphas) - 1, len(betas), len(gammas)}) != 1:', 'equiv'),
    ('guard-equiv-or', TI, 'if not (len(alphas) - 1 == len(betas) == len(gammas)):', 'if len(alphas) != len(betas) + 1 or len(gammas) != len(betas):', 'equiv'),
    ('tableau-guard-b_im', TI, "            len(self.b_im)}) > 1:", "            len(self.b_ex)}) > 1:", 'kill'),
    ('tableau-guard-offbyone', TI, "    if len({len(self.a_ex) + 1,", "    if len({len(self.a_ex),", 'kill'),
    ('rk3-beta', TI, 'betas=[0, -5/9, -153/128],', 'betas=[0, -4/9, -153/128],', 'kill'),
    ('rk3-alpha-thirds', TI, 'alphas=[0, 1/3, 3/4, 1],', 'alphas=[0, 1/3, 2/3, 1],', 'kill'),
    ('rk3-equiv-spelling', TI, 'alphas=[0, 1/3, 3/4, 1],', 'alphas=[0.0, 2/6, 0.75, 1.0],', 'equiv'),
    ('rk4-digit', TI, '0.3792103129999', '0.3792113129999', 'kill'),
    ('rk4-alpha', TI, '0.6222557631345, 0.9582821306748, 1]', '0.6222557631345, 0.9482821306748, 1]', 'kill'),
    ('sil3-b_im', TI, 'b_im=[3/8, 0, 3/8, 1/4],', 'b_im=[3/8, 0, 1/4, 3/8],', 'kill'),
    ('sil3-a_ex', TI, 'a_ex=[[1/3], [1/6, 1/2], [1/2, -1/2, 1]],', 'a_ex=[[1/3], [1/6, 1/3], [1/2, -1/2, 1]],', 'kill'),
    ('sil3-unstable-diag', TI, 'a_im=[[1/6, 1/6], [1/3, 0, 1/3], [3/8, 0, 3/8, 1/4]],', 'a_im=[[1/2, -1/6], [1/3, 0, 1/3], [3/8, 0, 3/8, 1/4]],', 'kill'),
    ('rk2-one-sided-half', TI, '    u2 = G_inv(g + dt * h2, 0.5 * dt)', '    u2 = G_inv(g + dt * h2, dt)', 'kill'),
    ('rk2-heun-weight', TI, '    h2 = 0.5 * (F(u1) + h1)', '    h2 = 0.5 * F(u1) + h1', 'kill'),
    ('rk2-equiv-reorder', TI, '    g = u0 + 0.5 * dt * G(u0)\n    h1 = F(u0)', '    h1 = F(u0)\n    half = dt / 2\n    g = half * G(u0) + u0', 'equiv'),
    ('euler-weight', TI, '    u1 = G_inv(g, dt)', '    u1 = G_inv(g, 0.5 * dt)', 'kill'),
    ('leapfrog-alpha-default', TI, '    alpha: float = 0.5,\n) -> TimeStepFn:\n  """Constructs a function that performs a semi-implicit leapfrog', '    alpha: float = 0.4,\n) -> TimeStepFn:\n  """Constructs a function that performs a semi-implicit leapfrog', 'kill'),
    ('leapfrog-eta', TI, '    eta = 2 * time_step * alpha', '    eta = time_step * alpha', 'kill'),
    ('leapfrog-levels', TI, '    explicit_current = explicit_fn(current)', '    explicit_current = explicit_fn(previous)', 'kill'),
    ('lsrk-mu', TI, '      µ = 0.5 * dt * (α[k + 1] - α[k])', '      µ = 0.5 * dt * (α[k + 1] - α[k - 1])', 'kill'),
    ('lsrk-register', TI, '      h = F(u) + β[k] * h', '      h = F(u) + β[k - 1] * h', 'kill'),
    ('lsrk-cn-onesided', TI, '      u = G_inv(u + γ[k] * dt * h + µ * G(u), µ)', '      u = G_inv(u + γ[k] * dt * h + µ * G(u), 2 * µ)', 'kill'),
    ('imex-diag-index', TI, '      Y = G_inv(Y_star, dt * a_im[i-1][i])', '      Y = G_inv(Y_star, dt * a_im[i-1][i-1])', 'kill'),
    ('imex-ex-row', TI, 'ex_terms = dt * sum(a_ex[i-1][j] * f[j] for j in range(i) if a_ex[i-1][j])', 'ex_terms = dt * sum(a_ex[i-1][j] * f[j] for j in range(i - 1) if a_ex[i-1][j])', 'kill'),
    ('imex-final-b', TI, '    im_terms = dt * sum(b_im[j] * g[j] for j in range(num_steps) if b_im[j])\n    y_next', '    im_terms = dt * sum(b_ex[j] * g[j] for j in range(num_steps) if b_im[j])\n    y_next', 'kill'),
]
