"""Source-variant recipes for the sensitivity sweep (thorough tier / self-test).

(name, file, old text, new text, 'kill' | 'equiv').  'kill' variants break the
property and the rules must fire on them; 'equiv' variants are behaviour-
preserving rewrites on which the rules must stay silent.
"""
TI = 'dinosaur/time_integration.py'
RECIPES = {}

RECIPES['C06'] = [
    ('guard-chained-neq', TI, 'if not (len(alphas) - 1 == len(betas) == len(gammas)):', 'if len(alphas) - 1 != len(betas) != len(gammas):', 'kill'),
    ('guard-drops-gammas', TI, 'if not (len(alphas) - 1 == len(betas) == len(gammas)):', 'if len(alphas) - 1 != len(betas):', 'kill'),
    ('guard-equiv-set', TI, 'if not (len(alphas) - 1 == len(betas) == len(gammas)):', 'if len({len(alphas) - 1, len(betas), len(gammas)}) != 1:', 'equiv'),
    ('guard-equiv-or', TI, 'if not (len(alphas) - 1 == len(betas) == len(gammas)):', 'if len(alphas) != len(betas) + 1 or len(gammas) != len(betas):', 'equiv'),
    ('tableau-guard-b_im', TI, "            len(self.b_im)}) > 1:", "            len(self.b_ex)}) > 1:", 'kill'),
    ('tableau-guard-offbyone', TI, "    if len({len(self.a_ex) + 1,", "    if len({len(self.a_ex),", 'kill'),
    ('rk3-beta', TI, 'betas=[0, -5/9, -153/128],', 'betas=[0, -4/9, -153/128],', 'kill'),
    ('rk3-alpha-thirds', TI, 'alphas=[0, 1/3, 3/4, 1],', 'alphas=[0, 1/3, 2/3, 1],', 'kill'),
    ('rk3-equiv-spelling', TI, 'alphas=[0, 1/3, 3/4, 1],', 'alphas=[0.0, 2/6, 0.75, 1.0],', 'equiv'),
    ('rk4-digit', TI, '0.3792103129999', '0.3792113129999', 'kill'),
    ('rk4-alpha', TI, '0.6222557631345, 0.9582821306748, 1]', '0.6222557631345, 0.9482821306748, 1]', 'kill'),
    ('sil3-b_im', TI, 'b_im=[3/8, 0, 3/8, 1/4],', 'b_im=[3/8, 0, 1/4, 3/8],', 'kill'),
    ('sil3-a_ex', TI, 'a_ex=[[1/3], [1/6, 1/2], [1/2, -1/2, 1]],', 'a_ex=[[1/3], [1/6, 1/3], [1/2, -1/2, 1]],', 'kill'),
    ('sil3-unstable-diag', TI, 'a_im=[[1/6, 1/6], [1/3, 0, 1/3], [3/8, 0, 3/8, 1/4]],', 'a_im=[[1/2, -1/6], [1/3, 0, 1/3], [3/8, 0, 3/8, 1/4]],', 'kill'),
    ('rk2-one-sided-half', TI, '    u2 = G_inv(g + dt * h2, 0.5 * dt)', '    u2 = G_inv(g + dt * h2, dt)', 'kill'),
    ('rk2-heun-weight', TI, '    h2 = 0.5 * (F(u1) + h1)', '    h2 = 0.5 * F(u1) + h1', 'kill'),
    ('rk2-equiv-reorder', TI, '    g = u0 + 0.5 * dt * G(u0)\n    h1 = F(u0)', '    h1 = F(u0)\n    half = dt / 2\n    g = half * G(u0) + u0', 'equiv'),
    ('euler-weight', TI, '    u1 = G_inv(g, dt)', '    u1 = G_inv(g, 0.5 * dt)', 'kill'),
    ('leapfrog-alpha-default', TI, '    alpha: float = 0.5,\n) -> TimeStepFn:\n  """Constructs a function that performs a semi-implicit leapfrog', '    alpha: float = 0.4,\n) -> TimeStepFn:\n  """Constructs a function that performs a semi-implicit leapfrog', 'kill'),
    ('leapfrog-eta', TI, '    eta = 2 * time_step * alpha', '    eta = time_step * alpha', 'kill'),
    ('leapfrog-levels', TI, '    explicit_current = explicit_fn(current)', '    explicit_current = explicit_fn(previous)', 'kill'),
    ('lsrk-mu', TI, '      µ = 0.5 * dt * (α[k + 1] - α[k])', '      µ = 0.5 * dt * (α[k + 1] - α[k - 1])', 'kill'),
    ('lsrk-register', TI, '      h = F(u) + β[k] * h', '      h = F(u) + β[k - 1] * h', 'kill'),
    ('lsrk-cn-onesided', TI, '      u = G_inv(u + γ[k] * dt * h + µ * G(u), µ)', '      u = G_inv(u + γ[k] * dt * h + µ * G(u), 2 * µ)', 'kill'),
    ('imex-diag-index', TI, '      Y = G_inv(Y_star, dt * a_im[i-1][i])', '      Y = G_inv(Y_star, dt * a_im[i-1][i-1])', 'kill'),
    ('imex-ex-row', TI, 'ex_terms = dt * sum(a_ex[i-1][j] * f[j] for j in range(i) if a_ex[i-1][j])', 'ex_terms = dt * sum(a_ex[i-1][j] * f[j] for j in range(i - 1) if a_ex[i-1][j])', 'kill'),
    ('imex-final-b', TI, '    im_terms = dt * sum(b_im[j] * g[j] for j in range(num_steps) if b_im[j])\n    y_next', '    im_terms = dt * sum(b_ex[j] * g[j] for j in range(num_steps) if b_im[j])\n    y_next', 'kill'),
]

FIL = 'dinosaur/filtering.py'
RECIPES['C15'] = [
    ('exp-lost-minus', FIL, 'scaling = jnp.exp((k > c) * (-a * (((k - c) / (1 - c)) ** (2 * p))))', 'scaling = jnp.exp((k > c) * (a * (((k - c) / (1 - c)) ** (2 * p))))', 'kill'),
    ('exp-odd-power', FIL, '** (2 * p))))', '** p)))', 'kill'),
    ('exp-no-indicator', FIL, 'scaling = jnp.exp((k > c) * (-a * (((k - c) / (1 - c)) ** (2 * p))))', 'scaling = jnp.exp(-a * (((k - c) / (1 - c)) ** (2 * p)))', 'kill'),
    ('exp-per-m', FIL, '  _, total_wavenumber = grid.modal_axes\n\n  k = total_wavenumber / total_wavenumber.max()', '  total_wavenumber, _ = grid.modal_axes\n\n  k = total_wavenumber / total_wavenumber.max()', 'kill'),
    ('exp-square-strength', FIL, 'scaling = jnp.exp((k > c) * (-a * (((k - c) / (1 - c)) ** (2 * p))))', 'scaling = jnp.exp((k > c) * (-a * a * (((k - c) / (1 - c)) ** (2 * p))))', 'kill'),
    ('exp-equiv-rewrite', FIL, 'scaling = jnp.exp((k > c) * (-a * (((k - c) / (1 - c)) ** (2 * p))))', 'damping = a * ((k - c) / (1 - c)) ** (2 * p)\n  scaling = jnp.exp(-(k > c) * damping)', 'equiv'),
    ('diff-lost-minus', FIL, 'scaling = jnp.exp(-scale * (-eigenvalues) ** order)', 'scaling = jnp.exp(-scale * eigenvalues ** order)', 'kill'),
    ('diff-amplify', FIL, 'scaling = jnp.exp(-scale * (-eigenvalues) ** order)', 'scaling = jnp.exp(scale * (-eigenvalues) ** order)', 'kill'),
    ('diff-offset', FIL, 'scaling = jnp.exp(-scale * (-eigenvalues) ** order)', 'scaling = jnp.exp(-scale * (1 - eigenvalues) ** order)', 'kill'),
    ('diff-equiv', FIL, 'scaling = jnp.exp(-scale * (-eigenvalues) ** order)', 'decay = scale * jnp.abs(eigenvalues) ** order\n  scaling = jnp.exp(-decay)', 'equiv'),
    ('gate-dropped', FIL, 'rescale = lambda x: scaling * x if _preserves_shape(x, scaling) else x', 'rescale = lambda x: scaling * x', 'kill'),
    ('gate-inverted', FIL, 'rescale = lambda x: scaling * x if _preserves_shape(x, scaling) else x', 'rescale = lambda x: x if _preserves_shape(x, scaling) else scaling * x', 'kill'),
    ('gate-weak', FIL, 'return target_shape == np.broadcast_shapes(target_shape, scaling.shape)', 'return len(target_shape) >= len(scaling.shape)', 'kill'),
    ('step-dt-squared', TI, 'filter_fn = filtering.exponential_filter(grid, dt / tau, order, cutoff)\n  return runge_kutta_step_filter(filter_fn)', 'filter_fn = filtering.exponential_filter(grid, (dt / tau) ** 2, order, cutoff)\n  return runge_kutta_step_filter(filter_fn)', 'kill'),
    ('step-swapped-args', TI, 'filter_fn = filtering.exponential_filter(grid, dt / tau, order, cutoff)\n  return leapfrog_step_filter(filter_fn)', 'filter_fn = filtering.exponential_filter(grid, dt / tau, cutoff, order)\n  return leapfrog_step_filter(filter_fn)', 'kill'),
    ('step-wrong-adapter', TI, 'filter_fn = filtering.exponential_filter(grid, dt / tau, order, cutoff)\n  return leapfrog_step_filter(filter_fn)', 'filter_fn = filtering.exponential_filter(grid, dt / tau, order, cutoff)\n  return runge_kutta_step_filter(filter_fn)', 'kill'),
    ('diffstep-end-index', TI, 'top_eigenvalue = eigenvalues[grid.total_wavenumbers - 1]', 'top_eigenvalue = eigenvalues[-1]', 'kill'),
    ('diffstep-no-order', TI, 'scale = dt / (tau * abs(top_eigenvalue) ** order)', 'scale = dt / (tau * abs(top_eigenvalue))', 'kill'),
    ('diffstep-order-not-forwarded', TI, 'filter_fn = filtering.horizontal_diffusion_filter(grid, scale, order)', 'filter_fn = filtering.horizontal_diffusion_filter(grid, scale)', 'kill'),
    ('ra-weight', TI, 'lambda p, c, f: (1 - 2 * r) * c + r * (p + f),', 'lambda p, c, f: (1 - r) * c + r * (p + f),', 'kill'),
    ('ra-asym', TI, 'lambda p, c, f: (1 - 2 * r) * c + r * (p + f),', 'lambda p, c, f: (1 - 2 * r) * c + 2 * r * p,', 'kill'),
    ('ra-filters-future', TI, '    return (filtered_current, future)\n', '    return (filtered_current, filtered_current)\n', 'kill'),
    ('ra-equiv', TI, 'lambda p, c, f: (1 - 2 * r) * c + r * (p + f),', 'lambda p, c, f: c + r * (p - 2 * c + f),', 'equiv'),
    ('rk-adapter-filters-u', TI, '    del u  # unused\n    return state_filter(u_next)', '    return state_filter(u)', 'kill'),
    ('lf-adapter-filters-both', TI, '    future = state_filter(future)\n    return (current, future)', '    future = state_filter(future)\n    return (state_filter(current), future)', 'kill'),
]

RECIPES['C14'] = [
    ('filters-late-binding', TI, '  def _step_fn(u: PyTreeState) -> PyTreeState:\n    u_next = step_fn(u)\n    for filter_fn in filters:\n      u_next = filter_fn(u, u_next)\n    return u_next\n\n  return _step_fn', '  for filter_fn in filters:\n    step_fn = lambda u, step_fn=step_fn: filter_fn(u, step_fn(u))\n  return step_fn', 'kill'),
    ('frame-swapped', TI, 'frame = carry_in if start_with_input else carry_out', 'frame = carry_out if start_with_input else carry_in', 'kill'),
    ('frame-always-out', TI, 'frame = carry_in if start_with_input else carry_out', 'frame = carry_out', 'kill'),
    ('carry-not-advanced', TI, '    return carry_out, post_process_fn(frame)', '    return carry_in, post_process_fn(frame)', 'kill'),
    ('no-postprocess', TI, '    return carry_out, post_process_fn(frame)', '    return carry_out, frame', 'kill'),
    ('outer-length', TI, 'return outer_scan_fn(step, x, xs=None, length=outer_steps)', 'return outer_scan_fn(step, x, xs=None, length=outer_steps - 1)', 'kill'),
    ('outer-inner-confused', TI, 'return outer_scan_fn(step, x, xs=None, length=outer_steps)', 'return outer_scan_fn(step, x, xs=None, length=inner_steps)', 'kill'),
    ('inner-uses-outer', TI, 'step_fn = repeated(step_fn, inner_steps, inner_scan_fn)', 'step_fn = repeated(step_fn, outer_steps, inner_scan_fn)', 'kill'),
    ('traj-equiv', TI, '    carry_out = step_fn(carry_in)\n    frame = carry_in if start_with_input else carry_out\n    return carry_out, post_process_fn(frame)',
     '    nxt = step_fn(carry_in)\n    if start_with_input:\n      out = carry_in\n    else:\n      out = nxt\n    return nxt, post_process_fn(out)', 'equiv'),
    ('repeated-length', TI, 'x_final, _ = scan_fn(g, x_initial, xs=None, length=steps)', 'x_final, _ = scan_fn(g, x_initial, xs=None, length=steps - 1)', 'kill'),
    ('repeated-body-twice', TI, 'g = lambda x, _: (fn(x), None)', 'g = lambda x, _: (fn(fn(x)), None)', 'kill'),
    ('repeated-returns-initial', TI, '    return x_final\n  return f_repeated', '    return x_initial\n  return f_repeated', 'kill'),
    ('filters-reversed', TI, '    for filter_fn in filters:\n      u_next = filter_fn(u, u_next)', '    for filter_fn in reversed(filters):\n      u_next = filter_fn(u, u_next)', 'kill'),
    ('filters-args', TI, '      u_next = filter_fn(u, u_next)', '      u_next = filter_fn(u_next, u_next)', 'kill'),
    ('filters-skip-first', TI, '    for filter_fn in filters:\n      u_next = filter_fn(u, u_next)', '    for filter_fn in filters[1:]:\n      u_next = filter_fn(u, u_next)', 'kill'),
    ('nested-base', TI, '  if len(lengths) == 1:\n    return scan_fn(f, init, xs, lengths[0])', '  if len(lengths) == 1:\n    return scan_fn(f, init, xs, lengths[-1] - 1)', 'kill'),
    ('nested-recursion-slice', TI, 'return _inner_nested_scan(f, carry, xs, lengths[1:], scan_fn, checkpoint_fn)', 'return _inner_nested_scan(f, carry, xs, lengths[:-1], scan_fn, checkpoint_fn)', 'kill'),
    ('nested-carry-dropped', TI, 'return _inner_nested_scan(f, carry, xs, lengths[1:], scan_fn, checkpoint_fn)', 'return _inner_nested_scan(f, init, xs, lengths[1:], scan_fn, checkpoint_fn)', 'kill'),
    ('nested-no-concat', TI, '  stacked_out = tree_map(jnp.concatenate, out)\n  return carry, stacked_out', '  return carry, out', 'kill'),
    ('nested-guard', TI, 'if length is not None and length != math.prod(nested_lengths):', 'if length is not None and length < math.prod(nested_lengths):', 'kill'),
    ('nested-reshape', TI, 'new_shape = tuple(nested_lengths) + x.shape[1:]', 'new_shape = tuple(nested_lengths)[::-1] + x.shape[1:]', 'kill'),
    ('acc-before-step', TI, '    state = step_fn(state)\n    averaged = tree_map(lambda s, a: a + weight * s, state, averaged)', '    averaged = tree_map(lambda s, a: a + weight * s, state, averaged)\n    state = step_fn(state)', 'kill'),
    ('acc-init-state', TI, '  init = (state, zeros)', '  init = (state, state)', 'kill'),
    ('acc-returns-state', TI, '  (_, averaged), _ = scan_fn(f, init, weights)\n  return averaged', '  (averaged, _), _ = scan_fn(f, init, weights)\n  return averaged', 'kill'),
    ('dfi-total-one-sided', TI, 'total_weight = init_weight + 2 * weights.sum()', 'total_weight = init_weight + weights.sum()', 'kill'),
    ('dfi-unnormalised-init', TI, '    init_weight /= total_weight\n', '', 'kill'),
    ('dfi-backward-forward', TI, 'ode_solver(TimeReversedImExODE(equation), dt), filters)', 'ode_solver(equation, dt), filters)', 'kill'),
    ('dfi-backward-nofilters', TI, 'ode_solver(TimeReversedImExODE(equation), dt), filters)', 'ode_solver(TimeReversedImExODE(equation), dt), ())', 'kill'),
    ('reversed-step-sign', TI, 'return self.forward_eq.implicit_inverse(state, -step_size)', 'return self.forward_eq.implicit_inverse(state, step_size)', 'kill'),
    ('reversed-implicit-sign', TI, '    forward_term = self.forward_eq.implicit_terms(state)\n    return tree_map(jnp.negative, forward_term)', '    forward_term = self.forward_eq.implicit_terms(state)\n    return forward_term', 'kill'),
]

SCF = 'dinosaur/sigma_coordinates.py'
JUF = 'dinosaur/jax_numpy_utils.py'
PEF = 'dinosaur/primitive_equations.py'
RECIPES['C13'] = [
    ('valid-nonstrict', SCF, '    if not all(np.diff(self.boundaries) > 0):', '    if not all(np.diff(self.boundaries) >= 0):', 'kill'),
    ('valid-or', SCF, 'np.isclose(self.boundaries[0], 0) and np.isclose(self.boundaries[-1], 1)', 'np.isclose(self.boundaries[0], 0) or np.isclose(self.boundaries[-1], 1)', 'kill'),
    ('valid-drop-last', SCF, 'np.isclose(self.boundaries[0], 0) and np.isclose(self.boundaries[-1], 1)', 'np.isclose(self.boundaries[0], 0)', 'kill'),
    ('valid-equiv', SCF, '    if not all(np.diff(self.boundaries) > 0):', '    if (np.diff(self.boundaries) <= 0).any():', 'equiv'),
    ('valid-no-mono', SCF, '    if not all(np.diff(self.boundaries) > 0):', '    if False:', 'kill'),
    ('centers-wrong', SCF, 'return (self.boundaries[1:] + self.boundaries[:-1]) / 2', 'return (self.boundaries[1:] + self.boundaries[:-1]) / 2.5', 'kill'),
    ('c2c-thickness', SCF, '    return np.diff(self.centers)', '    return np.diff(self.boundaries)[1:]', 'kill'),
    ('cum-no-weight', SCF, "  xd𝜎 = einsum(x, x_axes, d𝜎, d𝜎_axes, x_axes)\n  if downward:\n    return jax_numpy_utils.cumsum(\n        xd𝜎, axis, method=cumsum_method, sharding=sharding", "  xd𝜎 = x\n  if downward:\n    return jax_numpy_utils.cumsum(\n        xd𝜎, axis, method=cumsum_method, sharding=sharding", 'kill'),
    ('cum-c2c-weight', SCF, "  d𝜎 = coordinates.layer_thickness\n  d𝜎_axes = [x_axes[axis]]\n  xd𝜎 = einsum(x, x_axes, d𝜎, d𝜎_axes, x_axes)\n  if downward:", "  d𝜎 = coordinates.centers\n  d𝜎_axes = [x_axes[axis]]\n  xd𝜎 = einsum(x, x_axes, d𝜎, d𝜎_axes, x_axes)\n  if downward:", 'kill'),
    ('cum-direction', SCF, "  if downward:\n    return jax_numpy_utils.cumsum(\n        xd𝜎, axis, method=cumsum_method, sharding=sharding\n    )\n  else:\n    return jax_numpy_utils.reverse_cumsum(", "  if not downward:\n    return jax_numpy_utils.cumsum(\n        xd𝜎, axis, method=cumsum_method, sharding=sharding\n    )\n  else:\n    return jax_numpy_utils.reverse_cumsum(", 'kill'),
    ('total-wrong-axis', SCF, '  return xd𝜎.sum(axis=axis, keepdims=keepdims)', '  return xd𝜎.sum(axis=0, keepdims=keepdims)', 'kill'),
    ('log-no-append', SCF, '  dlog𝜎 = jnp.diff(log𝜎, append=0)', '  dlog𝜎 = jnp.diff(log𝜎, prepend=0)', 'kill'),
    ('log-interp', SCF, "      + lax.slice_in_dim(x, 0, -1, axis=axis)\n  ) / 2\n  integrand", "      + lax.slice_in_dim(x, 0, -1, axis=axis)\n  )\n  integrand", 'kill'),
    ('log-order', SCF, '  integrand = jnp.concatenate([x_interpolated, x_last], axis=axis)', '  integrand = jnp.concatenate([x_last, x_interpolated], axis=axis)', 'kill'),
    ('cdiff-thickness', SCF, '  inv_d𝜎 = 1 / coordinates.center_to_center', '  inv_d𝜎 = 1 / coordinates.layer_thickness[1:]', 'kill'),
    ('adv-half', SCF, '  return -0.5 * (\n      lax.slice_in_dim(w_times_x_diff, 1, None, axis=axis)', '  return -(\n      lax.slice_in_dim(w_times_x_diff, 1, None, axis=axis)', 'kill'),
    ('adv-sign', SCF, '  return -0.5 * (\n      lax.slice_in_dim(w_times_x_diff, 1, None, axis=axis)', '  return 0.5 * (\n      lax.slice_in_dim(w_times_x_diff, 1, None, axis=axis)', 'kill'),
    ('adv-bot-top', SCF, '  w = jnp.concatenate([w_boundary_top, w, w_boundary_bot], axis=axis)', '  w = jnp.concatenate([w_boundary_bot, w, w_boundary_top], axis=axis)', 'kill'),
    ('adv-ones-boundary', SCF, "    dx_dsigma_boundary_values = (\n        jnp.zeros(x_slc_shape, dtype=jax.dtypes.canonicalize_dtype(x.dtype)),\n        jnp.zeros(x_slc_shape, dtype=jax.dtypes.canonicalize_dtype(x.dtype)),\n    )\n\n  w_boundary_top", "    dx_dsigma_boundary_values = (\n        jnp.ones(x_slc_shape, dtype=jax.dtypes.canonicalize_dtype(x.dtype)),\n        jnp.zeros(x_slc_shape, dtype=jax.dtypes.canonicalize_dtype(x.dtype)),\n    )\n\n  w_boundary_top", 'kill'),
    ('upwind-swap', SCF, '  return -(jnp.maximum(w_up, 0) * x_diff_up +\n           jnp.minimum(w_down, 0) * x_diff_down)', '  return -(jnp.maximum(w_up, 0) * x_diff_down +\n           jnp.minimum(w_down, 0) * x_diff_up)', 'kill'),
    ('dispatch-reverse-flag', JUF, "    return _dot_cumsum(x, axis, reverse=True, sharding=sharding)", "    return _dot_cumsum(x, axis, sharding=sharding)", 'kill'),
    ('dispatch-jax-noflip', JUF, "    return jnp.flip(jnp.cumsum(jnp.flip(x, axis), axis), axis)", "    return jnp.flip(jnp.cumsum(x, axis), axis)", 'kill'),
    ('dot-exclusive', JUF, '  op = jnp.greater_equal if reverse else jnp.less_equal', '  op = jnp.greater if reverse else jnp.less_equal', 'kill'),
    ('dot-swapped', JUF, '  op = jnp.greater_equal if reverse else jnp.less_equal', '  op = jnp.less_equal if reverse else jnp.greater_equal', 'kill'),
    ('dot-ij', JUF, '  w = op(i, j).astype(np.float32)', '  w = op(j, i).astype(np.float32)', 'kill'),
    ('ratios-last', PEF, '  alpha[-1] = -np.log(coordinates.centers[-1])', '  alpha[-1] = -np.log(coordinates.centers[-1]) / 2', 'kill'),
    ('ratios-half', PEF, '  alpha = np.diff(np.log(coordinates.centers), append=0) / 2', '  alpha = np.diff(np.log(coordinates.centers), append=0)', 'kill'),
    ('gw-offdiag', PEF, '      weights[j, k] = alpha[k] + alpha[k - 1]', '      weights[j, k] = alpha[k] + alpha[k + 1]', 'kill'),
    ('gw-range', PEF, '    for k in range(j + 1, coordinates.layers):', '    for k in range(j + 2, coordinates.layers):', 'kill'),
    ('gw-transposed', PEF, '      weights[j, k] = alpha[k] + alpha[k - 1]', '      weights[k, j] = alpha[k] + alpha[k - 1]', 'kill'),
    ('gd-forward-cumsum', PEF, "        jax_numpy_utils.reverse_cumsum(\n            alpha2[:, np.newaxis, np.newaxis] * temperature,", "        jax_numpy_utils.cumsum(\n            alpha2[:, np.newaxis, np.newaxis] * temperature,", 'kill'),
    ('gd-alpha2', PEF, '    alpha2 = np.concatenate([[0], alpha[1:] + alpha[:-1]])', '    alpha2 = np.concatenate([[0], alpha[1:] + alpha[1:]])', 'kill'),
    ('gd-diag', PEF, '        + (alpha - alpha2)[:, np.newaxis, np.newaxis] * temperature', '        + alpha[:, np.newaxis, np.newaxis] * temperature', 'kill'),
    ('gd-equiv', PEF, '        + (alpha - alpha2)[:, np.newaxis, np.newaxis] * temperature', '        + alpha[:, np.newaxis, np.newaxis] * temperature\n        - alpha2[:, np.newaxis, np.newaxis] * temperature', 'equiv'),
]

SWF = 'dinosaur/shallow_water.py'
RECIPES['C03'] = [
    ('sparse-unweighted-cumsum', PEF, '        jax_numpy_utils.cumsum(weighted_divergence, axis=0, sharding=sharding)\n        - weighted_divergence', '        jax_numpy_utils.cumsum(divergence, axis=0, sharding=sharding)\n        - divergence', 'kill'),
    ('sparse-down-col', PEF, 'down_weights = np.concatenate([weights[:-1, -1] / thickness[-1], [0]])', 'down_weights = np.concatenate([weights[:-1, -1] / thickness[0], [0]])', 'kill'),
    ('sparse-inclusive', PEF, "        jax_numpy_utils.cumsum(weighted_divergence, axis=0, sharding=sharding)\n        - weighted_divergence\n    )", "        jax_numpy_utils.cumsum(weighted_divergence, axis=0, sharding=sharding)\n    )", 'kill'),
    ('matrix-eta-missing', PEF, "          eta * r * np.einsum('l,jo->ljo', lam, t),", "          r * np.einsum('l,jo->ljo', lam, t),", 'kill'),
    ('matrix-sign', PEF, "          eta * np.einsum('l,jk->ljk', lam, g),", "          -eta * np.einsum('l,jk->ljk', lam, g),", 'kill'),
    ('matrix-thickness', PEF, '          np.broadcast_to(eta * thickness, [l, 1, k]),', '          np.broadcast_to(eta * np.ones_like(thickness), [l, 1, k]),', 'kill'),
    ('matrix-kappa-default', PEF, '  h = get_temperature_implicit_weights(\n      coords.vertical, reference_temperature, kappa\n  )', '  h = get_temperature_implicit_weights(\n      coords.vertical, reference_temperature\n  )', 'kill'),
    ('terms-rt-missing-R', PEF, "    rt_log_p = (\n        self.physics_specs.ideal_gas_constant\n        * self.T_ref\n        * state.log_surface_pressure\n    )", "    rt_log_p = (\n        self.T_ref\n        * state.log_surface_pressure\n    )", 'kill'),
    ('terms-lnps-sign', PEF, '    log_surface_pressure_implicit = -_vertical_matvec(', '    log_surface_pressure_implicit = _vertical_matvec(', 'kill'),
    ('terms-nonlinear', PEF, '    divergence_implicit = -self.coords.horizontal.laplacian(\n        geopotential_diff + rt_log_p\n    )', '    divergence_implicit = -self.coords.horizontal.laplacian(\n        geopotential_diff + rt_log_p + 1e-9\n    )', 'kill'),
    ('split-swapped-block', PEF, "              inverse[:, div, temp], state.temperature_variation", "              inverse[:, div, logp], state.temperature_variation", 'kill'),
    ('split-wrong-field', PEF, "              inverse[:, temp, logp], state.log_surface_pressure", "              inverse[:, temp, logp], state.divergence", 'kill'),
    ('stacked-order', PEF, "          state.divergence,\n          state.temperature_variation,\n          state.log_surface_pressure,\n      ])", "          state.temperature_variation,\n          state.divergence,\n          state.log_surface_pressure,\n      ])", 'kill'),
    ('slices-overlap', PEF, '    logp = slice(2 * layers, 2 * layers + 1)', '    logp = slice(2 * layers - 1, 2 * layers)', 'kill'),
    ('blockwise-forgets-logp', PEF, '          div_inverse, state.divergence - div_from_temp - div_from_logp', '          div_inverse, state.divergence - div_from_temp', 'kill'),
    ('blockwise-eta', PEF, '      temp_from_div = η * hd', '      temp_from_div = hd', 'kill'),
    ('blockwise-schur-order', PEF, "      GH = (\n          implicit_matrix[:, div, temp_logp]\n          @ implicit_matrix[:, temp_logp, div]\n      )", "      GH = (\n          implicit_matrix[:, div, temp]\n          @ implicit_matrix[:, temp, div]\n      )", 'kill'),
    ('blockwise-logp-row', PEF, "          temp_logp_inverse[:, -1:, :-1], temp_part) + named_vertical_matvec(", "          temp_logp_inverse[:, :-1, :-1], temp_part) + named_vertical_matvec(", 'kill'),
    ('tracer-guard-removed', PEF, "    if isinstance(step_size, jax.core.Tracer):", "    if False:", 'kill'),
    ('vorticity-not-passthrough', PEF, '    inverted_vorticity = state.vorticity\n', '    inverted_vorticity = jnp.zeros_like(state.vorticity)\n', 'kill'),
    ('sw-schur-sign', SWF, '        1 - step_size ** 2 * self.ref_potential *', '        1 + step_size ** 2 * self.ref_potential *', 'kill'),
    ('sw-step-missing', SWF, '            -step_size * self.ref_potential * state.divergence + state.potential', '            -self.ref_potential * state.divergence + state.potential', 'kill'),
    ('sw-terms-sign', SWF, '        potential=-self.ref_potential * state.divergence)', '        potential=self.ref_potential * state.divergence)', 'kill'),
    ('sw-equiv', SWF, '            state.divergence -\n            step_size * self.coords.horizontal.laplacian(state.potential)', '            -step_size * self.coords.horizontal.laplacian(state.potential)\n            + state.divergence', 'equiv'),
    ('withtime-clock-tendency', PEF, '    return StateWithTime(**implicit_terms.asdict(), sim_time=0.0)', '    return StateWithTime(**implicit_terms.asdict(), sim_time=1.0)', 'kill'),
    ('withtime-clock-solve', PEF, '    return StateWithTime(**inverted.asdict(), sim_time=sim_time)', '    return StateWithTime(**inverted.asdict(), sim_time=sim_time + step_size)', 'kill'),
    ('reversed-step', TI, 'return self.forward_eq.implicit_inverse(state, -step_size)', 'return self.forward_eq.implicit_inverse(state, step_size)', 'kill'),
]

SHF = 'dinosaur/spherical_harmonic.py'
FOF = 'dinosaur/fourier.py'
RECIPES['C02'] = [
    ('eps-a-plus', SHF, 'a = np.sqrt(self.mask * (l**2 - m**2) / (4 * l**2 - 1))', 'a = np.sqrt(self.mask * (l**2 - m**2) / (4 * l**2 + 1))', 'kill'),
    ('eps-b-shift', SHF, 'b = np.sqrt(self.mask * ((l + 1) ** 2 - m**2) / (4 * (l + 1) ** 2 - 1))', 'b = np.sqrt(self.mask * ((l + 1) ** 2 - m**2) / (4 * l ** 2 - 1))', 'kill'),
    ('eps-no-mask', SHF, 'a = np.sqrt(self.mask * (l**2 - m**2) / (4 * l**2 - 1))', 'a = np.sqrt(abs(l**2 - m**2) / (4 * l**2 - 1))', 'kill'),
    ('b-zero-wrong-cols', SHF, '    b[:, -1] = 0\n', '    b[:, self.longitude_wavenumbers :] = 0\n', 'kill'),
    ('b-zero-aware', SHF, '    b[:, -1] = 0\n', '    b[:, self.total_wavenumbers - 1 :] = 0\n', 'equiv'),
    ('a-zero-missing', SHF, '    a[:, 0] = 0\n', '', 'kill'),
    ('dlat-weight', SHF, 'x_lm1 = jax_numpy_utils.shift(((l + 1) * a) * x, -1, axis=-1)\n    x_lp1 = jax_numpy_utils.shift((-l * b) * x, +1, axis=-1)', 'x_lm1 = jax_numpy_utils.shift(((l - 1) * a) * x, -1, axis=-1)\n    x_lp1 = jax_numpy_utils.shift((-l * b) * x, +1, axis=-1)', 'kill'),
    ('dlat-shift-dir', SHF, 'x_lp1 = jax_numpy_utils.shift((-(l + 2) * b) * x, +1, axis=-1)', 'x_lp1 = jax_numpy_utils.shift((-(l + 2) * b) * x, -1, axis=-1)', 'kill'),
    ('dlat-sign', SHF, 'x_lp1 = jax_numpy_utils.shift((-(l + 2) * b) * x, +1, axis=-1)', 'x_lp1 = jax_numpy_utils.shift(((l + 2) * b) * x, +1, axis=-1)', 'kill'),
    ('dlat-equiv', SHF, 'x_lm1 = jax_numpy_utils.shift(((l + 1) * a) * x, -1, axis=-1)\n    x_lp1 = jax_numpy_utils.shift((-l * b) * x, +1, axis=-1)\n    return x_lm1 + x_lp1', 'up = jax_numpy_utils.shift(-(b * l) * x, 1, axis=-1)\n    down = jax_numpy_utils.shift(x * a * (1 + l), -1, axis=-1)\n    return up + down', 'equiv'),
    ('eig-radius', SHF, 'return -l * (l + 1) / (self.radius**2)', 'return -l * (l + 1) / self.radius', 'kill'),
    ('eig-form', SHF, 'return -l * (l + 1) / (self.radius**2)', 'return -l * l / (self.radius**2)', 'kill'),
    ('invlap-tail', SHF, '    inverse_eigenvalues[self.total_wavenumbers :] = 0\n', '', 'kill'),
    ('grad-radius', SHF, 'raw = self.d_dlon(x) / self.radius, self.cos_lat_d_dlat(x) / self.radius', 'raw = self.d_dlon(x) / self.radius, self.cos_lat_d_dlat(x)', 'kill'),
    ('curl-radius-branch', SHF, "    raw = (self.d_dlon(v[1]) - self.sec_lat_d_dlat_cos2(v[0])) / self.radius\n    if clip:\n      return self.clip_wavenumbers(raw)\n    return raw", "    raw = self.d_dlon(v[1]) - self.sec_lat_d_dlat_cos2(v[0])\n    if not clip:\n      return raw\n    return self.clip_wavenumbers(raw) / self.radius", 'kill'),
    ('curl-sign', SHF, 'raw = (self.d_dlon(v[1]) - self.sec_lat_d_dlat_cos2(v[0])) / self.radius', 'raw = (self.d_dlon(v[1]) + self.sec_lat_d_dlat_cos2(v[0])) / self.radius', 'kill'),
    ('div-components', SHF, 'raw = (self.d_dlon(v[0]) + self.sec_lat_d_dlat_cos2(v[1])) / self.radius', 'raw = (self.d_dlon(v[1]) + self.sec_lat_d_dlat_cos2(v[0])) / self.radius', 'kill'),
    ('clip-default-off', SHF, "      v: ArrayOrArrayTuple,\n      clip: bool = True,\n  ) -> Array:\n    \"\"\"Computes `∇ · (v cosθ)`", "      v: ArrayOrArrayTuple,\n      clip: bool = False,\n  ) -> Array:\n    \"\"\"Computes `∇ · (v cosθ)`", 'kill'),
    ('clip-ignores-padding', SHF, '      num_zeros = n + self.modal_padding[-1]', '      num_zeros = n', 'kill'),
    ('kcross-sign', SHF, '    return -v[1], v[0]  # pytype', '    return v[1], -v[0]  # pytype', 'kill'),
    ('uv-cos-missing', SHF, '  v_nodal = grid.to_nodal(v_cos_lat) / grid.cos_lat\n', '  v_nodal = grid.to_nodal(v_cos_lat)\n', 'kill'),
    ('uv-potentials-swapped', SHF, '  stream_function = grid.inverse_laplacian(vorticity)\n  velocity_potential = grid.inverse_laplacian(divergence)', '  stream_function = grid.inverse_laplacian(divergence)\n  velocity_potential = grid.inverse_laplacian(vorticity)', 'kill'),
    ('integrate-radius', SHF, 'w = self.spherical_harmonics.basis.w * self.radius**2', 'w = self.spherical_harmonics.basis.w * self.radius', 'kill'),
    ('fourier-freq', FOF, '  j = (i + 1) // 2\n', '  j = i // 2\n', 'kill'),
    ('fourier-selector', FOF, '  return j * jnp.where((i + 1) % 2, u_down, -u_up)', '  return j * jnp.where(i % 2, u_down, -u_up)', 'kill'),
    ('fourier-sign', FOF, '  return j * jnp.where(i % 2, u_down, -u_up)', '  return j * jnp.where(i % 2, -u_down, u_up)', 'kill'),
    ('fourier-sin-sign', FOF, "  sin = -np.imag(dft[:, 1:])\n\n  f = np.empty(shape=[nodes, 2 * wavenumbers], dtype=np.float64)", "  sin = np.imag(dft[:, 1:])\n\n  f = np.empty(shape=[nodes, 2 * wavenumbers], dtype=np.float64)", 'kill'),
    ('fourier-cos-sin-swapped', FOF, '  f[:, 1::2] = cos\n  f[:, 2::2] = sin', '  f[:, 1::2] = sin\n  f[:, 2::2] = cos', 'kill'),
    ('fourier-norm', FOF, "  f = np.empty(shape=[nodes, 2 * wavenumbers - 1], dtype=np.float64)\n  f[:, 0] = 1 / np.sqrt(2 * np.pi)", "  f = np.empty(shape=[nodes, 2 * wavenumbers - 1], dtype=np.float64)\n  f[:, 0] = 1 / np.sqrt(np.pi)", 'kill'),
    ('shard-offset', SHF, "frequency_offset = u.shape[axis] // 2 * lax.axis_index('x')", "frequency_offset = u.shape[axis] * lax.axis_index('x')", 'kill'),
]

ALF = 'dinosaur/associated_legendre.py'
RECIPES['C01'] = [
    ('leg-a-plus', ALF, 'a = np.sqrt((4 * mk2 - 1) / (mk2 - m2))', 'a = np.sqrt((4 * mk2 + 1) / (mk2 - m2))', 'kill'),
    ('leg-b-index', ALF, 'b = np.sqrt((mkp2 - m2) / (4 * mkp2 - 1))', 'b = np.sqrt((mk2 - m2) / (4 * mkp2 - 1))', 'kill'),
    ('leg-rows', ALF, 'p[k, :m_max] = a * (x * p[k - 1, :m_max] - b * p[k - 2, :m_max])', 'p[k, :m_max] = a * (x * p[k - 1, :m_max] - b * p[k - 1, :m_max])', 'kill'),
    ('leg-sign', ALF, 'p[k, :m_max] = a * (x * p[k - 1, :m_max] - b * p[k - 2, :m_max])', 'p[k, :m_max] = a * (x * p[k - 1, :m_max] + b * p[k - 2, :m_max])', 'kill'),
    ('leg-seed', ALF, 'p[0, 0] = p[0, 0] + 1 / np.sqrt(2)', 'p[0, 0] = p[0, 0] + 1 / 2', 'kill'),
    ('leg-sectoral', ALF, 'p[0, m] = -np.sqrt(1 + 1 / (2 * m)) * y * p[0, m - 1]', 'p[0, m] = -np.sqrt(1 + 1 / (2 * m + 1)) * y * p[0, m - 1]', 'kill'),
    ('leg-sectoral-sign', ALF, 'p[0, m] = -np.sqrt(1 + 1 / (2 * m)) * y * p[0, m - 1]', 'p[0, m] = np.sqrt(1 + 1 / (2 * m)) * y * p[0, m - 1]', 'kill'),
    ('leg-equiv', ALF, 'a = np.sqrt((4 * mk2 - 1) / (mk2 - m2))', 'a = np.sqrt(4 * mk2 - 1) / np.sqrt((m + k - m) * (m + k + m))', 'equiv'),
    ('evaluate-offset', ALF, '    p[m, :, m:n_l] = r[m, :, 0:n_l - m]', '    p[m, :, m:n_l] = r[m, :, 1:n_l - m + 1]', 'kill'),
    ('evaluate-guard', ALF, '  if n_m > n_l:\n    raise ValueError', '  if n_m > n_l + 1:\n    raise ValueError', 'kill'),
    ('weights-fejer', ALF, "  legendre = evaluate(n_m=1, n_l=x.shape[0], x=x)[0].T\n  z = np.zeros_like(x)\n  z[0] = 1\n  w = np.linalg.solve(legendre, z)", "  n = x.shape[0]\n  theta = np.arccos(-x)\n  j = np.arange(1, n // 2 + 1)\n  w = (1 - 2 * (np.cos(2 * np.outer(theta, j)) / (4 * j**2 - 1)).sum(axis=1)) * 2 / n", 'kill'),
    ('weights-norm', ALF, '  return w / w.sum() * 2', '  return w / w.sum()', 'kill'),
    ('equi-offset', ALF, '  theta = np.linspace(-np.pi / 2 + spacing / 2,\n                      np.pi / 2 - spacing / 2,', '  theta = np.linspace(-np.pi / 2 + spacing / 2,\n                      np.pi / 2 + spacing / 2,', 'kill'),
    ('lon-endpoint', FOF, '  xs = np.linspace(0, 2 * np.pi, nodes, endpoint=False)', '  xs = np.linspace(0, 2 * np.pi, nodes)', 'kill'),
    ('lon-weight', FOF, '  weights = 2 * np.pi / nodes', '  weights = np.pi / nodes', 'kill'),
    ('real-einsum-adjoint', SHF, "fwx = jax.named_call(einsum, name='fwd_fourier')('im,...ij->...mj', f, wx)", "fwx = jax.named_call(einsum, name='fwd_fourier')('mi,...ij->...mj', f, wx)", 'kill'),
    ('real-weight-twice', SHF, "    px = jax.named_call(einsum, name='inv_legendre')('mjl,...ml->...mj', p, x)", "    px = self.basis.w * jax.named_call(einsum, name='inv_legendre')('mjl,...ml->...mj', p, x)", 'kill'),
    ('real-no-weight', SHF, '    wx = w * x\n    fwx', '    wx = x\n    fwx', 'kill'),
    ('real-p-norepeat', SHF, '    p = np.repeat(p, 2, axis=0)\n', '    p = np.repeat(p, 2, axis=1)\n', 'kill'),
    ('fast-spec', SHF, "          'ism,...ij->...smj', f, x, mesh, *einsum_args", "          'ims,...ij->...smj', f, x, mesh, *einsum_args", 'kill'),
    ('fast-order-F', SHF, "      f = np.reshape(f, (-1, 2, f.shape[-1] // 2), order='F')", "      f = np.stack(np.split(f, 2, axis=-1), axis=1)", 'kill'),
    ('unstack-order', SHF, "    shape = x.shape[:-2] + (2, x.shape[-2] // 2) + x.shape[-1:]\n    return jnp.reshape(x, shape, order='F')", "    shape = x.shape[:-2] + (2, x.shape[-2] // 2) + x.shape[-1:]\n    return jnp.reshape(x, shape)", 'kill'),
    ('fast-pad-w', SHF, '    w = np.pad(w, [(0, nodal_pad_y)])', "    w = np.pad(w, [(0, nodal_pad_y)], mode='edge')", 'kill'),
    ('fast-pad-p', SHF, 'p = np.pad(p, [(0, modal_pad_x // 2), (0, nodal_pad_y), (0, modal_pad_y)])', 'p = np.pad(p, [(0, modal_pad_x), (0, nodal_pad_y), (0, modal_pad_y)])', 'kill'),
    ('fast-mask-pad', SHF, 'return (abs(m) <= l) & (i != 1) & (i < i_lim) & (j < j_lim)', 'return (abs(m) <= l) & (i != 1) & (j < j_lim)', 'kill'),
    ('fast-mask-imag', SHF, 'return (abs(m) <= l) & (i != 1) & (i < i_lim) & (j < j_lim)', 'return (abs(m) <= l) & (i < i_lim) & (j < j_lim)', 'kill'),
    ('real-mask', SHF, '    return abs(m) <= l\n', '    return abs(m) < l\n', 'kill'),
    ('integrate-spec', SHF, "return einsum('y,...xy->...', w, z)", "return einsum('y,...xy->...x', w, z)", 'kill'),
    ('const-factor', PEF, '_CONSTANT_NORMALIZATION_FACTOR = 3.5449077', '_CONSTANT_NORMALIZATION_FACTOR = 3.5449', 'kill'),
    ('axes-order', SHF, "    m_pos_neg = np.stack([m_pos, -m_pos], axis=1).ravel()\n    lon_wavenumbers = np.concatenate([[0], m_pos_neg])", "    m_pos_neg = np.stack([-m_pos, m_pos], axis=1).ravel()\n    lon_wavenumbers = np.concatenate([[0], m_pos_neg])", 'kill'),
]

HSF = 'dinosaur/held_suarez.py'
PSF = 'dinosaur/primitive_equations_states.py'
RAF = 'dinosaur/radiation.py'
XUF = 'dinosaur/xarray_utils.py'
RECIPES['C12'] = [
    ('drop-R-implicit-terms', PEF, "        state.temperature_variation,\n        self.coords.vertical,\n        self.physics_specs.R,\n        method=method,", "        state.temperature_variation,\n        self.coords.vertical,\n        method=method,", 'kill'),
    ('drop-kappa-implicit', PEF, "        self.reference_temperature,\n        self.physics_specs.kappa,\n        method=method,", "        self.reference_temperature,\n        method=method,", 'kill'),
    ('drop-R-moist', PEF, "        temperature_diff,\n        self.coords.vertical,\n        physics_specs.R,\n", "        temperature_diff,\n        self.coords.vertical,\n", 'kill'),
    ('matrix-default-R', PEF, '  g = get_geopotential_weights(coords.vertical, ideal_gas_constant)', '  g = get_geopotential_weights(coords.vertical)', 'kill'),
    ('body-uses-default', PEF, '    return -self.physics_specs.g * self.coords.horizontal.laplacian(', '    return -GRAVITY_ACCELERATION * self.coords.horizontal.laplacian(', 'kill'),
    ('literal-constant', PEF, "        self.physics_specs.kappa,\n        self.physics_specs.R,\n    )", "        self.physics_specs.kappa,\n        IDEAL_GAS_CONSTANT,\n    )", 'kill'),
    ('equiv-local-alias', PEF, "        self.physics_specs.kappa,\n        self.physics_specs.R,\n    )", "        self.physics_specs.kappa,\n        self.physics_specs.ideal_gas_constant,\n    )", 'equiv'),
    ('hs-raw-quantity', HSF, '    self.minT = physics_specs.nondimensionalize(minT)', '    self.minT = minT.magnitude', 'kill'),
    ('hs-raw-quantity2', HSF, '    self.kf = physics_specs.nondimensionalize(kf)', '    self.kf = kf.to(units.s ** -1).m', 'kill'),
    ('state-raw-p0', PSF, '  p0 = physics_specs.nondimensionalize(units.Quantity(p0))\n  p1', '  p0 = units.Quantity(p0).to(units.pascal).magnitude\n  p1', 'kill'),
    ('jw-raw-gamma', PSF, '  gamma = physics_specs.nondimensionalize(gamma)\n', '  gamma = gamma.m\n', 'kill'),
    ('from-si-skip', PEF, '        scale.nondimensionalize(kappa_si),\n        scale,', '        kappa_si.magnitude,\n        scale,', 'kill'),
    ('from-si-order', PEF, '        scale.nondimensionalize(gravity_acceleration_si),\n        scale.nondimensionalize(ideal_gas_constant_si),', '        scale.nondimensionalize(ideal_gas_constant_si),\n        scale.nondimensionalize(gravity_acceleration_si),', 'kill'),
    ('from-si-default-scale', SWF, "    return cls(scale.nondimensionalize(densities),\n               scale.nondimensionalize(radius_si),", "    return cls(scale.nondimensionalize(densities),\n               SCALE.nondimensionalize(radius_si),", 'kill'),
    ('radiation-const', RAF, "    self.total_solar_irradiance = physics_specs.nondimensionalize(\n        TOTAL_SOLAR_IRRADIANCE\n    )", "    self.total_solar_irradiance = TOTAL_SOLAR_IRRADIANCE.magnitude", 'kill'),
    ('magnitude-io', XUF, '  minutes = physics_specs.dimensionalize(time, scales.units.minute).magnitude', '  minutes = (time * scales.units.minute).magnitude', 'kill'),
    ('coriolis-no-two', PEF, '    return 2 * self.physics_specs.angular_velocity * sin_lat', '    return self.physics_specs.angular_velocity * sin_lat', 'kill'),
    ('coriolis-sw-default', SWF, '    return 2 * self.physics_specs.angular_velocity * sin_lat', '    return sin_lat', 'kill'),
    ('grad-radius', SHF, 'raw = self.d_dlon(x) / self.radius, self.cos_lat_d_dlat(x) / self.radius', 'raw = self.d_dlon(x), self.cos_lat_d_dlat(x)', 'kill'),
]

RECIPES['C11'] = [
    ('term-after-clip', PEF, "    # Note: clipping the final total wavenumber from the explicit tendencies\n    # matches SPEEDY.\n    return self.coords.horizontal.clip_wavenumbers(tendency)", "    clipped = self.coords.horizontal.clip_wavenumbers(tendency)\n    return dataclasses.replace(clipped, divergence=clipped.divergence + orography_tendency)", 'kill'),
    ('no-clip', PEF, "    # Note: clipping the final total wavenumber from the explicit tendencies\n    # matches SPEEDY.\n    return self.coords.horizontal.clip_wavenumbers(tendency)", "    return tendency", 'kill'),
    ('moist-no-clip', PEF, "    explicit_terms = self.coords.horizontal.clip_wavenumbers(explicit_terms)\n    return StateWithTime", "    return StateWithTime", 'kill'),
    ('sw-unclipped-potential', SWF, "    explicit_potential = self.coords.horizontal.clip_wavenumbers(\n        -self.coords.horizontal.div_cos_lat(g)\n    )", "    explicit_potential = -self.coords.horizontal.div_cos_lat(g, clip=False)", 'kill'),
    ('moist-clock-zero', PEF, "    explicit_terms = self.coords.horizontal.clip_wavenumbers(explicit_terms)\n    return StateWithTime(**explicit_terms.asdict(), sim_time=1.0)", "    explicit_terms = self.coords.horizontal.clip_wavenumbers(explicit_terms)\n    return StateWithTime(**explicit_terms.asdict(), sim_time=0.0)", 'kill'),
    ('clock-implicit', PEF, '    return StateWithTime(**implicit_terms.asdict(), sim_time=0.0)', '    return StateWithTime(**implicit_terms.asdict(), sim_time=1.0)', 'kill'),
    ('clock-solve', PEF, '    return StateWithTime(**inverted.asdict(), sim_time=sim_time)', '    return StateWithTime(**inverted.asdict(), sim_time=sim_time * 1.0 + 0.0 * step_size)', 'kill'),
    ('implicit-uses-shift', PEF, "    divergence_implicit = -self.coords.horizontal.laplacian(\n        geopotential_diff + rt_log_p\n    )", "    divergence_implicit = -self.coords.horizontal.laplacian(\n        geopotential_diff + rt_log_p\n    ) + 0 * self.coords.horizontal.d_dlon(state.divergence)", 'kill'),
    ('implicit-einsum-mix', PEF, "  return einsum('gh,...hml->...gml', a, x)", "  return einsum('gh,...hml->...glm', a, x)", 'kill'),
    ('filter-per-m', FIL, '  _, total_wavenumber = grid.modal_axes\n\n  k = total_wavenumber / total_wavenumber.max()', '  m_, total_wavenumber = grid.modal_axes\n\n  k = (total_wavenumber + 0 * abs(m_).max()) / total_wavenumber.max()', 'kill'),
    ('filter-no-gate', FIL, 'rescale = lambda x: scaling * x if _preserves_shape(x, scaling) else x', 'rescale = lambda x: scaling * x', 'kill'),
    ('integrator-nonlinear', TI, '    g = u0 + dt * F(u0)\n    u1 = G_inv(g, dt)', '    g = u0 + dt * F(u0) * (1 + 1e-9 * u0)\n    u1 = G_inv(g, dt)', 'kill'),
    ('integrator-offset', TI, '    g = u0 + 0.5 * dt * G(u0)\n', '    g = u0 + 0.5 * dt * G(u0) + 1e-12\n', 'kill'),
    ('mask-outside-root', SHF, 'a = np.sqrt(self.mask * (l**2 - m**2) / (4 * l**2 - 1))', 'a = np.sqrt(abs(l**2 - m**2) / (4 * l**2 - 1))', 'kill'),
    ('mean-not-free', PEF, "    return -self.coords.horizontal.laplacian(\n        self.coords.horizontal.to_modal(kinetic)\n    )", "    return -self.coords.horizontal.laplacian(\n        self.coords.horizontal.to_modal(kinetic)\n    ) - 0 * self.coords.horizontal.to_modal(kinetic)", 'kill'),
    ('sw-implicit-potential', SWF, '        potential=-self.ref_potential * state.divergence)', '        potential=-self.ref_potential * state.divergence - 0 * state.potential)', 'kill'),
]

RECIPES['C05'] = [
    ('drop-orography', PEF, "    divergence_tendency = (\n        divergence_dot + kinetic_energy_tendency + orography_tendency\n    )", "    divergence_tendency = (\n        divergence_dot + kinetic_energy_tendency\n    )", 'kill'),
    ('ke-half', PEF, "    kinetic = nodal_cos_lat_u2.sum(0) * self.coords.horizontal.sec2_lat / 2", "    kinetic = nodal_cos_lat_u2.sum(0) * self.coords.horizontal.sec2_lat", 'kill'),
    ('ke-sign', PEF, "    return -self.coords.horizontal.laplacian(\n        self.coords.horizontal.to_modal(kinetic)\n    )", "    return self.coords.horizontal.laplacian(\n        self.coords.horizontal.to_modal(kinetic)\n    )", 'kill'),
    ('orog-Rvapor', PEF, "    return -self.physics_specs.g * self.coords.horizontal.laplacian(", "    return -self.physics_specs.R * self.coords.horizontal.laplacian(", 'kill'),
    ('kxv-sign', PEF, "    nodal_vorticity_u = -v * total_vorticity * sec2_lat\n    nodal_vorticity_v = u * total_vorticity * sec2_lat\n    # vertical and pressure gradient terms\n    d𝜎_dt = aux_state.sigma_dot_full\n    if self.include_vertical_advection:\n      # vertical tendency is equal to `-1 * dot{sigma} * u`, hence negation here\n      sigma_dot_u = -self._vertical_tendency(d𝜎_dt, u)\n      sigma_dot_v = -self._vertical_tendency(d𝜎_dt, v)\n    else:\n      sigma_dot_u = 0\n      sigma_dot_v = 0\n    rt = ", "    nodal_vorticity_u = v * total_vorticity * sec2_lat\n    nodal_vorticity_v = -u * total_vorticity * sec2_lat\n    # vertical and pressure gradient terms\n    d𝜎_dt = aux_state.sigma_dot_full\n    if self.include_vertical_advection:\n      # vertical tendency is equal to `-1 * dot{sigma} * u`, hence negation here\n      sigma_dot_u = -self._vertical_tendency(d𝜎_dt, u)\n      sigma_dot_v = -self._vertical_tendency(d𝜎_dt, v)\n    else:\n      sigma_dot_u = 0\n      sigma_dot_v = 0\n    rt = ", 'kill'),
    ('pgrad-R', PEF, "    rt = self.physics_specs.R * aux_state.temperature_variation\n", "    rt = self.physics_specs.R_vapor * aux_state.temperature_variation\n", 'kill'),
    ('dry-sigma-explicit', PEF, "    d𝜎_dt = aux_state.sigma_dot_full\n    if self.include_vertical_advection:\n      # vertical tendency is equal to `-1 * dot{sigma} * u`, hence negation here\n      sigma_dot_u = -self._vertical_tendency(d𝜎_dt, u)\n      sigma_dot_v = -self._vertical_tendency(d𝜎_dt, v)\n    else:\n      sigma_dot_u = 0\n      sigma_dot_v = 0\n    rt = ", "    d𝜎_dt = aux_state.sigma_dot_explicit\n    if self.include_vertical_advection:\n      # vertical tendency is equal to `-1 * dot{sigma} * u`, hence negation here\n      sigma_dot_u = -self._vertical_tendency(d𝜎_dt, u)\n      sigma_dot_v = -self._vertical_tendency(d𝜎_dt, v)\n    else:\n      sigma_dot_u = 0\n      sigma_dot_v = 0\n    rt = ", 'kill'),
    ('hadv-sign', PEF, "    modal_terms = -div_sec_lat(u * scalar, v * scalar, self.coords.horizontal)", "    modal_terms = div_sec_lat(u * scalar, v * scalar, self.coords.horizontal)", 'kill'),
    ('adiabatic-kappa', PEF, "    return self.physics_specs.kappa * (mean_t_part + variation_t_part)", "    return self.physics_specs.kappa * mean_t_part + variation_t_part", 'kill'),
    ('omega-alpha-shift', PEF, "    g_part = (alpha * f + jnp.pad(alpha * f, padding)[:-1, ...]) / del_𝜎", "    g_part = (alpha * f + jnp.pad(alpha * f, padding)[1:, ...]) / del_𝜎", 'kill'),
    ('omega-no-thickness', PEF, "    g_part = (alpha * f + jnp.pad(alpha * f, padding)[:-1, ...]) / del_𝜎", "    g_part = (alpha * f + jnp.pad(alpha * f, padding)[:-1, ...])", 'kill'),
    ('lnps-sign', PEF, "    return -sigma_coordinates.sigma_integral(g, self.coords.vertical)", "    return sigma_coordinates.sigma_integral(g, self.coords.vertical)", 'kill'),
    ('lnps-full-flow', PEF, "    g = aux_state.u_dot_grad_log_sp\n    return -sigma_coordinates.sigma_integral(g, self.coords.vertical)", "    g = aux_state.u_dot_grad_log_sp + aux_state.divergence\n    return -sigma_coordinates.sigma_integral(g, self.coords.vertical)", 'kill'),
    ('sigmadot-sum', PEF, "      sum_𝜎 * lax.slice_in_dim(f_full, -1, None) - f_full, 0, -1", "      sum_𝜎 * lax.slice_in_dim(f_full, -1, None) + f_full, 0, -1", 'kill'),
    ('udg-sec2', PEF, "      lambda x, y: x * y * coords.horizontal.sec2_lat,", "      lambda x, y: x * y,", 'kill'),
    ('intermediate-clip', PEF, "    cos_lat_grad_q = self.coords.horizontal.cos_lat_grad(q_modal, clip=False)\n    nodal_cos_lat_grad_q = self.coords.horizontal.to_nodal(cos_lat_grad_q)\n    nodal_cos_lat_grad_log_sp", "    cos_lat_grad_q = self.coords.horizontal.cos_lat_grad(q_modal)\n    nodal_cos_lat_grad_q = self.coords.horizontal.to_nodal(cos_lat_grad_q)\n    nodal_cos_lat_grad_log_sp", 'kill'),
    ('moist-forgets-div-corr', PEF, "        + orography_tendency\n        + humidity_div_correction_tendency\n    )", "        + orography_tendency\n    )", 'kill'),
    ('cloud-sign', PEF, "            - self._get_cloud_water(aux_state)\n", "            + self._get_cloud_water(aux_state)\n", 'kill'),
    ('moist-factor', PEF, "        (1 + (gas_const_ratio - 1) * q) / (1 + (heat_capacity_ratio - 1) * q)\n    )", "        (1 + (gas_const_ratio - 1) * q) / (1 + (gas_const_ratio - 1) * q)\n    )", 'kill'),
    ('sw-density-transposed', SWF, "  ratios = np.minimum(density / density[..., np.newaxis], 1)", "  ratios = np.minimum(density[..., np.newaxis] / density, 1)", 'kill'),
    ('sw-e-half', SWF, "    nodal_e = (nodal_u * nodal_u).sum(0) * sec2_lat / 2", "    nodal_e = (nodal_u * nodal_u).sum(0) * sec2_lat", 'kill'),
    ('sw-split', SWF, "    b, g, e = jnp.split(bge, [2, 4], axis=0)", "    g, b, e = jnp.split(bge, [2, 4], axis=0)", 'kill'),
    ('sw-curl-sign', SWF, "        -self.coords.horizontal.laplacian(p + e) +\n        self.coords.horizontal.curl_cos_lat(b)", "        -self.coords.horizontal.laplacian(p + e) -\n        self.coords.horizontal.curl_cos_lat(b)", 'kill'),
    ('sw-no-orography', SWF, "    if self.orography is not None:\n      p = p + self.orography", "    if self.orography is not None:\n      p = p", 'kill'),
    ('tracer-no-vertical', PEF, "        lambda x, y_z: to_modal_fn(x + y_z[0]) + y_z[1],\n        tracers_vertical_nodal,\n        tracers_horizontal_nodal_and_modal,\n    )\n    tendency = State(", "        lambda x, y_z: to_modal_fn(y_z[0]) + y_z[1],\n        tracers_vertical_nodal,\n        tracers_horizontal_nodal_and_modal,\n    )\n    tendency = State(", 'kill'),
    ('equiv-reorder-sum', PEF, "    divergence_tendency = (\n        divergence_dot + kinetic_energy_tendency + orography_tendency\n    )", "    divergence_tendency = (\n        orography_tendency + divergence_dot + kinetic_energy_tendency\n    )", 'equiv'),
]
RECIPES['C05'] += [
    ('moist-corr-sign', PEF, "            nodal_cos_lat_grad_log_sp[0] * nodal_cos_lat_grad_q[1]\n            - nodal_cos_lat_grad_log_sp[1] * nodal_cos_lat_grad_q[0]", "            nodal_cos_lat_grad_log_sp[1] * nodal_cos_lat_grad_q[0]\n            - nodal_cos_lat_grad_log_sp[0] * nodal_cos_lat_grad_q[1]", 'kill'),
    ('moist-corr-tref', PEF, "    temperature = aux_state.temperature_variation + self.T_ref\n", "    temperature = aux_state.temperature_variation\n", 'kill'),
    ('moist-corr-lap', PEF, "    ) - self.coords.horizontal.to_modal(\n        nodal_dot_term + nodal_laplacian_correction_term\n    )", "    ) - self.coords.horizontal.to_modal(\n        nodal_dot_term\n    )", 'kill'),
]

RECIPES['C04'] = [
    ('mean-part-full-flow', PEF, "    mean_t_part = self._t_omega_over_sigma_sp(\n        self.T_ref, g_explicit, aux_state.u_dot_grad_log_sp\n    )\n    variation_t_part", "    mean_t_part = self._t_omega_over_sigma_sp(\n        self.T_ref, g_full, aux_state.u_dot_grad_log_sp\n    )\n    variation_t_part", 'kill'),
    ('variation-explicit-flow', PEF, "    variation_t_part = self._t_omega_over_sigma_sp(\n        aux_state.temperature_variation, g_full, aux_state.u_dot_grad_log_sp", "    variation_t_part = self._t_omega_over_sigma_sp(\n        aux_state.temperature_variation, g_explicit, aux_state.u_dot_grad_log_sp", 'kill'),
    ('tref-advection-full', PEF, "      tendency += self._vertical_tendency(sigma_dot_explicit, self.T_ref)", "      tendency += self._vertical_tendency(sigma_dot_full, self.T_ref)", 'kill'),
    ('variation-advection-explicit', PEF, "      tendency = self._vertical_tendency(sigma_dot_full, temperature_variation)", "      tendency = self._vertical_tendency(sigma_dot_explicit, temperature_variation)", 'kill'),
    ('moist-humidity-explicit', PEF, "    variation_and_Tv_part = self._t_omega_over_sigma_sp(\n        variation_and_humidity_terms, g_full, aux_state.u_dot_grad_log_sp", "    variation_and_Tv_part = self._t_omega_over_sigma_sp(\n        variation_and_humidity_terms, g_explicit, aux_state.u_dot_grad_log_sp", 'kill'),
    ('implicit-geopotential-of-total', PEF, "    geopotential_diff = get_geopotential_diff(\n        state.temperature_variation,\n        self.coords.vertical,\n        self.physics_specs.R,\n        method=method,", "    geopotential_diff = get_geopotential_diff(\n        state.temperature_variation + self.T_ref,\n        self.coords.vertical,\n        self.physics_specs.R,\n        method=method,", 'kill'),
    ('kappa-one-side', PEF, "    return self.physics_specs.kappa * (mean_t_part + variation_t_part)", "    return KAPPA * (mean_t_part + variation_t_part)", 'kill'),
    ('R-one-side', PEF, "    rt = self.physics_specs.R * aux_state.temperature_variation\n", "    rt = self.physics_specs.R_vapor * aux_state.temperature_variation\n", 'kill'),
    ('H-k0-denominator', PEF, "  thickness_sum = (\n      coordinates.layer_thickness[:-1] + coordinates.layer_thickness[1:]\n  )", "  thickness_sum = 2 * np.diff(coordinates.boundaries)[1:]", 'kill'),
    ('H-shift', PEF, "  k_shifted = np.roll(k, 1, axis=0)\n  k_shifted[0] = 0\n\n  return", "  k_shifted = np.roll(k, -1, axis=0)\n  k_shifted[0] = 0\n\n  return", 'kill'),
    ('H-column-weight', PEF, "  return (h0 - k - k_shifted) * coordinates.layer_thickness", "  return (h0 - k - k_shifted) * coordinates.layer_thickness[..., np.newaxis]", 'kill'),
    ('H-sign', PEF, "  return (h0 - k - k_shifted) * coordinates.layer_thickness", "  return (h0 + k - k_shifted) * coordinates.layer_thickness", 'kill'),
    ('H-cumsum', PEF, "  thickness_cumulative = np.cumsum(coordinates.layer_thickness)[..., np.newaxis]", "  thickness_cumulative = np.cumsum(coordinates.layer_thickness)[np.newaxis, ...]", 'kill'),
    ('H-equiv', PEF, "  return (h0 - k - k_shifted) * coordinates.layer_thickness", "  total = h0 - (k + k_shifted)\n  return coordinates.layer_thickness * total", 'equiv'),
    ('shortcut-always-skip', PEF, "    if np.unique(self.T_ref.ravel()).size > 1:", "    if np.unique(self.T_ref.ravel()).size > 2:", 'kill'),
    ('intermediate-clip', PEF, "    cos_lat_grad_q = self.coords.horizontal.cos_lat_grad(q_modal, clip=False)\n    nodal_cos_lat_grad_q = self.coords.horizontal.to_nodal(cos_lat_grad_q)\n    nodal_cos_lat_grad_log_sp", "    cos_lat_grad_q = self.coords.horizontal.cos_lat_grad(q_modal)\n    nodal_cos_lat_grad_q = self.coords.horizontal.to_nodal(cos_lat_grad_q)\n    nodal_cos_lat_grad_log_sp", 'kill'),
]

CSF = 'dinosaur/coordinate_systems.py'
RECIPES['C07'] = [
    ('diffstep-end-index', TI, 'top_eigenvalue = eigenvalues[grid.total_wavenumbers - 1]', 'top_eigenvalue = eigenvalues[-1]', 'kill'),
    ('filter-extent', FIL, '  k = total_wavenumber / total_wavenumber.max()', '  k = total_wavenumber / (total_wavenumber.size - 1)', 'kill'),
    ('filter-len', FIL, '  k = total_wavenumber / total_wavenumber.max()', '  k = total_wavenumber / (len(total_wavenumber) - 1)', 'kill'),
    ('mask-end', SHF, '    inverse_eigenvalues[self.total_wavenumbers :] = 0\n', '    top = abs(self.laplacian_eigenvalues[-1])\n    inverse_eigenvalues[self.total_wavenumbers :] = 0 * top\n', 'kill'),
    ('modal-shape-x', SHF, '    shape_multiples = (2 * base * x_shards, base * y_shards)\n    return tuple(map(_round_to_multiple, self.modal_limits, shape_multiples))', '    shape_multiples = (base * x_shards, base * y_shards)\n    return tuple(map(_round_to_multiple, self.modal_limits, shape_multiples))', 'kill'),
    ('round-floor', SHF, '  return multiple * math.ceil(x / multiple)', '  return multiple * round(x / multiple)', 'kill'),
    ('direct-transform', SHF, "    f = _with_vertical_padding(\n        self.spherical_harmonics.transform, self.spmd_mesh\n    )\n    return pytree_utils.tree_map_over_nonscalars(f, z)", "    f = self.spherical_harmonics.transform\n    return pytree_utils.tree_map_over_nonscalars(f, z)", 'kill'),
    ('crop-mismatch', SHF, "    x, padding = _vertical_pad(x, mesh)\n    return _vertical_crop(f(x), padding)", "    x, padding = _vertical_pad(x, mesh)\n    return _vertical_crop(f(x), padding and padding - 1)", 'kill'),
    ('vpad-multiple', SHF, "  z_padding = _round_to_multiple(field.shape[0], z_multiple) - field.shape[0]", "  z_padding = z_multiple - field.shape[0] % z_multiple", 'kill'),
    ('stack-spec', SHF, "  out_spec = P(z, 'x', 'y') if x.ndim == 4 else P('x', 'y')\n  return shmap(stack, mesh, (in_spec,), out_spec)(x)", "  out_spec = P(z, 'y', 'x') if x.ndim == 4 else P('x', 'y')\n  return shmap(stack, mesh, (in_spec,), out_spec)(x)", 'kill'),
    ('unstack-sign-sharded', SHF, "  out_spec = P(z, None, 'x', 'y') if x.ndim == 3 else P(None, 'x', 'y')\n  return shmap(unstack, mesh, (in_spec,), out_spec)(x)", "  out_spec = P(z, 'x', None, 'y') if x.ndim == 3 else P(None, 'x', 'y')\n  return shmap(unstack, mesh, (in_spec,), out_spec)(x)", 'kill'),
    ('einsum-nomesh-precision', JUF, "    return jnp.einsum(subscripts, lhs, rhs, precision=precision)\n\n  reduce_subscript", "    return jnp.einsum(subscripts, lhs, rhs)\n\n  reduce_subscript", 'kill'),
    ('einsum-lhs-spec', JUF, "        out_spec[out_subscripts.index(i)] if i in out_subscripts else None\n        for i in lhs_subscripts\n    ]\n    split_axis", "        rhs_spec[rhs_subscripts.index(i)] if i in rhs_subscripts else None\n        for i in lhs_subscripts\n    ]\n    split_axis", 'kill'),
    ('einsum-scatter-axis', JUF, "    scatter_axis = lhs_subscripts.index(transfer_subscript)", "    scatter_axis = lhs_subscripts.index(reduce_subscript)", 'kill'),
    ('gather-chunk-and', JUF, "    chunk_index = (axis_index + i) % axis_size\n    lhs_chunk = lax.dynamic_slice_in_dim(\n        lhs, chunk_index * chunk_size, chunk_size, axis=split_axis", "    chunk_index = (axis_index + i) & (axis_size - 1)\n    lhs_chunk = lax.dynamic_slice_in_dim(\n        lhs, chunk_index * chunk_size, chunk_size, axis=split_axis", 'kill'),
    ('gather-bwd-offset', JUF, "    lhs_bwd = get_lhs_chunk(i + 1)", "    lhs_bwd = get_lhs_chunk(i)", 'kill'),
    ('gather-perm', JUF, "  rhs_bwd = lax.ppermute(rhs, axis_name, perm=perm_bwd)\n  accum = indexed_computation(0, rhs_fwd, rhs_bwd)", "  rhs_bwd = lax.ppermute(rhs, axis_name, perm=perm_fwd)\n  accum = indexed_computation(0, rhs_fwd, rhs_bwd)", 'kill'),
    ('gather-loop-bound', JUF, "  accum, rhs_fwd, rhs_bwd = lax.fori_loop(\n      1, axis_size // 2, collective_matmul, (accum, rhs_fwd, rhs_bwd)", "  accum, rhs_fwd, rhs_bwd = lax.fori_loop(\n      1, axis_size // 2 - 1, collective_matmul, (accum, rhs_fwd, rhs_bwd)", 'kill'),
    ('scatter-final-perm', JUF, "  accum_fwd = lax.ppermute(accum_fwd, axis_name, perm=perm_fwd)\n  accum = accum_fwd + accum_bwd", "  accum = accum_fwd + accum_bwd", 'kill'),
    ('scatter-half-offset', JUF, "    chunk_index = (axis_index + axis_size // 2 + i) % axis_size", "    chunk_index = (axis_index + axis_size // 2 + i + 1) % axis_size", 'kill'),
    ('reversed-einsum', JUF, "  new_subscripts = f'{rhs_subscripts},{lhs_subscripts}->{out_subscripts}'\n  return jnp.einsum(new_subscripts, y, x, **kwargs)", "  new_subscripts = f'{rhs_subscripts},{lhs_subscripts}->{out_subscripts}'\n  return jnp.einsum(new_subscripts, x, y, **kwargs)", 'kill'),
    ('cumsum-path', JUF, "  if sharding is None or sharding.spec[axis] is None:", "  if sharding is None or sharding.spec[0] is None:", 'kill'),
    ('cumsum-axis-name', JUF, "        x, axis=axis, reverse=reverse, axis_name=sharding.spec[axis]", "        x, axis=axis, reverse=reverse, axis_name=sharding.spec[0]", 'kill'),
    ('parallel-cumsum-inclusive', JUF, "  op = jnp.greater if reverse else jnp.less\n  total = partials", "  op = jnp.greater_equal if reverse else jnp.less_equal\n  total = partials", 'kill'),
    ('constraint-2d', CSF, "      spec = P(*sharding.spec[1:])\n", "      spec = P(*sharding.spec[:2])\n", 'kill'),
]

RECIPES['C09'] = [
    ('missing-override', SHF, "  @functools.cached_property\n  def modal_dtype(self) -> np.dtype:\n    return np.dtype(np.float32)\n\n  @functools.cached_property\n  def mask(self) -> np.ndarray:\n    m, l = np.meshgrid(*self.modal_axes, indexing='ij')\n    i, j", "  @functools.cached_property\n  def mask(self) -> np.ndarray:\n    m, l = np.meshgrid(*self.modal_axes, indexing='ij')\n    i, j", 'kill'),
    ('grid-special-case', SHF, "    return self.spherical_harmonics.modal_shape\n", "    if isinstance(self.spherical_harmonics, FastSphericalHarmonics):\n      return self.spherical_harmonics.modal_shape\n    return self.spherical_harmonics.modal_shape\n", 'kill'),
    ('grid-uses-impl-member', SHF, "    return self.spherical_harmonics.modal_padding\n", "    return getattr(self.spherical_harmonics, 'modal_padding', (0, 0)) and self.spherical_harmonics.modal_limits and self.spherical_harmonics.modal_padding\n", 'kill'),
    ('fast-order-F', SHF, "      f = np.reshape(f, (-1, 2, f.shape[-1] // 2), order='F')", "      f = f.reshape(f.shape[0], 2, f.shape[-1] // 2)", 'kill'),
    ('precision-changes-dtype', SHF, "    x = w * x\n    if self.stacked_fourier_transforms:\n      x = jax.named_call(_transform_einsum, name='fwd_fourier')", "    x = w * x\n    if self.transform_precision == 'bfloat16':\n      x = x.astype(jnp.bfloat16)\n    if self.stacked_fourier_transforms:\n      x = jax.named_call(_transform_einsum, name='fwd_fourier')", 'kill'),
    ('reverse-order-in-nomesh', SHF, "  if mesh is None:\n    return jnp.einsum(subscripts, lhs, rhs, precision=precision)\n\n  out_ndim", "  if mesh is None:\n    if reverse_einsum_arg_order:\n      return jnp.einsum(subscripts, rhs, lhs, precision=precision)\n    return jnp.einsum(subscripts, lhs, rhs, precision=precision)\n\n  out_ndim", 'kill'),
    ('reversed-no-subscript-swap', JUF, "  new_subscripts = f'{rhs_subscripts},{lhs_subscripts}->{out_subscripts}'\n  return jnp.einsum(new_subscripts, y, x, **kwargs)", "  return jnp.einsum(subscripts, y, x, **kwargs)", 'kill'),
    ('base-multiple-in-basis', SHF, "    p = np.pad(p, [(0, modal_pad_x // 2), (0, nodal_pad_y), (0, modal_pad_y)])", "    p = np.pad(p, [(0, modal_pad_x // 2), (0, nodal_pad_y), (0, modal_pad_y)]) * (1 + 0 * (self.base_shape_multiple or 1))", 'kill'),
    ('real-deriv-axis', SHF, "    return fourier.real_basis_derivative(x, axis=-2)", "    return fourier.real_basis_derivative(x, axis=-1)", 'kill'),
    ('alias-adds-member', SHF, 'class RealSphericalHarmonicsWithZeroImag(FastSphericalHarmonics):\n  """Deprecated alias for `FastSphericalHarmonics`."""\n', 'class RealSphericalHarmonicsWithZeroImag(FastSphericalHarmonics):\n  """Deprecated alias for `FastSphericalHarmonics`."""\n\n  transform_precision: str = \'float32\'\n', 'kill'),
]

RECIPES['C10'] = [
    ('moist-dot-index', PEF, "            nodal_cos_lat_grad_q[0] * aux_state.cos_lat_grad_log_sp[0]\n            + nodal_cos_lat_grad_q[1] * aux_state.cos_lat_grad_log_sp[1]", "            nodal_cos_lat_grad_q[0] * aux_state.cos_lat_grad_log_sp[0]\n            + nodal_cos_lat_grad_q[1] * aux_state.cos_lat_grad_log_sp[0]", 'kill'),
    ('coriolis-unsigned', PEF, "    return 2 * self.physics_specs.angular_velocity * sin_lat", "    return 2 * self.physics_specs.angular_velocity * abs(sin_lat)", 'kill'),
    ('metric-odd', SHF, "    return 1 / (1 - sin_lat**2)  # pytype", "    return 1 / (1 - sin_lat**2 + 1e-12 * sin_lat)  # pytype", 'kill'),
    ('kxv-components', PEF, "    nodal_vorticity_u = -v * total_vorticity * sec2_lat\n    nodal_vorticity_v = u * total_vorticity * sec2_lat\n    # vertical and pressure gradient terms\n    d𝜎_dt = aux_state.sigma_dot_full\n    if self.include_vertical_advection:\n      # vertical tendency is equal to `-1 * dot{sigma} * u`, hence negation here\n      sigma_dot_u = -self._vertical_tendency(d𝜎_dt, u)\n      sigma_dot_v = -self._vertical_tendency(d𝜎_dt, v)\n    else:\n      sigma_dot_u = 0\n      sigma_dot_v = 0\n    rt = ", "    nodal_vorticity_u = -u * total_vorticity * sec2_lat\n    nodal_vorticity_v = v * total_vorticity * sec2_lat\n    # vertical and pressure gradient terms\n    d𝜎_dt = aux_state.sigma_dot_full\n    if self.include_vertical_advection:\n      # vertical tendency is equal to `-1 * dot{sigma} * u`, hence negation here\n      sigma_dot_u = -self._vertical_tendency(d𝜎_dt, u)\n      sigma_dot_v = -self._vertical_tendency(d𝜎_dt, v)\n    else:\n      sigma_dot_u = 0\n      sigma_dot_v = 0\n    rt = ", 'kill'),
    ('pgrad-component', PEF, "    vertical_term_v = (sigma_dot_v + rt * grad_log_ps_v) * sec2_lat\n    combined_u = self.coords.horizontal.to_modal(\n        nodal_vorticity_u + vertical_term_u\n    )\n    combined_v = self.coords.horizontal.to_modal(\n        nodal_vorticity_v + vertical_term_v\n    )\n    # computing tendencies\n    dζ_dt = -self.coords.horizontal.curl_cos_lat(\n        (combined_u, combined_v), clip=False\n    )\n    d𝛅_dt = -self.coords.horizontal.div_cos_lat(\n        (combined_u, combined_v), clip=False\n    )\n    return (dζ_dt, d𝛅_dt)\n\n  @jax.named_call\n  def nodal_temperature_vertical_tendency", "    vertical_term_v = (sigma_dot_v + rt * grad_log_ps_u) * sec2_lat\n    combined_u = self.coords.horizontal.to_modal(\n        nodal_vorticity_u + vertical_term_u\n    )\n    combined_v = self.coords.horizontal.to_modal(\n        nodal_vorticity_v + vertical_term_v\n    )\n    # computing tendencies\n    dζ_dt = -self.coords.horizontal.curl_cos_lat(\n        (combined_u, combined_v), clip=False\n    )\n    d𝛅_dt = -self.coords.horizontal.div_cos_lat(\n        (combined_u, combined_v), clip=False\n    )\n    return (dζ_dt, d𝛅_dt)\n\n  @jax.named_call\n  def nodal_temperature_vertical_tendency", 'kill'),
    ('sw-curl-div', SWF, "    explicit_vorticity = self.coords.horizontal.clip_wavenumbers(\n        -self.coords.horizontal.div_cos_lat(b)\n    )", "    explicit_vorticity = self.coords.horizontal.clip_wavenumbers(\n        -self.coords.horizontal.curl_cos_lat(b)\n    )", 'kill'),
    ('longitude-forcing', PEF, "    return -self.physics_specs.g * self.coords.horizontal.laplacian(\n        self.orography\n    )", "    lon, _ = self.coords.horizontal.nodal_mesh\n    return -self.physics_specs.g * self.coords.horizontal.laplacian(\n        self.orography\n    ) + 0 * self.coords.horizontal.to_modal(jnp.cos(lon))", 'kill'),
    ('grid-offset-in-operator', SHF, "    return x * self.laplacian_eigenvalues\n", "    return x * self.laplacian_eigenvalues * (1 + 0 * self.longitude_offset)\n", 'kill'),
    ('dlon-privileged', FOF, "  return j * jnp.where((i + 1) % 2, u_down, -u_up)", "  return j * jnp.where((i + 1) % 2, u_down, u_up)", 'kill'),
    ('dlat-shift-two', SHF, "    x_lp1 = jax_numpy_utils.shift((-l * b) * x, +1, axis=-1)", "    x_lp1 = jax_numpy_utils.shift((-l * b) * x, +2, axis=-1)", 'kill'),
    ('sin-lat-metric', PEF, "    kinetic = nodal_cos_lat_u2.sum(0) * self.coords.horizontal.sec2_lat / 2", "    kinetic = nodal_cos_lat_u2.sum(0) * self.coords.horizontal.sec2_lat / 2 * (1 + 1e-12 * self.coords.horizontal.nodal_mesh[1])", 'kill'),
]

VIF = 'dinosaur/vertical_interpolation.py'
RECIPES['C08'] = [
    ('stop-gradient', PEF, "    sigma_dot_full = aux_state.sigma_dot_full\n    temperature_variation = aux_state.temperature_variation\n    if self.include_vertical_advection:", "    sigma_dot_full = jax.lax.stop_gradient(aux_state.sigma_dot_full)\n    temperature_variation = aux_state.temperature_variation\n    if self.include_vertical_advection:", 'kill'),
    ('norm-squared', PEF, "    nodal_cos_lat_u2 = jnp.stack(aux_state.cos_lat_u) ** 2\n    kinetic = nodal_cos_lat_u2.sum(0) * self.coords.horizontal.sec2_lat / 2", "    speed = jnp.linalg.norm(jnp.stack(aux_state.cos_lat_u), axis=0)\n    kinetic = speed**2 * self.coords.horizontal.sec2_lat / 2", 'kill'),
    ('round-in-step', TI, "    g = u0 + dt * F(u0)\n    u1 = G_inv(g, dt)\n    return u1", "    g = u0 + dt * F(u0)\n    u1 = G_inv(g, dt)\n    return tree_math.Vector(jax.tree_util.tree_map(lambda x: jnp.round(x, 12), u1.tree))", 'kill'),
    ('sqrt-of-square', SWF, "    nodal_e = (nodal_u * nodal_u).sum(0) * sec2_lat / 2", "    nodal_e = jnp.sqrt((nodal_u * nodal_u).sum(0)) ** 2 * sec2_lat / 2", 'kill'),
    ('invlap-where-inf', SHF, "    inverse_eigenvalues[0] = 0\n    inverse_eigenvalues[self.total_wavenumbers :] = 0\n    assert not np.isnan(inverse_eigenvalues).any()\n    return x * inverse_eigenvalues", "    inverse_eigenvalues[0] = 0\n    resolved = np.arange(inverse_eigenvalues.shape[-1]) < self.total_wavenumbers\n    return jnp.where(resolved, x * inverse_eigenvalues, 0)", 'kill'),
    ('tracer-guard', PEF, "    if isinstance(step_size, jax.core.Tracer):", "    if False:", 'kill'),
    ('checkpoint-captures-init', TI, "  @checkpoint_fn\n  def sub_scans(carry, xs):\n    return _inner_nested_scan(f, carry, xs, lengths[1:], scan_fn, checkpoint_fn)", "  @checkpoint_fn\n  def sub_scans(carry, xs):\n    del carry\n    return _inner_nested_scan(f, init, xs, lengths[1:], scan_fn, checkpoint_fn)", 'kill'),
    ('interp-int-cast', VIF, "  weights = w_left * (i == (u - 1)) + w_right * (i == u)\n  return jnp.dot(weights, fp, precision='highest')", "  weights = w_left * (i == (u - 1)) + w_right * (i == u)\n  return jnp.dot(weights, fp.astype(jnp.int32), precision='highest')", 'kill'),
    ('hs-sign', HSF, "    return jnp.maximum(self.minT, temperature)", "    return jnp.maximum(self.minT, temperature) * jnp.sign(temperature)", 'kill'),
    ('equiv-exp', PEF, "    return temperature_field * (v_dot_grad_log_sp - g_part)", "    return (v_dot_grad_log_sp - g_part) * temperature_field", 'equiv'),
]

SCA = 'dinosaur/scales.py'
PEQ = 'dinosaur/primitive_equations.py'
XRU = 'dinosaur/xarray_utils.py'
RAD = 'dinosaur/radiation.py'
RECIPES['C18'] = [
    ('nondim-multiplies', SCA, 'nondimensionalized = (quantity / scaling_factor).to(units.dimensionless)', 'nondimensionalized = (quantity * scaling_factor).to(units.dimensionless)', 'kill'),
    ('dim-divides', SCA, 'dimensionalized = value * scaling_factor', 'dimensionalized = value / scaling_factor', 'kill'),
    ('factor-ignores-exponent', SCA, '      factor *= quantity ** exponent', '      factor *= quantity', 'kill'),
    ('factor-abs-exponent', SCA, '      factor *= quantity ** exponent', '      factor *= quantity ** abs(exponent)', 'kill'),
    ('factor-missing-default', SCA, '      quantity = self._scales.get(dimension)\n', '      quantity = self._scales.get(dimension, Quantity(1))\n', 'kill'),
    ('scale-not-base-units', SCA, 'self._scales[_get_dimension(quantity)] = quantity.to_base_units()', 'self._scales[_get_dimension(quantity)] = quantity.magnitude', 'kill'),
    ('dim-wrong-dimensionality', SCA, 'scaling_factor = self._scaling_factor(unit.dimensionality)\n    dimensionalized', 'scaling_factor = self._scaling_factor(value.dimensionality)\n    dimensionalized', 'kill'),
    ('compound-scale-allowed', SCA, '  if len(quantity.dimensionality) != 1 or exponents[0] != 1:', '  if len(quantity.dimensionality) != 1:', 'kill'),
    ('scale-equiv-rewrite', SCA, '    scaling_factor = self._scaling_factor(quantity.dimensionality)\n    nondimensionalized = (quantity / scaling_factor).to(units.dimensionless)\n    return nondimensionalized.magnitude',
     '    factor = self._scaling_factor(quantity.dimensionality)\n    ratio = quantity / factor\n    return ratio.to(units.dimensionless).magnitude', 'equiv'),
    ('dim-equiv-commuted', SCA, 'dimensionalized = value * scaling_factor', 'dimensionalized = scaling_factor * value', 'equiv'),
    ('to-datetime-no-round', XRU, "delta = np.array(np.round(minutes).astype(int), 'timedelta64[m]')", "delta = np.array(minutes.astype(int), 'timedelta64[m]')", 'kill'),
    ('to-datetime-unit-mismatch', XRU, "delta = np.array(np.round(minutes).astype(int), 'timedelta64[m]')", "delta = np.array(np.round(minutes).astype(int), 'timedelta64[s]')", 'kill'),
    ('to-datetime-equiv-rint', XRU, "delta = np.array(np.round(minutes).astype(int), 'timedelta64[m]')", "whole = np.rint(minutes).astype(np.int64)\n  delta = whole.astype('timedelta64[m]')", 'equiv'),
    ('from-datetime-unit-mismatch', XRU, "((time - reference_datetime) / np.timedelta64(1, 'h')) * scales.units.hour", "((time - reference_datetime) / np.timedelta64(1, 'm')) * scales.units.hour", 'kill'),
    ('from-datetime-equiv-minutes', XRU, "((time - reference_datetime) / np.timedelta64(1, 'h')) * scales.units.hour", "((time - reference_datetime) / np.timedelta64(1, 'm')) * scales.units.minute", 'equiv'),
    ('time-delta-unit-mismatch', XRU, "    return physics_specs.nondimensionalize(time_delta * scales.units.second)", "    return physics_specs.nondimensionalize(time_delta * scales.units.minute)", 'kill'),
    ('timedelta-units-differ', PEQ, "    base_unit = 's'\n    return self.scale.nondimensionalize(", "    base_unit = 'ms'\n    return self.scale.nondimensionalize(", 'kill'),
    ('timedelta-literal-mismatch', PEQ, "timedelta / np.timedelta64(1, base_unit) * units(base_unit)", "timedelta / np.timedelta64(1, 'm') * units(base_unit)", 'kill'),
    ('phase-two-moduli', RAD, 'orbital_time -= orbital_time // (2 * jnp.pi) * (2 * jnp.pi)', 'orbital_time -= orbital_time // (2 * jnp.pi) * jnp.pi', 'kill'),
    ('phase-no-reference', RAD, 'orbital_time = self.reference_orbital_time + self.orbital_rate * time', 'orbital_time = self.orbital_rate * time', 'kill'),
    ('phase-equiv-tau', RAD, 'orbital_time -= orbital_time // (2 * jnp.pi) * (2 * jnp.pi)', 'tau = 2 * jnp.pi\n    orbital_time = orbital_time - (orbital_time // tau) * tau', 'equiv'),
    ('synodic-hours-only', RAD, 'fraction_of_day = (60 * when.hour + when.minute) / MINUTES_PER_DAY', 'fraction_of_day = (60 * when.hour) / MINUTES_PER_DAY', 'kill'),
    ('orbital-yday-not-shifted', RAD, 'full_days = when.timetuple().tm_yday - 1', 'full_days = when.timetuple().tm_yday', 'kill'),
    ('orbital-365', RAD, 'fraction_of_year = (full_days + fraction_of_day) / days_this_year', 'fraction_of_year = (full_days + fraction_of_day) / 365', 'kill'),
    ('days-seconds-per-hour', RAD, 'SECONDS_PER_DAY = 86400', 'SECONDS_PER_DAY = 8640', 'kill'),
    ('rate-equiv-named', RAD, 'OrbitalTime(2 * jnp.pi / units.year, 2 * jnp.pi / units.day),', 'OrbitalTime(orbital_phase=2 * np.pi / units.year, synodic_phase=2 * np.pi / units.day),', 'equiv'),
    ('reference-phase-epoch', RAD, 'self.reference_orbital_time = datetime_to_orbital_time(reference_datetime)', 'self.reference_orbital_time = datetime_to_orbital_time(datetime.datetime(2000, 1, 1))', 'kill'),
    ('rate-per-hour', RAD, '2 * jnp.pi / units.year, 2 * jnp.pi / units.day', '2 * jnp.pi / units.year, 2 * jnp.pi / units.hour', 'kill'),
]

_CLIP_OLD = '      num_zeros = n + self.modal_padding[-1]\n      mask = jnp.ones(self.modal_shape[-1], x.dtype).at[-num_zeros:].set(0)\n      return x * mask'
_CLIP_VARIANTS = [
    ('clip-mask-by-wavenumber-value', SHF, _CLIP_OLD, '      keep = self.modal_axes[1] < self.total_wavenumbers - n\n      return x * keep.astype(x.dtype)', 'kill'),
    ('clip-mask-off-by-one', SHF, _CLIP_OLD, '      keep = jnp.arange(self.modal_shape[-1]) <= self.total_wavenumbers - n\n      return x * keep.astype(x.dtype)', 'kill'),
    ('clip-mask-equiv-arange', SHF, _CLIP_OLD, '      keep = jnp.arange(self.modal_shape[-1]) < self.total_wavenumbers - n\n      return x * keep.astype(x.dtype)', 'equiv'),
]
RECIPES['C02'] += _CLIP_VARIANTS
RECIPES['C11'] += _CLIP_VARIANTS + [
    ('clip-ignores-padding', SHF, '      num_zeros = n + self.modal_padding[-1]', '      num_zeros = n', 'kill'),
    ('exp-filter-no-passband-mask', FIL, 'scaling = jnp.exp((k > c) * (-a * (((k - c) / (1 - c)) ** (2 * p))))', 'scaling = jnp.exp(-a * (((k - c) / (1 - c)) ** (2 * p)))', 'kill'),
]

XRU = 'dinosaur/xarray_utils.py'
CSF = 'dinosaur/coordinate_systems.py'
PTU = 'dinosaur/pytree_utils.py'
SIG = 'dinosaur/sigma_coordinates.py'
RECIPES['C19'] = [
    ('registry-missing-pressure', XRU, "    'PressureCoordinates': vertical_interpolation.PressureCoordinates,\n", '', 'kill'),
    ('registry-wrong-class', XRU, "    'LayerCoordinates': layer_coordinates.LayerCoordinates,", "    'LayerCoordinates': sigma_coordinates.SigmaCoordinates,", 'kill'),
    ('writer-type-key-crossed', CSF, 'out[VERTICAL_COORD_TYPE_KEY] = type(self.vertical).__name__', 'out[VERTICAL_COORD_TYPE_KEY] = type(self.horizontal).__name__', 'kill'),
    ('reader-type-key-crossed', XRU, "  horizontal_coordinate_cls = GRID_REGISTRY[\n      attrs[coordinate_systems.HORIZONTAL_COORD_TYPE_KEY]", "  horizontal_coordinate_cls = GRID_REGISTRY[\n      attrs[coordinate_systems.VERTICAL_COORD_TYPE_KEY]", 'kill'),
    ('grid-surrogate-key-renamed', SHF, "SPMD_MESH_KEY = 'spmd_mesh'", "SPMD_MESH_KEY = 'mesh'", 'kill'),
    ('reader-forgets-pop', XRU, "  horizontal_attrs.pop(spherical_harmonic.SPHERICAL_HARMONICS_IMPL_KEY, None)\n", '', 'kill'),
    ('sigma-init-keeps-list', SIG, "object.__setattr__(self, 'boundaries', np.asarray(boundaries))", "object.__setattr__(self, 'boundaries', boundaries)", 'kill'),
    ('attrs-guard-dropped', XRU, "  dataset_attrs = coords.asdict() if serialize_coords_to_attrs else {}\n  if attrs is not None:\n    for key in dataset_attrs.keys():\n      if key in attrs:\n        raise ValueError(f'Key {key} is not allowed in `attrs`.')\n    dataset_attrs.update(attrs)",
     "  dataset_attrs = coords.asdict() if serialize_coords_to_attrs else {}\n  if attrs is not None:\n    dataset_attrs.update(attrs)", 'kill'),
    ('dims-level-modal-mislabelled', XRU, "  basic_shape_to_dims[(coords.vertical.layers,) + modal_shape] = (\n      XR_LEVEL_NAME,\n  ) + MODAL_AXES_NAMES", "  basic_shape_to_dims[(coords.vertical.layers,) + modal_shape] = (\n      XR_LEVEL_NAME,\n  ) + NODAL_AXES_NAMES", 'kill'),
    ('dims-modal-names-swapped', XRU, "MODAL_AXES_NAMES = (\n    XR_LON_MODE_NAME,\n    XR_LAT_MODE_NAME,\n)", "MODAL_AXES_NAMES = (\n    XR_LAT_MODE_NAME,\n    XR_LON_MODE_NAME,\n)", 'kill'),
    ('dims-time-sample-crossed', XRU, "    shape = times.shape + shape\n    dims = (XR_TIME_NAME,) + dims", "    shape = times.shape + shape\n    dims = (XR_SAMPLE_NAME,) + dims", 'kill'),
    ('dims-level-after-extra', XRU, "    basic_shape_to_dims[value.shape + modal_shape] = (dim,) + MODAL_AXES_NAMES", "    basic_shape_to_dims[value.shape + modal_shape] = MODAL_AXES_NAMES + (dim,)", 'kill'),
    ('reader-expand-dims-axis', XRU, "      v = np.expand_dims(v, axis=-3)  # singleton dim for level", "      v = np.expand_dims(v, axis=0)  # singleton dim for level", 'kill'),
    ('dims-equiv-locals', XRU, "  basic_shape_to_dims[nodal_shape] = NODAL_AXES_NAMES\n  basic_shape_to_dims[modal_shape] = MODAL_AXES_NAMES", "  basic_shape_to_dims[modal_shape] = MODAL_AXES_NAMES\n  basic_shape_to_dims[coords.horizontal.nodal_shape] = NODAL_AXES_NAMES", 'equiv'),
    ('extract-wrong-variable', XRU, "      temperature_variation=getattr(dataset['temperature_variation'], values),\n      log_surface_pressure=getattr(dataset['log_surface_pressure'], values),\n      tracers=",
     "      temperature_variation=getattr(dataset['temperature'], values),\n      log_surface_pressure=getattr(dataset['log_surface_pressure'], values),\n      tracers=", 'kill'),
    ('extract-crossed', XRU, "      vorticity=getattr(dataset['vorticity'], values),\n      divergence=getattr(dataset['divergence'], values),\n      potential=", "      vorticity=getattr(dataset['divergence'], values),\n      divergence=getattr(dataset['vorticity'], values),\n      potential=", 'kill'),
    ('flatten-first-character', PTU, "      np.array(empty_keys), return_counts=True)", "      np.array([x[0] for x in empty_keys]), return_counts=True)", 'kill'),
    ('flatten-items-whole-pairs', PTU, "      np.array([x[0] for x in items]), return_counts=True)", "      np.array(items), return_counts=True)", 'kill'),
    ('flatten-sep-defaults-differ', PTU, "    empty_keys: tuple[str, ...] = tuple(),\n    sep: str = '&',", "    empty_keys: tuple[str, ...] = tuple(),\n    sep: str = '/',", 'kill'),
    ('flatten-recursion-loses-sep', PTU, "sub_dict, sub_empty_keys = flatten_dict(v, new_key, sep=sep)", "sub_dict, sub_empty_keys = flatten_dict(v, new_key)", 'kill'),
    ('flatten-no-sep-guard', PTU, "    if sep in k:\n      raise ValueError(f'Key {k} contains {sep=}. Use different name or sep.')\n", '', 'kill'),
    ('flatten-key-order', PTU, "    new_key = prefix + sep + k if prefix else k", "    new_key = k + sep + prefix if prefix else k", 'kill'),
    ('flatten-empty-check-on-falsy-leaf', PTU, "    elif isinstance(v, dict) and not v:", "    elif not v:", 'kill'),
    ('flatten-equiv-fstring', PTU, "    new_key = prefix + sep + k if prefix else k", "    new_key = f'{prefix}{sep}{k}' if prefix else k", 'equiv'),
    ('flatten-equiv-nested-if', PTU, "    if isinstance(v, dict) and v:\n      sub_dict, sub_empty_keys = flatten_dict(v, new_key, sep=sep)\n      items.extend(sub_dict.items())\n      empty_keys.extend(sub_empty_keys)\n    elif isinstance(v, dict) and not v:\n      empty_keys.append(new_key)\n    else:\n      items.append((new_key, v))",
     "    if isinstance(v, dict):\n      if len(v) > 0:\n        sub_dict, sub_empty_keys = flatten_dict(v, new_key, sep=sep)\n        items.extend(sub_dict.items())\n        empty_keys.extend(sub_empty_keys)\n      else:\n        empty_keys.append(new_key)\n    else:\n      items.append((new_key, v))", 'equiv'),
    ('flatten-equiv-set-dup-check', PTU, "  unique_empty_keys, counts = np.unique(\n      np.array(empty_keys), return_counts=True)\n  if (counts > 1).any():\n    raise ValueError(f'got duplicate keys {unique_empty_keys[counts > 1]}')",
     "  if len(set(empty_keys)) != len(empty_keys):\n    raise ValueError(f'got duplicate keys in {empty_keys}')", 'equiv'),
    ('replace-drops-empty-branches', PTU, "  return unflatten_dict(flat_result, empty_keys)", "  return unflatten_dict(flat_result)", 'kill'),
    ('unflatten-ignores-empty', PTU, "  for key, value in (flat_dict | empty_key_dict).items():", "  for key, value in flat_dict.items():", 'kill'),
    ('unpack-axis-default', PTU, "    pytree_of_shapes: typing.Pytree,\n    axis: int = -3\n", "    pytree_of_shapes: typing.Pytree,\n    axis: int = -2\n", 'kill'),
    ('unpack-split-other-axis', PTU, "  split = jnp.split(array, splits, axis)\n  return jax.tree_util.tree_unflatten(tree_def, split)", "  split = jnp.split(array, splits, -3)\n  return jax.tree_util.tree_unflatten(tree_def, split)", 'kill'),
    ('unpack-splits-not-cumulative', PTU, "  splits = np.cumsum(np.array([x[axis] for x in shapes]))[:-1]", "  splits = np.array([x[axis] for x in shapes])[:-1]", 'kill'),
    ('unstack-squeeze-axis0', PTU, "  split = tree_map(lambda x: jnp.squeeze(x, axis=axis), split)", "  split = tree_map(lambda x: jnp.squeeze(x, axis=0), split)", 'kill'),
    ('split-halves-overlap', PTU, "      inputs, axis, slice(split_idx, None), expect_same_dims)", "      inputs, axis, slice(split_idx - 1, None), expect_same_dims)", 'kill'),
    ('split-equiv-none-start', PTU, "      inputs, axis, slice(0, split_idx), expect_same_dims)", "      inputs, axis, slice(None, split_idx), expect_same_dims)", 'equiv'),
    ('concat-axis0', PTU, "  concat_leaves_fn = lambda *args: jnp.concatenate(args, axis)", "  concat_leaves_fn = lambda *args: jnp.concatenate(args, 0)", 'kill'),
    ('split-axis-squeeze-wrong', PTU, "    splits = tree_map(lambda a: jnp.squeeze(a, axis), splits)", "    splits = tree_map(lambda a: jnp.squeeze(a, 0), splits)", 'kill'),
    ('split-axis-first-leaf-rank', PTU, "  axis_shapes = set(a.shape[axis] for a in arrays)", "  axis = _normalize_axis(axis, arrays[0].ndim)\n  axis_shapes = set(a.shape[axis] for a in arrays)", 'kill'),
    ('down-slice-offset', CSF, "  total_wavenumber_slice = slice(0, save_coords.horizontal.modal_shape[1])", "  total_wavenumber_slice = slice(1, save_coords.horizontal.modal_shape[1] + 1)", 'kill'),
    ('down-axes-crossed', CSF, "  lon_wavenumber_slice = slice(0, save_coords.horizontal.modal_shape[0])", "  lon_wavenumber_slice = slice(0, save_coords.horizontal.modal_shape[1])", 'kill'),
    ('up-pad-front', CSF, "  lon_wavenumber_pad = (0, save_shape[0] - coords_shape[0])", "  lon_wavenumber_pad = (save_shape[0] - coords_shape[0], 0)", 'kill'),
    ('up-pad-edge-mode', CSF, "    pad_fn = lambda x: jnp.pad(x, ((0, 0),) * (x.ndim - 2) + tail_pad)", "    pad_fn = lambda x: jnp.pad(x, ((0, 0),) * (x.ndim - 2) + tail_pad, mode='edge')", 'kill'),
    ('up-equiv-lists', CSF, "    pad_fn = lambda x: jnp.pad(x, ((0, 0),) * (x.ndim - 2) + tail_pad)", "    pad_fn = lambda x: jnp.pad(x, [(0, 0)] * (x.ndim - 2) + list(tail_pad))", 'equiv'),
    ('interp-args-crossed', CSF, "    return get_spectral_upsample_fn(\n        source_coords, target_coords, expect_same_vertical\n    )", "    return get_spectral_upsample_fn(\n        target_coords, source_coords, expect_same_vertical\n    )", 'kill'),
    ('modal-axis-reversed', SHF, "    tot_wavenumbers = np.arange(self.total_wavenumbers)\n    return lon_wavenumbers, tot_wavenumbers", "    tot_wavenumbers = np.arange(self.total_wavenumbers)[::-1]\n    return lon_wavenumbers, tot_wavenumbers", 'kill'),
    ('modal-axis-centered', SHF, "    m_pos = np.arange(1, self.longitude_wavenumbers)\n    m_pos_neg = np.stack([m_pos, -m_pos], axis=1).ravel()\n    lon_wavenumbers = np.concatenate([[0], m_pos_neg])  # [0, 1, -1, 2, -2, ...]",
     "    lon_wavenumbers = np.arange(1 - self.longitude_wavenumbers, self.longitude_wavenumbers)", 'kill'),
]

HIF = 'dinosaur/horizontal_interpolation.py'
VIF = 'dinosaur/vertical_interpolation.py'
RECIPES['C16'] = [
    ('lat-normalise-axis0', HIF, "  weights = _latitude_overlap(source_points, target_points)\n  weights /= jnp.sum(weights, axis=1, keepdims=True)", "  weights = _latitude_overlap(source_points, target_points)\n  weights /= jnp.sum(weights, axis=0, keepdims=True)", 'kill'),
    ('lat-args-swapped', HIF, "  weights = _latitude_overlap(source_points, target_points)", "  weights = _latitude_overlap(target_points, source_points)", 'kill'),
    ('lon-args-not-swapped', HIF, "  weights = _longitude_overlap(target_points, source_points)", "  weights = _longitude_overlap(source_points, target_points)", 'kill'),
    ('lat-no-gate', HIF, "  return (upper > lower) * (jnp.sin(upper) - jnp.sin(lower))", "  return jnp.sin(upper) - jnp.sin(lower)", 'kill'),
    ('lat-cos-area', HIF, "  return (upper > lower) * (jnp.sin(upper) - jnp.sin(lower))", "  return (upper > lower) * (jnp.cos(lower) - jnp.cos(upper))", 'kill'),
    ('lat-bounds-not-poles', HIF, "  return jnp.concatenate([-pi_over_2, (x[:-1] + x[1:]) / 2, pi_over_2])", "  return jnp.concatenate([x[:1], (x[:-1] + x[1:]) / 2, x[-1:]])", 'kill'),
    ('lat-upper-lower-same-slice', HIF, "  lower = jnp.maximum(\n      target_bounds[:-1, jnp.newaxis], source_bounds[jnp.newaxis, :-1]\n  )\n  # normalized", "  lower = jnp.maximum(\n      target_bounds[:-1, jnp.newaxis], source_bounds[jnp.newaxis, 1:]\n  )\n  # normalized", 'kill'),
    ('lat-equiv-where', HIF, "  weights /= jnp.sum(weights, axis=1, keepdims=True)\n  assert weights.shape == (target_points.size, source_points.size)\n  return weights\n\n\ndef _align",
     "  totals = jnp.sum(weights, axis=1, keepdims=True)\n  weights = weights / totals\n  assert weights.shape == (target_points.size, source_points.size)\n  return weights\n\n\ndef _align", 'equiv'),
    ('lon-no-clamp', HIF, "  return jnp.maximum(upper - lower, 0)\n\n\ndef _longitude_overlap", "  return upper - lower\n\n\ndef _longitude_overlap", 'kill'),
    ('lon-align-different-refs', HIF, "  y1 = _align_phase_with(y1, x0, period)", "  y1 = _align_phase_with(y1, x1, period)", 'kill'),
    ('lon-window-quarter', HIF, "  shift_down = x > target + period / 2", "  shift_down = x > target + period / 4", 'kill'),
    ('lon-shift-signs', HIF, "  return x + period * shift_up - period * shift_down", "  return x - period * shift_up + period * shift_down", 'kill'),
    ('lon-upper-uses-previous', HIF, "  x_plus = _align_phase_with(jnp.roll(x, -1), x, period)", "  x_plus = _align_phase_with(jnp.roll(x, 1), x, period)", 'kill'),
    ('lon-positional-wrap', HIF, "  x_minus = _align_phase_with(jnp.roll(x, +1), x, period)", "  x_minus = jnp.roll(x, +1).at[0].add(-period)", 'kill'),
    ('lon-no-modulo', HIF, "  second_points = second_points % period\n", "", 'kill'),
    ('lon-bounds-crossed', HIF, "      second_lower[jnp.newaxis, :],\n      second_upper[jnp.newaxis, :],", "      second_upper[jnp.newaxis, :],\n      second_lower[jnp.newaxis, :],", 'kill'),
    ('lon-no-increasing-check', HIF, "  _assert_increasing(source_points)\n  _assert_increasing(target_points)\n  weights = _longitude_overlap", "  _assert_increasing(target_points)\n  weights = _longitude_overlap", 'kill'),
    ('mean-spec-wrong-contraction', HIF, "        'ab,cd,...bd->...ac',", "        'ab,cd,...ac->...bd',", 'kill'),
    ('mean-operands-swapped', HIF, "        'ab,cd,...bd->...ac',\n        lon_weights,\n        lat_weights,", "        'ab,cd,...bd->...ac',\n        lat_weights,\n        lon_weights,", 'kill'),
    ('mean-grids-swapped', HIF, "    lat_weights = conservative_latitude_weights(\n        self.source_grid.latitudes, self.target_grid.latitudes\n    )\n    # Note", "    lat_weights = conservative_latitude_weights(\n        self.target_grid.latitudes, self.source_grid.latitudes\n    )\n    # Note", 'kill'),
    ('mean-equiv-spec-letters', HIF, "        'ab,cd,...bd->...ac',", "        'ts,uv,...sv->...tu',", 'equiv'),
    ('cached-weights-differ', HIF, "    return conservative_longitude_weights(\n        self.source_grid.longitudes, self.target_grid.longitudes\n    )\n\n  @functools.partial(jax.jit, static_argnums=0)\n  def _mean",
     "    return conservative_longitude_weights(\n        self.target_grid.longitudes, self.source_grid.longitudes\n    )\n\n  @functools.partial(jax.jit, static_argnums=0)\n  def _mean", 'kill'),
    ('nan-fraction-from-field', HIF, "    not_null_fraction = self._mean(not_nulls)", "    not_null_fraction = self._mean(jnp.ones_like(field))", 'kill'),
    ('nan-no-division-when-strict', HIF, "          jnp.isclose(not_null_fraction, 1, rtol=1e-3),\n          mean / not_null_fraction,", "          jnp.isclose(not_null_fraction, 1, rtol=1e-3),\n          mean,", 'kill'),
    ('nan-skip-returns-mean', HIF, "      return mean / not_null_fraction  # intended NaN if not_null_fraction == 0", "      return mean  # intended NaN if not_null_fraction == 0", 'kill'),
    ('nan-fill-nonzero', HIF, "    mean = self._mean(jnp.where(not_nulls, field, 0))", "    mean = self._mean(jnp.where(not_nulls, field, 1))", 'kill'),
    ('vert-no-clamp', VIF, "  return jnp.maximum(upper - lower, 0)\n\n\ndef conservative_regrid_weights", "  return upper - lower\n\n\ndef conservative_regrid_weights", 'kill'),
    ('vert-normalise-by-thickness', VIF, "  weights /= jnp.sum(weights, axis=1, keepdims=True)\n  assert weights.shape == (target_bounds.size - 1, source_bounds.size - 1)", "  weights /= jnp.diff(target_bounds)[:, jnp.newaxis]\n  assert weights.shape == (target_bounds.size - 1, source_bounds.size - 1)", 'kill'),
    ('vert-roles-swapped', VIF, "  upper = jnp.minimum(\n      target_bounds[1:, jnp.newaxis], source_bounds[jnp.newaxis, 1:]\n  )\n  lower = jnp.maximum(\n      target_bounds[:-1, jnp.newaxis], source_bounds[jnp.newaxis, :-1]\n  )\n  return jnp.maximum(upper - lower, 0)",
     "  upper = jnp.minimum(\n      source_bounds[1:, jnp.newaxis], target_bounds[jnp.newaxis, 1:]\n  )\n  lower = jnp.maximum(\n      source_bounds[:-1, jnp.newaxis], target_bounds[jnp.newaxis, :-1]\n  )\n  return jnp.maximum(upper - lower, 0)", 'kill'),
    ('vert-einsum-transposed', VIF, "    result = jnp.einsum('ab,b->a', weights, field, precision='float32')", "    result = jnp.einsum('ab,a->b', weights, field, precision='float32')", 'kill'),
    ('vert-bounds-swapped', VIF, "    weights = conservative_regrid_weights(hybrid_bounds, sigma_bounds)", "    weights = conservative_regrid_weights(sigma_bounds, hybrid_bounds)", 'kill'),
    ('vert-sigma-bounds-multiply', VIF, "    return self.a_boundaries / surface_pressure + self.b_boundaries", "    return self.a_boundaries * surface_pressure + self.b_boundaries", 'kill'),
]

PEQ2 = 'dinosaur/primitive_equations.py'
_W_OLD = "  u = jnp.clip(u, 1, n - 1)\n  weights = w_left * (i == (u - 1)) + w_right * (i == u)\n  weights = jnp.where(x < xp[0], i == 0, weights)"
RECIPES['C17'] = [
    ('dot-no-clip', VIF, _W_OLD, "  weights = w_left * (i == (u - 1)) + w_right * (i == u)\n  weights = jnp.where(x < xp[0], i == 0, weights)", 'kill'),
    ('dot-clip-from-zero', VIF, _W_OLD, _W_OLD.replace('jnp.clip(u, 1, n - 1)', 'jnp.clip(u, 0, n - 1)'), 'kill'),
    ('dot-selectors-swapped', VIF, _W_OLD, _W_OLD.replace('w_left * (i == (u - 1)) + w_right * (i == u)', 'w_left * (i == u) + w_right * (i == (u - 1))'), 'kill'),
    ('dot-no-upper-clamp', VIF, "  weights = jnp.where(x > xp[-1], i == (n - 1), weights)\n", "", 'kill'),
    ('dot-upper-clamp-wrong-node', VIF, "  weights = jnp.where(x > xp[-1], i == (n - 1), weights)", "  weights = jnp.where(x > xp[-1], i == n, weights)", 'kill'),
    ('dot-equiv-commuted', VIF, _W_OLD, _W_OLD.replace('w_left * (i == (u - 1)) + w_right * (i == u)', '(i == u) * w_right + (i == (u - 1)) * w_left'), 'equiv'),
    ('interp-args-swapped-on-tpu', VIF, "    return _dot_interp(x, xp, fp)", "    return _dot_interp(xp, x, fp)", 'kill'),
    ('interp-nan-right', VIF, "    return jnp.interp(x, xp, fp)\n\n\ndef _extrapolate_left", "    return jnp.interp(x, xp, fp, right=jnp.nan)\n\n\ndef _extrapolate_left", 'kill'),
    ('extrap-right-uses-first-slope', VIF, "  delta = y[-1] - y[-2]\n  return jnp.concatenate([y, jnp.array([y[-1] + delta])])", "  delta = y[1] - y[0]\n  return jnp.concatenate([y, jnp.array([y[-1] + delta])])", 'kill'),
    ('extrap-left-sign', VIF, "  return jnp.concatenate([jnp.array([y[0] - delta]), y])", "  return jnp.concatenate([jnp.array([y[0] + delta]), y])", 'kill'),
    ('extrap-both-only-right', VIF, "  return _extrapolate_left(_extrapolate_right(y))", "  return _extrapolate_right(_extrapolate_right(y))", 'kill'),
    ('extrap-equiv-single-concat', VIF, "  return _extrapolate_left(_extrapolate_right(y))", "  first = y[:1] - (y[1] - y[0])\n  last = y[-1:] + (y[-1] - y[-2])\n  return jnp.concatenate([first, y, last])", 'equiv'),
    ('extrap-equiv-order', VIF, "  return _extrapolate_left(_extrapolate_right(y))", "  return _extrapolate_right(_extrapolate_left(y))", 'equiv'),
    ('safe-no-right-nan', VIF, "  return jnp.interp(x, xp, fp, left=np.nan, right=np.nan)", "  return jnp.interp(x, xp, fp, left=np.nan)", 'kill'),
    ('safe-fp-not-extended', VIF, "    xp = _extrapolate_both(xp)\n    fp = _extrapolate_both(fp)\n", "    xp = _extrapolate_both(xp)\n  for _ in range(n - 1):\n    fp = _extrapolate_both(fp)\n", 'kill'),
    ('linextrap-side-left', VIF, "  u = jnp.searchsorted(xp, x, side='right', method='compare_all')\n  u = jnp.clip(u, 1, n - 1)\n  weights = w_left * (i == (u - 1)) + w_right * (i == u)\n  return jnp.dot", "  u = jnp.searchsorted(xp, x, side='left', method='compare_all')\n  u = jnp.clip(u, 1, n - 1)\n  weights = w_left * (i == (u - 1)) + w_right * (i == u)\n  return jnp.dot", 'kill'),
    ('linextrap-weights-not-unity', VIF, "  w_left = jnp.pad(1 - w, [(0, 1)])\n  w_right = jnp.pad(w, [(1, 0)])\n  u = jnp.searchsorted(xp, x, side='right', method='compare_all')\n  u = jnp.clip(u, 1, n - 1)\n  weights = w_left * (i == (u - 1)) + w_right * (i == u)\n  return jnp.dot",
     "  w_left = jnp.pad(1 + w, [(0, 1)])\n  w_right = jnp.pad(w, [(1, 0)])\n  u = jnp.searchsorted(xp, x, side='right', method='compare_all')\n  u = jnp.clip(u, 1, n - 1)\n  weights = w_left * (i == (u - 1)) + w_right * (i == u)\n  return jnp.dot", 'kill'),
    ('linextrap-clamped', VIF, "  weights = w_left * (i == (u - 1)) + w_right * (i == u)\n  return jnp.dot(weights, fp, precision='highest')\n\n\n# TODO", "  weights = w_left * (i == (u - 1)) + w_right * (i == u)\n  weights = jnp.where(x < xp[0], i == 0, weights)\n  return jnp.dot(weights, fp, precision='highest')\n\n\n# TODO", 'kill'),
    ('default-fn-unlimited', VIF, "    interpolate_fn: InterpolateFn = (\n        vectorize_vertical_interpolation(_linear_interp_with_safe_extrap)\n    ),\n) -> typing.Pytree:\n  \"\"\"Interpolate 3D fields from pressure to sigma levels.\"\"\"",
     "    interpolate_fn: InterpolateFn = (\n        vectorize_vertical_interpolation(linear_interp_with_linear_extrap)\n    ),\n) -> typing.Pytree:\n  \"\"\"Interpolate 3D fields from pressure to sigma levels.\"\"\"", 'kill'),
    ('p2s-divides', VIF, "  desired = sigma_coords.centers[:, np.newaxis, np.newaxis] * surface_pressure", "  desired = sigma_coords.centers[:, np.newaxis, np.newaxis] / surface_pressure", 'kill'),
    ('s2p-multiplies', VIF, "      pressure_coords.centers[:, np.newaxis, np.newaxis] / surface_pressure\n", "      pressure_coords.centers[:, np.newaxis, np.newaxis] * surface_pressure\n", 'kill'),
    ('s2p-wrong-source-coord', VIF, "  regrid = lambda x: interpolate_fn(desired, sigma_coords.centers, x)\n  return pytree_utils.tree_map_over_nonscalars(regrid, fields)", "  regrid = lambda x: interpolate_fn(desired, sigma_coords.boundaries[1:], x)\n  return pytree_utils.tree_map_over_nonscalars(regrid, fields)", 'kill'),
    ('hybrid-uses-boundaries', VIF, "    source_sigmas = hybrid_coords.get_sigma_centers(surface_pressure)", "    source_sigmas = hybrid_coords.get_sigma_boundaries(surface_pressure)[1:]", 'kill'),
    ('surface-pressure-sign', VIF, "  relative_height = orography * gravity_acceleration - geopotential", "  relative_height = geopotential - orography * gravity_acceleration", 'kill'),
    ('surface-pressure-clamped', VIF, "    return linear_interp_with_linear_extrap(0.0, rh, levels)[np.newaxis]", "    return interp(0.0, rh, levels)[np.newaxis]", 'kill'),
    ('vectorize-maps-xp', VIF, "  interpolate_fn = jax.vmap(interpolate_fn, (0, None, None), out_axes=0)", "  interpolate_fn = jax.vmap(interpolate_fn, (0, None, 0), out_axes=0)", 'kill'),
    ('semilag-safe-extrap', PEQ2, "  interpolate_fn = vertical_interpolation.interp\n", "  interpolate_fn = vertical_interpolation.linear_interp_with_linear_extrap\n", 'kill'),
    ('bilinear-roles-swapped', HIF, "    field = lon_interp(lon_target, lon_source, field)", "    field = lon_interp(lon_source, lon_target, field)", 'kill'),
    ('bilinear-lat-uses-lon', HIF, "    lat_source = self.source_grid.latitudes\n", "    lat_source = self.source_grid.longitudes\n", 'kill'),
    ('nearest-grids-swapped', HIF, "    return nearest_neighbor_indices(self.source_grid, self.target_grid)", "    return nearest_neighbor_indices(self.target_grid, self.source_grid)", 'kill'),
    ('nearest-lonlat-order', HIF, "  query_coords = np.stack([lat_target.ravel(), lon_target.ravel()], axis=-1)", "  query_coords = np.stack([lon_target.ravel(), lat_target.ravel()], axis=-1)", 'kill'),
    ('nearest-tree-on-target', HIF, "  tree = neighbors.BallTree(index_coords, metric='haversine')\n  indices = tree.query(query_coords, return_distance=False).squeeze(axis=-1)", "  tree = neighbors.BallTree(query_coords, metric='haversine')\n  indices = tree.query(index_coords, return_distance=False).squeeze(axis=-1)", 'kill'),
]

RAD = 'dinosaur/radiation.py'
HSF = 'dinosaur/held_suarez.py'
RECIPES['C20'] = [
    ('flux-no-gate', RAD, '  return flux * is_daytime * sin_altitude', '  return flux * sin_altitude', 'kill'),
    ('flux-gate-other-expr', RAD, '  is_daytime = sin_altitude > 0\n', '  is_daytime = jnp.cos(latitude) > 0\n', 'kill'),
    ('flux-gate-threshold', RAD, '  is_daytime = sin_altitude > 0\n', '  is_daytime = sin_altitude > -0.1\n', 'kill'),
    ('flux-abs', RAD, '  return flux * is_daytime * sin_altitude', '  return flux * jnp.abs(sin_altitude)', 'kill'),
    ('flux-equiv-maximum', RAD, '  return flux * is_daytime * sin_altitude', '  return flux * jnp.maximum(sin_altitude, 0)', 'equiv'),
    ('flux-equiv-where', RAD, '  return flux * is_daytime * sin_altitude', '  return jnp.where(sin_altitude > 0, flux * sin_altitude, 0)', 'equiv'),
    ('flux-equiv-reorder', RAD, '  return flux * is_daytime * sin_altitude', '  lit = is_daytime * sin_altitude\n  return lit * flux', 'equiv'),
    ('flux-lat-lon-swapped', RAD, '      longitude=longitude,\n      latitude=latitude,\n  )\n  is_daytime', '      longitude=latitude,\n      latitude=longitude,\n  )\n  is_daytime', 'kill'),
    ('irradiance-sin', RAD, '  return mean_irradiance + variation * jnp.cos(orbital_phase - perihelion)', '  return mean_irradiance + variation * jnp.sin(orbital_phase - perihelion)', 'kill'),
    ('irradiance-half-year', RAD, '  return mean_irradiance + variation * jnp.cos(orbital_phase - perihelion)', '  return mean_irradiance + variation * jnp.cos((orbital_phase - perihelion) / 2)', 'kill'),
    ('irradiance-plus-perihelion', RAD, '  return mean_irradiance + variation * jnp.cos(orbital_phase - perihelion)', '  return mean_irradiance + variation * jnp.cos(orbital_phase + perihelion)', 'kill'),
    ('irradiance-product', RAD, '  return mean_irradiance + variation * jnp.cos(orbital_phase - perihelion)', '  return mean_irradiance * variation * jnp.cos(orbital_phase - perihelion)', 'kill'),
    ('irradiance-equiv', RAD, '  return mean_irradiance + variation * jnp.cos(orbital_phase - perihelion)', '  anomaly = orbital_phase - perihelion\n  return jnp.cos(anomaly) * variation + mean_irradiance', 'equiv'),
    ('constants-swapped-magnitude', RAD, 'SOLAR_IRRADIANCE_VARIATION = 47 * units.W / units.meter**2', 'SOLAR_IRRADIANCE_VARIATION = 4700 * units.W / units.meter**2', 'kill'),
    ('constants-unit-mismatch', RAD, 'SOLAR_IRRADIANCE_VARIATION = 47 * units.W / units.meter**2', 'SOLAR_IRRADIANCE_VARIATION = 47 * units.kW / units.meter**2', 'kill'),
    ('default-variation-is-tsi', RAD, '    variation: Numeric = SOLAR_IRRADIANCE_VARIATION,\n    perihelion', '    variation: Numeric = TOTAL_SOLAR_IRRADIANCE,\n    perihelion', 'kill'),
    ('altitude-missing-cos-dec', RAD, '  first_term = jnp.cos(latitude) * jnp.cos(declination) * jnp.cos(hour_angle)', '  first_term = jnp.cos(latitude) * declination * jnp.cos(hour_angle)', 'kill'),
    ('altitude-second-term-cos', RAD, '  second_term = jnp.sin(latitude) * jnp.sin(declination)', '  second_term = jnp.sin(latitude) * jnp.cos(declination)', 'kill'),
    ('altitude-sum-doubled', RAD, '  return first_term + second_term', '  return first_term + 2 * second_term', 'kill'),
    ('altitude-equiv-order', RAD, '  return first_term + second_term', '  return second_term + first_term', 'equiv'),
    ('hour-angle-half-day', RAD, '  solar_time = synodic_phase + equation_of_time(orbital_phase) + longitude', '  solar_time = synodic_phase / 2 + equation_of_time(orbital_phase) + longitude', 'kill'),
    ('hour-angle-double-lon', RAD, '  solar_time = synodic_phase + equation_of_time(orbital_phase) + longitude', '  solar_time = synodic_phase + equation_of_time(orbital_phase) + 1.5 * longitude', 'kill'),
    ('eot-not-periodic', RAD, '  b = orbital_phase - SPRING_EQUINOX\n  added_minutes', '  b = (orbital_phase - SPRING_EQUINOX) * 0.99\n  added_minutes', 'kill'),
    ('eot-linear-drift', RAD, '  return 2 * jnp.pi * added_minutes / MINUTES_PER_DAY', '  return 2 * jnp.pi * added_minutes / MINUTES_PER_DAY + 0.001 * orbital_phase', 'kill'),
    ('eot-equiv-coefficients', RAD, '9.87 * jnp.sin(2 * b) - 7.53 * jnp.cos(b) - 1.5 * jnp.sin(b)', '9.9 * jnp.sin(2 * b) - 7.5 * jnp.cos(b) - 1.5 * jnp.sin(b) + 0.2 * jnp.cos(3 * b)', 'equiv'),
    ('declination-raw-phase', RAD, '  return EARTH_AXIS_INCLINATION * jnp.sin(orbital_phase - SPRING_EQUINOX)', '  return EARTH_AXIS_INCLINATION * (orbital_phase - SPRING_EQUINOX)', 'kill'),
    ('declination-degrees', RAD, 'EARTH_AXIS_INCLINATION = 23.45 * jnp.pi / 180  # radians', 'EARTH_AXIS_INCLINATION = 23.45  # radians', 'kill'),
    ('normalized-fn-wrong-scale', RAD, '      variation=variation / scale,\n  )', '      variation=variation / mean_irradiance,\n  )', 'kill'),
    ('normalized-cls-order', RAD, '    scale = this.total_solar_irradiance + this.solar_irradiance_variation\n    this.total_solar_irradiance /= scale\n    this.solar_irradiance_variation /= scale',
     '    this.total_solar_irradiance /= this.total_solar_irradiance + this.solar_irradiance_variation\n    this.solar_irradiance_variation /= this.total_solar_irradiance + this.solar_irradiance_variation', 'kill'),
    ('normalized-cls-equiv', RAD, '    this.total_solar_irradiance /= scale\n    this.solar_irradiance_variation /= scale',
     '    this.solar_irradiance_variation = this.solar_irradiance_variation / scale\n    this.total_solar_irradiance = this.total_solar_irradiance / scale', 'equiv'),
    ('class-lat-lon-swapped', RAD, '        now,\n        self.lon,\n        self.lat,', '        now,\n        self.lat,\n        self.lon,', 'kill'),
    ('class-lat-is-sin', RAD, '    self.lat = np.arcsin(sin_lat)\n    self.orbital_rate', '    self.lat = sin_lat\n    self.orbital_rate', 'kill'),
    ('class-constants-swapped', RAD, '    self.total_solar_irradiance = physics_specs.nondimensionalize(\n        TOTAL_SOLAR_IRRADIANCE\n    )', '    self.total_solar_irradiance = physics_specs.nondimensionalize(\n        SOLAR_IRRADIANCE_VARIATION\n    )', 'kill'),
    ('class-unwrapped-time-equiv', RAD, '    now = self.time_to_orbital_time(time)\n    return get_radiation_flux(', '    now = self.time_to_orbital_time(time)\n    lon = self.lon\n    return get_radiation_flux(', 'equiv'),
    ('kv-no-clamp', HSF, '        np.maximum(0, (self.sigma - self.sigma_b) / (1 - self.sigma_b))\n    )\n    return kv_coeff', '        (self.sigma - self.sigma_b) / (1 - self.sigma_b)\n    )\n    return kv_coeff', 'kill'),
    ('kv-minimum', HSF, '        np.maximum(0, (self.sigma - self.sigma_b) / (1 - self.sigma_b))\n    )\n    return kv_coeff', '        np.minimum(0, (self.sigma - self.sigma_b) / (1 - self.sigma_b))\n    )\n    return kv_coeff', 'kill'),
    ('kv-sign-flip-level', HSF, '        np.maximum(0, (self.sigma - self.sigma_b) / (1 - self.sigma_b))\n    )\n    return kv_coeff', '        np.maximum(0, (self.sigma_b - self.sigma) / (1 - self.sigma_b))\n    )\n    return kv_coeff', 'kill'),
    ('kv-shifted-layer', HSF, '        np.maximum(0, (self.sigma - self.sigma_b) / (1 - self.sigma_b))\n    )\n    return kv_coeff', '        np.maximum(0, (self.sigma - self.sigma_b / 2) / (1 - self.sigma_b))\n    )\n    return kv_coeff', 'kill'),
    ('kv-negative', HSF, '    kv_coeff = self.kf * (', '    kv_coeff = -self.kf * (', 'kill'),
    ('kv-equiv', HSF, '    kv_coeff = self.kf * (\n        np.maximum(0, (self.sigma - self.sigma_b) / (1 - self.sigma_b))\n    )', '    depth = (self.sigma - self.sigma_b) / (1 - self.sigma_b)\n    kv_coeff = np.maximum(depth, 0) * self.kf', 'equiv'),
    ('kt-odd-cos-power', HSF, 'cutoff[:, np.newaxis, np.newaxis] * np.cos(self.lat) ** 4', 'cutoff[:, np.newaxis, np.newaxis] * np.cos(self.lat) ** 3 * 2', 'kill'),
    ('kt-unclamped', HSF, '    cutoff = np.maximum(0, (self.sigma - self.sigma_b) / (1 - self.sigma_b))', '    cutoff = (self.sigma - self.sigma_b) / (1 - self.sigma_b)', 'kill'),
    ('kt-minus-ka', HSF, '    return self.ka + (self.ks - self.ka) * (', '    return -self.ka + (self.ks - self.ka) * (', 'kill'),
    ('kt-double-difference', HSF, '    return self.ka + (self.ks - self.ka) * (', '    return self.ka + (self.ks - 2 * self.ka) * (', 'kill'),
    ('kt-equiv-swapped-form', HSF, '    return self.ka + (self.ks - self.ka) * (\n        cutoff[:, np.newaxis, np.newaxis] * np.cos(self.lat) ** 4\n    )', '    shape = cutoff[:, np.newaxis, np.newaxis] * np.cos(self.lat) ** 4\n    return self.ks * shape + self.ka * (1 - shape)', 'equiv'),
    ('teq-minimum', HSF, '    return jnp.maximum(self.minT, temperature)', '    return jnp.minimum(self.minT, temperature)', 'kill'),
    ('teq-no-floor', HSF, '    return jnp.maximum(self.minT, temperature)', '    return temperature', 'kill'),
    ('teq-floor-is-max', HSF, '    return jnp.maximum(self.minT, temperature)', '    return jnp.maximum(self.maxT, temperature)', 'kill'),
    ('teq-equiv-where', HSF, '    return jnp.maximum(self.minT, temperature)', '    return jnp.where(temperature > self.minT, temperature, self.minT)', 'equiv'),
    ('teq-equiv-order', HSF, '    return jnp.maximum(self.minT, temperature)', '    return jnp.maximum(temperature, self.minT)', 'equiv'),
    ('drag-positive', HSF, '        lambda x: -self.kv() * x / self.coords.horizontal.cos_lat**2,', '        lambda x: self.kv() * x / self.coords.horizontal.cos_lat**2,', 'kill'),
    ('drag-no-metric', HSF, '        lambda x: -self.kv() * x / self.coords.horizontal.cos_lat**2,', '        lambda x: -self.kv() * x / self.coords.horizontal.cos_lat,', 'kill'),
    ('drag-quadratic', HSF, '        lambda x: -self.kv() * x / self.coords.horizontal.cos_lat**2,', '        lambda x: -self.kv() * x * jnp.abs(x) / self.coords.horizontal.cos_lat**2,', 'kill'),
    ('drag-uses-kt', HSF, '        lambda x: -self.kv() * x / self.coords.horizontal.cos_lat**2,', '        lambda x: -self.kt() * x / self.coords.horizontal.cos_lat**2,', 'kill'),
    ('drag-equiv', HSF, '        lambda x: -self.kv() * x / self.coords.horizontal.cos_lat**2,', '        lambda x: -(x * self.kv()) * self.coords.horizontal.sec2_lat,', 'equiv'),
    ('vor-div-swapped', HSF, '    vorticity_tendency = self.coords.horizontal.curl_cos_lat(velocity_tendency)\n    divergence_tendency = self.coords.horizontal.div_cos_lat(velocity_tendency)',
     '    vorticity_tendency = self.coords.horizontal.div_cos_lat(velocity_tendency)\n    divergence_tendency = self.coords.horizontal.curl_cos_lat(velocity_tendency)', 'kill'),
    ('relax-wrong-sign', HSF, '    nodal_temperature_tendency = -self.kt() * (nodal_temperature - Teq)', '    nodal_temperature_tendency = self.kt() * (nodal_temperature - Teq)', 'kill'),
    ('relax-variation-only', HSF, '    nodal_temperature_tendency = -self.kt() * (nodal_temperature - Teq)', '    nodal_temperature_tendency = -self.kt() * (aux_state.temperature_variation - Teq)', 'kill'),
    ('relax-equiv', HSF, '    nodal_temperature_tendency = -self.kt() * (nodal_temperature - Teq)', '    nodal_temperature_tendency = self.kt() * (Teq - nodal_temperature)', 'equiv'),
    ('relax-log-pressure', HSF, '    Teq = self.equilibrium_temperature(nodal_surface_pressure)', '    Teq = self.equilibrium_temperature(nodal_log_surface_pressure)', 'kill'),
    ('lsp-tendency-nonzero', HSF, '    log_surface_pressure_tendency = jnp.zeros_like(state.log_surface_pressure)', '    log_surface_pressure_tendency = -self.ka * state.log_surface_pressure', 'kill'),
    ('lsp-equiv', HSF, '    log_surface_pressure_tendency = jnp.zeros_like(state.log_surface_pressure)', '    log_surface_pressure_tendency = 0 * state.log_surface_pressure', 'equiv'),
    ('init-lat-cos', HSF, '    self.lat = np.arcsin(sin_lat)', '    self.lat = np.arccos(sin_lat)', 'kill'),
]

RECIPES['C11'] += [
    ('clock-snap-divides', TI, '    state.sim_time = dt * jnp.round(state.sim_time / dt)', '    state.sim_time = dt / jnp.round(state.sim_time / dt)', 'kill'),
    ('clock-snap-floor', TI, '    state.sim_time = dt * jnp.round(state.sim_time / dt)', '    state.sim_time = dt * jnp.round(state.sim_time / dt + 1)', 'kill'),
    ('clock-snap-equiv', TI, '    state.sim_time = dt * jnp.round(state.sim_time / dt)', '    steps = jnp.round(state.sim_time / dt)\n    state.sim_time = steps * dt', 'equiv'),
]
RECIPES['C15'] += [
    ('diffstep-index-beyond-top', TI, 'top_eigenvalue = eigenvalues[grid.total_wavenumbers - 1]', 'top_eigenvalue = eigenvalues[grid.total_wavenumbers + 1]', 'kill'),
    ('diffstep-index-below-top', TI, 'top_eigenvalue = eigenvalues[grid.total_wavenumbers - 1]', 'top_eigenvalue = eigenvalues[grid.total_wavenumbers - 2]', 'kill'),
    ('diffstep-index-equiv', TI, 'top_eigenvalue = eigenvalues[grid.total_wavenumbers - 1]', 'top = grid.total_wavenumbers - 1\n  top_eigenvalue = eigenvalues[top]', 'equiv'),
]

SHF2 = 'dinosaur/spherical_harmonic.py'
RECIPES['C01'] += [
    ('factory-too-few-nodes', SHF2, 'return cls.construct(max_wavenumber=85, gaussian_nodes=64, **kwargs)', 'return cls.construct(max_wavenumber=85, gaussian_nodes=60, **kwargs)', 'kill'),
    ('factory-name-mismatch', SHF2, 'return cls.construct(max_wavenumber=42, gaussian_nodes=32, **kwargs)', 'return cls.construct(max_wavenumber=43, gaussian_nodes=32, **kwargs)', 'kill'),
    ('factory-drops-options', SHF2, 'return cls.construct(max_wavenumber=42, gaussian_nodes=32, **kwargs)', 'return cls.construct(max_wavenumber=42, gaussian_nodes=32)', 'kill'),
    ('factory-more-nodes-equiv', SHF2, 'return cls.construct(max_wavenumber=42, gaussian_nodes=32, **kwargs)', 'return cls.construct(max_wavenumber=42, gaussian_nodes=36, **kwargs)', 'equiv'),
    ('construct-halves-longitudes', SHF2, '        longitude_nodes=4 * gaussian_nodes,', '        longitude_nodes=2 * gaussian_nodes,', 'kill'),
    ('with-wavenumbers-order', SHF2, "order = {'linear': 2, 'quadratic': 3, 'cubic': 4}[dealiasing]", "order = {'linear': 2, 'quadratic': 2, 'cubic': 4}[dealiasing]", 'kill'),
    ('sec2-plus', SHF2, '    return 1 / (1 - sin_lat**2)', '    return 1 / (1 + sin_lat**2)', 'kill'),
    ('cos-lat-two', SHF2, '    return np.sqrt(1 - sin_lat**2)', '    return np.sqrt(2 - sin_lat**2)', 'kill'),
    ('sec2-equiv', SHF2, '    return 1 / (1 - sin_lat**2)', '    cos2 = (1 - sin_lat) * (1 + sin_lat)\n    return 1 / cos2', 'equiv'),
]

PEF2 = 'dinosaur/primitive_equations.py'
RECIPES['C04'] += [
    ('cloud-term-sign', PEF2, '    coefficient = -self.T_ref * self.physics_specs.R\n', '    coefficient = self.T_ref * self.physics_specs.R\n', 'kill'),
    ('cloud-term-rvapor', PEF2, '    coefficient = -self.T_ref * self.physics_specs.R\n', '    coefficient = -self.T_ref * self.physics_specs.R_vapor\n', 'kill'),
    ('cloud-div-added-not-subtracted', PEF2, '        state, aux_state\n    ) - self.coords.horizontal.to_modal(nodal_div_term)', '        state, aux_state\n    ) + self.coords.horizontal.to_modal(nodal_div_term)', 'kill'),
    ('cloud-curl-subtracted', PEF2, '        state, aux_state\n    ) + self.coords.horizontal.to_modal(nodal_curl_term)', '        state, aux_state\n    ) - self.coords.horizontal.to_modal(nodal_curl_term)', 'kill'),
    ('cloud-curl-components-swapped', PEF2, '            nodal_cos_lat_grad_log_sp[0] * nodal_cos_lat_grad_c[1]\n            - nodal_cos_lat_grad_log_sp[1] * nodal_cos_lat_grad_c[0]', '            nodal_cos_lat_grad_log_sp[1] * nodal_cos_lat_grad_c[0]\n            - nodal_cos_lat_grad_log_sp[0] * nodal_cos_lat_grad_c[1]', 'kill'),
    ('cloud-div-no-sec2', PEF2, '        nodal_condensate * nodal_laplacian_lsp\n        + grid.sec2_lat\n        * (', '        nodal_condensate * nodal_laplacian_lsp\n        + 1.0\n        * (', 'kill'),
    ('humidity-curl-coefficient', PEF2, '    coefficient = self.T_ref * (physics_specs.R_vapor - physics_specs.R)\n    nodal_curl_term = (', '    coefficient = self.T_ref * (physics_specs.R_vapor + physics_specs.R)\n    nodal_curl_term = (', 'kill'),
    ('virtual-temperature-cloud-sign', PEF2, '            - self._get_cloud_water(aux_state)\n            - self._get_cloud_ice(aux_state)', '            - self._get_cloud_water(aux_state)\n            + self._get_cloud_ice(aux_state)', 'kill'),
    ('cloud-terms-equiv', PEF2, '    coefficient = -self.T_ref * self.physics_specs.R\n', '    gas_constant = self.physics_specs.R\n    coefficient = -(gas_constant * self.T_ref)\n', 'equiv'),
]

RECIPES['C05'] += [
    ('div-sec-lat-divides', PEF2, '  m_component = grid.to_modal(m_component * grid.sec2_lat)', '  m_component = grid.to_modal(m_component / grid.sec2_lat)', 'kill'),
    ('div-sec-lat-swapped', PEF2, '  return grid.div_cos_lat((m_component, n_component), clip=False)', '  return grid.div_cos_lat((n_component, m_component), clip=False)', 'kill'),
]

# round 3
RECIPES['C08'] += [
    ('upwind-relu', 'dinosaur/sigma_coordinates.py', "  return -(jnp.maximum(w_up, 0) * x_diff_up +\n           jnp.minimum(w_down, 0) * x_diff_down)", "  return -(jax.nn.relu(w_up) * x_diff_up -\n           jax.nn.relu(-w_down) * x_diff_down)", 'kill'),
    ('upwind-equiv-swapped-max', 'dinosaur/sigma_coordinates.py', "  return -(jnp.maximum(w_up, 0) * x_diff_up +\n           jnp.minimum(w_down, 0) * x_diff_down)", "  w_plus = jnp.maximum(0, w_up)\n  w_minus = jnp.minimum(0, w_down)\n  return -(w_plus * x_diff_up + w_minus * x_diff_down)", 'equiv'),
    ('interp-custom-jvp-drops-coordinates', 'dinosaur/vertical_interpolation.py', "@jax.jit\ndef interp(\n    x: typing.Numeric, xp: typing.Array, fp: typing.Array\n) -> jnp.ndarray:\n  \"\"\"Optimized version of jnp.interp.\"\"\"\n",
     "@jax.custom_jvp\ndef interp(\n    x: typing.Numeric, xp: typing.Array, fp: typing.Array\n) -> jnp.ndarray:\n  \"\"\"Optimized version of jnp.interp.\"\"\"\n  return _interp_impl(x, xp, fp)\n\n\n@interp.defjvp\ndef _interp_rule(primals, tangents):\n  x, xp, fp = primals\n  fp_dot = tangents[2]\n  return interp(x, xp, fp), interp(x, xp, fp_dot)\n\n\ndef _interp_impl(x, xp, fp):\n", 'kill'),
    ('interp-custom-jvp-complete', 'dinosaur/vertical_interpolation.py', "@jax.jit\ndef interp(\n    x: typing.Numeric, xp: typing.Array, fp: typing.Array\n) -> jnp.ndarray:\n  \"\"\"Optimized version of jnp.interp.\"\"\"\n",
     "@jax.custom_jvp\ndef interp(\n    x: typing.Numeric, xp: typing.Array, fp: typing.Array\n) -> jnp.ndarray:\n  \"\"\"Optimized version of jnp.interp.\"\"\"\n  return _interp_impl(x, xp, fp)\n\n\n@interp.defjvp\ndef _interp_rule(primals, tangents):\n  return jax.jvp(_interp_impl, primals, tangents)\n\n\ndef _interp_impl(x, xp, fp):\n", 'equiv'),
]
RECIPES['C04'] += [
    ('explicit-stencil-thickness-weighted', 'dinosaur/sigma_coordinates.py', "  return -0.5 * (\n      lax.slice_in_dim(w_times_x_diff, 1, None, axis=axis)\n      + lax.slice_in_dim(w_times_x_diff, 0, -1, axis=axis)\n  )",
     "  return -0.5 * (\n      1.1 * lax.slice_in_dim(w_times_x_diff, 1, None, axis=axis)\n      + 0.9 * lax.slice_in_dim(w_times_x_diff, 0, -1, axis=axis)\n  )", 'kill'),
    ('default-advection-upwind', 'dinosaur/primitive_equations.py', "  vertical_advection: Callable[..., jax.Array] = (\n      sigma_coordinates.centered_vertical_advection\n  )", "  vertical_advection: Callable[..., jax.Array] = (\n      sigma_coordinates.upwind_vertical_advection\n  )", 'kill'),
    ('explicit-stencil-equiv', 'dinosaur/sigma_coordinates.py', "  return -0.5 * (\n      lax.slice_in_dim(w_times_x_diff, 1, None, axis=axis)\n      + lax.slice_in_dim(w_times_x_diff, 0, -1, axis=axis)\n  )",
     "  below = lax.slice_in_dim(w_times_x_diff, 1, None, axis=axis)\n  above = lax.slice_in_dim(w_times_x_diff, 0, -1, axis=axis)\n  return -(above + below) / 2", 'equiv'),
]
SHF3 = 'dinosaur/spherical_harmonic.py'
_CLIP_OLD = "      num_zeros = n + self.modal_padding[-1]\n      mask = jnp.ones(self.modal_shape[-1], x.dtype).at[-num_zeros:].set(0)\n      return x * mask"
RECIPES['C07'] += [
    ('clip-fastpath-general-n-ignores-padding', SHF3, _CLIP_OLD, "      if n == 1:\n        return x * jnp.asarray(np.arange(self.modal_shape[-1]) < self.total_wavenumbers - 1, x.dtype)\n      mask = jnp.ones(self.modal_shape[-1], x.dtype).at[-n:].set(0)\n      return x * mask", 'kill'),
    ('clip-fastpath-correct', SHF3, _CLIP_OLD, "      if n == 1:\n        return x * jnp.asarray(np.arange(self.modal_shape[-1]) < self.total_wavenumbers - 1, x.dtype)\n      num_zeros = n + self.modal_padding[-1]\n      mask = jnp.ones(self.modal_shape[-1], x.dtype).at[-num_zeros:].set(0)\n      return x * mask", 'equiv'),
    ('clip-fastpath-wrong-n1', SHF3, _CLIP_OLD, "      if n == 1:\n        return x * jnp.asarray(np.arange(self.modal_shape[-1]) < self.total_wavenumbers, x.dtype)\n      num_zeros = n + self.modal_padding[-1]\n      mask = jnp.ones(self.modal_shape[-1], x.dtype).at[-num_zeros:].set(0)\n      return x * mask", 'kill'),
    ('sparse-row-weights', 'dinosaur/primitive_equations.py', "    up_weights = np.concatenate([[0], weights[1:, 0] / thickness[0]])", "    up_weights = np.concatenate([[0], (weights / thickness[:, np.newaxis])[1:, 0]])", 'kill'),
]
RECIPES['C02'] += [
    ('clip-fastpath-general-n-ignores-padding', SHF3, _CLIP_OLD, "      if n == 1:\n        return x * jnp.asarray(np.arange(self.modal_shape[-1]) < self.total_wavenumbers - 1, x.dtype)\n      mask = jnp.ones(self.modal_shape[-1], x.dtype).at[-n:].set(0)\n      return x * mask", 'kill'),
    ('clip-fastpath-correct', SHF3, _CLIP_OLD, "      if n == 1:\n        return x * jnp.asarray(np.arange(self.modal_shape[-1]) < self.total_wavenumbers - 1, x.dtype)\n      num_zeros = n + self.modal_padding[-1]\n      mask = jnp.ones(self.modal_shape[-1], x.dtype).at[-num_zeros:].set(0)\n      return x * mask", 'equiv'),
    ('construct-drops-radius', SHF3, "        latitude_nodes=2 * gaussian_nodes,\n        latitude_spacing=latitude_spacing,\n        longitude_offset=longitude_offset,\n        spherical_harmonics_impl=spherical_harmonics_impl,\n        radius=radius,\n    )", "        latitude_nodes=2 * gaussian_nodes,\n        latitude_spacing=latitude_spacing,\n        longitude_offset=longitude_offset,\n        spherical_harmonics_impl=spherical_harmonics_impl,\n    )", 'kill'),
    ('with-wavenumbers-unit-radius', SHF3, "        latitude_nodes=latitude_nodes,\n        latitude_spacing=latitude_spacing,\n        longitude_offset=longitude_offset,\n        spherical_harmonics_impl=spherical_harmonics_impl,\n        radius=radius,\n    )", "        latitude_nodes=latitude_nodes,\n        latitude_spacing=latitude_spacing,\n        longitude_offset=longitude_offset,\n        spherical_harmonics_impl=spherical_harmonics_impl,\n        radius=1.0,\n    )", 'kill'),
    ('t21-no-kwargs', SHF3, "  def T21(cls, **kwargs) -> Grid:\n    return cls.construct(max_wavenumber=21, gaussian_nodes=16, **kwargs)", "  def T21(cls, **kwargs) -> Grid:\n    return cls.construct(max_wavenumber=21, gaussian_nodes=16)", 'kill'),
]
RECIPES['C09'] += [
    ('vertical-pad-front', SHF3, "  return jnp.pad(field, [(0, z_padding), (0, 0), (0, 0)]), z_padding", "  return jnp.pad(field, [(z_padding, 0), (0, 0), (0, 0)]), z_padding", 'kill'),
    ('vertical-pad-equiv-helper', SHF3, "  return jnp.pad(field, [(0, z_padding), (0, 0), (0, 0)]), z_padding", "  return jax_numpy_utils.pad_in_dim(field, (0, z_padding), axis=0), z_padding", 'equiv'),
]
_DFI_OLD = "  w = np.sinc(n / (N + 1)) * np.sinc(n * time_span / (cutoff_period * N))\n  return w"
RECIPES['C14'] += [
    ('dfi-lowpass-ratio-inverted', TI, _DFI_OLD, "  w = np.sinc(n / (N + 1)) * np.sinc((n / N) * (cutoff_period / time_span))\n  return w", 'kill'),
    ('dfi-window-N', TI, _DFI_OLD, "  w = np.sinc(n / N) * np.sinc(n * time_span / (cutoff_period * N))\n  return w", 'kill'),
    ('dfi-weights-from-zero', TI, "  n = np.arange(1, N + 1)\n  w = np.sinc(n / (N + 1))", "  n = np.arange(0, N + 1)\n  w = np.sinc(n / (N + 1))", 'kill'),
    ('dfi-truncated-count', TI, "  N = round(time_span / (2 * dt))", "  N = int(time_span / (2 * dt))", 'kill'),
    ('dfi-equiv-split', TI, _DFI_OLD, "  window = np.sinc(n / (N + 1))\n  low_pass = np.sinc((n / N) * (time_span / cutoff_period))\n  return window * low_pass", 'equiv'),
    ('dfi-equiv-rint', TI, "  N = round(time_span / (2 * dt))", "  N = int(np.rint(0.5 * time_span / dt))", 'equiv'),
]
RECIPES['C12'] += [
    ('dfi-truncated-count', TI, "  N = round(time_span / (2 * dt))", "  N = int(time_span / (2 * dt))", 'kill'),
    ('dfi-floor-count', TI, "  N = round(time_span / (2 * dt))", "  N = int(time_span // (2 * dt))", 'kill'),
    ('grid-radius-not-compared', SHF3, "  radius: float | None = None\n  spherical_harmonics_impl", "  radius: float | None = dataclasses.field(default=None, compare=False)\n  spherical_harmonics_impl", 'kill'),
    ('grid-offset-not-compared', SHF3, "  longitude_offset: float = 0.0\n  radius: float | None = None", "  longitude_offset: float = dataclasses.field(default=0.0, compare=False)\n  radius: float | None = None", 'kill'),
    ('grid-radius-explicit-field-equiv', SHF3, "  radius: float | None = None\n  spherical_harmonics_impl", "  radius: float | None = dataclasses.field(default=None)\n  spherical_harmonics_impl", 'equiv'),
]
RECIPES['C16'] += [
    ('nan-allowance-one-percent', 'dinosaur/horizontal_interpolation.py', "jnp.isclose(not_null_fraction, 1, rtol=1e-3)", "jnp.isclose(not_null_fraction, 1, rtol=1e-2)", 'kill'),
    ('nan-allowance-atol', 'dinosaur/horizontal_interpolation.py', "jnp.isclose(not_null_fraction, 1, rtol=1e-3)", "jnp.isclose(not_null_fraction, 1, rtol=1e-3, atol=0.05)", 'kill'),
    ('nan-allowance-tighter-equiv', 'dinosaur/horizontal_interpolation.py', "jnp.isclose(not_null_fraction, 1, rtol=1e-3)", "jnp.isclose(not_null_fraction, 1, rtol=1e-3, atol=1e-8)", 'equiv'),
]
RECIPES['C20'] += [
    ('solar-lon-from-implementation', 'dinosaur/radiation.py', "    self.lon, sin_lat = self.coords.horizontal.nodal_mesh\n    self.lat = np.arcsin(sin_lat)", "    lon, sin_lat = self.coords.horizontal.spherical_harmonics.nodal_axes\n    self.lon, self.lat = np.meshgrid(lon, np.arcsin(sin_lat), indexing='ij')", 'kill'),
    ('solar-lon-from-grid-axes-equiv', 'dinosaur/radiation.py', "    self.lon, sin_lat = self.coords.horizontal.nodal_mesh\n    self.lat = np.arcsin(sin_lat)", "    lon, sin_lat = self.coords.horizontal.nodal_axes\n    self.lon, sin_lat = np.meshgrid(lon, sin_lat, indexing='ij')\n    self.lat = np.arcsin(sin_lat)", 'equiv'),
]
_SW_TM = "    bge = self.coords.horizontal.to_modal(bge_nodal)\n"
RECIPES['C10'] += [
    ('sw-flatten-unflatten-wrong-order', 'dinosaur/shallow_water.py', _SW_TM, "    terms, layers = bge_nodal.shape[:2]\n    bge = self.coords.horizontal.to_modal(\n        bge_nodal.reshape((terms * layers,) + bge_nodal.shape[2:]))\n    bge = bge.reshape((layers, terms) + bge.shape[1:]).swapaxes(0, 1)\n", 'kill'),
    ('sw-flatten-unflatten-equiv', 'dinosaur/shallow_water.py', _SW_TM, "    terms, layers = bge_nodal.shape[:2]\n    bge = self.coords.horizontal.to_modal(\n        bge_nodal.reshape((terms * layers,) + bge_nodal.shape[2:]))\n    bge = bge.reshape((terms, layers) + bge.shape[1:])\n", 'equiv'),
]
_MAT_HEAD = "  \"\"\"Returns a matrix corresponding to `PrimitiveEquations.implicit_terms`.\"\"\"\n\n  # First we construct matrices that will be building blocks for the larger\n  # implicit term matrix.\n"
_MAT_TAIL = "  return np.concatenate((row0, row1, row2), axis=1)\n\n\ndef div_sec_lat("
RECIPES['C03'] += [
    ('matrix-memo-key-by-shapes', 'dinosaur/primitive_equations.py', _MAT_TAIL, "  matrix = np.concatenate((row0, row1, row2), axis=1)\n  _MATRIX_MEMO[(float(eta), coords.horizontal.modal_shape, coords.vertical.layers, tuple(reference_temperature), kappa, ideal_gas_constant)] = matrix\n  return matrix\n\n\n_MATRIX_MEMO = {}\n\n\ndef div_sec_lat(", 'kill'),
    ('matrix-memo-complete-key', 'dinosaur/primitive_equations.py', _MAT_TAIL, "  matrix = np.concatenate((row0, row1, row2), axis=1)\n  _MATRIX_MEMO[(float(eta), coords, tuple(reference_temperature), kappa, ideal_gas_constant)] = matrix\n  return matrix\n\n\n_MATRIX_MEMO = {}\n\n\ndef div_sec_lat(", 'equiv'),
]
_UPDIV_OLD = "    up_divergence = (\n        jax_numpy_utils.cumsum(weighted_divergence, axis=0, sharding=sharding)\n        - weighted_divergence\n    )\n"
_UPDIV_VJP = ("\n    @jax.custom_vjp\n    def sum_over_layers_above(d):\n      wd = thickness[:, np.newaxis, np.newaxis] * d\n      return jax_numpy_utils.cumsum(wd, axis=0, sharding=sharding) - wd\n\n"
              "    def _sum_above_bwd(_, ct):\n%s\n\n"
              "    sum_over_layers_above.defvjp(\n        lambda d: (sum_over_layers_above(d), None), _sum_above_bwd\n    )\n    up_divergence = sum_over_layers_above(divergence)\n")
RECIPES['C08'] += [
    ('custom-vjp-weights-before-reverse-cumsum', 'dinosaur/primitive_equations.py', _UPDIV_OLD,
     _UPDIV_VJP % "      wct = thickness[:, np.newaxis, np.newaxis] * ct\n      return (\n          jax_numpy_utils.reverse_cumsum(wct, axis=0, sharding=sharding) - wct,\n      )", 'kill'),
    ('custom-vjp-forward-cumsum-as-transpose', 'dinosaur/primitive_equations.py', _UPDIV_OLD,
     _UPDIV_VJP % "      return (\n          thickness[:, np.newaxis, np.newaxis] * (jax_numpy_utils.cumsum(ct, axis=0, sharding=sharding) - ct),\n      )", 'kill'),
    ('custom-vjp-correct-transpose', 'dinosaur/primitive_equations.py', _UPDIV_OLD,
     _UPDIV_VJP % "      above = jax_numpy_utils.reverse_cumsum(ct, axis=0, sharding=sharding) - ct\n      return (thickness[:, np.newaxis, np.newaxis] * above,)", 'equiv'),
]
_TOPEIG = "  top_eigenvalue = eigenvalues[grid.total_wavenumbers - 1]"
RECIPES['C07'] += [
    ('top-mode-skips-zonal-padding', TI, _TOPEIG, "  top_eigenvalue = eigenvalues[-1 - grid.modal_padding[0]]", 'kill'),
    ('top-mode-skips-total-padding-equiv', TI, _TOPEIG, "  top_eigenvalue = eigenvalues[-1 - grid.modal_padding[1]]", 'equiv'),
]
RECIPES['C15'] += [
    ('top-mode-skips-total-padding-equiv', TI, _TOPEIG, "  top_eigenvalue = eigenvalues[-1 - grid.modal_padding[1]]", 'equiv'),
    ('top-mode-skips-zonal-padding', TI, _TOPEIG, "  top_eigenvalue = eigenvalues[-1 - grid.modal_padding[0]]", 'kill'),
]
RECIPES['C09'] += [
    ('filter-normalised-by-padded-extent', 'dinosaur/filtering.py', "  k = total_wavenumber / total_wavenumber.max()", "  k = total_wavenumber / (len(total_wavenumber) - 1)", 'kill'),
]
RECIPES['C12'] += [
    ('diffusion-normalised-by-bare-wavenumber', TI, "  scale = dt / (tau * abs(top_eigenvalue) ** order)", "  top = grid.total_wavenumbers - 1\n  scale = dt / (tau * (top * (top + 1)) ** order)", 'kill'),
]
RECIPES['C04'] += [
    ('omega-over-p-roll-wraps', 'dinosaur/primitive_equations.py', "    padding = [(1, 0), (0, 0), (0, 0)]\n    g_part = (alpha * f + jnp.pad(alpha * f, padding)[:-1, ...]) / del_𝜎", "    g_part = (alpha * f + jnp.roll(alpha * f, 1, axis=0)) / del_𝜎", 'kill'),
]
RECIPES['C06'] += [
    ('imex-needed-later-off-by-one', TI, "      if any(a_ex[j][i] for j in range(i, num_steps - 1)) or b_ex[i]:\n        f[i] = F(Y)", "      if any(a_ex[j][i] for j in range(i + 1, num_steps - 1)) or b_ex[i]:\n        f[i] = F(Y)\n      else:\n        f[i] = 0 * y0", 'kill'),
]
