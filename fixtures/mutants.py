"""Source-variant recipes for the sensitivity sweep (thorough tier / self-test).

(name, file, old text, new text, 'kill' | 'equiv').  'kill' variants break the
property and the rules must fire on them; 'equiv' variants are behaviour-
preserving rewrites on which the rules must stay silent.
"""
TI = 'dinosaur/time_integration.py'
RECIPES = {}

RECIPES['C06'] = [
    ('guard-chained-neq', TI, 'if not (len(alphas) - 1 == len(betas) == len(gammas)):', 'if len(alphas) - 1 != len(betas) != len(gammas):', 'kill'),
    ('guard-drops-gammas', TI, 'if not (len(alphas) - 1 == len(betas) == len(gammas)):', 'if len(alphas) - 1 != len(betas):', 'kill'),
    ('guard-equiv-set', TI, 'if not (len(alphas) - 1 == len(betas) == len(gammas)):', 'if len({len(alphas) - 1, len(betas), len(gammas)}) != 1:', 'equiv'),
    ('guard-equiv-or', TI, 'if not (len(alphas) - 1 == len(betas) == len(gammas)):', 'if len(alphas) != len(betas) + 1 or len(gammas) != len(betas):', 'equiv'),
    ('tableau-guard-b_im', TI, "            len(self.b_im)}) > 1:", "            len(self.b_ex)}) > 1:", 'kill'),
    ('tableau-guard-offbyone', TI, "    if len({len(self.a_ex) + 1,", "    if len({len(self.a_ex),", 'kill'),
    ('rk3-beta', TI, 'betas=[0, -5/9, -153/128],', 'betas=[0, -4/9, -153/128],', 'kill'),
    ('rk3-alpha-thirds', TI, 'alphas=[0, 1/3, 3/4, 1],', 'alphas=[0, 1/3, 2/3, 1],', 'kill'),
    ('rk3-equiv-spelling', TI, 'alphas=[0, 1/3, 3/4, 1],', 'alphas=[0.0, 2/6, 0.75, 1.0],', 'equiv'),
    ('rk4-digit', TI, '0.3792103129999', '0.3792113129999', 'kill'),
    ('rk4-alpha', TI, '0.6222557631345, 0.9582821306748, 1]', '0.6222557631345, 0.9482821306748, 1]', 'kill'),
    ('sil3-b_im', TI, 'b_im=[3/8, 0, 3/8, 1/4],', 'b_im=[3/8, 0, 1/4, 3/8],', 'kill'),
    ('sil3-a_ex', TI, 'a_ex=[[1/3], [1/6, 1/2], [1/2, -1/2, 1]],', 'a_ex=[[1/3], [1/6, 1/3], [1/2, -1/2, 1]],', 'kill'),
    ('sil3-unstable-diag', TI, 'a_im=[[1/6, 1/6], [1/3, 0, 1/3], [3/8, 0, 3/8, 1/4]],', 'a_im=[[1/2, -1/6], [1/3, 0, 1/3], [3/8, 0, 3/8, 1/4]],', 'kill'),
    ('rk2-one-sided-half', TI, '    u2 = G_inv(g + dt * h2, 0.5 * dt)', '    u2 = G_inv(g + dt * h2, dt)', 'kill'),
    ('rk2-heun-weight', TI, '    h2 = 0.5 * (F(u1) + h1)', '    h2 = 0.5 * F(u1) + h1', 'kill'),
    ('rk2-equiv-reorder', TI, '    g = u0 + 0.5 * dt * G(u0)\n    h1 = F(u0)', '    h1 = F(u0)\n    half = dt / 2\n    g = half * G(u0) + u0', 'equiv'),
    ('euler-weight', TI, '    u1 = G_inv(g, dt)', '    u1 = G_inv(g, 0.5 * dt)', 'kill'),
    ('leapfrog-alpha-default', TI, '    alpha: float = 0.5,\n) -> TimeStepFn:\n  """Constructs a function that performs a semi-implicit leapfrog', '    alpha: float = 0.4,\n) -> TimeStepFn:\n  """Constructs a function that performs a semi-implicit leapfrog', 'kill'),
    ('leapfrog-eta', TI, '    eta = 2 * time_step * alpha', '    eta = time_step * alpha', 'kill'),
    ('leapfrog-levels', TI, '    explicit_current = explicit_fn(current)', '    explicit_current = explicit_fn(previous)', 'kill'),
    ('lsrk-mu', TI, '      µ = 0.5 * dt * (α[k + 1] - α[k])', '      µ = 0.5 * dt * (α[k + 1] - α[k - 1])', 'kill'),
    ('lsrk-register', TI, '      h = F(u) + β[k] * h', '      h = F(u) + β[k - 1] * h', 'kill'),
    ('lsrk-cn-onesided', TI, '      u = G_inv(u + γ[k] * dt * h + µ * G(u), µ)', '      u = G_inv(u + γ[k] * dt * h + µ * G(u), 2 * µ)', 'kill'),
    ('imex-diag-index', TI, '      Y = G_inv(Y_star, dt * a_im[i-1][i])', '      Y = G_inv(Y_star, dt * a_im[i-1][i-1])', 'kill'),
    ('imex-ex-row', TI, 'ex_terms = dt * sum(a_ex[i-1][j] * f[j] for j in range(i) if a_ex[i-1][j])', 'ex_terms = dt * sum(a_ex[i-1][j] * f[j] for j in range(i - 1) if a_ex[i-1][j])', 'kill'),
    ('imex-final-b', TI, '    im_terms = dt * sum(b_im[j] * g[j] for j in range(num_steps) if b_im[j])\n    y_next', '    im_terms = dt * sum(b_ex[j] * g[j] for j in range(num_steps) if b_im[j])\n    y_next', 'kill'),
]

FIL = 'dinosaur/filtering.py'
RECIPES['C15'] = [
    ('exp-lost-minus', FIL, 'scaling = jnp.exp((k > c) * (-a * (((k - c) / (1 - c)) ** (2 * p))))', 'scaling = jnp.exp((k > c) * (a * (((k - c) / (1 - c)) ** (2 * p))))', 'kill'),
    ('exp-odd-power', FIL, '** (2 * p))))', '** p)))', 'kill'),
    ('exp-no-indicator', FIL, 'scaling = jnp.exp((k > c) * (-a * (((k - c) / (1 - c)) ** (2 * p))))', 'scaling = jnp.exp(-a * (((k - c) / (1 - c)) ** (2 * p)))', 'kill'),
    ('exp-per-m', FIL, '  _, total_wavenumber = grid.modal_axes\n\n  k = total_wavenumber / total_wavenumber.max()', '  total_wavenumber, _ = grid.modal_axes\n\n  k = total_wavenumber / total_wavenumber.max()', 'kill'),
    ('exp-square-strength', FIL, 'scaling = jnp.exp((k > c) * (-a * (((k - c) / (1 - c)) ** (2 * p))))', 'scaling = jnp.exp((k > c) * (-a * a * (((k - c) / (1 - c)) ** (2 * p))))', 'kill'),
    ('exp-equiv-rewrite', FIL, 'scaling = jnp.exp((k > c) * (-a * (((k - c) / (1 - c)) ** (2 * p))))', 'damping = a * ((k - c) / (1 - c)) ** (2 * p)\n  scaling = jnp.exp(-(k > c) * damping)', 'equiv'),
    ('diff-lost-minus', FIL, 'scaling = jnp.exp(-scale * (-eigenvalues) ** order)', 'scaling = jnp.exp(-scale * eigenvalues ** order)', 'kill'),
    ('diff-amplify', FIL, 'scaling = jnp.exp(-scale * (-eigenvalues) ** order)', 'scaling = jnp.exp(scale * (-eigenvalues) ** order)', 'kill'),
    ('diff-offset', FIL, 'scaling = jnp.exp(-scale * (-eigenvalues) ** order)', 'scaling = jnp.exp(-scale * (1 - eigenvalues) ** order)', 'kill'),
    ('diff-equiv', FIL, 'scaling = jnp.exp(-scale * (-eigenvalues) ** order)', 'decay = scale * jnp.abs(eigenvalues) ** order\n  scaling = jnp.exp(-decay)', 'equiv'),
    ('gate-dropped', FIL, 'rescale = lambda x: scaling * x if _preserves_shape(x, scaling) else x', 'rescale = lambda x: scaling * x', 'kill'),
    ('gate-inverted', FIL, 'rescale = lambda x: scaling * x if _preserves_shape(x, scaling) else x', 'rescale = lambda x: x if _preserves_shape(x, scaling) else scaling * x', 'kill'),
    ('gate-weak', FIL, 'return target_shape == np.broadcast_shapes(target_shape, scaling.shape)', 'return len(target_shape) >= len(scaling.shape)', 'kill'),
    ('step-dt-squared', TI, 'filter_fn = filtering.exponential_filter(grid, dt / tau, order, cutoff)\n  return runge_kutta_step_filter(filter_fn)', 'filter_fn = filtering.exponential_filter(grid, (dt / tau) ** 2, order, cutoff)\n  return runge_kutta_step_filter(filter_fn)', 'kill'),
    ('step-swapped-args', TI, 'filter_fn = filtering.exponential_filter(grid, dt / tau, order, cutoff)\n  return leapfrog_step_filter(filter_fn)', 'filter_fn = filtering.exponential_filter(grid, dt / tau, cutoff, order)\n  return leapfrog_step_filter(filter_fn)', 'kill'),
    ('step-wrong-adapter', TI, 'filter_fn = filtering.exponential_filter(grid, dt / tau, order, cutoff)\n  return leapfrog_step_filter(filter_fn)', 'filter_fn = filtering.exponential_filter(grid, dt / tau, order, cutoff)\n  return runge_kutta_step_filter(filter_fn)', 'kill'),
    ('diffstep-end-index', TI, 'top_eigenvalue = eigenvalues[grid.total_wavenumbers - 1]', 'top_eigenvalue = eigenvalues[-1]', 'kill'),
    ('diffstep-no-order', TI, 'scale = dt / (tau * abs(top_eigenvalue) ** order)', 'scale = dt / (tau * abs(top_eigenvalue))', 'kill'),
    ('diffstep-order-not-forwarded', TI, 'filter_fn = filtering.horizontal_diffusion_filter(grid, scale, order)', 'filter_fn = filtering.horizontal_diffusion_filter(grid, scale)', 'kill'),
    ('ra-weight', TI, 'lambda p, c, f: (1 - 2 * r) * c + r * (p + f),', 'lambda p, c, f: (1 - r) * c + r * (p + f),', 'kill'),
    ('ra-asym', TI, 'lambda p, c, f: (1 - 2 * r) * c + r * (p + f),', 'lambda p, c, f: (1 - 2 * r) * c + 2 * r * p,', 'kill'),
    ('ra-filters-future', TI, '    return (filtered_current, future)\n', '    return (filtered_current, filtered_current)\n', 'kill'),
    ('ra-equiv', TI, 'lambda p, c, f: (1 - 2 * r) * c + r * (p + f),', 'lambda p, c, f: c + r * (p - 2 * c + f),', 'equiv'),
    ('rk-adapter-filters-u', TI, '    del u  # unused\n    return state_filter(u_next)', '    return state_filter(u)', 'kill'),
    ('lf-adapter-filters-both', TI, '    future = state_filter(future)\n    return (current, future)', '    future = state_filter(future)\n    return (state_filter(current), future)', 'kill'),
]
