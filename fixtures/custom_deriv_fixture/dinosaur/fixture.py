"""Positive example for sa/custom_deriv.py (never imported or executed): one complete and three incomplete derivative rules."""
import functools

import jax
import jax.numpy as jnp


@jax.custom_jvp
def complete(x, y):
  return x * jnp.sin(y)


@complete.defjvp
def complete_jvp(primals, tangents):
  x, y = primals
  x_dot, y_dot = tangents
  out = complete(x, y)
  t = x_dot * jnp.sin(y)
  t = t + x * jnp.cos(y) * y_dot
  return out, t


@jax.custom_jvp
def drops_y(x, y):
  return x * jnp.sin(y)


@drops_y.defjvp
def drops_y_jvp(primals, tangents):
  x, y = primals
  x_dot, _ = tangents
  return drops_y(x, y), x_dot * jnp.sin(y)


@functools.partial(jax.custom_jvp, nondiff_argnums=(0,))
def with_static(n, x, y):
  return x ** n + y


@with_static.defjvp
def with_static_jvp(n, primals, tangents):
  x, y = primals
  return with_static(n, x, y), n * x ** (n - 1) * tangents[0]


@jax.custom_vjp
def vjp_zero(x, y):
  return x * y


def vjp_zero_fwd(x, y):
  return x * y, (x, y)


def vjp_zero_bwd(res, g):
  x, y = res
  return g * y, None


vjp_zero.defvjp(vjp_zero_fwd, vjp_zero_bwd)


@jax.custom_jvp
def wholesale(x, y):
  return x + y


@wholesale.defjvp
def wholesale_jvp(primals, tangents):
  return jax.jvp(lambda a, b: a + b, primals, tangents)
