"""Positive example for sa/memo.py (never imported or executed)."""
import numpy as np

_TABLES = {}
_GOOD = {}


def incomplete(coords, eta):
  key = (float(eta), coords.vertical.layers)
  if key in _TABLES:
    return _TABLES[key]
  table = eta * np.diag(coords.vertical.layer_thickness)
  _TABLES[key] = table
  return table


def complete(coords, eta):
  key = (float(eta), coords.vertical)
  if key not in _GOOD:
    _GOOD[key] = eta * np.diag(coords.vertical.layer_thickness)
  return _GOOD[key]
