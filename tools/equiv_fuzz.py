#!/usr/bin/env python3-vt
"""Equivalent-rewrite fuzzing of the rules: every check must stay silent (exit 0) on behaviour-preserving rewrites of /repo.

  tools/equiv_fuzz.py [--n 40] [--seed 0] [--jobs 16] [--props C01,C07] [--modules all|1|2] [--kinds commute,rename,...]
  tools/equiv_fuzz.py --validate --seed 3     # rewrites the whole package in a scratch copy and runs the repository test-suite on it
  tools/equiv_fuzz.py --show --seed 5 --module time_integration   # prints the rewritten module

Variants live in a scratch directory outside /repo and /verif and are removed after use; they are analysed statically only
(except with --validate, which exists to test the rewriter itself).
"""
import argparse
import ast
import concurrent.futures
import json
import os
import random
import shutil
import subprocess
import sys
import tempfile

VERIF = os.path.dirname(os.path.dirname(os.path.abspath(__file__)))
sys.path.insert(0, VERIF)
from sa import equiv, model  # noqa: E402

ALL = [f'C{i:02d}' for i in range(1, 21)]


def make_variant(repo, seed, nmods, kinds, p, root, only=None):
  return equiv.make_variant(repo, seed, root, nmods, kinds, p, only)


def run_check(pid, root):
  env = dict(os.environ, VERIF_NO_EVIDENCE='1')
  p = subprocess.run([sys.executable, '-B', '-m', 'sa.cli', pid, '--repo', root, '--tier', 'quick'], cwd=VERIF, env=env, capture_output=True, text=True, timeout=900)
  out = p.stdout + p.stderr
  first = next((l for l in out.splitlines() if ': [' in l or l.startswith('ANALYSIS')), '')
  return pid, p.returncode, first[:400]


def one(args, seed):
  root = tempfile.mkdtemp(prefix='dinosaur-eq-', dir=os.environ.get('VERIF_SCRATCH') or tempfile.gettempdir())
  try:
    chosen, logs = make_variant(args.repo, seed, args.modules, args.kinds, args.p, root, args.module)
    res = [run_check(pid, root) for pid in args.props]
    bad = [(pid, rc, msg) for pid, rc, msg in res if rc != 0]
    nrew = sum(len(v) for v in logs.values())
    return seed, chosen, nrew, bad
  finally:
    shutil.rmtree(root, ignore_errors=True)


def main():
  ap = argparse.ArgumentParser()
  ap.add_argument('--n', type=int, default=32)
  ap.add_argument('--seed', type=int, default=0)
  ap.add_argument('--jobs', type=int, default=min(16, os.cpu_count() or 4))
  ap.add_argument('--props', default=','.join(ALL))
  ap.add_argument('--modules', default='all')
  ap.add_argument('--module', default=None, help='comma list of module short names to rewrite (overrides --modules)')
  ap.add_argument('--kinds', default=','.join(equiv.KINDS))
  ap.add_argument('--p', type=float, default=0.35)
  ap.add_argument('--repo', default=model.REPO)
  ap.add_argument('--validate', action='store_true')
  ap.add_argument('--show', action='store_true')
  ap.add_argument('--emit', default=None, help='write the variant for --seed (as used in a fuzz run: seed index i → --seed*100003+i) to this directory and stop')
  ap.add_argument('--raw-seed', type=int, default=None)
  args = ap.parse_args()
  args.props = [x.strip().upper() for x in args.props.split(',') if x.strip()]
  args.kinds = tuple(x.strip() for x in args.kinds.split(',') if x.strip())
  args.module = [x.strip() for x in args.module.split(',')] if args.module else None
  if args.emit:
    shutil.rmtree(args.emit, ignore_errors=True)
    os.makedirs(args.emit)
    chosen, logs = make_variant(args.repo, args.raw_seed if args.raw_seed is not None else args.seed, args.modules, args.kinds, args.p, args.emit, args.module)
    print(f'variant written to {args.emit}: {sum(len(v) for v in logs.values())} rewrites')
    return 0
  if args.show:
    root = tempfile.mkdtemp(prefix='dinosaur-eq-')
    try:
      chosen, logs = make_variant(args.repo, args.seed, args.modules, args.kinds, args.p, root, args.module)
      for r in chosen:
        print(f'# ==== {r}  rewrites: {logs[r]}')
        print(open(os.path.join(root, r)).read())
    finally:
      shutil.rmtree(root, ignore_errors=True)
    return 0
  if args.validate:
    root = tempfile.mkdtemp(prefix='dinosaur-eqv-')
    try:
      subprocess.run(['git', '-C', args.repo, 'worktree', 'add', '-f', '--detach', os.path.join(root, 'wt'), 'HEAD'], check=True, capture_output=True)
      wt = os.path.join(root, 'wt')
      tmp = os.path.join(root, 'variant')
      os.makedirs(tmp)
      chosen, logs = make_variant(wt, args.seed, 'all', args.kinds, args.p, tmp, args.module)
      for r in chosen:
        shutil.copy(os.path.join(tmp, r), os.path.join(wt, r))
      print(f'validate: seed {args.seed}: {sum(len(v) for v in logs.values())} rewrites in {len(chosen)} modules; running the test-suite on the rewritten tree …', flush=True)
      p = subprocess.run('/venv/bin/python -m pytest -q -p no:cacheprovider --timeout=900 --continue-on-collection-errors -n 8 2>&1 | grep -E "passed|failed|^FAILED|^ERROR" | tail -12',
                         shell=True, cwd=wt, capture_output=True, text=True)
      print(p.stdout)
    finally:
      subprocess.run(['git', '-C', args.repo, 'worktree', 'remove', '--force', os.path.join(root, 'wt')], capture_output=True)
      shutil.rmtree(root, ignore_errors=True)
    return 0
  seeds = [args.seed * 100003 + i for i in range(args.n)]
  nbad = 0
  with concurrent.futures.ThreadPoolExecutor(max_workers=args.jobs) as ex:
    for seed, chosen, nrew, bad in ex.map(lambda s: one(args, s), seeds):
      tag = 'OK ' if not bad else 'BAD'
      mods = 'all' if len(chosen) > 3 else ','.join(os.path.basename(c)[:-3] for c in chosen)
      print(f'{tag} seed={seed} modules={mods} rewrites={nrew}' + ''.join(f'\n    {pid} rc={rc} {msg}' for pid, rc, msg in bad), flush=True)
      nbad += bool(bad)
  print(f'{len(seeds) - nbad}/{len(seeds)} variants silent')
  return 1 if nbad else 0


if __name__ == '__main__':
  sys.exit(main())
