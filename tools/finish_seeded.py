#!/usr/bin/env python3-vt
"""Builds seeded/<id>/meta.json from the author's notes (meta.agent.json), my own confirmation run (verify.log, written by
tools/verify_seeded.sh) and the detection run (detect.json, written by tools/seeded_matrix.py)."""
import json
import os
import re
import sys

VERIF = os.path.dirname(os.path.dirname(os.path.abspath(__file__)))
root = os.path.join(VERIF, 'seeded')
n = 0
for sid in sorted(os.listdir(root)):
  d = os.path.join(root, sid)
  if not os.path.isfile(os.path.join(d, 'patch.diff')):
    continue
  agent = json.load(open(os.path.join(d, 'meta.agent.json'))) if os.path.exists(os.path.join(d, 'meta.agent.json')) else {}
  log = open(os.path.join(d, 'verify.log')).read() if os.path.exists(os.path.join(d, 'verify.log')) else ''
  det = json.load(open(os.path.join(d, 'detect.json'))) if os.path.exists(os.path.join(d, 'detect.json')) else {}
  g = lambda pat: (re.search(pat, log).group(1) if re.search(pat, log) else None)
  suite = g(r'suite: (.*)')
  confirmed = g(r'demo_clean_exit=(\d+)') == '0' and g(r'patch_applied=(\w+)') == 'yes' and g(r'demo_patched_exit=(\d+)') not in (None, '0') and suite is not None and '395 passed' in suite and '2 failed' in suite
  pid = sid.split('_')[0]
  own = (det.get('results') or {}).get(pid, {})
  meta = dict(
      id=sid,
      property=pid,
      summary=agent.get('summary'),
      files=agent.get('files'),
      clause_broken=agent.get('clause_broken'),
      what_it_needs_to_manifest=agent.get('what_it_needs_to_manifest'),
      why_tests_still_pass=agent.get('why_tests_still_pass'),
      author='independent sub-agent given only the property text and its own scratch worktree of /repo',
      what_i_ran=[
          'tools/verify_seeded.sh seeded/%s  (scratch worktree of /repo: demo.py on the clean tree, `git apply patch.diff`, demo.py again, full pytest suite with the patch; worktree removed afterwards)' % sid,
          'tools/seeded_matrix.py %s  (git -C /repo apply patch.diff; ./check %s --tier quick; git -C /repo checkout -- .)' % (sid, pid),
      ],
      confirmation=dict(
          demo_on_clean_tree_exit=g(r'demo_clean_exit=(\d+)'),
          patch_applies=g(r'patch_applied=(\w+)'),
          demo_with_patch_exit=g(r'demo_patched_exit=(\d+)'),
          suite_with_patch=suite,
          baseline_suite='395 passed, 2 failed (filtering_test::test_time_filter_variation0/1, a bug in the test itself), 1 collection error (pipelines/regrid_test.py needs apache_beam)',
          confirmed=bool(confirmed),
      ),
      detection=dict(
          own_property_check_exit=own.get('exit'),
          rules_fired=own.get('rules'),
          first_report=own.get('first'),
          other_properties_that_also_fire=[p for p, v in (det.get('results') or {}).items() if p != pid and v.get('exit') == 1],
          repo_commit=det.get('repo_commit'),
      ),
  )
  with open(os.path.join(d, 'meta.json'), 'w') as f:
    json.dump(meta, f, indent=1, ensure_ascii=False)
  n += 1
  print(f"{sid}: confirmed={meta['confirmation']['confirmed']} detected={own.get('exit') == 1} rules={own.get('rules')}")
print(n, 'meta.json files written')
