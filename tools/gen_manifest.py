#!/usr/bin/env python3-vt
"""Regenerates /verif/MANIFEST.json from the CLAIM tables of the rule modules."""
import importlib
import json
import os
import sys

VERIF = os.path.dirname(os.path.dirname(os.path.abspath(__file__)))
sys.path.insert(0, VERIF)

props = [json.loads(l) for l in open(os.path.join(VERIF, 'properties.jsonl'))]
checks = []
na = []
served = []
for p in props:
  pid = p['id']
  try:
    mod = importlib.import_module(f'rules.{pid.lower()}')
    claim = mod.CLAIM
  except (ModuleNotFoundError, AttributeError):
    mod, claim = None, None
  if claim is None or claim.get('not_applicable'):
    reason = (claim or {}).get('not_applicable') or 'no sound static rule has been built for this property yet (see DESIGN.md §3 for the planned clauses)'
    na.append(dict(property_id=pid, reason=reason))
    continue
  served.append(pid)
  checks.append(dict(
      property_id=pid,
      quick_cmd=f'./check {pid} --tier quick',
      thorough_cmd=f'./check {pid} --tier thorough',
      evidence_file=f'/verif/evidence/{pid}.json',
      replay_cmd_template=f'./check {pid} --replay {{path}}',
      engine='sa',
      level_claimed=dict(category='other', text=claim['text'], design_ref=claim.get('design_ref', f'DESIGN.md §3 {pid}')),
      level_note=claim['note'],
      technique=claim['technique'],
  ))
manifest = dict(
    version=1,
    setup_cmd='python3-vt -B -c "import ast, sympy, sys; sys.path.insert(0, \'/verif\'); import sa.model, sa.sym, sa.alg; print(\'sa engine ok\')"',
    hooks=dict(
        guard='GOOGLE_RESEARCH_DINOSAUR_VERIF',
        enable='none needed: nothing in /repo is instrumented; every check parses the current working tree of /repo with python ast',
        baseline_off_cmd='cd /repo && /venv/bin/python -m pytest -ra -q -p no:cacheprovider --timeout=900 --continue-on-collection-errors',
        source_commits=[],
        add_only=True,
    ),
    engines=[dict(
        name='sa', path='/verif/sa', serves_properties=served,
        kind_free_text='repository-specific static analyser: python-ast program model, abstract interpretation over a term domain with bounded inlining '
                       '(value numbering, phi joins, loop summaries), normal forms of coefficient expressions (sympy canonicalisation), '
                       'guard folding over finite length patterns, dependence / who-may-call queries; nothing from /repo is imported or executed',
    )],
    checks=checks,
    notes='All checks are static (level "other"): they decide the structural clauses named in each level_claimed.text and explicitly do not decide the numerical '
          'remainder of the property. Exit 2 + ANALYSIS-ERROR means the analysis could not give a verdict (anchor vanished / idiom not recognised). '
          'Genuine defects found and repaired: see known_findings.json ("fixed"); recorded findings print KNOWN-FINDING lines.',
    not_applicable=na,
)
with open(os.path.join(VERIF, 'MANIFEST.json'), 'w') as f:
  json.dump(manifest, f, indent=1, ensure_ascii=False)
  f.write('\n')
print(f'{len(checks)} checks, {len(na)} not_applicable')
