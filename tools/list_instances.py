"""python3-vt tools/list_instances.py <PID> [--repo DIR] : print every rule instance of a check (debug aid)."""
import sys, importlib
sys.path.insert(0, '/verif')
from sa import model, report
pid = sys.argv[1]
repo = sys.argv[3] if len(sys.argv) > 3 else '/repo'
prog = model.Program(repo)
chk = report.Check(pid)
mod = importlib.import_module(f'rules.{pid.lower()}')
try:
  mod.run(chk, prog, 'quick')
except Exception as e:
  print('ERR', repr(e))
for i in chk.instances:
  print(f"{i['status'][:4]} {i['rule']} | {i['key'][:170]} | {(i.get('detail') or '')[:90]}")
