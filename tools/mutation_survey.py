#!/usr/bin/env python3-vt
"""Mutation survey: single-point syntactic mutants of the anchored modules, analysed statically by the checks.

  tools/mutation_survey.py --module sigma_coordinates [--props C13,C03] [--jobs 12] [--limit 400] [--seed 0]

Prints the mutants on which *every* selected check stays silent (candidates for a missing rule, or mutants that do not
touch any claimed clause).  A gap-finding aid: nothing here is registered in MANIFEST.json, and mutants are never executed.
"""
import argparse
import ast
import concurrent.futures
import copy
import os
import random
import shutil
import subprocess
import sys
import tempfile

VERIF = os.path.dirname(os.path.dirname(os.path.abspath(__file__)))
sys.path.insert(0, VERIF)
from sa import model  # noqa: E402

SWAP_BIN = {ast.Add: ast.Sub, ast.Sub: ast.Add, ast.Mult: ast.Div, ast.Div: ast.Mult}
SWAP_CMP = {ast.Lt: ast.LtE, ast.LtE: ast.Lt, ast.Gt: ast.GtE, ast.GtE: ast.Gt, ast.Eq: ast.NotEq, ast.NotEq: ast.Eq}


def sites(tree):
  """[(kind, node path index)] — enumerates mutation points in function bodies (docstrings and annotations excluded)."""
  out = []
  for fn in ast.walk(tree):
    if not isinstance(fn, (ast.FunctionDef, ast.AsyncFunctionDef)):
      continue
    for n in ast.walk(fn):
      if isinstance(n, ast.BinOp) and type(n.op) in SWAP_BIN:
        out.append(('binop', n, fn.name))
      elif isinstance(n, ast.Compare) and len(n.ops) == 1 and type(n.ops[0]) in SWAP_CMP:
        out.append(('cmp', n, fn.name))
      elif isinstance(n, ast.Constant) and isinstance(n.value, (int, float)) and not isinstance(n.value, bool):
        out.append(('const', n, fn.name))
      elif isinstance(n, ast.Constant) and isinstance(n.value, bool):
        out.append(('bool', n, fn.name))
      elif isinstance(n, ast.UnaryOp) and isinstance(n.op, ast.USub):
        out.append(('neg', n, fn.name))
      elif isinstance(n, ast.Call) and len(n.args) >= 2 and not any(isinstance(a, ast.Starred) for a in n.args[:2]):
        out.append(('swapargs', n, fn.name))
      elif isinstance(n, ast.Call) and n.keywords and any(k.arg for k in n.keywords):
        out.append(('dropkw', n, fn.name))
      elif isinstance(n, ast.Subscript) and isinstance(n.slice, ast.Slice) and (n.slice.lower is not None or n.slice.upper is not None):
        out.append(('slice', n, fn.name))
  return out


def mutate(kind, n):
  """Applies the mutation in place; returns a description (or None if not applicable)."""
  before = ast.unparse(n)
  if kind == 'binop':
    n.op = SWAP_BIN[type(n.op)]()
  elif kind == 'cmp':
    n.ops = [SWAP_CMP[type(n.ops[0])]()]
  elif kind == 'const':
    v = n.value
    n.value = (v + 1) if isinstance(v, int) else (v * 2 if v != 0 else 1.0)
  elif kind == 'bool':
    n.value = not n.value
  elif kind == 'neg':
    n.op = ast.UAdd()
  elif kind == 'swapargs':
    n.args[0], n.args[1] = n.args[1], n.args[0]
  elif kind == 'dropkw':
    n.keywords = n.keywords[:-1]
  elif kind == 'slice':
    s = n.slice
    if s.lower is not None and s.upper is None:
      s.upper, s.lower = ast.UnaryOp(op=ast.USub(), operand=ast.Constant(value=1)), None
    elif s.upper is not None and s.lower is None:
      s.lower, s.upper = ast.Constant(value=1), None
    else:
      return None
  after = ast.unparse(n)
  if after == before:
    return None
  return f'{before[:70]}  →  {after[:70]}'


def run(args, relfile, src, idx):
  tree = ast.parse(src)
  ss = sites(tree)
  kind, node, fname = ss[idx]
  line = getattr(node, 'lineno', 0)
  desc = mutate(kind, node)
  if desc is None:
    return None
  try:
    new = ast.unparse(tree) + '\n'
    compile(new, relfile, 'exec')
  except Exception:
    return None
  root = tempfile.mkdtemp(prefix='dinosaur-mut-')
  try:
    shutil.copytree(os.path.join(args.repo, model.PKG), os.path.join(root, model.PKG), ignore=shutil.ignore_patterns('__pycache__', '*.pyc', '*_test.py', 'data'))
    with open(os.path.join(root, relfile), 'w') as f:
      f.write(new)
    fired = []
    for pid in args.props:
      p = subprocess.run([sys.executable, '-B', '-m', 'sa.cli', pid, '--repo', root, '--tier', 'quick'], cwd=VERIF, env=dict(os.environ, VERIF_NO_EVIDENCE='1'),
                         capture_output=True, text=True, timeout=900)
      if p.returncode != 0:
        fired.append(f'{pid}:{p.returncode}')
        if not args.all:
          break
    return fname, line, kind, desc, fired
  finally:
    shutil.rmtree(root, ignore_errors=True)


def main():
  ap = argparse.ArgumentParser()
  ap.add_argument('--module', required=True)
  ap.add_argument('--props', default=','.join(f'C{i:02d}' for i in range(1, 21)))
  ap.add_argument('--jobs', type=int, default=12)
  ap.add_argument('--limit', type=int, default=300)
  ap.add_argument('--seed', type=int, default=0)
  ap.add_argument('--repo', default=model.REPO)
  ap.add_argument('--functions', default=None, help='comma list: only mutate these functions')
  ap.add_argument('--all', action='store_true', help='run every selected check even after one fired')
  args = ap.parse_args()
  args.props = [x.strip().upper() for x in args.props.split(',') if x.strip()]
  relfile = os.path.join(model.PKG, args.module + '.py')
  src = open(os.path.join(args.repo, relfile)).read()
  ss = sites(ast.parse(src))
  idxs = list(range(len(ss)))
  if args.functions:
    keep = set(args.functions.split(','))
    idxs = [i for i in idxs if ss[i][2] in keep]
  random.Random(args.seed).shuffle(idxs)
  idxs = sorted(idxs[:args.limit])
  silent, fired_n = [], 0
  with concurrent.futures.ThreadPoolExecutor(max_workers=args.jobs) as ex:
    for r in ex.map(lambda i: run(args, relfile, src, i), idxs):
      if r is None:
        continue
      fname, line, kind, desc, fired = r
      if fired:
        fired_n += 1
      else:
        silent.append((fname, line, kind, desc))
  for fname, line, kind, desc in sorted(silent):
    print(f'SILENT {args.module}.{fname}:{line} [{kind}] {desc}')
  print(f'{args.module}: {len(ss)} sites, {len(idxs)} sampled, {fired_n} detected, {len(silent)} silent')


if __name__ == '__main__':
  main()
