#!/bin/sh
# tools/verify_seeded.sh <dir with patch.diff demo.py> : confirms a seeded change in a scratch worktree of /repo
# (demo passes on the clean tree, fails with the patch, full suite still 395 passed). Writes <dir>/verify.log
D="$(cd "$1" && pwd)"
ID=$(basename "$D")
WT=/tmp/vs_$ID
LOG="$D/verify.log"
git -C /repo worktree remove --force "$WT" >/dev/null 2>&1
git -C /repo worktree add -f "$WT" HEAD >/dev/null 2>&1 || { echo "worktree failed" > "$LOG"; exit 2; }
cp "$D/demo.py" "$WT/demo_seeded.py"
{
  echo "commit: $(git -C /repo rev-parse --short HEAD)"
  (cd "$WT" && timeout 1800 /venv/bin/python demo_seeded.py >/tmp/vs_$ID.clean.out 2>&1; echo "demo_clean_exit=$?")
  tail -2 /tmp/vs_$ID.clean.out | sed 's/^/  clean> /'
  (cd "$WT" && git apply "$D/patch.diff" && echo "patch_applied=yes" || echo "patch_applied=NO")
  (cd "$WT" && timeout 1800 /venv/bin/python demo_seeded.py >/tmp/vs_$ID.patched.out 2>&1; echo "demo_patched_exit=$?")
  tail -2 /tmp/vs_$ID.patched.out | sed 's/^/  patched> /'
  (cd "$WT" && timeout 3000 /venv/bin/python -m pytest -q -p no:cacheprovider --timeout=900 --continue-on-collection-errors -n 6 2>&1 | grep -E "passed|failed" | tail -1 | sed 's/^/suite: /')
} > "$LOG" 2>&1
rm -f /tmp/vs_$ID.clean.out /tmp/vs_$ID.patched.out
git -C /repo worktree remove --force "$WT" >/dev/null 2>&1
cat "$LOG"
