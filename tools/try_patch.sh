#!/bin/sh
# tools/try_patch.sh <patch.diff> <PID> [<PID>...] : run checks against a scratch copy of /repo with the patch applied
P="$1"; shift
D=$(mktemp -d /tmp/dinosaur-sa-patch-XXXXXX)
cp -r /repo/dinosaur "$D/dinosaur"
find "$D" -name '__pycache__' -prune -exec rm -rf {} + 2>/dev/null
(cd "$D" && git apply --unsafe-paths -p1 "$P" 2>/dev/null || patch -p1 -s < "$P")
cd /verif
for pid in "$@"; do
  VERIF_NO_EVIDENCE=1 python3-vt -B -m sa.cli "$pid" --repo "$D" | grep -v "^NOTE" | cut -c1-330 | tail -6
done
rm -rf "$D"
