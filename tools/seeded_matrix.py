#!/usr/bin/env python3-vt
"""Runs the registered checks against every seeded change (applied to /repo itself and undone straight afterwards).

  tools/seeded_matrix.py [--all-props] [ids…]   → seeded/<id>/detect.json and a summary table on stdout

For each seeded/<id>/patch.diff:  git -C /repo apply <patch>;  ./check <PID> --tier quick (VERIF_NO_EVIDENCE=1);
git -C /repo checkout -- .   The own property's check must exit 1 with a VIOLATION line.
"""
import json
import os
import subprocess
import sys

VERIF = os.path.dirname(os.path.dirname(os.path.abspath(__file__)))
ALL = [f'C{i:02d}' for i in range(1, 21)]


def sh(*cmd, **kw):
  return subprocess.run(cmd, capture_output=True, text=True, **kw)


def main():
  args = [a for a in sys.argv[1:] if not a.startswith('--')]
  all_props = '--all-props' in sys.argv
  ids = args or sorted(d for d in os.listdir(os.path.join(VERIF, 'seeded')) if os.path.isfile(os.path.join(VERIF, 'seeded', d, 'patch.diff')))
  assert sh('git', '-C', '/repo', 'status', '--porcelain').stdout.strip() == '', '/repo working tree is not clean'
  rows = []
  for sid in ids:
    d = os.path.join(VERIF, 'seeded', sid)
    pid = sid.split('_')[0]
    ap = sh('git', '-C', '/repo', 'apply', os.path.join(d, 'patch.diff'))
    if ap.returncode != 0:
      rows.append((sid, 'PATCH DOES NOT APPLY', ''))
      continue
    try:
      res = {}
      for p in (ALL if all_props else [pid]):
        r = sh(sys.executable, '-B', '-m', 'sa.cli', p, '--tier', 'quick', cwd=VERIF, env=dict(os.environ, VERIF_NO_EVIDENCE='1'))
        fired = [l for l in r.stdout.splitlines() if ': [' in l and not l.startswith('NOTE')]
        res[p] = dict(exit=r.returncode, rules=sorted({l.split(': [', 1)[1].split(']', 1)[0] for l in fired}), first=(fired[0][:300] if fired else ''))
    finally:
      sh('git', '-C', '/repo', 'checkout', '--', '.')
    with open(os.path.join(d, 'detect.json'), 'w') as f:
      json.dump(dict(seed=sid, repo_commit=sh('git', '-C', '/repo', 'rev-parse', '--short', 'HEAD').stdout.strip(), results=res), f, indent=1, ensure_ascii=False)
    own = res[pid]
    others = [p for p, v in res.items() if p != pid and v['exit'] == 1]
    rows.append((sid, f"exit={own['exit']} {','.join(own['rules'])}", ' '.join(others)))
  for r in rows:
    print(f'{r[0]:8s} {r[1]:90s} {r[2]}')
  bad = [r for r in rows if not r[1].startswith('exit=1')]
  print(f'{len(rows) - len(bad)}/{len(rows)} seeded changes detected by their own property\'s check')
  return 1 if bad else 0


if __name__ == '__main__':
  sys.exit(main())
