#!/usr/bin/env python3-vt
"""Regenerates the seeded-change table of DESIGN.md §8.5 from seeded/*/meta.json."""
import glob, json, os, re
V = os.path.dirname(os.path.dirname(os.path.abspath(__file__)))
rows = ['| change | what it does (author\'s summary, shortened) | needs | confirmed | caught by (own property) | also fires |', '|---|---|---|---|---|---|']
for d in sorted(glob.glob(os.path.join(V, 'seeded', '*', 'meta.json'))):
  m = json.load(open(d))
  cut = lambda t, n: (t or '').replace('|', '/').replace('\n', ' ')[:n]
  rows.append('| %s | %s | %s | %s | %s | %s |' % (m['id'], cut(m['summary'], 150), cut(m['what_it_needs_to_manifest'], 110), 'yes' if m['confirmation']['confirmed'] else 'NO',
                                              ', '.join(m['detection']['rules_fired'] or []) or '**missed**', ' '.join(m['detection']['other_properties_that_also_fire'] or [])))
p = os.path.join(V, 'DESIGN.md')
s = open(p).read()
s = re.sub(r'<!-- SEEDED-TABLE-BEGIN -->.*<!-- SEEDED-TABLE-END -->', '<!-- SEEDED-TABLE-BEGIN -->\n' + '\n'.join(rows) + '\n<!-- SEEDED-TABLE-END -->', s, flags=re.S)
open(p, 'w').write(s)
print(len(rows) - 2, 'rows')
