"""Normal forms of arithmetic terms (canonical rational functions via sympy).

Only expression canonicalisation is used (`cancel`, `expand`, coefficient
extraction): no solving, no path reasoning.
"""
from __future__ import annotations

from fractions import Fraction

import sympy as sp

from sa import sym
from sa.sym import Term

ELEMENTWISE = {
    'sqrt': sp.sqrt, 'exp': sp.exp, 'log': sp.log, 'sin': sp.sin, 'cos': sp.cos,
    'tan': sp.tan, 'arcsin': sp.asin, 'arccos': sp.acos, 'abs': sp.Abs, 'absolute': sp.Abs,
}
NUMERIC_MODULES = ('numpy.', 'jax.numpy.', 'math.')


def ext_short(t):
  """'sqrt' for ext numpy.sqrt / jax.numpy.sqrt / math.sqrt, else None."""
  if t.k != 'ext':
    return None
  n = t.a[0]
  for m in NUMERIC_MODULES:
    if n.startswith(m):
      return n[len(m):]
  if n in ('abs', 'sum', 'max', 'min', 'round', 'int', 'float', 'len'):
    return n
  return None


def exact(v):
  """Exact rational for a python literal (decimals are read as written)."""
  if isinstance(v, bool):
    return sp.Integer(int(v))
  if isinstance(v, int):
    return sp.Integer(v)
  if isinstance(v, Fraction):
    return sp.Rational(v.numerator, v.denominator)
  if isinstance(v, float):
    if v != v or v in (float('inf'), float('-inf')):
      return sp.nan if v != v else (sp.oo if v > 0 else -sp.oo)
    return sp.Rational(repr(v))
  raise TypeError(v)


def to_fraction(v):
  if isinstance(v, bool):
    raise TypeError(v)
  if isinstance(v, int):
    return Fraction(v)
  if isinstance(v, Fraction):
    return v
  if isinstance(v, float):
    return Fraction(repr(v))
  raise TypeError(v)


class Algebra:
  """Term → sympy conversion with a stable atom table."""

  def __init__(self, ev: sym.Evaluator = None, named=None, expand_globals=True, strip_index=True, opaque=None, deep_globals=False):
    self.opaque = opaque
    self.deep_globals = deep_globals
    self._expanding = set()
    self.ev = ev
    self.atoms = {}      # Term -> Symbol
    self.rev = {}        # Symbol -> Term
    self.named = []      # (predicate, symbol)
    self.memo = {}
    self.expand_globals = expand_globals
    self.strip_index = strip_index
    for pred, name in (named or []):
      self.name(pred, name)

  def name(self, pred, name, **assumptions):
    s = sp.Symbol(name, **assumptions)
    self.named.append((pred, s))
    return s

  def atom(self, t, hint=None):
    for pred, s in self.named:
      try:
        if pred(t):
          self.rev.setdefault(s, t)
          return s
      except Exception:
        pass
    if t in self.atoms:
      return self.atoms[t]
    label = hint or sym.show(t, maxdepth=4)
    s = sp.Symbol(f'⟨{label}⟩#{len(self.atoms)}')
    self.atoms[t] = s
    self.rev[s] = t
    return s

  def conv(self, t):
    key = id(t)
    if key in self.memo and self.memo[key][0] is t:
      return self.memo[key][1]
    r = self._conv(t)
    self.memo[key] = (t, r)
    return r

  def _conv(self, t):
    k, a = t.k, t.a
    for pred, s in self.named:
      try:
        if pred(t):
          self.rev.setdefault(s, t)
          return s
      except Exception:
        pass
    if self.opaque is not None and self.opaque(t):
      return self.atom(t)
    if k == 'const':
      v = a[0]
      if isinstance(v, (int, float, Fraction)) and not isinstance(v, bool):
        return exact(v)
      if isinstance(v, bool):
        return sp.Integer(int(v))
      return self.atom(t)
    if k == 'bcast':
      return self.conv(a[0])
    if k == 'ext' and a[0] in ('numpy.pi', 'jax.numpy.pi', 'math.pi'):
      return sp.pi
    if k == 'global' and self.expand_globals and self.ev is not None:
      d = self.ev.global_definition(t)
      if d.k == 'const' and isinstance(d.a[0], (int, float, Fraction)):
        return exact(d.a[0])
      if self.deep_globals and (a[0], a[1]) not in self._expanding and d.k in ('bin', 'un', 'call', 'global', 'const'):
        # module constants defined by arithmetic over other constants are expanded to their defining expression
        self._expanding.add((a[0], a[1]))
        try:
          return self.conv(d)
        finally:
          self._expanding.discard((a[0], a[1]))
      return self.atom(t)
    if k == 'bin':
      op = a[0]
      l, r = self.conv(a[1]), self.conv(a[2])
      if op == '+':
        return l + r
      if op == '-':
        return l - r
      if op == '*':
        return l * r
      if op == '/':
        return l / r
      if op == '**':
        return l ** r
      if op == '@':
        return sp.Function('matmul')(l, r)
      return sp.Function({'//': 'floordiv', '%': 'mod', '&': 'and_', '|': 'or_'}.get(op, 'op_' + str(abs(hash(op)) % 97)))(l, r)
    if k == 'un':
      if a[0] == '-':
        return -self.conv(a[1])
      if a[0] == '+':
        return self.conv(a[1])
      return sp.Function('not_' if a[0] == 'not' else 'inv_')(self.conv(a[1]))
    if k == 'cmp':
      if len(a[0]) == 1:
        return sp.Function('cmp_' + {'<': 'lt', '<=': 'le', '>': 'gt', '>=': 'ge', '==': 'eq', '!=': 'ne'}.get(a[0][0], 'x'))(
            self.conv(a[1][0]), self.conv(a[1][1]))
      return self.atom(t)
    if k == 'call':
      f = a[0]
      short = ext_short(f)
      args = a[1]
      if short in ELEMENTWISE and len(args) == 1 and not a[2]:
        return ELEMENTWISE[short](self.conv(args[0]))
      if short == 'square' and len(args) == 1:
        return self.conv(args[0]) ** 2
      if short == 'negative' and len(args) == 1:
        return -self.conv(args[0])
      if short in ('add', 'subtract', 'multiply', 'divide', 'power') and len(args) == 2:
        l, r = self.conv(args[0]), self.conv(args[1])
        return {'add': l + r, 'subtract': l - r, 'multiply': l * r, 'divide': l / r, 'power': l ** r}[short]
      if short in ('asarray', 'array', 'float64', 'float32') and len(args) == 1:
        return self.conv(args[0])
      if short in ('maximum', 'minimum') and len(args) == 2:
        return sp.Function(short)(self.conv(args[0]), self.conv(args[1]))
      if short in ('zeros_like', 'zeros') :
        return sp.Integer(0)
      if short in ('ones_like', 'ones'):
        return sp.Integer(1)
      if f.k == 'attr' and f.a[1] in ('sum', 'astype', 'reshape', 'ravel') and f.a[0].k != 'ext':
        return sp.Function('m_' + f.a[1])(self.conv(f.a[0]), *[self.safe(x) for x in args])
      if f.k in ('func', 'bound', 'ext', 'attr'):
        name = sym.show(f, maxdepth=3)
        cargs = [self.safe(x) for x in args] + [self.safe(v) for _, v in a[2]]
        if f.k == 'bound':
          cargs = cargs[1:] if False else cargs
        return sp.Function(name)(*cargs)
      return self.atom(t)
    if k == 'sub' and self.strip_index:
      # broadcasting index (np.newaxis / None / Ellipsis / full slices) is value-preserving
      if _is_broadcast_index(a[1]):
        return self.conv(a[0])
      return self.atom(t)
    if k == 'phi':
      return sp.Function('phi')(self.atom(a[0]), self.conv(a[1]), self.conv(a[2]))
    if k == 'store':
      return sp.Function('store_' + {'=': 'set', '+=': 'add'}.get(a[3], 'x'))(self.conv(a[0]), self.atom(a[1]), self.safe(a[2]))
    return self.atom(t)

  def safe(self, t):
    if isinstance(t, Term):
      if t.k in ('tuple', 'list'):
        return sp.Tuple(*[self.safe(x) for x in t.a])
      if t.k == 'const' and not isinstance(t.a[0], (int, float, Fraction)):
        return self.atom(t)
      return self.conv(t)
    return sp.Symbol(repr(t))


def _is_broadcast_index(idx):
  def plain(x):
    if x.k == 'const' and (x.a[0] is None or x.a[0] is Ellipsis):
      return True
    if x.k == 'ext' and x.a[0] in ('numpy.newaxis', 'jax.numpy.newaxis'):
      return True
    if x.k == 'slice' and all(y.k == 'const' and y.a[0] is None for y in x.a):
      return True
    return False
  if idx.k == 'tuple':
    return all(plain(x) for x in idx.a)
  return plain(idx)


def equal(e1, e2):
  """Equality of normal forms."""
  d = sp.cancel(sp.together(sp.expand(e1 - e2)))
  if d == 0:
    return True
  try:
    return sp.simplify(d) == 0
  except Exception:
    return False


def ratio_equal(e1, e2):
  return equal(e1, e2)


def linear_coeffs(expr, atoms):
  """Coefficients c_i with expr = Σ c_i·atom_i + rest (rest free of atoms).

  Returns (coeffs list, rest) or None when `expr` is not affine in `atoms`.
  """
  e = sp.expand(expr)
  coeffs = []
  rest = e
  for at in atoms:
    c = e.coeff(at, 1)
    coeffs.append(sp.cancel(c))
    rest = rest - c * at
  rest = sp.expand(rest)
  for at in atoms:
    if rest.has(at):
      return None
  for c in coeffs:
    for at in atoms:
      if c.has(at):
        return None
  return coeffs, rest
