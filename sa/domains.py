"""Small abstract domains evaluated over terms: SIGN, monotonicity, value at l=0.

All are classical non-relational abstract interpretations of arithmetic
expressions.  ⊤ ('T') means "not shown" and never lets an obligation pass.
"""
from __future__ import annotations

from fractions import Fraction

from sa import alg, sym
from sa.sym import Term

# sign lattice: 'Z' (=0) 'P' (>0) 'N' (<0) 'NN' (>=0) 'NP' (<=0) 'T'
ORDER = {'Z': 0, 'P': 1, 'N': 1, 'NN': 2, 'NP': 2, 'T': 3}


def sign_const(v):
  if isinstance(v, bool):
    return 'NN'
  if isinstance(v, (int, float, Fraction)):
    return 'Z' if v == 0 else ('P' if v > 0 else 'N')
  return 'T'


def neg(s):
  return {'Z': 'Z', 'P': 'N', 'N': 'P', 'NN': 'NP', 'NP': 'NN', 'T': 'T'}[s]


def is_nonneg(s):
  return s in ('Z', 'P', 'NN')


def is_nonpos(s):
  return s in ('Z', 'N', 'NP')


def add(a, b):
  if a == 'Z':
    return b
  if b == 'Z':
    return a
  if is_nonneg(a) and is_nonneg(b):
    return 'P' if 'P' in (a, b) else 'NN'
  if is_nonpos(a) and is_nonpos(b):
    return 'N' if 'N' in (a, b) else 'NP'
  return 'T'


def mul(a, b):
  if 'Z' in (a, b):
    return 'Z'
  if 'T' in (a, b):
    return 'T'
  strict = a in ('P', 'N') and b in ('P', 'N')
  pos = is_nonneg(a) == is_nonneg(b)
  if strict:
    return 'P' if pos else 'N'
  return 'NN' if pos else 'NP'


def inv(a):
  return {'P': 'P', 'N': 'N'}.get(a, 'T' if a != 'NN' and a != 'NP' else ('NN' if a == 'NN' else 'NP'))


class Sign:
  """SIGN domain with declared assumptions on atoms."""

  def __init__(self, assume=None, integer=None, facts=None):
    self.assume = list(assume or [])   # (pred, sign)
    self.integer = list(integer or [])  # preds for integer-valued atoms
    self.facts = list(facts or [])     # (term, sign) structural facts
    self.memo = {}

  def with_fact(self, term, sign):
    s = Sign(self.assume, self.integer, self.facts + [(term, sign)])
    return s

  def is_integer(self, t):
    if t.k == 'const' and isinstance(t.a[0], int) and not isinstance(t.a[0], bool):
      return True
    for p in self.integer:
      if p(t):
        return True
    if t.k == 'bin' and t.a[0] in '+-*' :
      return self.is_integer(t.a[1]) and self.is_integer(t.a[2])
    return False

  def is_even(self, t):
    if t.k == 'const' and isinstance(t.a[0], int):
      return t.a[0] % 2 == 0
    if t.k == 'bin' and t.a[0] == '*':
      l, r = t.a[1], t.a[2]
      return (self.is_even(l) and self.is_integer(r)) or (self.is_even(r) and self.is_integer(l))
    return False

  def of(self, t):
    key = id(t)
    if key in self.memo and self.memo[key][0] is t:
      return self.memo[key][1]
    r = self._of(t)
    self.memo[key] = (t, r)
    return r

  def _of(self, t):
    for ft, s in self.facts:
      if ft == t:
        return s
    for p, s in self.assume:
      try:
        if p(t):
          return s
      except Exception:
        pass
    k, a = t.k, t.a
    if k == 'const':
      return sign_const(a[0])
    if k == 'bcast':
      return self.of(a[0])
    if k == 'bin':
      op = a[0]
      if op == '+':
        return add(self.of(a[1]), self.of(a[2]))
      if op == '-':
        return add(self.of(a[1]), neg(self.of(a[2])))
      if op == '*':
        return mul(self.of(a[1]), self.of(a[2]))
      if op == '/':
        d = self.of(a[2])
        n = self.of(a[1])
        if d in ('P', 'N'):
          return mul(n, d)
        if n == 'Z':
          return 'Z'
        if d in ('NN', 'NP'):
          return mul(n, d)  # division by a possibly-zero quantity keeps the weak sign (inf allowed)
        return 'T'
      if op == '**':
        b, e = self.of(a[1]), a[2]
        if self.is_even(e):
          return 'P' if b in ('P', 'N') else 'NN'
        if b == 'P':
          return 'P'
        if b in ('NN', 'Z'):
          es = self.of(e)
          if es == 'P':
            return b
          return 'NN' if is_nonneg(es) else 'T'
        return 'T'
      if op in ('//',):
        n, d = self.of(a[1]), self.of(a[2])
        if d == 'P' and is_nonneg(n):
          return 'NN'
        return 'T'
      if op == '%':
        if self.of(a[2]) == 'P':
          return 'NN'
        return 'T'
      if op in ('&', '|'):
        l, r = self.of(a[1]), self.of(a[2])
        if is_nonneg(l) and is_nonneg(r):
          return 'NN'
        return 'T'
      return 'T'
    if k == 'un':
      if a[0] == '-':
        return neg(self.of(a[1]))
      if a[0] == '+':
        return self.of(a[1])
      if a[0] in ('not', '~'):
        return 'NN' if a[0] == 'not' else 'T'
    if k in ('cmp', 'bool'):
      return 'NN'
    if k == 'sub':
      return self.of(a[0]) if alg._is_broadcast_index(a[1]) or True else 'T'
    if k == 'phi':
      x, y = self.of(a[1]), self.of(a[2])
      return join(x, y)
    if k == 'store':
      return join(self.of(a[0]), self.of(a[2]))
    if k == 'call':
      short = alg.ext_short(a[0])
      args = a[1]
      if short in ('exp',):
        return 'P'
      if short in ('abs', 'absolute', 'square') and len(args) == 1:
        s = self.of(args[0])
        return 'P' if s in ('P', 'N') else ('Z' if s == 'Z' else 'NN')
      if short == 'sqrt' and len(args) == 1:
        s = self.of(args[0])
        return s if s in ('P', 'Z', 'NN') else 'T'
      if short == 'maximum' and len(args) == 2:
        x, y = self.of(args[0]), self.of(args[1])
        if 'P' in (x, y):
          return 'P'
        if is_nonneg(x) or is_nonneg(y):
          return 'NN'
        if is_nonpos(x) and is_nonpos(y):
          return join(x, y)
        return 'T'
      if short == 'minimum' and len(args) == 2:
        x, y = self.of(args[0]), self.of(args[1])
        if 'N' in (x, y):
          return 'N'
        if is_nonpos(x) or is_nonpos(y):
          return 'NP'
        if is_nonneg(x) and is_nonneg(y):
          return join(x, y)
        return 'T'
      if short in ('ones', 'ones_like'):
        return 'P'
      if short in ('zeros', 'zeros_like'):
        return 'Z'
      if short in ('isclose', 'isnan', 'logical_not', 'logical_and', 'logical_or', 'greater', 'less'):
        return 'NN'
      if short in ('asarray', 'array', 'float32', 'float64', 'pad', 'broadcast_to', 'expand_dims', 'squeeze', 'reshape', 'ravel', 'stack', 'concatenate', 'roll', 'diag', 'tril') and args:
        ss = [self.of(x) for x in (args[0].a if args[0].k in ('list', 'tuple') else [args[0]])]
        out = ss[0]
        for s in ss[1:]:
          out = join(out, s)
        if short in ('pad', 'tril', 'diag') :
          out = join(out, 'Z')
        return out
      if short == 'where' and len(args) == 3:
        return join(self.of(args[1]), self.of(args[2]))
      if short == 'cos' or short == 'sin':
        return 'T'
      if a[0].k == 'attr' and a[0].a[1] in ('sum', 'max', 'min', 'mean', 'astype', 'reshape', 'ravel', 'copy'):
        return self.of(a[0].a[0])
    return 'T'


def join(a, b):
  if a == b:
    return a
  if is_nonneg(a) and is_nonneg(b):
    return 'NN'
  if is_nonpos(a) and is_nonpos(b):
    return 'NP'
  return 'T'


class Mono:
  """Monotonicity in one non-negative variable: 'C' const, 'I' non-decreasing,
  'D' non-increasing, 'T' unknown."""

  def __init__(self, is_var, sign: Sign, const_pred=None):
    self.is_var = is_var
    self.sign = sign
    self.const_pred = const_pred or (lambda t: False)

  def of(self, t, sign=None):
    sg = sign or self.sign
    if self.is_var(t):
      return 'I'
    k, a = t.k, t.a
    if k == 'const' or self.const_pred(t):
      return 'C'
    if not sym.contains(t, self.is_var):
      return 'C'
    if k == 'bcast':
      return self.of(a[0], sg)
    if k == 'sub' and alg._is_broadcast_index(a[1]):
      return self.of(a[0], sg)
    if k == 'un' and a[0] == '-':
      return flip(self.of(a[1], sg))
    if k == 'bin':
      op = a[0]
      l, r = a[1], a[2]
      if op == '+':
        return madd(self.of(l, sg), self.of(r, sg))
      if op == '-':
        return madd(self.of(l, sg), flip(self.of(r, sg)))
      if op == '*':
        flips = 0
        while l.k == 'un' and l.a[0] == '-':
          l, flips = l.a[1], flips + 1
        while r.k == 'un' and r.a[0] == '-':
          r, flips = r.a[1], flips + 1
        if flips:
          m = self.of(Term('bin', '*', l, r), sg)
          return flip(m) if flips % 2 else m
        # indicator(x > y) * h  — h is only relevant where x - y > 0
        for ind, h in ((l, r), (r, l)):
          if ind.k == 'cmp' and ind.a[0] in (('>',), ('>=',)):
            x, y = ind.a[1]
            mi = madd(self.of(x, sg), flip(self.of(y, sg)))
            if mi in ('I', 'C'):
              sg2 = sg.with_fact(Term('bin', '-', x, y), 'P' if ind.a[0] == ('>',) else 'NN')
              mh = self.of(h, sg2)
              sh = sg2.of(h)
              if mh in ('D', 'C') and is_nonpos(sh):
                return 'D' if mi == 'I' or mh == 'D' else 'C'
              if mh in ('I', 'C') and is_nonneg(sh):
                return 'I'
              return 'T'
        return mmul(self.of(l, sg), sg.of(l), self.of(r, sg), sg.of(r))
      if op == '/':
        md, sd = self.of(r, sg), sg.of(r)
        if md == 'C' and sd in ('P', 'N'):
          m = self.of(l, sg)
          return m if sd == 'P' else flip(m)
        if sd == 'P' and md in ('I', 'D'):
          # 1/r flips monotonicity and stays positive
          return mmul(self.of(l, sg), sg.of(l), flip(md), 'P')
        return 'T'
      if op == '**':
        mb, sb = self.of(l, sg), sg.of(l)
        me = self.of(r, sg)
        if me == 'C':
          se = sg.of(r)
          if is_nonneg(sb) and is_nonneg(se):
            return mb
          return 'T'
        return 'T'
      return 'T'
    if k == 'call':
      short = alg.ext_short(a[0])
      args = a[1]
      if short in ('exp', 'sqrt', 'log', 'asarray', 'array', 'float32', 'arcsin', 'arctan', 'tanh', 'sinh', 'cbrt', 'rad2deg', 'deg2rad', 'float64') and len(args) == 1:
        return self.of(args[0], sg)
      if short in ('abs', 'absolute') and len(args) == 1:
        s = sg.of(args[0])
        m = self.of(args[0], sg)
        if is_nonneg(s):
          return m
        if is_nonpos(s):
          return flip(m)
        return 'T'
      if short in ('maximum', 'minimum') and len(args) == 2:
        return madd(self.of(args[0], sg), self.of(args[1], sg))
    return 'T'


def flip(m):
  return {'I': 'D', 'D': 'I', 'C': 'C', 'T': 'T'}[m]


def madd(a, b):
  if a == 'C':
    return b
  if b == 'C':
    return a
  if a == b:
    return a
  return 'T'


def mmul(ma, sa, mb, sb):
  """Monotonicity of a product from monotonicity and sign of the factors."""
  if ma == 'C' and mb == 'C':
    return 'C'
  if ma == 'C':
    return mb if is_nonneg(sa) and sa != 'T' else (flip(mb) if is_nonpos(sa) else 'T')
  if mb == 'C':
    return ma if is_nonneg(sb) and sb != 'T' else (flip(ma) if is_nonpos(sb) else 'T')
  # both vary: same direction with same weak sign
  if is_nonneg(sa) and is_nonneg(sb) and ma == mb:
    return ma
  if is_nonpos(sa) and is_nonpos(sb) and ma == mb:
    return flip(ma)
  if is_nonneg(sa) and is_nonpos(sb) and ma == flip(mb) and ma != 'T':
    # e.g. (inc, ≥0) * (dec, ≤0) → dec
    return mb
  if is_nonpos(sa) and is_nonneg(sb) and mb == flip(ma) and mb != 'T':
    return ma
  return 'T'


class AtZero:
  """Value of an expression when the variable is 0: 'Z' zero, 'O' one, 'K'
  some constant, 'T' unknown."""

  def __init__(self, is_var, sign: Sign, const_pred=None):
    self.is_var = is_var
    self.sign = sign
    self.const_pred = const_pred or (lambda t: False)

  def of(self, t):
    if self.is_var(t):
      return 'Z'
    if self.const_pred(t):
      return 'K'
    k, a = t.k, t.a
    if k == 'const':
      if a[0] == 0 and not isinstance(a[0], bool):
        return 'Z'
      if a[0] == 1 and not isinstance(a[0], bool):
        return 'O'
      return 'K'
    if not sym.contains(t, self.is_var):
      return 'K'
    if k == 'bcast':
      return self.of(a[0])
    if k == 'sub' and alg._is_broadcast_index(a[1]):
      return self.of(a[0])
    if k == 'un' and a[0] == '-':
      v = self.of(a[1])
      return 'Z' if v == 'Z' else ('K' if v in ('O', 'K') else 'T')
    if k == 'bin':
      op = a[0]
      l, r = self.of(a[1]), self.of(a[2])
      if op == '*':
        if 'Z' in (l, r):
          return 'Z'
        if l == 'O':
          return r
        if r == 'O':
          return l
        return 'K' if l == 'K' and r == 'K' else 'T'
      if op == '/':
        if l == 'Z' and r in ('O', 'K') and self.sign.of(a[2]) in ('P', 'N'):
          return 'Z'
        if l == 'Z' and r in ('O', 'K'):
          return 'Z?'
        return 'K' if l in ('K', 'O') and r in ('K', 'O') else 'T'
      if op in ('+', '-'):
        if l == 'Z':
          return r if op == '+' or r == 'Z' else ('K' if r in ('O', 'K') else 'T')
        if r == 'Z':
          return l
        return 'K' if l in ('K', 'O') and r in ('K', 'O') else 'T'
      if op == '**':
        if l == 'Z' and self.sign.of(a[2]) == 'P':
          return 'Z'
        if l == 'O':
          return 'O'
        return 'K' if l in ('K',) and r in ('K', 'O') else 'T'
      return 'T'
    if k == 'cmp' and len(a[0]) == 1:
      x, y = a[1]
      vx = self.of(x)
      if vx == 'Z' and a[0][0] == '>' and is_nonneg(self.sign.of(y)) and not sym.contains(y, self.is_var):
        return 'Z'  # 0 > c is false for c ≥ 0
      if vx == 'Z' and a[0][0] == '>=' and self.sign.of(y) == 'P' and not sym.contains(y, self.is_var):
        return 'Z'
      return 'T'
    if k == 'call':
      short = alg.ext_short(a[0])
      args = a[1]
      if short == 'exp' and len(args) == 1:
        v = self.of(args[0])
        return 'O' if v == 'Z' else ('K' if v in ('K', 'O') else 'T')
      if short in ('abs', 'absolute', 'sqrt', 'asarray', 'array', 'square') and len(args) == 1:
        v = self.of(args[0])
        return v if v in ('Z', 'O') else ('K' if v == 'K' else 'T')
    return 'T'


# ------------------------------------------------------------------ LIN
LIN_ORDER = {'Z': 0, 'C': 1, 'L': 2, 'A': 3, 'N': 4}
LINEAR_EXT = {
    'concatenate', 'stack', 'pad', 'reshape', 'asarray', 'array', 'negative', 'squeeze', 'expand_dims', 'transpose', 'ravel',
    'broadcast_to', 'roll', 'flip', 'cumsum', 'sum', 'split', 'moveaxis', 'swapaxes', 'real', 'imag', 'diff',
}


def lin_add(a, b):
  if a == 'Z':
    return b
  if b == 'Z':
    return a
  if 'N' in (a, b):
    return 'N'
  if a == b and a in ('C', 'L'):
    return a
  return 'A'


def lin_mul(a, b):
  if 'Z' in (a, b):
    return 'Z'
  if a == 'C':
    return b
  if b == 'C':
    return a
  return 'N'


def lin_join(a, b):
  if a == b:
    return a
  if {a, b} <= {'Z', 'L'}:
    return 'L'
  if 'N' in (a, b):
    return 'N'
  return 'A'


class Lin:
  """Linearity of a value in a set of variable atoms.

  'Z' zero, 'C' independent of the variables, 'L' linear-homogeneous,
  'A' affine, 'N' not shown linear."""

  def __init__(self, is_var, linear_slots=None):
    self.is_var = is_var
    self.linear_slots = linear_slots or (lambda t: None)
    self.memo = {}

  def of(self, t):
    key = id(t)
    if key in self.memo and self.memo[key][0] is t:
      return self.memo[key][1]
    r = self._of(t)
    self.memo[key] = (t, r)
    return r

  def _of(self, t):
    if self.is_var(t):
      return 'L'
    k, a = t.k, t.a
    if k == 'const':
      if a[0] is None:
        return 'Z'
      return 'Z' if (a[0] == 0 and not isinstance(a[0], bool) and isinstance(a[0], (int, float))) else 'C'
    if not sym.contains(t, self.is_var):
      if k == 'call' and alg.ext_short(a[0]) in ('zeros', 'zeros_like'):
        return 'Z'
      if k in ('list', 'tuple') and all(x.k == 'const' and x.a[0] is None for x in a):
        return 'Z'
      return 'C'
    if k == 'loop':
      init = self.of(a[1]) if a[1].k != 'unbound' else 'Z'
      return lin_join(init, self.of(a[2]))
    if k == 'comp':
      return self.of(a[1])
    if k == 'loopvar':
      return 'C'
    if k in ('bcast', 'leaf'):
      return self.of(a[0])
    if k == 'sub':
      return self.of(a[0]) if not sym.contains(a[1], self.is_var) else 'N'
    if k == 'attr':
      return self.of(a[0]) if a[1] in ('T', 'real', 'imag') else ('L' if self.is_var(t) else 'N')
    if k == 'un':
      return self.of(a[1]) if a[0] in ('-', '+') else 'N'
    if k == 'bin':
      op = a[0]
      l, r = self.of(a[1]), self.of(a[2])
      if op in ('+', '-'):
        return lin_add(l, r)
      if op in ('*', '@'):
        return lin_mul(l, r)
      if op == '/':
        return l if r == 'C' else ('Z' if l == 'Z' else 'N')
      if op == '**':
        return 'N' if l != 'C' or r != 'C' else 'C'
      return 'N'
    if k in ('tuple', 'list'):
      out = 'Z'
      for x in a:
        out = lin_join(out, self.of(x)) if out != 'Z' else self.of(x)
      return out
    if k == 'dict':
      out = 'Z'
      for _, x in a:
        out = lin_join(out, self.of(x)) if out != 'Z' else self.of(x)
      return out
    if k == 'obj':
      out = 'Z'
      for _, x in a[1]:
        out = lin_join(out, self.of(x)) if out != 'Z' else self.of(x)
      return out
    if k == 'phi':
      if sym.contains(a[0], self.is_var):
        return 'N'
      return lin_join(self.of(a[1]), self.of(a[2]))
    if k == 'store':
      if sym.contains(a[1], self.is_var):
        return 'N'
      return lin_join(self.of(a[0]), self.of(a[2]))
    if k == 'mapover':
      return self.of(a[0])
    if k == 'call':
      if alg.ext_short(a[0]) in ('zeros_like', 'zeros'):
        return 'Z'
      if a[0].k == 'ext' and a[0].a[0] == 'sum' and a[1]:
        return self.of(a[1][0])
      slots = self.linear_slots(t)
      args = list(a[1]) + [v for _, v in a[2]]
      if slots is None:
        short = alg.ext_short(a[0])
        if short in LINEAR_EXT:
          slots = [a[1][0]] if a[1] else []
        elif short == 'einsum':
          ops = [x for x in a[1] if not (x.k == 'const' and isinstance(x.a[0], str))]
          vals = [self.of(x) for x in ops if x.k not in ('list', 'call') or sym.contains(x, self.is_var)]
          out = 'C'
          for v in vals:
            out = lin_mul(out, v)
          return out
        elif a[0].k == 'attr' and a[0].a[1] in ('sum', 'reshape', 'astype', 'ravel', 'squeeze', 'transpose') and not any(sym.contains(x, self.is_var) for x in args):
          return self.of(a[0].a[0])
        else:
          return 'N'
      lin_ids = [id(x) for x in slots]
      for x in args:
        if id(x) not in lin_ids and sym.contains(x, self.is_var):
          return 'N'
      vals = [self.of(x) for x in slots]
      if not vals:
        return 'C'
      if self.is_multiplicative(t):
        out = 'C'
        for v in vals:
          out = lin_mul(out, v)
        return out
      out = vals[0]
      for v in vals[1:]:
        out = lin_join(out, v)
      return out
    return 'N'

  def is_multiplicative(self, t):
    """Slots multiply (matvec(a, x)) rather than add (concatenate)."""
    return util_callee(t) in ('_vertical_matvec', '_vertical_matvec_per_wavenumber', 'einsum', 'dot', 'matmul')


def util_callee(t):
  f = t.a[0]
  if f.k in ('func', 'ext'):
    return f.a[0].rsplit('.', 1)[-1]
  if f.k == 'bound':
    return f.a[1].rsplit('.', 1)[-1]
  if f.k == 'attr':
    return f.a[1]
  return ''


# ------------------------------------------------------------ RADIUS-EXP
class Inconsistent(Exception):
  pass


class UnitExp:
  """Integer exponent of one scale atom (e.g. grid.radius) carried by a value
  relative to its inputs.  None = zero / exponent-free constant (fits anything)."""

  def __init__(self, is_atom, linear_ops=None, summaries=None):
    self.is_atom = is_atom
    self.linear_ops = linear_ops or (lambda t: None)   # call term -> data argument terms
    self.summaries = summaries or (lambda t: None)     # call term -> exponent added by the callee
    self.memo = {}

  def of(self, t):
    key = id(t)
    if key in self.memo and self.memo[key][0] is t:
      return self.memo[key][1]
    r = self._of(t)
    self.memo[key] = (t, r)
    return r

  def same(self, vals, where):
    vs = [v for v in vals if v is not None]
    if not vs:
      return None
    if any(v != vs[0] for v in vs):
      raise Inconsistent(f'terms with different powers of the scale are combined: {vs} in {sym.show(where, maxdepth=4)[:160]}')
    return vs[0]

  def _of(self, t):
    if self.is_atom(t):
      return 1
    k, a = t.k, t.a
    if k == 'const':
      return None if (a[0] == 0 and not isinstance(a[0], bool)) else 0
    if not sym.contains(t, self.is_atom) and k not in ('call', 'bin', 'un', 'tuple', 'list', 'phi', 'sub', 'store'):
      return 0
    if k in ('bcast',):
      return self.of(a[0])
    if k == 'sub':
      return self.of(a[0])
    if k == 'un':
      return self.of(a[1]) if a[0] in ('-', '+') else 0
    if k == 'bin':
      op = a[0]
      l, r = self.of(a[1]), self.of(a[2])
      if op in ('+', '-'):
        return self.same([l, r], t)
      if op in ('*', '@'):
        if l is None or r is None:
          return None
        return l + r
      if op == '/':
        if l is None:
          return None
        return l - (r or 0)
      if op == '**':
        e = a[2]
        if e.k == 'const' and isinstance(e.a[0], int):
          return None if l is None else l * e.a[0]
        if (l or 0) == 0:
          return 0
        raise Inconsistent(f'non-constant power of a scaled quantity: {sym.show(t)[:120]}')
      return self.same([l, r], t)
    if k in ('tuple', 'list'):
      return self.same([self.of(x) for x in a], t)
    if k == 'phi':
      return self.same([self.of(a[1]), self.of(a[2])], t)
    if k == 'store':
      return self.same([self.of(a[0]), self.of(a[2])], t)
    if k == 'mapover':
      return self.of(a[0])
    if k in ('cmp', 'bool'):
      return 0    # truth values carry no unit
    if k == 'attr' and a[1] in ('dtype', 'shape', 'ndim', 'size'):
      return 0    # metadata
    if k == 'call' and a[0].k == 'attr' and a[0].a[1] == 'astype':
      return self.of(a[0].a[0])
    if k == 'call':
      s = self.summaries(t)
      data = self.linear_ops(t)
      if data is not None:
        base = self.same([self.of(x) for x in data], t)
        if s is None:
          return base
        return None if base is None else base + s
      short = alg.ext_short(a[0])
      if short in ('sqrt',) and len(a[1]) == 1:
        e = self.of(a[1][0])
        if e is None or e % 2 == 0:
          return None if e is None else e // 2
        raise Inconsistent(f'square root of an odd power: {sym.show(t)[:100]}')
      if short in ('zeros', 'zeros_like'):
        return None
      if short in ('ones', 'ones_like', 'arange', 'eye'):
        return 0
      if short == 'einsum':
        ops = [x for x in a[1] if not (x.k == 'const' and isinstance(x.a[0], str))]
        vals = [self.of(x) for x in ops]
        if any(v is None for v in vals):
          return None
        return sum(vals)
      if short in ('stack', 'concatenate', 'asarray', 'array', 'pad', 'reshape', 'squeeze', 'expand_dims', 'negative', 'abs', 'absolute', 'broadcast_to', 'real', 'imag', 'where', 'sum', 'split') and a[1]:
        xs = a[1][0].a if a[1][0].k in ('list', 'tuple') else a[1][(1 if short == 'where' else 0):]
        return self.same([self.of(x) for x in xs if isinstance(x, Term)], t)
      if not sym.contains(t, self.is_atom):
        # opaque call without the atom inside: relative exponent of its data is unknown → 0 if no scaled argument
        vals = [self.of(x) for x in list(a[1]) + [v for _, v in a[2]]]
        if all(v in (0, None) for v in vals):
          return 0
      raise Inconsistent(f'unmodelled operation on a scaled value: {sym.show(t, maxdepth=3)[:140]}')
    if not sym.contains(t, self.is_atom):
      return 0
    raise Inconsistent(f'unmodelled term kind {k}: {sym.show(t, maxdepth=3)[:120]}')


# ------------------------------------------------------------- PERIODIC
class Periodic:
  """Dependence of a value on a phase variable φ modulo 2π.

  Abstract value: ('A', s) — the value is s·φ + (a 2π-periodic function of φ)
  with a known exact slope s (s = 0: periodic or constant), or ('T', reason).
  sin / cos of an argument with an integer slope are 2π-periodic; any
  element-wise function of periodic arguments is periodic."""

  TRIG = ('sin', 'cos', 'tan')

  def __init__(self, is_var, number=None):
    self.is_var = is_var
    self.number = number or (lambda t: None)  # exact value (Fraction / int) of a φ-free scalar term, or None
    self.memo = {}

  def of(self, t):
    key = id(t)
    if key in self.memo and self.memo[key][0] is t:
      return self.memo[key][1]
    r = self._of(t)
    self.memo[key] = (t, r)
    return r

  def top(self, why, t):
    return ('T', f'{why}: {sym.show(t, maxdepth=4)[:140]}')

  def _of(self, t):
    if self.is_var(t):
      return ('A', Fraction(1))
    if not sym.contains(t, self.is_var):
      return ('A', Fraction(0))
    k, a = t.k, t.a
    if k in ('bcast', 'leaf'):
      return self.of(a[0])
    if k == 'sub':
      if sym.contains(a[1], self.is_var):
        return self.top('phase used as an index', t)
      return self.of(a[0])
    if k == 'un':
      v = self.of(a[1])
      if v[0] == 'T':
        return v
      if a[0] == '-':
        return ('A', -v[1])
      if a[0] == '+':
        return v
      return v if v[1] == 0 else self.top('logical operation on a non-periodic value', t)
    if k == 'bin':
      op = a[0]
      l, r = self.of(a[1]), self.of(a[2])
      if l[0] == 'T':
        return l
      if r[0] == 'T':
        return r
      if op == '+':
        return ('A', l[1] + r[1])
      if op == '-':
        return ('A', l[1] - r[1])
      if l[1] == 0 and r[1] == 0:
        return ('A', Fraction(0))
      if op == '*':
        for (x, vx), (y, vy) in (((a[1], l), (a[2], r)), ((a[2], r), (a[1], l))):
          if not sym.contains(x, self.is_var):
            c = self.number(x)
            if c is None:
              return self.top('phase multiplied by a factor whose value is not a source constant', t)
            return ('A', vy[1] * c)
        return self.top('product of two non-periodic phase terms', t)
      if op == '/':
        if not sym.contains(a[2], self.is_var):
          c = self.number(a[2])
          if c is None or c == 0:
            return self.top('phase divided by a factor whose value is not a source constant', t)
          return ('A', l[1] / c)
        return self.top('division by a non-periodic phase term', t)
      return self.top(f'operator {op} on a non-periodic phase term', t)
    if k in ('cmp',):
      vs = [self.of(x) for x in a[1]]
    elif k == 'bool':
      vs = [self.of(x) for x in a[1]]
    elif k in ('tuple', 'list'):
      vs = [self.of(x) for x in a]
    elif k == 'phi':
      vs = [self.of(a[0])]
      x, y = self.of(a[1]), self.of(a[2])
      if x[0] == 'T':
        return x
      if y[0] == 'T':
        return y
      if x[1] != y[1]:
        return self.top('branches with different phase slopes', t)
      if x[1] != 0:
        c = vs[0]
        return x if c[0] == 'A' and c[1] == 0 else self.top('branch condition is not periodic', t)
      vs += [x, y]
    elif k == 'call':
      short = alg.ext_short(a[0])
      args = list(a[1]) + [v for _, v in a[2]]
      if a[0].k == 'attr':
        args.append(a[0].a[0])
      vs = [self.of(x) for x in args if isinstance(x, Term)]
      if short in self.TRIG and len(a[1]) == 1 and not a[2]:
        v = vs[0]
        if v[0] == 'T':
          return v
        if v[1].denominator != 1:
          return self.top(f'{short} of an argument with non-integer phase slope {v[1]}', t)
        return ('A', Fraction(0))
    elif k == 'obj':
      vs = [self.of(x) for _, x in a[1]]
    else:
      return self.top(f'unmodelled term kind {k}', t)
    for v in vs:
      if v[0] == 'T':
        return v
    if all(v[1] == 0 for v in vs):
      return ('A', Fraction(0))
    return self.top('non-trigonometric function of a non-periodic phase term', t)
