"""Behaviour-preserving source rewrites (used to prove the rules silent).

The rewrites below do not change what the program computes (IEEE addition and
multiplication commute exactly; pure sub-expressions may be evaluated earlier;
local names are arbitrary), so every rule must give the same verdict on the
rewritten tree as on the original.  Variants are analysed statically; the
rewriter itself is validated once in a while by running the repository's own
test-suite on a fully rewritten tree (tools/equiv_fuzz.py --validate).

  commute     a + b → b + a (numeric-evident operands only), a * b → b * a
  rename      consistent renaming of function-local variables
  hoist       a pure sub-expression of an assignment / return is bound to a fresh local first
  swap        two adjacent, mutually independent simple assignments are exchanged
  negate      a - b → a + (-b)
  keywords    positional arguments of calls to module-level repo functions become keywords
  noise       an unused module-level helper is appended, an unused local is set at the top of a function, an unused keyword-only
              parameter with a default is added to an undecorated module-level function
  ifexp       `if c: x = A else: x = B` ↔ `x = A if c else B`;  `if c: return A` + `return B` ↔ `return A if c else B`
"""
from __future__ import annotations

import ast
import builtins
import copy
import random

SEQ_CALLS = {'tuple', 'list', 'str', 'sorted', 'dict', 'set', 'repr'}
KINDS = ('commute', 'rename', 'hoist', 'swap', 'negate', 'keywords', 'ifexp', 'noise')


def _sequence_evident(n):
  for x in ast.walk(n):
    if isinstance(x, (ast.Tuple, ast.List, ast.JoinedStr, ast.ListComp, ast.GeneratorExp, ast.Dict, ast.Set, ast.Starred)):
      return True
    if isinstance(x, ast.Constant) and isinstance(x.value, (str, bytes)):
      return True
    if isinstance(x, ast.Call) and isinstance(x.func, ast.Name) and x.func.id in SEQ_CALLS:
      return True
    if isinstance(x, ast.Attribute) and ('shape' in x.attr or 'dims' in x.attr or 'axes' in x.attr or 'names' in x.attr or x.attr in ('args', 'spec')):
      return True
    if isinstance(x, ast.Name) and ('shape' in x.id or 'dims' in x.id or 'axes' in x.id or 'names' in x.id or x.id.endswith('s') and x.id in ('args', 'lengths', 'parts')):
      return True
  return False


def _numeric_evident(n):
  if isinstance(n, ast.Constant) and isinstance(n.value, (int, float)) and not isinstance(n.value, bool):
    return True
  if isinstance(n, ast.BinOp) and isinstance(n.op, (ast.Mult, ast.Div, ast.Pow, ast.Sub)):
    return not _sequence_evident(n)
  if isinstance(n, ast.UnaryOp) and isinstance(n.op, ast.USub):
    return True
  if isinstance(n, ast.Call) and isinstance(n.func, ast.Attribute) and isinstance(n.func.value, ast.Name) and n.func.value.id in ('np', 'jnp', 'math') \
      and n.func.attr in ('cos', 'sin', 'exp', 'log', 'sqrt', 'square', 'abs', 'maximum', 'minimum', 'cumsum', 'einsum', 'where'):
    return True
  return False


def _pure(n):
  """No calls with possible side effects worth ordering, no lazily evaluated parts, no walrus / await / yield."""
  for x in ast.walk(n):
    if isinstance(x, (ast.NamedExpr, ast.Await, ast.Yield, ast.YieldFrom, ast.Lambda, ast.IfExp, ast.BoolOp, ast.ListComp, ast.GeneratorExp, ast.SetComp, ast.DictComp, ast.Starred)):
      return False
    if isinstance(x, ast.Call):
      f = x.func
      name = f.attr if isinstance(f, ast.Attribute) else getattr(f, 'id', '')
      if name in ('pop', 'append', 'extend', 'update', 'add', 'remove', 'next', 'print', 'setdefault', 'warn', 'sort', 'fill_diagonal', 'set_n_cpu_devices', 'popitem', 'insert', 'clear'):
        return False
  return True


class _Scope:
  """Names of one function: parameters, locals bound at its own level, names bound in nested scopes."""

  def __init__(self, fn):
    self.params = set()
    a = fn.args
    for x in a.posonlyargs + a.args + a.kwonlyargs:
      self.params.add(x.arg)
    if a.vararg:
      self.params.add(a.vararg.arg)
    if a.kwarg:
      self.params.add(a.kwarg.arg)
    self.own = set()
    self.nested = set()
    self.declared = set()
    self.used = set()
    body = fn.body if isinstance(fn.body, list) else [fn.body]
    for st in body:
      self._walk(st, top=True)

  def _walk(self, n, top):
    if isinstance(n, (ast.FunctionDef, ast.AsyncFunctionDef, ast.ClassDef)):
      (self.own if top else self.nested).add(n.name)
      self.declared.add(n.name)  # never rename nested defs / classes
      for x in ast.walk(n):
        if x is n:
          continue
        if isinstance(x, ast.arg):
          self.nested.add(x.arg)
        if isinstance(x, ast.Name):
          self.used.add(x.id)
          if isinstance(x.ctx, (ast.Store, ast.Del)):
            self.nested.add(x.id)
        if isinstance(x, (ast.Global, ast.Nonlocal)):
          self.declared.update(x.names)
      return
    if isinstance(n, ast.Lambda):
      for x in ast.walk(n):
        if isinstance(x, ast.arg):
          self.nested.add(x.arg)
        if isinstance(x, ast.Name):
          self.used.add(x.id)
          if isinstance(x.ctx, ast.Store):
            self.nested.add(x.id)
      return
    if isinstance(n, (ast.ListComp, ast.SetComp, ast.DictComp, ast.GeneratorExp)):
      for x in ast.walk(n):
        if isinstance(x, ast.Name):
          self.used.add(x.id)
          if isinstance(x.ctx, ast.Store):
            self.nested.add(x.id)
      return
    if isinstance(n, (ast.Global, ast.Nonlocal)):
      self.declared.update(n.names)
    if isinstance(n, ast.Name):
      self.used.add(n.id)
      if isinstance(n.ctx, (ast.Store, ast.Del)):
        self.own.add(n.id)
    if isinstance(n, ast.ExceptHandler) and n.name:
      self.declared.add(n.name)
    if isinstance(n, (ast.Import, ast.ImportFrom)):
      for al in n.names:
        self.declared.add((al.asname or al.name).split('.')[0])
    for c in ast.iter_child_nodes(n):
      self._walk(c, top)


def _module_names(tree):
  out = set(dir(builtins))
  for x in ast.walk(tree):
    if isinstance(x, ast.Name):
      out.add(x.id)
    elif isinstance(x, ast.arg):
      out.add(x.arg)
    elif isinstance(x, (ast.FunctionDef, ast.ClassDef)):
      out.add(x.name)
    elif isinstance(x, ast.alias):
      out.add((x.asname or x.name).split('.')[0])
    elif isinstance(x, ast.keyword) and x.arg:
      out.add(x.arg)
    elif isinstance(x, ast.Attribute):
      out.add(x.attr)
  return out


class Rewriter:

  def __init__(self, seed, kinds=KINDS, p=0.35, signatures=None):
    self.rng = random.Random(seed)
    self.kinds = set(kinds)
    self.p = p
    self.log = []
    self.signatures = signatures or {}   # module alias or '' -> {function name: [param names]}
    self.fresh = 0

  def flip(self, p=None):
    return self.rng.random() < (self.p if p is None else p)

  # ----------------------------------------------------------- expression level
  def rewrite_expr(self, n):
    """Returns a (possibly) rewritten copy of expression node n (children first)."""
    for field, old in ast.iter_fields(n):
      if isinstance(old, ast.AST) and isinstance(old, ast.expr):
        setattr(n, field, self.rewrite_expr(old))
      elif isinstance(old, list):
        setattr(n, field, [self.rewrite_expr(x) if isinstance(x, ast.expr) else (self._kw(x) if isinstance(x, ast.keyword) else x) for x in old])
    if isinstance(n, ast.BinOp):
      if 'commute' in self.kinds and isinstance(n.op, ast.Mult) and self.flip() and not _sequence_evident(n):
        n.left, n.right = n.right, n.left
        self.log.append('commute*')
      elif 'commute' in self.kinds and isinstance(n.op, ast.Add) and self.flip() and not _sequence_evident(n) and (_numeric_evident(n.left) or _numeric_evident(n.right)):
        n.left, n.right = n.right, n.left
        self.log.append('commute+')
      elif 'negate' in self.kinds and isinstance(n.op, ast.Sub) and self.flip(self.p / 3) and not _sequence_evident(n) and (_numeric_evident(n.left) or _numeric_evident(n.right)):
        n = ast.BinOp(left=n.left, op=ast.Add(), right=ast.UnaryOp(op=ast.USub(), operand=n.right))
        self.log.append('negate')
    if isinstance(n, ast.Call) and 'keywords' in self.kinds and n.args and self.flip():
      params = self._signature(n.func)
      if params is not None and not any(isinstance(a, ast.Starred) for a in n.args) and len(n.args) <= len(params) \
          and not any(k.arg is None or k.arg in params[:len(n.args)] for k in n.keywords):
        n.keywords = [ast.keyword(arg=pn, value=a) for pn, a in zip(params, n.args)] + n.keywords
        n.args = []
        self.log.append('keywords')
    return n

  def _kw(self, k):
    k.value = self.rewrite_expr(k.value)
    return k

  def _signature(self, f):
    if isinstance(f, ast.Name):
      return self.signatures.get('', {}).get(f.id)
    if isinstance(f, ast.Attribute) and isinstance(f.value, ast.Name):
      return self.signatures.get(f.value.id, {}).get(f.attr)
    return None

  # ------------------------------------------------------------ statement level
  def rewrite_block(self, stmts, scope, taken):
    out = []
    for st in stmts:
      pre = []
      self.rewrite_stmt(st, scope, taken, pre)
      out.extend(pre)
      out.append(st)
    if 'ifexp' in self.kinds:
      out = self._ifexp(out)
    if 'swap' in self.kinds:
      i = 0
      while i + 1 < len(out):
        a, b = out[i], out[i + 1]
        if self._independent(a, b) and self.flip():
          out[i], out[i + 1] = b, a
          self.log.append('swap')
          i += 2
        else:
          i += 1
    return out

  def _ifexp(self, stmts):
    res = []
    i = 0
    while i < len(stmts):
      st = stmts[i]
      nxt = stmts[i + 1] if i + 1 < len(stmts) else None
      def one_assign(body):
        return len(body) == 1 and isinstance(body[0], ast.Assign) and len(body[0].targets) == 1 and isinstance(body[0].targets[0], ast.Name)
      if isinstance(st, ast.If) and one_assign(st.body) and one_assign(st.orelse) and st.body[0].targets[0].id == st.orelse[0].targets[0].id and self.flip():
        res.append(ast.Assign(targets=[ast.Name(id=st.body[0].targets[0].id, ctx=ast.Store())], value=ast.IfExp(test=st.test, body=st.body[0].value, orelse=st.orelse[0].value), lineno=st.lineno))
        self.log.append('if→ifexp')
      elif isinstance(st, ast.If) and not st.orelse and len(st.body) == 1 and isinstance(st.body[0], ast.Return) and st.body[0].value is not None \
          and isinstance(nxt, ast.Return) and nxt.value is not None and self.flip():
        res.append(ast.Return(value=ast.IfExp(test=st.test, body=st.body[0].value, orelse=nxt.value), lineno=st.lineno))
        self.log.append('if-return→ifexp')
        i += 1
      elif isinstance(st, ast.Assign) and len(st.targets) == 1 and isinstance(st.targets[0], ast.Name) and isinstance(st.value, ast.IfExp) and self.flip():
        t = st.targets[0].id
        res.append(ast.If(test=st.value.test, body=[ast.Assign(targets=[ast.Name(id=t, ctx=ast.Store())], value=st.value.body, lineno=st.lineno)],
                          orelse=[ast.Assign(targets=[ast.Name(id=t, ctx=ast.Store())], value=st.value.orelse, lineno=st.lineno)], lineno=st.lineno))
        self.log.append('ifexp→if')
      elif isinstance(st, ast.Return) and isinstance(st.value, ast.IfExp) and self.flip():
        res.append(ast.If(test=st.value.test, body=[ast.Return(value=st.value.body, lineno=st.lineno)], orelse=[], lineno=st.lineno))
        res.append(ast.Return(value=st.value.orelse, lineno=st.lineno))
        self.log.append('ifexp→if-return')
      else:
        res.append(st)
      i += 1
    return res

  def _independent(self, a, b):
    def simple(s):
      return isinstance(s, ast.Assign) and len(s.targets) == 1 and isinstance(s.targets[0], ast.Name) and _pure(s.value)
    if not (simple(a) and simple(b)):
      return False
    ta, tb = a.targets[0].id, b.targets[0].id
    if ta == tb:
      return False
    ra = {x.id for x in ast.walk(a.value) if isinstance(x, ast.Name)}
    rb = {x.id for x in ast.walk(b.value) if isinstance(x, ast.Name)}
    return ta not in rb and tb not in ra and ta not in ra and tb not in rb

  def rewrite_stmt(self, st, scope, taken, pre):
    if isinstance(st, (ast.FunctionDef, ast.AsyncFunctionDef)):
      self.rewrite_function(st, taken)
      return
    if isinstance(st, ast.ClassDef):
      st.body = self.rewrite_block(st.body, None, taken)
      return
    for field in ('body', 'orelse', 'finalbody'):
      blk = getattr(st, field, None)
      if isinstance(blk, list) and blk and isinstance(blk[0], ast.stmt):
        setattr(st, field, self.rewrite_block(blk, scope, taken))
    if isinstance(st, ast.Try):
      for h in st.handlers:
        h.body = self.rewrite_block(h.body, scope, taken)
    # expressions owned by this statement
    for field, old in ast.iter_fields(st):
      if field in ('body', 'orelse', 'finalbody', 'handlers', 'targets', 'target', 'decorator_list'):
        continue
      if isinstance(old, ast.expr):
        setattr(st, field, self.rewrite_expr(old))
      elif isinstance(old, list) and old and isinstance(old[0], ast.expr):
        setattr(st, field, [self.rewrite_expr(x) for x in old])
    if isinstance(st, ast.With):
      for it in st.items:
        it.context_expr = self.rewrite_expr(it.context_expr)
    # hoisting
    if scope is not None and 'hoist' in self.kinds and isinstance(st, (ast.Assign, ast.Return, ast.AugAssign, ast.AnnAssign)) and st.value is not None and self.flip():
      cands = []
      self._hoistable(st.value, cands, top=True)
      if cands:
        parent, field, idx, node = self.rng.choice(cands)
        self.fresh += 1
        name = f'_hoisted_{self.fresh}'
        while name in taken:
          self.fresh += 1
          name = f'_hoisted_{self.fresh}'
        taken.add(name)
        ref = ast.Name(id=name, ctx=ast.Load())
        if idx is None:
          setattr(parent, field, ref)
        else:
          getattr(parent, field)[idx] = ref
        pre.append(ast.Assign(targets=[ast.Name(id=name, ctx=ast.Store())], value=node, lineno=getattr(st, 'lineno', 0)))
        self.log.append('hoist')

  def _hoistable(self, n, out, top=False):
    """Collects (parent, field, index, node) of pure BinOp / Call sub-expressions evaluated unconditionally."""
    if isinstance(n, (ast.Lambda, ast.IfExp, ast.BoolOp, ast.ListComp, ast.GeneratorExp, ast.SetComp, ast.DictComp, ast.NamedExpr, ast.Compare)):
      return
    for field, old in ast.iter_fields(n):
      if isinstance(old, ast.expr):
        if isinstance(old, (ast.BinOp, ast.Call, ast.Subscript, ast.Attribute)) and _pure(old) and not isinstance(getattr(old, 'ctx', None), ast.Store):
          if not (isinstance(n, ast.Call) and field == 'func'):
            out.append((n, field, None, old))
        self._hoistable(old, out)
      elif isinstance(old, list):
        for i, x in enumerate(old):
          if isinstance(x, ast.expr) and not isinstance(x, ast.Starred):
            if isinstance(x, (ast.BinOp, ast.Call)) and _pure(x):
              out.append((n, field, i, x))
            self._hoistable(x, out)
          elif isinstance(x, ast.keyword) and x.arg is not None:
            if isinstance(x.value, (ast.BinOp, ast.Call)) and _pure(x.value):
              out.append((x, 'value', None, x.value))
            self._hoistable(x.value, out)

  def rewrite_function(self, fn, taken):
    scope = _Scope(fn)
    fn.body = self.rewrite_block(fn.body, scope, taken)
    if 'noise' in self.kinds and self.flip(self.p / 2):
      self.fresh += 1
      name = f'_noise_{self.fresh}'
      if name not in taken:
        taken.add(name)
        at = 1 if fn.body and isinstance(fn.body[0], ast.Expr) and isinstance(getattr(fn.body[0], 'value', None), ast.Constant) and isinstance(fn.body[0].value.value, str) else 0
        fn.body.insert(at, ast.Assign(targets=[ast.Name(id=name, ctx=ast.Store())], value=ast.Constant(value=0), lineno=fn.lineno))
        self.log.append('noise-local')
    if 'rename' in self.kinds:
      scope = _Scope(fn)
      cands = sorted(n for n in scope.own if n not in scope.params and n not in scope.nested and n not in scope.declared and not n.startswith('_hoisted_') and n != '_')
      mapping = {}
      for n in cands:
        if self.flip():
          new = f'{n}_rn'
          while new in taken:
            new += 'x'
          taken.add(new)
          mapping[n] = new
      if mapping:
        for x in ast.walk(fn):
          if isinstance(x, ast.Name) and x.id in mapping:
            x.id = mapping[x.id]
        self.log.append(f'rename×{len(mapping)}')


def signatures_of(module_trees):
  """{module short name: {function: [params]}} for module-level functions without *args."""
  out = {}
  for short, tree in module_trees.items():
    d = {}
    for st in tree.body:
      if isinstance(st, ast.FunctionDef) and not st.args.vararg and not st.args.posonlyargs and not st.decorator_list:
        d[st.name] = [a.arg for a in st.args.args]
    out[short] = d
  return out


def rewrite_source(src, seed, kinds=KINDS, p=0.35, signatures=None, own_module=None):
  tree = ast.parse(src)
  sigs = dict(signatures or {})
  if own_module is not None and own_module in sigs:
    sigs[''] = sigs[own_module]
  rw = Rewriter(seed, kinds, p, sigs)
  taken = _module_names(tree)
  tree.body = rw.rewrite_block(tree.body, None, taken)
  if 'noise' in rw.kinds:
    for st in tree.body:
      if isinstance(st, ast.FunctionDef) and not st.decorator_list and st.args.kwarg is None and rw.flip(rw.p / 3) and '_unused_option' not in taken:
        st.args.kwonlyargs.append(ast.arg(arg='_unused_option'))
        st.args.kw_defaults.append(ast.Constant(value=None))
        rw.log.append('noise-param')
    if rw.flip() and '_unused_fuzz_helper' not in taken:
      tree.body.append(ast.parse('def _unused_fuzz_helper(x, scale=1.0):\n  """Not used anywhere."""\n  y = x * scale\n  return y + 0\n').body[0])
      rw.log.append('noise-helper')
  ast.fix_missing_locations(tree)
  out = ast.unparse(tree) + '\n'
  compile(out, '<variant>', 'exec')
  return out, rw.log


# ------------------------------------------------------------------ variants of a whole tree
def package_sources(repo, pkg='dinosaur'):
  import os
  out = {}
  for root, dirs, files in os.walk(os.path.join(repo, pkg)):
    for fn in sorted(files):
      if fn.endswith('.py') and not fn.endswith('_test.py'):
        p = os.path.join(root, fn)
        out[os.path.relpath(p, repo)] = open(p, encoding='utf-8').read()
  return out


def make_variant(repo, seed, root, nmods='all', kinds=KINDS, p=0.35, only=None, pkg='dinosaur'):
  """Writes a behaviour-preserving rewrite of the package under `root`; returns (rewritten files, {file: log})."""
  import os
  import shutil
  srcs = package_sources(repo, pkg)
  trees = {os.path.basename(r)[:-3]: ast.parse(s) for r, s in srcs.items() if os.path.dirname(r) == pkg}
  sigs = signatures_of(trees)
  rng = random.Random(seed)
  rels = sorted(r for r in srcs if not r.endswith('__init__.py'))
  if only:
    chosen = [r for r in rels if os.path.basename(r)[:-3] in only]
  elif nmods == 'all':
    chosen = rels
  else:
    chosen = rng.sample(rels, min(int(nmods), len(rels)))
  shutil.copytree(os.path.join(repo, pkg), os.path.join(root, pkg), ignore=shutil.ignore_patterns('__pycache__', '*.pyc', '*_test.py', 'data'))
  logs = {}
  for r in chosen:
    new, log = rewrite_source(srcs[r], rng.randrange(1 << 30), kinds, p, sigs, own_module=os.path.basename(r)[:-3])
    with open(os.path.join(root, r), 'w', encoding='utf-8') as f:
      f.write(new)
    logs[r] = log
  return chosen, logs
