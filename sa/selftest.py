"""Sensitivity sweep: the rules are re-run on in-memory-derived source variants.

Each recipe is a textual edit of one source file (a *killing* mutant that
breaks the property, or an *equivalent* rewrite that must stay silent).  The
variant tree is written to a scratch directory outside /repo and /verif,
analysed statically with the same rules (never imported or executed) and
removed.  Recipes whose anchor text is no longer present are skipped.
"""
from __future__ import annotations

import concurrent.futures
import importlib
import os
import shutil
import subprocess
import sys
import tempfile

from sa import model

VERIF = os.path.dirname(os.path.dirname(os.path.abspath(__file__)))


def _scratch_root():
  base = os.environ.get('VERIF_SCRATCH') or tempfile.gettempdir()
  return tempfile.mkdtemp(prefix='dinosaur-sa-', dir=base)


def _copy_pkg(dst):
  src = os.path.join(model.REPO, model.PKG)
  shutil.copytree(src, os.path.join(dst, model.PKG), ignore=shutil.ignore_patterns('__pycache__', '*_test.py', 'data', '*.pyc'))


def run_variant(pid, recipe):
  name, relfile, old, new, kind = recipe[:5]
  root = _scratch_root()
  try:
    _copy_pkg(root)
    path = os.path.join(root, relfile)
    with open(path, encoding='utf-8') as f:
      src = f.read()
    if src.count(old) < 1:
      return name, kind, 'skipped', 'anchor text not present in the current tree'
    src = src.replace(old, new, 1)
    with open(path, 'w', encoding='utf-8') as f:
      f.write(src)
    env = dict(os.environ, VERIF_NO_EVIDENCE='1', VERIF_REPO=root)
    p = subprocess.run([sys.executable, '-B', '-m', 'sa.cli', pid, '--repo', root, '--tier', 'quick'],
                       cwd=VERIF, env=env, capture_output=True, text=True, timeout=600)
    out = p.stdout + p.stderr
    fired = [l for l in out.splitlines() if l.startswith('VIOLATION') or '] ' in l and ': [' in l]
    if p.returncode == 2:
      return name, kind, 'analysis-error', out.strip().splitlines()[-1][:300] if out.strip() else ''
    if p.returncode == 1:
      first = next((l for l in out.splitlines() if ': [' in l), '')
      return name, kind, 'fired', first[:300]
    return name, kind, 'silent', ''
  finally:
    shutil.rmtree(root, ignore_errors=True)


def sweep(pid, chk=None, jobs=None):
  try:
    mod = importlib.import_module('fixtures.mutants')
  except ModuleNotFoundError:
    return []
  recipes = [r for r in mod.RECIPES.get(pid, [])]
  results = []
  with concurrent.futures.ThreadPoolExecutor(max_workers=jobs or min(16, os.cpu_count() or 4)) as ex:
    for r in ex.map(lambda rc: run_variant(pid, rc), recipes):
      results.append(r)
  bad = []
  for name, kind, status, info in results:
    expect = 'fired' if kind == 'kill' else 'silent'
    good = status == expect or status == 'skipped'
    if chk is not None:
      key = f'sweep {name} ({kind})'
      if status == 'skipped':
        chk.note(f'{key}: skipped — {info}')
      elif good:
        chk.ok(f'{pid}.sweep', key, f'{status}: {info}')
      else:
        bad.append((name, kind, status, info))
    else:
      print(f'{"OK  " if good else "BAD "} {pid} {name:40s} {kind:5s} -> {status} {info[:160]}')
  if chk is not None and bad:
    raise model.AnalysisError(f'{pid}: the rules fail their own sensitivity sweep: {bad[:4]}')
  if chk is not None:
    seeded(pid, chk)
    equivalents(pid, chk)
  return results


def run_seeded(pid, sid):
  """Applies seeded/<sid>/patch.diff to a scratch copy of the package and runs the quick rules on it (must fire)."""
  patch = os.path.join(VERIF, 'seeded', sid, 'patch.diff')
  root = _scratch_root()
  try:
    shutil.copytree(os.path.join(model.REPO, model.PKG), os.path.join(root, model.PKG), ignore=shutil.ignore_patterns('__pycache__', '*.pyc', 'data'))
    ap = subprocess.run(['patch', '-p1', '-s', '--no-backup-if-mismatch', '-i', patch], cwd=root, capture_output=True, text=True)
    if ap.returncode != 0:
      return sid, 'skipped', 'patch does not apply to the current tree'
    env = dict(os.environ, VERIF_NO_EVIDENCE='1')
    p = subprocess.run([sys.executable, '-B', '-m', 'sa.cli', pid, '--repo', root, '--tier', 'quick'], cwd=VERIF, env=env, capture_output=True, text=True, timeout=900)
    first = next((l for l in (p.stdout + p.stderr).splitlines() if ': [' in l or l.startswith('ANALYSIS')), '')
    return sid, {0: 'silent', 1: 'fired', 2: 'analysis-error'}.get(p.returncode, str(p.returncode)), first[:300]
  finally:
    shutil.rmtree(root, ignore_errors=True)


def seeded(pid, chk):
  """Regression over the independently written breaking changes kept under seeded/: each one for this property must still fire."""
  d = os.path.join(VERIF, 'seeded')
  ids = sorted(x for x in (os.listdir(d) if os.path.isdir(d) else []) if x.startswith(pid + '_') and os.path.isfile(os.path.join(d, x, 'patch.diff')))
  if not ids:
    return
  with concurrent.futures.ThreadPoolExecutor(max_workers=min(8, os.cpu_count() or 4)) as ex:
    res = list(ex.map(lambda s_: run_seeded(pid, s_), ids))
  bad = []
  for sid, status, info in res:
    if status == 'fired':
      chk.ok(f'{pid}.seeded-changes', f'seeded change {sid}', f'fired: {info}')
    elif status == 'skipped':
      chk.note(f'seeded change {sid}: {info}')
    else:
      bad.append((sid, status, info))
  if bad:
    raise model.AnalysisError(f'{pid}: seeded breaking changes are no longer detected: {bad[:3]}')


def run_equivalent(pid, seed):
  from sa import equiv
  root = _scratch_root()
  try:
    chosen, logs = equiv.make_variant(model.REPO, seed, root)
    env = dict(os.environ, VERIF_NO_EVIDENCE='1')
    p = subprocess.run([sys.executable, '-B', '-m', 'sa.cli', pid, '--repo', root, '--tier', 'quick'], cwd=VERIF, env=env, capture_output=True, text=True, timeout=900)
    out = p.stdout + p.stderr
    first = next((l for l in out.splitlines() if ': [' in l or l.startswith('ANALYSIS')), '')
    return seed, sum(len(v) for v in logs.values()), p.returncode, first[:300]
  finally:
    shutil.rmtree(root, ignore_errors=True)


def equivalents(pid, chk, n=8):
  """The rules must give the same verdict on behaviour-preserving rewrites of the whole package (operand order, local names,
  temporaries, statement order, keyword / positional arguments): `n` random rewrites per run, seeded by VERIF_SEED."""
  base = int(chk.seed) * 1000003 + sum(ord(c) for c in pid)
  seeds = [base + i for i in range(n)]
  with concurrent.futures.ThreadPoolExecutor(max_workers=min(8, os.cpu_count() or 4)) as ex:
    res = list(ex.map(lambda s: run_equivalent(pid, s), seeds))
  bad = [(s, rc, msg) for s, nrew, rc, msg in res if rc != 0]
  for s, nrew, rc, msg in res:
    if rc == 0:
      chk.ok(f'{pid}.equivalent-rewrites', f'rewrite seed {s}', f'{nrew} behaviour-preserving rewrites over the package: same verdict')
  if bad:
    raise model.AnalysisError(f'{pid}: the rules change their verdict on behaviour-preserving rewrites (tools/equiv_fuzz.py --emit DIR --raw-seed {bad[0][0]}): {bad[:2]}')


if __name__ == '__main__':
  sys.path.insert(0, VERIF)
  pids = sys.argv[1:] or sorted(importlib.import_module('fixtures.mutants').RECIPES)
  for pid in pids:
    sweep(pid)
