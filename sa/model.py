"""Program model of the dinosaur package: modules, classes, functions.

Pure `ast` — nothing under /repo is imported or executed.
"""
from __future__ import annotations

import ast
import os
import unicodedata

REPO = os.environ.get('VERIF_REPO', '/repo')
PKG = 'dinosaur'


class AnalysisError(Exception):
  """An anchor vanished / the analysis cannot give a verdict (exit 2)."""


def norm_ident(s: str) -> str:
  return unicodedata.normalize('NFKC', s)


def unparse(node) -> str:
  try:
    return ast.unparse(node)
  except Exception:  # pragma: no cover
    return '<unparse failed>'


class FuncInfo:
  """A function, method, nested function or lambda."""

  def __init__(self, node, module, cls=None, parent=None, name=None):
    self.node = node
    self.module = module
    self.cls = cls
    self.parent = parent
    self.name = name or getattr(node, 'name', '<lambda>')
    self.name = norm_ident(self.name)
    if parent is not None:
      self.qualname = f'{parent.qualname}.<locals>.{self.name}'
    elif cls is not None:
      self.qualname = f'{cls.qualname}.{self.name}'
    else:
      self.qualname = f'{module.name}.{self.name}'
    self.decorators = list(getattr(node, 'decorator_list', []))
    self.nested = {}

  @property
  def args(self) -> ast.arguments:
    return self.node.args

  @property
  def body(self):
    if isinstance(self.node, ast.Lambda):
      return [ast.Return(value=self.node.body)]
    return self.node.body

  @property
  def lineno(self):
    return self.node.lineno

  @property
  def file(self):
    return self.module.relpath

  def decorator_names(self):
    out = []
    for d in self.decorators:
      out.append(unparse(d))
    return out

  def is_property(self):
    for d in self.decorator_names():
      if d in ('property', 'functools.cached_property', 'cached_property'):
        return True
    return False

  def is_classmethod(self):
    return 'classmethod' in self.decorator_names()

  def is_staticmethod(self):
    return 'staticmethod' in self.decorator_names()

  def param_names(self):
    a = self.args
    return [norm_ident(x.arg) for x in a.posonlyargs + a.args + a.kwonlyargs]

  def __repr__(self):
    return f'<Func {self.qualname}>'


class ClassInfo:

  def __init__(self, node, module):
    self.node = node
    self.module = module
    self.name = node.name
    self.qualname = f'{module.name}.{node.name}'
    self.bases_ast = list(node.bases)
    self.methods = {}
    self.fields = []  # (name, annotation ast, default ast or None)
    self.class_assigns = {}
    self.decorators = [unparse(d) for d in node.decorator_list]
    self.bases = []  # resolved ClassInfo, filled by Program
    for st in node.body:
      if isinstance(st, (ast.FunctionDef, ast.AsyncFunctionDef)):
        fi = FuncInfo(st, module, cls=self)
        self.methods[fi.name] = fi
      elif isinstance(st, ast.AnnAssign) and isinstance(st.target, ast.Name):
        self.fields.append((norm_ident(st.target.id), st.annotation, st.value))
      elif isinstance(st, ast.Assign):
        for t in st.targets:
          if isinstance(t, ast.Name):
            self.class_assigns[norm_ident(t.id)] = st.value

  @property
  def file(self):
    return self.module.relpath

  @property
  def lineno(self):
    return self.node.lineno

  def is_dataclass(self):
    return any(
        d.startswith('dataclasses.dataclass') or d.startswith('tree_math.struct')
        or d == 'dataclass'
        for d in self.decorators
    )

  def is_struct(self):
    return any(d.startswith('tree_math.struct') for d in self.decorators)

  def mro(self):
    out = [self]
    for b in self.bases:
      for c in b.mro():
        if c not in out:
          out.append(c)
    return out

  def find_method(self, name, after=None):
    """Looks `name` up along the MRO (optionally strictly after class `after`)."""
    mro = self.mro()
    if after is not None:
      if after in mro:
        mro = mro[mro.index(after) + 1:]
    for c in mro:
      if name in c.methods:
        return c.methods[name]
    return None

  def all_fields(self):
    """Dataclass fields in constructor order (base classes first)."""
    out = []
    seen = {}
    for c in reversed(self.mro()):
      if not c.is_dataclass() and c is not self:
        continue
      for f in c.fields:
        if f[0] in seen:
          out[seen[f[0]]] = (f[0], f[1], f[2], c)
        else:
          seen[f[0]] = len(out)
          out.append((f[0], f[1], f[2], c))
    return out

  def find_field(self, name):
    for c in self.mro():
      for f in c.fields:
        if f[0] == name:
          return (f[0], f[1], f[2], c)
    return None

  def find_class_assign(self, name):
    for c in self.mro():
      if name in c.class_assigns:
        return c.class_assigns[name], c
    return None

  def __repr__(self):
    return f'<Class {self.qualname}>'


class ModuleInfo:

  def __init__(self, name, path, relpath):
    self.name = name
    self.path = path
    self.relpath = relpath
    with open(path, encoding='utf-8') as f:
      self.source = f.read()
    self.tree = ast.parse(self.source, filename=path)
    self.imports = {}
    self.functions = {}
    self.classes = {}
    self.assigns = {}
    self.assign_nodes = {}
    for st in self.tree.body:
      self._top(st)

  def _top(self, st):
    if isinstance(st, ast.Import):
      for a in st.names:
        if a.asname:
          self.imports[a.asname] = a.name
        else:
          self.imports[a.name.split('.')[0]] = a.name.split('.')[0]
    elif isinstance(st, ast.ImportFrom):
      mod = st.module or ''
      for a in st.names:
        self.imports[a.asname or a.name] = f'{mod}.{a.name}' if mod else a.name
    elif isinstance(st, (ast.FunctionDef, ast.AsyncFunctionDef)):
      fi = FuncInfo(st, self)
      self.functions[fi.name] = fi
    elif isinstance(st, ast.ClassDef):
      self.classes[st.name] = ClassInfo(st, self)
    elif isinstance(st, ast.Assign):
      for t in st.targets:
        if isinstance(t, ast.Name):
          self.assigns[norm_ident(t.id)] = st.value
          self.assign_nodes[norm_ident(t.id)] = st
    elif isinstance(st, ast.AnnAssign) and isinstance(st.target, ast.Name):
      if st.value is not None:
        self.assigns[norm_ident(st.target.id)] = st.value
        self.assign_nodes[norm_ident(st.target.id)] = st
    elif isinstance(st, (ast.If, ast.Try, ast.With)):
      for sub in ast.iter_child_nodes(st):
        if isinstance(sub, ast.stmt):
          self._top(sub)

  def __repr__(self):
    return f'<Module {self.name}>'


class Program:
  """All non-test modules of the package, parsed from the working tree."""

  def __init__(self, repo=None):
    self.repo = repo or REPO
    self.modules = {}
    self.funcs = {}
    self.classes = {}
    pkgdir = os.path.join(self.repo, PKG)
    if not os.path.isdir(pkgdir):
      raise AnalysisError(f'package directory {pkgdir} not found')
    for root, dirs, files in os.walk(pkgdir):
      dirs.sort()
      for fn in sorted(files):
        if not fn.endswith('.py') or fn.endswith('_test.py'):
          continue
        path = os.path.join(root, fn)
        rel = os.path.relpath(path, self.repo)
        modname = rel[:-3].replace(os.sep, '.')
        if modname.endswith('.__init__'):
          modname = modname[: -len('.__init__')]
        try:
          self.modules[modname] = ModuleInfo(modname, path, rel)
        except SyntaxError as e:
          raise AnalysisError(f'cannot parse {rel}: {e}') from e
    for m in self.modules.values():
      for f in m.functions.values():
        self.funcs[f.qualname] = f
      for c in m.classes.values():
        self.classes[c.qualname] = c
        for f in c.methods.values():
          self.funcs[f.qualname] = f
    for c in self.classes.values():
      for b in c.bases_ast:
        bc = self.resolve_class_expr(b, c.module)
        if bc is not None:
          c.bases.append(bc)

  # ---- lookup helpers -----------------------------------------------------
  def module(self, short):
    name = short if short.startswith(PKG) else f'{PKG}.{short}'
    if name not in self.modules:
      raise AnalysisError(f'module {name} not found')
    return self.modules[name]

  def func(self, qual):
    """`module.func` or `module.Class.method` (package prefix optional)."""
    name = qual if qual.startswith(PKG + '.') else f'{PKG}.{qual}'
    if name in self.funcs:
      return self.funcs[name]
    # inherited method?
    parts = name.rsplit('.', 1)
    if parts[0] in self.classes:
      f = self.classes[parts[0]].find_method(parts[1])
      if f is not None:
        return f
    raise AnalysisError(f'anchor {name} not found in the working tree')

  def cls(self, qual):
    name = qual if qual.startswith(PKG + '.') else f'{PKG}.{qual}'
    if name not in self.classes:
      raise AnalysisError(f'anchor class {name} not found in the working tree')
    return self.classes[name]

  def has_func(self, qual):
    try:
      self.func(qual)
      return True
    except AnalysisError:
      return False

  def resolve_dotted(self, dotted):
    """Returns ('module', ModuleInfo) / ('class', ClassInfo) / ('func', FuncInfo)
    / ('assign', (ModuleInfo, name)) / ('ext', dotted)."""
    if dotted in self.modules:
      return ('module', self.modules[dotted])
    if '.' in dotted:
      head, tail = dotted.rsplit('.', 1)
      if head in self.modules:
        m = self.modules[head]
        if tail in m.classes:
          return ('class', m.classes[tail])
        if tail in m.functions:
          return ('func', m.functions[tail])
        if tail in m.assigns:
          return ('assign', (m, tail))
        if tail in m.imports:
          return self.resolve_dotted(m.imports[tail])
    return ('ext', dotted)

  def resolve_class_expr(self, expr, module):
    """Best-effort resolution of an annotation / base-class expression."""
    if isinstance(expr, ast.Constant) and isinstance(expr.value, str):
      try:
        expr = ast.parse(expr.value, mode='eval').body
      except SyntaxError:
        return None
    if isinstance(expr, ast.BinOp) and isinstance(expr.op, ast.BitOr):
      cands = []
      for side in (expr.left, expr.right):
        c = self.resolve_class_expr(side, module)
        if c is not None:
          cands.append(c)
      uniq = []
      for c in cands:
        if c not in uniq:
          uniq.append(c)
      return uniq[0] if len(uniq) == 1 else None
    if isinstance(expr, ast.Subscript):
      base = unparse(expr.value)
      if base in ('Optional', 'typing.Optional'):
        return self.resolve_class_expr(expr.slice, module)
      return None
    if isinstance(expr, ast.Name):
      n = norm_ident(expr.id)
      if n in module.classes:
        return module.classes[n]
      if n in module.assigns:
        return self.resolve_class_expr(module.assigns[n], module)
      if n in module.imports:
        kind, val = self.resolve_dotted(module.imports[n])
        if kind == 'class':
          return val
        if kind == 'assign':
          return self.resolve_class_expr(val[0].assigns[val[1]], val[0])
      return None
    if isinstance(expr, ast.Attribute):
      dotted = self._dotted(expr, module)
      if dotted is None:
        return None
      kind, val = self.resolve_dotted(dotted)
      if kind == 'class':
        return val
      if kind == 'assign':
        return self.resolve_class_expr(val[0].assigns[val[1]], val[0])
      return None
    return None

  def _dotted(self, expr, module):
    parts = []
    while isinstance(expr, ast.Attribute):
      parts.append(expr.attr)
      expr = expr.value
    if not isinstance(expr, ast.Name):
      return None
    head = norm_ident(expr.id)
    if head in module.imports:
      head = module.imports[head]
    elif head in module.classes or head in module.functions or head in module.assigns:
      head = f'{module.name}.{head}'
    else:
      return None
    return '.'.join([head] + list(reversed(parts)))

  def all_functions(self):
    """Every FuncInfo, including nested defs and lambdas discovered lazily."""
    return list(self.funcs.values())


_PROGRAM = None


def program() -> Program:
  global _PROGRAM
  if _PROGRAM is None:
    _PROGRAM = Program()
  return _PROGRAM
