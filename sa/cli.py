"""CLI: python3-vt -m sa.cli C07 [--tier quick|thorough] [--replay file]."""
from __future__ import annotations

import argparse
import importlib
import json
import os
import signal
import sys
import traceback

sys.path.insert(0, os.path.dirname(os.path.dirname(os.path.abspath(__file__))))

from sa import model, report  # noqa: E402


def main(argv=None):
  ap = argparse.ArgumentParser()
  ap.add_argument('pid')
  ap.add_argument('--tier', default=os.environ.get('VERIF_TIER', 'quick'))
  ap.add_argument('--replay', default=None)
  ap.add_argument('--repo', default=None)
  args = ap.parse_args(argv)
  if args.repo:
    model.REPO = args.repo
  tier = args.tier if args.tier in ('quick', 'thorough') else 'quick'
  seed = int(os.environ.get('VERIF_SEED', '0') or 0)
  pid = args.pid.upper()
  try:
    mod = importlib.import_module(f'rules.{pid.lower()}')
  except ModuleNotFoundError:
    print(f'ANALYSIS-ERROR: no rules for property {pid}')
    return 2
  chk = report.Check(pid, tier, seed)
  if tier == 'quick' and hasattr(signal, 'SIGALRM'):
    # a check that does not terminate is broken, not a verdict: give up loudly instead of hanging the caller
    def _too_slow(signum, frame):
      print(f'ANALYSIS-ERROR: property={pid} the analysis did not finish within its time budget')
      os._exit(2)
    signal.signal(signal.SIGALRM, _too_slow)
    signal.alarm(int(os.environ.get('VERIF_QUICK_BUDGET_S', '300')))
  try:
    prog = model.program()
    meta = mod.run(chk, prog, tier)
    if tier == 'thorough' and not args.replay and not os.environ.get('VERIF_NO_EVIDENCE'):
      from sa import selftest
      selftest.sweep(pid, chk)
      meta['explanation'] += (' Thorough tier: the same rules are additionally re-run on source variants derived from the current tree '
                              '(killing mutants must fire, equivalent rewrites must stay silent; variants are analysed statically, never executed).')
    rc = chk.finish(**meta)
    if args.replay:
      with open(args.replay) as f:
        rec = json.load(f)
      hit = [v for v in chk.violations if v['rule'] == rec['rule'] and v['key'] == rec['key']]
      if hit:
        print(f"REPLAY: still violated: [{rec['rule']}] {rec['key']}")
        return 1
      print(f"REPLAY: no longer violated: [{rec['rule']}] {rec['key']}")
      return 0
    return rc
  except model.AnalysisError as e:
    if report.unlisted_violations(chk) and not args.replay:
      # Rules that ran before the analysis stopped already found violations: report those (the verdict stands),
      # and say that the remaining rules could not be evaluated on this tree.
      print(f'ANALYSIS-INCOMPLETE: property={pid} {e} — the violations below were established before the analysis stopped')
      return chk.finish(explanation=f'incomplete run: {e}', trusted_base=['python ast'], analysed={})
    print(f'ANALYSIS-ERROR: property={pid} {e}')
    return 2
  except Exception:  # a crash is never a verdict
    traceback.print_exc()
    print(f'ANALYSIS-ERROR: property={pid} internal error in the analysis (see traceback)')
    return 2


if __name__ == '__main__':
  sys.exit(main())
