"""Syntax-tree normalisation for the few rules that have to read imperative code (list building, loops) as syntax.

`normalised(func_node, signatures)` returns a deep copy in which
  * a local that is assigned exactly once and read exactly once, by the statement that immediately follows the assignment
    in the same block, is substituted into that statement (undoes `tmp = f(x); use(tmp)` spellings),
  * calls to the given repo functions have their arguments in positional order (keywords that name leading parameters
    become positional).
Neither changes what the function computes; they only remove spelling freedom before a rule looks at shapes.
"""
from __future__ import annotations

import ast
import copy


def _loads(node, name):
  return [n for n in ast.walk(node) if isinstance(n, ast.Name) and n.id == name and isinstance(n.ctx, ast.Load)]


def _stores(node, name):
  out = []
  for n in ast.walk(node):
    if isinstance(n, ast.Name) and n.id == name and isinstance(n.ctx, (ast.Store, ast.Del)):
      out.append(n)
    elif isinstance(n, ast.arg) and n.arg == name:
      out.append(n)
  return out


def _simple_value(v):
  for n in ast.walk(v):
    if isinstance(n, (ast.Lambda, ast.NamedExpr, ast.Yield, ast.YieldFrom, ast.Await, ast.ListComp, ast.SetComp, ast.DictComp, ast.GeneratorExp)):
      return False
  return True


class _Subst(ast.NodeTransformer):

  def __init__(self, name, value):
    self.name, self.value, self.done = name, value, 0

  def visit_Name(self, node):
    if node.id == self.name and isinstance(node.ctx, ast.Load):
      self.done += 1
      return copy.deepcopy(self.value)
    return node

  def visit_Lambda(self, node):
    return node   # never substitute under a binder

  visit_ListComp = visit_SetComp = visit_DictComp = visit_GeneratorExp = visit_FunctionDef = visit_Lambda


def _inline_block(stmts, fn):
  changed = True
  while changed:
    changed = False
    for i in range(len(stmts) - 1):
      st = stmts[i]
      if not (isinstance(st, ast.Assign) and len(st.targets) == 1 and isinstance(st.targets[0], ast.Name) and _simple_value(st.value)):
        continue
      name = st.targets[0].id
      if len(_stores(fn, name)) != 1 or len(_loads(fn, name)) != 1:
        continue
      # the reader is the next statement, or a later one when only simple assignments that neither read the temporary nor
      # rebind one of its inputs lie in between (two temporaries bound one after the other)
      reads = {n.id for n in ast.walk(st.value) if isinstance(n, ast.Name)} | {name}
      j = i + 1
      while j < len(stmts) and not _loads(stmts[j], name):
        mid = stmts[j]
        if not (isinstance(mid, ast.Assign) and len(mid.targets) == 1 and isinstance(mid.targets[0], ast.Name) and _simple_value(mid.value) and mid.targets[0].id not in reads):
          break
        j += 1
      if j >= len(stmts) or not _loads(stmts[j], name):
        continue
      nxt = stmts[j]
      if isinstance(nxt, (ast.FunctionDef, ast.AsyncFunctionDef, ast.ClassDef, ast.While, ast.With, ast.Try)):
        continue
      if isinstance(nxt, ast.For):
        where, attr = nxt, 'iter'
      elif isinstance(nxt, ast.If):
        where, attr = nxt, 'test'
      else:
        where, attr = None, None
      sub = _Subst(name, st.value)
      if where is not None:
        if len(_loads(getattr(where, attr), name)) != 1:
          continue
        setattr(where, attr, sub.visit(getattr(where, attr)))
      else:
        stmts[j] = sub.visit(nxt)
      if sub.done == 1:
        del stmts[i]
        changed = True
        break
  for st in stmts:
    if isinstance(st, (ast.FunctionDef, ast.AsyncFunctionDef)):
      _inline_block(st.body, st)   # a nested function has its own locals
      continue
    for field in ('body', 'orelse', 'finalbody'):
      blk = getattr(st, field, None)
      if isinstance(blk, list) and blk and isinstance(blk[0], ast.stmt) and not isinstance(st, ast.ClassDef):
        _inline_block(blk, fn)
    if isinstance(st, ast.Try):
      for h in st.handlers:
        _inline_block(h.body, fn)


class _Positional(ast.NodeTransformer):

  def __init__(self, signatures):
    self.signatures = signatures

  def visit_Call(self, node):
    self.generic_visit(node)
    f = node.func
    name = f.id if isinstance(f, ast.Name) else (f.attr if isinstance(f, ast.Attribute) else None)
    params = self.signatures.get(name)
    if params is None or any(isinstance(a, ast.Starred) for a in node.args) or any(k.arg is None for k in node.keywords):
      return node
    kw = {k.arg: k for k in node.keywords}
    i = len(node.args)
    while i < len(params) and params[i] in kw:
      node.args.append(kw.pop(params[i]).value)
      i += 1
    node.keywords = [k for k in node.keywords if k.arg in kw]
    return node


def _ifexp_block(stmts):
  """`if c: x = A else: x = B` → `x = A if c else B` (one spelling for a conditional value)."""
  for i, st in enumerate(stmts):
    for field in ('body', 'orelse', 'finalbody'):
      blk = getattr(st, field, None)
      if isinstance(blk, list) and blk and isinstance(blk[0], ast.stmt):
        _ifexp_block(blk)
    one = lambda b: len(b) == 1 and isinstance(b[0], ast.Assign) and len(b[0].targets) == 1 and isinstance(b[0].targets[0], ast.Name)
    if isinstance(st, ast.If) and one(st.body) and one(st.orelse) and st.body[0].targets[0].id == st.orelse[0].targets[0].id:
      stmts[i] = ast.Assign(targets=[ast.Name(id=st.body[0].targets[0].id, ctx=ast.Store())],
                            value=ast.IfExp(test=st.test, body=st.body[0].value, orelse=st.orelse[0].value), lineno=st.lineno)


def normalised(func_node, signatures=None):
  fn = copy.deepcopy(func_node)
  _ifexp_block(fn.body)
  _inline_block(fn.body, fn)
  if signatures:
    fn = _Positional(signatures).visit(fn)
  ast.fix_missing_locations(fn)
  return fn
