"""Late-binding closures: a function object created inside a loop that reads a
loop-rebound variable as a *free* variable and outlives the iteration sees only
the last value (python closes over variables, not values)."""
from __future__ import annotations

import ast

STORING_CALLS = {'append', 'extend', 'insert', 'setdefault', 'add', 'partial', 'update'}


def _params(fn):
  a = fn.args
  return {x.arg for x in a.posonlyargs + a.args + a.kwonlyargs} | ({a.vararg.arg} if a.vararg else set()) | ({a.kwarg.arg} if a.kwarg else set())


def _free_loads(fn):
  """Names loaded in the body of a lambda / def that are not its parameters or locals."""
  body = [fn.body] if isinstance(fn, ast.Lambda) else fn.body
  bound = set(_params(fn))
  loads = set()
  for b in body:
    for n in ast.walk(b):
      if isinstance(n, ast.Name):
        if isinstance(n.ctx, ast.Store):
          bound.add(n.id)
        else:
          loads.add(n.id)
      elif isinstance(n, ast.comprehension):
        for t in ast.walk(n.target):
          if isinstance(t, ast.Name):
            bound.add(t.id)
  return loads - bound


def _assigned(stmts):
  out = set()
  for s in stmts:
    for n in ast.walk(s):
      if isinstance(n, ast.Name) and isinstance(n.ctx, ast.Store):
        out.add(n.id)
      elif isinstance(n, (ast.FunctionDef, ast.AsyncFunctionDef)):
        out.add(n.name)
  return out


def _parents(root):
  par = {}
  for n in ast.walk(root):
    for c in ast.iter_child_nodes(n):
      par[c] = n
  return par


def late_bound(func_node):
  """[(closure node, variable, how it escapes)] for closures in loops of `func_node`."""
  out = []
  par = _parents(func_node)
  for loop in ast.walk(func_node):
    if not isinstance(loop, (ast.For, ast.While)):
      continue
    rebound = _assigned(loop.body) | (_assigned([loop.target]) if isinstance(loop, ast.For) else set())
    after = set()
    # names read after the loop in the enclosing function, or anywhere in a return
    end = loop.end_lineno
    for n in ast.walk(func_node):
      if isinstance(n, ast.Name) and isinstance(n.ctx, ast.Load) and n.lineno > end:
        after.add(n.id)
    for s in loop.body:
      for n in ast.walk(s):
        if not isinstance(n, (ast.Lambda, ast.FunctionDef)):
          continue
        free = _free_loads(n) & rebound
        if isinstance(n, ast.FunctionDef):
          free.discard(n.name)
        if not free:
          continue
        esc = _escape(n, par, loop, after)
        if esc:
          for v in sorted(free):
            out.append((n, v, esc))
  return out


def _escape(n, par, loop, after):
  if isinstance(n, ast.FunctionDef):
    name = n.name
    return f'`{name}` is used after the loop' if name in after else _carried(name, loop)
  p = par.get(n)
  while isinstance(p, (ast.IfExp, ast.BoolOp, ast.Tuple, ast.List, ast.Dict, ast.Starred)):
    n, p = p, par.get(p)
  if isinstance(p, ast.Assign):
    for t in p.targets:
      if isinstance(t, ast.Name):
        if t.id in after:
          return f'assigned to `{t.id}`, which is used after the loop'
        c = _carried(t.id, loop)
        if c:
          return c
      elif isinstance(t, (ast.Subscript, ast.Attribute)):
        return f'stored into `{ast.unparse(t)}`'
    return None
  if isinstance(p, (ast.Return, ast.Yield)):
    return 'returned from inside the loop'
  if isinstance(p, ast.Call) and n is not p.func:
    f = p.func
    if isinstance(f, ast.Attribute) and f.attr in STORING_CALLS:
      return f'stored through `.{f.attr}(…)`'
    if isinstance(f, ast.Attribute) and f.attr == 'partial' or isinstance(f, ast.Name) and f.id == 'partial':
      return 'wrapped in functools.partial'
  if isinstance(p, ast.keyword):
    return None
  return None


def _carried(name, loop):
  """`name` is read in the loop body at a position before (or in) its own assignment → survives into the next iteration."""
  first_store = None
  for s in loop.body:
    for n in ast.walk(s):
      if isinstance(n, ast.Name) and n.id == name and isinstance(n.ctx, ast.Store):
        if first_store is None or (n.lineno, n.col_offset) < first_store:
          first_store = (n.lineno, n.col_offset)
  for s in loop.body:
    for n in ast.walk(s):
      if isinstance(n, ast.Name) and n.id == name and isinstance(n.ctx, ast.Load):
        if first_store is None or n.lineno <= first_store[0]:
          return f'`{name}` is carried into the next iteration'
  return None
