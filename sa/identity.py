"""Identity of configuration objects: which fields take part in ==/hash.

Coordinate and grid objects are used as *static* arguments of jitted functions, as keys of functools caches and as pytree aux
data; two objects that compare equal share traced constants and cached tables.  A field that is read by the numerics but left
out of the comparison lets a second, physically different configuration silently reuse the first one's constants.

  excluded_fields(cls)  -> [(field, lineno, how)]   for dataclass classes (ClassInfo)
"""
from __future__ import annotations

import ast


def _kw(call, name):
  for k in call.keywords:
    if k.arg == name:
      return k.value
  return None


def _is_false(n):
  return isinstance(n, ast.Constant) and n.value is False


def _self_reads(fn):
  """Names x for every `self.x` / `other.x`-style attribute load on the first parameter of fn."""
  if not fn.args.args:
    return set()
  me = fn.args.args[0].arg
  return {n.attr for n in ast.walk(fn) if isinstance(n, ast.Attribute) and isinstance(n.value, ast.Name) and n.value.id == me}


def _reach(cls, names):
  """Expands property / method names to the fields their bodies read (transitively)."""
  fields = {f for f, _, _ in cls.fields}
  seen, todo, out = set(), list(names), set()
  while todo:
    n = todo.pop()
    if n in seen:
      continue
    seen.add(n)
    if n in fields:
      out.add(n)
      continue
    m = cls.find_method(n) if hasattr(cls, 'find_method') else cls.methods.get(n)
    if m is not None:
      todo.extend(_self_reads(m.node))
  return out


def decorator_eq_false(cls):
  for d in cls.node.decorator_list:
    if isinstance(d, ast.Call) and _is_false(_kw(d, 'eq') or ast.Constant(value=True)):
      return True
  return False


def excluded_fields(cls):
  """Fields of a dataclass that do not take part in its equality / hash."""
  out = []
  if decorator_eq_false(cls):
    return out   # identity comparison: nothing is ever shared between distinct objects
  eq = cls.methods.get('__eq__')
  hs = cls.methods.get('__hash__')
  for st in cls.node.body:
    if isinstance(st, ast.AnnAssign) and isinstance(st.target, ast.Name) and isinstance(st.value, ast.Call):
      fn = st.value.func
      nm = fn.attr if isinstance(fn, ast.Attribute) else getattr(fn, 'id', '')
      if nm == 'field':
        c, h = _kw(st.value, 'compare'), _kw(st.value, 'hash')
        if _is_false(_kw(st.value, 'init') or ast.Constant(value=True)):
          continue   # not a constructor argument: derived / scratch storage (memo dicts, lazily filled tables), not configuration
        if eq is None and c is not None and _is_false(c):
          out.append((st.target.id, st.lineno, 'dataclasses.field(compare=False)'))
        elif hs is None and h is not None and _is_false(h) and not (c is not None and _is_false(c)):
          pass   # hash=False with compare=True is consistent (coarser hash)
  if eq is not None:
    reached = _reach(cls, _self_reads(eq.node))
    for f, _, _ in cls.fields:
      if f not in reached:
        out.append((f, eq.node.lineno, 'custom __eq__ never looks at it'))
    if hs is not None:
      extra = _reach(cls, _self_reads(hs.node)) - reached
      for f in sorted(extra):
        out.append((f, hs.node.lineno, 'custom __hash__ uses it but __eq__ does not (equal objects with different hashes)'))
  return out


def field_is_read(prog, cls, field):
  """Whether any non-test module loads `.field` (on any object): the field influences some computation."""
  for m in prog.modules.values():
    for n in ast.walk(m.tree):
      if isinstance(n, ast.Attribute) and n.attr == field and isinstance(n.ctx, ast.Load):
        return True
  return False
